(** C16: facts about the lexer of model/Svg.v (bytes only, no scalars). *)
From Coq Require Import ZArith List Bool Lia.
From KV Require Import Scalar Svg SvgSpec.
Import ListNotations.
Local Open Scope Z_scope.

(** ** byte classes as arithmetic *)
Lemma is_ws_iff c : is_ws c = true <-> (c = 32 \/ c = 9 \/ c = 10 \/ c = 12 \/ c = 13).
Proof. unfold is_ws. rewrite !orb_true_iff, !Z.eqb_eq. tauto. Qed.
Lemma is_digit_iff c : is_digit c = true <-> 48 <= c <= 57.
Proof. unfold is_digit. rewrite andb_true_iff, !Z.leb_le. tauto. Qed.
Lemma is_lower_iff c : is_lower c = true <-> 97 <= c <= 122.
Proof. unfold is_lower. rewrite andb_true_iff, !Z.leb_le. tauto. Qed.
Lemma is_upper_iff c : is_upper c = true <-> 65 <= c <= 90.
Proof. unfold is_upper. rewrite andb_true_iff, !Z.leb_le. tauto. Qed.
Lemma is_sign_iff c : is_sign c = true <-> (c = 45 \/ c = 43).
Proof. unfold is_sign. rewrite orb_true_iff, !Z.eqb_eq. tauto. Qed.
Lemma is_e_iff c : is_e c = true <-> (c = 101 \/ c = 69).
Proof. unfold is_e. rewrite orb_true_iff, !Z.eqb_eq. tauto. Qed.
Lemma is_period_iff c : is_period c = true <-> c = 46.
Proof. unfold is_period. apply Z.eqb_eq. Qed.
Lemma is_comma_iff c : is_comma c = true <-> c = 44.
Proof. unfold is_comma. apply Z.eqb_eq. Qed.
Lemma number_start_iff p c :
  number_start p c = true <-> (c = 45 \/ (p = true /\ c = 43) \/ c = 46 \/ 48 <= c <= 57).
Proof.
  unfold number_start. rewrite !orb_true_iff, andb_true_iff, !Z.eqb_eq, is_digit_iff. tauto.
Qed.

Lemma false_iff_not b (P : Prop) : (b = true <-> P) -> (b = false <-> ~ P).
Proof.
  intros [A B]; destruct b; split; intros H; try congruence.
  - exfalso; apply H; auto.
  - intros HP. apply B in HP. discriminate.
Qed.
Arguments false_iff_not {b P}.

(** turn every byte-class fact into linear arithmetic *)
Ltac cls_hyp :=
  repeat match goal with
  | H : (_ = true) \/ _ |- _ => destruct H
  | H : (_ = false) \/ _ |- _ => destruct H
  | H : is_ws _ = true |- _ => apply is_ws_iff in H
  | H : is_ws _ = false |- _ => apply (false_iff_not (is_ws_iff _)) in H
  | H : is_digit _ = true |- _ => apply is_digit_iff in H
  | H : is_digit _ = false |- _ => apply (false_iff_not (is_digit_iff _)) in H
  | H : is_lower _ = true |- _ => apply is_lower_iff in H
  | H : is_lower _ = false |- _ => apply (false_iff_not (is_lower_iff _)) in H
  | H : is_upper _ = true |- _ => apply is_upper_iff in H
  | H : is_upper _ = false |- _ => apply (false_iff_not (is_upper_iff _)) in H
  | H : is_sign _ = true |- _ => apply is_sign_iff in H
  | H : is_sign _ = false |- _ => apply (false_iff_not (is_sign_iff _)) in H
  | H : is_e _ = true |- _ => apply is_e_iff in H
  | H : is_e _ = false |- _ => apply (false_iff_not (is_e_iff _)) in H
  | H : is_period _ = true |- _ => apply is_period_iff in H
  | H : is_period _ = false |- _ => apply (false_iff_not (is_period_iff _)) in H
  | H : is_comma _ = true |- _ => apply is_comma_iff in H
  | H : is_comma _ = false |- _ => apply (false_iff_not (is_comma_iff _)) in H
  | H : number_start _ _ = true |- _ => apply number_start_iff in H
  | H : number_start _ _ = false |- _ => apply (false_iff_not (number_start_iff _ _)) in H
  end.
Ltac cls_goal :=
  match goal with
  | |- is_ws _ = true => apply is_ws_iff
  | |- is_ws _ = false => apply (false_iff_not (is_ws_iff _))
  | |- is_digit _ = true => apply is_digit_iff
  | |- is_digit _ = false => apply (false_iff_not (is_digit_iff _))
  | |- is_lower _ = true => apply is_lower_iff
  | |- is_lower _ = false => apply (false_iff_not (is_lower_iff _))
  | |- is_upper _ = true => apply is_upper_iff
  | |- is_upper _ = false => apply (false_iff_not (is_upper_iff _))
  | |- is_sign _ = true => apply is_sign_iff
  | |- is_sign _ = false => apply (false_iff_not (is_sign_iff _))
  | |- is_e _ = true => apply is_e_iff
  | |- is_e _ = false => apply (false_iff_not (is_e_iff _))
  | |- is_period _ = true => apply is_period_iff
  | |- is_period _ = false => apply (false_iff_not (is_period_iff _))
  | |- is_comma _ = true => apply is_comma_iff
  | |- is_comma _ = false => apply (false_iff_not (is_comma_iff _))
  | |- number_start _ _ = true => apply number_start_iff
  | |- number_start _ _ = false => apply (false_iff_not (number_start_iff _ _))
  | _ => idtac
  end.
Ltac cls := cls_hyp; cls_goal; try lia; try tauto.

(** case split on a byte-class test appearing in the goal *)
Ltac split_cls f c := let E := fresh "E" in destruct (f c) eqn:E.

(** ** heads *)
Definition head_is (P : Z -> bool) (k : list Z) : Prop :=
  match k with [] => True | c :: _ => P c = true end.
(** [k] is empty or starts with a byte that is neither white space nor a comma *)
Definition tailk (k : list Z) : Prop :=
  match k with [] => True | c :: _ => is_ws c = false /\ is_comma c = false end.
Definition nows (k : list Z) : Prop :=
  match k with [] => True | c :: _ => is_ws c = false end.
Definition nodigit (k : list Z) : Prop :=
  match k with [] => True | c :: _ => is_digit c = false end.

Lemma tailk_nows k : tailk k -> nows k.
Proof. destruct k; simpl; tauto. Qed.

(** ** skip_ws *)
Lemma all_ws_app a b : all_ws (a ++ b) <-> all_ws a /\ all_ws b.
Proof. unfold all_ws. rewrite forallb_app, andb_true_iff. tauto. Qed.
Lemma all_ws_nil : all_ws []. Proof. reflexivity. Qed.
Lemma all_ws_cons c w : all_ws (c :: w) <-> is_ws c = true /\ all_ws w.
Proof. unfold all_ws; simpl. rewrite andb_true_iff. tauto. Qed.
Lemma digits_app a b : digits (a ++ b) <-> digits a /\ digits b.
Proof. unfold digits. rewrite forallb_app, andb_true_iff. tauto. Qed.
Lemma digits_cons c w : digits (c :: w) <-> is_digit c = true /\ digits w.
Proof. unfold digits; simpl. rewrite andb_true_iff. tauto. Qed.
Lemma digits_nil : digits []. Proof. reflexivity. Qed.

Lemma skip_ws_app w k : all_ws w -> skip_ws (w ++ k) = skip_ws k.
Proof.
  induction w as [|c w IH]; simpl; intros Hw; auto.
  apply all_ws_cons in Hw as [Hc Hw]. rewrite Hc. auto.
Qed.
Lemma skip_ws_nows k : nows k -> skip_ws k = k.
Proof. destruct k; simpl; auto. intros ->. reflexivity. Qed.
Lemma skip_ws_is_nows s : nows (skip_ws s).
Proof. induction s as [|c s IH]; simpl; auto. destruct (is_ws c) eqn:E; auto. Qed.
Lemma skip_ws_idem s : skip_ws (skip_ws s) = skip_ws s.
Proof. apply skip_ws_nows, skip_ws_is_nows. Qed.
Lemma skip_ws_split s : exists w, all_ws w /\ s = w ++ skip_ws s.
Proof.
  induction s as [|c s (w & Hw & E)]; simpl.
  - exists []; split; auto. apply all_ws_nil.
  - destruct (is_ws c) eqn:Ec.
    + exists (c :: w); split. apply all_ws_cons; auto. simpl. congruence.
    + exists []; split; auto. apply all_ws_nil.
Qed.
Lemma skip_ws_length s : (length (skip_ws s) <= length s)%nat.
Proof. induction s as [|c s IH]; simpl; auto. destruct (is_ws c); simpl; lia. Qed.

(** ** scan_digits *)
Lemma scan_digits_app d k : digits d -> nodigit k -> scan_digits (d ++ k) = (d, k).
Proof.
  induction d as [|c d IH]; simpl; intros Hd Hk.
  - destruct k; simpl in *; auto. rewrite Hk. reflexivity.
  - apply digits_cons in Hd as [Hc Hd]. rewrite Hc, IH; auto.
Qed.
Lemma scan_digits_spec s d r : scan_digits s = (d, r) -> s = d ++ r /\ digits d /\ nodigit r.
Proof.
  revert d r. induction s as [|c s IH]; simpl; intros d r E.
  - inversion E; subst. repeat split; simpl; auto.
  - destruct (is_digit c) eqn:Ec.
    + destruct (scan_digits s) as [t r'] eqn:Es. inversion E; subst.
      destruct (IH _ _ eq_refl) as (-> & Hd & Hr). repeat split; auto. apply digits_cons; auto.
    + inversion E; subst. repeat split; simpl; auto.
Qed.

(** ** scan_mant *)
Definition noperiod (k : list Z) : Prop :=
  match k with [] => True | c :: _ => is_period c = false end.

Lemma scan_mant_seen b k : digits b -> nodigit k -> scan_mant true (b ++ k) = (b, length b, k).
Proof.
  induction b as [|c b IH]; simpl; intros Hd Hk.
  - destruct k; simpl in *; auto. rewrite Hk, andb_false_r. reflexivity.
  - apply digits_cons in Hd as [Hc Hd]. rewrite Hc, IH; auto.
Qed.
Lemma scan_mant_int a k : digits a -> nodigit k -> noperiod k -> scan_mant false (a ++ k) = (a, length a, k).
Proof.
  induction a as [|c a IH]; simpl; intros Hd Hk Hp.
  - destruct k; simpl in *; auto. rewrite Hk, Hp. reflexivity.
  - apply digits_cons in Hd as [Hc Hd]. rewrite Hc, IH; auto.
Qed.
Lemma scan_mant_dot a b k : digits a -> digits b -> nodigit k ->
  scan_mant false (a ++ 46 :: b ++ k) = (a ++ 46 :: b, (length a + length b)%nat, k).
Proof.
  induction a as [|c a IH]; simpl; intros Ha Hb Hk.
  - rewrite scan_mant_seen; auto.
  - apply digits_cons in Ha as [Hc Ha]. rewrite Hc, IH; auto.
Qed.

Lemma scan_mant_spec_seen s t n r : scan_mant true s = (t, n, r) ->
  s = t ++ r /\ digits t /\ n = length t /\ nodigit r.
Proof.
  revert t n r. induction s as [|c s IH]; simpl; intros t n r E.
  - inversion E; subst; repeat split; simpl; auto.
  - destruct (is_digit c) eqn:Ec.
    + destruct (scan_mant true s) as [[t' n'] r'] eqn:Es. inversion E; subst.
      destruct (IH _ _ _ eq_refl) as (-> & Hd & -> & Hr). repeat split; auto. apply digits_cons; auto.
    + rewrite andb_false_r in E. inversion E; subst; repeat split; simpl; auto.
Qed.
Lemma scan_mant_spec s t n r : scan_mant false s = (t, n, r) ->
  s = t ++ r /\
  ((digits t /\ n = length t /\ nodigit r /\ noperiod r) \/
   (exists a b, t = a ++ 46 :: b /\ digits a /\ digits b /\ n = (length a + length b)%nat /\ nodigit r)).
Proof.
  revert t n r. induction s as [|c s IH]; simpl; intros t n r E.
  - inversion E; subst. split; auto. left; repeat split; simpl; auto.
  - destruct (is_digit c) eqn:Ec.
    + destruct (scan_mant false s) as [[t' n'] r'] eqn:Es. inversion E; subst.
      destruct (IH _ _ _ eq_refl) as (-> & [(Hd & -> & Hr & Hp)|(a & b & -> & Ha & Hb & -> & Hr)]).
      * split; auto. left; repeat split; auto. apply digits_cons; auto.
      * split; auto. right. exists (c :: a), b. repeat split; auto. apply digits_cons; auto.
    + destruct (is_period c) eqn:Ep; simpl in E.
      * destruct (scan_mant true s) as [[t' n'] r'] eqn:Es. inversion E; subst.
        destruct (scan_mant_spec_seen _ _ _ _ Es) as (-> & Hd & -> & Hr).
        split; auto. right. exists [], t'. cls_hyp. subst c. repeat split; auto.
      * inversion E; subst. split; auto. left; repeat split; simpl; auto.
Qed.

(** ** scan_exp *)
Definition noe (k : list Z) : Prop :=
  match k with [] => True | c :: _ => is_e c = false end.

Lemma sign_str_cases sg : sign_str sg -> sg = [] \/ exists c, sg = [c] /\ is_sign c = true.
Proof. intros [-> | [-> | ->]]; auto; right; eexists; split; eauto. Qed.

Lemma scan_exp_fwd e k : exp_str e -> (e <> [] -> nodigit k) -> (e = [] -> noe k) ->
  scan_exp (e ++ k) = Ok (e, k).
Proof.
  intros [->|(c & sg & d & -> & Hc & Hsg & Hd0 & Hd)] Hk1 Hk2.
  - simpl. destruct k as [|c r]; auto. specialize (Hk2 eq_refl). simpl in Hk2. simpl. rewrite Hk2. reflexivity.
  - assert (Hk : nodigit k) by (apply Hk1; discriminate).
    destruct d as [|d0 d']; [congruence|]. apply digits_cons in Hd as [Hd0' Hd'].
    destruct (sign_str_cases _ Hsg) as [->|(s & -> & Hs)]; simpl; rewrite Hc.
    + assert (is_sign d0 = false) as -> by cls. rewrite Hd0', (scan_digits_app d' k) by auto. reflexivity.
    + rewrite Hs, Hd0', (scan_digits_app d' k) by auto. reflexivity.
Qed.

Lemma scan_exp_spec s e r : scan_exp s = Ok (e, r) ->
  s = e ++ r /\ exp_str e /\ (e <> [] -> nodigit r) /\ (e = [] -> noe r).
Proof.
  unfold scan_exp. destruct s as [|c s].
  - intros E; inversion E; subst. repeat split; simpl; auto. left; auto.
  - destruct (is_e c) eqn:Ec.
    + destruct s as [|c1 r1]; [discriminate|].
      destruct (is_sign c1) eqn:Es.
      * destruct r1 as [|c2 r2]; [discriminate|].
        destruct (is_digit c2) eqn:Ed; [|discriminate].
        destruct (scan_digits r2) as [ds r3] eqn:Esd. intros E; inversion E; subst.
        destruct (scan_digits_spec _ _ _ Esd) as (-> & Hds & Hr).
        repeat split; auto.
        -- right. exists c, [c1], (c2 :: ds). repeat split; auto; try discriminate.
           ++ cls_hyp. destruct Es as [-> | ->]; [right; left|right; right]; auto.
           ++ apply digits_cons; auto.
        -- intros; discriminate.
      * destruct (is_digit c1) eqn:Ed; [|discriminate].
        destruct (scan_digits r1) as [ds r3] eqn:Esd. intros E; inversion E; subst.
        destruct (scan_digits_spec _ _ _ Esd) as (-> & Hds & Hr).
        repeat split; auto.
        -- right. exists c, [], (c1 :: ds). repeat split; auto; try discriminate.
           ++ left; auto.
           ++ apply digits_cons; auto.
        -- intros; discriminate.
    + intros E; inversion E; subst. repeat split; simpl; auto; try congruence. left; auto.
Qed.

Lemma scan_exp_err s x : scan_exp s = Err x -> x = Wrong.
Proof.
  unfold scan_exp. destruct s as [|c s]; [discriminate|].
  destruct (is_e c); [|discriminate].
  destruct s as [|c1 r1]; [intros E; inversion E; auto|].
  destruct (is_sign c1).
  - destruct r1 as [|c2 r2]; [intros E; inversion E; auto|].
    destruct (is_digit c2); [destruct (scan_digits r2); discriminate|intros E; inversion E; auto].
  - destruct (is_digit c1); [destruct (scan_digits r1); discriminate|intros E; inversion E; auto].
Qed.

(** ** facts about the grammar *)
Lemma existsb_digits (f : Z -> bool) d :
  (forall c, is_digit c = true -> f c = false) -> digits d -> existsb f d = false.
Proof.
  intros Hf. induction d as [|c d IH]; simpl; auto. intros Hd. apply digits_cons in Hd as [Hc Hd].
  rewrite (Hf _ Hc), IH; auto.
Qed.
Lemma existsb_sign (f : Z -> bool) sg :
  (forall c, is_sign c = true -> f c = false) -> sign_str sg -> existsb f sg = false.
Proof. intros Hf [-> | [-> | ->]]; simpl; auto; rewrite Hf; auto. Qed.

Lemma mant_str_head m : mant_str m ->
  exists c r, m = c :: r /\ (is_digit c = true \/ is_period c = true).
Proof.
  intros [[Hn Hd]|(a & b & -> & Ha & Hb & Hab)].
  - destruct m as [|c r]; [congruence|]. apply digits_cons in Hd as [Hc _]. eauto.
  - destruct a as [|c a]; simpl; [eauto|]. apply digits_cons in Ha as [Hc _]. eauto.
Qed.

Lemma number_tok_head t : number_tok t ->
  exists c r, t = c :: r /\ (is_sign c = true \/ is_digit c = true \/ is_period c = true).
Proof.
  intros (sg & m & e & -> & Hsg & Hm & He).
  destruct (mant_str_head _ Hm) as (c & r & -> & Hc).
  destruct (sign_str_cases _ Hsg) as [->|(s & -> & Hs)]; simpl; eauto.
  all: try (exists c, (r ++ e); split; auto; tauto).
Qed.

Lemma number_tok_tailk t k : number_tok t -> tailk (t ++ k).
Proof. intros Ht. destruct (number_tok_head _ Ht) as (c & r & -> & Hc). simpl. split; cls. Qed.

Lemma number_tok_start t : number_tok t ->
  exists c r, t = c :: r /\ number_start true c = true /\ is_lower c = false /\ is_upper c = false.
Proof.
  intros Ht. destruct (number_tok_head _ Ht) as (c & r & -> & Hc). exists c, r. split; auto.
  repeat split; cls.
Qed.

Lemma has_e_parts sg m e : sign_str sg -> mant_str m -> exp_str e ->
  has_e (sg ++ m ++ e) = negb (match e with [] => true | _ => false end).
Proof.
  intros Hsg Hm He. unfold has_e. rewrite !existsb_app.
  rewrite (existsb_sign is_e) by (auto; intros; cls).
  assert (existsb is_e m = false) as ->.
  { destruct Hm as [[_ Hd]|(a & b & -> & Ha & Hb & _)].
    - apply existsb_digits; auto. intros; cls.
    - rewrite existsb_app. simpl. rewrite !existsb_digits; auto; intros; cls. }
  simpl. destruct He as [->|(c & s & d & -> & Hc & _)]; simpl; auto. rewrite Hc. reflexivity.
Qed.

Lemma has_dot_or_e_parts sg m e : sign_str sg -> mant_str m -> exp_str e ->
  has_dot_or_e (sg ++ m ++ e) = false -> e = [] /\ digits m.
Proof.
  intros Hsg Hm He. unfold has_dot_or_e. rewrite !existsb_app, !orb_false_iff. intros (_ & H1 & H2).
  split.
  - destruct He as [->|(c & s & d & -> & Hc & _)]; auto. simpl in H2. rewrite Hc, orb_true_r in H2. discriminate.
  - destruct Hm as [[_ Hd]|(a & b & -> & _)]; auto.
    rewrite existsb_app in H1. simpl in H1. rewrite orb_true_r in H1. discriminate.
Qed.

(** ** lex_number, forward *)
Lemma lex_number_ws w s : all_ws w -> lex_number (w ++ s) = lex_number s.
Proof. intros Hw. unfold lex_number. rewrite skip_ws_app; auto. Qed.

Lemma lex_number_fwd sg m e k : sign_str sg -> mant_str m -> exp_str e -> delim (sg ++ m ++ e) k ->
  lex_number (sg ++ m ++ e ++ k) = Ok (sg ++ m ++ e, k).
Proof.
  intros Hsg Hm He Hd.
  assert (Hk1 : e <> [] -> nodigit k).
  { intros _. destruct k; simpl in *; tauto. }
  assert (Hk2 : e = [] -> noe k).
  { intros ->. destruct k as [|c k]; simpl in *; auto. apply Hd.
    rewrite (has_e_parts _ _ _ Hsg Hm) by (left; auto). reflexivity. }
  assert (Hk3 : e = [] -> digits m -> noperiod k).
  { intros -> Hdm. destruct k as [|c k]; simpl in *; auto. apply Hd.
    unfold has_dot_or_e. rewrite !existsb_app. simpl.
    rewrite (existsb_sign (fun c => is_period c || is_e c)) by (auto; intros; apply orb_false_iff; split; cls).
    rewrite existsb_digits; auto. intros; apply orb_false_iff; split; cls. }
  assert (Hek : nodigit (e ++ k)).
  { destruct He as [->|(c & s & d & -> & Hc & _)]; simpl; [destruct k; simpl in *; tauto|cls]. }
  assert (Hpk : digits m -> noperiod (e ++ k)).
  { intros Hdm. destruct He as [->|(c & s & d & -> & Hc & _)]; simpl; [apply Hk3; auto|cls]. }
  (* the mantissa scan *)
  assert (Hscan : exists n, scan_mant false (m ++ e ++ k) = (m, n, e ++ k) /\ (0 < n)%nat).
  { destruct Hm as [[Hn Hdm]|(a & b & -> & Ha & Hb & Hab)].
    - exists (length m). split; [apply scan_mant_int; auto|]. destruct m; simpl; [congruence|lia].
    - exists (length a + length b)%nat. split.
      + rewrite <- app_assoc. simpl. apply scan_mant_dot; auto.
      + destruct Hab as [Hx|Hx]; [destruct a|destruct b]; simpl; try congruence; lia. }
  destruct Hscan as (n & Hscan & Hn).
  destruct (mant_str_head _ Hm) as (c0 & r0 & Em & Hc0).
  unfold lex_number.
  destruct (sign_str_cases _ Hsg) as [->|(s & -> & Hs)].
  - simpl app. rewrite skip_ws_nows by (rewrite Em; simpl; destruct Hc0; cls).
    rewrite Em at 1. simpl app. cbv beta iota.
    assert (is_sign c0 = false) as -> by (destruct Hc0; cls).
    change (c0 :: r0 ++ e ++ k) with ((c0 :: r0) ++ e ++ k). rewrite <- Em. rewrite Hscan, scan_exp_fwd; auto.
    assert ((0 <? Z.of_nat n) = true) as -> by (apply Z.ltb_lt; lia). reflexivity.
  - simpl app. rewrite skip_ws_nows by (simpl; cls). cbv beta iota. rewrite Hs.
    rewrite Hscan, scan_exp_fwd; auto.
    assert ((0 <? Z.of_nat n) = true) as -> by (apply Z.ltb_lt; lia). reflexivity.
Qed.

Lemma lex_number_tok t k : number_tok t -> delim t k -> lex_number (t ++ k) = Ok (t, k).
Proof.
  intros (sg & m & e & -> & Hsg & Hm & He) Hd. rewrite <- !app_assoc. apply lex_number_fwd; auto.
Qed.

(** ** opt_comma, get_flag, get_cmd *)
Lemma opt_comma_ws w s : all_ws w -> opt_comma (w ++ s) = opt_comma s.
Proof. intros Hw. unfold opt_comma. rewrite skip_ws_app; auto. Qed.
Lemma opt_comma_tail k : tailk k -> opt_comma k = k.
Proof.
  intros Hk. unfold opt_comma. rewrite skip_ws_nows by (apply tailk_nows; auto).
  destruct k as [|c k]; auto. simpl in Hk. destruct Hk as [_ ->]. reflexivity.
Qed.
Lemma opt_comma_comma r : opt_comma (44 :: r) = r.
Proof. reflexivity. Qed.

(** after a comma-wsp? separator followed by [k], [opt_comma] leaves [k] up to white space *)
Lemma opt_comma_sep s k : Sep s -> tailk k -> skip_ws (opt_comma (s ++ k)) = k.
Proof.
  intros (w1 & w2 & comma & -> & Hw1 & Hw2) Hk. rewrite <- app_assoc, opt_comma_ws; auto.
  destruct comma.
  - change ((44 :: w2) ++ k) with (44 :: w2 ++ k). rewrite opt_comma_comma.
    rewrite skip_ws_app; auto. apply skip_ws_nows, tailk_nows; auto.
  - change ([] ++ k) with k. rewrite opt_comma_tail; auto. apply skip_ws_nows, tailk_nows; auto.
Qed.

Lemma Sep_nil : Sep [].
Proof. exists [], [], false. repeat split. Qed.
Lemma Sep_ws w : all_ws w -> Sep w.
Proof. intros Hw. exists w, [], false. rewrite app_nil_r. repeat split; auto. Qed.

(** a non-empty separator starts with white space or a comma *)
Lemma Sep_head s k t : Sep s -> s <> [] -> delim t (s ++ k).
Proof.
  intros (w1 & w2 & comma & -> & Hw1 & Hw2) Hn.
  destruct w1 as [|c w1].
  - destruct comma; simpl in *; [|congruence]. repeat split; intros; cls.
  - apply all_ws_cons in Hw1 as [Hc _]. simpl. repeat split; intros; cls.
Qed.

Lemma get_flag_ws w s : all_ws w -> get_flag (w ++ s) = get_flag s.
Proof. intros Hw. unfold get_flag. rewrite skip_ws_app; auto. Qed.
Lemma get_flag_fwd (b : bool) k : get_flag ((if b then 49 else 48) :: k) = Ok (b, k).
Proof. destruct b; reflexivity. Qed.

Lemma get_cmd_ws p lc w s : all_ws w -> get_cmd p lc (w ++ s) = get_cmd p lc s.
Proof. intros Hw. unfold get_cmd. rewrite skip_ws_app; auto. Qed.
Lemma get_cmd_skip p lc s : get_cmd p lc (skip_ws s) = get_cmd p lc s.
Proof. unfold get_cmd. rewrite skip_ws_idem. reflexivity. Qed.
Lemma get_cmd_letter p lc c k : is_lower c || is_upper c = true -> get_cmd p lc (c :: k) = Some (c, k).
Proof.
  intros Hc. unfold get_cmd.
  rewrite skip_ws_nows by (simpl; apply orb_true_iff in Hc as [Hc|Hc]; cls).
  rewrite Hc. reflexivity.
Qed.
Lemma get_cmd_repeat p lc c k : lc <> 0 -> number_start p c = true ->
  get_cmd p lc (c :: k) = Some (lc, c :: k).
Proof.
  intros Hlc Hc. unfold get_cmd. rewrite skip_ws_nows by (simpl; cls).
  assert (is_lower c = false) as -> by cls. assert (is_upper c = false) as -> by cls.
  rewrite Hc. simpl. destruct (Z.eqb_spec lc 0); [congruence|]. reflexivity.
Qed.
Lemma get_cmd_end p lc w : all_ws w -> get_cmd p lc w = None.
Proof.
  intros Hw. unfold get_cmd. replace w with (w ++ []) by apply app_nil_r. rewrite skip_ws_app; auto.
Qed.

(** ** lex_number, backward: what an accepted token looks like *)
Lemma lex_number_skip s : lex_number (skip_ws s) = lex_number s.
Proof. unfold lex_number. rewrite skip_ws_idem. reflexivity. Qed.

Lemma lex_number_spec s t r : lex_number s = Ok (t, r) ->
  skip_ws s = t ++ r /\ number_tok t /\ delim t r /\ t <> [].
Proof.
  unfold lex_number. destruct (skip_ws s) as [|c s0] eqn:Es; [discriminate|].
  set (sg := if is_sign c then [c] else []).
  set (s1 := if is_sign c then s0 else c :: s0).
  assert (Esplit : c :: s0 = sg ++ s1) by (unfold sg, s1; destruct (is_sign c); reflexivity).
  assert (Hsg : sign_str sg).
  { unfold sg. destruct (is_sign c) eqn:E; [|left; auto]. cls_hyp. destruct E as [-> | ->]; [right; left|right; right]; auto. }
  replace (if is_sign c then ([c], s0) else ([], c :: s0)) with (sg, s1)
    by (unfold sg, s1; destruct (is_sign c); reflexivity).
  destruct (scan_mant false s1) as [[m n] s2] eqn:Em.
  destruct (scan_exp s2) as [[e s3]|x] eqn:Ee; [|discriminate].
  destruct (0 <? Z.of_nat n) eqn:En; [|discriminate].
  intros E; inversion E; subst t r; clear E.
  apply Z.ltb_lt in En.
  destruct (scan_mant_spec _ _ _ _ Em) as (E1 & Hm).
  destruct (scan_exp_spec _ _ _ Ee) as (E2 & He & Hr1 & Hr2).
  assert (Hmant : mant_str m).
  { destruct Hm as [(Hd & -> & _)|(a & b & -> & Ha & Hb & -> & _)].
    - left; split; auto. destruct m; simpl in *; [lia|discriminate].
    - right. exists a, b. repeat split; auto.
      destruct a, b; simpl in *; try lia; [right|left|left]; discriminate. }
  split; [|split; [|split]].
  - rewrite Esplit, E1, E2, <- !app_assoc. reflexivity.
  - exists sg, m, e; auto.
  - assert (Hnd : nodigit s3).
    { destruct e as [|e0 e']; [|apply Hr1; discriminate].
      simpl in E2. subst s2. destruct Hm as [(_ & _ & Hn & _)|(a & b & _ & _ & _ & _ & Hn)]; auto. }
    destruct s3 as [|c3 s3]; simpl; auto. simpl in Hnd. split; [auto|split].
    + rewrite (has_e_parts _ _ _ Hsg Hmant He). destruct e; simpl; [|discriminate]. intros _. apply (Hr2 eq_refl).
    + intros Hde. destruct (has_dot_or_e_parts _ _ _ Hsg Hmant He Hde) as [-> Hdm].
      simpl in E2; subst s2.
      destruct Hm as [(_ & _ & _ & Hp)|(a & b & -> & _)]; [exact Hp|].
      exfalso. apply digits_app in Hdm as [_ Hdm]. apply digits_cons in Hdm as [Hdm _]. cls.
  - destruct (mant_str_head _ Hmant) as (c0 & r0 & -> & _). destruct sg; discriminate.
Qed.

Lemma lex_number_err s x : lex_number s = Err x ->
  (x = UnexpectedEof /\ skip_ws s = []) \/ (x = Wrong /\ skip_ws s <> []).
Proof.
  unfold lex_number. destruct (skip_ws s) as [|c s0] eqn:Es.
  - intros E; inversion E; auto.
  - destruct (if is_sign c then ([c], s0) else ([], c :: s0)) as [sg s1].
    destruct (scan_mant false s1) as [[m n] s2].
    destruct (scan_exp s2) as [[e s3]|y] eqn:Ee.
    + destruct (0 <? Z.of_nat n); intros E; inversion E. right; split; auto; discriminate.
    + intros E; inversion E; subst. right; split; [eapply scan_exp_err; eauto|discriminate].
Qed.

Lemma lex_number_consumes s t r : lex_number s = Ok (t, r) -> (length r < length s)%nat.
Proof.
  intros E. destruct (lex_number_spec _ _ _ E) as (Es & _ & _ & Hne).
  pose proof (skip_ws_length s) as Hl. rewrite Es, app_length in Hl.
  destruct t; [congruence|]. simpl in Hl. lia.
Qed.

Lemma opt_comma_length s : (length (opt_comma s) <= length s)%nat.
Proof.
  unfold opt_comma. pose proof (skip_ws_length s). destruct (skip_ws s) as [|c r]; simpl in *; [lia|].
  destruct (is_comma c); simpl; lia.
Qed.
Lemma get_flag_consumes s b r : get_flag s = Ok (b, r) -> (length r < length s)%nat.
Proof.
  unfold get_flag. pose proof (skip_ws_length s). destruct (skip_ws s) as [|c r']; [discriminate|].
  destruct (c =? 48); [|destruct (c =? 49)]; intros E; inversion E; subst; simpl in *; lia.
Qed.
Lemma get_flag_skip s : get_flag (skip_ws s) = get_flag s.
Proof. unfold get_flag. rewrite skip_ws_idem. reflexivity. Qed.

(** ** the accepted token is the longest prefix that matches the grammar *)
Lemma app_eq_app_cases {A} (x1 z1 x2 z2 : list A) : x1 ++ z1 = x2 ++ z2 ->
  (exists l, x1 = x2 ++ l /\ z2 = l ++ z1) \/ (exists l, x2 = x1 ++ l /\ z1 = l ++ z2).
Proof.
  revert x2. induction x1 as [|a x1 IH]; intros x2 E.
  - right. exists x2. auto.
  - destruct x2 as [|b x2].
    + left. exists (a :: x1). auto.
    + inversion E; subst. destruct (IH _ H1) as [(l & -> & ->)|(l & -> & ->)]; [left|right]; exists l; auto.
Qed.

Lemma delim_head t u r r' : u <> [] -> delim t (u ++ r) -> delim t (u ++ r').
Proof. destruct u; [congruence|]. simpl. auto. Qed.

Lemma lex_number_maximal s t r : lex_number s = Ok (t, r) ->
  forall t' r', skip_ws s = t' ++ r' -> number_tok t' -> (length t' <= length t)%nat.
Proof.
  intros E t' r' Es' Ht'. destruct (lex_number_spec _ _ _ E) as (Es & Ht & Hd & _).
  rewrite Es in Es'. destruct (app_eq_app_cases _ _ _ _ Es') as [(l & -> & _)|(u & -> & Er)].
  - rewrite app_length. lia.
  - destruct u as [|c u]; [rewrite app_nil_r; lia|]. exfalso.
    (* the same text, followed by a space, would lex in two ways *)
    subst r.
    assert (E1 : lex_number (t ++ (c :: u) ++ [32]) = Ok (t, (c :: u) ++ [32])).
    { apply lex_number_tok; auto. }
    assert (E2 : lex_number ((t ++ c :: u) ++ [32]) = Ok (t ++ c :: u, [32])).
    { apply lex_number_tok; auto. simpl. repeat split; intros; reflexivity. }
    rewrite <- app_assoc in E2. rewrite E1 in E2. injection E2 as E3 E4.
    apply (f_equal (@length Z)) in E3. rewrite app_length in E3. simpl in E3. lia.
Qed.
