(** C16: corollaries at the real instance, the drawing level (absolute/relative, H/V, S/T),
    errors after a valid prefix, arcs. *)
From Coq Require Import ZArith Reals List Bool Lia Lra.
From KV Require Import Scalar RInst Geom Curves Path ShapeTypes Svg SvgSpec
  C16_lex C16_parse C16_roundtrip C16_errors.
Import ListNotations.
Local Open Scope Z_scope.

(** ** the lexer, as equivalences *)
Lemma lex_number_iff s t r :
  lex_number s = Ok (t, r) <-> (skip_ws s = t ++ r /\ number_tok t /\ delim t r).
Proof.
  split.
  - intros E. destruct (lex_number_spec _ _ _ E) as (A & B & C & _). auto.
  - intros (A & B & C). rewrite <- lex_number_skip, A. apply lex_number_tok; auto.
Qed.

Lemma lex_number_err_iff s e : lex_number s = Err e <->
  (e = UnexpectedEof /\ skip_ws s = []) \/
  (e = Wrong /\ skip_ws s <> [] /\ ~ exists t r, skip_ws s = t ++ r /\ number_tok t /\ delim t r).
Proof.
  split.
  - intros E. destruct (lex_number_err _ _ E) as [[-> Hs]|[-> Hs]]; [left; auto|right].
    repeat split; auto. intros (t & r & Hx). apply lex_number_iff in Hx. congruence.
  - intros [[-> Hs]|(-> & Hs & Hno)].
    + unfold lex_number. rewrite Hs. reflexivity.
    + destruct (lex_number s) as [[t r]|x] eqn:E.
      * exfalso. apply Hno. exists t, r. apply lex_number_iff; auto.
      * destruct (lex_number_err _ _ E) as [[-> Hs']|[-> _]]; [contradiction|reflexivity].
Qed.

(** ** the real instance *)
Local Open Scope R_scope.
Lemma Radd_comm : forall a b : R, fadd a b = fadd b a.
Proof. intros; cbn; ring. Qed.
Lemma Rmul2_comm : forall a : R, fmul f2 a = fmul a f2.
Proof. intros; cbn; ring. Qed.
Lemma Rfeqb_eq : forall a b : R, feqb a b = true -> a = b.
Proof. intros a b. cbn. apply Reqb_true. Qed.

Lemma spellings_real (num_of : list Z -> option R) (frem : R -> R -> R)
      (cmds : list (@SCmd R)) (sps : list Spell) (tail : list Z) :
  spells_ok num_of None cmds sps -> all_ws tail ->
  from_svg num_of frem fixed (render cmds sps tail) = interp frem cmds.
Proof. apply spellings_generic; [apply Radd_comm|apply Rmul2_comm]. Qed.

Lemma two_spellings_real (num_of : list Z -> option R) (frem : R -> R -> R) (cmds : list (@SCmd R)) sps1 sps2 t1 t2 :
  spells_ok num_of None cmds sps1 -> spells_ok num_of None cmds sps2 -> all_ws t1 -> all_ws t2 ->
  from_svg num_of frem fixed (render cmds sps1 t1) = from_svg num_of frem fixed (render cmds sps2 t2).
Proof. intros. rewrite !spellings_real; auto. Qed.

Lemma roundtrip_real (num_of : list Z -> option R) (show : R -> list Z) (frem : R -> R -> R) :
  (forall x, shown_str (show x)) -> (forall x, num_of (show x) = Some x) ->
  forall els : list (PathEl R), starts_with_move els ->
  (exists els', from_svg num_of frem fixed (write_to show els) = Ok els' /\ segments els' = segments els) /\
  (closes_followed els -> from_svg num_of frem fixed (write_to show els) = Ok els).
Proof.
  intros Hs Hp els Hm.
  assert (Hf : Forall (el_fin (fun _ : R => True)) els).
  { apply Forall_forall. intros e _. destruct e; cbn; unfold pt_fin; tauto. }
  split.
  - apply (roundtrip_segments num_of show frem (fun _ => True) Radd_comm Rmul2_comm); auto. apply Rfeqb_eq.
  - intros Hc. apply (roundtrip_elements num_of show frem (fun _ => True) Radd_comm Rmul2_comm); auto.
Qed.

(** ** errors after a valid prefix *)
Lemma end_ok_letter {T} (prev : option (@SCmd T * Spell)) (cmds : list (@SCmd T)) sps w c rest :
  is_letter c = true -> (w = [] -> is_e c = false) -> end_ok prev cmds sps w (c :: rest).
Proof.
  intros Hc He. revert prev sps.
  assert (Hg : forall c0 sp0, @end_glue T c0 sp0 w (c :: rest)).
  { intros c0 sp0 Hw. destruct (last_arg c0 sp0) as [[a t]|]; auto. destruct a; cbn; auto.
    specialize (He Hw). unfold is_letter in Hc. apply orb_true_iff in Hc.
    repeat split; intros; auto; destruct Hc; cls. }
  induction cmds as [|c1 cs IH]; intros prev sps; destruct sps; cbn [end_ok]; auto;
    destruct prev as [[c0 sp0]|]; auto.
Qed.

Lemma errors_after_prefix_real (num_of : list Z -> option R) (frem : R -> R -> R)
      (cmds : list (@SCmd R)) sps w c rest :
  cmds <> [] -> spells_ok num_of None cmds sps -> (exists els, interp frem cmds = Ok els) ->
  all_ws w -> is_letter c = true -> (w = [] -> is_e c = false) ->
  (decode_cmd c = None ->
     from_svg num_of frem fixed (render cmds sps (w ++ c :: rest)) = Err (UnknownCommand c)) /\
  (forall k e, decode_cmd c = Some k -> k <> KZ -> get_number num_of rest = Err e ->
     from_svg num_of frem fixed (render cmds sps (w ++ c :: rest)) = Err e).
Proof.
  intros Hne Hsp Hint Hw Hc He.
  assert (Htk : tailk (c :: rest)).
  { cbn. unfold is_letter in Hc. apply orb_true_iff in Hc. split; destruct Hc; cls. }
  split.
  - intros Hd. apply (error_after_prefix num_of frem Radd_comm Rmul2_comm); auto.
    + apply end_ok_letter; auto.
    + intros st r Hst Hr. eapply step_unknown; eauto.
  - intros k e Hd Hk Hn. apply (error_after_prefix num_of frem Radd_comm Rmul2_comm); auto.
    + apply end_ok_letter; auto.
    + intros st r Hst Hr. eapply step_bad_number; eauto.
Qed.

(** ** arcs: structure of the emitted elements *)
Section ArcShape.
Context {T : Type} `{Scalar T}.
Variable frem : T -> T -> T.

Lemma arc_iter_shape n : forall center radii xr arm step p0 a0,
  Forall (fun e => exists p1 p2 p3, e = CurveTo p1 p2 p3)
         (@arc_iter T _ n center radii xr arm step p0 a0).
Proof.
  induction n as [|n IH]; intros; cbn [arc_iter]; constructor; eauto.
Qed.

(** with the repair: never empty — a line to the end point, or at least one cubic *)
Lemma arc_els_shape from to radii rot large sweep :
  arc_els frem true from to radii rot large sweep = [LineTo to] \/
  (arc_els frem true from to radii rot large sweep <> [] /\
   Forall (fun e => exists p1 p2 p3, e = CurveTo p1 p2 p3) (arc_els frem true from to radii rot large sweep)).
Proof.
  unfold arc_els. destruct (from_svg_arc frem true _) as [arc|]; [|left; reflexivity].
  pose proof (arc_iter_shape (Z.to_nat (fto_usize (arc_n arc lit_tenth))) (arc_center arc) (arc_radii arc)
                (arc_x_rotation arc)) as Hs.
  unfold arc_cubics. 
  match goal with |- context [arc_iter ?n ?c ?r ?x ?a ?s ?p ?g] =>
    specialize (Hs a s p g); destruct (arc_iter n c r x a s p g) as [|e l] eqn:E end.
  - left; reflexivity.
  - right. split; [discriminate|exact Hs].
Qed.
End ArcShape.

(** ** the drawing level *)
Section Respell.
Context {T : Type} `{Scalar T}.
Variable frem : T -> T -> T.
Local Open Scope S_scope.
Hypothesis add_sub : forall a b : T, a + (b - a) = b.
Hypothesis feqb_eq : forall a b : T, feqb a b = true -> a = b.

Lemma pt_eqb_eq' (a b : Point T) : pt_eqb a b = true -> a = b.
Proof.
  destruct a, b. unfold pt_eqb; cbn. intros E. apply andb_true_iff in E as [E1 E2].
  apply feqb_eq in E1, E2. congruence.
Qed.

Lemma abs_off rel (cur p : Point T) : absolute rel cur (offset rel cur p) = p.
Proof. destruct rel, p, cur; cbn; rewrite ?add_sub; reflexivity. Qed.

Lemma insert_moves_pending (start : Point T) r : not_move r = true ->
  insert_moves start true r = MoveTo start :: insert_moves start false r.
Proof. destruct r as [|e r]; [discriminate|]. destruct e; cbn; intros; try discriminate; reflexivity. Qed.

Lemma encode_from_meaning (els : list (PathEl T)) : forall chs cur start prev pending,
  interp_from frem (mkIS true cur start prev pending) (encode_from cur start prev pending els chs)
  = Ok (insert_moves start pending els).
Proof.
  induction els as [|e r IH]; intros chs cur start prev pending; [reflexivity|].
  cbn [encode_from]. set (ch := hd (mkChoice false false) chs). set (rel := ch_rel ch).
  destruct e as [p|p|p1 p2|p1 p2 p3|].
  - destruct (pending && ch_short ch && pt_eqb p start && not_move r) eqn:Ec.
    + apply andb_true_iff in Ec as [Ec Hnm]. apply andb_true_iff in Ec as [Ec Hp].
      apply andb_true_iff in Ec as [Hpend _]. subst pending. apply pt_eqb_eq' in Hp. subst p.
      rewrite IH. cbn [insert_moves]. rewrite insert_moves_pending; auto.
    + cbn [interp_from interp_step i_cur]. rewrite abs_off, IH. reflexivity.
  - assert (Hline : forall c, interp_step frem (mkIS true cur start prev pending) c =
                      Ok (mkIS true p start PNone false, (if pending then [MoveTo start] else []) ++ [LineTo p]) ->
              interp_from frem (mkIS true cur start prev pending) (c :: encode_from p start PNone false r (tl chs))
              = Ok (insert_moves start pending (LineTo p :: r))).
    { intros c Hc. cbn [interp_from]. rewrite Hc, IH. cbn [insert_moves]. rewrite <- app_assoc. reflexivity. }
    destruct (ch_short ch && feqb (py p) (py cur)) eqn:E1; [|destruct (ch_short ch && feqb (px p) (px cur)) eqn:E2].
    + apply Hline. apply andb_true_iff in E1 as [_ E1]. apply feqb_eq in E1.
      destruct p as [x y], cur as [cx cy]; cbn in *. subst cy.
      destruct rel; cbn; rewrite ?add_sub; reflexivity.
    + apply Hline. apply andb_true_iff in E2 as [_ E2]. apply feqb_eq in E2.
      destruct p as [x y], cur as [cx cy]; cbn in *. subst cx.
      destruct rel; cbn; rewrite ?add_sub; reflexivity.
    + apply Hline. cbn [interp_step i_started negb i_cur i_start i_pending]. rewrite abs_off. reflexivity.
  - cbn [interp_from].
    destruct (ch_short ch && pt_eqb p1 (smooth_pt cur prev false)) eqn:E1.
    + apply andb_true_iff in E1 as [_ E1]. apply pt_eqb_eq' in E1.
      cbn [interp_step i_started negb i_cur i_start i_pending i_prev]. rewrite abs_off.
      replace (match prev with PQuad c1 => reflect cur c1 | _ => cur end) with p1
        by (rewrite E1; destruct prev; reflexivity).
      rewrite IH. cbn [insert_moves]. rewrite <- app_assoc. reflexivity.
    + cbn [interp_step i_started negb i_cur i_start i_pending i_prev]. rewrite !abs_off.
      rewrite IH. cbn [insert_moves]. rewrite <- app_assoc. reflexivity.
  - cbn [interp_from].
    destruct (ch_short ch && pt_eqb p1 (smooth_pt cur prev true)) eqn:E1.
    + apply andb_true_iff in E1 as [_ E1]. apply pt_eqb_eq' in E1.
      cbn [interp_step i_started negb i_cur i_start i_pending i_prev]. rewrite !abs_off.
      replace (match prev with PCubic c2 => reflect cur c2 | _ => cur end) with p1
        by (rewrite E1; destruct prev; reflexivity).
      rewrite IH. cbn [insert_moves]. rewrite <- app_assoc. reflexivity.
    + cbn [interp_step i_started negb i_cur i_start i_pending i_prev]. rewrite !abs_off.
      rewrite IH. cbn [insert_moves]. rewrite <- app_assoc. reflexivity.
  - cbn [interp_from interp_step i_started negb i_cur i_start i_pending i_prev].
    rewrite IH. cbn [insert_moves]. rewrite <- app_assoc. reflexivity.
Qed.

Lemma encode_meaning (els : list (PathEl T)) chs : starts_with_move els ->
  interp frem (encode els chs) = Ok (insert_moves origin false els).
Proof.
  destruct els as [|e r]; [reflexivity|]. destruct e; cbn [starts_with_move]; try contradiction. intros _.
  unfold encode, interp. cbn [encode_from andb].
  cbn [interp_from interp_step i_cur i_init]. rewrite abs_off, encode_from_meaning. reflexivity.
Qed.

End Respell.

Local Open Scope R_scope.
Lemma Radd_sub : forall a b : R, fadd a (fsub b a) = b.
Proof. intros; cbn; ring. Qed.

Lemma encode_meaning_real (frem : R -> R -> R) (els : list (PathEl R)) (chs : list Choice) :
  starts_with_move els -> interp frem (encode els chs) = Ok (insert_moves origin false els).
Proof. apply encode_meaning; [apply Radd_sub|apply Rfeqb_eq]. Qed.

Lemma respell_parse_real (num_of : list Z -> option R) (frem : R -> R -> R) (els : list (PathEl R)) chs sps tail :
  starts_with_move els -> spells_ok num_of None (encode els chs) sps -> all_ws tail ->
  from_svg num_of frem fixed (render (encode els chs) sps tail) = Ok (insert_moves origin false els).
Proof. intros. rewrite spellings_real; auto. apply encode_meaning_real; auto. Qed.
