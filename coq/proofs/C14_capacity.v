(** C14: the fixed-capacity result vectors never overflow — for EVERY scalar instance (so for the
    binary64 run too): solve_quadratic <= 2 (ArrayVec<f64, 2>), solve_cubic <= 3, solve_quartic <= 4,
    the extrema of a quadratic <= 2 and of a cubic <= 4 (ArrayVec<f64, MAX_EXTREMA = 4>).
    Pure case analysis on the branches of the models (model/Solvers.v, model/Extrema.v). *)
From Coq Require Import ZArith List Bool Arith Lia.
From KV Require Import Scalar Geom Curves Solvers Extrema.
Import ListNotations.

Section Capacity.
Context {T : Type} `{Scalar T}.
Local Open Scope S_scope.

Ltac split_ifs :=
  repeat match goal with
         | |- context [if ?b then _ else _] => destruct b
         end.

Lemma quad_linear_len (c0 c1 : T) : (length (quad_linear c0 c1) <= 1)%nat.
Proof. unfold quad_linear. cbv zeta. split_ifs; cbn [length]; lia. Qed.

Lemma quad_main_len (a b : T) : (length (quad_main a b) <= 2)%nat.
Proof. unfold quad_main. cbv zeta. split_ifs; cbn [length]; lia. Qed.

Lemma solve_quadratic_len (c0 c1 c2 : T) : (length (solve_quadratic c0 c1 c2) <= 2)%nat.
Proof.
  unfold solve_quadratic. cbv zeta.
  destruct (_ || _); [pose proof (quad_linear_len c0 c1); lia|apply quad_main_len].
Qed.

Lemma cubic_main_len (c0 c1 c2 : T) : (length (cubic_main c0 c1 c2) <= 3)%nat.
Proof. unfold cubic_main. cbv zeta. split_ifs; cbn [length]; lia. Qed.

Lemma solve_cubic_len (c0 c1 c2 c3 : T) : (length (solve_cubic c0 c1 c2 c3) <= 3)%nat.
Proof.
  unfold solve_cubic. cbv zeta.
  destruct (negb _); [pose proof (solve_quadratic_len c0 c1 c2); lia|apply cubic_main_len].
Qed.

Lemma solve_quartic_inner_len (a b c d : T) (rs : bool) l :
  solve_quartic_inner a b c d rs = Some l -> (length l <= 4)%nat.
Proof.
  unfold solve_quartic_inner. destruct (factor_quartic_inner a b c d rs) as [[[a1 b1] [a2 b2]]|]; [|discriminate].
  intros E; inversion E; subst. unfold quartic_roots_of_factors. rewrite app_length.
  pose proof (solve_quadratic_len b1 a1 f1). pose proof (solve_quadratic_len b2 a2 f1). lia.
Qed.

Lemma solve_quartic_len (c0 c1 c2 c3 c4 : T) : (length (solve_quartic c0 c1 c2 c3 c4) <= 4)%nat.
Proof.
  unfold solve_quartic. cbv zeta.
  destruct (c4 =? f0); [pose proof (solve_cubic_len c0 c1 c2 c3); lia|].
  destruct (c0 =? f0); [rewrite app_length; cbn [length]; pose proof (solve_cubic_len c1 c2 c3 c4); lia|].
  repeat match goal with
         | |- context [match solve_quartic_inner ?a ?b ?c ?d ?r with _ => _ end] =>
             let E := fresh "E" in destruct (solve_quartic_inner a b c d r) eqn:E;
             [apply solve_quartic_inner_len in E|]
         end; rewrite ?map_length; cbn [length]; lia.
Qed.

Lemma filter_len {A} (f : A -> bool) (l : list A) : (length (filter f l) <= length l)%nat.
Proof. induction l as [|x r IH]; cbn; [lia|]. destruct (f x); cbn; lia. Qed.

Lemma insert_sorted_len (x : T) l : length (insert_sorted x l) = S (length l).
Proof. induction l as [|y r IH]; cbn [insert_sorted length]; [reflexivity|]. destruct (x <? y); cbn [length]; lia. Qed.

Lemma sort_asc_len (l : list T) : length (sort_asc l) = length l.
Proof.
  unfold sort_asc. assert (G : forall l acc, length (fold_left (fun acc x => insert_sorted x acc) l acc) = (length l + length acc)%nat).
  { induction l0 as [|x r IH]; intros acc; cbn [fold_left length]; [lia|]. rewrite IH, insert_sorted_len. lia. }
  rewrite G. cbn [length]. lia.
Qed.

Lemma cubic_one_coord_len (d0 d1 d2 : T) : (length (cubic_one_coord d0 d1 d2) <= 2)%nat.
Proof.
  unfold cubic_one_coord, extrema_filter.
  pose proof (filter_len in_open01 (solve_quadratic d0 (oc_b d0 d1) (oc_a d0 d1 d2))).
  pose proof (solve_quadratic_len d0 (oc_b d0 d1) (oc_a d0 d1 d2)). lia.
Qed.

Lemma cubic_extrema_len (c : CubicBez T) : (length (cubic_extrema c) <= 4)%nat.
Proof.
  unfold cubic_extrema. cbv zeta. rewrite sort_asc_len, app_length.
  match goal with |- (length (cubic_one_coord ?a ?b ?c) + length (cubic_one_coord ?d ?e ?f) <= 4)%nat =>
    pose proof (cubic_one_coord_len a b c); pose proof (cubic_one_coord_len d e f) end. lia.
Qed.

Lemma quad_extrema_len (q : QuadBez T) : (length (quad_extrema q) <= 2)%nat.
Proof.
  unfold quad_extrema. cbv zeta.
  repeat match goal with |- context [if ?b then _ else _] => destruct b end;
    rewrite ?app_length; cbn [length app]; lia.
Qed.

Lemma seg_extrema_len (s : PathSeg T) : (length (seg_extrema s) <= 4)%nat.
Proof.
  destruct s as [l|q|c]; cbn [seg_extrema].
  - unfold line_extrema. cbn. lia.
  - pose proof (quad_extrema_len q). lia.
  - apply cubic_extrema_len.
Qed.

End Capacity.
