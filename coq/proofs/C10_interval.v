(** C10: certified numeric enclosures (coq-interval). Kept apart from C10_proofs.v so that
    the rest builds fast. Pure real analysis: nothing here mentions the model.

    - [circle4_radial_error]: the unit quarter piece with kurbo's arm length 0.551915024494
      stays within 1.9608e-4 of the unit circle;
    - [circle_N_radial_error] for N = 5..16, 20, 24, 32, 48, 64, 100, 150: the unit piece of angle 2pi/N with
      arm (4/3) tan(pi/(2N)) stays within 1.1163/N^6 of the unit circle (independent cross-checks
      of the closed-form bound proved for every N in C10_proofs.v);
    - [trig_bound]: the inequality that makes the constant 1.1163 work for every piece angle
      up to 2pi/3.999999. *)
From Coq Require Import Reals Lra.
From Interval Require Import Tactic.
Local Open Scope R_scope.

(** cubic Bezier coordinate polynomials of the unit piece (1,0) (1,k) (C+kS, S-kC) (C,S) *)
Definition unit_x (k C S t : R) : R := (1-t)^3 + 3*(1-t)^2*t + 3*(1-t)*t^2*(C + k*S) + t^3*C.
Definition unit_y (k C S t : R) : R := 3*(1-t)^2*t*k + 3*(1-t)*t^2*(S - k*C) + t^3*S.

Definition arm4 : R := 551915024494 / 1000000000000.

Lemma circle4_radial_error : forall t, 0 <= t <= 1 ->
  Rabs (sqrt (unit_x arm4 0 1 t ^ 2 + unit_y arm4 0 1 t ^ 2) - 1) <= 19608 / 100000000.
Proof.
  intros t Ht. unfold unit_x, unit_y, arm4.
  interval with (i_bisect t, i_taylor t, i_degree 8).
Qed.

Definition std_arm (n : R) : R := 4/3 * tan (PI / (2*n)).
Definition unit_radial_error (n t : R) : R :=
  Rabs (sqrt (unit_x (std_arm n) (cos (2*PI/n)) (sin (2*PI/n)) t ^ 2
              + unit_y (std_arm n) (cos (2*PI/n)) (sin (2*PI/n)) t ^ 2) - 1).

Ltac radial :=
  intros t Ht; unfold unit_radial_error, unit_x, unit_y, std_arm;
  interval with (i_bisect t, i_taylor t, i_degree 8, i_prec 70).

Lemma circle_5_radial_error : forall t, 0 <= t <= 1 -> unit_radial_error 5 t <= 11163/10000 / 5^6.
Proof. radial. Qed.
Lemma circle_6_radial_error : forall t, 0 <= t <= 1 -> unit_radial_error 6 t <= 11163/10000 / 6^6.
Proof. radial. Qed.
Lemma circle_7_radial_error : forall t, 0 <= t <= 1 -> unit_radial_error 7 t <= 11163/10000 / 7^6.
Proof. radial. Qed.
Lemma circle_8_radial_error : forall t, 0 <= t <= 1 -> unit_radial_error 8 t <= 11163/10000 / 8^6.
Proof. radial. Qed.
Lemma circle_9_radial_error : forall t, 0 <= t <= 1 -> unit_radial_error 9 t <= 11163/10000 / 9^6.
Proof. radial. Qed.
Lemma circle_10_radial_error : forall t, 0 <= t <= 1 -> unit_radial_error 10 t <= 11163/10000 / 10^6.
Proof. radial. Qed.
Lemma circle_11_radial_error : forall t, 0 <= t <= 1 -> unit_radial_error 11 t <= 11163/10000 / 11^6.
Proof. radial. Qed.
Lemma circle_12_radial_error : forall t, 0 <= t <= 1 -> unit_radial_error 12 t <= 11163/10000 / 12^6.
Proof. radial. Qed.
Lemma circle_13_radial_error : forall t, 0 <= t <= 1 -> unit_radial_error 13 t <= 11163/10000 / 13^6.
Proof. radial. Qed.
Lemma circle_14_radial_error : forall t, 0 <= t <= 1 -> unit_radial_error 14 t <= 11163/10000 / 14^6.
Proof. radial. Qed.
Lemma circle_15_radial_error : forall t, 0 <= t <= 1 -> unit_radial_error 15 t <= 11163/10000 / 15^6.
Proof. radial. Qed.
Lemma circle_16_radial_error : forall t, 0 <= t <= 1 -> unit_radial_error 16 t <= 11163/10000 / 16^6.
Proof. radial. Qed.
Lemma circle_20_radial_error : forall t, 0 <= t <= 1 -> unit_radial_error 20 t <= 11163/10000 / 20^6.
Proof. radial. Qed.
Lemma circle_24_radial_error : forall t, 0 <= t <= 1 -> unit_radial_error 24 t <= 11163/10000 / 24^6.
Proof. radial. Qed.
Lemma circle_32_radial_error : forall t, 0 <= t <= 1 -> unit_radial_error 32 t <= 11163/10000 / 32^6.
Proof. radial. Qed.
Lemma circle_48_radial_error : forall t, 0 <= t <= 1 -> unit_radial_error 48 t <= 11163/10000 / 48^6.
Proof. radial. Qed.
Lemma circle_64_radial_error : forall t, 0 <= t <= 1 -> unit_radial_error 64 t <= 11163/10000 / 64^6.
Proof. radial. Qed.
Lemma circle_100_radial_error : forall t, 0 <= t <= 1 -> unit_radial_error 100 t <= 11163/10000 / 100^6.
Proof. radial. Qed.
Lemma circle_150_radial_error : forall t, 0 <= t <= 1 -> unit_radial_error 150 t <= 11163/10000 / 150^6.
Proof. radial. Qed.

(** [Kc x^6 = 1.1163 / n^6] for [x = pi/(2n)] *)
Definition Kc : R := 11163/10000 * (2/PI)^6.

Lemma trig_bound : forall x, 0 <= x <= 3927/10000 ->
  4/27 * (1 - x^2/6 + x^4/120)^6 <= (2*Kc + Kc^2 * x^6) * (cos x)^2.
Proof.
  intros x Hx. unfold Kc. apply Rminus_le.
  interval with (i_bisect x, i_taylor x, i_degree 10, i_prec 60).
Qed.

(** pi/(2 * 3.999999) < 0.3927 < pi/2 *)
Lemma xmax_bound : PI / (2 * (3999999/1000000)) <= 3927/10000.
Proof. interval. Qed.
Lemma xmax_lt_pi2 : 3927/10000 < PI/2.
Proof. interval. Qed.
Lemma Kc_pos : 0 < Kc.
Proof. unfold Kc. interval. Qed.
Lemma PI_bounds : 314/100 < PI < 315/100.
Proof. split; interval. Qed.
(** used by a non-vacuity example: radius 1000, tolerance 1/1000 gives 11 pieces *)
Lemma sixth_root_example : 10 < Rpower (11163/10000 * (1000 / (1/1000))) (1/6) < 11.
Proof. unfold Rpower. split; interval. Qed.
