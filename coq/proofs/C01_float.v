(** C01: facts about the binary64 run of the models (evaluated by [vm_compute]).
    The model of the pinned tree ([fx = false]) reproduces the vertex-row miscount inside Coq:
    polygons use only comparisons and exactly rounded operations, so the F64 instance is the code. *)
From Coq Require Import ZArith Floats List Bool.
From KV Require Import Scalar F64 Geom Curves Path Solvers Winding.
Import ListNotations.
Local Open Scope float_scope.

(* the regular hexagon of radius 10 (vertices 10 cos(k pi/3), 10 sin(k pi/3) as computed in binary64) *)
Definition hexagon : list (PathEl float) :=
  [ MoveTo (mkPoint 0x1.4p+3 0);
    LineTo (mkPoint 0x1.4000000000001p+2 0x1.1520cd1372feap+3);
    LineTo (mkPoint (-0x1.3fffffffffffep+2) 0x1.1520cd1372febp+3);
    LineTo (mkPoint (-0x1.4p+3) 0x1.60fafbfd97309p-50);
    LineTo (mkPoint (-0x1.4000000000005p+2) (-0x1.1520cd1372fe9p+3));
    LineTo (mkPoint 0x1.3fffffffffff8p+2 (-0x1.1520cd1372fedp+3));
    ClosePath ].
(* two units to the right of the hexagon, on the row of its vertex (-10, 1.2246467991473533e-15) *)
Definition hexagon_query : Point float := mkPoint 0x1.8p+3 0x1.60fafbfd97309p-50.

Definition ctrl_abscissae (els : list (PathEl float)) : list float :=
  flat_map (fun e => match e with
                     | MoveTo p | LineTo p => [px p]
                     | QuadTo a b => [px a; px b]
                     | CurveTo a b c => [px a; px b; px c]
                     | ClosePath => []
                     end) els.

Lemma hexagon_query_outside :
  forallb (fun x => PrimFloat.ltb x (px hexagon_query)) (ctrl_abscissae hexagon) = true.
Proof. vm_compute. reflexivity. Qed.

Lemma hexagon_pinned_miscount : path_winding_pinned hexagon hexagon_query = Some (-1)%Z.
Proof. vm_compute. reflexivity. Qed.

Lemma hexagon_required : path_winding hexagon hexagon_query = Some 0%Z.
Proof. vm_compute. reflexivity. Qed.

Lemma hexagon_pinned_contains : path_contains_pinned hexagon hexagon_query = Some true.
Proof. vm_compute. reflexivity. Qed.

(* root cause: the single piece of a line is [subsegment(0..1)], whose end point is re-derived with rounding *)
Definition witness_line : Line float :=
  mkLine (mkPoint (-0x1.ba155f91877e2p+3) (-0x1.fe694597efae2p+3)) (mkPoint 0x1.279e628591116p-1 0x1.d4c2c60fd7e98p-3).

Lemma pinned_line_piece_endpoint :
  exists pc, w_pieces_pinned (SegLine witness_line) = [pc] /\
             PrimFloat.eqb (py (seg_end pc)) (py (l1 witness_line)) = false /\
             PrimFloat.eqb (px (seg_end pc)) (px (l1 witness_line)) = false.
Proof. eexists. split; [vm_compute; reflexivity|]. split; vm_compute; reflexivity. Qed.

Lemma required_line_piece : w_pieces (SegLine witness_line) = [SegLine witness_line].
Proof. reflexivity. Qed.

(* second defect of the pinned tree: a monotone quadratic piece that spans the row of p (p.y = end.y, the row
   the half-open rule gives to this downward piece) reports no crossing, because the root t = 1 of y(t) = p.y
   comes out of solve_quadratic as 1 + ulp; p is 14 units to the right of the end point *)
Definition witness_quad : PathSeg float :=
  SegQuad (mkQuad (mkPoint 0x1.e9cac3eab84f9p+4 (-0x1.b1ced446fed61p+3))
                  (mkPoint 0x1.e9cac3eab84f9p+4 (-0x1.95f233dd1bd56p+4))
                  (mkPoint 0x1.f9bcdf3e52ab4p-1 (-0x1.7ee526e188c1ep+5))).
Definition witness_quad_query : Point float := mkPoint 0x1.ee0dce233929ep+3 (-0x1.7ee526e188c1ep+5).

Lemma quad_boundary_root_pinned : winding_inner_pinned witness_quad witness_quad_query = 0%Z.
Proof. vm_compute. reflexivity. Qed.
Lemma quad_boundary_root_required : winding_inner witness_quad witness_quad_query = 1%Z.
Proof. vm_compute. reflexivity. Qed.
Lemma quad_boundary_root_value :
  match witness_quad with
  | SegQuad q =>
      let a := (py (q2 q) - 2 * py (q1 q) + py (q0 q))%float in
      let b := (2 * (py (q1 q) - py (q0 q)))%float in
      let c := (py (q0 q) - py witness_quad_query)%float in
      existsb (fun t => PrimFloat.ltb 1 t && PrimFloat.ltb t 0x1.0000000000010p+0) (solve_quadratic c b a) = true
      /\ existsb (fun t => PrimFloat.leb 0 t && PrimFloat.leb t 1) (solve_quadratic c b a) = false
  | _ => False
  end.
Proof. vm_compute. split; reflexivity. Qed.

(** the statements of Properties/C01.v *)
Lemma pinned_line_piece_endpoint_refuted :
  exists (l : Line float) (pc : PathSeg float), w_pieces_pinned (SegLine l) = [pc] /\
    PrimFloat.eqb (py (seg_end pc)) (py (l1 l)) = false /\ w_pieces (SegLine l) = [SegLine l].
Proof.
  exists witness_line. destruct pinned_line_piece_endpoint as [pc [H1 [H2 _]]].
  exists pc. split; [exact H1|]. split; [exact H2|reflexivity].
Qed.

Lemma pinned_vertex_row_refuted :
  exists (els : list (PathEl float)) (p : Point float),
    forallb (fun x => PrimFloat.ltb x (px p)) (ctrl_abscissae els) = true /\
    path_winding_pinned els p = Some (-1)%Z /\ path_contains_pinned els p = Some true /\
    path_winding els p = Some 0%Z.
Proof.
  exists hexagon, hexagon_query.
  split; [exact hexagon_query_outside|]. split; [exact hexagon_pinned_miscount|].
  split; [exact hexagon_pinned_contains|exact hexagon_required].
Qed.

Lemma pinned_boundary_root_refuted :
  exists (s : PathSeg float) (p : Point float),
    winding_inner_pinned s p = 0%Z /\ winding_inner s p = 1%Z.
Proof.
  exists witness_quad, witness_quad_query.
  split; [exact quad_boundary_root_pinned | exact quad_boundary_root_required].
Qed.
