(** C15 on the binary64 instance itself: a zero leading coefficient gives exactly the lower-degree
    solver's result, for EVERY choice of the other coefficients (including NaN and infinities).
    Uses only the primitive-float specification axioms ([mul_spec], [div_spec], [eqb_spec], ...). *)
From Coq Require Import ZArith Floats List Bool.
From KV Require Import Scalar F64 Solvers C15_proofs.
Import ListNotations.
Local Open Scope float_scope.

Lemma zero_cases (x : float) : PrimFloat.is_zero x = true -> x = 0 \/ x = -0.
Proof.
  unfold PrimFloat.is_zero. rewrite FloatAxioms.eqb_spec. intro H.
  rewrite <- (SF2Prim_Prim2SF x).
  destruct (Prim2SF x) as [[|]|[|]| |[|] m e]; vm_compute in H; try discriminate H; [right|left]; reflexivity.
Qed.

Lemma mul_inf_not_finite (x i : float) : i = infinity \/ i = neg_infinity -> F.is_finite (x * i) = false.
Proof.
  intro Hi. unfold F.is_finite, PrimFloat.is_nan, PrimFloat.is_infinity.
  rewrite !FloatAxioms.eqb_spec, FloatAxioms.abs_spec, FloatAxioms.mul_spec.
  destruct Hi as [-> | ->];
    (destruct (Prim2SF x) as [[|]|[|]| |[|] m e]; vm_compute; reflexivity).
Qed.

Lemma recip_zero (x : float) : x = 0 \/ x = -0 -> 1 / x = infinity \/ 1 / x = neg_infinity.
Proof. intros [-> | ->]; [left|right]; vm_compute; reflexivity. Qed.

(** c3 = +0 or -0: solve_cubic is solve_quadratic, whatever c0, c1, c2 are *)
Theorem solve_cubic_zero_leading_F64 (c0 c1 c2 c3 : float) :
  PrimFloat.is_zero c3 = true -> solve_cubic c0 c1 c2 c3 = solve_quadratic c0 c1 c2.
Proof.
  intro Hz. apply solve_cubic_delegates_generic.
  change (@fmul float F64) with PrimFloat.mul. change (@fdiv float F64) with PrimFloat.div.
  change (@fis_finite float F64) with F.is_finite. change (@f1 float F64) with 1.
  rewrite (mul_inf_not_finite c0 (1 / c3)) by (apply recip_zero, zero_cases, Hz). reflexivity.
Qed.

(** c2 = +0 or -0: solve_quadratic runs its linear block, whatever c0, c1 are *)
Theorem solve_quadratic_zero_leading_F64 (c0 c1 c2 : float) :
  PrimFloat.is_zero c2 = true -> solve_quadratic c0 c1 c2 = quad_linear c0 c1.
Proof.
  intro Hz. apply solve_quadratic_linear_generic.
  change (@fmul float F64) with PrimFloat.mul. change (@fdiv float F64) with PrimFloat.div.
  change (@fis_finite float F64) with F.is_finite. change (@f1 float F64) with 1.
  rewrite (mul_inf_not_finite c0 (1 / c2)) by (apply recip_zero, zero_cases, Hz). reflexivity.
Qed.

(** c4 = +0 or -0: solve_quartic is solve_cubic *)
Theorem solve_quartic_zero_leading_F64 (c0 c1 c2 c3 c4 : float) :
  PrimFloat.is_zero c4 = true -> solve_quartic c0 c1 c2 c3 c4 = solve_cubic c0 c1 c2 c3.
Proof. intro Hz. apply solve_quartic_c4_zero_generic. exact Hz. Qed.
