(** C02: signed area — proofs at the real instance. *)
From Coq Require Import ZArith QArith Reals List Bool Lra.
From Coquelicot Require Import Coquelicot.
From KV Require Import Scalar RInst Geom Curves Path Affine Area AreaSpec RTac C06_proofs.
Import ListNotations.
Local Open Scope R_scope.

Ltac ar_unfold :=
  cbv [seg_map line_map quad_map cubic_map aff_apply aff_determinant aff_linear
       aa ab ac ad ae af line_as_quad line_as_cubic] in *;
  crv_unfold.

(** * 1. The closed forms are the Green line integral 1/2 ∫ (x y' - y x') dt *)

(** the integrand with the derivative curves of the model in place of [Derive] *)
Definition line_integrand (l : Line R) (t : R) : R :=
  px (line_eval l t) * py (line_deriv l) - py (line_eval l t) * px (line_deriv l).
Definition quad_integrand (q : QuadBez R) (t : R) : R :=
  px (quad_eval q t) * py (line_eval (quad_deriv q) t) - py (quad_eval q t) * px (line_eval (quad_deriv q) t).
Definition cubic_integrand (c : CubicBez R) (t : R) : R :=
  px (cubic_eval c t) * py (quad_eval (cubic_deriv c) t) - py (cubic_eval c t) * px (quad_eval (cubic_deriv c) t).

Lemma line_integrand_eq l t : green_integrand (line_eval l) t = line_integrand l t.
Proof.
  unfold green_integrand, line_integrand.
  destruct (line_deriv_is_derivative l t) as [Hx Hy].
  f_equal; f_equal; apply is_derive_unique; assumption.
Qed.
Lemma quad_integrand_eq q t : green_integrand (quad_eval q) t = quad_integrand q t.
Proof.
  unfold green_integrand, quad_integrand.
  destruct (quad_deriv_is_derivative q t) as [Hx Hy].
  f_equal; f_equal; apply is_derive_unique; assumption.
Qed.
Lemma cubic_integrand_eq c t : green_integrand (cubic_eval c) t = cubic_integrand c t.
Proof.
  unfold green_integrand, cubic_integrand.
  destruct (cubic_deriv_is_derivative c t) as [Hx Hy].
  f_equal; f_equal; apply is_derive_unique; assumption.
Qed.

(** antiderivative: twice the area of the sub-segment over [0,u] *)
Lemma line_green_deriv (l : Line R) t :
  is_derive (fun u => 2 * line_signed_area (line_subsegment l 0 u)) t (line_integrand l t).
Proof.
  destruct l as [[x0 y0] [x1 y1]]. unfold line_integrand. crv_unfold.
  auto_derive; auto. field.
Qed.
Lemma quad_green_deriv (q : QuadBez R) t :
  is_derive (fun u => 2 * quad_signed_area (quad_subsegment q 0 u)) t (quad_integrand q t).
Proof.
  destruct q as [[x0 y0] [x1 y1] [x2 y2]]. unfold quad_integrand. crv_unfold.
  auto_derive; auto. field.
Qed.
Lemma cubic_green_deriv (c : CubicBez R) t :
  is_derive (fun u => 2 * cubic_signed_area (cubic_subsegment c 0 u)) t (cubic_integrand c t).
Proof.
  destruct c as [[x0 y0] [x1 y1] [x2 y2] [x3 y3]]. unfold cubic_integrand. crv_unfold.
  auto_derive; auto. field.
Qed.

Lemma line_integrand_continuous l t : continuous (line_integrand l) t.
Proof.
  apply (ex_derive_continuous (line_integrand l) t). destruct l as [[x0 y0] [x1 y1]]. unfold line_integrand. crv_unfold.
  auto_derive; auto.
Qed.
Lemma quad_integrand_continuous q t : continuous (quad_integrand q) t.
Proof.
  apply (ex_derive_continuous (quad_integrand q) t). destruct q as [[x0 y0] [x1 y1] [x2 y2]]. unfold quad_integrand. crv_unfold.
  auto_derive; auto.
Qed.
Lemma cubic_integrand_continuous c t : continuous (cubic_integrand c) t.
Proof.
  apply (ex_derive_continuous (cubic_integrand c) t). destruct c as [[x0 y0] [x1 y1] [x2 y2] [x3 y3]]. unfold cubic_integrand. crv_unfold.
  auto_derive; auto.
Qed.

(** areas of sub-segments add up along the parameter (any real a, b, c) *)
Lemma line_area_sub_add (l : Line R) a b c :
  line_signed_area (line_subsegment l a b) + line_signed_area (line_subsegment l b c)
  = line_signed_area (line_subsegment l a c).
Proof. destruct l as [[x0 y0] [x1 y1]]. crv_unfold. field. Qed.
Lemma quad_area_sub_add (q : QuadBez R) a b c :
  quad_signed_area (quad_subsegment q a b) + quad_signed_area (quad_subsegment q b c)
  = quad_signed_area (quad_subsegment q a c).
Proof. destruct q as [[x0 y0] [x1 y1] [x2 y2]]. crv_unfold. field. Qed.
Lemma cubic_area_sub_add (c : CubicBez R) a b d :
  cubic_signed_area (cubic_subsegment c a b) + cubic_signed_area (cubic_subsegment c b d)
  = cubic_signed_area (cubic_subsegment c a d).
Proof. destruct c as [[x0 y0] [x1 y1] [x2 y2] [x3 y3]]. crv_unfold. field. Qed.

Lemma seg_area_sub_add (s : PathSeg R) a b c :
  seg_signed_area (seg_subsegment s a b) + seg_signed_area (seg_subsegment s b c)
  = seg_signed_area (seg_subsegment s a c).
Proof.
  destruct s; cbn [seg_signed_area seg_subsegment].
  - apply line_area_sub_add. - apply quad_area_sub_add. - apply cubic_area_sub_add.
Qed.

(** the whole range gives the segment's own area *)
Lemma seg_area_sub_01 (s : PathSeg R) : seg_signed_area (seg_subsegment s 0 1) = seg_signed_area s.
Proof.
  destruct s as [[[x0 y0] [x1 y1]] | [[x0 y0] [x1 y1] [x2 y2]] | [[x0 y0] [x1 y1] [x2 y2] [x3 y3]]];
  crv_unfold; field.
Qed.

(** split invariance: for every real t *)
Lemma seg_area_split (s : PathSeg R) t :
  seg_signed_area (seg_subsegment s 0 t) + seg_signed_area (seg_subsegment s t 1) = seg_signed_area s.
Proof. rewrite seg_area_sub_add. apply seg_area_sub_01. Qed.

Lemma seg_area_subdivide (s : PathSeg R) :
  seg_signed_area (fst (seg_subdivide s)) + seg_signed_area (snd (seg_subdivide s)) = seg_signed_area s.
Proof.
  unfold seg_subdivide. cbn [fst snd].
  replace (@fhalf R RS) with (/ 2) by (rs_unfold; cbv [Q2R Qnum Qden]; simpl; field).
  replace (@f0 R RS) with 0 by reflexivity. replace (@f1 R RS) with 1 by reflexivity.
  apply seg_area_split.
Qed.

(** concrete [subdivide] of each curve type *)
Lemma curve_area_subdivide :
  (forall l : Line R, line_signed_area (fst (line_subdivide l)) + line_signed_area (snd (line_subdivide l)) = line_signed_area l) /\
  (forall q : QuadBez R, quad_signed_area (fst (quad_subdivide q)) + quad_signed_area (snd (quad_subdivide q)) = quad_signed_area q) /\
  (forall c : CubicBez R, cubic_signed_area (fst (cubic_subdivide c)) + cubic_signed_area (snd (cubic_subdivide c)) = cubic_signed_area c).
Proof.
  split; [|split].
  - intros [[x0 y0] [x1 y1]]. crv_unfold. field.
  - intros [[x0 y0] [x1 y1] [x2 y2]]. crv_unfold. field.
  - intros [[x0 y0] [x1 y1] [x2 y2] [x3 y3]]. crv_unfold. field.
Qed.

(** the integrand of a segment in closed form *)
Definition seg_integrand (s : PathSeg R) : R -> R :=
  match s with
  | SegLine l => line_integrand l
  | SegQuad q => quad_integrand q
  | SegCubic c => cubic_integrand c
  end.

Lemma seg_integrand_eq s t : green_integrand (seg_eval s) t = seg_integrand s t.
Proof.
  destruct s; cbn [seg_integrand].
  - apply (line_integrand_eq l). - apply (quad_integrand_eq q). - apply (cubic_integrand_eq c).
Qed.

Lemma seg_green_deriv (s : PathSeg R) t :
  is_derive (fun u => 2 * seg_signed_area (seg_subsegment s 0 u)) t (seg_integrand s t).
Proof.
  destruct s; cbn [seg_integrand seg_signed_area seg_subsegment].
  - apply line_green_deriv. - apply quad_green_deriv. - apply cubic_green_deriv.
Qed.

Lemma seg_integrand_continuous s t : continuous (seg_integrand s) t.
Proof.
  destruct s; cbn [seg_integrand].
  - apply line_integrand_continuous. - apply quad_integrand_continuous. - apply cubic_integrand_continuous.
Qed.

(** Green: over any parameter range the closed form of the sub-segment is the line integral *)
Lemma seg_green_sub (s : PathSeg R) a b :
  has_green_area (seg_eval s) a b (seg_signed_area (seg_subsegment s a b)).
Proof.
  unfold has_green_area.
  apply (is_RInt_ext (seg_integrand s)).
  { intros t _. symmetry. apply seg_integrand_eq. }
  replace (2 * seg_signed_area (seg_subsegment s a b))
    with (minus (2 * seg_signed_area (seg_subsegment s 0 b)) (2 * seg_signed_area (seg_subsegment s 0 a))).
  2:{ unfold minus, plus, opp; simpl. rewrite <- (seg_area_sub_add s 0 a b). ring. }
  apply (is_RInt_derive (fun u => 2 * seg_signed_area (seg_subsegment s 0 u)) (seg_integrand s)).
  - intros x _. apply seg_green_deriv.
  - intros x _. apply seg_integrand_continuous.
Qed.

Lemma seg_green (s : PathSeg R) : has_green_area (seg_eval s) 0 1 (seg_signed_area s).
Proof. rewrite <- (seg_area_sub_01 s). apply seg_green_sub. Qed.

Lemma seg_green_RInt (s : PathSeg R) : seg_signed_area s = green_area (seg_eval s) 0 1.
Proof.
  unfold green_area. rewrite (is_RInt_unique _ _ _ _ (seg_green s)). field.
Qed.

Lemma line_green (l : Line R) : has_green_area (line_eval l) 0 1 (line_signed_area l).
Proof. exact (seg_green (SegLine l)). Qed.
Lemma quad_green (q : QuadBez R) : has_green_area (quad_eval q) 0 1 (quad_signed_area q).
Proof. exact (seg_green (SegQuad q)). Qed.
Lemma cubic_green (c : CubicBez R) : has_green_area (cubic_eval c) 0 1 (cubic_signed_area c).
Proof. exact (seg_green (SegCubic c)). Qed.

(** * 2. Sums *)

Lemma fold_add_shift (xs : list R) a : fold_left Rplus xs a = a + fold_left Rplus xs 0.
Proof.
  revert a. induction xs as [|x xs IH]; intros a; simpl.
  - ring.
  - rewrite (IH (a + x)), (IH (0 + x)). ring.
Qed.
Lemma sum_f_nil : sum_f (@nil R) = 0.
Proof. reflexivity. Qed.
Lemma sum_f_cons x (xs : list R) : sum_f (x :: xs) = x + sum_f xs.
Proof.
  unfold sum_f. simpl. change (@fadd R RS) with Rplus. change (@f0 R RS) with 0.
  rewrite fold_add_shift. ring.
Qed.
Lemma sum_f_app (xs ys : list R) : sum_f (xs ++ ys) = sum_f xs + sum_f ys.
Proof.
  induction xs as [|x xs IH]; simpl.
  - rewrite sum_f_nil. ring.
  - rewrite !sum_f_cons, IH. ring.
Qed.

Lemma segs_area_nil : segs_area (@nil (PathSeg R)) = 0.
Proof. reflexivity. Qed.
Lemma segs_area_cons s (segs : list (PathSeg R)) : segs_area (s :: segs) = seg_signed_area s + segs_area segs.
Proof. unfold segs_area. simpl. apply sum_f_cons. Qed.
Lemma segs_area_app (a b : list (PathSeg R)) : segs_area (a ++ b) = segs_area a + segs_area b.
Proof. unfold segs_area. rewrite map_app. apply sum_f_app. Qed.

(** the fold equals the sum of the independent line integrals *)
Lemma segs_area_green (segs : list (PathSeg R)) :
  segs_area segs = sum_f (map (fun s => green_area (seg_eval s) 0 1) segs).
Proof.
  induction segs as [|s segs IH].
  - reflexivity.
  - rewrite segs_area_cons. simpl. rewrite sum_f_cons, IH, seg_green_RInt. reflexivity.
Qed.

(** * 3. Additivity over sub-paths *)

Lemma pt_eqb_true (a b : Point R) : pt_eqb a b = true <-> a = b.
Proof.
  destruct a as [ax ay], b as [bx by_]. cbv [pt_eqb px py feqb RS].
  rewrite andb_true_iff, !Reqb_true. split.
  - intros [-> ->]. reflexivity.
  - intros E. inversion E. auto.
Qed.
Lemma pt_neb_true (a b : Point R) : pt_neb a b = true <-> a <> b.
Proof.
  unfold pt_neb. rewrite negb_true_iff. split.
  - intros E F. apply pt_eqb_true in F. congruence.
  - intros N. destruct (pt_eqb a b) eqn:E; [apply pt_eqb_true in E; contradiction | reflexivity].
Qed.
Lemma pt_neb_false (a b : Point R) : pt_neb a b = false <-> a = b.
Proof.
  unfold pt_neb. rewrite negb_false_iff. apply pt_eqb_true.
Qed.
Lemma pt_neb_refl (a : Point R) : pt_neb a a = false.
Proof. apply pt_neb_false. reflexivity. Qed.

(** a [MoveTo] forgets the state *)
Lemma segs_from_moveto st p (r : list (PathEl R)) :
  segs_from st (MoveTo p :: r) = segs_from None (MoveTo p :: r).
Proof. destruct st as [[s l]|]; reflexivity. Qed.

Definition opt_app {A} (a b : option (list A)) : option (list A) :=
  match a, b with Some x, Some y => Some (x ++ y) | _, _ => None end.

Lemma segs_from_app_tl : forall (els1 : list (PathEl R)) st tl X,
  (forall st', segs_from st' tl = X) ->
  segs_from st (els1 ++ tl) = opt_app (segs_from st els1) X.
Proof.
  induction els1 as [|e els1 IH]; intros st tl X HX.
  - cbn [app segs_from]. rewrite HX. destruct X; reflexivity.
  - cbn [app segs_from]. destruct (seg_step st e) as [[st' out]|]; [|reflexivity].
    rewrite (IH (Some st') tl X HX).
    destruct (segs_from (Some st') els1), X, out; reflexivity.
Qed.

Lemma segments_app (els1 els2 : list (PathEl R)) :
  starts_with_move els2 ->
  segments (els1 ++ els2) = opt_app (segments els1) (segments els2).
Proof.
  destruct els2 as [|[p|p|p1 p2|p1 p2 p3|] r]; try contradiction. intros _.
  unfold segments. apply segs_from_app_tl. intros st'. apply segs_from_moveto.
Qed.

Lemma path_area_app (els1 els2 : list (PathEl R)) :
  starts_with_move els2 ->
  path_area (els1 ++ els2) = opt_add (path_area els1) (path_area els2).
Proof.
  intros Hm. unfold path_area. rewrite (segments_app els1 els2 Hm).
  destruct (segments els1), (segments els2); simpl; try reflexivity.
  rewrite segs_area_app. reflexivity.
Qed.

Lemma opt_add_assoc a b c : opt_add (opt_add a b) c = opt_add a (opt_add b c).
Proof. destruct a, b, c; simpl; try reflexivity. f_equal. ring. Qed.

Lemma path_area_concat : forall (rest : list (list (PathEl R))) first,
  List.Forall starts_with_move rest ->
  path_area (first ++ concat rest)
  = opt_add (path_area first) (fold_right opt_add (Some 0) (map (@path_area R RS) rest)).
Proof.
  induction rest as [|s rest IH]; intros first HF.
  - simpl. rewrite app_nil_r. destruct (path_area first); simpl; [f_equal; ring | reflexivity].
  - inversion HF as [|? ? Hs HF']; subst. simpl concat. rewrite app_assoc, (IH (first ++ s) HF').
    rewrite (path_area_app first s Hs). simpl. apply opt_add_assoc.
Qed.

(** * 4. Reversal *)

Lemma seg_area_reverse (s : PathSeg R) : seg_signed_area (seg_reverse s) = - seg_signed_area s.
Proof.
  destruct s as [[[x0 y0] [x1 y1]] | [[x0 y0] [x1 y1] [x2 y2]] | [[x0 y0] [x1 y1] [x2 y2] [x3 y3]]];
  crv_unfold; field.
Qed.

Lemma segs_area_reverse (segs : list (PathSeg R)) : segs_area (segs_reverse segs) = - segs_area segs.
Proof.
  unfold segs_reverse. induction segs as [|s segs IH]; simpl.
  - rewrite segs_area_nil. ring.
  - rewrite segs_area_app, IH, !segs_area_cons, segs_area_nil, seg_area_reverse. ring.
Qed.

Lemma last_cons_default {A} : forall (l : list A) a d, last (a :: l) d = last l a.
Proof.
  induction l as [|b l IH]; intros a d; [reflexivity|].
  change (last (a :: b :: l) d) with (last (b :: l) d). rewrite (IH b d), (IH b a). reflexivity.
Qed.

(** chains with an explicit starting point *)
Lemma chain_from_app : forall (a b : list (PathSeg R)) p,
  chain_from p (a ++ b) <-> chain_from p a /\ chain_from (chain_end p a) b.
Proof.
  induction a as [|s a IH]; intros b p; cbn [app chain_from chain_end].
  - tauto.
  - rewrite (IH b (seg_end s)). tauto.
Qed.
Lemma chain_end_app : forall (a b : list (PathSeg R)) p,
  chain_end p (a ++ b) = chain_end (chain_end p a) b.
Proof.
  induction a as [|s a IH]; intros b p; cbn [app chain_end]; [reflexivity | apply IH].
Qed.

Lemma chain_from_linked : forall (segs : list (PathSeg R)) p, chain_from p segs -> chain_linked segs.
Proof.
  induction segs as [|s segs IH]; intros p H; [exact I|].
  destruct H as [_ H]. destruct segs as [|s2 segs]; [exact I|].
  split; [destruct H as [E _]; symmetry; exact E | exact (IH _ H)].
Qed.
Lemma chain_linked_from : forall (segs : list (PathSeg R)) s, chain_linked (s :: segs) -> chain_from (seg_start s) (s :: segs).
Proof.
  induction segs as [|s2 segs IH]; intros s H.
  - cbn. auto.
  - destruct H as [E H]. split; [reflexivity|]. rewrite E. apply IH. exact H.
Qed.
Lemma chain_end_last : forall (segs : list (PathSeg R)) s p, chain_end p (s :: segs) = seg_end (last segs s).
Proof.
  induction segs as [|s2 segs IH]; intros s p; [reflexivity|].
  change (chain_end p (s :: s2 :: segs)) with (chain_end (seg_end s) (s2 :: segs)).
  rewrite IH, last_cons_default. reflexivity.
Qed.

Lemma chain_closed_iff (segs : list (PathSeg R)) :
  chain_closed segs <-> (segs = [] \/ exists p, chain_from p segs /\ chain_end p segs = p).
Proof.
  destruct segs as [|s segs].
  - split; [left; reflexivity | intros _; exact I].
  - unfold chain_closed. rewrite last_cons_default. split.
    + intros [Hl He]. right. exists (seg_start s). split; [apply chain_linked_from; exact Hl|].
      rewrite chain_end_last. exact He.
    + intros [H|[p [Hf He]]]; [discriminate|]. split; [exact (chain_from_linked _ _ Hf)|].
      rewrite chain_end_last in He. destruct Hf as [Es _]. congruence.
Qed.

(** reversing a chain from p to q gives a chain from q to p *)
Lemma chain_reverse : forall (segs : list (PathSeg R)) p,
  chain_from p segs ->
  chain_from (chain_end p segs) (segs_reverse segs) /\ chain_end (chain_end p segs) (segs_reverse segs) = p.
Proof.
  unfold segs_reverse.
  induction segs as [|s segs IH]; intros p H.
  - cbn. auto.
  - destruct H as [Es H]. destruct (IH (seg_end s) H) as [Hf He].
    cbn [map rev chain_end]. rewrite chain_from_app, chain_end_app, He. cbn [chain_from chain_end].
    destruct (seg_reverse_endpoints s) as [E1 E2]. rewrite E1, E2. auto.
Qed.

Lemma chain_closed_reverse (segs : list (PathSeg R)) : chain_closed segs -> chain_closed (segs_reverse segs).
Proof.
  rewrite !chain_closed_iff. intros [->|[p [Hf He]]]; [left; reflexivity|].
  right. exists p. destruct (chain_reverse segs p Hf) as [H1 H2]. rewrite He in H1, H2. auto.
Qed.

(** * 5. Affine maps *)

Lemma line_zero_area (p : Point R) : line_signed_area (mkLine p p) = 0.
Proof. destruct p as [x y]. crv_unfold. field. Qed.

(** one (open) segment: determinant times the area plus the boundary terms of the translation *)
Lemma seg_area_affine (A : Affine R) (s : PathSeg R) :
  seg_signed_area (seg_map A s)
  = aff_determinant A * seg_signed_area s + (aff_defect A (seg_end s) - aff_defect A (seg_start s)).
Proof.
  destruct A as [a b c d e f].
  destruct s as [[[x0 y0] [x1 y1]] | [[x0 y0] [x1 y1] [x2 y2]] | [[x0 y0] [x1 y1] [x2 y2] [x3 y3]]];
  cbv [aff_defect seg_end seg_start]; ar_unfold; field.
Qed.

Lemma aff_defect_linear (A : Affine R) p : is_linear A -> aff_defect A p = 0.
Proof. intros [E F]. unfold aff_defect. rewrite E, F. ring. Qed.

Lemma seg_area_linear (A : Affine R) (s : PathSeg R) :
  is_linear A -> seg_signed_area (seg_map A s) = aff_determinant A * seg_signed_area s.
Proof. intros L. rewrite seg_area_affine, !(aff_defect_linear A _ L). ring. Qed.

(** a linked chain: only the two outer boundary terms survive *)
Lemma chain_area_affine (A : Affine R) : forall segs s0,
  chain_linked (s0 :: segs) ->
  segs_area (map (seg_map A) (s0 :: segs))
  = aff_determinant A * segs_area (s0 :: segs)
    + (aff_defect A (seg_end (last segs s0)) - aff_defect A (seg_start s0)).
Proof.
  induction segs as [|s1 segs IH]; intros s0 Hl.
  - cbn [map last]. rewrite !segs_area_cons, !segs_area_nil, seg_area_affine. ring.
  - destruct Hl as [He Hl]. specialize (IH s1 Hl).
    change (map (seg_map A) (s0 :: s1 :: segs)) with (seg_map A s0 :: map (seg_map A) (s1 :: segs)).
    rewrite segs_area_cons, IH, (segs_area_cons s0), seg_area_affine, He, last_cons_default. ring.
Qed.

Lemma closed_chain_area_affine (A : Affine R) (segs : list (PathSeg R)) :
  chain_closed segs ->
  segs_area (map (seg_map A) segs) = aff_determinant A * segs_area segs.
Proof.
  destruct segs as [|s0 segs]; intros Hc.
  - simpl. rewrite segs_area_nil. ring.
  - destruct Hc as [Hl He]. rewrite (chain_area_affine A segs s0 Hl).
    rewrite last_cons_default in He. rewrite He. ring.
Qed.

(** the element level: the state machine run on the image *)
Definition map_pair (A : Affine R) (sl : Point R * Point R) : Point R * Point R :=
  (aff_apply A (fst sl), aff_apply A (snd sl)).
Definition map_st (A : Affine R) (st : option (Point R * Point R)) : option (Point R * Point R) :=
  option_map (map_pair A) st.
Definition st_defect (A : Affine R) (st : option (Point R * Point R)) : R :=
  match st with Some (start, last) => aff_defect A start - aff_defect A last | None => 0 end.
Definition oarea (o : option (PathSeg R)) : R :=
  match o with Some s => seg_signed_area s | None => 0 end.

Lemma step_affine (A : Affine R) st e st' out :
  seg_step st e = Some (st', out) -> move_closes st e ->
  exists out', seg_step (map_st A st) (el_map A e) = Some (map_pair A st', out') /\
    oarea out' = aff_determinant A * oarea out + st_defect A st - st_defect A (Some st').
Proof.
  intros Hs Hm.
  destruct e as [p|p|p1 p2|p1 p2 p3|]; destruct st as [[start last]|];
    cbn [seg_step el_end] in Hs; try discriminate;
    try (injection Hs as <- <-).
  - (* MoveTo, Some *) cbn [move_closes] in Hm. subst last. exists None. split; [reflexivity|].
    cbn [oarea st_defect]. ring.
  - (* MoveTo, None *) exists None. split; [reflexivity|]. cbn [oarea st_defect]. ring.
  - (* LineTo, Some *) exists (Some (seg_map A (SegLine (mkLine last p)))). split; [reflexivity|].
    cbn [oarea st_defect]. rewrite seg_area_affine. cbn [seg_end seg_start l0 l1]. ring.
  - exists (Some (seg_map A (SegLine (mkLine p p)))). split; [reflexivity|].
    cbn [oarea st_defect]. rewrite seg_area_affine. cbn [seg_end seg_start l0 l1]. ring.
  - exists (Some (seg_map A (SegQuad (mkQuad last p1 p2)))). split; [reflexivity|].
    cbn [oarea st_defect]. rewrite seg_area_affine. cbn [seg_end seg_start q0 q2]. ring.
  - exists (Some (seg_map A (SegQuad (mkQuad p2 p1 p2)))). split; [reflexivity|].
    cbn [oarea st_defect]. rewrite seg_area_affine. cbn [seg_end seg_start q0 q2]. ring.
  - exists (Some (seg_map A (SegCubic (mkCubic last p1 p2 p3)))). split; [reflexivity|].
    cbn [oarea st_defect]. rewrite seg_area_affine. cbn [seg_end seg_start c0 c3]. ring.
  - exists (Some (seg_map A (SegCubic (mkCubic p3 p1 p2 p3)))). split; [reflexivity|].
    cbn [oarea st_defect]. rewrite seg_area_affine. cbn [seg_end seg_start c0 c3]. ring.
  - (* ClosePath, Some *)
    destruct (pt_neb last start) eqn:E.
    + injection Hs as <- <-.
      pose proof (seg_area_affine A (SegLine (mkLine last start))) as HA.
      cbn [seg_end seg_start seg_map seg_signed_area] in HA. unfold line_map in HA. cbn [l0 l1] in HA.
      destruct (pt_neb (aff_apply A last) (aff_apply A start)) eqn:E2.
      * exists (Some (SegLine (mkLine (aff_apply A last) (aff_apply A start)))). split.
        { cbn [map_st option_map map_pair fst snd el_map seg_step el_end]. rewrite E2. reflexivity. }
        cbn [oarea st_defect seg_signed_area]. rewrite HA. ring.
      * apply pt_neb_false in E2. exists None. split.
        { cbn [map_st option_map map_pair fst snd el_map seg_step el_end]. rewrite E2, pt_neb_refl. reflexivity. }
        rewrite E2, line_zero_area in HA.
        cbn [oarea st_defect seg_signed_area]. lra.
    + injection Hs as <- <-. apply pt_neb_false in E. subst last. exists None. split.
      { cbn [map_st option_map map_pair fst snd el_map seg_step el_end]. rewrite pt_neb_refl. reflexivity. }
      cbn [oarea st_defect]. ring.
Qed.

Lemma path_affine_from (A : Affine R) : forall els st segs,
  segs_from st els = Some segs -> closed_from st els ->
  exists segs', segs_from (map_st A st) (path_map A els) = Some segs' /\
    segs_area segs' = aff_determinant A * segs_area segs + st_defect A st.
Proof.
  induction els as [|e els IH]; intros st segs Hs Hc.
  - injection Hs as <-. exists []. split; [reflexivity|].
    rewrite segs_area_nil. destruct st as [[s l]|]; cbn [closed_from st_defect] in *; [subst; ring | ring].
  - cbn [segs_from] in Hs. cbn [closed_from] in Hc.
    destruct (seg_step st e) as [[st' out]|] eqn:Est; [|discriminate].
    destruct Hc as [Hm Hc].
    destruct (segs_from (Some st') els) as [rest|] eqn:Er; [|discriminate].
    destruct (step_affine A st e st' out Est Hm) as [out' [Hst' Ha]].
    destruct (IH (Some st') rest Er Hc) as [rest' [Hr' Har]].
    exists (match out' with Some s => s :: rest' | None => rest' end). split.
    + unfold path_map. cbn [map segs_from]. rewrite Hst'.
      change (Some (map_pair A st')) with (map_st A (Some st')).
      fold (path_map A els). rewrite Hr'. reflexivity.
    + injection Hs as <-.
      destruct out as [s|], out' as [s'|]; rewrite ?segs_area_cons, Har; cbn [oarea] in Ha; lra.
Qed.

Lemma closed_from_segs : forall (els : list (PathEl R)) st,
  closed_from st els -> exists segs, segs_from st els = Some segs.
Proof.
  induction els as [|e els IH]; intros st Hc.
  - exists []. reflexivity.
  - cbn [closed_from] in Hc. cbn [segs_from].
    destruct (seg_step st e) as [[st' out]|]; [|contradiction].
    destruct Hc as [_ Hc]. destruct (IH (Some st') Hc) as [rest ->].
    eexists. reflexivity.
Qed.

(** closed paths: the area of the image is the determinant times the area (any affine map, also singular) *)
Lemma path_area_affine (A : Affine R) (els : list (PathEl R)) :
  closed_path els ->
  exists a, path_area els = Some a /\ path_area (path_map A els) = Some (aff_determinant A * a).
Proof.
  intros Hc. unfold closed_path in Hc.
  destruct (closed_from_segs els None Hc) as [segs Hs].
  destruct (path_affine_from A els None segs Hs Hc) as [segs' [Hs' Ha]].
  exists (segs_area segs). unfold path_area, segments. rewrite Hs. split; [reflexivity|].
  change (segs_from None (path_map A els)) with (segs_from (map_st A None) (path_map A els)). rewrite Hs'. f_equal. rewrite Ha. cbn [st_defect]. ring.
Qed.

(** * 6. Degree raising and re-expression *)

Lemma quad_area_raise (q : QuadBez R) : cubic_signed_area (quad_raise q) = quad_signed_area q.
Proof. destruct q as [[x0 y0] [x1 y1] [x2 y2]]. crv_unfold. field. Qed.

Lemma seg_area_to_cubic (s : PathSeg R) : cubic_signed_area (seg_to_cubic s) = seg_signed_area s.
Proof.
  destruct s as [[[x0 y0] [x1 y1]] | q | c]; cbn [seg_to_cubic seg_signed_area].
  - crv_unfold. field.
  - apply quad_area_raise.
  - reflexivity.
Qed.

Lemma line_area_as_quad (l : Line R) : quad_signed_area (line_as_quad l) = line_signed_area l.
Proof. destruct l as [[x0 y0] [x1 y1]]. ar_unfold. field. Qed.
Lemma line_area_as_cubic (l : Line R) : cubic_signed_area (line_as_cubic l) = line_signed_area l.
Proof. destruct l as [[x0 y0] [x1 y1]]. ar_unfold. field. Qed.
Lemma line_as_quad_eval (l : Line R) t : quad_eval (line_as_quad l) t = line_eval l t.
Proof. destruct l as [[x0 y0] [x1 y1]]. ar_unfold. rec_eq; field. Qed.
Lemma line_as_cubic_eval (l : Line R) t : cubic_eval (line_as_cubic l) t = line_eval l t.
Proof. destruct l as [[x0 y0] [x1 y1]]. ar_unfold. rec_eq; field. Qed.

(** * 7. The closing line *)

Lemma closepath_step (start last : Point R) :
  (last <> start ->
   seg_step (Some (start, last)) ClosePath = Some ((start, start), Some (SegLine (mkLine last start)))) /\
  (last = start ->
   seg_step (Some (start, last)) ClosePath = Some ((start, last), None)).
Proof.
  split; intros E; cbn [seg_step el_end].
  - apply pt_neb_true in E. rewrite E. reflexivity.
  - apply pt_neb_false in E. rewrite E. reflexivity.
Qed.

(** whatever branch is taken, a [ClosePath] contributes the area of the line back to the start *)
Lemma closepath_area (start last : Point R) (r : list (PathEl R)) segs :
  segs_from (Some (start, last)) (ClosePath :: r) = Some segs ->
  exists rest, segs_from (Some (start, start)) r = Some rest /\
    segs_area segs = line_signed_area (mkLine last start) + segs_area rest.
Proof.
  cbn [segs_from seg_step el_end]. destruct (pt_neb last start) eqn:E.
  - destruct (segs_from (Some (start, start)) r) as [rest|]; [|discriminate].
    intros H. injection H as <-. exists rest. split; [reflexivity|]. rewrite segs_area_cons. reflexivity.
  - apply pt_neb_false in E. subst last.
    destruct (segs_from (Some (start, start)) r) as [rest|]; [|discriminate].
    intros H. injection H as <-. exists rest. split; [reflexivity|]. rewrite line_zero_area. ring.
Qed.

(** the segments of one closed sub-path form a closed chain *)
Lemma subpath_chain : forall (els : list (PathEl R)) start last segs,
  no_move els -> segs_from (Some (start, last)) els = Some segs -> closed_from (Some (start, last)) els ->
  chain_from last segs /\ chain_end last segs = start.
Proof.
  induction els as [|e els IH]; intros start last segs Hn Hs Hc.
  - injection Hs as <-. cbn in Hc |- *. auto.
  - inversion Hn as [|? ? He Hn']; subst.
    cbn [segs_from] in Hs. cbn [closed_from] in Hc.
    destruct e as [p|p|p1 p2|p1 p2 p3|]; [contradiction| | | |]; cbn [seg_step el_end] in Hs, Hc.
    + destruct Hc as [_ Hc]. destruct (segs_from (Some (start, p)) els) as [rest|] eqn:Er; [|discriminate].
      injection Hs as <-. destruct (IH start p rest Hn' Er Hc) as [Hf He2]. cbn. auto.
    + destruct Hc as [_ Hc]. destruct (segs_from (Some (start, p2)) els) as [rest|] eqn:Er; [|discriminate].
      injection Hs as <-. destruct (IH start p2 rest Hn' Er Hc) as [Hf He2]. cbn. auto.
    + destruct Hc as [_ Hc]. destruct (segs_from (Some (start, p3)) els) as [rest|] eqn:Er; [|discriminate].
      injection Hs as <-. destruct (IH start p3 rest Hn' Er Hc) as [Hf He2]. cbn. auto.
    + destruct (pt_neb last start) eqn:E.
      * destruct Hc as [_ Hc]. destruct (segs_from (Some (start, start)) els) as [rest|] eqn:Er; [|discriminate].
        injection Hs as <-. destruct (IH start start rest Hn' Er Hc) as [Hf He2]. cbn. auto.
      * destruct Hc as [_ Hc]. destruct (segs_from (Some (start, last)) els) as [rest|] eqn:Er; [|discriminate].
        injection Hs as <-. exact (IH start last rest Hn' Er Hc).
Qed.

Lemma closed_subpath_chain (p : Point R) (els : list (PathEl R)) segs :
  no_move els -> closed_path (MoveTo p :: els) -> segments (MoveTo p :: els) = Some segs ->
  chain_closed segs.
Proof.
  intros Hn Hc Hs. unfold closed_path in Hc. unfold segments in Hs.
  cbn [closed_from seg_step el_end] in Hc. cbn [segs_from seg_step el_end] in Hs.
  destruct Hc as [_ Hc]. destruct (segs_from (Some (p, p)) els) as [rest|] eqn:Er; [|discriminate].
  injection Hs as <-. destruct (subpath_chain els p p rest Hn Er Hc) as [Hf He].
  apply chain_closed_iff. destruct rest; [left; reflexivity | right; exists p; auto].
Qed.

(** * 8. Orientation *)

Lemma triangle_area (a b c : Point R) :
  path_area [MoveTo a; LineTo b; LineTo c; ClosePath]
  = Some (/ 2 * v_cross (pt_sub b a) (pt_sub c a)).
Proof.
  unfold path_area, segments. cbn [segs_from seg_step el_end].
  destruct (pt_neb c a) eqn:E; f_equal.
  - rewrite !segs_area_cons, segs_area_nil. destruct a as [ax ay], b as [bx by_], c as [cx cy].
    cbn [seg_signed_area]. crv_unfold. field.
  - apply pt_neb_false in E. subst c.
    rewrite !segs_area_cons, segs_area_nil. destruct a as [ax ay], b as [bx by_].
    cbn [seg_signed_area]. crv_unfold. field.
Qed.

Lemma quadrilateral_area (a b c d : Point R) :
  path_area [MoveTo a; LineTo b; LineTo c; LineTo d; ClosePath]
  = Some (/ 2 * v_cross (pt_sub c a) (pt_sub d b)).
Proof.
  unfold path_area, segments. cbn [segs_from seg_step el_end].
  destruct (pt_neb d a) eqn:E; f_equal.
  - rewrite !segs_area_cons, segs_area_nil. destruct a as [ax ay], b as [bx by_], c as [cx cy], d as [dx dy].
    cbn [seg_signed_area]. crv_unfold. field.
  - apply pt_neb_false in E. subst d.
    rewrite !segs_area_cons, segs_area_nil. destruct a as [ax ay], b as [bx by_], c as [cx cy].
    cbn [seg_signed_area]. crv_unfold. field.
Qed.

(** * 9. Concrete instances (non-vacuity, orientation) *)

Definition P (x y : R) : Point R := mkPoint x y.
Definition unit_square : list (PathEl R) := [MoveTo (P 0 0); LineTo (P 1 0); LineTo (P 1 1); LineTo (P 0 1); ClosePath].
Definition unit_square_cw : list (PathEl R) := [MoveTo (P 0 0); LineTo (P 0 1); LineTo (P 1 1); LineTo (P 1 0); ClosePath].
Definition unit_triangle : list (PathEl R) := [MoveTo (P 0 0); LineTo (P 1 0); LineTo (P 0 1); ClosePath].

Lemma unit_square_area : path_area unit_square = Some 1.
Proof. unfold unit_square. rewrite quadrilateral_area. f_equal. unfold P. crv_unfold. field. Qed.
Lemma unit_square_cw_area : path_area unit_square_cw = Some (-1).
Proof. unfold unit_square_cw. rewrite quadrilateral_area. f_equal. unfold P. crv_unfold. field. Qed.
Lemma unit_triangle_area : path_area unit_triangle = Some (/ 2).
Proof. unfold unit_triangle. rewrite triangle_area. f_equal. unfold P. crv_unfold. field. Qed.

Lemma polygon_closed (a : Point R) (mid : list (Point R)) :
  closed_path (MoveTo a :: map (@LineTo R) mid ++ [ClosePath]).
Proof.
  unfold closed_path. cbn [closed_from seg_step el_end move_closes]. split; [exact I|].
  generalize a at 2 as last. induction mid as [|m mid IH]; intros last.
  - cbn [map app closed_from seg_step el_end move_closes].
    destruct (pt_neb last a) eqn:E; (split; [exact I|]); cbn [closed_from].
    + reflexivity.
    + apply pt_neb_false in E. exact E.
  - cbn [map app closed_from seg_step el_end move_closes]. split; [exact I|]. apply IH.
Qed.

Lemma unit_square_closed : closed_path unit_square.
Proof. exact (polygon_closed (P 0 0) [P 1 0; P 1 1; P 0 1]). Qed.

(** a sub-path that returns to its start without [ClosePath], followed by a second sub-path *)
Lemma explicit_return_closed :
  closed_path [MoveTo (P 0 0); QuadTo (P 1 0) (P 1 1); CurveTo (P 2 2) (P 0 3) (P 0 0);
               MoveTo (P 5 5); LineTo (P 6 5); LineTo (P 5 6); ClosePath].
Proof.
  unfold closed_path. cbn [closed_from seg_step el_end move_closes].
  repeat (split; [first [exact I | reflexivity]|]).
  destruct (pt_neb (P 5 6) (P 5 5)) eqn:E; (split; [exact I|]); cbn [closed_from].
  - reflexivity.
  - apply pt_neb_false in E. exact E.
Qed.

(** translating an open segment changes its "area": the determinant law needs a closed chain *)
Lemma affine_open_counterexample :
  exists (A : Affine R) (s : PathSeg R),
    seg_signed_area (seg_map A s) <> aff_determinant A * seg_signed_area s.
Proof.
  exists (mkAffine 1 0 0 1 1 0), (SegLine (mkLine (P 0 0) (P 0 1))).
  unfold P. ar_unfold. lra.
Qed.

Lemma chain_closed_example :
  chain_closed [SegLine (mkLine (P 0 0) (P 1 0)); SegQuad (mkQuad (P 1 0) (P 2 2) (P 0 1));
                SegCubic (mkCubic (P 0 1) (P (-1) 1) (P (-1) 0) (P 0 0))].
Proof. cbn. repeat split. Qed.

(** a curved closed contour turning from +x towards +y: the quarter-disc-like region bounded by
    the quadratic (1,0) -> (1,1) -> (0,1) and two straight edges has area 5/6 > 0 *)
Lemma curved_example :
  path_area [MoveTo (P 0 0); LineTo (P 1 0); QuadTo (P 1 1) (P 0 1); ClosePath] = Some (5 / 6).
Proof.
  unfold path_area, segments. cbn [segs_from seg_step el_end].
  destruct (pt_neb (P 0 1) (P 0 0)) eqn:E.
  - f_equal. rewrite !segs_area_cons, segs_area_nil. cbn [seg_signed_area]. unfold P. crv_unfold. field.
  - apply pt_neb_false in E. unfold P in E. inversion E. lra.
Qed.

(** the area reported for a path is the sum of the line integrals along its segments,
    the implicit closing lines included *)
Lemma path_area_green (els : list (PathEl R)) segs :
  segments els = Some segs ->
  path_area els = Some (sum_f (map (fun s => green_area (seg_eval s) 0 1) segs)).
Proof. intros Hs. unfold path_area. rewrite Hs, segs_area_green. reflexivity. Qed.

(** polygons: the shoelace formula *)
Lemma polygon_area_from (a : Point R) : forall (mid : list (Point R)) last,
  exists segs, segs_from (Some (a, last)) (map (@LineTo R) mid ++ [ClosePath]) = Some segs /\
    segs_area segs = / 2 * shoelace_from a last mid.
Proof.
  induction mid as [|m mid IH]; intros last.
  - cbn [map app segs_from seg_step el_end shoelace_from]. destruct (pt_neb last a) eqn:E.
    + eexists. split; [reflexivity|]. rewrite segs_area_cons, segs_area_nil.
      destruct a as [ax ay], last as [lx ly]. cbn [seg_signed_area]. crv_unfold. field.
    + apply pt_neb_false in E. subst last. eexists. split; [reflexivity|]. rewrite segs_area_nil.
      destruct a as [ax ay]. crv_unfold. field.
  - cbn [map app segs_from seg_step el_end shoelace_from].
    destruct (IH m) as [rest [-> Ha]]. eexists. split; [reflexivity|].
    rewrite segs_area_cons, Ha. destruct last as [lx ly], m as [mx my]. cbn [seg_signed_area].
    generalize (shoelace_from a {| px := mx; py := my |} mid). intro r. crv_unfold. field.
Qed.

Lemma polygon_area (a : Point R) (mid : list (Point R)) :
  path_area (MoveTo a :: map (@LineTo R) mid ++ [ClosePath]) = Some (shoelace a mid).
Proof.
  unfold path_area, segments. cbn [segs_from seg_step el_end].
  destruct (polygon_area_from a mid a) as [segs [-> Ha]]. f_equal. exact Ha.
Qed.

(** every path whose sub-paths are all terminated by [ClosePath] is a closed path *)
Lemma close_terminated_from_closed : forall (els : list (PathEl R)) start last pc,
  (pc = true -> last = start) -> close_terminated_from pc els -> closed_from (Some (start, last)) els.
Proof.
  induction els as [|e els IH]; intros start last pc Hpc Hw.
  - cbn in Hw |- *. auto.
  - cbn [close_terminated_from] in Hw. destruct Hw as [Hm Hw].
    cbn [closed_from]. destruct e as [p|p|p1 p2|p1 p2 p3|]; cbn [seg_step el_end move_closes is_close] in *.
    + split; [auto|]. apply (IH p p false); [discriminate | exact Hw].
    + split; [exact I|]. apply (IH start p false); [discriminate | exact Hw].
    + split; [exact I|]. apply (IH start p2 false); [discriminate | exact Hw].
    + split; [exact I|]. apply (IH start p3 false); [discriminate | exact Hw].
    + destruct (pt_neb last start) eqn:E; (split; [exact I|]).
      * apply (IH start start true); [reflexivity | exact Hw].
      * apply pt_neb_false in E. apply (IH start last true); [auto | exact Hw].
Qed.

Lemma close_terminated_closed (els : list (PathEl R)) : close_terminated els -> closed_path els.
Proof.
  unfold close_terminated, closed_path. destruct els as [|e els]; [intros _; exact I|].
  destruct e as [p|p|p1 p2|p1 p2 p3|]; [| | | |contradiction];
    cbn [close_terminated_from closed_from seg_step el_end move_closes is_close]; intros [_ Hw]; (split; [exact I|]).
  - apply (close_terminated_from_closed els p p false); [discriminate | exact Hw].
  - apply (close_terminated_from_closed els p p false); [discriminate | exact Hw].
  - apply (close_terminated_from_closed els p2 p2 false); [discriminate | exact Hw].
  - apply (close_terminated_from_closed els p3 p3 false); [discriminate | exact Hw].
Qed.
