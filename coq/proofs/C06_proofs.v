(** C06: evaluation, sub-segments, subdivision, derivative, reversal, degree raising —
    polynomial identities at the real instance. *)
From Coq Require Import ZArith QArith Reals List Bool Lra.
From Coquelicot Require Import Coquelicot.
From KV Require Import Scalar RInst Geom Curves RTac.
Local Open Scope R_scope.

(* one call-by-value pass over a white-list: [unfold] with a long list is pathologically slow *)
Ltac crv_unfold :=
  cbv [seg_eval seg_subsegment seg_subdivide seg_reverse seg_to_cubic seg_start seg_end
       seg_start_default seg_end_default seg_signed_area
       cubic_subdivide cubic_subsegment cubic_deriv cubic_eval cubic_start cubic_end cubic_signed_area
       quad_subdivide quad_subsegment quad_deriv quad_raise quad_eval quad_start quad_end quad_signed_area
       line_subdivide line_subsegment line_eval line_deriv line_start line_end line_reversed
       line_signed_area line_midpoint
       pt_lerp pt_midpoint v_lerp pt_add_v pt_sub_v pt_sub v_add v_sub s_scale_v v_scale v_neg v_div
       v_dot v_cross v_hypot2 v_turn_90 pt_distance_squared
       to_point to_vec2 two_thirds one_third one_sixth one_twentieth fquarter
       px py vx vy l0 l1 q0 q1 q2 c0 c1 c2 c3 fst snd] in *;
  rs_unfold; cbv [Q2R Qnum Qden] in *.

Ltac rec_eq :=
  repeat match goal with
  | |- @eq (prod _ _) _ _ => f_equal
  | |- @eq (Point _) _ _ => f_equal
  | |- @eq (Vec2 _) _ _ => f_equal
  | |- @eq (Line _) _ _ => f_equal
  | |- @eq (QuadBez _) _ _ => f_equal
  | |- @eq (CubicBez _) _ _ => f_equal
  | |- @eq (PathSeg _) _ _ => f_equal
  end.
Ltac pt_field := crv_unfold; rec_eq; field.

(** sub-segment traces the same points as the original restricted to [t0,t1]
    (any real t0, t1, u: includes t0 > t1 and t0 = t1) *)
Lemma line_subsegment_eval (l : Line R) t0 t1 u :
  line_eval (line_subsegment l t0 t1) u = line_eval l (t0 + u * (t1 - t0)).
Proof. destruct l as [[x0 y0] [x1 y1]]. pt_field. Qed.

Lemma quad_subsegment_eval (q : QuadBez R) t0 t1 u :
  quad_eval (quad_subsegment q t0 t1) u = quad_eval q (t0 + u * (t1 - t0)).
Proof. destruct q as [[x0 y0] [x1 y1] [x2 y2]]. pt_field. Qed.

Lemma cubic_subsegment_eval (c : CubicBez R) t0 t1 u :
  cubic_eval (cubic_subsegment c t0 t1) u = cubic_eval c (t0 + u * (t1 - t0)).
Proof. destruct c as [[x0 y0] [x1 y1] [x2 y2] [x3 y3]]. pt_field. Qed.

Lemma seg_subsegment_eval (s : PathSeg R) t0 t1 u :
  seg_eval (seg_subsegment s t0 t1) u = seg_eval s (t0 + u * (t1 - t0)).
Proof.
  destruct s; cbn [seg_eval seg_subsegment].
  - apply line_subsegment_eval. - apply quad_subsegment_eval. - apply cubic_subsegment_eval.
Qed.

(** subdivision equals the sub-segments at one half *)
Lemma quad_subdivide_is_subsegment (q : QuadBez R) :
  quad_subdivide q = (quad_subsegment q 0 (/ 2), quad_subsegment q (/ 2) 1).
Proof. destruct q as [[x0 y0] [x1 y1] [x2 y2]]. pt_field. Qed.

Lemma cubic_subdivide_is_subsegment (c : CubicBez R) :
  cubic_subdivide c = (cubic_subsegment c 0 (/ 2), cubic_subsegment c (/ 2) 1).
Proof. destruct c as [[x0 y0] [x1 y1] [x2 y2] [x3 y3]]. pt_field. Qed.

Lemma line_subdivide_is_subsegment (l : Line R) :
  line_subdivide l = (line_subsegment l 0 (/ 2), line_subsegment l (/ 2) 1).
Proof. destruct l as [[x0 y0] [x1 y1]]. pt_field. Qed.

(** end points: evaluation at 0 and 1 returns the stored end points (exact arithmetic) *)
Lemma seg_eval_endpoints (s : PathSeg R) :
  seg_eval s 0 = seg_start s /\ seg_eval s 1 = seg_end s.
Proof.
  destruct s as [[[x0 y0] [x1 y1]] | [[x0 y0] [x1 y1] [x2 y2]] | [[x0 y0] [x1 y1] [x2 y2] [x3 y3]]];
  split; pt_field.
Qed.

(** the sub-segment's stored end points are the curve points at t0 and t1 *)
Lemma seg_subsegment_endpoints (s : PathSeg R) t0 t1 :
  seg_start (seg_subsegment s t0 t1) = seg_eval s t0 /\ seg_end (seg_subsegment s t0 t1) = seg_eval s t1.
Proof. destruct s; split; reflexivity. Qed.

(** the derivative curve is the derivative of evaluation *)
Lemma quad_deriv_is_derivative (q : QuadBez R) t :
  is_derive (fun u => px (quad_eval q u)) t (px (line_eval (quad_deriv q) t)) /\
  is_derive (fun u => py (quad_eval q u)) t (py (line_eval (quad_deriv q) t)).
Proof.
  destruct q as [[x0 y0] [x1 y1] [x2 y2]]. crv_unfold.
  split; auto_derive; auto; ring.
Qed.

Lemma cubic_deriv_is_derivative (c : CubicBez R) t :
  is_derive (fun u => px (cubic_eval c u)) t (px (quad_eval (cubic_deriv c) t)) /\
  is_derive (fun u => py (cubic_eval c u)) t (py (quad_eval (cubic_deriv c) t)).
Proof.
  destruct c as [[x0 y0] [x1 y1] [x2 y2] [x3 y3]]. crv_unfold.
  split; auto_derive; auto; ring.
Qed.

Lemma line_deriv_is_derivative (l : Line R) t :
  is_derive (fun u => px (line_eval l u)) t (px (line_deriv l)) /\
  is_derive (fun u => py (line_eval l u)) t (py (line_deriv l)).
Proof.
  destruct l as [[x0 y0] [x1 y1]]. crv_unfold.
  split; auto_derive; auto; ring.
Qed.

(** reversal traces the same curve backwards *)
Lemma seg_reverse_eval (s : PathSeg R) t :
  seg_eval (seg_reverse s) t = seg_eval s (1 - t).
Proof.
  destruct s as [[[x0 y0] [x1 y1]] | [[x0 y0] [x1 y1] [x2 y2]] | [[x0 y0] [x1 y1] [x2 y2] [x3 y3]]];
  pt_field.
Qed.

Lemma seg_reverse_involutive (s : PathSeg R) : seg_reverse (seg_reverse s) = s.
Proof. destruct s as [[? ?]|[? ? ?]|[? ? ? ?]]; reflexivity. Qed.

Lemma seg_reverse_endpoints (s : PathSeg R) :
  seg_start (seg_reverse s) = seg_end s /\ seg_end (seg_reverse s) = seg_start s.
Proof. destruct s; split; reflexivity. Qed.

(** raising the degree moves no point *)
Lemma quad_raise_eval (q : QuadBez R) t : cubic_eval (quad_raise q) t = quad_eval q t.
Proof. destruct q as [[x0 y0] [x1 y1] [x2 y2]]. pt_field. Qed.

(** [to_cubic] of a quadratic or cubic keeps the parametrisation; of a line it yields the
    cubic (p0,p0,p1,p1), which traces the same points with the smoothstep reparametrisation
    s(t) = 3t^2 - 2t^3 (a monotone bijection of [0,1]) *)
Definition to_cubic_param (s : PathSeg R) (t : R) : R :=
  match s with SegLine _ => 3 * t * t - 2 * t * t * t | _ => t end.

Lemma seg_to_cubic_eval (s : PathSeg R) t :
  cubic_eval (seg_to_cubic s) t = seg_eval s (to_cubic_param s t).
Proof.
  destruct s as [[[x0 y0] [x1 y1]] | q | c]; cbn [seg_to_cubic seg_eval to_cubic_param].
  - pt_field. - apply quad_raise_eval. - reflexivity.
Qed.

Lemma to_cubic_param_range (s : PathSeg R) t : 0 <= t <= 1 -> 0 <= to_cubic_param s t <= 1.
Proof.
  intros Ht. destruct s; cbn [to_cubic_param]; try lra.
  split.
  - replace (3 * t * t - 2 * t * t * t) with (t * t * (3 - 2 * t)) by ring.
    apply Rmult_le_pos; [apply Rmult_le_pos|]; lra.
  - assert (0 <= (1 - t) * (1 - t) * (1 + 2 * t)) by (apply Rmult_le_pos; [apply Rmult_le_pos|]; lra).
    nra.
Qed.

Lemma seg_to_cubic_endpoints (s : PathSeg R) :
  c0 (seg_to_cubic s) = seg_start s /\ c3 (seg_to_cubic s) = seg_end s.
Proof. destruct s as [[? ?]|[? ? ?]|[? ? ? ?]]; split; reflexivity. Qed.
