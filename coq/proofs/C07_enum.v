(** C07: small-scope TESTS of the candidate statements, executed at F64 by [vm_compute] over every
    element list [MoveTo a :: w], |w| <= 4, w over the 13-letter alphabet
    {MoveTo, LineTo, QuadTo(fixed ctrl), CurveTo(fixed ctrls)} x {a, b, c} + ClosePath.
    These are tests, not proofs of the universally quantified theorems (those are in
    C07_proofs.v); they are kept in the build because they pin the statements to the executable
    model and show which statements are FALSE of the pinned [get_seg]. *)
From Coq Require Import ZArith Floats List Bool Arith.
From KV Require Import Scalar F64 Geom Curves Path PathOps PathSpec Corr C06_corr C07_corr.
Import ListNotations.

Local Notation El := (PathEl float).
Local Notation Ch := (Chunk (T:=float)).

Definition pa : Point float := P 0 0.
Definition pb : Point float := P 1 2.
Definition pc : Point float := P (-3) 0.5.
Definition qc : Point float := P 2 3.
Definition k1 : Point float := P 4 5.
Definition k2 : Point float := P 6 7.

Definition alphabet : list El :=
  map (@MoveTo float) [pa; pb; pc] ++ map (@LineTo float) [pa; pb; pc]
  ++ map (fun p => QuadTo qc p) [pa; pb; pc] ++ map (fun p => CurveTo k1 k2 p) [pa; pb; pc]
  ++ [ClosePath].

Fixpoint words (k : nat) : list (list El) :=
  match k with
  | O => [[]]
  | S k' => flat_map (fun w => map (fun a => a :: w) alphabet) (words k')
  end.
Definition words_upto (k : nat) : list (list El) := flat_map words (seq 0 (S k)).
Definition paths_upto (k : nat) : list (list El) := map (fun w => MoveTo pa :: w) (words_upto k).

(** structural comparison through the flat encodings *)
Definition feq (a b : list float) : bool := all2 PrimFloat.eqb a b.
Definition osegs_eqb (a b : option (list (PathSeg float))) := feq (osegs_out a) (osegs_out b).
Definition oels_eqb (a b : option (list El)) := feq (oels_out a) (oels_out b).
Definition oseg_eqb (a b : option (PathSeg float)) := feq (oseg_out a) (oseg_out b).
Definition chunk_out (c : Ch) : list float :=
  pt_out (ch_start c) ++ els_out (ch_draw c) ++ [b2f (ch_closed c)].
Definition chunks_eqb (a b : list Ch) :=
  feq (nat_out (length a) :: flat_map chunk_out a) (nat_out (length b) :: flat_map chunk_out b).

(** get_seg i = what element i emits in [segments] *)
Definition t_get_seg (g : list El -> nat -> option (PathSeg float)) (l : list El) : bool :=
  match outs_from None l with
  | None => false
  | Some outs =>
      osegs_eqb (segments l) (Some (cat_somes outs)) &&
      forallb (fun i => oseg_eqb (g l i) (nth i outs None)) (seq 0 (S (length l)))
  end.

(** rebuild *)
Definition t_rebuild (l : list El) : bool :=
  match segments l with
  | None => false
  | Some segs =>
      let r := from_path_segments segs in
      osegs_eqb (segments r) (Some segs) &&
      Nat.eqb (count_moveto r) (match segs with [] => 0 | _ => 1 + discontinuities segs end)
  end.

(** reversal, through the sub-path decomposition *)
Definition t_reverse (l : list El) : bool :=
  let cs := chunks l in
  osegs_eqb (segments l) (Some (flat_map (@chunk_segs float _) cs)) &&
  oels_eqb (reverse_subpaths l) (Some (flat_map (@render float) (map (@rev_chunk float) cs))) &&
  match reverse_subpaths l with
  | None => false
  | Some r =>
      chunks_eqb (chunks r) (map (@rev_chunk float) cs) &&
      forallb (fun c =>
        let R := rev (map (@seg_reverse float) (chunk_segs c)) in
        let S := chunk_segs (rev_chunk c) in
        if ch_closed c
        then osegs_eqb (Some S) (Some R) || osegs_eqb (Some S) (Some (rotl1 R))
        else osegs_eqb (Some S) (Some R)) cs
  end.

Definition t_reverse_twice (l : list El) : bool :=
  match reverse_subpaths l with
  | Some r => match reverse_subpaths r with
              | Some r2 => osegs_eqb (segments r2) (segments l)
              | None => false
              end
  | None => false
  end.

Definition count_false (t : list El -> bool) (ls : list (list El)) : nat :=
  length (filter (fun l => negb (t l)) ls).

(** the required [get_seg] passes on all 30941 lists; the pinned one fails on 4212 of them *)
Example enum_get_seg_req : count_false (t_get_seg (@get_seg_req float _)) (paths_upto 4) = 0.
Proof. vm_compute. reflexivity. Qed.
Example enum_get_seg_pinned_fails : count_false (t_get_seg (@get_seg float _)) (paths_upto 3) <> 0.
Proof. vm_compute. discriminate. Qed.
Example enum_rebuild : count_false t_rebuild (paths_upto 4) = 0.
Proof. vm_compute. reflexivity. Qed.
Example enum_reverse : count_false t_reverse (paths_upto 4) = 0.
Proof. vm_compute. reflexivity. Qed.
Example enum_reverse_twice : count_false t_reverse_twice (paths_upto 4) = 0.
Proof. vm_compute. reflexivity. Qed.

(** without the leading MoveTo, reversing twice does NOT restore the segments: the side condition
    of [reverse_twice_segments] is needed (shortest witness: a single LineTo) *)
Example enum_reverse_twice_needs_moveto : t_reverse_twice [LineTo pb] = false.
Proof. vm_compute. reflexivity. Qed.
