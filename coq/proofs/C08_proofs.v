(** C08, part 2: extrema of quadratics and cubics, monotone ranges — real instance
    (kurbo's code run in exact arithmetic; division is total, [fis_finite = true]). *)
From Coq Require Import ZArith QArith Reals List Bool Lra Lia Sorting.Sorted Sorting.Permutation.
From Coq Require Import Classical_Prop.
From KV Require Import Scalar RInst Geom Curves Rect Path Solvers Extrema RTac ExtremaSpec.
From KV Require Import C06_proofs C15_proofs C08_base.
Import ListNotations.
Local Open Scope R_scope.

Ltac ex_unfold :=
  cbv [seg_vx seg_vy seg_vel seg_x seg_y oc_a oc_b] in *; crv_unfold.

(** * the per-coordinate quadratic  c + b t + a t^2  of [one_coord] *)
Definition poly2 (c b a t : R) : R := c + b * t + a * (t * t).

Lemma poly2_continuity c b a : continuity (poly2 c b a).
Proof. unfold poly2. reg. Qed.

Lemma oc_a_real d0 d1 d2 : oc_a d0 d1 d2 = d0 - 2 * d1 + d2.
Proof. reflexivity. Qed.
Lemma oc_b_real d0 d1 : oc_b d0 d1 = 2 * (d1 - d0).
Proof. reflexivity. Qed.

Lemma quad_linear_R (c0 c1 : R) : quad_linear c0 c1 = [- c0 / c1].
Proof. unfold quad_linear. rs_unfold. reflexivity. Qed.

(** [one_coord] with the linear block: exactly the interior zeros of the derivative polynomial
    (unless it is the zero polynomial), at most two *)
Lemma one_coord_lin_spec (d0 d1 d2 : R) :
  let g := poly2 d0 (oc_b d0 d1) (oc_a d0 d1 d2) in
  let l := cubic_one_coord_lin d0 d1 d2 in
  (forall t, In t l -> 0 < t < 1 /\ g t = 0) /\
  ((exists u, g u <> 0) -> forall t, 0 < t < 1 -> g t = 0 -> In t l) /\
  (length l <= 2)%nat.
Proof.
  cbv zeta. unfold cubic_one_coord_lin, cubic_one_coord.
  set (a := oc_a d0 d1 d2). set (b := oc_b d0 d1).
  change (feqb a f0) with (Reqb a 0).
  destruct (Reqb_spec a 0) as [Ha|Ha].
  - rewrite quad_linear_R. unfold poly2. rewrite Ha.
    split; [|split].
    + intros t Ht. apply extrema_filter_In in Ht. destruct Ht as [[<-|[]] Ht].
      split; [exact Ht|].
      destruct (Req_dec b 0) as [Hb|Hb].
      * exfalso. rewrite Hb in Ht. unfold Rdiv in Ht. rewrite Rinv_0 in Ht. lra.
      * field. exact Hb.
    + intros [u Hu] t Ht Hg. apply extrema_filter_In. split; [|exact Ht]. left.
      destruct (Req_dec b 0) as [Hb|Hb].
      * exfalso. rewrite Hb in *. apply Hu. lra.
      * apply Rmult_eq_reg_l with b; [|exact Hb]. field_simplify; [|exact Hb]. lra.
    + pose proof (extrema_filter_length [- d0 / b]). simpl in *. lia.
  - destruct (solve_quadratic_spec_main d0 b a Ha) as [Hin _]. unfold poly2.
    split; [|split].
    + intros t Ht. apply extrema_filter_In in Ht. destruct Ht as [Ht H01].
      split; [exact H01|]. apply Hin. exact Ht.
    + intros _ t Ht Hg. apply extrema_filter_In. split; [|exact Ht]. apply Hin. exact Hg.
    + pose proof (extrema_filter_length (solve_quadratic d0 b a)).
      pose proof (quad_len_any d0 b a). lia.
Qed.

Lemma extrema_filter_nil (l : list R) : (forall x, In x l -> ~ (0 < x < 1)) -> extrema_filter l = [].
Proof.
  unfold extrema_filter. induction l as [|y l IH]; simpl; intro Hn; [reflexivity|].
  destruct (in_open01 y) eqn:E.
  - apply in_open01_true in E. exfalso. apply (Hn y); [left; reflexivity|exact E].
  - apply IH. intros x Hx. apply Hn. right. exact Hx.
Qed.

(** at the real instance a zero leading coefficient sends [solve_quadratic] to x^2 = 0 *)
Lemma solve_quadratic_lead0 (c0 c1 : R) x : In x (solve_quadratic c0 c1 0) -> x = 0.
Proof.
  rewrite solve_quadratic_real.
  replace (c0 * (1 / 0)) with 0 by (unfold Rdiv; rewrite Rinv_0; ring).
  replace (c1 * (1 / 0)) with 0 by (unfold Rdiv; rewrite Rinv_0; ring).
  destruct (quad_main_spec 0 0) as [Hin _]. intro Hx. apply Hin in Hx.
  assert (x * x = 0) by lra. apply Rmult_integral in H. lra.
Qed.

(** under the guard the faithful [one_coord] returns the same list *)
Lemma one_coord_eq_lin (d0 d1 d2 : R) : lead_ok d0 d1 d2 ->
  cubic_one_coord d0 d1 d2 = cubic_one_coord_lin d0 d1 d2.
Proof.
  intros Hok. unfold cubic_one_coord_lin.
  change (feqb (oc_a d0 d1 d2) f0) with (Reqb (oc_a d0 d1 d2) 0).
  destruct (Reqb_spec (oc_a d0 d1 d2) 0) as [Ha|Ha]; [|reflexivity].
  destruct Hok as [Hok|Hb]; [contradiction|].
  unfold cubic_one_coord. rewrite Ha, Hb, quad_linear_R.
  rewrite !extrema_filter_nil; [reflexivity| |].
  - intros x [<-|[]]. unfold Rdiv. rewrite Rinv_0. lra.
  - intros x Hx. apply solve_quadratic_lead0 in Hx. lra.
Qed.

(** the faithful [one_coord] never reports anything but interior zeros (no guard needed) *)
Lemma one_coord_sound (d0 d1 d2 : R) t : In t (cubic_one_coord d0 d1 d2) ->
  0 < t < 1 /\ poly2 d0 (oc_b d0 d1) (oc_a d0 d1 d2) t = 0.
Proof.
  intro Hin. destruct (Req_dec (oc_a d0 d1 d2) 0) as [Ha|Ha].
  - exfalso. unfold cubic_one_coord in Hin. rewrite Ha in Hin.
    apply extrema_filter_In in Hin. destruct Hin as [Hx H01].
    apply solve_quadratic_lead0 in Hx. lra.
  - rewrite (one_coord_eq_lin d0 d1 d2 (or_introl Ha)) in Hin.
    apply (proj1 (one_coord_lin_spec d0 d1 d2)). exact Hin.
Qed.

Lemma one_coord_length (d0 d1 d2 : R) : (length (cubic_one_coord d0 d1 d2) <= 2)%nat.
Proof.
  unfold cubic_one_coord.
  pose proof (extrema_filter_length (solve_quadratic d0 (oc_b d0 d1) (oc_a d0 d1 d2))).
  pose proof (quad_len_any d0 (oc_b d0 d1) (oc_a d0 d1 d2)). lia.
Qed.

(** the linear block, for any scalar: when the scaled coefficients are not finite (leading
    coefficient zero or tiny on binary64) [one_coord] filters the root of the linear equation *)
Lemma one_coord_linear_generic (T : Type) (S : Scalar T) (d0 d1 d2 : T) :
  (fis_finite (fmul d0 (fdiv f1 (oc_a d0 d1 d2))) &&
   fis_finite (fmul (oc_b d0 d1) (fdiv f1 (oc_a d0 d1 d2))))%bool = false ->
  cubic_one_coord d0 d1 d2 = extrema_filter (quad_linear d0 (oc_b d0 d1)).
Proof.
  intro Hf. unfold cubic_one_coord. rewrite (solve_quadratic_linear_generic T S _ _ _ Hf). reflexivity.
Qed.

(** the literal model at the real instance: a zero leading coefficient yields nothing *)
Lemma one_coord_lead0 (d0 d1 d2 : R) : oc_a d0 d1 d2 = 0 -> cubic_one_coord d0 d1 d2 = [].
Proof.
  intro Ha. unfold cubic_one_coord. rewrite Ha.
  apply extrema_filter_nil. intros x Hx. apply solve_quadratic_lead0 in Hx. lra.
Qed.

(** ** the exact rescaling of proposed_fixes/C08-tiny-derivative.diff keeps all of this: at the real
    instance the lifted [one_coord] reports only interior zeros of the same derivative *)
Lemma oc_scale_pos (d0 d1 d2 : R) : 0 < oc_scale d0 d1 d2.
Proof.
  unfold oc_scale. cbv zeta. destruct (fltb _ _).
  - cbv [oc_lift flit RS Q2R Qnum Qden].
    assert (0 < IZR (2 ^ 600)) by (apply IZR_lt; apply Z.pow_pos_nonneg; lia).
    rewrite Rinv_1. lra.
  - cbv [f1 fofZ RS]. lra.
Qed.

Lemma poly2_scale (s d0 d1 d2 t : R) :
  poly2 (d0 * s) (oc_b (d0 * s) (d1 * s)) (oc_a (d0 * s) (d1 * s) (d2 * s)) t =
  s * poly2 d0 (oc_b d0 d1) (oc_a d0 d1 d2) t.
Proof. unfold poly2. rewrite !oc_a_real, !oc_b_real. ring. Qed.

Lemma one_coord_lifted_sound (d0 d1 d2 : R) t : In t (cubic_one_coord_lifted d0 d1 d2) ->
  0 < t < 1 /\ poly2 d0 (oc_b d0 d1) (oc_a d0 d1 d2) t = 0.
Proof.
  unfold cubic_one_coord_lifted. cbv zeta. pose proof (oc_scale_pos d0 d1 d2) as Hs.
  intro Hin. apply one_coord_sound in Hin. destruct Hin as [H01 Hg].
  split; [exact H01|]. rewrite poly2_scale in Hg. apply Rmult_integral in Hg. destruct Hg; [lra|assumption].
Qed.

(** * velocities of the three segment kinds *)

Lemma cubic_vx (x0 y0 x1 y1 x2 y2 x3 y3 t : R) :
  let c := mkCubic (mkPoint x0 y0) (mkPoint x1 y1) (mkPoint x2 y2) (mkPoint x3 y3) in
  seg_vx (SegCubic c) t = 3 * poly2 (x1 - x0) (oc_b (x1 - x0) (x2 - x1)) (oc_a (x1 - x0) (x2 - x1) (x3 - x2)) t /\
  seg_vy (SegCubic c) t = 3 * poly2 (y1 - y0) (oc_b (y1 - y0) (y2 - y1)) (oc_a (y1 - y0) (y2 - y1) (y3 - y2)) t.
Proof. cbv zeta. unfold poly2. ex_unfold. split; ring. Qed.

Lemma quad_vx (x0 y0 x1 y1 x2 y2 t : R) :
  let q := mkQuad (mkPoint x0 y0) (mkPoint x1 y1) (mkPoint x2 y2) in
  seg_vx (SegQuad q) t = 2 * ((x1 - x0) + t * ((x2 - x1) - (x1 - x0))) /\
  seg_vy (SegQuad q) t = 2 * ((y1 - y0) + t * ((y2 - y1) - (y1 - y0))).
Proof. cbv zeta. ex_unfold. split; ring. Qed.

Lemma seg_vel_continuity (s : PathSeg R) : continuity (seg_vx s) /\ continuity (seg_vy s).
Proof.
  destruct s as [[[x0 y0] [x1 y1]] | [[x0 y0] [x1 y1] [x2 y2]] | [[x0 y0] [x1 y1] [x2 y2] [x3 y3]]];
    ex_unfold; split; reg.
Qed.

(** Simpson's rule is exact for every coordinate of every segment kind *)
Lemma seg_simpson (s : PathSeg R) : simpson (seg_x s) (seg_vx s) /\ simpson (seg_y s) (seg_vy s).
Proof.
  destruct s as [[[x0 y0] [x1 y1]] | [[x0 y0] [x1 y1] [x2 y2]] | [[x0 y0] [x1 y1] [x2 y2] [x3 y3]]];
    unfold simpson; ex_unfold; split; intros u v; field.
Qed.

(** * assembling an [extrema_spec] from per-coordinate facts *)
Lemma mk_extrema_spec (s : PathSeg R) (l : list R) :
  (forall t, In t l -> 0 < t < 1 /\ (seg_vx s t = 0 \/ seg_vy s t = 0)) ->
  (forall t, 0 < t < 1 -> seg_vx s t = 0 -> not_identically_zero (seg_vx s) -> In t l) ->
  (forall t, 0 < t < 1 -> seg_vy s t = 0 -> not_identically_zero (seg_vy s) -> In t l) ->
  StronglySorted Rle l -> (length l <= 4)%nat ->
  extrema_spec s l.
Proof.
  intros Hs Hx Hy Hsort Hlen. destruct (seg_vel_continuity s) as [Hcx Hcy].
  constructor; try assumption.
  - intros t Ht [Hsc|Hsc].
    + apply Hx; [exact Ht|apply cont_sign_change_zero; assumption|eapply sign_change_not_zero; exact Hsc].
    + apply Hy; [exact Ht|apply cont_sign_change_zero; assumption|eapply sign_change_not_zero; exact Hsc].
  - intros t Ht [[Hz Hn]|[Hz Hn]]; [apply Hx|apply Hy]; assumption.
Qed.

(** * CubicBez::extrema *)

Lemma cubic_extrema_lin_unfold (x0 y0 x1 y1 x2 y2 x3 y3 : R) :
  cubic_extrema_lin (mkCubic (mkPoint x0 y0) (mkPoint x1 y1) (mkPoint x2 y2) (mkPoint x3 y3)) =
  sort_asc (cubic_one_coord_lin (x1 - x0) (x2 - x1) (x3 - x2) ++ cubic_one_coord_lin (y1 - y0) (y2 - y1) (y3 - y2)).
Proof. reflexivity. Qed.

Lemma cubic_extrema_unfold (x0 y0 x1 y1 x2 y2 x3 y3 : R) :
  cubic_extrema (mkCubic (mkPoint x0 y0) (mkPoint x1 y1) (mkPoint x2 y2) (mkPoint x3 y3)) =
  sort_asc (cubic_one_coord (x1 - x0) (x2 - x1) (x3 - x2) ++ cubic_one_coord (y1 - y0) (y2 - y1) (y3 - y2)).
Proof. reflexivity. Qed.

Lemma nz_scale (k : R) (g h : R -> R) : k <> 0 -> (forall t, g t = k * h t) ->
  not_identically_zero g -> exists u, h u <> 0.
Proof.
  intros Hk E [u Hu]. exists u. intro Hz. apply Hu. rewrite E, Hz. ring.
Qed.

Lemma cubic_extrema_lin_spec (c : CubicBez R) : extrema_spec (SegCubic c) (cubic_extrema_lin c).
Proof.
  destruct c as [[x0 y0] [x1 y1] [x2 y2] [x3 y3]].
  rewrite cubic_extrema_lin_unfold.
  set (c := mkCubic _ _ _ _).
  destruct (one_coord_lin_spec (x1 - x0) (x2 - x1) (x3 - x2)) as (Sx & Cx & Lx).
  destruct (one_coord_lin_spec (y1 - y0) (y2 - y1) (y3 - y2)) as (Sy & Cy & Ly).
  cbv zeta in *.
  assert (Hv : forall t,
    seg_vx (SegCubic c) t = 3 * poly2 (x1 - x0) (oc_b (x1 - x0) (x2 - x1)) (oc_a (x1 - x0) (x2 - x1) (x3 - x2)) t /\
    seg_vy (SegCubic c) t = 3 * poly2 (y1 - y0) (oc_b (y1 - y0) (y2 - y1)) (oc_a (y1 - y0) (y2 - y1) (y3 - y2)) t)
    by (intro t; apply cubic_vx).
  apply mk_extrema_spec.
  - intros t Ht. apply (proj1 (sort_asc_In _ _)) in Ht. apply in_app_or in Ht.
    destruct (Hv t) as [Ex Ey]. destruct Ht as [Ht|Ht].
    + destruct (Sx t Ht) as [H01 Hg]. split; [exact H01|left]. rewrite Ex, Hg. ring.
    + destruct (Sy t Ht) as [H01 Hg]. split; [exact H01|right]. rewrite Ey, Hg. ring.
  - intros t Ht Hz Hn. apply (proj2 (sort_asc_In _ _)), in_or_app. left.
    apply Cx; [|exact Ht|].
    + apply (nz_scale 3 (seg_vx (SegCubic c))); [lra|intro u; apply (proj1 (Hv u))|exact Hn].
    + rewrite (proj1 (Hv t)) in Hz. lra.
  - intros t Ht Hz Hn. apply (proj2 (sort_asc_In _ _)), in_or_app. right.
    apply Cy; [|exact Ht|].
    + apply (nz_scale 3 (seg_vy (SegCubic c))); [lra|intro u; apply (proj2 (Hv u))|exact Hn].
    + rewrite (proj2 (Hv t)) in Hz. lra.
  - apply sort_asc_spec.
  - rewrite sort_asc_length, app_length. lia.
Qed.

Lemma cubic_extrema_eq_lin (c : CubicBez R) : cubic_lead_ok c -> cubic_extrema c = cubic_extrema_lin c.
Proof.
  destruct c as [[x0 y0] [x1 y1] [x2 y2] [x3 y3]]. intros [Hx Hy]. simpl in Hx, Hy.
  rewrite cubic_extrema_unfold, cubic_extrema_lin_unfold.
  rewrite (one_coord_eq_lin _ _ _ Hx), (one_coord_eq_lin _ _ _ Hy). reflexivity.
Qed.

(** the faithful model, no guard: sound, ascending, at most four *)
Lemma cubic_extrema_sound (c : CubicBez R) :
  (forall t, In t (cubic_extrema c) -> 0 < t < 1 /\ (seg_vx (SegCubic c) t = 0 \/ seg_vy (SegCubic c) t = 0)) /\
  StronglySorted Rle (cubic_extrema c) /\ (length (cubic_extrema c) <= 4)%nat.
Proof.
  destruct c as [[x0 y0] [x1 y1] [x2 y2] [x3 y3]].
  rewrite cubic_extrema_unfold. set (c := mkCubic _ _ _ _).
  split; [|split].
  - intros t Ht. apply (proj1 (sort_asc_In _ _)) in Ht. apply in_app_or in Ht.
    destruct (cubic_vx x0 y0 x1 y1 x2 y2 x3 y3 t) as [Ex Ey]. cbv zeta in Ex, Ey. fold c in Ex, Ey.
    destruct Ht as [Ht|Ht]; apply one_coord_sound in Ht; destruct Ht as [H01 Hg];
      (split; [exact H01|]); [left; rewrite Ex, Hg|right; rewrite Ey, Hg]; ring.
  - apply sort_asc_spec.
  - rewrite sort_asc_length, app_length.
    pose proof (one_coord_length (x1 - x0) (x2 - x1) (x3 - x2)).
    pose proof (one_coord_length (y1 - y0) (y2 - y1) (y3 - y2)). lia.
Qed.

(** * QuadBez::extrema *)

Definition quad_one_coord (d0 dd : R) : list R :=
  if negb (Reqb dd 0) then (if in_open01 (- d0 / dd) then [- d0 / dd] else []) else [].

Definition quad_merge (rx ry : list R) : list R :=
  match ry with
  | [] => rx
  | t :: _ => match rx with
              | [t0] => if Rltb t t0 then [t; t0] else [t0; t]
              | _ => rx ++ [t]
              end
  end.

Lemma quad_extrema_unfold (x0 y0 x1 y1 x2 y2 : R) :
  quad_extrema (mkQuad (mkPoint x0 y0) (mkPoint x1 y1) (mkPoint x2 y2)) =
  quad_merge (quad_one_coord (x1 - x0) ((x2 - x1) - (x1 - x0)))
             (quad_one_coord (y1 - y0) ((y2 - y1) - (y1 - y0))).
Proof.
  unfold quad_extrema, quad_one_coord, quad_merge.
  cbv [q0 q1 q2 pt_sub v_sub vx vy px py]. rs_unfold.
  destruct (negb (Reqb (y2 - y1 - (y1 - y0)) 0)); [|reflexivity].
  destruct (in_open01 (- (y1 - y0) / (y2 - y1 - (y1 - y0)))); reflexivity.
Qed.

Lemma quad_one_coord_spec (d0 dd : R) :
  let l := quad_one_coord d0 dd in
  (forall t, In t l <-> (dd <> 0 /\ t = - d0 / dd /\ 0 < t < 1)) /\
  (l = [] \/ exists t, l = [t]).
Proof.
  cbv zeta. unfold quad_one_coord.
  destruct (Reqb_spec dd 0) as [Hd|Hd]; simpl.
  - split; [|left; reflexivity]. intro t. split; [intros []|]. intros [H _]. contradiction.
  - destruct (in_open01 (- d0 / dd)) eqn:E.
    + apply in_open01_true in E. split; [|right; eexists; reflexivity].
      intro t. simpl. split.
      * intros [<-|[]]. auto.
      * intros (_ & -> & _). left; reflexivity.
    + split; [|left; reflexivity]. intro t. split; [intros []|].
      intros (_ & -> & H01). apply in_open01_true in H01. congruence.
Qed.

Lemma ssorted1 (a : R) : StronglySorted Rle [a].
Proof. constructor; constructor. Qed.
Lemma ssorted2 (a b : R) : a <= b -> StronglySorted Rle [a; b].
Proof. intro H. constructor; [apply ssorted1|]. constructor; [exact H|constructor]. Qed.

Lemma quad_merge_spec (rx ry : list R) :
  (rx = [] \/ exists t, rx = [t]) -> (ry = [] \/ exists t, ry = [t]) ->
  let l := quad_merge rx ry in
  (forall t, In t l <-> In t rx \/ In t ry) /\ StronglySorted Rle l /\ (length l <= 2)%nat.
Proof.
  intros [->|[t0 ->]] [->|[t ->]]; cbv zeta; simpl.
  - split; [tauto|]. split; [constructor|lia].
  - split; [tauto|]. split; [apply ssorted1|lia].
  - split; [tauto|]. split; [apply ssorted1|lia].
  - destruct (Rltb_spec t t0); simpl.
    + split; [tauto|]. split; [apply ssorted2; lra|lia].
    + split; [tauto|]. split; [apply ssorted2; lra|lia].
Qed.

Lemma quad_extrema_spec_lemma (q : QuadBez R) : extrema_spec (SegQuad q) (quad_extrema q).
Proof.
  destruct q as [[x0 y0] [x1 y1] [x2 y2]].
  rewrite quad_extrema_unfold. set (q := mkQuad _ _ _).
  destruct (quad_one_coord_spec (x1 - x0) ((x2 - x1) - (x1 - x0))) as [Ix Fx].
  destruct (quad_one_coord_spec (y1 - y0) ((y2 - y1) - (y1 - y0))) as [Iy Fy].
  cbv zeta in *.
  destruct (quad_merge_spec _ _ Fx Fy) as (Hin & Hsort & Hlen). cbv zeta in *.
  assert (Hv : forall t,
    seg_vx (SegQuad q) t = 2 * ((x1 - x0) + t * ((x2 - x1) - (x1 - x0))) /\
    seg_vy (SegQuad q) t = 2 * ((y1 - y0) + t * ((y2 - y1) - (y1 - y0)))) by (intro t; apply quad_vx).
  assert (Hroot : forall d0 dd t, dd <> 0 -> (2 * (d0 + t * dd) = 0 <-> t = - d0 / dd)).
  { intros d0 dd t Hd. split; intro E.
    - apply Rmult_eq_reg_l with dd; [|exact Hd]. field_simplify; [|exact Hd]. lra.
    - rewrite E. field. exact Hd. }
  assert (Hconst : forall d0 dd (g : R -> R) t, (forall u, g u = 2 * (d0 + u * dd)) ->
                   g t = 0 -> not_identically_zero g -> dd <> 0).
  { intros d0 dd g t Eg Hz [u Hu] Hd. apply Hu. rewrite Eg in *. rewrite Hd in *. lra. }
  apply mk_extrema_spec; try assumption; [| | |lia].
  - intros t Ht. apply Hin in Ht. destruct (Hv t) as [Ex Ey]. destruct Ht as [Ht|Ht].
    + apply Ix in Ht. destruct Ht as (Hd & E & H01). split; [exact H01|left].
      rewrite Ex. apply Hroot; assumption.
    + apply Iy in Ht. destruct Ht as (Hd & E & H01). split; [exact H01|right].
      rewrite Ey. apply Hroot; assumption.
  - intros t Ht Hz Hn. apply Hin. left. apply Ix.
    assert (Hd : (x2 - x1) - (x1 - x0) <> 0)
      by (apply (Hconst (x1 - x0) _ (seg_vx (SegQuad q)) t); [intro u; apply (proj1 (Hv u))|exact Hz|exact Hn]).
    split; [exact Hd|]. split; [|exact Ht]. apply Hroot; [exact Hd|]. rewrite <- (proj1 (Hv t)). exact Hz.
  - intros t Ht Hz Hn. apply Hin. right. apply Iy.
    assert (Hd : (y2 - y1) - (y1 - y0) <> 0)
      by (apply (Hconst (y1 - y0) _ (seg_vy (SegQuad q)) t); [intro u; apply (proj2 (Hv u))|exact Hz|exact Hn]).
    split; [exact Hd|]. split; [|exact Ht]. apply Hroot; [exact Hd|]. rewrite <- (proj2 (Hv t)). exact Hz.
Qed.

Lemma quad_extrema_length (q : QuadBez R) : (length (quad_extrema q) <= 2)%nat.
Proof.
  destruct q as [[x0 y0] [x1 y1] [x2 y2]]. rewrite quad_extrema_unfold.
  destruct (quad_one_coord_spec (x1 - x0) ((x2 - x1) - (x1 - x0))) as [_ Fx].
  destruct (quad_one_coord_spec (y1 - y0) ((y2 - y1) - (y1 - y0))) as [_ Fy].
  apply (quad_merge_spec _ _ Fx Fy).
Qed.

(** * Line: no extrema, and the velocity is constant *)
Lemma line_extrema_spec_lemma (l : Line R) : extrema_spec (SegLine l) (line_extrema l).
Proof.
  apply mk_extrema_spec; simpl; try tauto; try constructor; try lia.
  - intros t _ Hz [u Hu]. apply Hu. exact Hz.
  - intros t _ Hz [u Hu]. apply Hu. exact Hz.
Qed.

(** * PathSeg dispatch *)
Lemma seg_extrema_lin_spec (s : PathSeg R) : extrema_spec s (seg_extrema_lin s).
Proof.
  destruct s; simpl.
  - apply line_extrema_spec_lemma.
  - apply quad_extrema_spec_lemma.
  - apply cubic_extrema_lin_spec.
Qed.

Lemma seg_extrema_eq_lin (s : PathSeg R) : seg_lead_ok s -> seg_extrema s = seg_extrema_lin s.
Proof. destruct s; simpl; intro Hok; [reflexivity|reflexivity|apply cubic_extrema_eq_lin; exact Hok]. Qed.

Lemma seg_extrema_spec_guarded (s : PathSeg R) : seg_lead_ok s -> extrema_spec s (seg_extrema s).
Proof. intro Hok. rewrite (seg_extrema_eq_lin s Hok). apply seg_extrema_lin_spec. Qed.

(** the faithful dispatch without a guard: sound, ascending, at most four *)
Lemma seg_extrema_sound (s : PathSeg R) :
  (forall t, In t (seg_extrema s) -> 0 < t < 1 /\ (seg_vx s t = 0 \/ seg_vy s t = 0)) /\
  StronglySorted Rle (seg_extrema s) /\ (length (seg_extrema s) <= 4)%nat.
Proof.
  destruct s as [l|q|c]; simpl.
  - split; [intros ? []|]. split; [constructor|simpl; lia].
  - pose proof (quad_extrema_spec_lemma q) as Hs. split; [apply (ex_sound _ _ Hs)|].
    split; [apply (ex_sorted _ _ Hs)|apply (ex_length _ _ Hs)].
  - apply cubic_extrema_sound.
Qed.

(** * extrema_ranges: both coordinates are monotone on every range *)

Lemma zeros_or_const (g : R -> R) (l : list R) :
  (forall t, 0 < t < 1 -> g t = 0 -> not_identically_zero g -> In t l) ->
  (forall u, g u = 0) \/ (forall t, 0 < t < 1 -> g t = 0 -> In t l).
Proof.
  intro H. destruct (classic (not_identically_zero g)) as [Hn|Hn].
  - right. intros t Ht Hz. apply H; assumption.
  - left. intro u. destruct (Req_dec (g u) 0) as [|Hu]; [assumption|].
    exfalso. apply Hn. exists u. exact Hu.
Qed.

Lemma spec_in_unit (s : PathSeg R) (l : list R) : extrema_spec s l -> forall x, In x l -> 0 < x < 1.
Proof. intros Hs x Hx. apply (ex_sound _ _ Hs x Hx). Qed.

Lemma spec_sorted0 (s : PathSeg R) (l : list R) : extrema_spec s l -> StronglySorted Rle (0 :: l).
Proof.
  intro Hs. constructor; [apply (ex_sorted _ _ Hs)|].
  apply Forall_forall. intros x Hx. pose proof (spec_in_unit s l Hs x Hx). lra.
Qed.

Lemma ranges_monotone_of_spec (s : PathSeg R) (l : list R) (a b : R) : extrema_spec s l ->
  In (a, b) (extrema_ranges l) ->
  0 <= a /\ a <= b /\ b <= 1 /\ (a = 0 \/ In a l) /\ (b = 1 \/ In b l) /\
  mono_on (seg_x s) a b /\ mono_on (seg_y s) a b.
Proof.
  intros Hs Hin. unfold extrema_ranges in Hin. change (@f0 R RS) with 0 in Hin.
  destruct (ranges_adjacent l 0 a b (spec_sorted0 s l Hs) ltac:(lra)
              (fun x Hx => Rlt_le _ _ (proj2 (spec_in_unit s l Hs x Hx))) Hin)
    as (A & B & C & D & E & F).
  repeat split; try assumption.
  - destruct (seg_simpson s) as [Sx _]. destruct (seg_vel_continuity s) as [Cx _].
    apply (mono_on_range (seg_x s) (seg_vx s) l a b Sx Cx); try assumption.
    + apply zeros_or_const. intros t Ht Hz Hn. apply (ex_complete_zeros _ _ Hs t Ht). left. split; assumption.
    + intros x Hx. apply F. right. exact Hx.
  - destruct (seg_simpson s) as [_ Sy]. destruct (seg_vel_continuity s) as [_ Cy].
    apply (mono_on_range (seg_y s) (seg_vy s) l a b Sy Cy); try assumption.
    + apply zeros_or_const. intros t Ht Hz Hn. apply (ex_complete_zeros _ _ Hs t Ht). right. split; assumption.
    + intros x Hx. apply F. right. exact Hx.
Qed.

Lemma ranges_cover_unit (l : list R) (t : R) : 0 <= t <= 1 ->
  exists a b, In (a, b) (extrema_ranges l) /\ a <= t <= b.
Proof. intros [H0 H1]. apply ranges_cover; assumption. Qed.
