(** C03: arc length and its inverse — lemmas at the real instance. *)
From Coq Require Import ZArith QArith Reals List Bool Lra Lia Psatz.
From Coquelicot Require Import Coquelicot.
From KV Require Import Scalar RInst Geom Curves Path Solvers ArclenCoeffs Arclen RTac ArclenSpec C06_proofs.
Import ListNotations.
Local Open Scope R_scope.

(** one call-by-value pass over a white-list of model constants, then the real operations *)
Ltac arc_unfold :=
  cbv [line_arclen line_inv_arclen arclen_setup a_dm a_dm1 a_dm2 a_lp_lc
       seg_deriv_at speed norm2
       seg_eval seg_subsegment seg_subdivide
       cubic_subdivide cubic_subsegment cubic_deriv cubic_eval
       quad_subdivide quad_subsegment quad_deriv quad_eval
       line_subdivide line_subsegment line_eval line_deriv
       pt_lerp pt_midpoint v_lerp pt_add_v pt_sub_v pt_sub v_add v_sub s_scale_v v_scale v_neg v_div
       v_dot v_cross v_hypot2 v_hypot
       to_point to_vec2 two_thirds one_third one_sixth one_twentieth fquarter al_quarter
       px py vx vy l0 l1 q0 q1 q2 c0 c1 c2 c3 fst snd] in *;
  rs_unfold; cbv [Q2R Qnum Qden] in *.

(** ** sums *)
Lemma fold_left_Rplus (l : list R) (a : R) : fold_left Rplus l a = a + Rsum l.
Proof. revert a; induction l as [|x l IH]; intros a; simpl; [lra | rewrite IH; lra]. Qed.

Lemma sum_f_R (l : list R) : sum_f l = Rsum l.
Proof. unfold sum_f. change (@fadd R RS) with Rplus. rewrite fold_left_Rplus. change (@f0 R RS) with 0. lra. Qed.

Lemma Rsum_app (l1 l2 : list R) : Rsum (l1 ++ l2) = Rsum l1 + Rsum l2.
Proof. induction l1; simpl; lra. Qed.

Lemma Rsum_map_ext {A} (f g : A -> R) (l : list A) :
  (forall x, In x l -> f x = g x) -> Rsum (map f l) = Rsum (map g l).
Proof.
  induction l as [|x l IH]; intros Hfg; simpl; [reflexivity|].
  rewrite (Hfg x (or_introl eq_refl)), IH; [reflexivity|]. intros; apply Hfg; right; assumption.
Qed.

(** ** square roots *)
Lemma sqrt_scale (k a b : R) : sqrt ((k * a) * (k * a) + (k * b) * (k * b)) = Rabs k * sqrt (a * a + b * b).
Proof.
  replace ((k * a) * (k * a) + (k * b) * (k * b)) with (Rsqr k * (a * a + b * b)) by (unfold Rsqr; ring).
  rewrite sqrt_mult; [| apply Rle_0_sqr | nra].
  rewrite sqrt_Rsqr_abs. reflexivity.
Qed.

Lemma norm2_nonneg p : 0 <= norm2 p.
Proof. apply sqrt_pos. Qed.

(** ** Line: the arc length is the Euclidean distance of the end points; inv_arclen is linear *)
Lemma line_arclen_distance (l : Line R) :
  line_arclen l = sqrt ((px (l1 l) - px (l0 l)) * (px (l1 l) - px (l0 l))
                        + (py (l1 l) - py (l0 l)) * (py (l1 l) - py (l0 l))).
Proof. destruct l as [[x0 y0] [x1 y1]]. reflexivity. Qed.

Lemma line_arclen_nonneg (l : Line R) : 0 <= line_arclen l.
Proof. rewrite line_arclen_distance. apply sqrt_pos. Qed.

Lemma line_inv_arclen_linear (l : Line R) (s : R) : line_inv_arclen l s = s / line_arclen l.
Proof. reflexivity. Qed.

Lemma line_inv_arclen_range (l : Line R) (s : R) :
  0 < line_arclen l -> 0 <= s <= line_arclen l -> 0 <= line_inv_arclen l s <= 1.
Proof.
  intros Hl [H0 H1]. rewrite line_inv_arclen_linear. split.
  - apply Rmult_le_pos; [assumption | left; apply Rinv_0_lt_compat; assumption].
  - apply Rmult_le_reg_r with (line_arclen l); [assumption|].
    unfold Rdiv. rewrite Rmult_assoc, Rinv_l; lra.
Qed.

Lemma line_inv_arclen_ends (l : Line R) :
  0 < line_arclen l -> line_inv_arclen l 0 = 0 /\ line_inv_arclen l (line_arclen l) = 1.
Proof.
  intros Hl. rewrite !line_inv_arclen_linear. split; [unfold Rdiv; ring | field; lra].
Qed.

(** the sub-segment up to the returned parameter has exactly the requested length *)
Lemma line_subsegment_arclen (l : Line R) (t : R) :
  line_arclen (line_subsegment l 0 t) = Rabs t * line_arclen l.
Proof.
  destruct l as [[x0 y0] [x1 y1]]. rewrite !line_arclen_distance. arc_unfold.
  rewrite <- sqrt_scale. f_equal. ring.
Qed.

Lemma line_inv_arclen_inverts (l : Line R) (s : R) :
  0 < line_arclen l -> 0 <= s ->
  line_arclen (line_subsegment l 0 (line_inv_arclen l s)) = s.
Proof.
  intros Hl Hs. rewrite line_subsegment_arclen, line_inv_arclen_linear.
  rewrite Rabs_pos_eq; [field; lra|].
  apply Rmult_le_pos; [assumption | left; apply Rinv_0_lt_compat; assumption].
Qed.

(** ** speed and true length *)
Lemma speed_nonneg s t : 0 <= speed s t.
Proof. apply norm2_nonneg. Qed.

Lemma speed_continuous (s : PathSeg R) (t : R) : continuous (speed s) t.
Proof.
  destruct s as [[[x0 y0] [x1 y1]] | [[x0 y0] [x1 y1] [x2 y2]] | [[x0 y0] [x1 y1] [x2 y2] [x3 y3]]];
  unfold speed, norm2; apply continuous_sqrt_comp;
  apply (ex_derive_continuous (fun u => px (seg_deriv_at _ u) * px (seg_deriv_at _ u)
                                          + py (seg_deriv_at _ u) * py (seg_deriv_at _ u)));
  arc_unfold; auto_derive; trivial.
Qed.

Lemma speed_ex_RInt (s : PathSeg R) (a b : R) : ex_RInt (speed s) a b.
Proof. apply (ex_RInt_continuous (V:=R_CompleteNormedModule)). intros z _. apply speed_continuous. Qed.

(** the derivative of a sub-segment is the scaled derivative of the original *)
Lemma seg_deriv_subsegment (s : PathSeg R) (t0 t1 u : R) :
  px (seg_deriv_at (seg_subsegment s t0 t1) u) = (t1 - t0) * px (seg_deriv_at s (t0 + u * (t1 - t0))) /\
  py (seg_deriv_at (seg_subsegment s t0 t1) u) = (t1 - t0) * py (seg_deriv_at s (t0 + u * (t1 - t0))).
Proof.
  destruct s as [[[x0 y0] [x1 y1]] | [[x0 y0] [x1 y1] [x2 y2]] | [[x0 y0] [x1 y1] [x2 y2] [x3 y3]]];
  arc_unfold; split; field.
Qed.

Lemma speed_subsegment (s : PathSeg R) (t0 t1 u : R) :
  speed (seg_subsegment s t0 t1) u = Rabs (t1 - t0) * speed s (t0 + u * (t1 - t0)).
Proof.
  unfold speed, norm2. destruct (seg_deriv_subsegment s t0 t1 u) as [-> ->]. apply sqrt_scale.
Qed.

(** the true length of a sub-segment is the integral of the speed over its parameter range *)
Lemma true_len_subsegment (s : PathSeg R) (t0 t1 : R) :
  t0 <= t1 -> true_len (seg_subsegment s t0 t1) = true_len_range s t0 t1.
Proof.
  intros Hle. unfold true_len, true_len_range.
  transitivity (RInt (V:=R_CompleteNormedModule)
                     (fun u => scal (t1 - t0) (speed s ((t1 - t0) * u + t0))) 0 1).
  - apply RInt_ext. intros u _. rewrite speed_subsegment. rewrite Rabs_pos_eq by lra.
    unfold scal; simpl; unfold mult; simpl. f_equal. f_equal. ring.
  - etransitivity; [apply (RInt_comp_lin (V:=R_CompleteNormedModule) (speed s) (t1 - t0) t0 0 1);
                    apply speed_ex_RInt |].
    f_equal; ring.
Qed.

Lemma true_len_range_Chasles (s : PathSeg R) (a b c : R) :
  true_len_range s a c = true_len_range s a b + true_len_range s b c.
Proof.
  unfold true_len_range. symmetry.
  apply (RInt_Chasles (V:=R_CompleteNormedModule) (speed s) a b c); apply speed_ex_RInt.
Qed.

(** length is additive when a segment is split at any parameter of [0,1] *)
Lemma true_len_split (s : PathSeg R) (t : R) :
  0 <= t <= 1 ->
  true_len s = true_len (seg_subsegment s 0 t) + true_len (seg_subsegment s t 1).
Proof.
  intros [H0 H1]. rewrite !true_len_subsegment by lra. apply true_len_range_Chasles.
Qed.

Lemma true_len_nonneg (s : PathSeg R) : 0 <= true_len s.
Proof.
  unfold true_len, true_len_range. apply RInt_ge_0; [lra | apply speed_ex_RInt |].
  intros; apply speed_nonneg.
Qed.

(** the true length of a cubic is additive under the code's [subdivide] *)
Lemma cubic_true_len_additive : additive_on_subdivide cubic_true_len.
Proof.
  intros c. rewrite cubic_subdivide_is_subsegment. cbn [fst snd]. unfold cubic_true_len.
  change (SegCubic (cubic_subsegment c 0 (/ 2))) with (seg_subsegment (SegCubic c) 0 (/ 2)).
  change (SegCubic (cubic_subsegment c (/ 2) 1)) with (seg_subsegment (SegCubic c) (/ 2) 1).
  apply true_len_split. lra.
Qed.

(** a line's reported length is its true length *)
Lemma line_arclen_true (l : Line R) : line_arclen l = true_len (SegLine l).
Proof.
  unfold true_len, true_len_range.
  rewrite (RInt_ext (speed (SegLine l)) (fun _ => line_arclen l)).
  - rewrite RInt_const. unfold scal; simpl; unfold mult; simpl. ring.
  - intros x _. destruct l as [[x0 y0] [x1 y1]]. reflexivity.
Qed.

(** ** arclen_quadrature_core is the symmetric quadrature rule applied to the speed *)
Lemma sqrt_2_25 : sqrt (Q2R (9 # 4)) = 3 / 2.
Proof.
  replace (Q2R (9 # 4)) with ((3 / 2) * (3 / 2)) by (unfold Q2R; simpl; field).
  apply sqrt_square. lra.
Qed.

(** dm + dm1 x + dm2 x^2 is one third of the derivative of the cubic at (1 + x)/2 *)
Lemma dm_is_deriv (c : CubicBez R) (x : R) :
  let d := arclen_setup c in
  let D := quad_eval (cubic_deriv c) ((1 + x) / 2) in
  vx (v_add (v_add (a_dm d) (v_scale (a_dm2 d) (x * x))) (v_scale (a_dm1 d) x)) = / 3 * px D /\
  vy (v_add (v_add (a_dm d) (v_scale (a_dm2 d) (x * x))) (v_scale (a_dm1 d) x)) = / 3 * py D.
Proof.
  destruct c as [[x0 y0] [x1 y1] [x2 y2] [x3 y3]]. arc_unfold. split; field.
Qed.

Lemma dm_is_deriv_minus (c : CubicBez R) (x : R) :
  let d := arclen_setup c in
  let D := quad_eval (cubic_deriv c) ((1 - x) / 2) in
  vx (v_sub (v_add (a_dm d) (v_scale (a_dm2 d) (x * x))) (v_scale (a_dm1 d) x)) = / 3 * px D /\
  vy (v_sub (v_add (a_dm d) (v_scale (a_dm2 d) (x * x))) (v_scale (a_dm1 d) x)) = / 3 * py D.
Proof.
  destruct c as [[x0 y0] [x1 y1] [x2 y2] [x3 y3]]. arc_unfold. split; field.
Qed.

Lemma v_hypot_R (v : Vec2 R) : v_hypot v = sqrt (vx v * vx v + vy v * vy v).
Proof. reflexivity. Qed.

Lemma core_term (c : CubicBez R) (w x : R) :
  let d := arclen_setup c in
  let dd := v_add (a_dm d) (v_scale (a_dm2 d) (x * x)) in
  (fsqrt al_2_25 * w) * (v_hypot (v_add dd (v_scale (a_dm1 d) x)) + v_hypot (v_sub dd (v_scale (a_dm1 d) x)))
  = w / 2 * (speed (SegCubic c) ((1 + x) / 2) + speed (SegCubic c) ((1 - x) / 2)).
Proof.
  intros d dd. subst dd d.
  rewrite !v_hypot_R.
  destruct (dm_is_deriv c x) as [-> ->]. destruct (dm_is_deriv_minus c x) as [-> ->].
  rewrite !sqrt_scale. rewrite (Rabs_pos_eq (/ 3)) by lra.
  change (fsqrt al_2_25) with (sqrt (Q2R (9 # 4))). rewrite sqrt_2_25.
  change (@fmul R RS) with Rmult. change (@fadd R RS) with Rplus.
  unfold speed, norm2. cbn [seg_deriv_at]. field.
Qed.

Lemma gauss_core_is_rule (coeffs : list (R * R)) (c : CubicBez R) :
  let d := arclen_setup c in
  arclen_quadrature_core coeffs (a_dm d) (a_dm1 d) (a_dm2 d) = sym_rule coeffs (speed (SegCubic c)).
Proof.
  intros d. unfold arclen_quadrature_core, sym_rule. rewrite sum_f_R.
  apply Rsum_map_ext. intros [w x] _. cbn [fst snd]. apply (core_term c w x).
Qed.

(** ** the tables: transcription checks on the exact rationals of the decimals in the source *)
Definition qtab (raw : gl_raw) : list (Q * Q) := map (fun e => (snd (fst e), snd (snd e))) raw.
Definition rtab (t : list (Q * Q)) : list (R * R) := map (fun wx => (Q2R (fst wx), Q2R (snd wx))) t.

Lemma gl_tab_R (raw : gl_raw) : gl_tab (T:=R) raw = rtab (qtab raw).
Proof. unfold gl_tab, rtab, qtab. rewrite map_map. reflexivity. Qed.

(** k-th moment of a (half) table: sum_i w_i x_i^k *)
Definition moment (t : list (R * R)) (k : nat) : R := Rsum (map (fun wx => fst wx * snd wx ^ k) t).

(** All entries of the tables are decimals with 16 digits: numerators over the common denominator
    10^16.  The moments are checked in integer arithmetic (no gcds), the powers built incrementally. *)
Definition zD : Z := 10 ^ 16.
Definition znum (t : list (Q * Q)) : list (Z * Z) := map (fun wx => (Qnum (fst wx), Qnum (snd wx))) t.
Definition den_ok (t : list (Q * Q)) : bool :=
  forallb (fun wx => Z.eqb (Zpos (Qden (fst wx))) zD && Z.eqb (Zpos (Qden (snd wx))) zD) t.
Definition ztab (zt : list (Z * Z)) : list (R * R) := map (fun e => (IZR (fst e) / IZR zD, IZR (snd e) / IZR zD)) zt.

Lemma rtab_ztab (t : list (Q * Q)) : den_ok t = true -> rtab t = ztab (znum t).
Proof.
  unfold den_ok, rtab, ztab, znum. rewrite forallb_forall, map_map. intros H.
  apply map_ext_in. intros [[wn wd] [xn xd]] Hin. specialize (H _ Hin). cbn [fst snd Qnum Qden] in *.
  apply andb_true_iff in H. destruct H as [H1 H2]. apply Z.eqb_eq in H1. apply Z.eqb_eq in H2.
  unfold Q2R. cbn [Qnum Qden]. rewrite H1, H2. reflexivity.
Qed.

(* state: ((W, X), X^(2j)) *)
Definition zinit (zt : list (Z * Z)) (j : nat) : list (Z * Z * Z) := map (fun e => (e, (snd e ^ Z.of_nat (2 * j))%Z)) zt.
Definition zstep (s : list (Z * Z * Z)) : list (Z * Z * Z) :=
  map (fun e => (fst e, (snd e * (snd (fst e) * snd (fst e)))%Z)) s.
Definition zsum (s : list (Z * Z * Z)) : Z := fold_right (fun e acc => (fst (fst e) * snd e + acc)%Z) 0%Z s.

(* |s / (D * dpow) - 1/(2j+1)| <= 1e-15, cross-multiplied *)
Definition zok (j : nat) (s dpow : Z) : bool :=
  let k := Z.of_nat (2 * j + 1) in
  (Z.abs (k * s - zD * dpow) * 10 ^ 15 <=? k * (zD * dpow))%Z.

Fixpoint zcheck (fuel j : nat) (s : list (Z * Z * Z)) (dpow : Z) : bool :=
  match fuel with
  | O => true
  | S f => zok j (zsum s) dpow && zcheck f (S j) (zstep s) (dpow * (zD * zD))
  end.

Lemma zstep_init (zt : list (Z * Z)) (j : nat) : zstep (zinit zt j) = zinit zt (S j).
Proof.
  unfold zstep, zinit. rewrite map_map. apply map_ext. intros [w x]. cbn [fst snd]. f_equal.
  replace (Z.of_nat (2 * S j)) with (Z.of_nat (2 * j) + 2)%Z by lia.
  rewrite Z.pow_add_r by lia. f_equal. ring.
Qed.

Lemma zcheck_sound (zt : list (Z * Z)) (fuel j0 : nat) :
  zcheck fuel j0 (zinit zt j0) (zD ^ Z.of_nat (2 * j0)) = true ->
  forall j, (j0 <= j < j0 + fuel)%nat -> zok j (zsum (zinit zt j)) (zD ^ Z.of_nat (2 * j)) = true.
Proof.
  revert j0. induction fuel as [|f IH]; intros j0 H j Hj; [lia|].
  cbn [zcheck] in H. apply andb_true_iff in H. destruct H as [H1 H2].
  destruct (Nat.eq_dec j j0) as [->|Hne]; [assumption|].
  rewrite zstep_init in H2.
  replace (zD ^ Z.of_nat (2 * j0) * (zD * zD))%Z with (zD ^ Z.of_nat (2 * S j0))%Z in H2.
  - apply (IH (S j0) H2). lia.
  - replace (Z.of_nat (2 * S j0)) with (Z.of_nat (2 * j0) + 2)%Z by lia.
    rewrite Z.pow_add_r by lia. rewrite Z.pow_2_r. reflexivity.
Qed.

Lemma IZR_zD_pos : 0 < IZR zD.
Proof. apply IZR_lt. reflexivity. Qed.

Lemma moment_ztab_aux (zt : list (Z * Z)) (k : nat) :
  Rsum (map (fun e : Z * Z => IZR (fst e) / IZR zD * (IZR (snd e) / IZR zD) ^ k) zt)
  = IZR (fold_right (fun (e : Z * Z) acc => (fst e * snd e ^ Z.of_nat k + acc)%Z) 0%Z zt)
    / (IZR zD * IZR zD ^ k).
Proof.
  pose proof IZR_zD_pos as HD.
  assert (HDk : IZR zD ^ k <> 0) by (apply pow_nonzero; lra).
  induction zt as [|[w x] zt IH]; cbn [map Rsum fold_right fst snd].
  - unfold Rdiv; ring.
  - rewrite IH, plus_IZR, mult_IZR, <- pow_IZR.
    unfold Rdiv. rewrite Rpow_mult_distr, pow_inv. field. split; [assumption | lra].
Qed.

Lemma zsum_init (zt : list (Z * Z)) (j : nat) :
  zsum (zinit zt j) = fold_right (fun (e : Z * Z) acc => (fst e * snd e ^ Z.of_nat (2 * j) + acc)%Z) 0%Z zt.
Proof.
  unfold zsum, zinit. induction zt as [|e zt IH]; cbn [map fold_right fst snd]; [reflexivity|].
  rewrite IH. reflexivity.
Qed.

Lemma moment_ztab (zt : list (Z * Z)) (j : nat) :
  moment (ztab zt) (2 * j) = IZR (zsum (zinit zt j)) / (IZR zD * IZR zD ^ (2 * j)).
Proof.
  rewrite zsum_init, <- moment_ztab_aux. unfold moment, ztab. rewrite map_map. reflexivity.
Qed.

Lemma zok_sound (j : nat) (s : Z) :
  zok j s (zD ^ Z.of_nat (2 * j)) = true ->
  Rabs (IZR s / (IZR zD * IZR zD ^ (2 * j)) - / INR (2 * j + 1)) <= / 10 ^ 15.
Proof.
  pose proof IZR_zD_pos as HD.
  unfold zok. intros H. apply Z.leb_le in H. apply IZR_le in H.
  rewrite !mult_IZR, abs_IZR, minus_IZR, !mult_IZR, <- !pow_IZR in H.
  rewrite <- INR_IZR_INZ in H.
  set (k := INR (2 * j + 1)) in *. set (P := IZR zD ^ (2 * j)) in *.
  assert (Hk : 0 < k) by (unfold k; apply lt_0_INR; lia).
  assert (HP : 0 < P) by (unfold P; apply pow_lt; assumption).
  replace (IZR (10 ^ 15)) with (10 ^ 15) in H by (exact (pow_IZR 10 15)).
  assert (HM : 0 < k * (IZR zD * P)) by (apply Rmult_lt_0_compat; [|apply Rmult_lt_0_compat]; assumption).
  replace (IZR s / (IZR zD * P) - / k) with ((k * IZR s - IZR zD * P) / (k * (IZR zD * P)))
    by (field; repeat split; lra).
  unfold Rdiv. rewrite Rabs_mult, (Rabs_pos_eq (/ _)) by (left; apply Rinv_0_lt_compat; assumption).
  apply Rmult_le_reg_r with (k * (IZR zD * P)); [assumption|].
  rewrite Rmult_assoc, Rinv_l by lra. rewrite Rmult_1_r.
  apply Rmult_le_reg_r with (10 ^ 15); [apply pow_lt; lra|].
  replace (/ 10 ^ 15 * (k * (IZR zD * P)) * 10 ^ 15) with (k * (IZR zD * P)) by (field; apply pow_nonzero; lra).
  exact H.
Qed.

(* |moment(2j) - 1/(2j+1)| <= 1e-15 for all j < n, decided on the integers *)
Definition zmoments_ok (t : list (Q * Q)) (n : nat) : bool :=
  den_ok t && zcheck n 0 (zinit (znum t) 0) 1.

Lemma zmoments_ok_sound (t : list (Q * Q)) (n : nat) :
  zmoments_ok t n = true ->
  forall j, (j < n)%nat -> Rabs (moment (rtab t) (2 * j) - / INR (2 * j + 1)) <= / 10 ^ 15.
Proof.
  unfold zmoments_ok. intros H j Hj. apply andb_true_iff in H. destruct H as [Hd Hc].
  rewrite (rtab_ztab t Hd), moment_ztab. apply zok_sound.
  apply (zcheck_sound (znum t) n 0); [exact Hc | lia].
Qed.

Lemma gl8_half_moments : forall j, (j < 8)%nat ->
  Rabs (moment (gl8_half (T:=R)) (2 * j) - / INR (2 * j + 1)) <= / 10 ^ 15.
Proof. unfold gl8_half. rewrite gl_tab_R. apply zmoments_ok_sound. vm_compute. reflexivity. Qed.

Lemma gl16_half_moments : forall j, (j < 16)%nat ->
  Rabs (moment (gl16_half (T:=R)) (2 * j) - / INR (2 * j + 1)) <= / 10 ^ 15.
Proof. unfold gl16_half. rewrite gl_tab_R. apply zmoments_ok_sound. vm_compute. reflexivity. Qed.

Lemma gl24_half_moments : forall j, (j < 24)%nat ->
  Rabs (moment (gl24_half (T:=R)) (2 * j) - / INR (2 * j + 1)) <= / 10 ^ 15.
Proof. unfold gl24_half. rewrite gl_tab_R. apply zmoments_ok_sound. vm_compute. reflexivity. Qed.

(** in particular the weights of each half table sum to 1 (the length of [0,1]) *)
Lemma moment_0 (t : list (R * R)) : moment t 0 = Rsum (map fst t).
Proof. unfold moment. apply Rsum_map_ext. intros [w x] _; simpl; lra. Qed.

Lemma gauss_weights_sum :
  Rabs (Rsum (map fst (gl8_half (T:=R))) - 1) <= / 10 ^ 15 /\
  Rabs (Rsum (map fst (gl16_half (T:=R))) - 1) <= / 10 ^ 15 /\
  Rabs (Rsum (map fst (gl24_half (T:=R))) - 1) <= / 10 ^ 15.
Proof.
  rewrite <- !moment_0.
  pose proof (gl8_half_moments 0 ltac:(lia)) as H8.
  pose proof (gl16_half_moments 0 ltac:(lia)) as H16.
  pose proof (gl24_half_moments 0 ltac:(lia)) as H24.
  simpl in H8, H16, H24. replace (/ 1) with 1 in * by lra. auto.
Qed.

(** the full 8-point table (used for the estimate) is the half table with both signs of every node *)
Definition symmetrize (h : list (R * R)) : list (R * R) :=
  flat_map (fun wx => [(fst wx, - snd wx); wx]) h.

Lemma full_rule_symmetrize (h : list (R * R)) (g : R -> R) : full_rule (symmetrize h) g = sym_rule h g.
Proof.
  unfold full_rule, sym_rule, symmetrize. induction h as [|[w x] h IH]; simpl; [reflexivity|].
  rewrite IH. replace ((1 + - x) / 2) with ((1 - x) / 2) by lra. lra.
Qed.

Lemma Q2R_neg (n d : positive) : Q2R (Z.neg n # d) = - Q2R (Z.pos n # d).
Proof. unfold Q2R; cbn [Qnum Qden]. change (Z.neg n) with (- Z.pos n)%Z. rewrite opp_IZR. ring. Qed.

Lemma gl8_symmetric : gl8 (T:=R) = symmetrize gl8_half.
Proof.
  unfold gl8, gl8_half. rewrite !gl_tab_R.
  cbv [rtab qtab gl8_raw gl8_half_raw map fst snd symmetrize flat_map app].
  rewrite !Q2R_neg. reflexivity.
Qed.

(** ** the recursion: error budget and size *)

(** the error estimate the code computes for rule [r] *)
Definition rule_est (d : @ArcDm R) (r : rule) : R :=
  let est := arclen_est d in
  match r with
  | R8 => est8_error d est
  | R16 => est16_error d est
  | _ => est24_error d est
  end.

(** [leaves_conservative L rho rem c acc]: on every leaf the recursion [arclen_rec rem c acc] reaches,
    (i) the rule was admitted by its estimate, not forced by the depth cap, and
    (ii) (the hypothesis "est_conservative" on that leaf) the true error of the chosen rule against the
    length functional [L] is at most the estimate the code computed, up to a relative rounding
    allowance [rho] (0 for the pure statement; the tables are 16-digit decimals, so even a straight
    line needs rho ~ 1e-15). *)
Fixpoint leaves_conservative (L : CubicBez R -> R) (rho : R) (rem : nat) (c : CubicBez R) (acc : R) : Prop :=
  let d := arclen_setup c in
  match arclen_choose d acc (match rem with O => true | S _ => false end) with
  | RSplit =>
      match rem with
      | O => False
      | S rem' =>
          leaves_conservative L rho rem' (fst (cubic_subdivide c)) (acc / 2) /\
          leaves_conservative L rho rem' (snd (cubic_subdivide c)) (acc / 2)
      end
  | r => rule_est d r < acc /\ Rabs (arclen_leaf d r - L c) <= rule_est d r + rho * L c
  end.

Lemma fhalf_R : @fhalf R RS = / 2.
Proof. unfold fhalf. rs_unfold. apply Q2R_half. Qed.

Lemma arclen_rec_vc_eq (rem : nat) (c : CubicBez R) (acc : R) :
  arclen_rec_vc rem c acc =
  let d := arclen_setup c in
  match arclen_choose d acc (match rem with O => true | S _ => false end) with
  | RSplit =>
      match rem with
      | O => (arclen_leaf d R24, 1%Z)
      | S rem' =>
          let va := arclen_rec_vc rem' (fst (cubic_subdivide c)) (acc / 2) in
          let vb := arclen_rec_vc rem' (snd (cubic_subdivide c)) (acc / 2) in
          (fst va + fst vb, (1 + snd va + snd vb)%Z)
      end
  | r => (arclen_leaf d r, 1%Z)
  end.
Proof.
  destruct rem as [|rem']; cbn [arclen_rec_vc]; cbv zeta.
  - destruct (arclen_choose _ _ _); reflexivity.
  - destruct (arclen_choose _ _ _); try reflexivity.
    destruct (cubic_subdivide c) as [ca cb]. cbn [fst snd].
    change (@fmul R RS acc fhalf) with (acc * @fhalf R RS). rewrite fhalf_R.
    change (acc * / 2) with (acc / 2).
    destruct (arclen_rec_vc rem' ca (acc / 2)) as [va na].
    destruct (arclen_rec_vc rem' cb (acc / 2)) as [vb nb]. reflexivity.
Qed.

Lemma arclen_rec_budget (L : CubicBez R -> R) (rho : R) :
  additive_on_subdivide L ->
  forall (rem : nat) (c : CubicBez R) (acc : R),
    leaves_conservative L rho rem c acc ->
    Rabs (arclen_rec rem c acc - L c) <= acc + rho * L c.
Proof.
  intros Hadd. induction rem as [|rem IH]; intros c acc Hl; unfold arclen_rec; rewrite arclen_rec_vc_eq;
    cbn [leaves_conservative] in Hl; cbv zeta in *.
  - destruct (arclen_choose _ _ _); cbn [fst]; try (destruct Hl as [H1 H2]; lra). contradiction.
  - destruct (arclen_choose _ _ _); cbn [fst]; try (destruct Hl as [H1 H2]; lra).
    destruct Hl as [Ha Hb]. apply IH in Ha. apply IH in Hb. unfold arclen_rec in Ha, Hb.
    rewrite (Hadd c).
    set (va := fst (arclen_rec_vc rem (fst (cubic_subdivide c)) (acc / 2))) in *.
    set (vb := fst (arclen_rec_vc rem (snd (cubic_subdivide c)) (acc / 2))) in *.
    set (La := L (fst (cubic_subdivide c))) in *. set (Lb := L (snd (cubic_subdivide c))) in *.
    change (@fadd R RS va vb) with (va + vb).
    replace (va + vb - (La + Lb)) with ((va - La) + (vb - Lb)) by ring.
    eapply Rle_trans; [apply Rabs_triang|]. lra.
Qed.

(** number of leaves of the recursion *)
Fixpoint arclen_leaves (rem : nat) (c : CubicBez R) (acc : R) : Z :=
  match arclen_choose (arclen_setup c) acc (match rem with O => true | S _ => false end) with
  | RSplit =>
      match rem with
      | O => 1%Z
      | S rem' => (arclen_leaves rem' (fst (cubic_subdivide c)) (acc / 2)
                   + arclen_leaves rem' (snd (cubic_subdivide c)) (acc / 2))%Z
      end
  | _ => 1%Z
  end.

Lemma arclen_rec_calls_leaves (rem : nat) (c : CubicBez R) (acc : R) :
  arclen_rec_calls rem c acc = (2 * arclen_leaves rem c acc - 1)%Z.
Proof.
  revert c acc. induction rem as [|rem IH]; intros c acc; unfold arclen_rec_calls; rewrite arclen_rec_vc_eq;
    cbn [arclen_leaves]; cbv zeta.
  - destruct (arclen_choose _ _ _); reflexivity.
  - destruct (arclen_choose _ _ _); try reflexivity. cbn [snd].
    pose proof (IH (fst (cubic_subdivide c)) (acc / 2)) as Ha.
    pose proof (IH (snd (cubic_subdivide c)) (acc / 2)) as Hb.
    unfold arclen_rec_calls in Ha, Hb. rewrite Ha, Hb. ring.
Qed.

Lemma arclen_leaves_bound (rem : nat) (c : CubicBez R) (acc : R) :
  (1 <= arclen_leaves rem c acc <= 2 ^ Z.of_nat rem)%Z.
Proof.
  revert c acc. induction rem as [|rem IH]; intros c acc; cbn [arclen_leaves].
  - destruct (arclen_choose _ _ _); simpl; lia.
  - assert (Hp : (2 ^ Z.of_nat (S rem) = 2 * 2 ^ Z.of_nat rem)%Z).
    { rewrite Nat2Z.inj_succ, Z.pow_succ_r by lia. reflexivity. }
    assert (H1 : (0 < 2 ^ Z.of_nat rem)%Z) by (apply Z.pow_pos_nonneg; lia).
    destruct (arclen_choose _ _ _); try lia.
    pose proof (IH (fst (cubic_subdivide c)) (acc / 2)).
    pose proof (IH (snd (cubic_subdivide c)) (acc / 2)). lia.
Qed.

(** CubicBez::arclen: at most 2^20 leaves, at most 2^21 - 1 calls of arclen_rec, depth at most 20
    (the recursion is structural in rem = 20 - depth) *)
Lemma pow2_20 : (2 ^ Z.of_nat 20 = 1048576)%Z.
Proof. reflexivity. Qed.

Lemma cubic_arclen_size (c : CubicBez R) (acc : R) :
  (1 <= arclen_leaves 20 c acc <= 1048576)%Z /\
  (1 <= arclen_rec_calls 20 c acc <= 2097151)%Z.
Proof.
  pose proof (arclen_leaves_bound 20 c acc) as H. rewrite pow2_20 in H.
  split; [exact H|]. rewrite arclen_rec_calls_leaves. lia.
Qed.

(** ** ITP (common.rs solve_itp): bracket invariant, termination, range *)

Lemma Rcopysign_abs (x s : R) : Rabs (Rcopysign x s) = Rabs x.
Proof. unfold Rcopysign. destruct (Rle_dec 0 s); [apply Rabs_Rabsolu | rewrite Rabs_Ropp; apply Rabs_Rabsolu]. Qed.

(** one step: the new point lies strictly inside the bracket and within [se] of both ends,
    where [b - a <= 2 se] (the invariant r >= 0 of the ITP paper) *)
Lemma itp_point_spec (a b k1 ya yb se : R) :
  a < b -> ya < 0 -> 0 < yb -> 0 <= k1 -> b - a <= 2 * se ->
  let x := itp_point a b k1 ya yb se in
  a < x < b /\ x - a <= se /\ b - x <= se.
Proof.
  intros Hab Hya Hyb Hk1 Hse. unfold itp_point. rs_unfold. rewrite Q2R_half.
  set (x12 := / 2 * (a + b)). set (r := se - / 2 * (b - a)).
  set (xf := (yb * a - ya * b) / (yb - ya)).
  assert (HD : 0 < yb - ya) by lra.
  assert (Hxfa : a < xf).
  { unfold xf. apply Rmult_lt_reg_r with (yb - ya); [assumption|].
    unfold Rdiv. rewrite Rmult_assoc, Rinv_l by lra. nra. }
  assert (Hxfb : xf < b).
  { unfold xf. apply Rmult_lt_reg_r with (yb - ya); [assumption|].
    unfold Rdiv. rewrite Rmult_assoc, Rinv_l by lra. nra. }
  assert (Hr : 0 <= r) by (unfold r; lra).
  assert (Hdelta : 0 <= k1 * powerRZ (b - a) 2).
  { apply Rmult_le_pos; [assumption|]. simpl. nra. }
  set (delta := k1 * powerRZ (b - a) 2) in *.
  set (xt := if Rleb delta (Rabs (x12 - xf)) then xf + Rcopysign delta (x12 - xf) else x12).
  (* xt lies between xf and x12, on the xf side of x12 *)
  assert (Hxt : (xf <= x12 -> xf <= xt <= x12) /\ (x12 <= xf -> x12 <= xt <= xf)).
  { unfold xt. destruct (Rleb_spec delta (Rabs (x12 - xf))) as [Hd|Hd].
    - unfold Rcopysign. rewrite (Rabs_pos_eq delta) by assumption.
      destruct (Rle_dec 0 (x12 - xf)) as [Hs|Hs].
      + rewrite Rabs_pos_eq in Hd by assumption. split; intros; lra.
      + rewrite Rabs_left in Hd by lra. split; intros; lra.
    - split; intros; lra. }
  assert (Hx12 : a < x12 < b) by (unfold x12; lra).
  destruct (Rleb_spec (Rabs (xt - x12)) r) as [Hp|Hp].
  - (* the truncated point is kept *)
    assert (a < xt < b) by (destruct (Rle_dec xf x12); [destruct Hxt as [Hxt _] | destruct Hxt as [_ Hxt]]; lra).
    apply Rabs_le_between in Hp. unfold r, x12 in *. cbv zeta. lra.
  - (* projection onto [x12 - r, x12 + r] *)
    unfold Rcopysign. rewrite (Rabs_pos_eq r) by assumption.
    destruct (Rle_dec 0 (x12 - xf)) as [Hs|Hs].
    + destruct Hxt as [Hxt _]. specialize (Hxt ltac:(lra)).
      rewrite Rabs_left1 in Hp by lra. unfold r, x12 in *. cbv zeta. lra.
    + destruct Hxt as [_ Hxt]. specialize (Hxt ltac:(lra)).
      rewrite Rabs_pos_eq in Hp by lra. unfold r, x12 in *. cbv zeta. lra.
Qed.

Section ITP_stateful.
Variable St : Type.
Variable f : St -> R -> St * R.

(** For ANY (stateful) function: with [ya < 0 < yb] and the invariant [b - a <= 2 se] the loop ends
    within [fuel] iterations as soon as [se <= eps * 2^fuel] (each iteration halves [se] and the loop
    stops once [b - a <= 2 eps]); the result lies in the initial bracket.  [Q] is any property of the
    observed signs that the caller wants to track: the final answer is an exact zero of the observed value
    or the midpoint of a bracket [a', b'] of width <= 2 eps whose ends satisfy it. *)
Lemma itp_loop_st_spec (eps k1 : R) :
  0 < eps -> 0 <= k1 ->
  forall (fuel : nat) (st : St) (iters : Z) (a b ya yb se : R),
    a <= b -> ya < 0 -> 0 < yb -> b - a <= 2 * se -> se <= eps * 2 ^ fuel ->
    exists x st' n,
      itp_loop_st f fuel eps k1 st iters a b ya yb se = Some (x, st', n) /\
      a <= x <= b /\ (iters <= n <= iters + Z.of_nat fuel)%Z.
Proof.
  intros Heps Hk1. induction fuel as [|fuel IH]; intros st iters a b ya yb se Hab Hya Hyb Hw Hse;
    cbn [itp_loop_st]; rs_unfold; rewrite ?Q2R_half.
  - destruct (Rltb_spec (2 * eps) (b - a)) as [Hlt|Hge].
    + simpl in Hse. lra.
    + exists (/ 2 * (a + b)), st, iters. split; [reflexivity|]. split; [lra | lia].
  - destruct (Rltb_spec (2 * eps) (b - a)) as [Hlt|Hge].
    + assert (Hab' : a < b) by lra.
      destruct (Rleb_spec (/ 2 * (a + b)) a) as [Hc1|_]; [lra|].
      destruct (Rleb_spec b (/ 2 * (a + b))) as [Hc2|_]; [lra|]. cbn [orb].
      destruct (itp_point_spec a b k1 ya yb se Hab' Hya Hyb Hk1 Hw) as [[Hxa Hxb] [Hwa Hwb]].
      set (x := itp_point a b k1 ya yb se) in *.
      destruct (f st x) as [st' y].
      assert (Hse' : se * / 2 <= eps * 2 ^ fuel) by (simpl in Hse; lra).
      destruct (Rltb_spec 0 y) as [Hpos|Hnpos].
      * destruct (IH st' (iters + 1)%Z a x ya y (se * / 2)) as [r [st'' [n [He [Hr Hn]]]]]; try lra.
        exists r, st'', n. split; [exact He|]. split; [lra | lia].
      * destruct (Rltb_spec y 0) as [Hneg|Hnneg].
        -- destruct (IH st' (iters + 1)%Z x b y yb (se * / 2)) as [r [st'' [n [He [Hr Hn]]]]]; try lra.
           exists r, st'', n. split; [exact He|]. split; [lra | lia].
        -- exists x, st', (iters + 1)%Z. split; [reflexivity|]. split; [lra | lia].
    + exists (/ 2 * (a + b)), st, iters. split; [reflexivity|]. split; [lra | lia].
Qed.
End ITP_stateful.

(** the iteration budget of solve_itp: nmax = n0 + n1_2 makes the initial bracket satisfy the invariant *)
Lemma ln2_pos : 0 < ln 2.
Proof. rewrite <- ln_1. apply ln_increasing; lra. Qed.

Lemma itp_n1_2_bound (a b eps : R) :
  0 < eps -> a < b ->
  (0 <= itp_n1_2 a b eps)%Z /\ b - a <= 2 * eps * powerRZ 2 (itp_n1_2 a b eps).
Proof.
  intros Heps Hab. unfold itp_n1_2, sv_log2. rs_unfold.
  set (y := (b - a) / eps). set (L := ln y / ln 2). set (k := Raux.Zceil L).
  assert (Hy : 0 < y) by (unfold y; apply Rdiv_lt_0_compat; lra).
  assert (Hmax : Rmax (IZR k - 1) 0 = IZR (Z.max (k - 1) 0)).
  { destruct (Z.max_spec (k - 1) 0) as [[Hlt ->]|[Hle ->]].
    - rewrite Rmax_right; [reflexivity|]. rewrite <- minus_IZR. apply IZR_le. lia.
    - rewrite Rmax_left; [rewrite minus_IZR; reflexivity|]. rewrite <- minus_IZR. apply IZR_le. lia. }
  rewrite Hmax, Raux.Ztrunc_IZR.
  set (n := Z.max 0 (Z.max (k - 1) 0)).
  assert (Hn0 : (0 <= n)%Z) by (unfold n; lia).
  assert (Hnk : (k - 1 <= n)%Z) by (unfold n; lia).
  split; [exact Hn0|].
  rewrite powerRZ_Rpower by lra. unfold Rpower.
  pose proof ln2_pos as Hl2.
  assert (HkL : L <= IZR k) by (apply Raux.Zceil_ub).
  assert (Hn : ln y - ln 2 <= IZR n * ln 2).
  { apply IZR_le in Hnk. rewrite minus_IZR in Hnk.
    assert (L * ln 2 = ln y) by (unfold L; field; lra). nra. }
  assert (Hexp : y / 2 <= exp (IZR n * ln 2)).
  { replace (y / 2) with (exp (ln y - ln 2)).
    - destruct Hn as [Hn|Hn]; [left; apply exp_increasing; exact Hn | right; rewrite Hn; reflexivity].
    - unfold Rminus. rewrite exp_plus, exp_Ropp, !exp_ln by lra. reflexivity. }
  assert (Hye : y * eps = b - a) by (unfold y; field; lra).
  nra.
Qed.

Lemma powerRZ_2_mono (m n : Z) : (0 <= m <= n)%Z -> powerRZ 2 m <= powerRZ 2 n.
Proof.
  intros [H0 Hmn]. replace n with (m + (n - m))%Z by lia. rewrite powerRZ_add by lra.
  assert (1 <= powerRZ 2 (n - m)).
  { destruct (n - m)%Z eqn:E; try lia; simpl; [lra|]. apply pow_R1_Rle. lra. }
  pose proof (powerRZ_le 2 m ltac:(lra)). nra.
Qed.

Lemma powerRZ_2_pow (n : Z) (fuel : nat) : (0 <= n <= Z.of_nat fuel)%Z -> powerRZ 2 n <= 2 ^ fuel.
Proof.
  intros H. rewrite (pow_powerRZ 2 fuel). apply powerRZ_2_mono. exact H.
Qed.

Section ITP_stateful_solve.
Variable St : Type.
Variable f : St -> R -> St * R.

(** more fuel does not change a result *)
Lemma itp_loop_st_fuel_mono (eps k1 : R) :
  forall (m : nat) (st : St) (it : Z) (a b ya yb se : R) r,
    itp_loop_st f m eps k1 st it a b ya yb se = Some r ->
    forall extra, itp_loop_st f (m + extra) eps k1 st it a b ya yb se = Some r.
Proof.
  induction m as [|m IH]; intros st it a b ya yb se r He extra.
  - destruct extra; [exact He|]. cbn [Nat.add itp_loop_st] in *. revert He.
    destruct (@fltb R RS _ _); intros He; [discriminate | exact He].
  - cbn [Nat.add itp_loop_st] in *. revert He. destruct (@fltb R RS _ _); intros He; [|exact He].
    revert He. destruct (orb _ _); intros He; [exact He|].
    revert He. destruct (f st (itp_point a b k1 ya yb se)) as [st1 y].
    destruct (@fltb R RS f0 y); intros He; [apply IH; exact He|]. revert He.
    destruct (@fltb R RS y f0); intros He; [apply IH; exact He | exact He].
Qed.

(** solve_itp (as repaired by commit 75101ed: nmax saturating, 2^min(nmax,1023) built exactly): for
    nmax = n0 + n1_2 <= 1023 the loop ends within nmax entries and the result lies in [a, b] — for every
    function [f], continuous or not.  (Before the repair [1u64 << nmax] overflowed for nmax >= 64.) *)
Lemma solve_itp_st_spec (fuel : nat) (st : St) (a b eps : R) (n0 : Z) (k1 ya yb : R) :
  0 < eps -> a < b -> ya < 0 -> 0 < yb -> 0 <= k1 -> (0 <= n0)%Z ->
  let nmax := (n0 + itp_n1_2 a b eps)%Z in
  (nmax <= 1023)%Z -> (nmax <= Z.of_nat fuel)%Z ->
  exists x st' n,
    solve_itp_st f fuel st a b eps n0 k1 ya yb = Some (x, st', n) /\ a <= x <= b /\ (0 <= n <= nmax)%Z.
Proof.
  intros Heps Hab Hya Hyb Hk1 Hn0 nmax Hsmall Hfuel. unfold solve_itp_st. fold nmax.
  destruct (itp_n1_2_bound a b eps Heps Hab) as [Hn12 Hw].
  assert (Hnm : (0 <= nmax)%Z) by (unfold nmax; lia).
  replace (Z.min (Z.min nmax (2 ^ 64 - 1)) 1023) with nmax by lia.
  change (@fmul R RS eps (@fpowi R RS f2 nmax)) with (eps * powerRZ 2 nmax).
  assert (Hw' : b - a <= 2 * (eps * powerRZ 2 nmax)).
  { assert (Hp : powerRZ 2 (itp_n1_2 a b eps) <= powerRZ 2 nmax) by (apply powerRZ_2_mono; unfold nmax; lia).
    apply (Rmult_le_compat_l eps) in Hp; lra. }
  assert (Hse : eps * powerRZ 2 nmax <= eps * 2 ^ Z.to_nat nmax).
  { rewrite (pow_powerRZ 2 (Z.to_nat nmax)), Z2Nat.id by lia. lra. }
  destruct (itp_loop_st_spec St f eps k1 Heps Hk1 (Z.to_nat nmax) st 0%Z a b ya yb (eps * powerRZ 2 nmax)
              ltac:(lra) Hya Hyb Hw' Hse) as [x [st' [n [He [Hx Hn]]]]].
  pose proof (itp_loop_st_fuel_mono eps k1 _ _ _ _ _ _ _ _ _ He) as Hmono.
  exists x, st', n.
  replace fuel with (Z.to_nat nmax + (fuel - Z.to_nat nmax))%nat by lia.
  rewrite Hmono. split; [reflexivity|]. split; [exact Hx | lia].
Qed.
End ITP_stateful_solve.

(** ** inv_arclen (provided method): the result lies in [0,1]; 0 and 1 at the ends *)
Lemma inv_arclen_range (fuel : nat) (s : PathSeg R) (arclen acc : R) :
  0 < acc -> (1024 <= fuel)%nat ->
  (0 < arclen < seg_arclen s acc -> (1 + itp_n1_2 0%R 1%R (acc / seg_arclen s acc)%R <= 1023)%Z) ->
  exists t w br,
    inv_arclen_default fuel s arclen acc = Some (t, w, br) /\
    0 <= t <= 1 /\ (arclen <= 0 -> t = 0) /\ (0 < arclen -> seg_arclen s acc <= arclen -> t = 1).
Proof.
  intros Hacc Hfuel. unfold inv_arclen_default, seg_arclen.
  destruct (seg_arclen_vc s acc) as [total n0]. cbn [fst]. intros Hsmall.
  change (@fleb R RS arclen f0) with (Rleb arclen 0).
  destruct (Rleb_spec arclen 0) as [Hle|Hgt].
  - exists f0, 0%Z, InvZero. split; [reflexivity|]. change (@f0 R RS) with 0.
    split; [lra|]. split; [reflexivity | intros; lra].
  - change (@fleb R RS total arclen) with (Rleb total arclen).
    destruct (Rleb_spec total arclen) as [Hge|Hlt].
    + exists f1, n0, InvOne. split; [reflexivity|]. change (@f1 R RS) with 1.
      split; [lra|]. split; [intros; lra | reflexivity].
    + assert (Htot : 0 < total) by lra.
      assert (Heps : 0 < acc / total) by (apply Rdiv_lt_0_compat; assumption).
      specialize (Hsmall ltac:(lra)).
      match goal with
      | |- context [solve_itp_st ?F ?fu ?s0 ?a ?b ?e ?n ?k ?ya ?yb] =>
          destruct (solve_itp_st_spec _ F fu s0 a b e n k ya yb Heps
                      ltac:(rs_unfold; lra) ltac:(rs_unfold; lra) ltac:(rs_unfold; lra)
                      ltac:(unfold al_0_2; rs_unfold; cbv [Q2R Qnum Qden]; lra) ltac:(lia)
                      Hsmall ltac:(change (@f0 R RS) with 0; change (@f1 R RS) with 1;
                                   change (@fdiv R RS acc total) with (acc / total); lia))
            as [x [[[tl al] w] [iters [He [Hx _]]]]]
      end.
      rewrite He. exists x, (w + iters)%Z, InvItp. split; [reflexivity|].
      change (@f0 R RS) with 0 in Hx. change (@f1 R RS) with 1 in Hx.
      split; [exact Hx|]. split; intros; lra.
Qed.

Lemma seg_inv_arclen_range (fuel : nat) (s : PathSeg R) (arclen acc : R) :
  0 < acc -> (1024 <= fuel)%nat -> 0 < seg_arclen s acc -> 0 <= arclen <= seg_arclen s acc ->
  (1 + itp_n1_2 0%R 1%R (acc / seg_arclen s acc)%R <= 1023)%Z ->
  exists t, seg_inv_arclen fuel s arclen acc = Some t /\ 0 <= t <= 1.
Proof.
  intros Hacc Hfuel Hpos Hr Hsmall. destruct s as [l|q|c]; cbn [seg_inv_arclen].
  - exists (line_inv_arclen l arclen). split; [reflexivity|]. apply line_inv_arclen_range; assumption.
  - destruct (inv_arclen_range fuel (SegQuad q) arclen acc Hacc Hfuel (fun _ => Hsmall)) as [t [w [br [He [Ht _]]]]].
    rewrite He. exists t. split; [reflexivity | exact Ht].
  - destruct (inv_arclen_range fuel (SegCubic c) arclen acc Hacc Hfuel (fun _ => Hsmall)) as [t [w [br [He [Ht _]]]]].
    rewrite He. exists t. split; [reflexivity | exact Ht].
Qed.

(** ** solve_itp with a pure function (Solvers.v): bracketing and, for monotone functions, accuracy *)

(** the stateful loop with a trivial state is the pure loop of Solvers.v *)
Lemma itp_loop_st_pure (g : R -> R) (eps k1 : R) :
  forall (fuel : nat) (it : Z) (a b ya yb se : R),
    option_map (fun r => fst (fst r)) (itp_loop_st (fun (u : unit) x => (u, g x)) fuel eps k1 tt it a b ya yb se)
    = itp_loop fuel g eps k1 a b ya yb se.
Proof.
  induction fuel as [|fuel IH]; intros it a b ya yb se; cbn [itp_loop_st itp_loop].
  - destruct (@fltb R RS _ _); reflexivity.
  - destruct (@fltb R RS _ _); [|reflexivity].
    destruct (orb _ _); [reflexivity|].
    destruct (@fltb R RS f0 _); [apply IH|]. destruct (@fltb R RS _ f0); [apply IH | reflexivity].
Qed.

Lemma solve_itp_st_pure (g : R -> R) (fuel : nat) (a b eps : R) (n0 : Z) (k1 ya yb : R) :
  option_map (fun r => fst (fst r)) (solve_itp_st (fun (u : unit) x => (u, g x)) fuel tt a b eps n0 k1 ya yb)
  = solve_itp fuel g a b eps n0 k1 ya yb.
Proof. unfold solve_itp_st, solve_itp. apply itp_loop_st_pure. Qed.

(** result of the loop: an exact zero, or the midpoint of a final bracket with a sign change *)
Definition itp_result (g : R -> R) (eps a b x : R) : Prop :=
  g x = 0 \/
  exists a' b', a <= a' /\ a' <= b' /\ b' <= b /\ g a' < 0 /\ 0 < g b' /\ b' - a' <= 2 * eps /\ x = (a' + b') / 2.

Lemma itp_loop_spec (g : R -> R) (eps k1 : R) :
  0 < eps -> 0 <= k1 ->
  forall (fuel : nat) (a b se : R),
    a <= b -> g a < 0 -> 0 < g b -> b - a <= 2 * se -> se <= eps * 2 ^ fuel ->
    exists x, itp_loop fuel g eps k1 a b (g a) (g b) se = Some x /\ a <= x <= b /\ itp_result g eps a b x.
Proof.
  intros Heps Hk1. induction fuel as [|fuel IH]; intros a b se Hab Hya Hyb Hw Hse;
    cbn [itp_loop]; rs_unfold; rewrite ?Q2R_half.
  - destruct (Rltb_spec (2 * eps) (b - a)) as [Hlt|Hge]; [simpl in Hse; lra|].
    exists (/ 2 * (a + b)). split; [reflexivity|]. split; [lra|].
    right. exists a, b. repeat split; try lra.
  - destruct (Rltb_spec (2 * eps) (b - a)) as [Hlt|Hge].
    + assert (Hab' : a < b) by lra.
      destruct (Rleb_spec (/ 2 * (a + b)) a) as [Hc1|_]; [lra|].
      destruct (Rleb_spec b (/ 2 * (a + b))) as [Hc2|_]; [lra|]. cbn [orb].
      destruct (itp_point_spec a b k1 (g a) (g b) se Hab' Hya Hyb Hk1 Hw) as [[Hxa Hxb] [Hwa Hwb]].
      set (x := itp_point a b k1 (g a) (g b) se) in *.
      assert (Hse' : se * / 2 <= eps * 2 ^ fuel) by (simpl in Hse; lra).
      destruct (Rltb_spec 0 (g x)) as [Hpos|Hnpos].
      * destruct (IH a x (se * / 2)) as [r [He [Hr Hres]]]; try lra.
        exists r. split; [exact He|]. split; [lra|].
        destruct Hres as [Hz|[a' [b' H]]]; [left; exact Hz|].
        right. exists a', b'. repeat split; try tauto; lra.
      * destruct (Rltb_spec (g x) 0) as [Hneg|Hnneg].
        -- destruct (IH x b (se * / 2)) as [r [He [Hr Hres]]]; try lra.
           exists r. split; [exact He|]. split; [lra|].
           destruct Hres as [Hz|[a' [b' H]]]; [left; exact Hz|].
           right. exists a', b'. repeat split; try tauto; lra.
        -- exists x. split; [reflexivity|]. split; [lra|]. left. lra.
    + exists (/ 2 * (a + b)). split; [reflexivity|]. split; [lra|].
      right. exists a, b. repeat split; lra.
Qed.

(** for a non-decreasing function the result is an exact zero or within epsilon of every zero *)
Lemma itp_result_monotone (g : R -> R) (eps a b x z : R) :
  (forall u v, u <= v -> g u <= g v) -> g z = 0 -> itp_result g eps a b x ->
  g x = 0 \/ Rabs (x - z) <= eps.
Proof.
  intros Hmono Hz [H0|[a' [b' [H1 [H2 [H3 [Hna [Hpb [Hw ->]]]]]]]]]; [left; exact H0|]. right.
  assert (a' < z). { destruct (Rlt_le_dec a' z) as [|Hle]; [assumption|]. pose proof (Hmono z a' Hle). lra. }
  assert (z < b'). { destruct (Rlt_le_dec z b') as [|Hle]; [assumption|]. pose proof (Hmono b' z Hle). lra. }
  apply Rabs_le. lra.
Qed.

Lemma solve_itp_spec (g : R -> R) (fuel : nat) (a b eps : R) (n0 : Z) (k1 : R) :
  0 < eps -> a < b -> g a < 0 -> 0 < g b -> 0 <= k1 -> (0 <= n0)%Z ->
  (n0 + itp_n1_2 a b eps <= 1023)%Z -> (n0 + itp_n1_2 a b eps <= Z.of_nat fuel)%Z ->
  exists x, solve_itp fuel g a b eps n0 k1 (g a) (g b) = Some x /\ a <= x <= b /\ itp_result g eps a b x.
Proof.
  intros Heps Hab Hya Hyb Hk1 Hn0 Hsmall Hfuel. unfold solve_itp.
  set (nmax := (n0 + itp_n1_2 a b eps)%Z) in *.
  destruct (itp_n1_2_bound a b eps Heps Hab) as [Hn12 Hw].
  assert (Hnm : (0 <= nmax)%Z) by (unfold nmax; lia).
  replace (Z.min (Z.min nmax (2 ^ 64 - 1)) 1023) with nmax by lia.
  change (@fmul R RS eps (@fpowi R RS f2 nmax)) with (eps * powerRZ 2 nmax).
  assert (Hw' : b - a <= 2 * (eps * powerRZ 2 nmax)).
  { assert (Hp : powerRZ 2 (itp_n1_2 a b eps) <= powerRZ 2 nmax) by (apply powerRZ_2_mono; unfold nmax; lia).
    apply (Rmult_le_compat_l eps) in Hp; lra. }
  assert (Hse : eps * powerRZ 2 nmax <= eps * 2 ^ fuel).
  { assert (powerRZ 2 nmax <= 2 ^ fuel) by (apply powerRZ_2_pow; lia).
    apply Rmult_le_compat_l; lra. }
  apply (itp_loop_spec g eps k1 Heps Hk1 fuel a b _ ltac:(lra) Hya Hyb Hw' Hse).
Qed.

(** ** perimeter *)
Lemma segs_perimeter_sum (segs : list (PathSeg R)) (acc : R) :
  segs_perimeter segs acc = Rsum (map (fun s => seg_arclen s acc) segs).
Proof. unfold segs_perimeter. apply sum_f_R. Qed.

Lemma segs_perimeter_app (s1 s2 : list (PathSeg R)) (acc : R) :
  segs_perimeter (s1 ++ s2) acc = segs_perimeter s1 acc + segs_perimeter s2 acc.
Proof. rewrite !segs_perimeter_sum, map_app. apply Rsum_app. Qed.

Lemma path_perimeter_segments (els : list (PathEl R)) (acc : R) :
  path_perimeter els acc = option_map (fun segs => Rsum (map (fun s => seg_arclen s acc) segs)) (segments els).
Proof. unfold path_perimeter. destruct (segments els); cbn [option_map]; [rewrite segs_perimeter_sum|]; reflexivity. Qed.

(** ** non-vacuity of the budget theorem: a straight, uniformly parametrised cubic *)
Lemma Rsum_zero {A} (g : A -> R) (l : list A) : (forall x, g x = 0) -> Rsum (map g l) = 0.
Proof. intros Hg. induction l; simpl; [reflexivity | rewrite Hg, IHl; lra]. Qed.

Lemma est_zero_of_straight (d : @ArcDm R) :
  a_dm1 d = mkVec2 0 0 -> a_dm2 d = mkVec2 0 0 -> arclen_est d = 0.
Proof.
  intros H1 H2. unfold arclen_est. rewrite sum_f_R. apply Rsum_zero. intros [w x].
  rewrite H1, H2. cbv [v_hypot2 v_dot v_add v_scale vx vy]. rs_unfold. unfold Rdiv. ring.
Qed.

Definition straight_cubic : CubicBez R := mkCubic (mkPoint 0 0) (mkPoint 1 0) (mkPoint 2 0) (mkPoint 3 0).

Lemma straight_cubic_speed (t : R) : speed (SegCubic straight_cubic) t = 3.
Proof.
  unfold straight_cubic. arc_unfold.
  match goal with |- sqrt (?X * ?X + ?Y * ?Y) = 3 =>
    replace X with 3 by ring; replace Y with 0 by ring end.
  replace (3 * 3 + 0 * 0) with (3 * 3) by ring. apply sqrt_square. lra.
Qed.

Lemma straight_cubic_true_len : cubic_true_len straight_cubic = 3.
Proof.
  unfold cubic_true_len, true_len, true_len_range.
  rewrite (RInt_ext _ (fun _ => 3)) by (intros; apply straight_cubic_speed).
  rewrite RInt_const. unfold scal; simpl; unfold mult; simpl. ring.
Qed.

Lemma sym_rule_const (tab : list (R * R)) (k : R) : sym_rule tab (fun _ => k) = k * Rsum (map fst tab).
Proof. unfold sym_rule. induction tab as [|[w x] tab IH]; simpl; [ring | rewrite IH; field]. Qed.

Lemma straight_cubic_setup :
  a_dm1 (arclen_setup straight_cubic) = mkVec2 0 0 /\ a_dm2 (arclen_setup straight_cubic) = mkVec2 0 0.
Proof. unfold straight_cubic. arc_unfold. split; f_equal; field. Qed.

Lemma leaves_conservative_eq (L : CubicBez R -> R) (rho : R) (rem : nat) (c : CubicBez R) (acc : R) :
  leaves_conservative L rho rem c acc =
  let d := arclen_setup c in
  match arclen_choose d acc (match rem with O => true | S _ => false end) with
  | RSplit =>
      match rem with
      | O => False
      | S rem' =>
          leaves_conservative L rho rem' (fst (cubic_subdivide c)) (acc / 2) /\
          leaves_conservative L rho rem' (snd (cubic_subdivide c)) (acc / 2)
      end
  | r => rule_est d r < acc /\ Rabs (arclen_leaf d r - L c) <= rule_est d r + rho * L c
  end.
Proof. destruct rem; reflexivity. Qed.

Lemma straight_cubic_conservative (acc : R) :
  0 < acc -> leaves_conservative cubic_true_len (/ 10 ^ 15) 20 straight_cubic acc.
Proof.
  intros Hacc. rewrite leaves_conservative_eq. cbv zeta.
  destruct straight_cubic_setup as [H1 H2].
  pose proof (est_zero_of_straight _ H1 H2) as Hest.
  assert (He8 : est8_error (arclen_setup straight_cubic) 0 = 0).
  { unfold est8_error. rs_unfold. simpl powerRZ. rewrite Rmin_left; [ring|].
    unfold al_2_5em6, al_3em2. rs_unfold. cbv [Q2R Qnum Qden]. lra. }
  assert (Hch : arclen_choose (arclen_setup straight_cubic) acc false = R8).
  { unfold arclen_choose. rewrite Hest, He8. change (@fltb R RS 0 acc) with (Rltb 0 acc).
    destruct (Rltb_spec 0 acc); [reflexivity | lra]. }
  rewrite Hch. unfold rule_est. rewrite Hest, He8. split; [assumption|].
  unfold arclen_leaf. cbn [rule_table]. rewrite (gauss_core_is_rule gl8_half straight_cubic).
  replace (sym_rule gl8_half (speed (SegCubic straight_cubic))) with (sym_rule gl8_half (fun _ => 3)).
  2:{ unfold sym_rule. apply Rsum_map_ext. intros; rewrite !straight_cubic_speed; reflexivity. }
  rewrite sym_rule_const, straight_cubic_true_len.
  destruct gauss_weights_sum as [Hw _].
  apply Rabs_le_between in Hw. apply Rabs_le. lra.
Qed.

(** ** statements of Properties/C03.v that combine the lemmas above *)
Lemma P_C03_line_arclen_exact : forall l : Line R,
  line_arclen l = sqrt ((px (l1 l) - px (l0 l)) * (px (l1 l) - px (l0 l))
                        + (py (l1 l) - py (l0 l)) * (py (l1 l) - py (l0 l)))
  /\ line_arclen l = true_len (SegLine l).
Proof. intros l. split; [apply line_arclen_distance | apply line_arclen_true]. Qed.

Lemma P_C03_line_inv_arclen : forall (l : Line R) (s : R),
  0 < line_arclen l ->
  line_inv_arclen l s = s / line_arclen l /\
  (0 <= s <= line_arclen l -> 0 <= line_inv_arclen l s <= 1) /\
  line_inv_arclen l 0 = 0 /\ line_inv_arclen l (line_arclen l) = 1 /\
  (0 <= s -> line_arclen (line_subsegment l 0 (line_inv_arclen l s)) = s).
Proof.
  intros l s Hl. split; [apply line_inv_arclen_linear|]. split; [apply line_inv_arclen_range; assumption|].
  destruct (line_inv_arclen_ends l Hl) as [H0 H1]. split; [exact H0|]. split; [exact H1|].
  apply line_inv_arclen_inverts; assumption.
Qed.

Lemma P_C03_line_example :
  let l := mkLine (mkPoint 0 0) (mkPoint 3 4) in
  line_arclen l = 5 /\ line_inv_arclen l (5 / 2) = / 2.
Proof.
  assert (H : line_arclen (mkLine (mkPoint 0 0) (mkPoint 3 4)) = 5).
  { rewrite line_arclen_distance. cbn [l0 l1 px py]. replace ((3 - 0) * (3 - 0) + (4 - 0) * (4 - 0)) with (5 * 5) by ring.
    apply sqrt_square. lra. }
  cbv zeta. split; [exact H|]. rewrite line_inv_arclen_linear, H. field.
Qed.

Lemma P_C03_true_len_split : forall (s : PathSeg R) (t : R),
  0 <= t <= 1 ->
  true_len (seg_subsegment s 0 t) = true_len_range s 0 t /\
  true_len (seg_subsegment s t 1) = true_len_range s t 1 /\
  true_len s = true_len (seg_subsegment s 0 t) + true_len (seg_subsegment s t 1).
Proof.
  intros s t Ht. split; [apply true_len_subsegment; lra|]. split; [apply true_len_subsegment; lra|].
  apply true_len_split; assumption.
Qed.

Lemma P_C03_perimeter_is_sum : forall (segs segs' : list (PathSeg R)) (els : list (PathEl R)) (acc : R),
  segs_perimeter segs acc = Rsum (map (fun s => seg_arclen s acc) segs) /\
  segs_perimeter (segs ++ segs') acc = segs_perimeter segs acc + segs_perimeter segs' acc /\
  path_perimeter els acc = option_map (fun sg => Rsum (map (fun s => seg_arclen s acc) sg)) (segments els).
Proof.
  intros. split; [apply segs_perimeter_sum|]. split; [apply segs_perimeter_app | apply path_perimeter_segments].
Qed.

Lemma P_C03_gauss_half_tables_symmetric : forall g : R -> R,
  gl8 (T:=R) = symmetrize gl8_half /\ full_rule gl8 g = sym_rule gl8_half g.
Proof. intros g. split; [exact gl8_symmetric | rewrite gl8_symmetric; apply full_rule_symmetrize]. Qed.

Lemma P_C03_gauss_tables_exactness :
  (forall j, (j < 8)%nat -> Rabs (moment (gl8_half (T:=R)) (2 * j) - / INR (2 * j + 1)) <= / 10 ^ 15) /\
  (forall j, (j < 16)%nat -> Rabs (moment (gl16_half (T:=R)) (2 * j) - / INR (2 * j + 1)) <= / 10 ^ 15) /\
  (forall j, (j < 24)%nat -> Rabs (moment (gl24_half (T:=R)) (2 * j) - / INR (2 * j + 1)) <= / 10 ^ 15).
Proof. split; [exact gl8_half_moments|]. split; [exact gl16_half_moments | exact gl24_half_moments]. Qed.

Lemma cubic_arclen_is_rec (c : CubicBez R) (acc : R) : cubic_arclen c acc = arclen_rec 20 c acc.
Proof. unfold cubic_arclen, cubic_arclen_vc, arclen_rec. reflexivity. Qed.

Lemma P_C03_cubic_arclen_budget_partial : forall (rho : R) (c : CubicBez R) (acc : R),
  leaves_conservative cubic_true_len rho 20 c acc ->
  Rabs (cubic_arclen c acc - cubic_true_len c) <= acc + rho * cubic_true_len c.
Proof.
  intros rho c acc H. rewrite cubic_arclen_is_rec.
  apply (arclen_rec_budget cubic_true_len rho cubic_true_len_additive). exact H.
Qed.

Lemma P_C03_budget_example : forall acc : R, 0 < acc ->
  leaves_conservative cubic_true_len (/ 10 ^ 15) 20 straight_cubic acc /\
  cubic_true_len straight_cubic = 3.
Proof. intros acc H. split; [apply straight_cubic_conservative; exact H | exact straight_cubic_true_len]. Qed.

Lemma P_C03_arclen_rec_leaves : forall (rem : nat) (c : CubicBez R) (acc : R),
  (1 <= arclen_leaves rem c acc <= 2 ^ Z.of_nat rem)%Z /\
  arclen_rec_calls rem c acc = (2 * arclen_leaves rem c acc - 1)%Z.
Proof. intros. split; [apply arclen_leaves_bound | apply arclen_rec_calls_leaves]. Qed.

Lemma P_C03_itp_monotone : forall (g : R -> R) (fuel : nat) (a b eps : R) (n0 : Z) (k1 z : R),
  0 < eps -> a < b -> g a < 0 -> 0 < g b -> 0 <= k1 -> (0 <= n0)%Z ->
  (n0 + itp_n1_2 a b eps <= 1023)%Z -> (n0 + itp_n1_2 a b eps <= Z.of_nat fuel)%Z ->
  exists x, solve_itp fuel g a b eps n0 k1 (g a) (g b) = Some x /\ a <= x <= b /\
            itp_result g eps a b x /\
            ((forall u v, u <= v -> g u <= g v) -> g z = 0 -> g x = 0 \/ Rabs (x - z) <= eps).
Proof.
  intros g fuel a b eps n0 k1 z H1 H2 H3 H4 H5 H6 H7 H8.
  destruct (solve_itp_spec g fuel a b eps n0 k1 H1 H2 H3 H4 H5 H6 H7 H8) as [x [He [Hx Hr]]].
  exists x. split; [exact He|]. split; [exact Hx|]. split; [exact Hr|].
  intros Hm Hz. exact (itp_result_monotone g eps a b x z Hm Hz Hr).
Qed.

Lemma P_C03_itp_example :
  let g := fun x : R => x - / 3 in
  exists x, itp_loop 10 g (/ 100) (/ 5) 0 1 (g 0) (g 1) 1 = Some x /\ 0 <= x <= 1 /\
            Rabs (x - / 3) <= / 100.
Proof.
  cbv zeta. set (g := fun x : R => x - / 3).
  assert (Hp : 1 <= / 100 * 2 ^ 10) by (simpl; lra).
  destruct (itp_loop_spec g (/ 100) (/ 5) ltac:(lra) ltac:(lra) 10 0 1 1
              ltac:(lra) ltac:(unfold g; lra) ltac:(unfold g; lra) ltac:(lra) Hp) as [x [He [Hx Hr]]].
  exists x. split; [exact He|]. split; [exact Hx|].
  destruct (itp_result_monotone g (/ 100) 0 1 x (/ 3)) as [H0|H]; try assumption.
  - intros u v Huv; unfold g; lra.
  - unfold g; lra.
  - unfold g in H0. replace (x - / 3) with 0 by lra. rewrite Rabs_R0. lra.
Qed.

(** ** the quantity [est] the decision is based on: the 8-point rule applied to |B''|^2 / (4 |B'|^2),
    i.e. est ~ (1/2) * integral over [0,1] of |B''|^2 / |B'|^2 (with x / 0 = 0 at a zero of B') *)
Definition nsq (p : Point R) : R := px p * px p + py p * py p.
Definition cubic_deriv2_at (c : CubicBez R) (t : R) : Point R := line_eval (quad_deriv (cubic_deriv c)) t.

Lemma est_term (c : CubicBez R) (x : R) :
  let d := arclen_setup c in
  let t := (1 + x) / 2 in
  v_hypot2 (v_add (a_dm1 d) (v_scale (a_dm2 d) (2 * x)))
  / v_hypot2 (v_add (v_add (a_dm d) (v_scale (a_dm1 d) x)) (v_scale (a_dm2 d) (x * x)))
  = nsq (cubic_deriv2_at c t) / (4 * nsq (quad_eval (cubic_deriv c) t)).
Proof.
  intros d t. subst d t.
  assert (Hn : v_hypot2 (v_add (a_dm1 (arclen_setup c)) (v_scale (a_dm2 (arclen_setup c)) (2 * x)))
               = nsq (cubic_deriv2_at c ((1 + x) / 2)) / 36).
  { destruct c as [[x0 y0] [x1 y1] [x2 y2] [x3 y3]]. unfold nsq, cubic_deriv2_at. arc_unfold. field. }
  assert (Hd : v_hypot2 (v_add (v_add (a_dm (arclen_setup c)) (v_scale (a_dm1 (arclen_setup c)) x))
                               (v_scale (a_dm2 (arclen_setup c)) (x * x)))
               = nsq (quad_eval (cubic_deriv c) ((1 + x) / 2)) / 9).
  { destruct c as [[x0 y0] [x1 y1] [x2 y2] [x3 y3]]. unfold nsq. arc_unfold. field. }
  rewrite Hn, Hd.
  set (A := nsq (cubic_deriv2_at c ((1 + x) / 2))). set (D := nsq (quad_eval (cubic_deriv c) ((1 + x) / 2))).
  destruct (Req_dec D 0) as [H0|Hne].
  - rewrite H0. unfold Rdiv. rewrite Rmult_0_l, Rmult_0_r, Rinv_0. ring.
  - field. exact Hne.
Qed.

Lemma arclen_est_is_rule (c : CubicBez R) :
  arclen_est (arclen_setup c)
  = Rsum (map (fun wx => fst wx * (nsq (cubic_deriv2_at c ((1 + snd wx) / 2))
                                   / (4 * nsq (quad_eval (cubic_deriv c) ((1 + snd wx) / 2))))) gl8).
Proof.
  unfold arclen_est. rewrite sum_f_R. apply Rsum_map_ext. intros [w x] _. cbn [fst snd].
  change (@fmul R RS w ?z) with (w * z). f_equal. apply (est_term c x).
Qed.

(** ** the budget theorem with the hypothesis est_conservative stated globally *)

(** "the estimate is conservative": for every cubic and every rule, the true error of the rule against
    [L] is at most the estimate the code computes for it (+ rho * L) *)
Definition est_conservative (L : CubicBez R -> R) (rho : R) : Prop :=
  forall (c : CubicBez R) (r : rule),
    Rabs (arclen_leaf (arclen_setup c) r - L c) <= rule_est (arclen_setup c) r + rho * L c.

(** every leaf of the recursion was admitted by its estimate (the depth cap 20 forced nothing) *)
Fixpoint cap_not_hit (rem : nat) (c : CubicBez R) (acc : R) : Prop :=
  let d := arclen_setup c in
  match arclen_choose d acc (match rem with O => true | S _ => false end) with
  | RSplit =>
      match rem with
      | O => False
      | S rem' => cap_not_hit rem' (fst (cubic_subdivide c)) (acc / 2) /\
                  cap_not_hit rem' (snd (cubic_subdivide c)) (acc / 2)
      end
  | r => rule_est d r < acc
  end.

Lemma cap_not_hit_eq (rem : nat) (c : CubicBez R) (acc : R) :
  cap_not_hit rem c acc =
  let d := arclen_setup c in
  match arclen_choose d acc (match rem with O => true | S _ => false end) with
  | RSplit =>
      match rem with
      | O => False
      | S rem' => cap_not_hit rem' (fst (cubic_subdivide c)) (acc / 2) /\
                  cap_not_hit rem' (snd (cubic_subdivide c)) (acc / 2)
      end
  | r => rule_est d r < acc
  end.
Proof. destruct rem; reflexivity. Qed.

Lemma est_conservative_leaves (L : CubicBez R -> R) (rho : R) :
  est_conservative L rho ->
  forall rem c acc, cap_not_hit rem c acc -> leaves_conservative L rho rem c acc.
Proof.
  intros Hec. induction rem as [|rem IH]; intros c acc Hc;
    rewrite leaves_conservative_eq; rewrite cap_not_hit_eq in Hc; cbv zeta in *.
  - destruct (arclen_choose _ _ _); try (split; [exact Hc | apply Hec]). contradiction.
  - destruct (arclen_choose _ _ _); try (split; [exact Hc | apply Hec]).
    destruct Hc as [Ha Hb]. split; apply IH; assumption.
Qed.

Lemma arclen_rec_budget_est_conservative (L : CubicBez R -> R) (rho : R) :
  additive_on_subdivide L -> est_conservative L rho ->
  forall (rem : nat) (c : CubicBez R) (acc : R),
    cap_not_hit rem c acc -> Rabs (arclen_rec rem c acc - L c) <= acc + rho * L c.
Proof.
  intros Hadd Hec rem c acc Hc. apply arclen_rec_budget; [exact Hadd|].
  apply est_conservative_leaves; assumption.
Qed.

Lemma straight_cubic_choose (acc : R) :
  0 < acc ->
  arclen_choose (arclen_setup straight_cubic) acc false = R8 /\ rule_est (arclen_setup straight_cubic) R8 = 0.
Proof.
  intros Hacc. destruct straight_cubic_setup as [H1 H2].
  pose proof (est_zero_of_straight _ H1 H2) as Hest.
  assert (He8 : est8_error (arclen_setup straight_cubic) 0 = 0).
  { unfold est8_error. rs_unfold. simpl powerRZ. rewrite Rmin_left; [ring|].
    unfold al_2_5em6, al_3em2. rs_unfold. cbv [Q2R Qnum Qden]. lra. }
  split.
  - unfold arclen_choose. rewrite Hest, He8. change (@fltb R RS 0 acc) with (Rltb 0 acc).
    destruct (Rltb_spec 0 acc); [reflexivity | lra].
  - unfold rule_est. rewrite Hest. exact He8.
Qed.

(** non-vacuity of [cap_not_hit] *)
Lemma cap_not_hit_straight (acc : R) : 0 < acc -> cap_not_hit 20 straight_cubic acc.
Proof.
  intros Hacc. destruct (straight_cubic_choose acc Hacc) as [Hch He].
  rewrite cap_not_hit_eq. cbv zeta. rewrite Hch, He. exact Hacc.
Qed.

(** non-vacuity of the iteration-budget hypothesis: epsilon = 1/2 on [0,1] gives n1_2 = 0 *)
Lemma itp_budget_half : (1 + itp_n1_2 0%R 1%R (/ 2)%R <= 1023)%Z.
Proof.
  unfold itp_n1_2, sv_log2. rs_unfold.
  replace ((1 - 0) / / 2) with 2 by field.
  replace (ln 2 / ln 2) with (IZR 1) by (pose proof ln2_pos; field; lra).
  rewrite Raux.Zceil_IZR. replace (IZR 1 - 1) with 0 by lra.
  rewrite Rmax_left by lra. change 0 with (IZR 0). rewrite Raux.Ztrunc_IZR. simpl. lia.
Qed.
