(** C01: for closed polygons the half-open crossing number of the leftward ray (= the model's winding number,
    [C01_polygon_winding_crossing_number]) is the topological winding number: (1/2pi) times the sum over the edges
    of the signed angle in (-pi, pi) the edge subtends at p. Per edge, with phi(v) the argument of v - p measured
    with its branch cut on the leftward ray from p (the ray itself on the lower sheet, as the half-open rule has it),
      dtheta(edge) = phi(end) - phi(start) + 2 pi * (signed crossing of the cut by the edge),
    and the phi terms telescope around a closed polygon. *)
From Coq Require Import ZArith Reals List Bool Lra Lia Psatz.
From Coquelicot Require Import Rcomplements.
From KV Require Import Scalar RInst Geom Curves Path Solvers Winding RTac WindingSpec C01_proofs.
Import ListNotations.
Local Open Scope R_scope.

(** * atan2: cosine, sine and range *)

Definition rad (x y : R) : R := sqrt (x * x + y * y).

Lemma rad_pos (x y : R) : (x <> 0 \/ y <> 0) -> 0 < rad x y.
Proof. intro H. apply sqrt_lt_R0. destruct H; nra. Qed.

Lemma rad_sqr (x y : R) : rad x y * rad x y = x * x + y * y.
Proof. apply sqrt_sqrt. nra. Qed.

Lemma cos_sin_atan_div (y z : R) : z <> 0 ->
  cos (atan (y / z)) = Rabs z / rad z y /\ sin (atan (y / z)) = (y / z) * (Rabs z / rad z y).
Proof.
  intro Hz. rewrite cos_atan, sin_atan. unfold Rsqr, rad.
  replace (1 + y / z * (y / z)) with ((z * z + y * y) / (z * z)) by (field; exact Hz).
  assert (E : sqrt ((z * z + y * y) / (z * z)) = sqrt (z * z + y * y) / Rabs z).
  { rewrite sqrt_div_alt by nra. f_equal. replace (z * z) with (Rsqr z) by reflexivity. apply sqrt_Rsqr_abs. }
  rewrite E.
  assert (0 < sqrt (z * z + y * y)) by (apply sqrt_lt_R0; nra).
  assert (Rabs z <> 0) by (apply Rabs_no_R0; exact Hz).
  split; field; repeat split; try lra; assumption.
Qed.

Lemma atan_sign (q : R) : (0 < q -> 0 < atan q) /\ (q < 0 -> atan q < 0).
Proof.
  split; intro H.
  - pose proof (atan_increasing 0 q H) as Hi. rewrite atan_0 in Hi. exact Hi.
  - pose proof (atan_increasing q 0 H) as Hi. rewrite atan_0 in Hi. exact Hi.
Qed.

Ltac spec_done := repeat split; intros; try (field; lra); try lra.

Lemma Ratan2_spec (y x : R) : (x <> 0 \/ y <> 0) ->
  let th := Ratan2 y x in
  cos th = x / rad x y /\ sin th = y / rad x y /\ - PI < th <= PI /\
  (0 < y -> 0 < th < PI) /\ (y < 0 -> - PI < th < 0) /\ (y = 0 -> 0 < x -> th = 0) /\
  (~ (y = 0 /\ x < 0) -> th < PI).
Proof.
  intros Hnz th. pose proof PI_RGT_0 as Hpi. pose proof (rad_pos x y Hnz) as Hr.
  unfold th, Ratan2.
  destruct (Rlt_dec 0 x) as [Px|NPx].
  - destruct (cos_sin_atan_div y x ltac:(lra)) as [C S]. rewrite C, S, Rabs_pos_eq by lra.
    pose proof (atan_bound (y / x)) as B. destruct (atan_sign (y / x)) as [A1 A2].
    assert (Ix : 0 < / x) by (apply Rinv_0_lt_compat; lra).
    destruct (Rtotal_order y 0) as [Ly|[Ey|Gy]].
    + assert (y / x < 0) by (unfold Rdiv; nra). specialize (A2 H). spec_done.
    + subst y. unfold Rdiv. rewrite !Rmult_0_l, atan_0. spec_done.
    + assert (0 < y / x) by (unfold Rdiv; nra). specialize (A1 H). spec_done.
  - destruct (Rlt_dec x 0) as [Nx|NNx].
    + destruct (cos_sin_atan_div y x ltac:(lra)) as [C S].
      pose proof (atan_bound (y / x)) as B. destruct (atan_sign (y / x)) as [A1 A2].
      assert (Ix : / x < 0) by (apply Rinv_lt_0_compat; lra).
      destruct (Rle_dec 0 y) as [Py|Ny].
      * rewrite neg_cos, neg_sin, C, S, Rabs_left by lra.
        destruct (Req_dec y 0) as [Ey|Hy0].
        -- subst y. unfold Rdiv. rewrite !Rmult_0_l, atan_0. spec_done.
        -- assert (y / x < 0) by (unfold Rdiv; nra). specialize (A2 H). spec_done.
      * assert (0 < y / x) by (unfold Rdiv; nra). specialize (A1 H).
        replace (atan (y / x) - PI) with (- (- atan (y / x) + PI)) by ring.
        rewrite cos_neg, sin_neg, neg_cos, neg_sin, cos_neg, sin_neg, C, S, Rabs_left by lra.
        spec_done.
    + assert (x = 0) by lra. subst x. assert (Hy : y <> 0) by (destruct Hnz; lra).
      assert (Er : rad 0 y = Rabs y).
      { unfold rad. replace (0 * 0 + y * y) with (Rsqr y) by (unfold Rsqr; ring). apply sqrt_Rsqr_abs. }
      destruct (Rlt_dec 0 y) as [Py|Ny].
      * rewrite cos_PI2, sin_PI2, Er, Rabs_pos_eq by lra. spec_done.
      * destruct (Rlt_dec y 0) as [Ly|]; [|lra].
        rewrite cos_neg, sin_neg, cos_PI2, sin_PI2, Er, Rabs_left by lra. spec_done.
Qed.

(** * The argument with its cut on the leftward ray (the ray itself gets -pi) *)
Definition phi (x y : R) : R :=
  if Req_EM_T y 0 then (if Rlt_dec x 0 then - PI else Ratan2 y x) else Ratan2 y x.

Lemma phi_spec (x y : R) : (x <> 0 \/ y <> 0) ->
  cos (phi x y) = x / rad x y /\ sin (phi x y) = y / rad x y /\
  (0 < y -> 0 < phi x y < PI) /\ (y <= 0 -> - PI <= phi x y <= 0).
Proof.
  intro Hnz. pose proof PI_RGT_0 as Hpi. pose proof (rad_pos x y Hnz) as Hr.
  destruct (Ratan2_spec y x Hnz) as (C & S & B & Bp & Bn & B0 & _). cbv zeta in *.
  unfold phi. destruct (Req_EM_T y 0) as [Ey|Ny].
  - subst y. destruct (Rlt_dec x 0) as [Lx|NLx].
    + assert (Er : rad x 0 = - x).
      { unfold rad. replace (x * x + 0 * 0) with (Rsqr x) by (unfold Rsqr; ring). rewrite sqrt_Rsqr_abs. apply Rabs_left. exact Lx. }
      rewrite cos_neg, sin_neg, cos_PI, sin_PI, Er. repeat split; intros; try lra; field; lra.
    + assert (0 < x) by (destruct Hnz; lra). rewrite (B0 eq_refl H) in *. repeat split; intros; try lra; assumption.
  - repeat split; try assumption; intros.
    + apply Bp; assumption.
    + apply Bp; assumption.
    + assert (y < 0) by lra. specialize (Bn H0). lra.
    + assert (y < 0) by lra. specialize (Bn H0). lra.
Qed.

(** * Two angles with the same cosine and sine, less than a full turn apart, are equal *)
Lemma angle_unique (a b : R) : cos a = cos b -> sin a = sin b -> - (2 * PI) < a - b < 2 * PI -> a = b.
Proof.
  intros Hc Hs Hd. pose proof PI_RGT_0 as Hpi.
  assert (C1 : cos (a - b) = 1).
  { rewrite cos_minus, Hc, Hs. pose proof (sin2_cos2 b) as H. unfold Rsqr in H. lra. }
  set (h := (a - b) / 2). assert (Eh : a - b = 2 * h) by (unfold h; field).
  rewrite Eh, cos_2a_sin in C1. assert (S0 : sin h * sin h = 0) by lra.
  apply Rmult_integral in S0. assert (Sh : sin h = 0) by (destruct S0; assumption).
  assert (Hh : - PI < h < PI) by (unfold h; lra).
  assert (h = 0); [|lra].
  destruct (Rle_dec 0 h).
  - destruct (sin_eq_O_2PI_0 h) as [E|[E|E]]; lra.
  - assert (Sn : sin (- h) = 0) by (rewrite sin_neg; lra).
    destruct (sin_eq_O_2PI_0 (- h)) as [E|[E|E]]; lra.
Qed.

Lemma cos_sin_shift (d : R) (k : Z) : (k = (-1)%Z \/ k = 0%Z \/ k = 1%Z) ->
  cos (d + 2 * PI * IZR k) = cos d /\ sin (d + 2 * PI * IZR k) = sin d.
Proof.
  intros [->|[->| ->]].
  - replace (d + 2 * PI * -1) with (d - 2 * PI) by ring. rewrite cos_minus, sin_minus, cos_2PI, sin_2PI. lra.
  - replace (d + 2 * PI * 0) with d by ring. lra.
  - replace (d + 2 * PI * 1) with (d + 2 * PI) by ring. rewrite cos_plus, sin_plus, cos_2PI, sin_2PI. lra.
Qed.

(** * One edge, coordinates relative to p: a = start - p, b = end - p *)
Definition crs (ax ay bx by_ : R) : R := ax * by_ - ay * bx.
Definition dt (ax ay bx by_ : R) : R := ax * bx + ay * by_.

Lemma rad_prod (ax ay bx by_ : R) :
  rad (dt ax ay bx by_) (crs ax ay bx by_) = rad ax ay * rad bx by_.
Proof.
  unfold rad at 1.
  replace (dt ax ay bx by_ * dt ax ay bx by_ + crs ax ay bx by_ * crs ax ay bx by_)
    with ((rad ax ay * rad bx by_) * (rad ax ay * rad bx by_)).
  - apply sqrt_square. apply Rmult_le_pos; apply sqrt_pos.
  - replace (rad ax ay * rad bx by_ * (rad ax ay * rad bx by_))
      with ((rad ax ay * rad ax ay) * (rad bx by_ * rad bx by_)) by ring.
    rewrite !rad_sqr. unfold dt, crs. ring.
Qed.

Lemma phi_diff_cos_sin (ax ay bx by_ : R) : (ax <> 0 \/ ay <> 0) -> (bx <> 0 \/ by_ <> 0) ->
  cos (phi bx by_ - phi ax ay) = dt ax ay bx by_ / (rad ax ay * rad bx by_) /\
  sin (phi bx by_ - phi ax ay) = crs ax ay bx by_ / (rad ax ay * rad bx by_).
Proof.
  intros Ha Hb. destruct (phi_spec ax ay Ha) as (Ca & Sa & _). destruct (phi_spec bx by_ Hb) as (Cb & Sb & _).
  pose proof (rad_pos ax ay Ha). pose proof (rad_pos bx by_ Hb).
  rewrite cos_minus, sin_minus, Ca, Sa, Cb, Sb. unfold dt, crs. split; field; lra.
Qed.

Lemma dtheta_core (ax ay bx by_ X : R) : (ax <> 0 \/ ay <> 0) -> (bx <> 0 \/ by_ <> 0) ->
  ~ (crs ax ay bx by_ = 0 /\ dt ax ay bx by_ < 0) ->
  cos X = cos (phi bx by_ - phi ax ay) -> sin X = sin (phi bx by_ - phi ax ay) -> - PI <= X <= PI ->
  Ratan2 (crs ax ay bx by_) (dt ax ay bx by_) = X.
Proof.
  intros Ha Hb Hn HcX HsX HbX.
  pose proof (rad_pos ax ay Ha) as Ra. pose proof (rad_pos bx by_ Hb) as Rb.
  assert (Rp : 0 < rad ax ay * rad bx by_) by (apply Rmult_lt_0_compat; assumption).
  assert (Hnz : dt ax ay bx by_ <> 0 \/ crs ax ay bx by_ <> 0).
  { destruct (Req_dec (dt ax ay bx by_) 0) as [E|NE]; [|left; exact NE]. right. intro E2.
    pose proof (rad_prod ax ay bx by_) as P. unfold rad at 1 in P. rewrite E, E2 in P.
    replace (0 * 0 + 0 * 0) with 0 in P by ring. rewrite sqrt_0 in P. lra. }
  destruct (Ratan2_spec (crs ax ay bx by_) (dt ax ay bx by_) Hnz) as (C & S & B & _ & _ & _ & Blt). cbv zeta in *.
  rewrite rad_prod in C, S.
  destruct (phi_diff_cos_sin ax ay bx by_ Ha Hb) as [Cd Sd].
  apply angle_unique; [rewrite C, HcX, Cd; reflexivity|rewrite S, HsX, Sd; reflexivity|].
  specialize (Blt Hn). pose proof PI_RGT_0. lra.
Qed.

(* the signed crossing of the leftward ray (the cut) by the edge a -> b, half-open rule *)
Definition ec_raw (ax ay bx by_ : R) : Z :=
  if Rle_dec ay 0 then
    (if Rlt_dec 0 by_ then (if Rlt_dec (crs ax ay bx by_) 0 then (-1)%Z else 0%Z) else 0%Z)
  else
    (if Rle_dec by_ 0 then (if Rlt_dec 0 (crs ax ay bx by_) then 1%Z else 0%Z) else 0%Z).

Lemma ec_raw_cases (ax ay bx by_ : R) :
  ec_raw ax ay bx by_ = (-1)%Z \/ ec_raw ax ay bx by_ = 0%Z \/ ec_raw ax ay bx by_ = 1%Z.
Proof. unfold ec_raw. repeat destruct (Rle_dec _ _); repeat destruct (Rlt_dec _ _); auto. Qed.

Lemma X_bounds (ax ay bx by_ : R) : (ax <> 0 \/ ay <> 0) -> (bx <> 0 \/ by_ <> 0) ->
  - PI <= phi bx by_ - phi ax ay + 2 * PI * IZR (ec_raw ax ay bx by_) <= PI.
Proof.
  intros Ha Hb. pose proof PI_RGT_0 as Hpi.
  destruct (phi_spec ax ay Ha) as (_ & _ & Pa & Na). destruct (phi_spec bx by_ Hb) as (_ & _ & Pb & Nb).
  destruct (phi_diff_cos_sin ax ay bx by_ Ha Hb) as [_ Sd].
  pose proof (rad_pos ax ay Ha) as Ra. pose proof (rad_pos bx by_ Hb) as Rb.
  assert (Rp : 0 < rad ax ay * rad bx by_) by (apply Rmult_lt_0_compat; assumption).
  set (d := phi bx by_ - phi ax ay) in *. set (c := crs ax ay bx by_) in *.
  assert (Sneg : c < 0 -> sin d < 0).
  { intro. rewrite Sd. unfold Rdiv. assert (0 < / (rad ax ay * rad bx by_)) by (apply Rinv_0_lt_compat; exact Rp). nra. }
  assert (Spos : 0 < c -> 0 < sin d).
  { intro. rewrite Sd. unfold Rdiv. assert (0 < / (rad ax ay * rad bx by_)) by (apply Rinv_0_lt_compat; exact Rp). nra. }
  assert (Szero : c = 0 -> sin d = 0) by (intro E; rewrite Sd, E; unfold Rdiv; ring).
  unfold ec_raw. fold c.
  destruct (Rle_dec ay 0) as [Ay|Ay].
  - specialize (Na Ay). destruct (Rlt_dec 0 by_) as [By|By].
    + specialize (Pb By). assert (D : 0 < d < 2 * PI) by (unfold d; lra).
      destruct (Rlt_dec c 0) as [Cn|Cn].
      * (* sin d < 0 on (0, 2pi): d > pi *)
        specialize (Sneg Cn). assert (PI <= d).
        { destruct (Rle_dec PI d); [assumption|exfalso]. assert (0 < sin d) by (apply sin_gt_0; lra). lra. }
        replace (d + 2 * PI * -1) with (d - 2 * PI) by ring. lra.
      * replace (d + 2 * PI * 0) with d by ring. split; [lra|].
        destruct (Rle_dec d PI); [assumption|exfalso]. assert (sin d < 0) by (apply sin_lt_0; lra).
        destruct (Req_dec c 0) as [E|NE]; [specialize (Szero E); lra|]. assert (0 < c) by lra. specialize (Spos H0). lra.
    + assert (By' : by_ <= 0) by lra. specialize (Nb By'). replace (d + 2 * PI * 0) with d by ring. unfold d. lra.
  - assert (Ay' : 0 < ay) by lra. specialize (Pa Ay'). destruct (Rle_dec by_ 0) as [By|By].
    + specialize (Nb By). assert (D : - (2 * PI) < d < 0) by (unfold d; lra).
      destruct (Rlt_dec 0 c) as [Cp|Cp].
      * specialize (Spos Cp). assert (d <= - PI).
        { destruct (Rle_dec d (- PI)); [assumption|exfalso]. assert (sin d < 0) by (apply sin_lt_0_var; lra). lra. }
        replace (d + 2 * PI * 1) with (d + 2 * PI) by ring. lra.
      * replace (d + 2 * PI * 0) with d by ring. split; [|lra].
        destruct (Rle_dec (- PI) d); [assumption|exfalso].
        assert (0 < sin (d + 2 * PI)) by (apply sin_gt_0; lra).
        rewrite sin_plus, cos_2PI, sin_2PI in H.
        destruct (Req_dec c 0) as [E|NE]; [specialize (Szero E); lra|]. assert (c < 0) by lra. specialize (Sneg H0). lra.
    + assert (By' : 0 < by_) by lra. specialize (Pb By'). replace (d + 2 * PI * 0) with d by ring. unfold d. lra.
Qed.

Lemma dtheta_raw (ax ay bx by_ : R) : (ax <> 0 \/ ay <> 0) -> (bx <> 0 \/ by_ <> 0) ->
  ~ (crs ax ay bx by_ = 0 /\ dt ax ay bx by_ < 0) ->
  Ratan2 (crs ax ay bx by_) (dt ax ay bx by_) =
  phi bx by_ - phi ax ay + 2 * PI * IZR (ec_raw ax ay bx by_).
Proof.
  intros Ha Hb Hn. destruct (cos_sin_shift (phi bx by_ - phi ax ay) (ec_raw ax ay bx by_) (ec_raw_cases _ _ _ _)) as [C S].
  apply dtheta_core; try assumption. apply X_bounds; assumption.
Qed.

(** * One edge, in the plane *)
Definition phiP (p v : Point R) : R := phi (px v - px p) (py v - py p).

Section Edge.
Variables s e p : Point R.
Let ax := px s - px p. Let ay := py s - py p. Let bx := px e - px p. Let by_ := py e - py p.
Hypothesis Hoff : ~ on_edge s e p.

Lemma off_a : ax <> 0 \/ ay <> 0.
Proof.
  destruct (Req_dec ax 0) as [E1|]; [|left; assumption]. destruct (Req_dec ay 0) as [E2|]; [|right; assumption].
  exfalso. apply Hoff. exists 0. unfold ax, ay in *. repeat split; lra.
Qed.
Lemma off_b : bx <> 0 \/ by_ <> 0.
Proof.
  destruct (Req_dec bx 0) as [E1|]; [|left; assumption]. destruct (Req_dec by_ 0) as [E2|]; [|right; assumption].
  exfalso. apply Hoff. exists 1. unfold bx, by_ in *. repeat split; lra.
Qed.

(* p is not strictly between s and e on their line *)
Lemma off_antiparallel : ~ (crs ax ay bx by_ = 0 /\ dt ax ay bx by_ < 0).
Proof.
  intros [Hc Hd]. apply Hoff.
  set (N := ax * (ax - bx) + ay * (ay - by_)).
  set (L := (ax - bx) * (ax - bx) + (ay - by_) * (ay - by_)).
  assert (HN : 0 < N).
  { unfold N. unfold dt in Hd. destruct off_a; nra. }
  assert (HLN : 0 < L - N).
  { unfold L, N. unfold dt in Hd. destruct off_b; nra. }
  assert (HL : 0 < L) by lra.
  exists (N / L). split; [split|split].
  - apply Rlt_le, Rdiv_lt_0_compat; assumption.
  - apply Rle_div_l; lra.
  - (* ax * L - N * (ax - bx) = (by - ay) * crs = 0 *)
    assert (E : ax * L - N * (ax - bx) = (by_ - ay) * crs ax ay bx by_) by (unfold L, N, crs; ring).
    rewrite Hc, Rmult_0_r in E.
    assert (ax + N / L * (bx - ax) = 0).
    { replace (ax + N / L * (bx - ax)) with ((ax * L - N * (ax - bx)) / L) by (field; lra). rewrite E. unfold Rdiv. ring. }
    unfold ax, bx in H. lra.
  - assert (E : ay * L - N * (ay - by_) = (ax - bx) * crs ax ay bx by_) by (unfold L, N, crs; ring).
    rewrite Hc, Rmult_0_r in E.
    assert (ay + N / L * (by_ - ay) = 0).
    { replace (ay + N / L * (by_ - ay)) with ((ay * L - N * (ay - by_)) / L) by (field; lra). rewrite E. unfold Rdiv. ring. }
    unfold ay, by_ in H. lra.
Qed.

(* an edge whose half-open row range contains the row of p does not pass through p *)
Lemma off_rows_cross : (ay <= 0 < by_ \/ by_ <= 0 < ay) -> crs ax ay bx by_ <> 0.
Proof.
  intros Hrows Hc. apply Hoff. unfold crs in Hc. destruct Hrows as [[H1 H2]|[H1 H2]].
  - exists (- ay / (by_ - ay)). split; [split|split].
    + apply Rle_div_r; lra.
    + apply Rle_div_l; lra.
    + assert (ax + - ay / (by_ - ay) * (bx - ax) = 0).
      { replace (ax + - ay / (by_ - ay) * (bx - ax)) with ((ax * by_ - ay * bx) / (by_ - ay)) by (field; lra).
        rewrite Hc. unfold Rdiv. ring. }
      unfold ax, ay, bx, by_ in *. lra.
    + assert (ay + - ay / (by_ - ay) * (by_ - ay) = 0) by (field; lra). unfold ax, ay, bx, by_ in *. lra.
  - exists (ay / (ay - by_)). split; [split|split].
    + apply Rle_div_r; lra.
    + apply Rle_div_l; lra.
    + assert (ax + ay / (ay - by_) * (bx - ax) = 0).
      { replace (ax + ay / (ay - by_) * (bx - ax)) with (- (ax * by_ - ay * bx) / (ay - by_)) by (field; lra).
        rewrite Hc. unfold Rdiv. ring. }
      unfold ax, ay, bx, by_ in *. lra.
    + assert (ay + ay / (ay - by_) * (by_ - ay) = 0) by (field; lra). unfold ax, ay, bx, by_ in *. lra.
Qed.

Lemma edge_crossing_raw : edge_crossing s e p = ec_raw ax ay bx by_.
Proof.
  rewrite edge_crossing_orient. unfold edge_crossing', ec_raw.
  assert (O : orient s e p = crs ax ay bx by_) by (unfold orient, crs, ax, ay, bx, by_; ring).
  rewrite O. pose proof off_rows_cross as N4. set (c := crs ax ay bx by_) in *.
  assert (Ay : py s <= py p <-> ay <= 0) by (unfold ay; lra).
  assert (By : py p < py e <-> 0 < by_) by (unfold by_; lra).
  assert (Ay2 : py p < py s <-> 0 < ay) by (unfold ay; lra).
  assert (By2 : py e <= py p <-> by_ <= 0) by (unfold by_; lra).
  assert (SE : py s < py e <-> ay < by_) by (unfold ay, by_; lra).
  assert (ES : py e < py s <-> by_ < ay) by (unfold ay, by_; lra).
  destruct (Rlt_dec (py s) (py e)), (Rlt_dec (py e) (py s)), (Rle_dec (py s) (py p)), (Rlt_dec (py p) (py e)),
           (Rle_dec (py e) (py p)), (Rlt_dec (py p) (py s)), (Rle_dec ay 0), (Rlt_dec 0 by_), (Rle_dec by_ 0);
    try (exfalso; lra); try tauto;
    destruct (Rle_dec c 0), (Rlt_dec c 0), (Rle_dec 0 c), (Rlt_dec 0 c); try reflexivity; try (exfalso; lra);
    exfalso; (apply N4; [lra|lra]).
Qed.

Lemma edge_dtheta_crossing :
  edge_dtheta p s e = phiP p e - phiP p s + 2 * PI * IZR (edge_crossing s e p).
Proof.
  rewrite edge_crossing_raw. unfold edge_dtheta, phiP. fold ax ay bx by_.
  apply (dtheta_raw ax ay bx by_ off_a off_b off_antiparallel).
Qed.
End Edge.

(** * Telescoping around the closed polygon *)
Lemma IZR_sumZ_cons (x : Z) (l : list Z) : IZR (sumZ (x :: l)) = IZR x + IZR (sumZ l).
Proof. cbn [sumZ fold_right]. apply plus_IZR. Qed.

Lemma angle_sum_from (first p : Point R) : forall (vs : list (Point R)) (prev : Point R),
  (forall se, In se (cyc_edges_from first prev vs) -> ~ on_edge (fst se) (snd se) p) ->
  fold_right Rplus 0 (map (fun se => edge_dtheta p (fst se) (snd se)) (cyc_edges_from first prev vs)) =
  phiP p first - phiP p prev
  + 2 * PI * IZR (sumZ (map (fun se => edge_crossing (fst se) (snd se) p) (cyc_edges_from first prev vs))).
Proof.
  induction vs as [|v r IH]; intros prev Hoff; cbn [cyc_edges_from map fold_right fst snd].
  - rewrite (edge_dtheta_crossing prev first p) by (apply (Hoff (prev, first)); simpl; auto).
    rewrite IZR_sumZ_cons. cbn [sumZ fold_right]. ring.
  - rewrite (edge_dtheta_crossing prev v p) by (apply (Hoff (prev, v)); simpl; auto).
    rewrite IH by (intros se Hin; apply Hoff; simpl; auto).
    rewrite IZR_sumZ_cons. ring.
Qed.

Lemma polygon_angle_sum_crossing (v0 : Point R) (vs : list (Point R)) (p : Point R) :
  off_polygon v0 vs p -> polygon_angle_sum v0 vs p = 2 * PI * IZR (poly_crossing_number v0 vs p).
Proof.
  intro Hoff. unfold polygon_angle_sum, poly_crossing_number, cyc_edges.
  rewrite (angle_sum_from v0 p vs v0 Hoff). ring.
Qed.

Lemma polygon_crossing_number_topological (v0 : Point R) (vs : list (Point R)) (p : Point R) :
  off_polygon v0 vs p -> IZR (poly_crossing_number v0 vs p) = polygon_topological_winding v0 vs p.
Proof.
  intro Hoff. unfold polygon_topological_winding. rewrite (polygon_angle_sum_crossing v0 vs p Hoff).
  pose proof PI_RGT_0. field. lra.
Qed.

(** the model's winding number of a closed polygon about a point off the polygon is its topological winding number *)
Lemma polygon_winding_topological (v0 : Point R) (vs : list (Point R)) (p : Point R) :
  off_polygon v0 vs p ->
  exists w : Z, path_winding (polygon_els v0 vs) p = Some w /\ IZR w = polygon_topological_winding v0 vs p.
Proof.
  intro Hoff. exists (poly_crossing_number v0 vs p). split.
  - apply polygon_winding_crossing_number.
  - apply polygon_crossing_number_topological. exact Hoff.
Qed.

(** * Non-vacuity: the unit square about its centre: four quarter turns *)
Lemma ex_square_off :
  off_polygon (mkPoint 0 0) [mkPoint 1 0; mkPoint 1 1; mkPoint 0 1] (mkPoint (/ 2) (/ 2)).
Proof.
  intros se Hin [t [Ht [Hx Hy]]]. cbn in Hin.
  destruct Hin as [<-|[<-|[<-|[<-|[]]]]]; cbn [fst snd px py] in Hx, Hy; lra.
Qed.

Lemma ex_square_topological :
  polygon_topological_winding (mkPoint 0 0) [mkPoint 1 0; mkPoint 1 1; mkPoint 0 1] (mkPoint (/ 2) (/ 2)) = 1.
Proof.
  rewrite <- (polygon_crossing_number_topological _ _ _ ex_square_off).
  pose proof ex_square as E. rewrite polygon_winding_crossing_number in E. injection E as ->. reflexivity.
Qed.

(* the sign convention, computed directly: seen from the centre, the bottom edge (0,0) -> (1,0) of the
   counter-clockwise unit square subtends + pi/2 *)
Lemma ex_edge_quarter_turn :
  edge_dtheta (mkPoint (/ 2) (/ 2)) (mkPoint 0 0) (mkPoint 1 0) = PI / 2.
Proof.
  unfold edge_dtheta. cbn [px py].
  replace ((0 - / 2) * (0 - / 2) - (0 - / 2) * (1 - / 2)) with (/ 2) by field.
  replace ((0 - / 2) * (1 - / 2) + (0 - / 2) * (0 - / 2)) with 0 by field.
  unfold Ratan2. destruct (Rlt_dec 0 0); [lra|]. destruct (Rlt_dec 0 (/ 2)); [reflexivity|lra].
Qed.
