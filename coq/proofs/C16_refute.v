(** C16: concrete witnesses, computed on the binary64 instance with the executable number
    conversion of model/SvgNum.v: what the pinned parser gets wrong, and that the repaired
    parser gets the same inputs right. *)
From Coq Require Import ZArith List Bool Floats String Ascii.
From KV Require Import Scalar F64 Geom Curves Path ShapeTypes Svg SvgSpec SvgNum C16_lex.
Import ListNotations.
Local Open Scope Z_scope.

Definition bz (s : string) : list Z := map (fun a => Z.of_N (N_of_ascii a)) (list_ascii_of_string s).

(** [txt "..."] : the bytes of a string literal *)
Notation "'txt' s" := (bz s%string) (at level 0, s at level 0, only parsing).

Notation P x y := (mkPoint x%float y%float).
Notation parse_pinned := (from_svg dec_parse fmod pinned).
Notation parse_fixed := (from_svg dec_parse fmod fixed).
Notation FCmd := (@SCmd float).

(** a concrete token belongs to the number grammar if the lexer accepts exactly it *)
Lemma number_tok_by_lexing t : lex_number (t ++ [32]) = Ok (t, [32]) -> number_tok t.
Proof. intros E. destruct (lex_number_spec _ _ _ E) as (_ & Ht & _). exact Ht. Qed.

Ltac tok := apply number_tok_by_lexing; vm_compute; reflexivity.
Ltac num := split; [tok|vm_compute; reflexivity].
Lemma Sep_sp : Sep [32]. Proof. exists [32], [], false. repeat split. Qed.

(** *** '+' at the head of a repeated argument group: [m1 1 +2 3] *)
Definition plus_cmds : list FCmd := [CM true (P 1 1); CL true (P 2 3)].
Definition plus_spells : list Spell :=
  [mkSpell false [] [] [bz "1"; bz "1"] [bz " "]; mkSpell true (bz " ") [] [bz "+2"; bz "3"] [bz " "]].

Lemma plus_text : render plus_cmds plus_spells [] = bz "m1 1 +2 3".
Proof. vm_compute. reflexivity. Qed.

Lemma plus_spells_ok : spells_ok dec_parse None plus_cmds plus_spells.
Proof.
  cbn [spells_ok plus_cmds plus_spells]. split; [|split; [|exact I]].
  - unfold spell_ok. cbn [cmd_args pt_args sp_args sp_seps sp_omit sp_lead sp_first px py].
    split; [repeat (apply Forall2_cons; [num|]); apply Forall2_nil|]. split; [cbn; split; [apply Sep_sp|split; [discriminate|reflexivity]]|].
    split; reflexivity.
  - unfold spell_ok. cbn [cmd_args pt_args sp_args sp_seps sp_omit sp_lead sp_first px py].
    split; [repeat (apply Forall2_cons; [num|]); apply Forall2_nil|]. split; [cbn; split; [apply Sep_sp|split; [discriminate|reflexivity]]|].
    split; [right; repeat split; reflexivity|]. split; [apply Sep_sp|discriminate].
Qed.

(** the meaning: a move to (1,1) and a line to (3,4) *)
Lemma plus_meaning : interp fmod plus_cmds = Ok [MoveTo (P 1 1); LineTo (P 3 4)].
Proof. vm_compute. reflexivity. Qed.
(** the pinned parser stops silently after the moveto; the repaired one is right *)
Lemma plus_pinned : parse_pinned (bz "m1 1 +2 3") = Ok [MoveTo (P 1 1)].
Proof. vm_compute. reflexivity. Qed.
Lemma plus_fixed : parse_fixed (bz "m1 1 +2 3") = Ok [MoveTo (P 1 1); LineTo (P 3 4)].
Proof. vm_compute. reflexivity. Qed.

Theorem plus_sign_refuted :
  exists (cmds : list FCmd) sps, spells_ok dec_parse None cmds sps /\
    parse_pinned (render cmds sps []) <> interp fmod cmds.
Proof.
  exists plus_cmds, plus_spells. split; [exact plus_spells_ok|].
  rewrite plus_text, plus_pinned, plus_meaning. discriminate.
Qed.

(** *** smooth commands: S after Q, T after C, S after Z *)
Definition sq_cmds : list FCmd := [CM false (P 0 0); CQ false (P 1 1) (P 2 0); CS false (P 3 1) (P 4 0)].
Definition abs_spell (toks : list (list Z)) : Spell :=
  mkSpell false [] [] toks (map (fun _ => bz " ") (tl toks)).
Definition sq_spells : list Spell :=
  [abs_spell [bz "0"; bz "0"]; abs_spell [bz "1"; bz "1"; bz "2"; bz "0"]; abs_spell [bz "3"; bz "1"; bz "4"; bz "0"]].
Lemma sq_text : render sq_cmds sq_spells [] = bz "M0 0Q1 1 2 0S3 1 4 0".
Proof. vm_compute. reflexivity. Qed.

Ltac seps :=
  cbn [seps_ok];
  repeat (split; [apply Sep_sp|split; [intros E; vm_compute in E; discriminate E|]]); reflexivity.
Ltac abs_ok :=
  unfold spell_ok, abs_spell; cbn [cmd_args pt_args sp_args sp_seps sp_omit sp_lead sp_first px py app map tl];
  split; [repeat (apply Forall2_cons; [num|]); apply Forall2_nil|]; split; [seps|split; reflexivity].

Lemma sq_spells_ok : spells_ok dec_parse None sq_cmds sq_spells.
Proof. cbn [spells_ok sq_cmds sq_spells]. split; [abs_ok|split; [abs_ok|split; [abs_ok|exact I]]]. Qed.

(** SVG: S after a command that is not C/c/S/s takes the current point (2,0) as first control point *)
Lemma sq_meaning : interp fmod sq_cmds =
  Ok [MoveTo (P 0 0); QuadTo (P 1 1) (P 2 0); CurveTo (P 2 0) (P 3 1) (P 4 0)].
Proof. vm_compute. reflexivity. Qed.
(** the pinned parser reflects the quadratic's control point (1,1) instead: (3,-1) *)
Lemma sq_pinned : parse_pinned (bz "M0 0Q1 1 2 0S3 1 4 0") =
  Ok [MoveTo (P 0 0); QuadTo (P 1 1) (P 2 0); CurveTo (P 3 (-1)) (P 3 1) (P 4 0)].
Proof. vm_compute. reflexivity. Qed.
Lemma sq_fixed : parse_fixed (bz "M0 0Q1 1 2 0S3 1 4 0") =
  Ok [MoveTo (P 0 0); QuadTo (P 1 1) (P 2 0); CurveTo (P 2 0) (P 3 1) (P 4 0)].
Proof. vm_compute. reflexivity. Qed.

Definition third_x (r : res (list (PathEl float))) : float :=
  match r with
  | Ok (_ :: _ :: CurveTo p _ _ :: _) | Ok (_ :: _ :: QuadTo p _ :: _) => px p
  | Ok (_ :: _ :: _ :: _ :: _ :: CurveTo p _ _ :: _) => px p
  | _ => 0%float
  end.

Theorem smooth_after_quadratic_refuted :
  exists (cmds : list FCmd) sps, spells_ok dec_parse None cmds sps /\
    parse_pinned (render cmds sps []) <> interp fmod cmds.
Proof.
  exists sq_cmds, sq_spells. split; [exact sq_spells_ok|].
  rewrite sq_text, sq_pinned, sq_meaning. intros E.
  apply (f_equal (fun r => PrimFloat.eqb (third_x r) 2)) in E. vm_compute in E. discriminate.
Qed.

(** T after C reflects the cubic's second control point *)
Lemma tc_pinned : parse_pinned (bz "M0 0 C1 1 2 1 3 0 T 5 0") =
  Ok [MoveTo (P 0 0); CurveTo (P 1 1) (P 2 1) (P 3 0); QuadTo (P 4 (-1)) (P 5 0)].
Proof. vm_compute. reflexivity. Qed.
Lemma tc_fixed : parse_fixed (bz "M0 0 C1 1 2 1 3 0 T 5 0") =
  Ok [MoveTo (P 0 0); CurveTo (P 1 1) (P 2 1) (P 3 0); QuadTo (P 3 0) (P 5 0)].
Proof. vm_compute. reflexivity. Qed.
Lemma tc_meaning : interp fmod [CM false (P 0 0); CC false (P 1 1) (P 2 1) (P 3 0); CT false (P 5 0)] =
  Ok [MoveTo (P 0 0); CurveTo (P 1 1) (P 2 1) (P 3 0); QuadTo (P 3 0) (P 5 0)].
Proof. vm_compute. reflexivity. Qed.

(** S after Z reflects a stale control point (here the end of the last line) about the sub-path start *)
Lemma sz_pinned : parse_pinned (bz "M0 0 L10 0 L10 10 Z S 5 5 0 5") =
  Ok [MoveTo (P 0 0); LineTo (P 10 0); LineTo (P 10 10); ClosePath; MoveTo (P 0 0);
      CurveTo (P (-10) (-10)) (P 5 5) (P 0 5)].
Proof. vm_compute. reflexivity. Qed.
Lemma sz_fixed : parse_fixed (bz "M0 0 L10 0 L10 10 Z S 5 5 0 5") =
  Ok [MoveTo (P 0 0); LineTo (P 10 0); LineTo (P 10 10); ClosePath; MoveTo (P 0 0);
      CurveTo (P 0 0) (P 5 5) (P 0 5)].
Proof. vm_compute. reflexivity. Qed.
Lemma sz_meaning :
  interp fmod [CM false (P 0 0); CL false (P 10 0); CL false (P 10 10); CZ false; CS false (P 5 5) (P 0 5)] =
  Ok [MoveTo (P 0 0); LineTo (P 10 0); LineTo (P 10 10); ClosePath; MoveTo (P 0 0);
      CurveTo (P 0 0) (P 5 5) (P 0 5)].
Proof. vm_compute. reflexivity. Qed.

(** *** non-vacuity: other spellings of the same drawing, all parsed alike by the repaired parser *)
Lemma spellings_example :
  parse_fixed (bz "M10,10 L20,10 L20,20 C20,30 10,30 10,20 Z") =
  Ok [MoveTo (P 10 10); LineTo (P 20 10); LineTo (P 20 20); CurveTo (P 20 30) (P 10 30) (P 10 20); ClosePath] /\
  parse_fixed (bz "m1e1+10h+10v1E1c0 10-10,10-10 0z") =
  parse_fixed (bz "M10,10 L20,10 L20,20 C20,30 10,30 10,20 Z") /\
  parse_fixed (bz " M 10 10 20 10 V 20 S 10 30 10 20 z ") =
  Ok [MoveTo (P 10 10); LineTo (P 20 10); LineTo (P 20 20); CurveTo (P 20 20) (P 10 30) (P 10 20); ClosePath].
Proof. vm_compute. repeat split; reflexivity. Qed.

(** errors *)
Lemma errors_example :
  parse_fixed (bz "M1 1e") = Err Wrong /\ parse_fixed (bz "M1 .") = Err Wrong /\
  parse_fixed (bz "M1 --1") = Err Wrong /\ parse_fixed (bz "M1 1 L") = Err UnexpectedEof /\
  parse_fixed (bz "L1 1") = Err UninitializedPath /\ parse_fixed (bz "M1 1 X") = Err (UnknownCommand 88) /\
  parse_fixed (bz "") = Ok [].
Proof. vm_compute. repeat split; reflexivity. Qed.

(** round trip of a written path, with the [Display] strings of its coordinates given as a table *)
Lemma roundtrip_example :
  let tbl := [(0.5%float, bz "0.5"); ((-0)%float, bz "-0"); (0x1.ad7f29abcaf48p-24%float, bz "0.0000001"); (3%float, bz "3")] in
  let els := [MoveTo (P 0.5 (-0)); LineTo (P 0x1.ad7f29abcaf48p-24 3); ClosePath; MoveTo (P 3 3)] in
  write_to (show_tbl tbl) els = bz "M0.5,-0 L0.0000001,3 Z M3,3" /\
  parse_fixed (write_to (show_tbl tbl) els) = Ok els.
Proof. vm_compute. split; reflexivity. Qed.

(** *** an arc whose chord underflows: the pinned code emits nothing for it (release build;
    a debug build panics in [debug_assert!(sum_of_sq != 0.0)]), the repaired code a line *)
Lemma arc_pinned : parse_pinned (bz "M0 0A1 1 0 0 0 1e-200 0") = Ok [MoveTo (P 0 0)].
Proof. vm_compute. reflexivity. Qed.
Lemma arc_fixed : parse_fixed (bz "M0 0A1 1 0 0 0 1e-200 0") =
  Ok [MoveTo (P 0 0); LineTo (P 0x1.87e92154ef7acp-665 0)].
Proof. vm_compute. reflexivity. Qed.

Theorem arc_degenerate_refuted :
  exists (from to radii : Point float) rot large sweep,
    arc_els fmod false from to radii rot large sweep = [] /\
    arc_els fmod true from to radii rot large sweep = [LineTo to].
Proof.
  exists (P 0 0), (P 0x1.87e92154ef7acp-665 0), (P 1 1), 0%float, false, false.
  vm_compute. split; reflexivity.
Qed.
