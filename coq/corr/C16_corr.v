(** Correspondence glue for C16: the SVG lexer/parser/writer model at F64.

    Number scheme (see model/SvgNum.v): [num_of := dec_parse] (exact decimal -> binary64,
    compared with Rust's [parse::<f64>] on every token of every case), [frem := fmod],
    [show := ] lookup in the table of [format!("{}", x)] strings passed with the case.

    ops (byte strings are passed as one float per byte):
      1  from_svg, no arc commands reached         exact   (the [fixed] variant of the model)
      11 the same, [pinned] variant (used only to replay the findings on the pinned tree)
      2  from_svg, arc commands                    tolerance 1e-9 (sin cos atan2 tan powf)
      3  Arc::from_svg_arc                         tolerance 1e-9
      12, 13  the same with radii that get scaled up: tolerance 1e-5
      5  write_to (to_svg)                         exact (bytes)
      6  Display/parse hypotheses on one value     exact
    result of from_svg: 0 :: elements (geom.rs enc_els) ++ sign-of-zero flags | 1 Wrong |
      2 UnexpectedEof | 3 c UnknownCommand | 4 UninitializedPath | 5 (model only) OutOfFuel. *)
From Coq Require Import ZArith Floats List Bool Uint63.
From KV Require Import Scalar F64 Geom Curves Path ShapeTypes Svg SvgNum Corr.
Import ListNotations.
Local Open Scope Z_scope.

Definition nums : list Z -> option float := dec_parse.

(** a non-negative integral float below 2^53 as a primitive integer (fast path of [F.to_usize]) *)
Definition f2int (x : float) : Uint63.int :=
  let '(r, e) := PrimFloat.frshiftexp x in
  PrimInt63.lsr (PrimFloat.normfr_mantissa r) (PrimInt63.sub 2154%uint63 e).
Definition byte_of (x : float) : Z := Uint63.to_Z (f2int x).

(** byte strings travel as [len; six bytes per float, little endian] *)
Definition unpack6 (x : float) : list Z :=
  let z := f2int x in
  let b (k : Uint63.int) := Uint63.to_Z (PrimInt63.land (PrimInt63.lsr z k) 255%uint63) in
  [b 0%uint63; b 8%uint63; b 16%uint63; b 24%uint63; b 32%uint63; b 40%uint63].
Definition unpack_n (n : nat) (a : list float) : list Z := firstn n (flat_map unpack6 a).
Definition unpack (a : list float) : list Z :=
  match a with n :: r => unpack_n (Z.to_nat (byte_of n)) r | [] => [] end.
Fixpoint pack6 (l : list Z) : list float :=
  match l with
  | [] => []
  | a :: b :: c :: d :: e :: f :: r =>
      z2f (a + 256 * (b + 256 * (c + 256 * (d + 256 * (e + 256 * f))))) :: pack6 r
  | l => [z2f (fold_right (fun x acc => x + 256 * acc) 0 l)]
  end.
Definition pack (l : list Z) : list float := z2f (Z.of_nat (length l)) :: pack6 l.
Definition chunks (n : nat) : nat := Nat.div (n + 5) 6.

Definition pt_out (p : Point float) : list float := [px p; py p].

Fixpoint els_out (els : list (PathEl float)) : list float :=
  match els with
  | [] => []
  | MoveTo p :: r => 0%float :: pt_out p ++ els_out r
  | LineTo p :: r => 1%float :: pt_out p ++ els_out r
  | QuadTo p1 p2 :: r => 2%float :: pt_out p1 ++ pt_out p2 ++ els_out r
  | CurveTo p1 p2 p3 :: r => 3%float :: pt_out p1 ++ pt_out p2 ++ pt_out p3 ++ els_out r
  | ClosePath :: r => 4%float :: els_out r
  end.

Definition negzero (x : float) : float := b2f (PrimFloat.is_zero x && PrimFloat.get_sign x).
Definition pt_sg (p : Point float) : list float := [negzero (px p); negzero (py p)].
Fixpoint els_signs (els : list (PathEl float)) : list float :=
  match els with
  | [] => []
  | MoveTo p :: r => pt_sg p ++ els_signs r
  | LineTo p :: r => pt_sg p ++ els_signs r
  | QuadTo p1 p2 :: r => pt_sg p1 ++ pt_sg p2 ++ els_signs r
  | CurveTo p1 p2 p3 :: r => pt_sg p1 ++ pt_sg p2 ++ pt_sg p3 ++ els_signs r
  | ClosePath :: r => els_signs r
  end.

Definition res_out (r : res (list (PathEl float))) : list float :=
  match r with
  | Ok els => 0%float :: els_out els ++ els_signs els
  | Err Wrong => [1%float]
  | Err UnexpectedEof => [2%float]
  | Err (UnknownCommand c) => [3%float; z2f c]
  | Err UninitializedPath => [4%float]
  | Err OutOfFuel => [5%float]
  end.

(* decode geom.rs enc_els *)
Fixpoint els_in (fuel : nat) (a : list float) : option (list (PathEl float)) :=
  match fuel with
  | O => None
  | S k =>
    match a with
    | [] => Some []
    | t :: r =>
        let tz := byte_of t in
        if tz =? 0 then match r with x :: y :: r' => option_map (cons (MoveTo (mkPoint x y))) (els_in k r') | _ => None end
        else if tz =? 1 then match r with x :: y :: r' => option_map (cons (LineTo (mkPoint x y))) (els_in k r') | _ => None end
        else if tz =? 2 then match r with x :: y :: x2 :: y2 :: r' =>
               option_map (cons (QuadTo (mkPoint x y) (mkPoint x2 y2))) (els_in k r') | _ => None end
        else if tz =? 3 then match r with x :: y :: x2 :: y2 :: x3 :: y3 :: r' =>
               option_map (cons (CurveTo (mkPoint x y) (mkPoint x2 y2) (mkPoint x3 y3))) (els_in k r') | _ => None end
        else option_map (cons (@ClosePath float)) (els_in k r)
    end
  end.

(* table: value, length, bytes ... *)
Fixpoint tbl_in (fuel : nat) (a : list float) : list (float * list Z) :=
  match fuel with
  | O => []
  | S k =>
    match a with
    | x :: n :: r => let n := Z.to_nat (byte_of n) in
                     (x, unpack_n n (firstn (chunks n) r)) :: tbl_in k (skipn (chunks n) r)
    | _ => []
    end
  end.

Definition eval (op : Z) (a : list float) : option (list float) :=
  match op with
  | 1 | 2 | 12 => Some (res_out (from_svg nums fmod fixed (unpack a)))
  | 11 => Some (res_out (from_svg nums fmod pinned (unpack a)))
  | 3 | 13 => match a with
         | [fx; fy; tx; ty; rx; ry; xr; la; sw] =>
             Some (match from_svg_arc fmod true (mkSvgArc (mkPoint fx fy) (mkPoint tx ty) (mkVec2 rx ry) xr
                                                     (PrimFloat.eqb la 1) (PrimFloat.eqb sw 1)) with
                   | None => [0%float]
                   | Some arc => [1%float; px (arc_center arc); py (arc_center arc); vx (arc_radii arc); vy (arc_radii arc);
                                  arc_start_angle arc; arc_sweep_angle arc; arc_x_rotation arc;
                                  z2f (fto_usize (arc_n arc lit_tenth))]
                   end)
         | _ => None
         end
  | 5 => match a with
         | n :: r =>
             let n := Z.to_nat (byte_of n) in
             match els_in (S n) (firstn n r) with
             | Some els => let tbl := tbl_in (length r) (skipn n r) in
                           Some (pack (write_to (show_tbl tbl) els))
             | None => None
             end
         | [] => None
         end
  | 6 => match a with
         | x :: r => let s := unpack r in
                     Some (match nums s with
                           | Some y => [1%float; y; negzero y; b2f (shown_b s)]
                           | None => [0%float]
                           end)
         | [] => None
         end
  | _ => None
  end.

(* 1e-9; 1e-5 where the radii are scaled up (the centre is the square root of a rounding residue) *)
Definition tol (op : Z) : option float :=
  match op with
  | 2 | 3 => Some 0x1.12e0be826d695p-30%float
  | 12 | 13 => Some 0x1.4f8b588e368f1p-17%float
  | _ => None
  end.
Definition failures := Corr.failures eval tol.
Definition outputs := Corr.outputs eval.
