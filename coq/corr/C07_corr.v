(** Correspondence glue for C07: element lists, the segment views and the builder at F64.

    Encodings (harness/src/geom.rs [enc_els], [enc_seg]):
      element   0 x y | 1 x y | 2 x1 y1 x2 y2 | 3 x1 y1 x2 y2 x3 y3 | 4
      segment   1 p0 p1 | 2 p0 p1 p2 | 3 p0 p1 p2 p3
    Outputs: an optional list is [-1] (the implementation panicked) or [n; items...];
    an optional segment is [0] or [1; segment].

    ops
      1  args = elements (first element not ClosePath). observed =
           segments ++ Shape::path_segments(BezPath) ++ Shape::path_segments(&[PathEl])
           ++ get_seg(i) for i = 0..=len  ++ reverse_subpaths ++ from_path_segments(segments)
         with [get_seg] = the REQUIRED behaviour [get_seg_req] (= the code after
         proposed_fixes/C07-get-seg.diff)
      11 the same with [get_seg] = the pinned code's behaviour (harness run with KV_C07_PINNED=1)
      3  args = elements with a leading ClosePath: segments (panics) ++ get_seg(i), i = 0..=len
      13 the same, pinned get_seg
      2  args = a builder history (0 push el | 1 pop | 2 truncate n | 3 extend k el*k), run from the
         empty path. observed = elements ++ pop results ++ segments ++ get_seg(i), i = 0..=len
      12 the same, pinned get_seg *)
From Coq Require Import ZArith Floats List Bool.
From KV Require Import Scalar F64 Geom Curves Path PathOps Corr C06_corr.
Import ListNotations.
Local Open Scope Z_scope.

Notation El := (PathEl float).

Definition P (x y : float) : Point float := mkPoint x y.

Definition dec_el (a : list float) : option (El * list float) :=
  match a with
  | k :: r =>
      if PrimFloat.eqb k 4 then Some (ClosePath, r) else
      match r with
      | x :: y :: r1 =>
          if PrimFloat.eqb k 0 then Some (MoveTo (P x y), r1)
          else if PrimFloat.eqb k 1 then Some (LineTo (P x y), r1)
          else match r1 with
          | x2 :: y2 :: r2 =>
              if PrimFloat.eqb k 2 then Some (QuadTo (P x y) (P x2 y2), r2)
              else match r2 with
              | x3 :: y3 :: r3 =>
                  if PrimFloat.eqb k 3 then Some (CurveTo (P x y) (P x2 y2) (P x3 y3), r3) else None
              | _ => None
              end
          | _ => None
          end
      | _ => None
      end
  | [] => None
  end.

(** all elements of [a] ([fuel] >= length a suffices) *)
Fixpoint dec_els (fuel : nat) (a : list float) : option (list El) :=
  match a with
  | [] => Some []
  | _ =>
      match fuel with
      | O => None
      | S f =>
          match dec_el a with
          | None => None
          | Some (e, r) => match dec_els f r with Some l => Some (e :: l) | None => None end
          end
      end
  end.

(** exactly [k] elements *)
Fixpoint dec_n (k : nat) (a : list float) : option (list El * list float) :=
  match k with
  | O => Some ([], a)
  | S k' =>
      match dec_el a with
      | None => None
      | Some (e, r) => match dec_n k' r with Some (l, r') => Some (e :: l, r') | None => None end
      end
  end.

Definition f2nat (x : float) : nat := Z.to_nat (F.to_usize x).

Fixpoint dec_hist (fuel : nat) (a : list float) : option (list (BOp (T:=float))) :=
  match a with
  | [] => Some []
  | k :: r =>
      match fuel with
      | O => None
      | S f =>
          let cont (op : BOp (T:=float)) (rest : list float) :=
            match dec_hist f rest with Some h => Some (op :: h) | None => None end in
          if PrimFloat.eqb k 0 then
            match dec_el r with Some (e, r1) => cont (OpPush e) r1 | None => None end
          else if PrimFloat.eqb k 1 then cont OpPop r
          else if PrimFloat.eqb k 2 then
            match r with n :: r1 => cont (OpTruncate (f2nat n)) r1 | [] => None end
          else if PrimFloat.eqb k 3 then
            match r with
            | n :: r1 => match dec_n (f2nat n) r1 with Some (l, r2) => cont (OpExtend l) r2 | None => None end
            | [] => None
            end
          else None
      end
  end.

(** encoders *)
Definition el_out (e : El) : list float :=
  match e with
  | MoveTo p => 0%float :: pt_out p
  | LineTo p => 1%float :: pt_out p
  | QuadTo p1 p2 => 2%float :: pt_out p1 ++ pt_out p2
  | CurveTo p1 p2 p3 => 3%float :: pt_out p1 ++ pt_out p2 ++ pt_out p3
  | ClosePath => [4%float]
  end.
Definition nat_out (n : nat) : float := z2f (Z.of_nat n).
Definition els_out (l : list El) : list float := nat_out (length l) :: flat_map el_out l.
Definition oels_out (o : option (list El)) : list float :=
  match o with None => [(-1)%float] | Some l => els_out l end.
Definition segs_out (l : list (PathSeg float)) : list float := nat_out (length l) :: flat_map seg_out l.
Definition osegs_out (o : option (list (PathSeg float))) : list float :=
  match o with None => [(-1)%float] | Some l => segs_out l end.
Definition oseg_out (o : option (PathSeg float)) : list float :=
  match o with None => [0%float] | Some s => 1%float :: seg_out s end.
Definition oel_out (o : option El) : list float :=
  match o with None => [0%float] | Some e => 1%float :: el_out e end.

Definition all_get (g : list El -> nat -> option (PathSeg float)) (l : list El) : list float :=
  flat_map (fun i => oseg_out (g l i)) (seq 0 (S (length l))).

Definition views (g : list El -> nat -> option (PathSeg float)) (l : list El) : list float :=
  let segs := segments l in
  osegs_out segs ++ osegs_out (shape_path_segments l) ++ osegs_out (shape_path_segments l)
  ++ all_get g l
  ++ oels_out (reverse_subpaths l)
  ++ oels_out (match segs with Some s => Some (from_path_segments s) | None => None end).

Definition views_noreverse (g : list El -> nat -> option (PathSeg float)) (l : list El) : list float :=
  osegs_out (segments l) ++ all_get g l.

Definition hist_views (g : list El -> nat -> option (PathSeg float)) (h : list (BOp (T:=float))) : list float :=
  let '(l, pops) := run_history [] h in
  els_out l ++ nat_out (length pops) :: flat_map oel_out pops
  ++ osegs_out (segments l) ++ all_get g l.

Definition eval (op : Z) (a : list float) : option (list float) :=
  match op with
  | 1 => option_map (views (@get_seg_req float _)) (dec_els (length a) a)
  | 11 => option_map (views (@get_seg float _)) (dec_els (length a) a)
  | 3 => option_map (views_noreverse (@get_seg_req float _)) (dec_els (length a) a)
  | 13 => option_map (views_noreverse (@get_seg float _)) (dec_els (length a) a)
  | 2 => option_map (hist_views (@get_seg_req float _)) (dec_hist (length a) a)
  | 12 => option_map (hist_views (@get_seg float _)) (dec_hist (length a) a)
  | _ => None
  end.

Definition tol (op : Z) : option float := None.
Definition failures := Corr.failures eval tol.
Definition outputs := Corr.outputs eval.
