(** Correspondence glue for C12: affine maps, their actions on curves/paths/shapes,
    TranslateScale — the model of coq/model/{Affine,AffineOps}.v executed at F64. *)
From Coq Require Import ZArith Floats List Bool.
From KV Require Import Scalar F64 Geom Rect Curves Path Affine ShapeTypes AffineOps Corr.
Import ListNotations.
Local Open Scope Z_scope.

(** ** encoders *)
Definition pt_out (p : Point float) : list float := [px p; py p].
Definition v_out (p : Vec2 float) : list float := [vx p; vy p].
Definition aff_out (m : Affine float) : list float := [aa m; ab m; ac m; ad m; ae m; af m].
Definition rect_out (r : Rect float) : list float := [rx0 r; ry0 r; rx1 r; ry1 r].
Definition radii_out (r : RoundedRectRadii float) : list float :=
  [r_top_left r; r_top_right r; r_bottom_right r; r_bottom_left r].
Definition ts_out (t : TranslateScale float) : list float :=
  [vx (ts_translation t); vy (ts_translation t); ts_scale t].
Definition line_out (l : Line float) := pt_out (l0 l) ++ pt_out (l1 l).
Definition quad_out (q : QuadBez float) := pt_out (q0 q) ++ pt_out (q1 q) ++ pt_out (q2 q).
Definition cubic_out (c : CubicBez float) := pt_out (c0 c) ++ pt_out (c1 c) ++ pt_out (c2 c) ++ pt_out (c3 c).
Definition seg_out (s : PathSeg float) : list float :=
  match s with
  | SegLine l => 1%float :: line_out l
  | SegQuad q => 2%float :: quad_out q
  | SegCubic c => 3%float :: cubic_out c
  end.
(* 0 MoveTo x y | 1 LineTo x y | 2 QuadTo (4) | 3 CurveTo (6) | 4 ClosePath, as harness/src/geom.rs enc_els *)
Definition el_out (e : PathEl float) : list float :=
  match e with
  | MoveTo p => 0%float :: pt_out p
  | LineTo p => 1%float :: pt_out p
  | QuadTo p1 p2 => 2%float :: pt_out p1 ++ pt_out p2
  | CurveTo p1 p2 p3 => 3%float :: pt_out p1 ++ pt_out p2 ++ pt_out p3
  | ClosePath => [4%float]
  end.
Definition els_out (els : list (PathEl float)) : list float := flat_map el_out els.

(** ** decoders: each consumes a prefix and returns the rest *)
Definition dec (A : Type) := list float -> option (A * list float).

Definition f_in : dec float := fun a => match a with x :: r => Some (x, r) | _ => None end.
Definition pt_in : dec (Point float) :=
  fun a => match a with x :: y :: r => Some (mkPoint x y, r) | _ => None end.
Definition v_in : dec (Vec2 float) :=
  fun a => match a with x :: y :: r => Some (mkVec2 x y, r) | _ => None end.
Definition aff_in : dec (Affine float) :=
  fun a => match a with
           | a0 :: a1 :: a2 :: a3 :: a4 :: a5 :: r => Some (mkAffine a0 a1 a2 a3 a4 a5, r)
           | _ => None end.
Definition rect_in : dec (Rect float) :=
  fun a => match a with x0 :: y0 :: x1 :: y1 :: r => Some (mkRect x0 y0 x1 y1, r) | _ => None end.
Definition radii_in : dec (RoundedRectRadii float) :=
  fun a => match a with x0 :: y0 :: x1 :: y1 :: r => Some (mkRadii x0 y0 x1 y1, r) | _ => None end.
Definition ts_in : dec (TranslateScale float) :=
  fun a => match a with tx :: ty :: s :: r => Some (mkTS (mkVec2 tx ty) s, r) | _ => None end.
Definition arc_in : dec (Arc float) :=
  fun a => match a with
           | cx :: cy :: rx :: ry :: st :: sw :: rot :: r => Some (mkArc (mkPoint cx cy) (mkVec2 rx ry) st sw rot, r)
           | _ => None end.
Definition seg_in : dec (PathSeg float) :=
  fun a =>
  match a with
  | k :: x0 :: y0 :: x1 :: y1 :: r =>
      if PrimFloat.eqb k 1 then Some (SegLine (mkLine (mkPoint x0 y0) (mkPoint x1 y1)), r)
      else match r with
      | x2 :: y2 :: r2 =>
          if PrimFloat.eqb k 2 then Some (SegQuad (mkQuad (mkPoint x0 y0) (mkPoint x1 y1) (mkPoint x2 y2)), r2)
          else match r2 with
          | x3 :: y3 :: r3 =>
              if PrimFloat.eqb k 3 then
                Some (SegCubic (mkCubic (mkPoint x0 y0) (mkPoint x1 y1) (mkPoint x2 y2) (mkPoint x3 y3)), r3)
              else None
          | _ => None
          end
      | _ => None
      end
  | _ => None
  end.

(* the whole remaining list is a path; fuel = its length *)
Fixpoint els_in_fuel (fuel : nat) (a : list float) : option (list (PathEl float)) :=
  match a with
  | [] => Some []
  | k :: r =>
      match fuel with
      | O => None
      | S fuel' =>
          let cons e rest := option_map (cons e) (els_in_fuel fuel' rest) in
          if PrimFloat.eqb k 4 then cons ClosePath r
          else match r with
          | x0 :: y0 :: r1 =>
              if PrimFloat.eqb k 0 then cons (MoveTo (mkPoint x0 y0)) r1
              else if PrimFloat.eqb k 1 then cons (LineTo (mkPoint x0 y0)) r1
              else match r1 with
              | x1 :: y1 :: r2 =>
                  if PrimFloat.eqb k 2 then cons (QuadTo (mkPoint x0 y0) (mkPoint x1 y1)) r2
                  else match r2 with
                  | x2 :: y2 :: r3 =>
                      if PrimFloat.eqb k 3 then cons (CurveTo (mkPoint x0 y0) (mkPoint x1 y1) (mkPoint x2 y2)) r3
                      else None
                  | _ => None
                  end
              | _ => None
              end
          | _ => None
          end
      end
  end.
Definition els_in (a : list float) : option (list (PathEl float)) := els_in_fuel (length a) a.

Notation "'do' ( x , r ) <- e ; k" :=
  (match e with Some (x, r) => k | None => None end)
  (at level 200, x name, r name, e at level 100, k at level 200, only parsing).

Definition done {A} (r : list float) (out : A) : option A :=
  match r with [] => Some out | _ => None end.

Definition eval (op : Z) (a : list float) : option (list float) :=
  match op with
  (** *** affine.rs, exact operations *)
  | 1 => do (m, r) <- aff_in a; do (n, r) <- aff_in r; done r (aff_out (aff_mul m n))
  | 2 => do (m, r) <- aff_in a; do (p, r) <- pt_in r; done r (pt_out (aff_apply m p))
  | 3 => do (m, r) <- aff_in a; done r [aff_determinant m]
  | 4 => do (m, r) <- aff_in a; done r (aff_out (aff_inverse m))
  | 5 => do (m, r) <- aff_in a; do (s, r) <- f_in r; done r (aff_out (aff_pre_scale m s))
  | 6 => do (m, r) <- aff_in a; do (s, r) <- v_in r;
         done r (aff_out (aff_pre_scale_non_uniform m (vx s) (vy s)))
  | 7 => do (m, r) <- aff_in a; do (t, r) <- v_in r; done r (aff_out (aff_pre_translate m t))
  | 8 => do (m, r) <- aff_in a; do (s, r) <- f_in r; done r (aff_out (aff_then_scale m s))
  | 9 => do (m, r) <- aff_in a; do (s, r) <- v_in r;
         done r (aff_out (aff_then_scale_non_uniform m (vx s) (vy s)))
  | 10 => do (m, r) <- aff_in a; do (t, r) <- v_in r; done r (aff_out (aff_then_translate m t))
  | 11 => do (m, r) <- aff_in a; do (s, r) <- f_in r; do (c, r) <- pt_in r;
          done r (aff_out (aff_then_scale_about m s c))
  | 12 => do (s, r) <- f_in a; do (c, r) <- pt_in r; done r (aff_out (aff_scale_about s c))
  | 13 => do (q, r) <- rect_in a; done r (aff_out (aff_map_unit_square q))
  | 14 => do (m, r) <- aff_in a; do (q, r) <- rect_in r; done r (rect_out (aff_transform_rect_bbox m q))
  | 15 => do (s, r) <- f_in a; do (m, r) <- aff_in r; done r (aff_out (aff_scalar_mul s m))
  | 16 => (* constructors: scale(s), scale_non_uniform(sx,sy), translate(t), skew(kx,ky), IDENTITY, FLIP_Y, FLIP_X *)
          do (s, r) <- f_in a; do (sn, r) <- v_in r; do (t, r) <- v_in r; do (k, r) <- v_in r;
          done r (aff_out (aff_scale s) ++ aff_out (aff_scale_non_uniform (vx sn) (vy sn))
                  ++ aff_out (aff_translate t) ++ aff_out (aff_skew (vx k) (vy k))
                  ++ aff_out aff_IDENTITY ++ aff_out aff_FLIP_Y ++ aff_out aff_FLIP_X)
  | 17 => do (m, r) <- aff_in a; do (s, r) <- seg_in r; done r (seg_out (aff_mul_seg m s))
  | 18 => do (m, r) <- aff_in a;
          match els_in r with Some els => Some (els_out (aff_mul_path m els)) | None => None end
  | 19 => do (m, r) <- aff_in a; do (n, r) <- aff_in r;
          done r (aff_out (el_inner (aff_mul_ellipse m (ellipse_from_affine n))))
  | 20 => do (m, r) <- aff_in a; done r (v_out (fst (aff_svd_det m)))       (* Ellipse::radii: no libm involved *)
  | 21 => do (m, r) <- aff_in a; do (v, r) <- v_in r; do (c, r) <- pt_in r;
          let e := ellipse_from_affine m in
          done r (aff_out (el_inner (ellipse_add_v e v)) ++ aff_out (el_inner (ellipse_sub_v e v))
                  ++ aff_out (el_inner (ellipse_with_center e c)) ++ pt_out (ellipse_center e))
  | 22 => (* Affine * Circle: rotate(0.0) has sin 0 = 0, cos 0 = 1 exactly *)
          do (m, r) <- aff_in a; do (c, r) <- pt_in r; do (rad, r) <- f_in r;
          done r (aff_out (el_inner (aff_mul_circle m (mkCircle c rad))))
  | 23 => do (m, r) <- aff_in a; do (v, r) <- v_in r;
          done r (v_out (aff_translation m) ++ aff_out (aff_with_translation m v))
  (** *** translate_scale.rs, exact *)
  | 30 => do (t, r) <- ts_in a; do (p, r) <- pt_in r; done r (pt_out (ts_apply t p))
  | 31 => do (t, r) <- ts_in a; do (u, r) <- ts_in r; done r (ts_out (ts_mul t u))
  | 32 => do (t, r) <- ts_in a; done r (ts_out (ts_inverse t))
  | 33 => do (k, r) <- f_in a; do (t, r) <- ts_in r; done r (ts_out (ts_scalar_mul k t))
  | 34 => do (t, r) <- ts_in a; do (v, r) <- v_in r;
          done r (ts_out (ts_add_v t v) ++ ts_out (ts_add_v t v) ++ ts_out (ts_sub_v t v))
  | 35 => do (s, r) <- f_in a; do (c, r) <- pt_in r; done r (ts_out (ts_from_scale_about s c))
  | 36 => do (t, r) <- ts_in a; done r (aff_out (ts_to_affine t))
  | 37 => do (t, r) <- ts_in a; do (c, r) <- pt_in r; do (rad, r) <- f_in r;
          let c' := ts_mul_circle t (mkCircle c rad) in done r (pt_out (ci_center c') ++ [ci_radius c'])
  | 38 => do (t, r) <- ts_in a; do (s, r) <- seg_in r; done r (seg_out (ts_mul_seg t s))
  | 39 => do (t, r) <- ts_in a;
          match els_in r with Some els => Some (els_out (ts_mul_path t els)) | None => None end
  | 40 => do (t, r) <- ts_in a; do (q, r) <- rect_in r; done r (rect_out (ts_mul_rect t q))
  | 41 => do (t, r) <- ts_in a; do (q, r) <- rect_in r; do (rd, r) <- radii_in r;
          let rr := ts_mul_rrect t (mkRoundedRect q rd) in
          done r (rect_out (rr_rect rr) ++ radii_out (rr_radii rr))
  | 42 => do (t, r) <- ts_in a; do (rd, r) <- radii_in r; done r (radii_out (ts_mul_radii t rd))
  | 43 => do (s, r) <- f_in a; do (v, r) <- v_in r;
          done r (ts_out (ts_new_scale s) ++ ts_out (ts_new_translate v) ++ ts_out ts_default)
  | 44 => (* RoundedRect::from_rect *)
          do (q, r) <- rect_in a; do (rd, r) <- radii_in r;
          let rr := rrect_from_rect q rd in done r (rect_out (rr_rect rr) ++ radii_out (rr_radii rr))
  (** *** operations that reach sin/cos/atan2/hypot: tolerance, generic inputs only *)
  | 50 => do (th, r) <- f_in a; done r (aff_out (aff_rotate th))
  | 51 => do (th, r) <- f_in a; do (c, r) <- pt_in r; done r (aff_out (aff_rotate_about th c))
  | 52 => do (m, r) <- aff_in a; do (th, r) <- f_in r; done r (aff_out (aff_pre_rotate m th))
  | 53 => do (m, r) <- aff_in a; do (th, r) <- f_in r; do (c, r) <- pt_in r;
          done r (aff_out (aff_pre_rotate_about m th c))
  | 54 => do (m, r) <- aff_in a; do (th, r) <- f_in r; done r (aff_out (aff_then_rotate m th))
  | 55 => do (m, r) <- aff_in a; do (th, r) <- f_in r; do (c, r) <- pt_in r;
          done r (aff_out (aff_then_rotate_about m th c))
  | 56 => do (p, r) <- pt_in a; do (d, r) <- v_in r; done r (aff_out (aff_reflect p d))
  | 57 => do (m, r) <- aff_in a; done r [snd (aff_svd_det m)]
  | 58 => do (c, r) <- pt_in a; do (rd, r) <- v_in r; do (rot, r) <- f_in r;
          let e := ellipse_new c rd rot in
          let '(radii, rotation) := ellipse_radii_and_rotation e in
          done r (aff_out (el_inner e) ++ v_out radii ++ [rotation])
  | 60 => (* Affine * Arc: centre, radii, x_rotation *)
          do (m, r) <- aff_in a; do (arc, r) <- arc_in r;
          let i := aff_mul_arc m arc in
          done r (pt_out (arc_center i) ++ v_out (arc_radii i) ++ [arc_x_rotation i])
  | 61 => (* Affine * Arc: start and sweep angle *)
          do (m, r) <- aff_in a; do (arc, r) <- arc_in r;
          let i := aff_mul_arc m arc in done r [arc_start_angle i; arc_sweep_angle i]
  | 63 => (* first point of Arc::path_elements: centre + sample_ellipse(radii, x_rotation, start_angle) *)
          do (arc, r) <- arc_in a; done r (pt_out (arc_eval arc 0%float))
  | _ => None
  end.

Definition tol (op : Z) : option float := if op <? 50 then None else Some 0x1.12e0be826d695p-30%float. (* 1e-9 *)
Definition failures := Corr.failures eval tol.
Definition outputs := Corr.outputs eval.
