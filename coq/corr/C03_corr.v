(** Correspondence glue for C03: arc length and its inverse at F64.
    Everything here reaches libm (hypot; ln/powf for quadratics; log2 in inv_arclen), so every
    operation is compared with tolerance 1e-9 on generic inputs; the integer outputs (number of
    arclen_rec calls / ITP iterations from the hook work counter) are thereby compared exactly. *)
From Coq Require Import ZArith Floats List Bool.
From KV Require Import Scalar F64 Geom Curves Path Solvers Arclen Corr.
From KV Require C06_corr.
Import ListNotations.
Local Open Scope Z_scope.

Definition seg_in := C06_corr.seg_in.

(** element decoder, the inverse of [enc_els] in harness/src/geom.rs *)
Fixpoint els_in (a : list float) : option (list (PathEl float)) :=
  match a with
  | [] => Some []
  | k :: r =>
      if PrimFloat.eqb k 4 then option_map (cons ClosePath) (els_in r)
      else match r with
      | x0 :: y0 :: r1 =>
          if PrimFloat.eqb k 0 then option_map (cons (MoveTo (mkPoint x0 y0))) (els_in r1)
          else if PrimFloat.eqb k 1 then option_map (cons (LineTo (mkPoint x0 y0))) (els_in r1)
          else match r1 with
          | x1 :: y1 :: r2 =>
              if PrimFloat.eqb k 2 then
                option_map (cons (QuadTo (mkPoint x0 y0) (mkPoint x1 y1))) (els_in r2)
              else match r2 with
              | x2 :: y2 :: r3 =>
                  if PrimFloat.eqb k 3 then
                    option_map (cons (CurveTo (mkPoint x0 y0) (mkPoint x1 y1) (mkPoint x2 y2))) (els_in r3)
                  else None
              | _ => None
              end
          | _ => None
          end
      | _ => None
      end
  end.

Definition f2z (x : float) : Z := F.to_usize x.

(* ITP fuel: the loop is bounded by nmax <= 1023 in exact arithmetic (and leaves when the bracket
   collapses on floats); exhaustion is reported as a mismatch (the model returns [-1; -1]) *)
Definition itp_fuel : nat := 1100.

Definition eval (op : Z) (a : list float) : option (list float) :=
  match op with
  | 9 =>    (* perimeter: accuracy, then the elements *)
      match a with
      | acc :: r =>
          match els_in r with
          | Some els => Some (match path_perimeter els acc with Some p => [1%float; p] | None => [0%float] end)
          | None => None
          end
      | _ => None
      end
  | 10 =>   (* common::solve_itp driven directly: f x = x*x - c with a counting state; root, loop entries *)
      match a with
      | [lo; hi; eps; n0; k1; c] =>
          Some (match solve_itp_st (fun (n : Z) (x : float) => ((n + 1)%Z, (x * x - c)%float)) itp_fuel 0%Z
                                   lo hi eps (f2z n0) k1 (lo * lo - c)%float (hi * hi - c)%float with
                | Some (x, _, it) => [x; z2f it]
                | None => [(-1)%float; (-1)%float]
                end)
      | _ => None
      end
  | _ =>
  match seg_in a with
  | None => None
  | Some (s, r) =>
      match op, s, r with
      | 1, SegLine l, [] => Some [line_arclen l]
      | 2, SegLine l, [len] => Some [line_inv_arclen l len]
      | 3, SegQuad q, [] => Some [quad_arclen q]
      | 4, SegCubic c, [acc; depth] =>           (* hook verif_arclen_rec: value, calls *)
          let (v, n) := arclen_rec_at_depth c acc (f2z depth) in Some [v; z2f n]
      | 5, SegCubic c, [acc] =>                  (* CubicBez::arclen: value, calls *)
          let (v, n) := cubic_arclen_vc c acc in Some [v; z2f n]
      | 6, _, [acc] => Some [seg_arclen s acc]   (* PathSeg::arclen *)
      | 7, _, [len; acc] =>                      (* concrete inv_arclen (provided method): t, work *)
          Some (match inv_arclen_default itp_fuel s len acc with
                | Some (t, w, _) => [t; z2f w]
                | None => [(-1)%float; (-1)%float]
                end)
      | 8, _, [len; acc] =>                      (* PathSeg::inv_arclen *)
          Some (match seg_inv_arclen itp_fuel s len acc with
                | Some t => [t]
                | None => [(-1)%float]
                end)
      | _, _, _ => None
      end
  end
  end.

Definition tol (op : Z) : option float := Some 0x1.12e0be826d695p-30%float.   (* 1e-9 *)
Definition failures := Corr.failures eval tol.
Definition outputs := Corr.outputs eval.
