(** Correspondence glue for C02: path areas, per-segment areas and affine images at F64. *)
From Coq Require Import ZArith Floats List Bool.
From KV Require Import Scalar F64 Geom Curves Path Affine Area Corr.
From KV Require C06_corr.
Import ListNotations.
Local Open Scope Z_scope.

Definition pt_out := C06_corr.pt_out.
Definition seg_out := C06_corr.seg_out.
Definition seg_in := C06_corr.seg_in.

(** element decoder, the inverse of [enc_els] in harness/src/geom.rs:
    0 MoveTo x y | 1 LineTo x y | 2 QuadTo x1 y1 x2 y2 | 3 CurveTo (6 floats) | 4 ClosePath.
    [None] on a malformed list. *)
Fixpoint els_in (a : list float) : option (list (PathEl float)) :=
  match a with
  | [] => Some []
  | k :: r =>
      if PrimFloat.eqb k 4 then option_map (cons ClosePath) (els_in r)
      else match r with
      | x0 :: y0 :: r1 =>
          if PrimFloat.eqb k 0 then option_map (cons (MoveTo (mkPoint x0 y0))) (els_in r1)
          else if PrimFloat.eqb k 1 then option_map (cons (LineTo (mkPoint x0 y0))) (els_in r1)
          else match r1 with
          | x1 :: y1 :: r2 =>
              if PrimFloat.eqb k 2 then
                option_map (cons (QuadTo (mkPoint x0 y0) (mkPoint x1 y1))) (els_in r2)
              else match r2 with
              | x2 :: y2 :: r3 =>
                  if PrimFloat.eqb k 3 then
                    option_map (cons (CurveTo (mkPoint x0 y0) (mkPoint x1 y1) (mkPoint x2 y2))) (els_in r3)
                  else None
              | _ => None
              end
          | _ => None
          end
      | _ => None
      end
  end.

Definition el_out (e : PathEl float) : list float :=
  match e with
  | MoveTo p => 0%float :: pt_out p
  | LineTo p => 1%float :: pt_out p
  | QuadTo p1 p2 => 2%float :: pt_out p1 ++ pt_out p2
  | CurveTo p1 p2 p3 => 3%float :: pt_out p1 ++ pt_out p2 ++ pt_out p3
  | ClosePath => [4%float]
  end.
Definition els_out (els : list (PathEl float)) : list float := flat_map el_out els.

(* [1; area], or [0] when the implementation panics (leading ClosePath) *)
Definition area_out (r : option float) : list float :=
  match r with Some a => [1%float; a] | None => [0%float] end.

Definition aff_in (a : list float) : option (Affine float * list float) :=
  match a with
  | a0 :: a1 :: a2 :: a3 :: a4 :: a5 :: r => Some (mkAffine a0 a1 a2 a3 a4 a5, r)
  | _ => None
  end.

Definition eval (op : Z) (a : list float) : option (list float) :=
  match op with
  | 1 | 2 | 3 =>   (* Shape::area of BezPath / &[PathEl] / [PathEl; N] *)
      match els_in a with Some els => Some (area_out (path_area els)) | None => None end
  | 4 =>           (* the terms Segments::area adds, from the public segments() iterator *)
      match els_in a with
      | Some els =>
          Some (match path_area_terms els with
                | Some ts => z2f (Z.of_nat (length ts)) :: ts
                | None => [(-1)%float]
                end)
      | None => None
      end
  | 5 =>           (* concrete signed_area; PathSeg::signed_area; Shape::area of PathSeg; of the concrete type *)
      match seg_in a with
      | Some (s, []) =>
          Some [match s with
                | SegLine l => line_signed_area l
                | SegQuad q => quad_signed_area q
                | SegCubic c => cubic_signed_area c
                end; seg_signed_area s; seg_shape_area s; curve_shape_area]
      | _ => None
      end
  | 6 =>           (* Affine * PathSeg, and the area of the image *)
      match aff_in a with
      | Some (A, r) =>
          match seg_in r with
          | Some (s, []) => Some (seg_out (seg_map A s) ++ [seg_signed_area (seg_map A s)])
          | _ => None
          end
      | None => None
      end
  | 7 =>           (* Affine * BezPath: elements *)
      match aff_in a with
      | Some (A, r) => match els_in r with Some els => Some (els_out (path_map A els)) | None => None end
      | None => None
      end
  | 8 =>           (* area of Affine * BezPath, and the determinant *)
      match aff_in a with
      | Some (A, r) =>
          match els_in r with
          | Some els => Some (aff_determinant A :: area_out (path_area (path_map A els)))
          | None => None
          end
      | None => None
      end
  | _ => None
  end.

Definition tol (op : Z) : option float := None.
Definition failures := Corr.failures eval tol.
Definition outputs := Corr.outputs eval.
