(** Correspondence glue for C11: operation numbers -> closed-form shape queries at F64. *)
From Coq Require Import ZArith Floats List Bool.
From KV Require Import Scalar F64 Geom Rect Affine Curves ShapeTypes ShapeQueries RayCast Corr.
Import ListNotations.
Local Open Scope Z_scope.

Definition rect_out (r : Rect float) : list float := [rx0 r; ry0 r; rx1 r; ry1 r].
Definition radii_out (q : RoundedRectRadii float) : list float :=
  [r_top_left q; r_top_right q; r_bottom_right q; r_bottom_left q].
Definition vec_out (v : Vec2 float) : list float := [vx v; vy v].
Definition pt_out (p : Point float) : list float := [px p; py p].
Definition opt_out (o : option float) : list float :=
  match o with Some x => [1%float; x] | None => [0%float] end.

Definition FUEL : nat := 200.

Definition eval (op : Z) (a : list float) : option (list float) :=
  match op, a with
  (* RoundedRect::new(x0,y0,x1,y1,(tl,tr,br,bl)): fields, area, perimeter, bounding box *)
  | 1, [x0;y0;x1;y1;r0;r1;r2;r3] =>
      let rr := rr_from_rect (mkRect x0 y0 x1 y1) (mkRadii r0 r1 r2 r3) in
      Some (rect_out (rr_rect rr) ++ radii_out (rr_radii rr)
            ++ [rr_area rr; rr_perimeter rr] ++ rect_out (rr_bounding_box rr))
  | 2, [x0;y0;x1;y1;r0;r1;r2;r3;x;y] =>
      Some [z2f (rr_winding (rr_from_rect (mkRect x0 y0 x1 y1) (mkRadii r0 r1 r2 r3)) (mkPoint x y))]
  | 3, [cx;cy;r] =>
      let c := mkCircle (mkPoint cx cy) r in
      Some ([circle_area c; circle_perimeter c] ++ rect_out (circle_bounding_box c))
  | 4, [cx;cy;r;x;y] => Some [z2f (circle_winding (mkCircle (mkPoint cx cy) r) (mkPoint x y))]
  | 5, [cx;cy;ro;ri;st;sw] =>
      let s := mkCircleSegment (mkPoint cx cy) ro ri st sw in
      Some ([cseg_area s; cseg_perimeter s] ++ rect_out (cseg_bounding_box s))
  (* the required behaviour (angle reduced relative to start_angle); 106 is the pinned code *)
  | 6, [cx;cy;ro;ri;st;sw;x;y] =>
      Some [z2f (cseg_winding (mkCircleSegment (mkPoint cx cy) ro ri st sw) (mkPoint x y))]
  | 7, [a;b;c;d;e;f] =>
      let el := ellipse_from_affine (mkAffine a b c d e f) in
      Some (vec_out (ellipse_radii el) ++ pt_out (ellipse_center el) ++ [ellipse_area el]
            ++ rect_out (ellipse_bounding_box el))
  | 8, [a;b;c;d;e;f;x;y] =>
      Some [z2f (ellipse_winding (ellipse_from_affine (mkAffine a b c d e f)) (mkPoint x y))]
  (* Ellipse::new goes through sin/cos: tolerance *)
  (* tolerance groups 9, 15, 18 carry the power-of-two scale [s] of the configuration in front; the outputs
     are brought back to unit scale (exact division) so that the 1e-9 tolerance stays relative *)
  | 9, [s;cx;cy;rx;ry;th] =>
      let el := ellipse_new (mkPoint cx cy) (mkVec2 rx ry) th in
      let u := fun x : float => PrimFloat.div x s in
      Some (map u (vec_out (ellipse_radii el)) ++ map u (pt_out (ellipse_center el)) ++ [u (u (ellipse_area el))]
            ++ map u (rect_out (ellipse_bounding_box el)))
  | 10, [a;b;c;d;e;f] =>
      Some [snd (ellipse_radii_and_rotation (ellipse_from_affine (mkAffine a b c d e f)))]
  | 11, [a;b;c;d;e;f;acc] =>
      Some (opt_out (ellipse_perimeter FUEL (ellipse_from_affine (mkAffine a b c d e f)) acc))
  | 12, [x;y] => Some [kummer_elliptic_perimeter (mkVec2 x y); kummer_elliptic_perimeter_range (mkVec2 x y)]
  | 13, [acc;x;y] => Some (opt_out (agm_elliptic_perimeter FUEL acc (mkVec2 x y)))
  | 14, [ax;ay;bx;by_;cx;cy] =>
      let t := mkTriangle (mkPoint ax ay) (mkPoint bx by_) (mkPoint cx cy) in
      Some (tri_area t :: rect_out (tri_bounding_box t))
  | 15, [s;ax;ay;bx;by_;cx;cy] =>
      Some [PrimFloat.div (tri_perimeter (mkTriangle (mkPoint ax ay) (mkPoint bx by_) (mkPoint cx cy))) s]
  (* the required behaviour (zero-area triangles contain nothing); 116 is the pinned code *)
  | 16, [ax;ay;bx;by_;cx;cy;x;y] =>
      Some [z2f (tri_winding (mkTriangle (mkPoint ax ay) (mkPoint bx by_) (mkPoint cx cy)) (mkPoint x y))]
  | 17, [x0;y0;x1;y1] =>
      let l := mkLine (mkPoint x0 y0) (mkPoint x1 y1) in
      Some (line_shape_area l :: z2f (line_shape_winding l (mkPoint x0 y1)) :: rect_out (line_shape_bounding_box l))
  | 18, [s;x0;y0;x1;y1] => Some [PrimFloat.div (line_shape_perimeter (mkLine (mkPoint x0 y0) (mkPoint x1 y1))) s]
  (* spec side: PathSeg::Line(..).winding_inner(p), and BezPath::winding of the polygonal outlines *)
  | 19, [sx;sy;ex;ey;x;y] => Some [z2f (line_winding_inner (mkPoint sx sy) (mkPoint ex ey) (mkPoint x y))]
  | 20, [x0;y0;x1;y1;x;y] => Some [z2f (poly_winding (rect_outline (mkRect x0 y0 x1 y1)) (mkPoint x y))]
  | 21, [ax;ay;bx;by_;cx;cy;x;y] =>
      Some [z2f (poly_winding (tri_outline (mkTriangle (mkPoint ax ay) (mkPoint bx by_) (mkPoint cx cy))) (mkPoint x y))]
  | 22, [x0;y0;x1;y1;x;y] =>
      let r := mkRect x0 y0 x1 y1 in
      Some ([z2f (rect_winding r (mkPoint x y)); rect_area r; rect_perimeter r] ++ rect_out (rect_bounding_box r))
  (* the same four queries for the pinned code (the harness detects which variant it runs against) *)
  | 106, [cx;cy;ro;ri;st;sw;x;y] =>
      Some [z2f (cseg_winding_pinned (mkCircleSegment (mkPoint cx cy) ro ri st sw) (mkPoint x y))]
  | 111, [a;b;c;d;e;f;acc] =>
      Some (opt_out (ellipse_perimeter_pinned FUEL (ellipse_from_affine (mkAffine a b c d e f)) acc))
  | 113, [acc;x;y] => Some (opt_out (agm_elliptic_perimeter_pinned FUEL acc (mkVec2 x y)))
  | 116, [ax;ay;bx;by_;cx;cy;x;y] =>
      Some [z2f (tri_winding_pinned (mkTriangle (mkPoint ax ay) (mkPoint bx by_) (mkPoint cx cy)) (mkPoint x y))]
  | _, _ => None
  end.

Definition tol (op : Z) : option float :=
  match op with
  | 6 | 106 | 9 | 10 | 15 | 18 => Some 0x1.12e0be826d695p-30%float   (* 1e-9 *)
  | _ => None
  end.

Definition failures := Corr.failures eval tol.
Definition outputs := Corr.outputs eval.
