(** Correspondence glue for C19: the float methods themselves (as the crate calls them: through
    std in the default build, through the FloatFuncs trait = libm in the libm build) against F64.v. *)
From Coq Require Import ZArith Floats List Bool.
From KV Require Import Scalar F64 Corr.
Import ListNotations.
Local Open Scope Z_scope.

Definition eval (op : Z) (a : list float) : option (list float) :=
  match op, a with
  | 1, [x] => Some [fabs x]
  | 2, [x] => Some [fceil x]
  | 3, [x] => Some [ffloor x]
  | 4, [x] => Some [fround x]
  | 5, [x] => Some [ftrunc x]
  | 6, [x] => Some [fsqrt x]
  | 7, [x; s] => Some [fcopysign x s]
  | 8, [x; y; z] => Some [ffma x y z]
  | 9, [x] => Some [fsignum x]
  | 10, [x; n] => Some [fpowi x (F.to_usize (PrimFloat.abs n) * (if PrimFloat.ltb n 0 then -1 else 1))]
  (* the libm class: tolerance *)
  | 20, [x] => Some [fsin x]
  | 21, [x] => Some [fcos x]
  | 22, [x] => Some [ftan x]
  | 23, [x] => Some [facos x]
  | 24, [y; x] => Some [fatan2 y x]
  | 25, [x] => Some [fcbrt x]
  | 26, [x; y] => Some [fhypot x y]
  | 27, [x] => Some [fln x]
  | 28, [x; y] => Some [fpowf x y]
  | 29, [x] => Some [fsin x; fcos x]
  | 30, [x] => Some [PrimFloat.div (fln x) (fln 2%float)]
  | _, _ => None
  end.

(* powi through libm's pow is correctly rounded only up to an ulp or so: tolerance; everything in
   1..9 is an exactly specified IEEE operation under both backends *)
Definition tol (op : Z) : option float :=
  if op <? 10 then None else Some 0x1p-40%float.
Definition failures := Corr.failures eval tol.
Definition outputs := Corr.outputs eval.
