(** Correspondence glue for C14: the binary64 run of model/Totality.v.
    op 1: [fit_to_bezpath] on the harness's marked source: args = k, the k marks;
          expected = calls of fit_to_bezpath_rec, number of path elements, the right end of every
          leaf range in path order (bit-exact: only [0.5 * (s + e)] and comparisons are involved);
    op 2: [CubicBez::regularize] when [detect_cusp] reports nothing (bit-exact: + - * / sqrt);
    op 3: the same when a cusp is reported (reaches [hypot]: 1e-9). *)
From Coq Require Import ZArith Floats List Bool.
From KV Require Import Scalar F64 Geom Curves Totality Corr.
Import ListNotations.
Local Open Scope Z_scope.

Definition pt_out (p : Point float) : list float := [px p; py p].
Definition cubic_out (c : CubicBez float) := pt_out (c0 c) ++ pt_out (c1 c) ++ pt_out (c2 c) ++ pt_out (c3 c).

Definition f2z (x : float) : Z := F.to_usize x.

(* the recursion of fit_to_bezpath on [0, 1]; depth fuel 1200 > 1075 *)
Definition run_bisect (marks : list float) : option (list float) :=
  match bisect 1200 (marked marks) 0%float 1%float with
  | None => None
  | Some (n, ends) => Some (z2f n :: z2f (1 + Z.of_nat (length ends)) :: ends)
  end.

Definition eval (op : Z) (a : list float) : option (list float) :=
  match op, a with
  | 1, k :: marks => if Z.eqb (f2z k) (Z.of_nat (length marks)) then run_bisect marks else None
  | 2, [x0; y0; x1; y1; x2; y2; x3; y3; dim; cusp]
  | 3, [x0; y0; x1; y1; x2; y2; x3; y3; dim; cusp] =>
      Some (cubic_out (regularize (mkCubic (mkPoint x0 y0) (mkPoint x1 y1) (mkPoint x2 y2) (mkPoint x3 y3)) dim (f2z cusp)))
  | _, _ => None
  end.

Definition tol (op : Z) : option float := if Z.eqb op 3 then Some 0x1.12e0be826d695p-30%float else None.
Definition failures := Corr.failures eval tol.
Definition outputs := Corr.outputs eval.
