(** Correspondence glue for C20: operation numbers -> model functions at F64. *)
From Coq Require Import ZArith Floats List Bool.
From KV Require Import Scalar F64 Geom Rect Corr.
Import ListNotations.
Local Open Scope Z_scope.

Definition rect_out (r : Rect float) : list float := [rx0 r; ry0 r; rx1 r; ry1 r].
Definition insets_out (r : Insets float) : list float := [ix0 r; iy0 r; ix1 r; iy1 r].
Definition pt_out (p : Point float) : list float := [px p; py p].

Definition eval (op : Z) (a : list float) : option (list float) :=
  match op, a with
  | 1, [a0;a1;a2;a3;b0;b1;b2;b3] => Some (rect_out (rect_union (mkRect a0 a1 a2 a3) (mkRect b0 b1 b2 b3)))
  | 2, [a0;a1;a2;a3;b0;b1;b2;b3] => Some (rect_out (rect_intersect (mkRect a0 a1 a2 a3) (mkRect b0 b1 b2 b3)))
  | 3, [a0;a1;a2;a3;x;y] => Some [b2f (rect_contains (mkRect a0 a1 a2 a3) (mkPoint x y))]
  | 4, [a0;a1;a2;a3;b0;b1;b2;b3] => Some [b2f (rect_overlaps (mkRect a0 a1 a2 a3) (mkRect b0 b1 b2 b3))]
  | 5, [a0;a1;a2;a3;b0;b1;b2;b3] => Some [b2f (rect_contains_rect (mkRect a0 a1 a2 a3) (mkRect b0 b1 b2 b3))]
  | 6, [a0;a1;a2;a3] => Some (rect_out (rect_abs (mkRect a0 a1 a2 a3)))
  | 7, [a0;a1;a2;a3] => Some (rect_out (rect_from_points (mkPoint a0 a1) (mkPoint a2 a3)))
  | 8, [a0;a1;a2;a3;x;y] => Some (rect_out (rect_union_pt (mkRect a0 a1 a2 a3) (mkPoint x y)))
  | 9, [a0;a1;a2;a3] => Some (rect_out (rect_expand (mkRect a0 a1 a2 a3)))
  | 10, [a0;a1;a2;a3] => Some (rect_out (rect_trunc (mkRect a0 a1 a2 a3)))
  | 11, [a0;a1;a2;a3] => Some (rect_out (rect_round (mkRect a0 a1 a2 a3)))
  | 12, [a0;a1;a2;a3] => Some (rect_out (rect_ceil (mkRect a0 a1 a2 a3)))
  | 13, [a0;a1;a2;a3] => Some (rect_out (rect_floor (mkRect a0 a1 a2 a3)))
  | 14, [a0;a1;a2;a3;i0;i1;i2;i3] => Some (rect_out (rect_add_insets (mkRect a0 a1 a2 a3) (mkInsets i0 i1 i2 i3)))
  | 15, [a0;a1;a2;a3;i0;i1;i2;i3] => Some (rect_out (rect_sub_insets (mkRect a0 a1 a2 a3) (mkInsets i0 i1 i2 i3)))
  | 16, [a0;a1;a2;a3;b0;b1;b2;b3] => Some (insets_out (rect_sub (mkRect a0 a1 a2 a3) (mkRect b0 b1 b2 b3)))
  | 17, [a0;a1;a2;a3;w;h] => Some (rect_out (rect_inflate (mkRect a0 a1 a2 a3) w h))
  | 18, [x] | 24, [x] | 25, [x] | 26, [x] => Some [fexpand x; ffloor x; fceil x; fround x; ftrunc x]
  | 19, [a0;a1;a2;a3;x;y] => Some [z2f (rect_winding (mkRect a0 a1 a2 a3) (mkPoint x y))]
  | 20, [cx;cy;w;h] => Some (rect_out (rect_from_center_size (mkPoint cx cy) (mkSize w h)))
  | 21, [a0;a1;a2;a3;x;y] => Some (rect_out (rect_with_origin (mkRect a0 a1 a2 a3) (mkPoint x y)))
  | 22, [a0;a1;a2;a3;w;h] => Some (rect_out (rect_with_size (mkRect a0 a1 a2 a3) (mkSize w h)))
  | 23, [a0;a1;a2;a3] => let r := mkRect a0 a1 a2 a3 in
        Some ([rect_width r; rect_height r; rect_area r; rect_perimeter r; rect_min_x r; rect_max_x r;
               rect_min_y r; rect_max_y r] ++ pt_out (rect_center r) ++ [b2f (rect_is_zero_area r)])
  | _, _ => None
  end.

Definition tol (op : Z) : option float := None.

Definition failures := Corr.failures eval tol.
Definition outputs := Corr.outputs eval.
