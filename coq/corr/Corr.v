(** Shared machinery of the correspondence check.

    The harness runs the compiled crate and writes, per case, an operation number,
    the flat list of binary64 inputs and the flat list of binary64 outputs it observed
    (booleans and small integers are encoded as 0/1 and as integral floats).
    [failures] re-runs every case on the F64 instance of the model *inside Coq* and
    returns the indices that disagree; the driver only has to look for [= []]. *)

From Coq Require Import ZArith Floats List Bool.
From KV Require Import Scalar F64.
Import ListNotations.
Local Open Scope float_scope.

Record case := mkCase { c_op : Z; c_args : list float; c_exp : list float }.

Fixpoint all2 (f : float -> float -> bool) (a b : list float) : bool :=
  match a, b with
  | [], [] => true
  | x :: a', y :: b' => f x y && all2 f a' b'
  | _, _ => false
  end.

Section Check.
Variable eval : Z -> list float -> option (list float).
(* None: compare exactly (numerically, -0 = 0, NaN = NaN); Some t: relative/absolute tolerance t *)
Variable tol : Z -> option float.

Definition check (c : case) : bool :=
  match eval (c_op c) (c_args c) with
  | None => false
  | Some out =>
      match tol (c_op c) with
      | None => all2 F.same out (c_exp c)
      | Some t => all2 (F.close t) out (c_exp c)
      end
  end.

Fixpoint failures_from (i : Z) (cs : list case) : list Z :=
  match cs with
  | [] => []
  | c :: cs' => if check c then failures_from (i + 1) cs' else i :: failures_from (i + 1) cs'
  end.

Definition failures (start : Z) (cs : list case) : list Z := failures_from start cs.

(* what the model computed, for the replay file *)
Definition outputs (cs : list case) : list (option (list float)) :=
  map (fun c => eval (c_op c) (c_args c)) cs.
End Check.

Definition b2f (b : bool) : float := if b then 1 else 0.
Definition z2f (z : Z) : float := F.ofZ z.
