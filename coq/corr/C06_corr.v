(** Correspondence glue for C06 (also used by C02): curve operations at F64. *)
From Coq Require Import ZArith Floats List Bool.
From KV Require Import Scalar F64 Geom Curves Corr.
Import ListNotations.
Local Open Scope Z_scope.

Definition pt_out (p : Point float) : list float := [px p; py p].
Definition line_out (l : Line float) := pt_out (l0 l) ++ pt_out (l1 l).
Definition quad_out (q : QuadBez float) := pt_out (q0 q) ++ pt_out (q1 q) ++ pt_out (q2 q).
Definition cubic_out (c : CubicBez float) := pt_out (c0 c) ++ pt_out (c1 c) ++ pt_out (c2 c) ++ pt_out (c3 c).
Definition seg_out (s : PathSeg float) : list float :=
  match s with
  | SegLine l => 1%float :: line_out l
  | SegQuad q => 2%float :: quad_out q
  | SegCubic c => 3%float :: cubic_out c
  end.

(* a segment is passed as kind (1,2,3) followed by exactly its control points *)
Definition seg_in (a : list float) : option (PathSeg float * list float) :=
  match a with
  | k :: x0 :: y0 :: x1 :: y1 :: r =>
      if PrimFloat.eqb k 1 then Some (SegLine (mkLine (mkPoint x0 y0) (mkPoint x1 y1)), r)
      else match r with
      | x2 :: y2 :: r2 =>
          if PrimFloat.eqb k 2 then Some (SegQuad (mkQuad (mkPoint x0 y0) (mkPoint x1 y1) (mkPoint x2 y2)), r2)
          else match r2 with
          | x3 :: y3 :: r3 =>
              if PrimFloat.eqb k 3 then
                Some (SegCubic (mkCubic (mkPoint x0 y0) (mkPoint x1 y1) (mkPoint x2 y2) (mkPoint x3 y3)), r3)
              else None
          | _ => None
          end
      | _ => None
      end
  | _ => None
  end.

Definition eval (op : Z) (a : list float) : option (list float) :=
  match seg_in a with
  | None => None
  | Some (s, r) =>
      match op, r with
      | 1, [t] => Some (pt_out (seg_eval s t))
      | 2, [t0; t1] => Some (seg_out (seg_subsegment s t0 t1))
      | 3, [] => (* subdivide: concrete types override it; PathSeg uses the provided method *)
          Some (match s with
                | SegLine l => let '(a, b) := line_subdivide l in line_out a ++ line_out b
                | SegQuad q => let '(a, b) := quad_subdivide q in quad_out a ++ quad_out b
                | SegCubic c => let '(a, b) := cubic_subdivide c in cubic_out a ++ cubic_out b
                end)
      | 4, [] => let '(a, b) := seg_subdivide s in Some (seg_out a ++ seg_out b)
      | 5, [] => Some (pt_out (seg_start s) ++ pt_out (seg_end s))       (* PathSeg::start/end *)
      | 6, [] => Some (match s with                                      (* concrete start/end *)
                       | SegLine l => pt_out (line_start l) ++ pt_out (line_end l)
                       | SegQuad q => pt_out (quad_start q) ++ pt_out (quad_end q)
                       | SegCubic c => pt_out (cubic_start c) ++ pt_out (cubic_end c)
                       end)
      | 7, [] => Some (match s with                                      (* deriv *)
                       | SegLine l => pt_out (line_deriv l)
                       | SegQuad q => line_out (quad_deriv q)
                       | SegCubic c => quad_out (cubic_deriv c)
                       end)
      | 8, [] => Some (seg_out (seg_reverse s))
      | 9, [] => Some (cubic_out (seg_to_cubic s))
      | 10, [] => Some [seg_signed_area s]
      | 11, [] => Some (match s with SegQuad q => cubic_out (quad_raise q) | _ => [] end)
      | _, _ => None
      end
  end.

Definition tol (op : Z) : option float := None.
Definition failures := Corr.failures eval tol.
Definition outputs := Corr.outputs eval.
