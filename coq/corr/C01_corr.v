(** Correspondence glue for C01: extrema, monotone pieces, the per-piece ray cast and the
    path winding number / containment at F64. *)
From Coq Require Import ZArith Floats List Bool.
From KV Require Import Scalar F64 Geom Curves Path Solvers Winding Corr.
From KV Require C06_corr.
Import ListNotations.
Local Open Scope Z_scope.

Definition pt_out := C06_corr.pt_out.
Definition seg_out := C06_corr.seg_out.
Definition seg_in := C06_corr.seg_in.

(** element decoder, the inverse of [enc_els] in harness/src/geom.rs:
    0 MoveTo x y | 1 LineTo x y | 2 QuadTo x1 y1 x2 y2 | 3 CurveTo (6 floats) | 4 ClosePath. *)
Fixpoint els_in (a : list float) : option (list (PathEl float)) :=
  match a with
  | [] => Some []
  | k :: r =>
      if PrimFloat.eqb k 4 then option_map (cons ClosePath) (els_in r)
      else match r with
      | x0 :: y0 :: r1 =>
          if PrimFloat.eqb k 0 then option_map (cons (MoveTo (mkPoint x0 y0))) (els_in r1)
          else if PrimFloat.eqb k 1 then option_map (cons (LineTo (mkPoint x0 y0))) (els_in r1)
          else match r1 with
          | x1 :: y1 :: r2 =>
              if PrimFloat.eqb k 2 then
                option_map (cons (QuadTo (mkPoint x0 y0) (mkPoint x1 y1))) (els_in r2)
              else match r2 with
              | x2 :: y2 :: r3 =>
                  if PrimFloat.eqb k 3 then
                    option_map (cons (CurveTo (mkPoint x0 y0) (mkPoint x1 y1) (mkPoint x2 y2))) (els_in r3)
                  else None
              | _ => None
              end
          | _ => None
          end
      | _ => None
      end
  end.

Definition len_out {A : Type} (l : list A) : float := z2f (Z.of_nat (length l)).

(* [1; w], or [0] when the implementation panics (leading ClosePath) *)
Definition ow_out (r : option Z) : list float :=
  match r with Some w => [1%float; z2f w] | None => [0%float] end.
Definition ob_out (r : option bool) : list float :=
  match r with Some b => [1%float; b2f b] | None => [0%float] end.

(* ops 1-7: the required behaviour (model with [fx = true], = the code with proposed_fixes/C01-*.diff);
   ops 11,14,15,16,17: the same operations on the model of the pinned tree ([fx = false]); the harness emits
   them instead of 1,4,5,6,7 when run with KV_C01_PINNED=1 (development aid: shows that the model the
   [..._refuted] facts are about is the pinned code). *)
Definition eval (op : Z) (a : list float) : option (list float) :=
  let fx := op <? 10 in
  let op := if fx then op else op - 10 in
  match op with
  | 5 | 6 =>
      match a with
      | x :: y :: r =>
          match els_in r with
          | None => None
          | Some els =>
              let p := mkPoint x y in
              if op =? 5 then Some (ow_out (path_winding_gen fx els p))        (* Shape::winding *)
              else Some (ob_out (path_contains_gen fx els p))                  (* Shape::contains *)
          end
      | _ => None
      end
  | _ =>
      match seg_in a with
      | None => None
      | Some (s, r) =>
          match op, r with
          | 1, [x; y] => Some [z2f (winding_inner_gen fx s (mkPoint x y))]   (* PathSeg::winding_inner (hook) *)
          | 2, [] => let e := w_seg_extrema s in Some (len_out e :: e)        (* ParamCurveExtrema::extrema *)
          | 3, [] =>                                                          (* extrema_ranges *)
              let rs := w_extrema_ranges s in
              Some (len_out rs :: flat_map (fun r => [fst r; snd r]) rs)
          | 4, [] =>                                                          (* extrema_ranges + subsegment *)
              let ps := w_subpieces s in
              Some (len_out ps :: flat_map seg_out ps)
          | 7, [x; y] => Some [z2f (seg_winding_gen fx s (mkPoint x y))]     (* PathSeg::winding, via a one-segment path *)
          | _, _ => None
          end
      end
  end.

Definition tol (op : Z) : option float := None.
Definition failures := Corr.failures eval tol.
Definition outputs := Corr.outputs eval.
