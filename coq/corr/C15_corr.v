(** Correspondence glue for C15: the solvers of common.rs at F64.
    Variable-length results are encoded with a length prefix; [Option] with a 0/1 prefix. *)
From Coq Require Import ZArith Floats List Bool.
From KV Require Import Scalar F64 Solvers Corr.
Import ListNotations.
Local Open Scope Z_scope.

Definition len_out (l : list float) : list float := z2f (Z.of_nat (length l)) :: l.
Definition opt_out (o : option (list float)) : list float :=
  match o with None => [0%float] | Some l => 1%float :: l end.
Definition f2b (x : float) : bool := negb (PrimFloat.eqb x 0).

(* the function family for solve_itp: p0 + x*(p1 + x*(p2 + x*p3)), exact operations only *)
Definition poly3 (p0 p1 p2 p3 x : float) : float :=
  (p0 + x * (p1 + x * (p2 + x * p3)))%float.

Definition eval (op : Z) (a : list float) : option (list float) :=
  match op, a with
  | 1, [c0; c1; c2] => Some (len_out (solve_quadratic c0 c1 c2))
  | 2, [c0; c1; c2; c3] => Some (len_out (solve_cubic c0 c1 c2 c3))          (* values, tolerance *)
  | 3, [c0; c1; c2; c3] => Some [z2f (Z.of_nat (length (solve_cubic c0 c1 c2 c3)))] (* count only, exact *)
  | 4, [c0; c1; c2; c3] => Some (len_out (solve_cubic c0 c1 c2 c3))          (* exact paths: delegation, d = 0 *)
  | 5, [raw; x] => Some [eps_rel raw x]
  | 6, [g; h] => Some [depressed_cubic_dominant g h]
  | 7, [x; b; c; d; r] =>
      Some (opt_out (match factor_quartic_inner x b c d (f2b r) with
                     | Some ((a1, b1), (a2, b2)) => Some [a1; b1; a2; b2]
                     | None => None end))
  | 8, [x; b; c; d; r] =>
      Some (opt_out (match solve_quartic_inner x b c d (f2b r) with
                     | Some l => Some (len_out l) | None => None end))
  | 9, [c0; c1; c2; c3; c4] => Some (len_out (solve_quartic c0 c1 c2 c3 c4))
  | 10, [c0; c1; c2; c3; c4] => Some [z2f (Z.of_nat (length (solve_quartic c0 c1 c2 c3 c4)))]
  | 11, [p0; p1; p2; p3; x; b; eps; n0; k1; ya; yb; iters] =>
      (* iters = number of loop iterations the implementation made (work counter):
         the model must succeed with exactly that much fuel and run dry with one less *)
      let n := Z.to_nat (F.to_usize iters) in
      let run fuel := solve_itp fuel (poly3 p0 p1 p2 p3) x b eps (F.to_usize n0) k1 ya yb in
      Some (opt_out (match run n with Some r => Some [r] | None => None end) ++
            [b2f (match n with O => true | S m => match run m with None => true | Some _ => false end end)])
  | 12, [x; b; eps] => Some [z2f (itp_n1_2 x b eps)]
  | _, _ => None
  end.

(* tolerance for everything that reaches cbrt / atan2 / sin / cos / acos *)
Definition tol (op : Z) : option float :=
  match op with
  | 2 | 6 | 7 | 8 | 9 => Some 0x1.12e0be826d695p-30%float   (* 1e-9 *)
  | _ => None
  end.
Definition failures := Corr.failures eval tol.
Definition outputs := Corr.outputs eval.
