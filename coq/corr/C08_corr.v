(** Correspondence glue for C08: extrema, extrema ranges, bounding boxes, control box at F64.

    Encodings (harness/src/geom.rs [enc_seg], [enc_els]):
      segment   1 p0 p1 | 2 p0 p1 p2 | 3 p0 p1 p2 p3
      element   0 x y | 1 x y | 2 x1 y1 x2 y2 | 3 x1 y1 x2 y2 x3 y3 | 4
    A variable-length result carries a length prefix; a rectangle is x0 y0 x1 y1; a result of a
    call that may panic is [0] (panicked) or 1 :: value.

    ops (all exact)
      1  segment         concrete type's [extrema()]                 (Line / QuadBez / CubicBez)
      2  segment         [PathSeg::extrema()]
      3  segment         the same against the model variant [seg_extrema_lin] (linear block of
                         solve_quadratic taken exactly when the leading coefficient is zero)
      4  segment         [PathSeg::extrema_ranges()]   (n; t0 t1 pairs)
      5  segment         [ParamCurveExtrema::bounding_box(&PathSeg)]
      6  segment         concrete type's [Shape::bounding_box()]
      7  segment         op 5 against the [_lin] variant
      8  elements        [Shape::bounding_box] of the BezPath and of the element slice (two rects)
      9  elements        the same for a list that may start with ClosePath / not with MoveTo (slice only)
      10 elements        [BezPath::control_box()]
      11 elements        op 8 against the [_lin] variant *)
From Coq Require Import ZArith Floats List Bool.
From KV Require Import Scalar F64 Geom Curves Rect Path Solvers Extrema Corr C06_corr.
Import ListNotations.
Local Open Scope Z_scope.

Notation El := (PathEl float).
Definition P (x y : float) : Point float := mkPoint x y.

Definition dec_el (a : list float) : option (El * list float) :=
  match a with
  | k :: r =>
      if PrimFloat.eqb k 4 then Some (ClosePath, r) else
      match r with
      | x :: y :: r1 =>
          if PrimFloat.eqb k 0 then Some (MoveTo (P x y), r1)
          else if PrimFloat.eqb k 1 then Some (LineTo (P x y), r1)
          else match r1 with
          | x2 :: y2 :: r2 =>
              if PrimFloat.eqb k 2 then Some (QuadTo (P x y) (P x2 y2), r2)
              else match r2 with
              | x3 :: y3 :: r3 =>
                  if PrimFloat.eqb k 3 then Some (CurveTo (P x y) (P x2 y2) (P x3 y3), r3) else None
              | _ => None
              end
          | _ => None
          end
      | _ => None
      end
  | [] => None
  end.

Fixpoint dec_els (fuel : nat) (a : list float) : option (list El) :=
  match a with
  | [] => Some []
  | _ =>
      match fuel with
      | O => None
      | S f =>
          match dec_el a with
          | None => None
          | Some (e, r) => match dec_els f r with Some l => Some (e :: l) | None => None end
          end
      end
  end.

Definition len_out (l : list float) : list float := z2f (Z.of_nat (length l)) :: l.
Definition rect_out (r : Rect float) : list float := [rx0 r; ry0 r; rx1 r; ry1 r].
Definition opt_rect_out (o : option (Rect float)) : list float :=
  match o with None => [0%float] | Some r => 1%float :: rect_out r end.
Definition ranges_out (l : list (float * float)) : list float :=
  z2f (Z.of_nat (length l)) :: flat_map (fun ab => [fst ab; snd ab]) l.

Definition eval_seg (op : Z) (s : PathSeg float) : option (list float) :=
  match op with
  | 1 => Some (len_out (match s with
                        | SegLine l => line_extrema l
                        | SegQuad q => quad_extrema q
                        | SegCubic c => cubic_extrema c
                        end))
  | 2 => Some (len_out (seg_extrema s))
  | 3 => Some (len_out (seg_extrema_lin s))
  | 4 => Some (ranges_out (extrema_ranges (seg_extrema s)))
  | 5 => Some (rect_out (seg_bounding_box s))
  | 6 => Some (rect_out (match s with
                         | SegLine l => line_bounding_box l
                         | SegQuad q => quad_bounding_box q
                         | SegCubic c => cubic_bounding_box c
                         end))
  | 7 => Some (rect_out (seg_bounding_box_lin s))
  | _ => None
  end.

Definition eval (op : Z) (a : list float) : option (list float) :=
  if op <=? 7 then
    match seg_in a with
    | Some (s, []) => eval_seg op s
    | _ => None
    end
  else
    match dec_els (length a) a with
    | None => None
    | Some els =>
        match op with
        | 8 => Some (opt_rect_out (path_bounding_box els) ++ opt_rect_out (path_bounding_box els))
        | 9 => Some (opt_rect_out (path_bounding_box els))
        | 10 => Some (rect_out (control_box els))
        | 11 => Some (opt_rect_out (path_bounding_box_lin els) ++ opt_rect_out (path_bounding_box_lin els))
        | _ => None
        end
    end.

Definition tol (op : Z) : option float := None.
Definition failures := Corr.failures eval tol.
Definition outputs := Corr.outputs eval.
