(** Correspondence glue for C17: cubic-to-quadratic conversion at F64. *)
From Coq Require Import ZArith Floats List Bool.
From KV Require Import Scalar F64 Geom Curves ToQuads Corr.
Import ListNotations.
Local Open Scope Z_scope.

Definition pt_out (p : Point float) : list float := [px p; py p].
Definition quad_out (q : QuadBez float) := pt_out (q0 q) ++ pt_out (q1 q) ++ pt_out (q2 q).
Definition cubic_out (c : CubicBez float) := pt_out (c0 c) ++ pt_out (c1 c) ++ pt_out (c2 c) ++ pt_out (c3 c).
Definition piece_out (p : float * float * QuadBez float) : list float :=
  let '(t0, t1, q) := p in t0 :: t1 :: quad_out q.

Definition cubic_in (a : list float) : option (CubicBez float * list float) :=
  match a with
  | x0 :: y0 :: x1 :: y1 :: x2 :: y2 :: x3 :: y3 :: r =>
      Some (mkCubic (mkPoint x0 y0) (mkPoint x1 y1) (mkPoint x2 y2) (mkPoint x3 y3), r)
  | _ => None
  end.

Fixpoint cubics_in (k : nat) (a : list float) : option (list (CubicBez float)) :=
  match k with
  | O => match a with [] => Some [] | _ => None end
  | S k' =>
      match cubic_in a with
      | None => None
      | Some (c, r) => match cubics_in k' r with None => None | Some cs => Some (c :: cs) end
      end
  end.

Fixpoint pts_in (a : list float) : option (list (Point float)) :=
  match a with
  | [] => Some []
  | x :: y :: r => match pts_in r with None => None | Some ps => Some (mkPoint x y :: ps) end
  | _ => None
  end.

Definition nat_of (x : float) : nat := Z.to_nat (F.to_usize x).
Definition len_f {A} (l : list A) : float := z2f (Z.of_nat (length l)).

(* recursion depth allowed to [fit_inside]; running out is a disagreement *)
Definition FUEL : nat := 64%nat.

Definition spline_pts_out (s : list (Point float)) : list float := len_f s :: flat_map pt_out s.

Definition spline_out (r : option (option (list (Point float)))) : option (list float) :=
  match r with
  | None => None
  | Some None => Some [0%float]
  | Some (Some s) => Some (1%float :: spline_pts_out s)
  end.

Definition eval (op : Z) (a : list float) : option (list float) :=
  match op with
  | 10 =>
      match a with
      | acc :: k :: r =>
          match cubics_in (nat_of k) r with
          | None => None
          | Some cs =>
              match cubics_to_quadratic_splines FUEL cs acc with
              | None => None
              | Some None => Some [0%float]
              | Some (Some ss) => Some (1%float :: len_f ss :: flat_map spline_pts_out ss)
              end
          end
      | _ => None
      end
  | 11 =>
      match pts_in a with
      | None => None
      | Some ps => let qs := quadspline_to_quads ps in Some (len_f qs :: flat_map quad_out qs)
      end
  | _ =>
      match cubic_in a with
      | None => None
      | Some (c, r) =>
          match op, r with
          | 1, [acc] => Some [z2f (to_quads_count c acc)]
          | 2, [n] => Some (flat_map piece_out (to_quads_n c (nat_of n)))
          | 3, [n; i] => Some (piece_out (to_quads_piece c (F.to_usize n) (F.to_usize i)))
          | 4, [t] => Some (pt_out (approx_quad_control c t))
          | 5, [] => let '(l, m, r) := cubic_subdivide_3 c in Some (cubic_out l ++ cubic_out m ++ cubic_out r)
          | 6, [n] => let cs := split_into_n c (nat_of n) in Some (len_f cs :: flat_map cubic_out cs)
          | 7, [d] => match fit_inside FUEL c d with None => None | Some b => Some [b2f b] end
          | 8, [n; acc] => spline_out (approx_spline_n FUEL c (nat_of n) acc)
          | 9, [acc] => spline_out (approx_spline FUEL c acc)
          | _, _ => None
          end
      end
  end.

(* the piece count goes through powf (libm): tolerance, generic inputs only *)
Definition tol (op : Z) : option float :=
  match op with 1 => Some 0x1.12e0be826d695p-30%float (* 1e-9 *) | _ => None end.
Definition failures := Corr.failures eval tol.
Definition outputs := Corr.outputs eval.
