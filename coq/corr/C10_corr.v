(** Correspondence glue for C10: shape outlines at F64.
    Element lists are encoded as in harness/src/geom.rs [enc_els]:
    0 MoveTo x y | 1 LineTo x y | 2 QuadTo x1 y1 x2 y2 | 3 CurveTo (6 floats) | 4 ClosePath. *)
From Coq Require Import ZArith Floats List Bool.
From KV Require Import Scalar F64 Geom Curves Rect Affine Path ShapeTypes ShapePaths Corr.
Import ListNotations.
Local Open Scope Z_scope.

Definition pt_out (p : Point float) : list float := [px p; py p].
Definition el_out (e : PathEl float) : list float :=
  match e with
  | MoveTo p => 0%float :: pt_out p
  | LineTo p => 1%float :: pt_out p
  | QuadTo p1 p2 => 2%float :: pt_out p1 ++ pt_out p2
  | CurveTo p1 p2 p3 => 3%float :: pt_out p1 ++ pt_out p2 ++ pt_out p3
  | ClosePath => [4%float]
  end.
Definition els_out (els : list (PathEl float)) : list float := flat_map el_out els.

Definition seg_out (s : PathSeg float) : list float :=
  match s with
  | SegLine l => 1%float :: pt_out (l0 l) ++ pt_out (l1 l)
  | SegQuad q => 2%float :: pt_out (q0 q) ++ pt_out (q1 q) ++ pt_out (q2 q)
  | SegCubic c => 3%float :: pt_out (c0 c) ++ pt_out (c1 c) ++ pt_out (c2 c) ++ pt_out (c3 c)
  end.
Definition segs_out (o : option (list (PathSeg float))) : option (list float) :=
  match o with Some l => Some (flat_map seg_out l) | None => None end.

Definition is_draw_f (e : PathEl float) : bool :=
  match e with CurveTo _ _ _ => true | _ => false end.

(** count of curve pieces, first point, last on-curve point, kind of the last element *)
Definition summary (els : list (PathEl float)) : list float :=
  let n := z2f (Z.of_nat (length (filter is_draw_f els))) in
  let first := match els with MoveTo p :: _ => pt_out p | _ => [nan; nan] end in
  let lastp := match rev (filter is_draw_f els) with CurveTo _ _ p :: _ => pt_out p | _ => [nan; nan] end in
  let closed := match rev els with ClosePath :: _ => 1%float | _ => 0%float end in
  n :: first ++ lastp ++ [closed].

Definition eval (op : Z) (a : list float) : option (list float) :=
  match op, a with
  | 1, [cx; cy; r; tol] => Some (els_out (circle_path_elements (mkCircle (mkPoint cx cy) r) tol))
  | 2, [cx; cy; rx; ry; st; sw; rot; tol] =>
      Some (els_out (arc_append_elements (mkArc (mkPoint cx cy) (mkVec2 rx ry) st sw rot) tol))
  | 3, [cx; cy; rx; ry; st; sw; rot; tol] =>
      Some (els_out (arc_path_elements (mkArc (mkPoint cx cy) (mkVec2 rx ry) st sw rot) tol))
  | 4, [ma; mb; mc; md; me; mf; tol] =>
      Some (els_out (ellipse_path_elements (mkEllipse (mkAffine ma mb mc md me mf)) tol))
  | 5, [cx; cy; rx; ry; rot; tol] =>
      Some (els_out (ellipse_path_elements (ellipse_new (mkPoint cx cy) (mkVec2 rx ry) rot) tol))
  | 6, [x0; y0; x1; y1; tl; tr; br; bl; tol] =>
      Some (els_out (rounded_rect_path_elements
                       (rounded_rect_from_rect (mkRect x0 y0 x1 y1) (mkRadii tl tr br bl)) tol))
  | 7, [cx; cy; ro; ri; st; sw; tol] =>
      Some (els_out (circle_segment_path_elements (mkCircleSegment (mkPoint cx cy) ro ri st sw) tol))
  | 8, [x0; y0; x1; y1] => Some (els_out (rect_path_elements (mkRect x0 y0 x1 y1)))
  | 9, [ax; ay; bx; by_; cx; cy] =>
      Some (els_out (triangle_path_elements (mkTriangle (mkPoint ax ay) (mkPoint bx by_) (mkPoint cx cy))))
  | 10, [x0; y0; x1; y1] => Some (els_out (line_path_elements (mkLine (mkPoint x0 y0) (mkPoint x1 y1))))
  | 11, [x0; y0; x1; y1; x2; y2] =>
      Some (els_out (quad_path_elements (mkQuad (mkPoint x0 y0) (mkPoint x1 y1) (mkPoint x2 y2))))
  | 12, [x0; y0; x1; y1; x2; y2; x3; y3] =>
      Some (els_out (cubic_path_elements (mkCubic (mkPoint x0 y0) (mkPoint x1 y1) (mkPoint x2 y2) (mkPoint x3 y3))))
  | 13, [k; x0; y0; x1; y1] =>                                   (* PathSeg::Line as a Shape *)
      Some (els_out (seg_path_elements (SegLine (mkLine (mkPoint x0 y0) (mkPoint x1 y1)))))
  | 13, [k; x0; y0; x1; y1; x2; y2] =>
      Some (els_out (seg_path_elements (SegQuad (mkQuad (mkPoint x0 y0) (mkPoint x1 y1) (mkPoint x2 y2)))))
  | 13, [k; x0; y0; x1; y1; x2; y2; x3; y3] =>
      Some (els_out (seg_path_elements
                       (SegCubic (mkCubic (mkPoint x0 y0) (mkPoint x1 y1) (mkPoint x2 y2) (mkPoint x3 y3)))))
  | 14, [x0; y0; x1; y1] => segs_out (path_segments_of (rect_path_elements (mkRect x0 y0 x1 y1)))
  | 15, [rx; ry; rot; ang] => let v := sample_ellipse (mkVec2 rx ry) rot ang in Some [vx v; vy v]
  | 16, [x; y; ang] => let v := rotate_pt (mkVec2 x y) ang in Some [vx v; vy v]
  | 17, [cx; cy; rx; ry; st; sw; rot; tol] =>
      Some (flat_map (fun t => match t with (p1, p2, p3) => pt_out p1 ++ pt_out p2 ++ pt_out p3 end)
                     (arc_to_cubic_beziers (mkArc (mkPoint cx cy) (mkVec2 rx ry) st sw rot) tol))
  | 18, [x0; y0; x1; y1; tl; tr; br; bl] =>                      (* exact part of the rounded rect *)
      let rr := rounded_rect_from_rect (mkRect x0 y0 x1 y1) (mkRadii tl tr br bl) in
      let r := rr_rect rr in let q := rr_radii rr in
      Some ([rx0 r; ry0 r; rx1 r; ry1 r; r_top_left q; r_top_right q; r_bottom_right q; r_bottom_left q]
            ++ els_out (rr_rect_elements rr))
  | 19, [cx; cy; r; tol] =>                                      (* exact part of the circle *)
      Some (summary (circle_path_elements (mkCircle (mkPoint cx cy) r) tol))
  | 20, [cx; cy; r; tol] =>
      segs_out (path_segments_of (circle_path_elements (mkCircle (mkPoint cx cy) r) tol))
  | 21, [x0; y0; x1; y1; tl; tr; br; bl; tol] =>                 (* structure of the rounded rect *)
      let els := rounded_rect_path_elements
                   (rounded_rect_from_rect (mkRect x0 y0 x1 y1) (mkRadii tl tr br bl)) tol in
      Some (map (fun e => match el_out e with k :: _ => k | [] => nan end) els)
  | 22, [ax; ay; bx; by_; cx; cy] =>
      segs_out (path_segments_of
                  (triangle_path_elements (mkTriangle (mkPoint ax ay) (mkPoint bx by_) (mkPoint cx cy))))
  | _, _ => None
  end.

(* everything that reaches sin/cos/tan/powf/atan2 is compared to 1e-9; the rest exactly *)
Definition tol (op : Z) : option float :=
  match op with
  | 1 | 2 | 3 | 4 | 5 | 6 | 7 | 15 | 16 | 17 | 20 => Some 0x1.12e0be826d695p-30%float
  | _ => None
  end.

Definition failures := Corr.failures eval tol.
Definition outputs := Corr.outputs eval.
