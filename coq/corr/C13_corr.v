(** Correspondence glue for C13: the dash iterator at F64.

    Argument layout (all ops): [np; d_1 .. d_np; offset; <elements>] with the elements
    encoded as in harness/src/geom.rs [enc_els]
      0 MoveTo x y | 1 LineTo x y | 2 QuadTo x1 y1 x2 y2 | 3 CurveTo (6) | 4 ClosePath.
    Ops 3/13 (curved paths, structure only) append, after the elements, a marker 9 and a
    table of (curve segment as kind+control points, arclen observed on the implementation).

    Output: [ticks; n; <emitted elements, same encoding>]   (ops 1 2 11 12; 11/12 without ticks)
            [n; kind_1 .. kind_n]                           (ops 3 13: the work counter is shared
                                                             with solve_itp/arclen_rec there)
    Ops 1-3 run the four-state machine model/Dash.v; ops 11-13 run the structural
    specification spec/DashSpec.v, which the theorems are stated about, on the same cases. *)
From Coq Require Import ZArith Floats List Bool Arith.
From KV Require Import Scalar F64 Geom Curves Path Dash DashSpec Corr.
Import ListNotations.
Local Open Scope Z_scope.

Definition FUEL : nat := Z.to_nat 20000.

Definition pt_out (p : Point float) : list float := [px p; py p].

Definition el_out (e : PathEl float) : list float :=
  match e with
  | MoveTo p => 0%float :: pt_out p
  | LineTo p => 1%float :: pt_out p
  | QuadTo a b => 2%float :: pt_out a ++ pt_out b
  | CurveTo a b c => 3%float :: pt_out a ++ pt_out b ++ pt_out c
  | ClosePath => [4%float]
  end.
Definition el_kind (e : PathEl float) : float :=
  match e with MoveTo _ => 0 | LineTo _ => 1 | QuadTo _ _ => 2 | CurveTo _ _ _ => 3 | ClosePath => 4 end%float.

Definition els_out (es : list (PathEl float)) : list float := flat_map el_out es.

Definition nat2f (n : nat) : float := z2f (Z.of_nat n).

(* decode elements up to the end of the list or the marker 9; returns the rest after the marker *)
Fixpoint dec_els (fuel : nat) (a : list float) : option (list (PathEl float) * list float) :=
  match fuel with
  | O => None
  | S f =>
      match a with
      | [] => Some ([], [])
      | k :: r =>
          if PrimFloat.eqb k 9 then Some ([], r)
          else if PrimFloat.eqb k 4 then
            match dec_els f r with Some (es, t) => Some (ClosePath :: es, t) | None => None end
          else match r with
          | x :: y :: r1 =>
              if PrimFloat.eqb k 0 then
                match dec_els f r1 with Some (es, t) => Some (MoveTo (mkPoint x y) :: es, t) | None => None end
              else if PrimFloat.eqb k 1 then
                match dec_els f r1 with Some (es, t) => Some (LineTo (mkPoint x y) :: es, t) | None => None end
              else match r1 with
              | x2 :: y2 :: r2 =>
                  if PrimFloat.eqb k 2 then
                    match dec_els f r2 with
                    | Some (es, t) => Some (QuadTo (mkPoint x y) (mkPoint x2 y2) :: es, t) | None => None end
                  else match r2 with
                  | x3 :: y3 :: r3 =>
                      if PrimFloat.eqb k 3 then
                        match dec_els f r3 with
                        | Some (es, t) => Some (CurveTo (mkPoint x y) (mkPoint x2 y2) (mkPoint x3 y3) :: es, t)
                        | None => None end
                      else None
                  | _ => None
                  end
              | _ => None
              end
          | _ => None
          end
      end
  end.

Fixpoint take_n (n : nat) (a : list float) : option (list float * list float) :=
  match n with
  | O => Some ([], a)
  | S k => match a with
           | [] => None
           | x :: r => match take_n k r with Some (l, t) => Some (x :: l, t) | None => None end
           end
  end.

(* [np; d..; offset; rest] *)
Definition dec_head (a : list float) : option (list float * float * list float) :=
  match a with
  | np :: r =>
      match take_n (Z.to_nat (F.to_usize np)) r with
      | Some (ds, off :: rest) => Some (ds, off, rest)
      | _ => None
      end
  | [] => None
  end.

(** the arclen table of ops 3/13: entries [kind; control points...; len] *)
Definition same_pt (p q : Point float) : bool := F.same_bits (px p) (px q) && F.same_bits (py p) (py q).
Definition same_seg (a b : PathSeg float) : bool :=
  match a, b with
  | SegLine x, SegLine y => same_pt (l0 x) (l0 y) && same_pt (l1 x) (l1 y)
  | SegQuad x, SegQuad y => same_pt (q0 x) (q0 y) && same_pt (q1 x) (q1 y) && same_pt (q2 x) (q2 y)
  | SegCubic x, SegCubic y =>
      same_pt (c0 x) (c0 y) && same_pt (c1 x) (c1 y) && same_pt (c2 x) (c2 y) && same_pt (c3 x) (c3 y)
  | _, _ => false
  end.

Fixpoint dec_tbl (fuel : nat) (a : list float) : list (PathSeg float * float) :=
  match fuel with
  | O => []
  | S f =>
      match a with
      | k :: x0 :: y0 :: x1 :: y1 :: x2 :: y2 :: r =>
          if PrimFloat.eqb k 2 then
            match r with
            | len :: r' => (SegQuad (mkQuad (mkPoint x0 y0) (mkPoint x1 y1) (mkPoint x2 y2)), len) :: dec_tbl f r'
            | _ => []
            end
          else match r with
          | x3 :: y3 :: len :: r' =>
              (SegCubic (mkCubic (mkPoint x0 y0) (mkPoint x1 y1) (mkPoint x2 y2) (mkPoint x3 y3)), len) :: dec_tbl f r'
          | _ => []
          end
      | _ => []
      end
  end.

Fixpoint tbl_len (tbl : list (PathSeg float * float)) (s : PathSeg float) : float :=
  match tbl with
  | [] => 0%float
  | (s', len) :: r => if same_seg s s' then len else tbl_len r s
  end.

(* structure only: any inverse will do (it influences positions, never decisions) *)
Definition crude_inv (tbl : list (PathSeg float * float)) (s : PathSeg float) (a : float) : float :=
  F.min 1 (PrimFloat.div a (PrimFloat.add (tbl_len tbl s) 0x1p-200))%float.

Definition run_machine (al : PathSeg float -> float) (ial : PathSeg float -> float -> float)
    (ds : list float) (off : float) (es : list (PathEl float)) : option (nat * list (PathEl float)) :=
  match dash_gen al ial fixes_all ds FUEL off es with
  | DashOk o n => Some (n, o)
  | _ => None
  end.

Definition run_spec (al : PathSeg float -> float) (ial : PathSeg float -> float -> float)
    (ds : list float) (off : float) (es : list (PathEl float)) : option (list (PathEl float)) :=
  dash_spec al ial ds FUEL off es.

Definition eval (op : Z) (a : list float) : option (list float) :=
  match dec_head a with
  | None => None
  | Some (ds, off, rest) =>
      match dec_els (S (length rest)) rest with
      | None => None
      | Some (es, tb) =>
          let tbl := dec_tbl (length tb) tb in
          match op with
          | 1 | 2 =>
              match run_machine poly_arclen poly_inv_arclen ds off es with
              | Some (n, o) => Some (nat2f n :: nat2f (length o) :: els_out o)
              | None => None
              end
          | 3 =>
              match run_machine (seg_arclen (tbl_len tbl)) (seg_inv_arclen (crude_inv tbl)) ds off es with
              | Some (n, o) => Some (nat2f (length o) :: map el_kind o)
              | None => None
              end
          | 11 | 12 =>
              match run_spec poly_arclen poly_inv_arclen ds off es with
              | Some o => Some (nat2f (length o) :: els_out o)
              | None => None
              end
          | 13 =>
              match run_spec (seg_arclen (tbl_len tbl)) (seg_inv_arclen (crude_inv tbl)) ds off es with
              | Some o => Some (nat2f (length o) :: map el_kind o)
              | None => None
              end
          | _ => None
          end
      end
  end.

(* ops 2/12: generic (non axis-aligned) lines, where hypot goes through libm *)
Definition tol (op : Z) : option float :=
  match op with
  | 2 | 12 => Some 0x1.12e0be826d695p-30%float   (* 1e-9 *)
  | _ => None
  end.
Definition failures := Corr.failures eval tol.
Definition outputs := Corr.outputs eval.
