(** Correspondence glue for C05: [flatten] and its helpers at binary64.

    [hypot] and [powf] come from libm and cannot be modelled bit-exactly. Instead of
    comparing up to a tolerance (the vertex *count* of a cubic's run depends on the last bit
    of the sum of the [val]s: the last iteration compares [n * (sum / n)] with [sum]),
    every case carries the table of the libm results the implementation obtained
    ([(x, y, x.hypot(y))] and [(x, 1/6, x.powf(1/6))], recomputed by the harness with the
    same std functions on the same arguments). The model is run on an instance of [Scalar]
    that answers [fhypot]/[fpowf] from that table (a miss yields NaN, hence a mismatch),
    so the comparison is bit-exact in structure and in every coordinate. Op 8 additionally
    runs the plain F64 instance (approximate libm) on generic inputs, up to 1e-9. *)
From Coq Require Import ZArith Floats List Bool.
From KV Require Import Scalar F64 Geom Curves Path Flatten Corr.
Import ListNotations.
Local Open Scope Z_scope.

Definition tbl := list (float * float * float).

Definition lookup2 (t : tbl) (x y : float) : float :=
  match find (fun e => let '(a, b, _) := e in F.same_bits a x && F.same_bits b y) t with
  | Some (_, _, r) => r
  | None => nan
  end.

(** F64 with [fhypot] / [fpowf] answered from the tables *)
Definition F64o (th tp : tbl) : Scalar float := {|
  fadd := PrimFloat.add; fsub := PrimFloat.sub; fmul := PrimFloat.mul; fdiv := PrimFloat.div;
  fneg := PrimFloat.opp; fabs := PrimFloat.abs; fsqrt := PrimFloat.sqrt;
  fmin := F.min; fmax := F.max; ffloor := F.floor; fceil := F.ceil; fround := F.round;
  ftrunc := F.trunc; fsignum := F.signum; fcopysign := F.copysign; ffma := F.fma;
  fltb := PrimFloat.ltb; fleb := PrimFloat.leb; feqb := PrimFloat.eqb;
  fis_finite := F.is_finite; fis_nan := PrimFloat.is_nan; fofZ := F.ofZ;
  flit := fun f _ => f;
  fhypot := lookup2 th;
  fcbrt := F.cbrt; fsin := F.sin; fcos := F.cos; ftan := F.tan; fatan2 := F.atan2;
  facos := F.acos; fln := F.ln;
  fpowf := lookup2 tp;
  fpowi := F.powi; fto_usize := F.to_usize; fpi := F.pi
|}.

(* decoders *)
Fixpoint take_tbl (n : nat) (a : list float) : option (tbl * list float) :=
  match n with
  | O => Some ([], a)
  | S k =>
      match a with
      | x :: y :: r :: a' =>
          match take_tbl k a' with
          | Some (t, rest) => Some ((x, y, r) :: t, rest)
          | None => None
          end
      | _ => None
      end
  end.

Definition f2nat (x : float) : nat := Z.to_nat (F.to_usize x).

(* [n; (x,y,r)*n] *)
Definition tbl_in (a : list float) : option (tbl * list float) :=
  match a with
  | n :: r => take_tbl (f2nat n) r
  | [] => None
  end.

(* elements: 0 MoveTo x y | 1 LineTo x y | 2 QuadTo (4) | 3 CurveTo (6) | 4 ClosePath *)
Fixpoint els_in (fuel : nat) (a : list float) : option (list (PathEl float)) :=
  match fuel with
  | O => None
  | S k =>
      match a with
      | [] => Some []
      | t :: r =>
          if PrimFloat.eqb t 4 then option_map (cons (@ClosePath float)) (els_in k r)
          else match r with
          | x :: y :: r1 =>
              if PrimFloat.eqb t 0 then option_map (cons (MoveTo (mkPoint x y))) (els_in k r1)
              else if PrimFloat.eqb t 1 then option_map (cons (LineTo (mkPoint x y))) (els_in k r1)
              else match r1 with
              | x2 :: y2 :: r2 =>
                  if PrimFloat.eqb t 2 then option_map (cons (QuadTo (mkPoint x y) (mkPoint x2 y2))) (els_in k r2)
                  else match r2 with
                  | x3 :: y3 :: r3 =>
                      if PrimFloat.eqb t 3 then
                        option_map (cons (CurveTo (mkPoint x y) (mkPoint x2 y2) (mkPoint x3 y3))) (els_in k r3)
                      else None
                  | _ => None
                  end
              | _ => None
              end
          | _ => None
          end
      end
  end.

Definition pt_out (p : Point float) : list float := [px p; py p].
Definition quad_out (q : QuadBez float) := pt_out (q0 q) ++ pt_out (q1 q) ++ pt_out (q2 q).

Definition el_out (e : PathEl float) : list float :=
  match e with
  | MoveTo p => 0%float :: pt_out p
  | LineTo p => 1%float :: pt_out p
  | QuadTo a b => 2%float :: pt_out a ++ pt_out b
  | CurveTo a b c => 3%float :: pt_out a ++ pt_out b ++ pt_out c
  | ClosePath => [4%float]
  end.
Definition els_out (es : list (PathEl float)) : list float := flat_map el_out es.

Definition fp_out (p : FlattenParams float) : list float :=
  [fp_a0 p; fp_a2 p; fp_u0 p; fp_uscale p; fp_val p].

(* runaway is reported as the single value -1 *)
Definition opt_els_out (o : option (list (PathEl float))) : list float :=
  match o with Some es => els_out es | None => [(-1)%float] end.

Definition eval (op : Z) (a : list float) : option (list float) :=
  match op, a with
  | 1, [x] => Some [approx_parabola_integral (H := F64) x]
  | 2, [x] => Some [approx_parabola_inv_integral (H := F64) x]
  (* estimate_subdiv: quad, sqrt_tol, table *)
  | 3, x0 :: y0 :: x1 :: y1 :: x2 :: y2 :: st :: r =>
      match tbl_in r with
      | Some (th, []) =>
          let q := mkQuad (mkPoint x0 y0) (mkPoint x1 y1) (mkPoint x2 y2) in
          Some (fp_out (estimate_subdiv (H := F64o th []) q st)
                ++ [z2f (estimate_subdiv_branch (H := F64o th []) q)])
      | _ => None
      end
  (* determine_subdiv_t: quad, sqrt_tol, x, table *)
  | 4, x0 :: y0 :: x1 :: y1 :: x2 :: y2 :: st :: x :: r =>
      match tbl_in r with
      | Some (th, []) =>
          let q := mkQuad (mkPoint x0 y0) (mkPoint x1 y1) (mkPoint x2 y2) in
          Some [determine_subdiv_t (H := F64o th []) (estimate_subdiv (H := F64o th []) q st) x]
      | _ => None
      end
  (* to_quads: cubic, accuracy, powf table -> n, then (t0, t1, quad) per piece *)
  | 5, x0 :: y0 :: x1 :: y1 :: x2 :: y2 :: x3 :: y3 :: acc :: r =>
      match tbl_in r with
      | Some (tp, []) =>
          let c := mkCubic (mkPoint x0 y0) (mkPoint x1 y1) (mkPoint x2 y2) (mkPoint x3 y3) in
          let l := fl_to_quads (H := F64o [] tp) c acc in
          Some (z2f (Z.of_nat (length l))
                :: flat_map (fun e => let '(t0, t1, q) := e in t0 :: t1 :: quad_out q) l)
      | _ => None
      end
  (* whole flatten (required behaviour): tolerance, hypot table, powf table, elements *)
  | 6, t :: r =>
      match tbl_in r with
      | Some (th, r1) =>
          match tbl_in r1 with
          | Some (tp, r2) =>
              match els_in (S (length r2)) r2 with
              | Some els => Some (opt_els_out (flatten (H := F64o th tp) t els))
              | None => None
              end
          | None => None
          end
      | None => None
      end
  (* whole flatten, pinned behaviour (last_pt = None on ClosePath) *)
  | 7, t :: r =>
      match tbl_in r with
      | Some (th, r1) =>
          match tbl_in r1 with
          | Some (tp, r2) =>
              match els_in (S (length r2)) r2 with
              | Some els => Some (opt_els_out (flatten_pinned (H := F64o th tp) t els))
              | None => None
              end
          | None => None
          end
      | None => None
      end
  (* whole flatten on the plain F64 instance (approximate hypot/powf), generic inputs only *)
  | 8, t :: r =>
      match els_in (S (length r)) r with
      | Some els => Some (opt_els_out (flatten (H := F64) t els))
      | None => None
      end
  | _, _ => None
  end.

Definition tol (op : Z) : option float :=
  match op with
  | 8 => Some 0x1.12e0be826d695p-30%float   (* 1e-9 *)
  | _ => None
  end.
Definition failures := Corr.failures eval tol.
Definition outputs := Corr.outputs eval.
