(** Correspondence glue for C04: the polyline stroker at F64.
    args = [width; join (0 bevel, 1 miter, 2 round); miter_limit; start_cap (0 butt, 1 square, 2 round);
            end_cap; tolerance] ++ path elements (0 MoveTo x y | 1 LineTo x y | 4 ClosePath);
    output = the elements of [stroke(path, style, default opts, tolerance)] in the same flat encoding
    (0 MoveTo | 1 LineTo | 3 CurveTo x1 y1 x2 y2 x3 y3 | 4 ClosePath).
    op 1: styles without libm beyond [hypot] on inputs where [hypot] is exact — compared exactly.
    op 2: any style, any input — compared to 1e-9 (sin/cos/tan/atan2/powf/hypot are approximated).
    op 3: [Arc::to_cubic_beziers] of the unit-radius arc the stroker uses (round_join's arc), 1e-9. *)
From Coq Require Import ZArith Floats List Bool.
From KV Require Import Scalar F64 Geom Curves Path Affine Stroke Corr.
Import ListNotations.
Local Open Scope Z_scope.

Definition pt_out (p : Point float) : list float := [px p; py p].

Definition el_out (e : PathEl float) : list float :=
  match e with
  | MoveTo p => 0%float :: pt_out p
  | LineTo p => 1%float :: pt_out p
  | QuadTo p1 p2 => 2%float :: pt_out p1 ++ pt_out p2
  | CurveTo p1 p2 p3 => 3%float :: pt_out p1 ++ pt_out p2 ++ pt_out p3
  | ClosePath => [4%float]
  end.

Definition els_out (els : list (PathEl float)) : list float := flat_map el_out els.

Fixpoint els_in (fuel : nat) (a : list float) : option (list (PathEl float)) :=
  match fuel with
  | O => match a with [] => Some [] | _ => None end
  | S k =>
      match a with
      | [] => Some []
      | c :: r =>
          if PrimFloat.eqb c 4 then option_map (cons ClosePath) (els_in k r)
          else match r with
               | x :: y :: r2 =>
                   if PrimFloat.eqb c 0 then option_map (cons (MoveTo (mkPoint x y))) (els_in k r2)
                   else if PrimFloat.eqb c 1 then option_map (cons (LineTo (mkPoint x y))) (els_in k r2)
                   else match r2 with
                        | x2 :: y2 :: r3 =>
                            if PrimFloat.eqb c 2 then
                              option_map (cons (QuadTo (mkPoint x y) (mkPoint x2 y2))) (els_in k r3)
                            else match r3 with
                                 | x3 :: y3 :: r4 =>
                                     if PrimFloat.eqb c 3 then
                                       option_map (cons (CurveTo (mkPoint x y) (mkPoint x2 y2) (mkPoint x3 y3)))
                                                  (els_in k r4)
                                     else None
                                 | _ => None
                                 end
                        | _ => None
                        end
               | _ => None
               end
      end
  end.

Definition join_in (j : float) : option Join :=
  if PrimFloat.eqb j 0 then Some JoinBevel else if PrimFloat.eqb j 1 then Some JoinMiter
  else if PrimFloat.eqb j 2 then Some JoinRound else None.
Definition cap_in (j : float) : option Cap :=
  if PrimFloat.eqb j 0 then Some CapButt else if PrimFloat.eqb j 1 then Some CapSquare
  else if PrimFloat.eqb j 2 then Some CapRound else None.

Definition cubics_out (cs : list (Point float * Point float * Point float)) : list float :=
  flat_map (fun c => let '(p1, p2, p3) := c in pt_out p1 ++ pt_out p2 ++ pt_out p3) cs.

(* which join the implementation is expected to have: [true] = with proposed_fixes/C04-inner-join-pivot.diff *)
Definition model_inner_pivot : bool := true.

Definition eval (op : Z) (a : list float) : option (list float) :=
  match op, a with
  | 3, [start_angle; sweep; tolerance] =>
      Some (cubics_out (arc_cubics (mkPoint 0 0)%float (mkVec2 1 1)%float start_angle sweep 0%float tolerance))
  | _, w :: j :: ml :: sc :: ec :: tolerance :: path =>
      if (op =? 1) || (op =? 2) then
        match join_in j, cap_in sc, cap_in ec, els_in (length path) path with
        | Some j, Some sc, Some ec, Some els =>
            option_map els_out (stroke_undashed els (mkStyle w j ml sc ec model_inner_pivot) tolerance)
        | _, _, _, _ => None
        end
      else None
  | _, _ => None
  end.

Definition tol (op : Z) : option float := if op =? 1 then None else Some 0x1.12e0be826d695p-30%float.
Definition failures := Corr.failures eval tol.
Definition outputs := Corr.outputs eval.
