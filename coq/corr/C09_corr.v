(** Correspondence glue for C09: [nearest] of lines, quadratics, cubics and PathSeg at F64.

    op  arguments                                   outputs            comparison
     1  line(4) p(2)                                [t; distance_sq]   exact
     2  quad(6) p(2)                                [t]                1e-9   (generic, stable inputs)
     3  quad(6) p(2)                                [distance_sq]      1e-12  (generic, stable inputs)
     4  quad(6) p(2)                                [t; distance_sq]   exact  (paths of solve_cubic without libm:
                                                                       delegation to the quadratic/linear solver, d = 0)
     5  cubic(8) p(2) accuracy                      [t]                1e-9
     6  cubic(8) p(2) accuracy                      [distance_sq]      1e-12
     7  cubic(8) p(2) n                             [t; distance_sq]   exact  (every piece on a libm-free path)
     8  cubic(8) accuracy                           [n]                exact  (piece count; generic inputs)
     9  seg p(2) accuracy                           [t]                1e-9
    10  seg p(2) accuracy                           [distance_sq]      1e-12
    11  cubic(8) p(2) n                             [t]                1e-9   (structured inputs, given count)
    12  cubic(8) p(2) n                             [distance_sq]      1e-12
    op + 20: the same against the repaired model ([quad_nearest_repaired], ...), used when the
    harness finds that the implementation carries proposed_fixes/C09-nearest-degenerate-quad.diff
*)
From Coq Require Import ZArith Floats List Bool.
From KV Require Import Scalar F64 Geom Curves Solvers Nearest Corr C06_corr.
Import ListNotations.
Local Open Scope Z_scope.

Definition pair_out (o : option (float * float)) : option (list float) :=
  match o with Some (t, d) => Some [t; d] | None => None end.
Definition t_out (o : option (float * float)) : option (list float) :=
  match o with Some (t, d) => Some [t] | None => None end.
Definition d_out (o : option (float * float)) : option (list float) :=
  match o with Some (t, d) => Some [d] | None => None end.

Definition mkq (x0 y0 x1 y1 x2 y2 : float) : QuadBez float :=
  mkQuad (mkPoint x0 y0) (mkPoint x1 y1) (mkPoint x2 y2).
Definition mkc (x0 y0 x1 y1 x2 y2 x3 y3 : float) : CubicBez float :=
  mkCubic (mkPoint x0 y0) (mkPoint x1 y1) (mkPoint x2 y2) (mkPoint x3 y3).

(* [rep]: the implementation is the repaired one (proposed_fixes/C09-nearest-degenerate-quad.diff);
   the harness detects this and adds 20 to the operation number *)
Definition qn (rep : bool) := if rep then @quad_nearest_repaired float _ else @quad_nearest float _.
Definition cn (rep : bool) := if rep then @cubic_nearest_repaired float _ else @cubic_nearest float _.
Definition cnn (rep : bool) := if rep then @cubic_nearest_n_repaired float _ else @cubic_nearest_n float _.
Definition sn (rep : bool) := if rep then @seg_nearest_repaired float _ else @seg_nearest float _.

Definition eval_v (rep : bool) (op : Z) (a : list float) : option (list float) :=
  match op, a with
  | 1, [x0; y0; x1; y1; x; y] =>
      let '(t, d) := line_nearest (mkLine (mkPoint x0 y0) (mkPoint x1 y1)) (mkPoint x y) in Some [t; d]
  | 2, [x0; y0; x1; y1; x2; y2; x; y] => t_out (qn rep (mkq x0 y0 x1 y1 x2 y2) (mkPoint x y))
  | 3, [x0; y0; x1; y1; x2; y2; x; y] => d_out (qn rep (mkq x0 y0 x1 y1 x2 y2) (mkPoint x y))
  | 4, [x0; y0; x1; y1; x2; y2; x; y] => pair_out (qn rep (mkq x0 y0 x1 y1 x2 y2) (mkPoint x y))
  | 5, [x0; y0; x1; y1; x2; y2; x3; y3; x; y; acc] =>
      t_out (cn rep (mkc x0 y0 x1 y1 x2 y2 x3 y3) (mkPoint x y) acc)
  | 6, [x0; y0; x1; y1; x2; y2; x3; y3; x; y; acc] =>
      d_out (cn rep (mkc x0 y0 x1 y1 x2 y2 x3 y3) (mkPoint x y) acc)
  | 7, [x0; y0; x1; y1; x2; y2; x3; y3; x; y; n] =>
      pair_out (cnn rep (mkc x0 y0 x1 y1 x2 y2 x3 y3) (mkPoint x y) (Z.to_nat (F.to_usize n)))
  | 8, [x0; y0; x1; y1; x2; y2; x3; y3; acc] =>
      Some [z2f (nr_quads_count (mkc x0 y0 x1 y1 x2 y2 x3 y3) acc)]
  | 11, [x0; y0; x1; y1; x2; y2; x3; y3; x; y; n] =>
      t_out (cnn rep (mkc x0 y0 x1 y1 x2 y2 x3 y3) (mkPoint x y) (Z.to_nat (F.to_usize n)))
  | 12, [x0; y0; x1; y1; x2; y2; x3; y3; x; y; n] =>
      d_out (cnn rep (mkc x0 y0 x1 y1 x2 y2 x3 y3) (mkPoint x y) (Z.to_nat (F.to_usize n)))
  | 9, _ =>
      match seg_in a with
      | Some (s, [x; y; acc]) => t_out (sn rep s (mkPoint x y) acc)
      | _ => None
      end
  | 10, _ =>
      match seg_in a with
      | Some (s, [x; y; acc]) => d_out (sn rep s (mkPoint x y) acc)
      | _ => None
      end
  | _, _ => None
  end.

Definition eval (op : Z) (a : list float) : option (list float) :=
  if 20 <? op then eval_v true (op - 20) a else eval_v false op a.

Definition tol (op : Z) : option float :=
  match (if 20 <? op then op - 20 else op) with
  | 2 | 5 | 9 | 11 => Some 0x1.12e0be826d695p-30%float    (* 1e-9 *)
  | 3 | 6 | 10 | 12 => Some 0x1.19799812dea11p-40%float   (* 1e-12 *)
  | _ => None
  end.
Definition failures := Corr.failures eval tol.
Definition outputs := Corr.outputs eval.
