(** Correspondence glue for C18: model/Fit.v at F64.

    Encodings: cubic = 8 floats; element list as harness/src/geom.rs [enc_els]
      0 x y | 1 x y | 2 x1 y1 x2 y2 | 3 x1 y1 x2 y2 x3 y3 | 4
    ops
      1  CubicOffset::sample_pt_deriv     [c(8); d; t]        -> [px py dx dy]   (hypot: tolerance)
      2  CubicOffset::sample_pt_tangent   [c(8); d; t; sign]  -> [px py tx ty]   (hypot: tolerance)
      3  eval_deriv only (exact ops)      [c(8); d; t]        -> [dx dy]
      4  tangent only (exact ops)         [c(8); d; t; sign]  -> [tx ty]
      5  simplify::moment_integrals       [c(8)]              -> [area mx my]
      6  fit_to_bezpath on an instrumented toy source; the source's answers and the results of the
         real [fit_to_cubic] are passed as tables:
           [acc; nP; nP*(t sign px py); nD; nD*(t px py); nB; nB*(s e flag t); nF; nF*(s e flag c(8))]
         -> [number of fit_to_bezpath_rec calls] ++ elements of the fitted path
      7  simplify_bezpath; the fitter's answers are passed as a table keyed by the queue:
           [angle_thresh; nQ; nQ*(lenq; q...; leno; o...); els...] -> [-1] (panic) | [n; els...]
      8  PathSeg::tangents                [seg]               -> [d0 d1]
      9  SimplifyBezPath::sample_pt_tangent [t; els...]       -> [px py tx ty]
      10 SimplifyBezPath::sample_pt_deriv   [t; els...]       -> [px py dx dy]
      11 SimplifyBezPath::moment_integrals  [ts; te; els...]  -> [a x y]
      12 Line::nearest(..).distance_sq    [l(4); p(2)]        -> [d]
      13 try_fit_line (through fit_to_cubic on a short chord)
           [acc; s; e; start(2); end(2); 7*(t px py)]          -> [0] | [1; c(8); max_err2]
      14 CurveDist::from_curve's sample parameters: the 22 arguments of sample_pt_tangent(., 1.0)
         logged by an instrumented source during the real fit_to_cubic   [s; e] -> [t_0 .. t_21]
      15 CurveDist::from_curve through the hook verif_curvedist_samples (hooks/C18-curvedist-samples.diff):
           [s; e; 22*(t px py tx ty)] -> [spicy; 20*(px py tx ty)]  (kept samples, in order) *)
From Coq Require Import ZArith Floats List Bool.
From KV Require Import Scalar F64 Geom Curves Path Fit Corr.
Import ListNotations.
Local Open Scope Z_scope.

Notation El := (PathEl float).
Definition P (x y : float) : Point float := mkPoint x y.
Definition pt_out (p : Point float) : list float := [px p; py p].
Definition v_out (p : Vec2 float) : list float := [vx p; vy p].
Definition cubic_out (c : CubicBez float) := pt_out (c0 c) ++ pt_out (c1 c) ++ pt_out (c2 c) ++ pt_out (c3 c).
Definition f2b (x : float) : bool := negb (PrimFloat.eqb x 0).

Definition cubic_in (a : list float) : option (CubicBez float * list float) :=
  match a with
  | x0 :: y0 :: x1 :: y1 :: x2 :: y2 :: x3 :: y3 :: r =>
      Some (mkCubic (P x0 y0) (P x1 y1) (P x2 y2) (P x3 y3), r)
  | _ => None
  end.

Definition seg_in (a : list float) : option (PathSeg float * list float) :=
  match a with
  | k :: x0 :: y0 :: x1 :: y1 :: r =>
      if PrimFloat.eqb k 1 then Some (SegLine (mkLine (P x0 y0) (P x1 y1)), r)
      else match r with
      | x2 :: y2 :: r2 =>
          if PrimFloat.eqb k 2 then Some (SegQuad (mkQuad (P x0 y0) (P x1 y1) (P x2 y2)), r2)
          else match r2 with
          | x3 :: y3 :: r3 =>
              if PrimFloat.eqb k 3 then Some (SegCubic (mkCubic (P x0 y0) (P x1 y1) (P x2 y2) (P x3 y3)), r3)
              else None
          | _ => None
          end
      | _ => None
      end
  | _ => None
  end.

Definition dec_el (a : list float) : option (El * list float) :=
  match a with
  | k :: r =>
      if PrimFloat.eqb k 4 then Some (ClosePath, r) else
      match r with
      | x :: y :: r1 =>
          if PrimFloat.eqb k 0 then Some (MoveTo (P x y), r1)
          else if PrimFloat.eqb k 1 then Some (LineTo (P x y), r1)
          else match r1 with
          | x2 :: y2 :: r2 =>
              if PrimFloat.eqb k 2 then Some (QuadTo (P x y) (P x2 y2), r2)
              else match r2 with
              | x3 :: y3 :: r3 =>
                  if PrimFloat.eqb k 3 then Some (CurveTo (P x y) (P x2 y2) (P x3 y3), r3) else None
              | _ => None
              end
          | _ => None
          end
      | _ => None
      end
  | [] => None
  end.

Fixpoint dec_els (fuel : nat) (a : list float) : option (list El) :=
  match a with
  | [] => Some []
  | _ =>
      match fuel with
      | O => None
      | S f =>
          match dec_el a with
          | None => None
          | Some (e, r) => match dec_els f r with Some l => Some (e :: l) | None => None end
          end
      end
  end.
Definition els_in (a : list float) : option (list El) := dec_els (length a) a.

Definition el_out (e : El) : list float :=
  match e with
  | MoveTo p => 0%float :: pt_out p
  | LineTo p => 1%float :: pt_out p
  | QuadTo p1 p2 => 2%float :: pt_out p1 ++ pt_out p2
  | CurveTo p1 p2 p3 => 3%float :: pt_out p1 ++ pt_out p2 ++ pt_out p3
  | ClosePath => [4%float]
  end.
Definition els_out (l : list El) : list float := flat_map el_out l.

(** [n] rows of [w] floats *)
Fixpoint take_rows (w n : nat) (a : list float) : option (list (list float) * list float) :=
  match n with
  | O => Some ([], a)
  | S n' =>
      if Nat.ltb (length a) w then None else
      match take_rows w n' (skipn w a) with
      | None => None
      | Some (rows, r) => Some (firstn w a :: rows, r)
      end
  end.

(** a counted table: [n; n rows of w floats] *)
Definition table_in (w : nat) (a : list float) : option (list (list float) * list float) :=
  match a with
  | n :: r => take_rows w (Z.to_nat (F.to_usize n)) r
  | [] => None
  end.

Definition nanp : Point float := P nan nan.

Fixpoint look_pt2 (tbl : list (list float)) (a b : float) : Point float :=
  match tbl with
  | [k1; k2; x; y] :: r => if PrimFloat.eqb k1 a && PrimFloat.eqb k2 b then P x y else look_pt2 r a b
  | _ => nanp
  end.
Fixpoint look_pt1 (tbl : list (list float)) (a : float) : Point float :=
  match tbl with
  | [k1; x; y] :: r => if PrimFloat.eqb k1 a then P x y else look_pt1 r a
  | _ => nanp
  end.
(* a missing break_cusp / fit_to_cubic entry is a failed case: answer with a NaN parameter / NaN cubic *)
Fixpoint look_cusp (tbl : list (list float)) (a b : float) : option float :=
  match tbl with
  | [k1; k2; flag; t] :: r =>
      if PrimFloat.eqb k1 a && PrimFloat.eqb k2 b then (if f2b flag then Some t else None) else look_cusp r a b
  | _ => Some nan
  end.
Fixpoint look_fit (tbl : list (list float)) (a b : float) : option (CubicBez float * float) :=
  match tbl with
  | (k1 :: k2 :: flag :: c) :: r =>
      if PrimFloat.eqb k1 a && PrimFloat.eqb k2 b then
        (if f2b flag then match cubic_in c with Some (cb, _) => Some (cb, 0%float) | None => Some (mkCubic nanp nanp nanp nanp, 0%float) end
         else None)
      else look_fit r a b
  | _ => Some (mkCubic nanp nanp nanp nanp, 0%float)
  end.

Definition fit_fuel : nat := 120.

Definition eval_fit (a : list float) : option (list float) :=
  match a with
  | acc :: r0 =>
      match table_in 4 r0 with
      | None => None
      | Some (tp, r1) =>
      match table_in 3 r1 with
      | None => None
      | Some (td, r2) =>
      match table_in 4 r2 with
      | None => None
      | Some (tb, r3) =>
      match table_in 11 r3 with
      | Some (tf, []) =>
          let spt := fun t sign => mkSample (look_pt2 tp t sign) (mkVec2 0%float 0%float) in
          let spd := look_pt1 td in
          let bc := look_cusp tb in
          let fc := look_fit tf in
          match fit_to_bezpath spt spd bc fc acc fit_fuel, fit_tree spt spd bc fc acc fit_fuel 0%float 1%float with
          | Some path, Some tr => Some (z2f (tree_calls tr) :: els_out path)
          | _, _ => None
          end
      | _ => None
      end end end end
  | [] => None
  end.

(** the fitter table of op 7 *)
Fixpoint els_eqb (a b : list float) : bool :=
  match a, b with
  | [], [] => true
  | x :: a', y :: b' => PrimFloat.eqb x y && els_eqb a' b'
  | _, _ => false
  end.

Fixpoint fitter_rows (n : nat) (a : list float) : option (list (list float * list float) * list float) :=
  match n with
  | O => Some ([], a)
  | S n' =>
      match a with
      | lq :: r =>
          let nq := Z.to_nat (F.to_usize lq) in
          if Nat.ltb (length r) nq then None else
          match skipn nq r with
          | lo :: r2 =>
              let no := Z.to_nat (F.to_usize lo) in
              if Nat.ltb (length r2) no then None else
              match fitter_rows n' (skipn no r2) with
              | None => None
              | Some (rows, rest) => Some ((firstn nq r, firstn no r2) :: rows, rest)
              end
          | [] => None
          end
      | [] => None
      end
  end.

Fixpoint look_fitter (tbl : list (list float * list float)) (q : list float) : list El :=
  match tbl with
  | (k, o) :: r => if els_eqb k q then match els_in o with Some l => l | None => [MoveTo nanp] end
                   else look_fitter r q
  | [] => [MoveTo nanp; LineTo nanp]
  end.

Definition eval_simplify (a : list float) : option (list float) :=
  match a with
  | thresh :: nq :: r =>
      match fitter_rows (Z.to_nat (F.to_usize nq)) r with
      | None => None
      | Some (tbl, rest) =>
          match els_in rest with
          | None => None
          | Some els =>
              Some (match simplify_bezpath (fun q => look_fitter tbl (els_out q)) thresh els with
                    | None => [(-1)%float]
                    | Some out => z2f (Z.of_nat (length out)) :: els_out out
                    end)
          end
      end
  | _ => None
  end.

Definition sbp_of (els : list El) : option (list (SimplifyCubic (T:=float))) :=
  match segments els with
  | None => None
  | Some segs => Some (sbp_new segs)
  end.

Definition eval (op : Z) (a : list float) : option (list float) :=
  match op with
  | 1 | 3 =>
      match cubic_in a with
      | Some (c, [d; t]) =>
          let o := co_new c d in
          let '(p, dv) := co_sample_pt_deriv o t in
          Some (if op =? 1 then pt_out p ++ v_out dv else v_out dv)
      | _ => None
      end
  | 2 | 4 =>
      match cubic_in a with
      | Some (c, [d; t; sign]) =>
          let o := co_new c d in
          let s := co_sample_pt_tangent o t sign in
          Some (if op =? 2 then pt_out (s_p s) ++ v_out (s_tan s) else v_out (s_tan s))
      | _ => None
      end
  | 5 =>
      match cubic_in a with
      | Some (c, []) => let '(ar, mx, my) := moment_integrals c in Some [ar; mx; my]
      | _ => None
      end
  | 6 => eval_fit a
  | 7 => eval_simplify a
  | 8 =>
      match seg_in a with
      | Some (s, []) => let '(d0, d1) := seg_tangents s in Some (v_out d0 ++ v_out d1)
      | _ => None
      end
  | 9 =>
      match a with
      | t :: r =>
          match els_in r with
          | Some els =>
              match sbp_of els with
              | Some s => match sbp_sample_pt_tangent s t with
                          | Some sm => Some (pt_out (s_p sm) ++ v_out (s_tan sm))
                          | None => None end
              | None => None end
          | None => None end
      | [] => None
      end
  | 10 =>
      match a with
      | t :: r =>
          match els_in r with
          | Some els =>
              match sbp_of els with
              | Some s => match sbp_sample_pt_deriv s t with
                          | Some (p, d) => Some (pt_out p ++ v_out d)
                          | None => None end
              | None => None end
          | None => None end
      | [] => None
      end
  | 11 =>
      match a with
      | ts :: te :: r =>
          match els_in r with
          | Some els =>
              match sbp_of els with
              | Some s => match sbp_moment_integrals s ts te with
                          | Some (ar, x, y) => Some [ar; x; y]
                          | None => None end
              | None => None end
          | None => None end
      | _ => None
      end
  | 12 =>
      match a with
      | [x0; y0; x1; y1; x; y] => Some [line_nearest_dsq (mkLine (P x0 y0) (P x1 y1)) (P x y)]
      | _ => None
      end
  | 13 =>
      match a with
      | acc :: s :: e :: sx :: sy :: ex :: ey :: r =>
          match take_rows 3 7 r with
          | Some (tbl, []) =>
              Some (match try_fit_line (look_pt1 tbl) acc s e (P sx sy) (P ex ey) with
                    | None => [0%float]
                    | Some (c, err) => 1%float :: cubic_out c ++ [err]
                    end)
          | _ => None
          end
      | _ => None
      end
  | 14 =>
      match a with
      | [s; e] => Some (cd_ts s e)
      | _ => None
      end
  | 15 =>
      match a with
      | s :: e :: r =>
          match take_rows 5 22 r with
          | Some (tbl, []) =>
              let look := fix look (tb : list (list float)) (t : float) : Sample float :=
                match tb with
                | [k; x; y; tx; ty] :: r' => if PrimFloat.eqb k t then mkSample (P x y) (mkVec2 tx ty) else look r' t
                | _ => mkSample nanp (mkVec2 nan nan)
                end in
              let '(kept, spicy) := cd_from_curve (fun t _ => look tbl t) s e in
              Some (b2f spicy :: flat_map (fun sm => pt_out (s_p sm) ++ v_out (s_tan sm)) kept)
          | _ => None
          end
      | _ => None
      end
  | _ => None
  end.

Definition tol (op : Z) : option float :=
  match op with
  | 1 | 2 => Some 0x1.12e0be826d695p-30%float   (* 1e-9: Vec2::hypot is libm *)
  | _ => None
  end.
Definition failures := Corr.failures eval tol.
Definition outputs := Corr.outputs eval.
