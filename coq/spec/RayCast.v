(** The half-open leftward ray cast of a polygonal outline: the spec side of
    "a closed-form query agrees with the shape's own outline" (C11).

    [line_winding_inner] mirrors [PathSeg::winding_inner] (bezpath.rs 952-986) for a line segment,
    generic over the scalar (it is compared with the compiled code through the hook
    [PathSeg::verif_winding_inner]); [edge_cast] is the same rule stated mathematically over the
    reals; [poly_cast] sums it over the edges of a closed polygon, which is what
    [BezPath::winding] computes for [MoveTo v0; LineTo v1; ...; ClosePath]
    (a zero-length closing edge is dropped by [Segments::next] and contributes 0 here). *)

From Coq Require Import ZArith Reals List Bool.
From KV Require Import Scalar RInst Geom Rect ShapeTypes.
Import ListNotations.

Set Implicit Arguments.

Section Generic.
Context {T : Type} `{Scalar T}.
Local Open Scope S_scope.

Definition sign_to_T (sign : Z) : T := fofZ sign.

Definition line_winding_inner (s e p : Point T) : Z :=
  let side (sign : Z) : Z :=
    if px p <? fmin (px s) (px e) then 0%Z
    else if px p >=? fmax (px s) (px e) then sign
    else
      let a := py e - py s in
      let b := px s - px e in
      let c := a * px s + b * py s in
      if (a * px p + b * py p - c) * sign_to_T sign <=? f0 then sign else 0%Z in
  if py e >? py s then
    (if (py p <? py s) || (py p >=? py e) then 0%Z else side (-1)%Z)
  else if py e <? py s then
    (if (py p <? py e) || (py p >=? py s) then 0%Z else side 1%Z)
  else 0%Z.

(** edges of the closed polygon [v0 :: vs]: v0->v1, ..., v(n-1)->vn, vn->v0 *)
Fixpoint poly_edges_from (first prev : Point T) (vs : list (Point T)) : list (Point T * Point T) :=
  match vs with
  | [] => [(prev, first)]
  | v :: r => (prev, v) :: poly_edges_from first v r
  end.
Definition poly_edges (vs : list (Point T)) : list (Point T * Point T) :=
  match vs with
  | [] => []
  | v0 :: r => poly_edges_from v0 v0 r
  end.

(** [BezPath::winding] of the closed polygon: the sum of [winding_inner] over its edges *)
Definition poly_winding (vs : list (Point T)) (p : Point T) : Z :=
  fold_left Z.add (map (fun se => line_winding_inner (fst se) (snd se) p) (poly_edges vs)) 0%Z.

(** the outlines (rect.rs RectPathIter, triangle.rs TrianglePathIter) *)
Definition rect_outline (r : Rect T) : list (Point T) :=
  [mkPoint (rx0 r) (ry0 r); mkPoint (rx1 r) (ry0 r); mkPoint (rx1 r) (ry1 r); mkPoint (rx0 r) (ry1 r)].
Definition tri_outline (t : Triangle T) : list (Point T) := [tri_a t; tri_b t; tri_c t].

End Generic.

(** ** The rule over the reals *)
Local Open Scope R_scope.

(** twice the signed area of (s, e, p): cross (e - s) (p - s) *)
Definition orient (s e p : Point R) : R :=
  (px e - px s) * (py p - py s) - (py e - py s) * (px p - px s).

(** The leftward ray from [p] meets the edge [s -> e], with the half-open rule in y:
    an upward edge (in y) owns its start row and not its end row, a downward edge the converse;
    "meets" = the edge's point on the row of [p] has abscissa <= px p. Division free:
    for an upward edge that is [orient s e p <= 0], for a downward edge [orient s e p >= 0]. *)
Definition crosses_up (s e p : Point R) : Prop := py s <= py p < py e /\ orient s e p <= 0.
Definition crosses_down (s e p : Point R) : Prop := py e <= py p < py s /\ 0 <= orient s e p.

(** abscissa of the edge's point on the row of [p] (meaningful when [py s <> py e]) *)
Definition edge_x_at (s e p : Point R) : R :=
  px s + (px e - px s) * (py p - py s) / (py e - py s).

Definition edge_cast (s e p : Point R) : Z :=
  if Rle_dec (py s) (py p) then
    if Rlt_dec (py p) (py e) then (if Rle_dec (orient s e p) 0 then (-1)%Z else 0%Z) else 0%Z
  else
    if Rle_dec (py e) (py p) then (if Rle_dec 0 (orient s e p) then 1%Z else 0%Z) else 0%Z.

Definition poly_cast (vs : list (Point R)) (p : Point R) : Z :=
  fold_left Z.add (map (fun se => edge_cast (fst se) (snd se) p) (poly_edges vs)) 0%Z.

(** [p] lies on the closed segment [s, e]: collinear and inside the bounding box *)
Definition on_segment (s e p : Point R) : Prop :=
  orient s e p = 0 /\
  Rmin (px s) (px e) <= px p <= Rmax (px s) (px e) /\
  Rmin (py s) (py e) <= py p <= Rmax (py s) (py e).

Definition on_polygon (vs : list (Point R)) (p : Point R) : Prop :=
  exists se, In se (poly_edges vs) /\ on_segment (fst se) (snd se) p.
