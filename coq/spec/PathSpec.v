(** Vocabulary in which the C07 theorems are stated: what each element contributes to the
    segment sequence, the current point / sub-path start of a prefix, and the decomposition of a
    path into sub-paths ("chunks") with their segments and their reversal.
    Generic over the scalar. Definitions only. *)

From Coq Require Import ZArith List Bool Arith.
From KV Require Import Scalar Geom Curves Path.
Import ListNotations.

Set Implicit Arguments.

Section PathSpec.
Context {T : Type} `{Scalar T}.

Notation El := (PathEl T).

(** ** per-element emission of [Segments::next] (built from the shared [seg_step]) *)
Fixpoint outs_from (st : option (Point T * Point T)) (els : list El) : option (list (option (PathSeg T))) :=
  match els with
  | [] => Some []
  | e :: r =>
      match seg_step st e with
      | None => None
      | Some (st', out) =>
          match outs_from (Some st') r with
          | None => None
          | Some l => Some (out :: l)
          end
      end
  end.

Definition cat_somes {A : Type} (l : list (option A)) : list A :=
  flat_map (fun o => match o with Some x => [x] | None => [] end) l.

Definition starts_with_moveto (els : list El) : Prop :=
  match els with MoveTo _ :: _ => True | _ => False end.
Definition starts_with_movetob (els : list El) : bool :=
  match els with MoveTo _ :: _ => true | _ => false end.

(** ** the sub-path start and the current point after a prefix, declaratively:
    the start is the point of the last [MoveTo]; the current point is where the last element
    ends, a [ClosePath] ending at the sub-path start. *)
Fixpoint last_moveto (acc : option (Point T)) (pre : list El) : option (Point T) :=
  match pre with
  | [] => acc
  | MoveTo p :: r => last_moveto (Some p) r
  | _ :: r => last_moveto acc r
  end.
Definition cur_start (pre : list El) : option (Point T) := last_moveto None pre.
Definition cur_point (pre : list El) : option (Point T) :=
  match last (map Some pre) None with
  | None => None
  | Some ClosePath => cur_start pre
  | Some e => el_end e
  end.

(** ** sub-paths *)
Record Chunk := mkChunk { ch_start : Point T; ch_draw : list El; ch_closed : bool }.

Definition is_draw (e : El) : bool :=
  match e with LineTo _ | QuadTo _ _ | CurveTo _ _ _ => true | _ => false end.

Definition nonempty {A : Type} (l : list A) : bool := match l with [] => false | _ => true end.

(** [start]: start point of the sub-path being read; [acc]: its drawing elements so far;
    [explicit]: it was opened by a [MoveTo] (so it exists even when it draws nothing).
    A [ClosePath] ends the sub-path; what follows without a [MoveTo] is a new sub-path from the
    same start point. *)
Fixpoint chunks_from (start : Point T) (acc : list El) (explicit : bool) (els : list El) : list Chunk :=
  match els with
  | [] => if explicit || nonempty acc then [mkChunk start acc false] else []
  | MoveTo p :: r =>
      (if explicit || nonempty acc then [mkChunk start acc false] else []) ++ chunks_from p [] true r
  | ClosePath :: r => mkChunk start acc true :: chunks_from start [] false r
  | d :: r => chunks_from start (acc ++ [d]) explicit r
  end.

Definition chunks (els : list El) : list Chunk :=
  match els with
  | MoveTo p :: r => chunks_from p [] true r
  | _ => []
  end.

(** the elements of a sub-path, written out *)
Definition render (c : Chunk) : list El :=
  MoveTo (ch_start c) :: ch_draw c ++ (if ch_closed c then [ClosePath] else []).

(** segments drawn by a run of drawing elements from the current point [cur] *)
Fixpoint draw_segs (cur : Point T) (draw : list El) : list (PathSeg T) :=
  match draw with
  | [] => []
  | LineTo p :: r => SegLine (mkLine cur p) :: draw_segs p r
  | QuadTo p1 p2 :: r => SegQuad (mkQuad cur p1 p2) :: draw_segs p2 r
  | CurveTo p1 p2 p3 :: r => SegCubic (mkCubic cur p1 p2 p3) :: draw_segs p3 r
  | _ :: r => draw_segs cur r
  end.

Fixpoint draw_end (cur : Point T) (draw : list El) : Point T :=
  match draw with
  | [] => cur
  | e :: r => draw_end (match el_end e with Some q => q | None => cur end) r
  end.

Definition chunk_end (c : Chunk) : Point T := draw_end (ch_start c) (ch_draw c).

(** a closed sub-path gets the closing line exactly when it does not end where it started *)
Definition chunk_segs (c : Chunk) : list (PathSeg T) :=
  draw_segs (ch_start c) (ch_draw c)
  ++ (if ch_closed c && pt_neb (chunk_end c) (ch_start c)
      then [SegLine (mkLine (chunk_end c) (ch_start c))] else []).

(** ** reversal of a sub-path *)
Definition flip_el (from : Point T) (e : El) : El :=
  match e with
  | LineTo _ => LineTo from
  | QuadTo c _ => QuadTo c from
  | CurveTo c0 c1 _ => CurveTo c1 c0 from
  | e => e
  end.

Fixpoint rev_draw (cur : Point T) (draw : list El) : list El :=
  match draw with
  | [] => []
  | e :: r => rev_draw (match el_end e with Some q => q | None => cur end) r ++ [flip_el cur e]
  end.

Definition rev_chunk (c : Chunk) : Chunk :=
  mkChunk (chunk_end c) (rev_draw (ch_start c) (ch_draw c)) (ch_closed c).

Definition chunk_wf (c : Chunk) : Prop := forallb is_draw (ch_draw c) = true.

(** rotation of a cyclic sequence by one position *)
Definition rotl1 {A : Type} (l : list A) : list A :=
  match l with [] => [] | x :: r => r ++ [x] end.

(** number of places where consecutive segments do not join (stored end <> stored start) *)
Fixpoint discontinuities (segs : list (PathSeg T)) : nat :=
  match segs with
  | s :: ((s' :: _) as r) => (if pt_neb (seg_start s') (seg_end s) then 1 else 0) + discontinuities r
  | _ => 0
  end.

Definition count_moveto (els : list El) : nat :=
  length (filter (fun e => match e with MoveTo _ => true | _ => false end) els).

End PathSpec.
