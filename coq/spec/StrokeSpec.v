(** Specification vocabulary for the stroke outline (C04). *)
From Coq Require Import ZArith Reals List Bool.
From KV Require Import Scalar RInst Geom Curves Path Stroke.
Import ListNotations.

Set Implicit Arguments.

(** ** scalar-generic vocabulary (used at the reals for theorems, at binary64 for the refutation witness) *)
Section Generic.
Context {T : Type} `{Scalar T}.
Local Open Scope S_scope.

(** a drawing element (not MoveTo / ClosePath) *)
Definition is_seg (e : PathEl T) : Prop :=
  match e with LineTo _ | QuadTo _ _ | CurveTo _ _ _ => True | _ => False end.

(** the input class the model covers *)
Definition is_poly_el (e : PathEl T) : Prop :=
  match e with QuadTo _ _ | CurveTo _ _ _ => False | _ => True end.

(** a path made of complete contours: each starts with MoveTo, draws, and ends with ClosePath *)
Inductive closed_contours : list (PathEl T) -> Prop :=
| cc_nil : closed_contours []
| cc_cons p body rest :
    Forall is_seg body -> closed_contours rest ->
    closed_contours (MoveTo p :: body ++ ClosePath :: rest).

Definition is_move (e : PathEl T) : bool := match e with MoveTo _ => true | _ => false end.
Definition n_contours (els : list (PathEl T)) : nat := length (filter is_move els).

(** end points of the elements, in order *)
Definition verts (els : list (PathEl T)) : list (Point T) :=
  flat_map (fun e => match el_end e with Some p => [p] | None => [] end) els.

(** every element's end point satisfies [P] *)
Definition end_ok (P : Point T -> Prop) (e : PathEl T) : Prop :=
  match el_end e with Some p => P p | None => True end.
Definition all_ends (P : Point T -> Prop) (els : list (PathEl T)) : Prop := Forall (end_ok P) els.

(** all points mentioned by the elements (control points included) *)
Definition el_pts (e : PathEl T) : list (Point T) :=
  match e with
  | MoveTo p | LineTo p => [p]
  | QuadTo p1 p2 => [p1; p2]
  | CurveTo p1 p2 p3 => [p1; p2; p3]
  | ClosePath => []
  end.

(** crossing contribution of the directed edge a -> b for the leftward... upward/downward
    half-open rule: +1 for an upward edge with q strictly on its left, -1 for a downward edge
    with q strictly on its right, 0 otherwise *)
Definition edge_w (a b q : Point T) : Z :=
  if xorb (py a <=? py q) (py b <=? py q) then
    let side := v_cross (pt_sub b a) (pt_sub q a) in
    if py a <? py b then (if f0 <? side then 1%Z else 0%Z)
    else (if side <? f0 then (-1)%Z else 0%Z)
  else 0%Z.

(** winding number about [q] of an outline made of lines (a curve element counts as its chord),
    every contour closed implicitly: state = (start, last) of the current contour *)
Fixpoint outline_wn_from (start last : Point T) (els : list (PathEl T)) (q : Point T) : Z :=
  match els with
  | [] => edge_w last start q
  | MoveTo p :: r => (edge_w last start q + outline_wn_from p p r q)%Z
  | ClosePath :: r => (edge_w last start q + outline_wn_from start start r q)%Z
  | e :: r =>
      match el_end e with
      | Some p => (edge_w last p q + outline_wn_from start p r q)%Z
      | None => outline_wn_from start last r q
      end
  end.

Definition outline_wn (els : list (PathEl T)) (q : Point T) : Z :=
  outline_wn_from pt_origin pt_origin els q.

End Generic.

(** ** real-number vocabulary *)
Local Open Scope R_scope.

Definition dist2 (p q : Point R) : R :=
  (px p - px q) * (px p - px q) + (py p - py q) * (py p - py q).

Definition vlen (t : Vec2 R) : R := sqrt (vx t * vx t + vy t * vy t).

Definition vnonzero (t : Vec2 R) : Prop := vx t <> 0 \/ vy t <> 0.

(** the point at signed distance [s * w/2] from [p] along the left unit normal of direction [t]
    ([s = -1]: right-hand side = forward path; [s = 1]: left-hand side = backward path) *)
Definition offs (w s : R) (t : Vec2 R) (p : Point R) : Point R :=
  mkPoint (px p + s * (w / 2) * (- vy t / vlen t)) (py p + s * (w / 2) * (vx t / vlen t)).

(** the point [p] moved by [d] along the unit vector of [t] *)
Definition along (d : R) (t : Vec2 R) (p : Point R) : Point R :=
  mkPoint (px p + d * (vx t / vlen t)) (py p + d * (vy t / vlen t)).

Definition rdot (a b : Vec2 R) : R := vx a * vx b + vy a * vy b.
Definition rcross (a b : Vec2 R) : R := vx a * vy b - vy a * vx b.
Definition vec (a b : Point R) : Vec2 R := mkVec2 (px b - px a) (py b - py a).   (* b - a *)

(** [v] is within distance [sqrt r2] of one of the points [V] *)
Definition near (V : list (Point R)) (r2 : R) (v : Point R) : Prop :=
  exists p, In p V /\ dist2 v p <= r2.

(** the square of the farthest the style lets an outline vertex be from its source vertex:
    width/2, times sqrt 2 with a square cap, times the miter limit with miter joins *)
Definition is_square (c : Cap) : bool := match c with CapSquare => true | _ => false end.
Definition reach2 (st : StrokeStyle R) : R :=
  let k := sk_width st / 2 in
  k * k * Rmax 1 (Rmax (match sk_join st with JoinMiter => sk_miter_limit st * sk_miter_limit st | _ => 1 end)
                       (if is_square (sk_start_cap st) || is_square (sk_end_cap st) then 2 else 1)).

(** shoelace formula: twice the signed area of the polygon through the points *)
Fixpoint shoelace_from (first prev : Point R) (ps : list (Point R)) : R :=
  match ps with
  | [] => px prev * py first - px first * py prev
  | p :: r => (px prev * py p - px p * py prev) + shoelace_from first p r
  end.
Definition shoelace2 (ps : list (Point R)) : R :=
  match ps with [] => 0 | p :: r => shoelace_from p p r end.

(** ** the two sides of a polyline's outline, written as functions of the source points
    ([side = false]: forward path, sign -1; [side = true]: backward path, sign +1).
    A point equal to its predecessor contributes nothing (the stroker skips it). *)
Definition sgn (side : bool) : R := if side then 1 else -1.

Definition side_join (st : StrokeStyle R) (side : bool) (p0 : Point R) (ab : Vec2 R) (th : R) (cd : Vec2 R)
  : list (PathEl R) :=
  let j := join_els st p0 ab th cd in if side then snd (fst j) else fst (fst j).

Fixpoint side_rest (st : StrokeStyle R) (th : R) (side : bool) (lp : Point R) (lt : Vec2 R) (ps : list (Point R))
  : list (PathEl R) :=
  match ps with
  | [] => []
  | p :: r =>
      if pt_neb p lp then
        side_join st side lp lt th (vec lp p) ++
        LineTo (offs (sk_width st) (sgn side) (vec lp p) p) :: side_rest st th side p (vec lp p) r
      else side_rest st th side lp lt r
  end.

Fixpoint side_path (st : StrokeStyle R) (th : R) (side : bool) (p0 : Point R) (ps : list (Point R))
  : list (PathEl R) :=
  match ps with
  | [] => []
  | p :: r =>
      if pt_neb p p0 then
        MoveTo (offs (sk_width st) (sgn side) (vec p0 p) p0) ::
        LineTo (offs (sk_width st) (sgn side) (vec p0 p) p) :: side_rest st th side p (vec p0 p) r
      else side_path st th side p0 r
  end.

(** the first point different from [p0], with the points after it *)
Fixpoint first_edge (p0 : Point R) (ps : list (Point R)) : option (Point R * list (Point R)) :=
  match ps with
  | [] => None
  | p :: r => if pt_neb p p0 then Some (p, r) else first_edge p0 r
  end.

(** last point and last non-degenerate edge vector after walking [ps] from ([lp], [lt]) *)
Fixpoint last_state (lp : Point R) (lt : Vec2 R) (ps : list (Point R)) : Point R * Vec2 R :=
  match ps with
  | [] => (lp, lt)
  | p :: r => if pt_neb p lp then last_state p (vec lp p) r else last_state lp lt r
  end.

(** ** joins and caps in this vocabulary *)

(** the join test of [do_join]: emitted unless the turn is forward and below the threshold *)
Definition emitted (ab cd : Vec2 R) (th : R) : Prop :=
  rdot ab cd <= 0 \/
  sqrt (rcross ab cd * rcross ab cd + rdot ab cd * rdot ab cd) * th <= Rabs (rcross ab cd).

(** the extra vertex on the inner side of the turn (repaired join only) *)
Definition piv_f (st : StrokeStyle R) (p0 : Point R) (X : R) : list (PathEl R) :=
  if sk_inner_pivot st then (if Rltb 0 X then [] else if Rltb X 0 then [LineTo p0] else []) else [].
Definition piv_b (st : StrokeStyle R) (p0 : Point R) (X : R) : list (PathEl R) :=
  if sk_inner_pivot st then (if Rltb 0 X then [LineTo p0] else []) else [].

Definition miter_pt (w s : R) (p0 : Point R) (ab cd : Vec2 R) : Point R :=
  let fp_last := offs w s ab p0 in
  let fp_this := offs w s cd p0 in
  let h := rcross ab (vec fp_last fp_this) / rcross ab cd in
  mkPoint (px fp_this - vx cd * h) (py fp_this - vy cd * h).

Definition join_core (st : StrokeStyle R) (p0 : Point R) (ab cd : Vec2 R)
  : list (PathEl R) * list (PathEl R) * Z :=
  let w := sk_width st in
  let X := rcross ab cd in let D := rdot ab cd in let Hy := sqrt (X * X + D * D) in
  let ml := sk_miter_limit st in
  match sk_join st with
  | JoinBevel => ([LineTo (offs w (-1) cd p0)], [LineTo (offs w 1 cd p0)], 1%Z)
  | JoinMiter =>
      if Rltb (2 * Hy) ((Hy + D) * (ml * ml)) then
        if Rltb 0 X then
          ([LineTo (miter_pt w (-1) p0 ab cd); LineTo (offs w (-1) cd p0)], [LineTo (offs w 1 cd p0)], 2%Z)
        else if Rltb X 0 then
          ([LineTo (offs w (-1) cd p0)], [LineTo (miter_pt w 1 p0 ab cd); LineTo (offs w 1 cd p0)], 3%Z)
        else ([LineTo (offs w (-1) cd p0)], [LineTo (offs w 1 cd p0)], 4%Z)
      else ([LineTo (offs w (-1) cd p0)], [LineTo (offs w 1 cd p0)], 5%Z)
  | JoinRound =>
      if Rltb 0 (Ratan2 X D) then
        (round_join_els tol_1e_3 p0 (left_norm w cd) (Ratan2 X D), [LineTo (offs w 1 cd p0)], 6%Z)
      else
        ([LineTo (offs w (-1) cd p0)], round_join_rev_els tol_1e_3 p0 (v_neg (left_norm w cd)) (- Ratan2 X D), 7%Z)
  end.


(** what a cap appends, as a function of the end point and the tangent there *)
Definition end_cap_at (st : StrokeStyle R) (p : Point R) (t : Vec2 R) : list (PathEl R) :=
  let w := sk_width st in
  match sk_end_cap st with
  | CapButt => [LineTo (offs w 1 t p)]
  | CapRound => round_cap_els tol_1e_3 p (pt_sub p (offs w 1 t p))
  | CapSquare => square_cap_els false p (pt_sub p (offs w 1 t p))
  end.
Definition start_cap_at (st : StrokeStyle R) (p : Point R) (t : Vec2 R) : list (PathEl R) :=
  let w := sk_width st in
  match sk_start_cap st with
  | CapButt => [ClosePath]
  | CapRound => round_cap_els tol_1e_3 p (left_norm w t)
  | CapSquare => square_cap_els true p (left_norm w t)
  end.

(** the point with foot parameter [al] on the segment from [p0] along [t] and signed distance
    [be * w/2] to its left *)
Definition seg_point (w : R) (p0 : Point R) (t : Vec2 R) (al be : R) : Point R :=
  mkPoint (px p0 + al * vx t + be * (w / 2) * (- vy t / vlen t))
          (py p0 + al * vy t + be * (w / 2) * (vx t / vlen t)).

(** ** vocabulary of the region-level statement for polylines *)

(** the point at parameter lam on the segment a b *)
Definition lerp (a b : Point R) (lam : R) : Point R :=
  mkPoint (px a + lam * (px b - px a)) (py a + lam * (py b - py a)).

(** parameter of the foot of q on the line through p0 p1 (0 at p0, 1 at p1), and the signed distance of q
    from that line in units of w/2 (positive on the left) *)
Definition foot_par (p0 p1 q : Point R) : R :=
  rdot (vec p0 q) (vec p0 p1) / (vlen (vec p0 p1) * vlen (vec p0 p1)).
Definition rel_dist (w : R) (p0 p1 q : Point R) : R :=
  rcross (vec p0 p1) (vec p0 q) / ((w / 2) * vlen (vec p0 p1)).

(** q is farther than sqrt r2 from every point of the segment a b *)
Definition seg_far (a b q : Point R) (r2 : R) : Prop :=
  forall u, 0 <= u <= 1 -> r2 < dist2 q (lerp a b u).

(** the non-degenerate edges of a polyline, as the stroker walks it *)
Fixpoint poly_edges (lp : Point R) (ps : list (Point R)) : list (Point R * Point R) :=
  match ps with
  | [] => []
  | p :: r => if pt_neb p lp then (lp, p) :: poly_edges p r else poly_edges lp r
  end.
