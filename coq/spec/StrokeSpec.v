(** Specification vocabulary for the stroke outline (C04). *)
From Coq Require Import ZArith Reals List Bool.
From KV Require Import Scalar RInst Geom Curves Path Stroke.
Import ListNotations.

Set Implicit Arguments.

(** ** scalar-generic vocabulary (used at the reals for theorems, at binary64 for the refutation witness) *)
Section Generic.
Context {T : Type} `{Scalar T}.
Local Open Scope S_scope.

(** a drawing element (not MoveTo / ClosePath) *)
Definition is_seg (e : PathEl T) : Prop :=
  match e with LineTo _ | QuadTo _ _ | CurveTo _ _ _ => True | _ => False end.

(** the input class the model covers *)
Definition is_poly_el (e : PathEl T) : Prop :=
  match e with QuadTo _ _ | CurveTo _ _ _ => False | _ => True end.

(** a path made of complete contours: each starts with MoveTo, draws, and ends with ClosePath *)
Inductive closed_contours : list (PathEl T) -> Prop :=
| cc_nil : closed_contours []
| cc_cons p body rest :
    Forall is_seg body -> closed_contours rest ->
    closed_contours (MoveTo p :: body ++ ClosePath :: rest).

Definition is_move (e : PathEl T) : bool := match e with MoveTo _ => true | _ => false end.
Definition n_contours (els : list (PathEl T)) : nat := length (filter is_move els).

(** end points of the elements, in order *)
Definition verts (els : list (PathEl T)) : list (Point T) :=
  flat_map (fun e => match el_end e with Some p => [p] | None => [] end) els.

(** all points mentioned by the elements (control points included) *)
Definition el_pts (e : PathEl T) : list (Point T) :=
  match e with
  | MoveTo p | LineTo p => [p]
  | QuadTo p1 p2 => [p1; p2]
  | CurveTo p1 p2 p3 => [p1; p2; p3]
  | ClosePath => []
  end.

(** crossing contribution of the directed edge a -> b for the leftward... upward/downward
    half-open rule: +1 for an upward edge with q strictly on its left, -1 for a downward edge
    with q strictly on its right, 0 otherwise *)
Definition edge_w (a b q : Point T) : Z :=
  if xorb (py a <=? py q) (py b <=? py q) then
    let side := v_cross (pt_sub b a) (pt_sub q a) in
    if py a <? py b then (if f0 <? side then 1%Z else 0%Z)
    else (if side <? f0 then (-1)%Z else 0%Z)
  else 0%Z.

(** winding number about [q] of an outline made of lines (a curve element counts as its chord),
    every contour closed implicitly: state = (start, last) of the current contour *)
Fixpoint outline_wn_from (start last : Point T) (els : list (PathEl T)) (q : Point T) : Z :=
  match els with
  | [] => edge_w last start q
  | MoveTo p :: r => (edge_w last start q + outline_wn_from p p r q)%Z
  | ClosePath :: r => (edge_w last start q + outline_wn_from start start r q)%Z
  | e :: r =>
      match el_end e with
      | Some p => (edge_w last p q + outline_wn_from start p r q)%Z
      | None => outline_wn_from start last r q
      end
  end.

Definition outline_wn (els : list (PathEl T)) (q : Point T) : Z :=
  outline_wn_from pt_origin pt_origin els q.

End Generic.

(** ** real-number vocabulary *)
Local Open Scope R_scope.

Definition dist2 (p q : Point R) : R :=
  (px p - px q) * (px p - px q) + (py p - py q) * (py p - py q).

Definition vlen (t : Vec2 R) : R := sqrt (vx t * vx t + vy t * vy t).

Definition vnonzero (t : Vec2 R) : Prop := vx t <> 0 \/ vy t <> 0.

(** the point at signed distance [s * w/2] from [p] along the left unit normal of direction [t]
    ([s = -1]: right-hand side = forward path; [s = 1]: left-hand side = backward path) *)
Definition offs (w s : R) (t : Vec2 R) (p : Point R) : Point R :=
  mkPoint (px p + s * (w / 2) * (- vy t / vlen t)) (py p + s * (w / 2) * (vx t / vlen t)).

(** the point [p] moved by [d] along the unit vector of [t] *)
Definition along (d : R) (t : Vec2 R) (p : Point R) : Point R :=
  mkPoint (px p + d * (vx t / vlen t)) (py p + d * (vy t / vlen t)).

Definition rdot (a b : Vec2 R) : R := vx a * vx b + vy a * vy b.
Definition rcross (a b : Vec2 R) : R := vx a * vy b - vy a * vx b.
Definition vec (a b : Point R) : Vec2 R := mkVec2 (px b - px a) (py b - py a).   (* b - a *)

(** [v] is within distance [sqrt r2] of one of the points [V] *)
Definition near (V : list (Point R)) (r2 : R) (v : Point R) : Prop :=
  exists p, In p V /\ dist2 v p <= r2.

(** shoelace formula: twice the signed area of the polygon through the points *)
Fixpoint shoelace_from (first prev : Point R) (ps : list (Point R)) : R :=
  match ps with
  | [] => px prev * py first - px first * py prev
  | p :: r => (px prev * py p - px p * py prev) + shoelace_from first p r
  end.
Definition shoelace2 (ps : list (Point R)) : R :=
  match ps with [] => 0 | p :: r => shoelace_from p p r end.
