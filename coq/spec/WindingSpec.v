(** Mathematical vocabulary for C01: the classical half-open crossing count of a leftward ray,
    the "above" indicator behind the telescoping argument, closed chains of pieces, and the
    (unproved) topological statement the crossing count stands for. Real numbers only. *)

From Coq Require Import ZArith Reals List Bool Lra.
From Coquelicot Require Import Coquelicot.
From KV Require Import Scalar RInst Geom Curves Path.
Import ListNotations.
Local Open Scope R_scope.

(** ** The classical crossing rule for one directed edge [s -> e] and a query point [p]

    The ray from [p] towards -infinity in x meets the edge iff the row of [p] lies in the edge's
    half-open row range [ymin, ymax) and the edge's point on that row has abscissa <= px p.
    An upward edge (increasing y) counts -1, a downward edge +1 (kurbo's sign convention: the
    winding number of a contour of positive signed area about an interior point is +1). *)

(* abscissa of the edge's point on the row of p (meaningful when py s <> py e) *)
Definition edge_x_at (s e p : Point R) : R :=
  px s + (py p - py s) * (px e - px s) / (py e - py s).

Definition in_rows (lo hi y : R) : Prop := lo <= y < hi.

Definition edge_crossing (s e p : Point R) : Z :=
  if Rlt_dec (py s) (py e) then
    (if Rle_dec (py s) (py p) then if Rlt_dec (py p) (py e) then
       if Rle_dec (edge_x_at s e p) (px p) then (-1)%Z else 0%Z else 0%Z else 0%Z)
  else if Rlt_dec (py e) (py s) then
    (if Rle_dec (py e) (py p) then if Rlt_dec (py p) (py s) then
       if Rle_dec (edge_x_at s e p) (px p) then 1%Z else 0%Z else 0%Z else 0%Z)
  else 0%Z.

(** edges of the closed polygon [v0; v1; ...; vn]: v0->v1, ..., v(n-1)->vn, vn->v0 *)
Fixpoint cyc_edges_from (first prev : Point R) (vs : list (Point R)) : list (Point R * Point R) :=
  match vs with
  | [] => [(prev, first)]
  | v :: r => (prev, v) :: cyc_edges_from first v r
  end.
Definition cyc_edges (v0 : Point R) (vs : list (Point R)) : list (Point R * Point R) :=
  cyc_edges_from v0 v0 vs.

Definition sumZ (l : list Z) : Z := fold_right Z.add 0%Z l.

(** the classical half-open crossing number of the closed polygon v0, vs about p *)
Definition poly_crossing_number (v0 : Point R) (vs : list (Point R)) (p : Point R) : Z :=
  sumZ (map (fun se => edge_crossing (fst se) (snd se) p) (cyc_edges v0 vs)).

(** ** The telescoping indicator: 1 when [q] is strictly above the row of [p] *)
Definition above (p q : Point R) : Z := if Rlt_dec (py p) (py q) then 1%Z else 0%Z.

(** ** Chains of pieces *)
Definition seg_ctrl (s : PathSeg R) : list (Point R) :=
  match s with
  | SegLine l => [l0 l; l1 l]
  | SegQuad q => [q0 q; q1 q; q2 q]
  | SegCubic c => [c0 c; c1 c; c2 c; c3 c]
  end.

(* consecutive pieces share their end points (equal values); the chain runs from [a] to [b].
   Generic in the scalar: used at the reals and, for [pieces_consecutive], at any instance. *)
Section Chains.
Context {T : Type} `{Scalar T}.
Fixpoint chain_from_to (a : Point T) (ps : list (PathSeg T)) (b : Point T) : Prop :=
  match ps with
  | [] => a = b
  | s :: r => seg_start s = a /\ chain_from_to (seg_end s) r b
  end.
Definition closed_chain (ps : list (PathSeg T)) : Prop :=
  match ps with
  | [] => True
  | s :: _ => chain_from_to (seg_start s) ps (seg_start s)
  end.
End Chains.

(* p is to the right of (or on the column of) every control point / strictly to the left of every control point *)
Definition right_of_all (p : Point R) (ps : list (PathSeg R)) : Prop :=
  forall s c, In s ps -> In c (seg_ctrl s) -> px c <= px p.
Definition left_of_all (p : Point R) (ps : list (PathSeg R)) : Prop :=
  forall s c, In s ps -> In c (seg_ctrl s) -> px p < px c.

(** ** Monotone pieces: y is injective on the parameter interval [0,1] *)
Definition y_injective (f : R -> Point R) : Prop :=
  forall t u, 0 <= t <= 1 -> 0 <= u <= 1 -> py (f t) = py (f u) -> t = u.

(** ** Solver specifications the per-piece theorems rest on *)
Definition quad_poly (c0 c1 c2 x : R) : R := c0 + c1 * x + c2 * (x * x).
Definition cubic_poly (c0 c1 c2 c3 x : R) : R := c0 + c1 * x + c2 * (x * x) + c3 * (x * x * x).

(* a root list is exact for a polynomial f when it lists exactly the real roots of f *)
Definition exact_roots (f : R -> R) (l : list R) : Prop := forall x, In x l <-> f x = 0.

(** ** The topological statement (not proved here; see docs/C01.md)

    The winding number of a closed contour [g : [0,1] -> R^2 \ {p}] is (1 / 2 pi) times the integral of
    d(theta) = ((x - px) y' - (y - py) x') / ((x - px)^2 + (y - py)^2) dt. For a path it is the sum over
    its segments. [C01_full_statement] says the ray cast computes it for every closed path and every
    point off the path. Stating it needs the derivative curves (C06) and Coquelicot's [RInt]. *)
Definition dtheta (f : R -> Point R) (f' : R -> Point R) (p : Point R) (t : R) : R :=
  ((px (f t) - px p) * py (f' t) - (py (f t) - py p) * px (f' t)) /
  ((px (f t) - px p) * (px (f t) - px p) + (py (f t) - py p) * (py (f t) - py p)).

Definition seg_deriv_at (s : PathSeg R) (t : R) : Point R :=
  match s with
  | SegLine l => line_deriv l
  | SegQuad q => line_eval (quad_deriv q) t
  | SegCubic c => quad_eval (cubic_deriv c) t
  end.

Definition seg_turning (s : PathSeg R) (p : Point R) : R :=
  RInt (dtheta (seg_eval s) (seg_deriv_at s) p) 0 1.

Definition off_seg (s : PathSeg R) (p : Point R) : Prop :=
  forall t, 0 <= t <= 1 -> seg_eval s t <> p.

Definition topological_winding (segs : list (PathSeg R)) (p : Point R) : R :=
  fold_right Rplus 0 (map (fun s => seg_turning s p) segs) / (2 * PI).

(** ** The topological winding number of a closed polygon (angle sum)

    [edge_dtheta p s e] is the signed angle, in (-pi, pi], that the directed edge s -> e subtends at p:
    atan2 (cross a b) (dot a b) for a = s - p, b = e - p (counter-clockwise positive in (x right, y up) axes;
    it is pi only when p lies strictly between s and e). The winding number of the closed polygon
    v0, v1, ..., vn about p is the sum over its edges (the closing edge vn -> v0 included) divided by 2 pi. *)
Definition edge_dtheta (p s e : Point R) : R :=
  let ax := px s - px p in let ay := py s - py p in
  let bx := px e - px p in let by_ := py e - py p in
  Ratan2 (ax * by_ - ay * bx) (ax * bx + ay * by_).

Definition polygon_angle_sum (v0 : Point R) (vs : list (Point R)) (p : Point R) : R :=
  fold_right Rplus 0 (map (fun se => edge_dtheta p (fst se) (snd se)) (cyc_edges v0 vs)).

Definition polygon_topological_winding (v0 : Point R) (vs : list (Point R)) (p : Point R) : R :=
  polygon_angle_sum v0 vs p / (2 * PI).

(* p lies on the closed segment [s, e] *)
Definition on_edge (s e p : Point R) : Prop :=
  exists t, 0 <= t <= 1 /\ px p = px s + t * (px e - px s) /\ py p = py s + t * (py e - py s).

Definition off_polygon (v0 : Point R) (vs : list (Point R)) (p : Point R) : Prop :=
  forall se, In se (cyc_edges v0 vs) -> ~ on_edge (fst se) (snd se) p.
