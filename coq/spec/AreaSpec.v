(** Vocabulary of the C02 statements (real numbers): the Green line integral
    1/2 ∮ (x dy - y dx) of a parametrised curve, linked / closed chains of segments,
    closed element lists, sub-path decomposition, a line re-expressed as a quadratic / cubic. *)
From Coq Require Import ZArith Reals List Bool.
From Coquelicot Require Import Coquelicot.
From KV Require Import Scalar RInst Geom Curves Path Affine Area.
Import ListNotations.
Local Open Scope R_scope.

(** ** The independent area integral *)

(** integrand [x y' - y x'] of a parametrised curve; the derivatives are Coquelicot's [Derive]
    of the coordinate functions (not the crate's own derivative curves) *)
Definition green_integrand (c : R -> Point R) (t : R) : R :=
  px (c t) * Derive (fun u => py (c u)) t - py (c t) * Derive (fun u => px (c u)) t.

(** [1/2 ∫_a^b (x y' - y x') dt] *)
Definition green_area (c : R -> Point R) (a b : R) : R := / 2 * RInt (green_integrand c) a b.

(** the integral exists (as a Riemann integral) and the area it defines is [v] *)
Definition has_green_area (c : R -> Point R) (a b v : R) : Prop :=
  is_RInt (green_integrand c) a b (2 * v).

(** ** Chains of segments *)

(** end of each segment = start of the next *)
Fixpoint chain_linked (segs : list (PathSeg R)) : Prop :=
  match segs with
  | s1 :: r => match r with
               | s2 :: _ => seg_end s1 = seg_start s2 /\ chain_linked r
               | [] => True
               end
  | [] => True
  end.

(** ... and end of the last = start of the first *)
Definition chain_closed (segs : list (PathSeg R)) : Prop :=
  match segs with
  | [] => True
  | s :: _ => chain_linked segs /\ seg_end (last segs s) = seg_start s
  end.

(** the same with an explicit starting point: [segs] is linked and starts at [p]; [chain_end p segs]
    is where it ends ([p] itself for the empty chain) *)
Fixpoint chain_from (p : Point R) (segs : list (PathSeg R)) : Prop :=
  match segs with
  | [] => True
  | s :: r => seg_start s = p /\ chain_from (seg_end s) r
  end.
Fixpoint chain_end (p : Point R) (segs : list (PathSeg R)) : Point R :=
  match segs with
  | [] => p
  | s :: r => chain_end (seg_end s) r
  end.

(** no [MoveTo] among the elements (the tail of one sub-path) *)
Definition no_move (els : list (PathEl R)) : Prop :=
  List.Forall (fun e => match e with MoveTo _ => False | _ => True end) els.

(** ** Closed element lists
    The pen is back at the sub-path's start whenever a sub-path ends — at a [MoveTo] that starts
    the next one and at the end of the list — either through [ClosePath] or because the last
    drawing element returned there. [st] is [Segments]' state [(start, last)]. *)
Definition move_closes (st : option (Point R * Point R)) (e : PathEl R) : Prop :=
  match e, st with
  | MoveTo _, Some (start, last) => last = start
  | _, _ => True
  end.

Fixpoint closed_from (st : option (Point R * Point R)) (els : list (PathEl R)) : Prop :=
  match els with
  | [] => match st with Some (start, last) => last = start | None => True end
  | e :: r =>
      match seg_step st e with
      | None => False                       (* leading ClosePath: the implementation panics *)
      | Some (st', _) =>
          move_closes st e /\ closed_from (Some st') r
      end
  end.
Definition closed_path (els : list (PathEl R)) : Prop := closed_from None els.

(** a syntactic sufficient condition: the list does not begin with [ClosePath], ends with [ClosePath]
    (or is empty) and every later [MoveTo] comes directly after a [ClosePath] *)
Definition is_close (e : PathEl R) : bool := match e with ClosePath => true | _ => false end.
Fixpoint close_terminated_from (prev_closed : bool) (els : list (PathEl R)) : Prop :=
  match els with
  | [] => prev_closed = true
  | e :: r => match e with MoveTo _ => prev_closed = true | _ => True end
              /\ close_terminated_from (is_close e) r
  end.
Definition close_terminated (els : list (PathEl R)) : Prop :=
  match els with ClosePath :: _ => False | _ => close_terminated_from true els end.

(** an element list that is one sub-path (or several), beginning with [MoveTo] *)
Definition starts_with_move (els : list (PathEl R)) : Prop :=
  match els with MoveTo _ :: _ => True | _ => False end.

(** sum of optional areas ([None] = panic) *)
Definition opt_add (a b : option R) : option R :=
  match a, b with Some x, Some y => Some (x + y) | _, _ => None end.

(** ** The shoelace formula of a polygon [first, ..., prev, pts...]: sum of the cross products of
    consecutive vertices, closing back to [first] *)
Fixpoint shoelace_from (first prev : Point R) (pts : list (Point R)) : R :=
  match pts with
  | [] => v_cross (to_vec2 prev) (to_vec2 first)
  | p :: r => v_cross (to_vec2 prev) (to_vec2 p) + shoelace_from first p r
  end.
Definition shoelace (a : Point R) (mid : list (Point R)) : R := / 2 * shoelace_from a a mid.

(** ** Re-expressing a line *)
Definition line_as_quad (l : Line R) : QuadBez R := mkQuad (l0 l) (pt_midpoint (l0 l) (l1 l)) (l1 l).
Definition line_as_cubic (l : Line R) : CubicBez R :=
  mkCubic (l0 l) (pt_lerp (l0 l) (l1 l) (/ 3)) (pt_lerp (l0 l) (l1 l) (2 / 3)) (l1 l).

(** ** Affine maps
    The area of the image of one (open) segment under [A = (L, v)] is [det L] times its area plus
    [aff_defect A (end) - aff_defect A (start)], where [aff_defect A p = 1/2 v x (L p)]; around a
    closed chain these boundary terms cancel. *)
Definition aff_defect (A : Affine R) (p : Point R) : R :=
  / 2 * (ae A * (ab A * px p + ad A * py p) - af A * (aa A * px p + ac A * py p)).

(** the linear part and the translation part of an affine map *)
Definition aff_linear (A : Affine R) : Affine R := mkAffine (aa A) (ab A) (ac A) (ad A) 0 0.
Definition is_linear (A : Affine R) : Prop := ae A = 0 /\ af A = 0.
