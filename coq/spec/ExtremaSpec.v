(** Vocabulary of the C08 statements (real instance). Definitions only. *)
From Coq Require Import ZArith Reals List Bool Sorting.Sorted.
From KV Require Import Scalar RInst Geom Curves Rect Path Extrema.
Import ListNotations.
Local Open Scope R_scope.

(** The velocity of a segment: the derivative curves of model/Curves.v ([ParamCurveDeriv]);
    C06 proves they are the derivatives of [seg_eval] ([C06_line_deriv], [C06_quad_deriv],
    [C06_cubic_deriv]). *)
Definition seg_vel (s : PathSeg R) (t : R) : Point R :=
  match s with
  | SegLine l => line_deriv l
  | SegQuad q => line_eval (quad_deriv q) t
  | SegCubic c => quad_eval (cubic_deriv c) t
  end.
Definition seg_vx (s : PathSeg R) (t : R) : R := px (seg_vel s t).
Definition seg_vy (s : PathSeg R) (t : R) : R := py (seg_vel s t).
Definition seg_x (s : PathSeg R) (t : R) : R := px (seg_eval s t).
Definition seg_y (s : PathSeg R) (t : R) : R := py (seg_eval s t).

(** [g] changes sign at [t]: every neighbourhood of [t] contains a parameter where [g] is
    negative and one where it is positive.  (Weaker than "negative on one side, positive on the
    other", so completeness with respect to it is the stronger claim.) *)
Definition sign_change (g : R -> R) (t : R) : Prop :=
  forall eps, 0 < eps ->
    exists u v, t - eps < u < t + eps /\ t - eps < v < t + eps /\ g u < 0 /\ 0 < g v.

(** [g] is not the zero function *)
Definition not_identically_zero (g : R -> R) : Prop := exists u, g u <> 0.

(** What the property asks of a list of reported extrema of [s]. *)
Record extrema_spec (s : PathSeg R) (l : list R) : Prop := {
  (* only interior parameters at which x' or y' vanishes *)
  ex_sound : forall t, In t l -> 0 < t < 1 /\ (seg_vx s t = 0 \/ seg_vy s t = 0);
  (* every interior parameter at which x' or y' changes sign *)
  ex_complete : forall t, 0 < t < 1 ->
      sign_change (seg_vx s) t \/ sign_change (seg_vy s) t -> In t l;
  (* more: every interior zero of x' (of y'), unless that velocity is identically zero *)
  ex_complete_zeros : forall t, 0 < t < 1 ->
      (seg_vx s t = 0 /\ not_identically_zero (seg_vx s)) \/
      (seg_vy s t = 0 /\ not_identically_zero (seg_vy s)) -> In t l;
  ex_sorted : StronglySorted Rle l;
  ex_length : (length l <= 4)%nat
}.

(** monotone (weakly increasing or weakly decreasing) on [a, b] *)
Definition mono_on (f : R -> R) (a b : R) : Prop :=
  (forall u v, a <= u -> u <= v -> v <= b -> f u <= f v) \/
  (forall u v, a <= u -> u <= v -> v <= b -> f v <= f u).

(** the closed rectangle [r] contains the point [p] *)
Definition rect_has (r : Rect R) (p : Point R) : Prop :=
  rx0 r <= px p <= rx1 r /\ ry0 r <= py p <= ry1 r.

(** rectangle [inner] lies inside rectangle [outer] *)
Definition rect_within (inner outer : Rect R) : Prop :=
  rx0 outer <= rx0 inner /\ ry0 outer <= ry0 inner /\ rx1 inner <= rx1 outer /\ ry1 inner <= ry1 outer.

(** every side of [r] is touched by the segment at some parameter in [0,1] *)
Definition touches_all_sides (s : PathSeg R) (r : Rect R) : Prop :=
  (exists t, 0 <= t <= 1 /\ seg_x s t = rx0 r) /\
  (exists t, 0 <= t <= 1 /\ seg_x s t = rx1 r) /\
  (exists t, 0 <= t <= 1 /\ seg_y s t = ry0 r) /\
  (exists t, 0 <= t <= 1 /\ seg_y s t = ry1 r).

(** the same for a list of segments: each side is touched by one of them *)
Definition segs_touch_all_sides (segs : list (PathSeg R)) (r : Rect R) : Prop :=
  (exists s t, In s segs /\ 0 <= t <= 1 /\ seg_x s t = rx0 r) /\
  (exists s t, In s segs /\ 0 <= t <= 1 /\ seg_x s t = rx1 r) /\
  (exists s t, In s segs /\ 0 <= t <= 1 /\ seg_y s t = ry0 r) /\
  (exists s t, In s segs /\ 0 <= t <= 1 /\ seg_y s t = ry1 r).

(** The guard under which the real-number run of the faithful model [cubic_extrema] equals the
    run of the compiled code: in each coordinate the leading coefficient of the derivative is
    non-zero, or the derivative is constant.  (When it is zero the binary64 code takes
    [solve_quadratic]'s linear block, which the real instance, where [x/0 = 0] is finite, never
    reaches; [cubic_extrema_lin] makes that branch explicit.) *)
Definition lead_ok (d0 d1 d2 : R) : Prop := oc_a d0 d1 d2 <> 0 \/ oc_b d0 d1 = 0.
Definition cubic_lead_ok (c : CubicBez R) : Prop :=
  lead_ok (px (c1 c) - px (c0 c)) (px (c2 c) - px (c1 c)) (px (c3 c) - px (c2 c)) /\
  lead_ok (py (c1 c) - py (c0 c)) (py (c2 c) - py (c1 c)) (py (c3 c) - py (c2 c)).
Definition seg_lead_ok (s : PathSeg R) : Prop :=
  match s with SegCubic c => cubic_lead_ok c | _ => True end.
