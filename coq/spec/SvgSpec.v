(** Specification vocabulary for C16: the SVG path-data grammar and its meaning.

    - the number grammar  [+-]? (d+ (. d* )? | . d+) ([eE] [+-]? d+)?   ([number_tok]);
    - abstract path commands [SCmd] (the commands of SVG 1.1 section 8.3 / SVG 2 section 9.3,
      absolute or relative) and their meaning [interp] as a list of kurbo path elements:
      relative = offset from the current point; H/V keep the other coordinate; S/T reflect
      the previous control point about the current point ONLY if the previous command was
      C/c/S/s (resp. Q/q/T/t) and use the current point otherwise; Z returns to the start of
      the sub-path and the next command that is not a moveto starts a new sub-path there
      (kurbo writes that as an explicit MoveTo); the first command must be a moveto;
    - spellings [Spell] of a command list as bytes ([render]): command letter present or omitted
      (implicit repetition: same letter again, or L/l after M/m), white space before the letter
      and between letter and first argument, and between arguments either comma-wsp
      (wsp* ,? wsp* ) or nothing where the greedy tokenisation still splits at the same place,
      any token of the number grammar for each number (signs incl. '+', leading/trailing '.',
      exponents);
    - the drawing level: an element list written with absolute or relative commands, H/V and
      S/T where applicable ([encode]). *)

From Coq Require Import ZArith List Bool.
From KV Require Import Scalar Geom Curves Path ShapeTypes Svg.
Import ListNotations.
Set Implicit Arguments.

(** ** the number grammar *)
Local Open Scope Z_scope.
Definition all_ws (w : list Z) : Prop := forallb is_ws w = true.
Definition digits (d : list Z) : Prop := forallb is_digit d = true.

Definition sign_str (s : list Z) : Prop := s = [] \/ s = [45] \/ s = [43].
(** d+ | d+ . d* | . d+  *)
Definition mant_str (m : list Z) : Prop :=
  (m <> [] /\ digits m) \/
  (exists a b, m = a ++ 46 :: b /\ digits a /\ digits b /\ (a <> [] \/ b <> [])).
Definition exp_str (e : list Z) : Prop :=
  e = [] \/ exists c sg d, e = c :: sg ++ d /\ is_e c = true /\ sign_str sg /\ d <> [] /\ digits d.
Definition number_tok (t : list Z) : Prop :=
  exists sg m e, t = sg ++ m ++ e /\ sign_str sg /\ mant_str m /\ exp_str e.

(** what [show x] looks like for a finite x (Rust's [Display for f64]): -? d+ (. d+)? *)
Definition shown_str (s : list Z) : Prop :=
  exists sg a b, s = sg ++ a ++ b /\ (sg = [] \/ sg = [45]) /\ a <> [] /\ digits a /\
                 (b = [] \/ exists f, b = 46 :: f /\ f <> [] /\ digits f).

Definition has_e (t : list Z) : bool := existsb is_e t.
Definition has_dot_or_e (t : list Z) : bool := existsb (fun c => is_period c || is_e c) t.

(** [delim t k]: the text [k] following token [t] cannot be taken for a continuation of [t]
    by the greedy tokeniser: it does not start with a digit, nor with e/E unless [t] already
    has an exponent, nor with '.' unless [t] already has a '.' or an exponent *)
Definition delim (t k : list Z) : Prop :=
  match k with
  | [] => True
  | c :: _ => is_digit c = false /\ (has_e t = false -> is_e c = false)
              /\ (has_dot_or_e t = false -> is_period c = false)
  end.

(** comma-wsp?:  wsp* (, wsp* )? *)
Definition Sep (s : list Z) : Prop :=
  exists w1 w2 (comma : bool), s = w1 ++ (if comma then 44 :: w2 else []) /\ all_ws w1 /\ all_ws w2.

Section SvgSpec.
Context {T : Type} `{Scalar T}.
Local Open Scope S_scope.
Variable num_of : list Z -> option T.
Variable frem : T -> T -> T.

(** ** abstract commands *)
Inductive SCmd :=
| CM (rel : bool) (p : Point T)
| CL (rel : bool) (p : Point T)
| CH (rel : bool) (x : T)
| CV (rel : bool) (y : T)
| CC (rel : bool) (p1 p2 p3 : Point T)
| CS (rel : bool) (p2 p3 : Point T)
| CQ (rel : bool) (p1 p2 : Point T)
| CT (rel : bool) (p : Point T)
| CA (rel : bool) (radii : Point T) (rot : T) (large sweep : bool) (p : Point T)
| CZ (rel : bool).                                     (* 'z' or 'Z': same meaning *)

Definition cmd_kind (c : SCmd) : CmdKind :=
  match c with
  | CM _ _ => KM | CL _ _ => KL | CH _ _ => KH | CV _ _ => KV | CC _ _ _ _ => KC | CS _ _ _ => KS
  | CQ _ _ _ => KQ | CT _ _ => KT | CA _ _ _ _ _ _ => KA | CZ _ => KZ
  end.
Definition cmd_rel (c : SCmd) : bool :=
  match c with
  | CM r _ | CL r _ | CH r _ | CV r _ | CC r _ _ _ | CS r _ _ | CQ r _ _ | CT r _
  | CA r _ _ _ _ _ | CZ r => r
  end.
Definition cmd_letter (c : SCmd) : Z :=
  (if cmd_rel c then kind_letter (cmd_kind c) + 32 else kind_letter (cmd_kind c))%Z.

Inductive Arg := ANum (x : T) | AFlag (b : bool).
Definition pt_args (p : Point T) : list Arg := [ANum (px p); ANum (py p)].
Definition cmd_args (c : SCmd) : list Arg :=
  match c with
  | CM _ p | CL _ p | CT _ p => pt_args p
  | CH _ x | CV _ x => [ANum x]
  | CC _ p1 p2 p3 => pt_args p1 ++ pt_args p2 ++ pt_args p3
  | CS _ p1 p2 | CQ _ p1 p2 => pt_args p1 ++ pt_args p2
  | CA _ r rot l s p => pt_args r ++ [ANum rot; AFlag l; AFlag s] ++ pt_args p
  | CZ _ => []
  end.

(** ** meaning *)
Inductive PrevCtrl := PNone | PCubic (c : Point T) | PQuad (c : Point T).
Record IState := mkIS {
  i_started : bool;            (* a moveto has been seen *)
  i_cur : Point T;             (* current point *)
  i_start : Point T;           (* start of the current sub-path *)
  i_prev : PrevCtrl;           (* control point the next smooth command may reflect *)
  i_pending : bool }.          (* the previous command was a closepath *)
Definition i_init : IState := mkIS false origin origin PNone false.

Definition absolute (rel : bool) (cur p : Point T) : Point T :=
  if rel then mkPoint (px cur + px p) (py cur + py p) else p.
(** reflection of [c] about [cur] *)
Definition reflect (cur c : Point T) : Point T :=
  mkPoint (f2 * px cur - px c) (f2 * py cur - py c).

Definition interp_step (s : IState) (c : SCmd) : res (IState * list (PathEl T)) :=
  let cur := i_cur s in
  let start := i_start s in
  let pre : list (PathEl T) := if i_pending s then [MoveTo start] else [] in
  match c with
  | CM rel p => let q := absolute rel cur p in Ok (mkIS true q q PNone false, [MoveTo q])
  | _ =>
    if negb (i_started s) then Err UninitializedPath else
    match c with
    | CM _ _ => Err UninitializedPath (* unreachable *)
    | CL rel p => let q := absolute rel cur p in
                  Ok (mkIS true q start PNone false, pre ++ [LineTo q])
    | CH rel x => let q := mkPoint (if rel then px cur + x else x) (py cur) in
                  Ok (mkIS true q start PNone false, pre ++ [LineTo q])
    | CV rel y => let q := mkPoint (px cur) (if rel then py cur + y else y) in
                  Ok (mkIS true q start PNone false, pre ++ [LineTo q])
    | CC rel p1 p2 p3 =>
        let q1 := absolute rel cur p1 in let q2 := absolute rel cur p2 in let q3 := absolute rel cur p3 in
        Ok (mkIS true q3 start (PCubic q2) false, pre ++ [CurveTo q1 q2 q3])
    | CS rel p2 p3 =>
        let q1 := match i_prev s with PCubic c2 => reflect cur c2 | _ => cur end in
        let q2 := absolute rel cur p2 in let q3 := absolute rel cur p3 in
        Ok (mkIS true q3 start (PCubic q2) false, pre ++ [CurveTo q1 q2 q3])
    | CQ rel p1 p2 =>
        let q1 := absolute rel cur p1 in let q2 := absolute rel cur p2 in
        Ok (mkIS true q2 start (PQuad q1) false, pre ++ [QuadTo q1 q2])
    | CT rel p =>
        let q1 := match i_prev s with PQuad c1 => reflect cur c1 | _ => cur end in
        let q2 := absolute rel cur p in
        Ok (mkIS true q2 start (PQuad q1) false, pre ++ [QuadTo q1 q2])
    | CA rel radii rot large sweep p =>
        let q := absolute rel cur p in
        Ok (mkIS true q start PNone false,
            pre ++ arc_els frem true cur q radii (to_radians rot) large sweep)
    | CZ _ => Ok (mkIS true start start PNone true, pre ++ [ClosePath])
    end
  end.

Fixpoint interp_from (s : IState) (cmds : list SCmd) : res (list (PathEl T)) :=
  match cmds with
  | [] => Ok []
  | c :: r =>
      match interp_step s c with
      | Err e => Err e
      | Ok (s', em) => match interp_from s' r with Ok els => Ok (em ++ els) | Err e => Err e end
      end
  end.
Definition interp (cmds : list SCmd) : res (list (PathEl T)) := interp_from i_init cmds.

(** ** spellings *)

(** how one command is written *)
Record Spell := mkSpell {
  sp_omit : bool;             (* the command letter is omitted (implicit repetition) *)
  sp_lead : list Z;           (* what precedes the command: wsp*, or comma-wsp? if the letter is omitted *)
  sp_first : list Z;          (* wsp* between the letter and the first argument *)
  sp_args : list (list Z);    (* the text of each argument *)
  sp_seps : list (list Z) }.  (* the separator before argument 2, 3, ... *)

Fixpoint interleave (args seps : list (list Z)) : list Z :=
  match args with
  | [] => []
  | a :: r => a ++ match r, seps with
                   | [], _ => []
                   | _, s :: ss => s ++ interleave r ss
                   | _, [] => interleave r []
                   end
  end.

Definition render_cmd (c : SCmd) (sp : Spell) : list Z :=
  sp_lead sp ++ (if sp_omit sp then [] else cmd_letter c :: sp_first sp)
  ++ interleave (sp_args sp) (sp_seps sp).

Fixpoint render (cmds : list SCmd) (sps : list Spell) (tail : list Z) : list Z :=
  match cmds, sps with
  | c :: cs, sp :: sps' => render_cmd c sp ++ render cs sps' tail
  | _, _ => tail
  end.

(** validity of the text of one argument *)
Definition arg_ok (a : Arg) (t : list Z) : Prop :=
  match a with
  | ANum x => number_tok t /\ num_of t = Some x
  | AFlag b => t = [if b then 49%Z else 48%Z]
  end.

(** what may follow argument [a] written [t] without a separator *)
Definition glue_ok (a : Arg) (t next : list Z) : Prop :=
  match a with ANum _ => delim t next | AFlag _ => True end.

(** separators between the arguments of one command: each is comma-wsp?, and empty only where
    the next argument cannot be read as a continuation of the previous one *)
Fixpoint seps_ok (args : list Arg) (ts seps : list (list Z)) : Prop :=
  match args, ts with
  | a :: ((_ :: _) as args'), t :: ((t2 :: _) as ts') =>
      match seps with
      | s :: ss => Sep s /\ (s = [] -> glue_ok a t t2) /\ seps_ok args' ts' ss
      | [] => False
      end
  | _, _ => seps = []
  end.

(** implicit repetition: the same command again (not moveto/closepath), or lineto after moveto *)
Definition omit_ok (prev : option SCmd) (c : SCmd) : Prop :=
  match prev with
  | None => False
  | Some p =>
      (cmd_letter p = cmd_letter c /\ cmd_kind c <> KM /\ cmd_kind c <> KZ) \/
      (cmd_kind p = KM /\ cmd_kind c = KL /\ cmd_rel p = cmd_rel c)
  end.

Definition last_arg (c : SCmd) (sp : Spell) : option (Arg * list Z) :=
  match cmd_args c, sp_args sp with
  | _ :: _, _ :: _ => Some (last (cmd_args c) (AFlag false), last (sp_args sp) [])
  | _, _ => None
  end.

(** [spell_ok prev prevsp c sp]: [sp] is a valid way of writing [c] after [prev] written [prevsp] *)
Definition spell_ok (prev : option (SCmd * Spell)) (c : SCmd) (sp : Spell) : Prop :=
  Forall2 arg_ok (cmd_args c) (sp_args sp) /\
  seps_ok (cmd_args c) (sp_args sp) (sp_seps sp) /\
  if sp_omit sp then
    omit_ok (option_map fst prev) c /\ Sep (sp_lead sp) /\
    (sp_lead sp = [] ->
       match prev, sp_args sp with
       | Some (p, psp), t :: _ =>
           match last_arg p psp with Some (a, pt) => glue_ok a pt t | None => False end
       | _, _ => False
       end)
  else
    all_ws (sp_lead sp) /\ all_ws (sp_first sp).

Fixpoint spells_ok (prev : option (SCmd * Spell)) (cmds : list SCmd) (sps : list Spell) : Prop :=
  match cmds, sps with
  | [], [] => True
  | c :: cs, sp :: sps' => spell_ok prev c sp /\ spells_ok (Some (c, sp)) cs sps'
  | _, _ => False
  end.

(** ** the drawing level: an element list written in a chosen command vocabulary *)

(** per element: relative or absolute; and the short form where it applies — H/V for a
    horizontal/vertical line, S/T when the first control point is the one a smooth command implies,
    nothing at all for a MoveTo to the start of the sub-path just closed when another drawing
    command follows *)
Record Choice := mkChoice { ch_rel : bool; ch_short : bool }.

Definition offset (rel : bool) (cur p : Point T) : Point T :=
  if rel then mkPoint (px p - px cur) (py p - py cur) else p.

Definition smooth_pt (cur : Point T) (prev : PrevCtrl) (cubic : bool) : Point T :=
  match prev, cubic with
  | PCubic c2, true => reflect cur c2
  | PQuad c1, false => reflect cur c1
  | _, _ => cur
  end.

Definition not_move (els : list (PathEl T)) : bool :=
  match els with [] => false | MoveTo _ :: _ => false | _ => true end.

Fixpoint encode_from (cur start : Point T) (prev : PrevCtrl) (pending : bool)
         (els : list (PathEl T)) (chs : list Choice) : list SCmd :=
  match els with
  | [] => []
  | e :: r =>
      let ch := hd (mkChoice false false) chs in
      let chs' := tl chs in
      let rel := ch_rel ch in
      match e with
      | MoveTo p =>
          if pending && ch_short ch && pt_eqb p start && not_move r
          then encode_from cur start prev pending r chs'
          else CM rel (offset rel cur p) :: encode_from p p PNone false r chs'
      | LineTo p =>
          (if ch_short ch && feqb (py p) (py cur) then CH rel (px (offset rel cur p))
           else if ch_short ch && feqb (px p) (px cur) then CV rel (py (offset rel cur p))
           else CL rel (offset rel cur p)) :: encode_from p start PNone false r chs'
      | QuadTo p1 p2 =>
          (if ch_short ch && pt_eqb p1 (smooth_pt cur prev false) then CT rel (offset rel cur p2)
           else CQ rel (offset rel cur p1) (offset rel cur p2))
          :: encode_from p2 start (PQuad p1) false r chs'
      | CurveTo p1 p2 p3 =>
          (if ch_short ch && pt_eqb p1 (smooth_pt cur prev true)
           then CS rel (offset rel cur p2) (offset rel cur p3)
           else CC rel (offset rel cur p1) (offset rel cur p2) (offset rel cur p3))
          :: encode_from p3 start (PCubic p2) false r chs'
      | ClosePath => CZ rel :: encode_from start start PNone true r chs'
      end
  end.

Definition encode (els : list (PathEl T)) (chs : list Choice) : list SCmd :=
  encode_from origin origin PNone false els chs.

End SvgSpec.
