(** Vocabulary for the C18 statements: chains of parameter ranges, well-formed sub-paths and
    their non-degenerate segments, corner vertices, the one-sided distance between parametrised
    curves, and polynomial integrals over [0,1]. Definitions only. *)
From Coq Require Import ZArith QArith Reals List Bool.
From KV Require Import Scalar RInst Geom Curves Path Fit.
Import ListNotations.

Set Implicit Arguments.

Section Generic.
Context {T : Type} `{Scalar T}.

(** consecutive ranges share their end points, from [a] to [b] *)
Fixpoint chain (a : T) (rs : list (T * T)) (b : T) : Prop :=
  match rs with
  | [] => a = b
  | (x, y) :: r => x = a /\ chain y r b
  end.

(** drawing elements: everything except MoveTo and ClosePath *)
Definition is_draw (e : PathEl T) : bool :=
  match e with LineTo _ | QuadTo _ _ | CurveTo _ _ _ => true | _ => false end.
Definition is_curveto (e : PathEl T) : bool :=
  match e with CurveTo _ _ _ => true | _ => false end.

(** the point a non-empty element list ends at *)
Definition last_end (l : list (PathEl T)) : option (Point T) :=
  match rev l with [] => None | e :: _ => el_end e end.

(** the elements of [l] end at these points (its vertices) *)
Definition vertices (l : list (PathEl T)) : list (Point T) :=
  flat_map (fun e => match el_end e with Some p => [p] | None => [] end) l.

(** A well-formed sub-path: MoveTo, drawing elements, optional ClosePath *)
Record Subpath := mkSub { sp_start : Point T; sp_body : list (PathEl T); sp_closed : bool }.
Definition sub_els (s : Subpath) : list (PathEl T) :=
  MoveTo (sp_start s) :: sp_body s ++ (if sp_closed s then [ClosePath] else []).

(** the non-degenerate segments simplify_bezpath extracts from a body, starting at [last]
    (elements that do not move are skipped, simplify.rs 314-333) *)
Fixpoint body_segs (last : Point T) (body : list (PathEl T)) : list (PathSeg T) :=
  match body with
  | [] => []
  | LineTo p :: r =>
      if pt_eq last p then body_segs last r else SegLine (mkLine last p) :: body_segs p r
  | QuadTo p1 p2 :: r =>
      if pt_eq last p1 && pt_eq last p2 then body_segs last r
      else SegQuad (mkQuad last p1 p2) :: body_segs p2 r
  | CurveTo p1 p2 p3 :: r =>
      if pt_eq last p1 && pt_eq last p2 && pt_eq last p3 then body_segs last r
      else SegCubic (mkCubic last p1 p2 p3) :: body_segs p3 r
  | _ :: r => body_segs last r
  end.
Definition sub_segs (s : Subpath) : list (PathSeg T) := body_segs (sp_start s) (sp_body s).

(** corner vertices of a segment list for a given corner test *)
Fixpoint corner_vertices (corner : PathSeg T -> PathSeg T -> bool) (segs : list (PathSeg T)) : list (Point T) :=
  match segs with
  | a :: (b :: _) as r => (if corner a b then [seg_end a] else []) ++ corner_vertices corner r
  | _ => []
  end.

Definition segs_end (segs : list (PathSeg T)) : option (Point T) :=
  match rev segs with [] => None | s :: _ => Some (seg_end s) end.

End Generic.

Arguments Subpath T : clear implicits.

(** ** real-number vocabulary *)
Local Open Scope R_scope.

Definition pdist2 (a b : Point R) : R := (px a - px b) * (px a - px b) + (py a - py b) * (py a - py b).

(** every point of [P] on [a,b] is within [eps] of some point of [Q] on [0,1] *)
Definition within_one_sided (P : R -> Point R) (a b : R) (Q : R -> Point R) (eps : R) : Prop :=
  forall t, a <= t <= b -> exists u, 0 <= u <= 1 /\ pdist2 (P t) (Q u) <= eps * eps.

(** polynomials as coefficient lists (lowest degree first) *)
Fixpoint peval (p : list R) (t : R) : R :=
  match p with [] => 0 | a :: r => a + t * peval r t end.
Fixpoint padd (p q : list R) : list R :=
  match p, q with
  | [], _ => q
  | _, [] => p
  | a :: p', b :: q' => (a + b) :: padd p' q'
  end.
Definition pscale (k : R) (p : list R) : list R := map (Rmult k) p.
Fixpoint pmul (p q : list R) : list R :=
  match p with
  | [] => []
  | a :: p' => padd (pscale a q) (0 :: pmul p' q)
  end.
(** integral over [0,1]: sum a_i / (i+1) *)
Fixpoint pint_from (k : nat) (p : list R) : R :=
  match p with [] => 0 | a :: r => a / INR (S k) + pint_from (S k) r end.
Definition pint (p : list R) : R := pint_from 0 p.
(** derivative *)
Fixpoint pderiv_from (k : nat) (p : list R) : list R :=
  match p with [] => [] | a :: r => (INR k * a) :: pderiv_from (S k) r end.
Definition pderiv (p : list R) : list R :=
  match p with [] => [] | _ :: r => pderiv_from 1 r end.

(** power-basis coefficients of a cubic Bézier coordinate *)
Definition bez3 (a b c d : R) : list R :=
  [a; 3 * (b - a); 3 * (a - 2 * b + c); d - 3 * c + 3 * b - a].

(** both directions: [P] on [a,b] against [Q] on [0,1] *)
Definition two_sided (P : R -> Point R) (a b : R) (Q : R -> Point R) (eps : R) : Prop :=
  within_one_sided P a b Q eps /\
  forall u, 0 <= u <= 1 -> exists t, a <= t <= b /\ pdist2 (Q u) (P t) <= eps * eps.

(** the source curve [P] on [0,1] and a list of cubics are within [eps] of each other (Hausdorff) *)
Definition hausdorff_path (P : R -> Point R) (cubics : list (CubicBez R)) (eps : R) : Prop :=
  (forall t, 0 <= t <= 1 -> exists c, In c cubics /\ exists u, 0 <= u <= 1 /\ pdist2 (P t) (cubic_eval c u) <= eps * eps) /\
  (forall c, In c cubics -> forall u, 0 <= u <= 1 -> exists t, 0 <= t <= 1 /\ pdist2 (cubic_eval c u) (P t) <= eps * eps).
