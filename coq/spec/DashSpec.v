(** Vocabulary for property C13 (dashing).

    Part 1 (generic scalar): a *structural* description of what the dasher emits,
    free of the four-state machine and of the stash:
      - [subpaths]: how an element list falls into sub-paths (start point, the segments
        in order, closed or not) — every element list, no well-formedness assumed;
      - [seg_pieces]/[plain]: the pieces of the pattern along one segment / one sub-path,
        in path order, threading the phase (index, remaining, on/off);
      - [subpath_out]: the first dash is moved behind the others; on a closed sub-path it
        is joined to the last one when both are on (its MoveTo is dropped), and an
        unbroken dash is closed by ClosePath;
      - [dash_spec]: the concatenation over the sub-paths, each starting from the
        initial phase.
    proofs/C13_proofs.v shows the machine of model/Dash.v computes exactly [dash_spec].

    Part 2 (reals): the dash pattern as a set of "on" intervals on the half-line and its
    measure inside an interval, independent of any code. *)

From Coq Require Import ZArith QArith List Bool Floats Arith Reals.
From KV Require Import Scalar RInst Geom Curves Path Dash.
Import ListNotations.

Set Implicit Arguments.

Section ListAux.
Variable A : Type.
Variable f : A -> bool.
Fixpoint takeWhile (l : list A) : list A :=
  match l with [] => [] | x :: r => if f x then x :: takeWhile r else [] end.
Fixpoint dropWhile (l : list A) : list A :=
  match l with [] => [] | x :: r => if f x then dropWhile r else l end.
End ListAux.

Section DashSpec.
Context {T : Type} `{Scalar T}.
Local Open Scope S_scope.

Variable arclen : PathSeg T -> T.
Variable inv_arclen : PathSeg T -> T -> T.
Variable dashes : list T.

Definition not_move (e : PathEl T) : bool := match e with MoveTo _ => false | _ => true end.

(** One sub-path: where it starts, its segments in order (including the closing line a
    ClosePath draws when the current point differs from the start), closed or open. *)
Record SubPath := mkSub { sp_start : Point T; sp_segs : list (PathSeg T); sp_closed : bool }.

(** [start]/[last] as in [Segments]/[DashIterator]: MoveTo opens a new sub-path; ClosePath
    ends the current one and leaves the current point at its start, so that segment
    elements following it form a further sub-path from that point. *)
Fixpoint subpaths_go (els : list (PathEl T)) (start last : Point T) (acc : list (PathSeg T))
  : list SubPath :=
  match els with
  | [] => [mkSub start acc false]
  | MoveTo p :: r => mkSub start acc false :: subpaths_go r p p []
  | LineTo p1 :: r => subpaths_go r start p1 (acc ++ [SegLine (mkLine last p1)])
  | QuadTo p1 p2 :: r => subpaths_go r start p2 (acc ++ [SegQuad (mkQuad last p1 p2)])
  | CurveTo p1 p2 p3 :: r => subpaths_go r start p3 (acc ++ [SegCubic (mkCubic last p1 p2 p3)])
  | ClosePath :: r =>
      (* [last != start] is Rust's float comparison: when it is false the current point is kept
         as it is (it may differ from [start] in the sign of a zero) *)
      if pt_neb last start
      then mkSub start (acc ++ [SegLine (mkLine last start)]) true :: subpaths_go r start start []
      else mkSub start acc true :: subpaths_go r start last []
  end.

(** the iterator starts with start = last = the origin *)
Definition origin : Point T := mkPoint f0 f0.
Definition subpaths (els : list (PathEl T)) : list SubPath := subpaths_go els origin origin [].

(** Pieces of the pattern along [seg] from parameter [t] on, [srem] being the arc length
    left in the segment and [ph] the phase there.  At a switch inside the segment an "on"
    phase ends with the piece up to the switch, an "off" phase ends with a MoveTo to it;
    at the end of the segment an "on" phase yields the rest of the segment.
    Result: the elements, the number of switches, the phase at the end of the segment.
    [None]: more than [fuel] switches. *)
Fixpoint seg_pieces (fuel : nat) (seg : PathSeg T) (t srem : T) (ph : Phase T)
  : option (list (PathEl T) * nat * Phase T) :=
  if p_rem ph <? srem then
    match fuel with
    | O => None
    | S f =>
        let sub := seg_subsegment seg t f1 in
        let t1 := inv_arclen sub (p_rem ph) in
        let el := if p_act ph then seg_to_el (seg_subsegment sub f0 t1) else MoveTo (seg_eval sub t1) in
        let ix := next_ix dashes (p_ix ph) in
        match seg_pieces f seg (t + t1 * (f1 - t)) (srem - p_rem ph)
                (mkPhase ix (nth ix dashes f0) (negb (p_act ph))) with
        | Some (els, n, ph') => Some (el :: els, S n, ph')
        | None => None
        end
    end
  else
    Some ((if p_act ph then [seg_to_el (seg_subsegment seg t f1)] else []), O,
          mkPhase (p_ix ph) (p_rem ph - srem) (p_act ph)).

(** all pieces of a run of segments, in path order *)
Fixpoint plain (fuel : nat) (segs : list (PathSeg T)) (ph : Phase T)
  : option (list (PathEl T) * nat * Phase T) :=
  match segs with
  | [] => Some ([], O, ph)
  | s :: r =>
      match seg_pieces fuel s f0 (arclen s) ph with
      | None => None
      | Some (e1, n1, ph1) =>
          match plain fuel r ph1 with
          | None => None
          | Some (e2, n2, ph2) => Some (e1 ++ e2, (n1 + n2)%nat, ph2)
          end
      end
  end.

(** What the dasher emits for one sub-path, [init] being the phase at its start. *)
Definition subpath_out (fuel : nat) (init : Phase T) (sp : SubPath) : option (list (PathEl T)) :=
  match sp_segs sp with
  | [] => Some []                                (* nothing to dash *)
  | s0 :: _ =>
      match plain fuel (sp_segs sp) init with
      | None => None
      | Some (pcs, nsw, phe) =>
          (* the first dash (if the sub-path starts "on") and the other pieces; it starts at the
             start of the first segment (= [sp_start sp] up to the sign of a zero coordinate) *)
          let first := if p_act init then MoveTo (seg_start s0) :: takeWhile not_move pcs else [] in
          let others := dropWhile not_move pcs in
          Some (if sp_closed sp then
                  if (nsw =? 0)%nat && p_act init then first ++ [ClosePath]     (* one unbroken dash all around *)
                  else if p_act phe then others ++ tl first             (* last and first dash joined *)
                  else others ++ first
                else others ++ first)
      end
  end.

Fixpoint concat_opt (l : list (option (list (PathEl T)))) : option (list (PathEl T)) :=
  match l with
  | [] => Some []
  | None :: _ => None
  | Some x :: r => match concat_opt r with Some y => Some (x ++ y) | None => None end
  end.

Definition dash_spec_from (fuel : nat) (init : Phase T) (els : list (PathEl T)) : option (list (PathEl T)) :=
  concat_opt (map (subpath_out fuel init) (subpaths els)).

(** [None]: empty pattern, or fuel exhausted *)
Definition dash_spec (fuel : nat) (offset : T) (els : list (PathEl T)) : option (list (PathEl T)) :=
  match dash_init fixes_all dashes fuel offset with
  | InitOk init => dash_spec_from fuel init els
  | _ => None
  end.

End DashSpec.

Arguments SubPath T : clear implicits.

(** * Part 2: the pattern on the real half-line *)
Section Pattern.
Local Open Scope R_scope.
Variable ds : list R.

(** boundary number [k]: the sum of the first [k] intervals of the pattern repeated cyclically *)
Fixpoint cum (k : nat) : R :=
  match k with
  | O => 0
  | S j => cum j + nth (j mod length ds) ds 0
  end.

(** length of [a,b] ∩ [lo,hi] *)
Definition overlap (lo hi a b : R) : R := Rmax 0 (Rmin hi b - Rmax lo a).

(** measure of the "on" set { x | cum k <= x <= cum (k+1), k even } inside [a,b], counting
    the intervals number 0 .. K-1 (all further ones lie beyond [cum K]) *)
Fixpoint on_meas (K : nat) (a b : R) : R :=
  match K with
  | O => 0
  | S j => on_meas j a b + (if Nat.even j then overlap (cum j) (cum (S j)) a b else 0)
  end.

(** position [x] lies in interval number [k] of the pattern *)
Definition in_interval (k : nat) (x : R) : Prop := cum k <= x <= cum (S k).

End Pattern.

(** * Part 3: what "in path order, on the source, switching where the pattern switches" means
    for a polyline, independent of any code *)
Section Trace.
Local Open Scope R_scope.
Variable ds : list R.

Definition llen (l : Line R) : R := line_arclen l.

(** [Trace l x0 t k els k']: [els] are pieces of the line [l], whose start sits at pattern
    position [x0]; we stand at parameter [t] of [l], inside interval [k] of the pattern.
    Every element ends at a point [line_eval l t'] of [l] with [t'] not before the previous one;
    inside the line an element ends exactly where interval [k] ends
    ([x0 + t' * length = cum (k+1)]): a LineTo if that interval was "on" (even), a MoveTo
    starting the next dash if it was "off"; the rest of the line is drawn iff the last interval
    reached is "on".  [k'] is the interval in which the line ends. *)
Inductive Trace (l : Line R) (x0 : R) : R -> nat -> list (PathEl R) -> nat -> Prop :=
| tr_end t k :
    0 <= t <= 1 -> cum ds k <= x0 + t * llen l -> x0 + llen l <= cum ds (S k) ->
    Trace l x0 t k (if Nat.even k then [LineTo (line_eval l 1)] else []) k
| tr_switch t k t' els k' :
    0 <= t -> t <= t' -> t' <= 1 -> cum ds k <= x0 + t * llen l ->
    x0 + t' * llen l = cum ds (S k) ->
    Trace l x0 t' (S k) els k' ->
    Trace l x0 t k ((if Nat.even k then LineTo (line_eval l t') else MoveTo (line_eval l t')) :: els) k'.

(** the same along the lines of a sub-path, one after the other, the pattern position running on *)
Inductive PTrace : list (Line R) -> R -> nat -> list (PathEl R) -> nat -> Prop :=
| pt_nil x k : PTrace [] x k [] k
| pt_cons l r x k e1 k1 e2 k2 :
    Trace l x 0 k e1 k1 -> PTrace r (x + llen l) k1 e2 k2 ->
    PTrace (l :: r) x k (e1 ++ e2) k2.

(** consecutive lines are connected *)
Fixpoint chained (ls : list (Line R)) : Prop :=
  match ls with
  | l :: ((l' :: _) as r) => l1 l = l0 l' /\ chained r
  | _ => True
  end.

Definition total_len (ls : list (Line R)) : R := fold_right (fun l a => llen l + a) 0 ls.

End Trace.

(** * Part 4: the remaining vocabulary of the statements in Properties/C13.v *)
Section Vocab.
Local Open Scope R_scope.

(** the pattern: non-empty, every interval at least [dm] > 0 *)
Definition pattern_ok (ds : list R) (dm : R) : Prop :=
  0 < dm /\ (forall d, In d ds -> dm <= d) /\ ds <> [].

(** the iterator's phase (dash_ix, dash_remaining, is_active) describes position [x] inside interval [k]
    of the cyclically repeated pattern; "on" iff [k] is even *)
Definition phase_at (ds : list R) (k : nat) (x : R) (ph : Phase R) : Prop :=
  p_ix ph = (k mod length ds)%nat /\ p_act ph = Nat.even k /\ p_rem ph = cum ds (S k) - x /\
  cum ds k <= x <= cum ds (S k).

(** fuel that suffices for the initial loop, and for the switches inside every segment *)
Definition init_fuel (dm o : R) : nat := S (Z.to_nat (up (o / dm))).
Definition fuel_ok (al : PathSeg R -> R) (dm : R) (fuel : nat) (els : list (PathEl R)) : Prop :=
  forall sp, In sp (subpaths els) -> forall s, In s (sp_segs sp) -> al s < INR fuel * dm.

(** polylines *)
Definition poly_el (e : PathEl R) : Prop :=
  match e with QuadTo _ _ => False | CurveTo _ _ _ => False | _ => True end.
Definition first_pt (ls : list (Line R)) (d : Point R) : Point R := match ls with l :: _ => l0 l | [] => d end.

(** length of a piece list drawn from the pen position [cur] *)
Fixpoint len_from (cur : Point R) (els : list (PathEl R)) : R :=
  match els with
  | [] => 0
  | MoveTo p :: r => len_from p r
  | LineTo p :: r => llen (mkLine cur p) + len_from p r
  | QuadTo _ p :: r => len_from p r
  | CurveTo _ _ p :: r => len_from p r
  | ClosePath :: r => len_from cur r
  end.

(** length of an emitted element list read as a path: MoveTo starts a dash, ClosePath draws back to
    the start of its dash *)
Fixpoint len2 (st cur : Point R) (els : list (PathEl R)) : R :=
  match els with
  | [] => 0
  | MoveTo p :: r => len2 p p r
  | LineTo p :: r => llen (mkLine cur p) + len2 st p r
  | QuadTo _ p :: r => len2 st p r
  | CurveTo _ _ p :: r => len2 st p r
  | ClosePath :: r => llen (mkLine cur st) + len2 st st r
  end.

End Vocab.
