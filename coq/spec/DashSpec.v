(** Vocabulary for property C13 (dashing).

    Part 1 (generic scalar): a *structural* description of what the dasher emits,
    free of the four-state machine and of the stash:
      - [subpaths]: how an element list falls into sub-paths (start point, the segments
        in order, closed or not) — every element list, no well-formedness assumed;
      - [seg_pieces]/[plain]: the pieces of the pattern along one segment / one sub-path,
        in path order, threading the phase (index, remaining, on/off);
      - [subpath_out]: the first dash is moved behind the others; on a closed sub-path it
        is joined to the last one when both are on (its MoveTo is dropped), and an
        unbroken dash is closed by ClosePath;
      - [dash_spec]: the concatenation over the sub-paths, each starting from the
        initial phase.
    proofs/C13_proofs.v shows the machine of model/Dash.v computes exactly [dash_spec].

    Part 2 (reals): the dash pattern as a set of "on" intervals on the half-line and its
    measure inside an interval, independent of any code. *)

From Coq Require Import ZArith QArith List Bool Floats Arith Reals.
From KV Require Import Scalar Geom Curves Path Dash.
Import ListNotations.

Set Implicit Arguments.

Section ListAux.
Variable A : Type.
Variable f : A -> bool.
Fixpoint takeWhile (l : list A) : list A :=
  match l with [] => [] | x :: r => if f x then x :: takeWhile r else [] end.
Fixpoint dropWhile (l : list A) : list A :=
  match l with [] => [] | x :: r => if f x then dropWhile r else l end.
End ListAux.

Section DashSpec.
Context {T : Type} `{Scalar T}.
Local Open Scope S_scope.

Variable arclen : PathSeg T -> T.
Variable inv_arclen : PathSeg T -> T -> T.
Variable dashes : list T.

Definition not_move (e : PathEl T) : bool := match e with MoveTo _ => false | _ => true end.

(** One sub-path: where it starts, its segments in order (including the closing line a
    ClosePath draws when the current point differs from the start), closed or open. *)
Record SubPath := mkSub { sp_start : Point T; sp_segs : list (PathSeg T); sp_closed : bool }.

(** [start]/[last] as in [Segments]/[DashIterator]: MoveTo opens a new sub-path; ClosePath
    ends the current one and leaves the current point at its start, so that segment
    elements following it form a further sub-path from that point. *)
Fixpoint subpaths_go (els : list (PathEl T)) (start last : Point T) (acc : list (PathSeg T))
  : list SubPath :=
  match els with
  | [] => [mkSub start acc false]
  | MoveTo p :: r => mkSub start acc false :: subpaths_go r p p []
  | LineTo p1 :: r => subpaths_go r start p1 (acc ++ [SegLine (mkLine last p1)])
  | QuadTo p1 p2 :: r => subpaths_go r start p2 (acc ++ [SegQuad (mkQuad last p1 p2)])
  | CurveTo p1 p2 p3 :: r => subpaths_go r start p3 (acc ++ [SegCubic (mkCubic last p1 p2 p3)])
  | ClosePath :: r =>
      mkSub start (acc ++ (if pt_neb last start then [SegLine (mkLine last start)] else [])) true
      :: subpaths_go r start start []
  end.

(** the iterator starts with start = last = the origin *)
Definition origin : Point T := mkPoint f0 f0.
Definition subpaths (els : list (PathEl T)) : list SubPath := subpaths_go els origin origin [].

(** Pieces of the pattern along [seg] from parameter [t] on, [srem] being the arc length
    left in the segment and [ph] the phase there.  At a switch inside the segment an "on"
    phase ends with the piece up to the switch, an "off" phase ends with a MoveTo to it;
    at the end of the segment an "on" phase yields the rest of the segment.
    Result: the elements, the number of switches, the phase at the end of the segment.
    [None]: more than [fuel] switches. *)
Fixpoint seg_pieces (fuel : nat) (seg : PathSeg T) (t srem : T) (ph : Phase T)
  : option (list (PathEl T) * nat * Phase T) :=
  if p_rem ph <? srem then
    match fuel with
    | O => None
    | S f =>
        let sub := seg_subsegment seg t f1 in
        let t1 := inv_arclen sub (p_rem ph) in
        let el := if p_act ph then seg_to_el (seg_subsegment sub f0 t1) else MoveTo (seg_eval sub t1) in
        let ix := next_ix dashes (p_ix ph) in
        match seg_pieces f seg (t + t1 * (f1 - t)) (srem - p_rem ph)
                (mkPhase ix (nth ix dashes f0) (negb (p_act ph))) with
        | Some (els, n, ph') => Some (el :: els, S n, ph')
        | None => None
        end
    end
  else
    Some ((if p_act ph then [seg_to_el (seg_subsegment seg t f1)] else []), O,
          mkPhase (p_ix ph) (p_rem ph - srem) (p_act ph)).

(** all pieces of a run of segments, in path order *)
Fixpoint plain (fuel : nat) (segs : list (PathSeg T)) (ph : Phase T)
  : option (list (PathEl T) * nat * Phase T) :=
  match segs with
  | [] => Some ([], O, ph)
  | s :: r =>
      match seg_pieces fuel s f0 (arclen s) ph with
      | None => None
      | Some (e1, n1, ph1) =>
          match plain fuel r ph1 with
          | None => None
          | Some (e2, n2, ph2) => Some (e1 ++ e2, (n1 + n2)%nat, ph2)
          end
      end
  end.

(** What the dasher emits for one sub-path, [init] being the phase at its start. *)
Definition subpath_out (fuel : nat) (init : Phase T) (sp : SubPath) : option (list (PathEl T)) :=
  match sp_segs sp with
  | [] => Some []                                (* nothing to dash *)
  | _ :: _ =>
      match plain fuel (sp_segs sp) init with
      | None => None
      | Some (pcs, nsw, phe) =>
          (* the first dash (if the sub-path starts "on") and the other pieces *)
          let first := if p_act init then MoveTo (sp_start sp) :: takeWhile not_move pcs else [] in
          let others := dropWhile not_move pcs in
          Some (if sp_closed sp then
                  if (nsw =? 0)%nat && p_act init then first ++ [ClosePath]     (* one unbroken dash all around *)
                  else if p_act phe then others ++ tl first             (* last and first dash joined *)
                  else others ++ first
                else others ++ first)
      end
  end.

Fixpoint concat_opt (l : list (option (list (PathEl T)))) : option (list (PathEl T)) :=
  match l with
  | [] => Some []
  | None :: _ => None
  | Some x :: r => match concat_opt r with Some y => Some (x ++ y) | None => None end
  end.

Definition dash_spec_from (fuel : nat) (init : Phase T) (els : list (PathEl T)) : option (list (PathEl T)) :=
  concat_opt (map (subpath_out fuel init) (subpaths els)).

(** [None]: empty pattern, or fuel exhausted *)
Definition dash_spec (fuel : nat) (offset : T) (els : list (PathEl T)) : option (list (PathEl T)) :=
  match dash_init fixes_all dashes fuel offset with
  | InitOk init => dash_spec_from fuel init els
  | _ => None
  end.

End DashSpec.

Arguments SubPath T : clear implicits.

(** * Part 2: the pattern on the real half-line *)
Section Pattern.
Local Open Scope R_scope.
Variable ds : list R.

(** boundary number [k]: the sum of the first [k] intervals of the pattern repeated cyclically *)
Fixpoint cum (k : nat) : R :=
  match k with
  | O => 0
  | S j => cum j + nth (j mod length ds) ds 0
  end.

(** length of [a,b] ∩ [lo,hi] *)
Definition overlap (lo hi a b : R) : R := Rmax 0 (Rmin hi b - Rmax lo a).

(** measure of the "on" set { x | cum k <= x <= cum (k+1), k even } inside [a,b], counting
    the intervals number 0 .. K-1 (all further ones lie beyond [cum K]) *)
Fixpoint on_meas (K : nat) (a b : R) : R :=
  match K with
  | O => 0
  | S j => on_meas j a b + (if Nat.even j then overlap (cum j) (cum (S j)) a b else 0)
  end.

(** position [x] lies in interval number [k] of the pattern *)
Definition in_interval (k : nat) (x : R) : Prop := cum k <= x <= cum (S k).

End Pattern.
