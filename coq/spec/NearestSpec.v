(** Vocabulary of the C09 statements (real instance). *)
From Coq Require Import ZArith Reals List Bool.
From KV Require Import Scalar RInst Geom Curves Solvers Nearest.
Local Open Scope R_scope.

(** [m] is the minimum of [F] over [0,1] and is attained at [t] *)
Definition min_on_unit_at (F : R -> R) (t m : R) : Prop :=
  0 <= t <= 1 /\ F t = m /\ forall u, 0 <= u <= 1 -> m <= F u.

(** squared distance from [p] to the curve point at parameter [u] *)
Definition line_dist2 (l : Line R) (p : Point R) (u : R) : R := pt_distance_squared p (line_eval l u).
Definition quad_dist2 (q : QuadBez R) (p : Point R) (u : R) : R := pt_distance_squared (quad_eval q u) p.
Definition cubic_dist (c : CubicBez R) (p : Point R) (u : R) : R := pt_distance (cubic_eval c u) p.

(** the polynomial whose roots [QuadBez::nearest] asks [solve_cubic] for *)
Definition crit_poly (k : R * R * R * R) (x : R) : R :=
  let '(k0, k1, k2, k3) := k in k0 + k1 * x + k2 * (x * x) + k3 * (x * x * x).

(** a list of candidate roots is complete for a polynomial: every real root is listed *)
Definition roots_complete (k : R * R * R * R) (roots : list R) : Prop :=
  forall x, crit_poly k x = 0 -> In x roots.

(** the second difference p0 - 2 p1 + p2 of the control polygon (zero iff the quadratic is a
    uniformly parametrised line or a point) *)
Definition quad_d1 (q : QuadBez R) : Vec2 R :=
  v_sub (v_add (to_vec2 (q0 q)) (to_vec2 (q2 q))) (s_scale_v 2 (to_vec2 (q1 q))).

(** what [nearest] must return for a quadratic *)
Definition quad_nearest_spec (q : QuadBez R) (p : Point R) (r : option (R * R)) : Prop :=
  exists t d, r = Some (t, d) /\ min_on_unit_at (quad_dist2 q p) t d.

(** [solve_cubic] as binary64 (and any scalar with [1/0 = inf]) runs it: a vanishing leading
    coefficient makes the scaled coefficients non-finite and the call is handed down to
    [solve_quadratic], from there to the linear case.  The real instance has [1/0 = 0] and never
    takes these branches; this is the same function with the branch taken on [= 0].
    (The tests that select the branches are scalar-generic facts: [solve_cubic_delegates_linear]
    in C09_proofs.v, [C15_solve_cubic_delegates], [C15_solve_quadratic_linear_fallback].) *)
Definition solve_cubic_ext (k0 k1 k2 k3 : R) : list R :=
  if Reqb k3 0 then
    if Reqb k2 0 then
      if Reqb k1 0 then (if Reqb k0 0 then 0 :: nil else nil)     (* linear case of solve_quadratic *)
      else Solvers.quad_linear k0 k1
    else Solvers.solve_quadratic k0 k1 k2
  else Solvers.solve_cubic k0 k1 k2 k3.

(** the same for [solve_quadratic] *)
Definition solve_quadratic_ext (k0 k1 k2 : R) : list R :=
  if Reqb k2 0 then
    if Reqb k1 0 then (if Reqb k0 0 then 0 :: nil else nil)
    else Solvers.quad_linear k0 k1
  else Solvers.solve_quadratic k0 k1 k2.
