(** Mathematical vocabulary for C03: speed, true arc length (Riemann integral of the speed,
    Coquelicot's [RInt]), additive length functionals, symmetric quadrature rules. *)
From Coq Require Import ZArith QArith Reals List Bool Lra.
From Coquelicot Require Import Coquelicot.
From KV Require Import Scalar RInst Geom Curves.
Import ListNotations.
Local Open Scope R_scope.

(** the derivative vector of a segment at parameter [t], through the model's [deriv] curves
    (C06 proves these are the derivatives of evaluation) *)
Definition seg_deriv_at (s : PathSeg R) (t : R) : Point R :=
  match s with
  | SegLine l => line_deriv l
  | SegQuad q => line_eval (quad_deriv q) t
  | SegCubic c => quad_eval (cubic_deriv c) t
  end.

Definition norm2 (p : Point R) : R := sqrt (px p * px p + py p * py p).

(** speed |B'(t)| *)
Definition speed (s : PathSeg R) (t : R) : R := norm2 (seg_deriv_at s t).

(** true arc length over a parameter range, and of the whole segment *)
Definition true_len_range (s : PathSeg R) (t0 t1 : R) : R := RInt (speed s) t0 t1.
Definition true_len (s : PathSeg R) : R := true_len_range s 0 1.
Definition cubic_true_len (c : CubicBez R) : R := true_len (SegCubic c).

(** a length functional on cubics that is additive under the code's [subdivide] *)
Definition additive_on_subdivide (L : CubicBez R -> R) : Prop :=
  forall c, L c = L (fst (cubic_subdivide c)) + L (snd (cubic_subdivide c)).

(** list sum *)
Fixpoint Rsum (l : list R) : R := match l with [] => 0 | x :: r => x + Rsum r end.

(** the symmetric quadrature rule on [0,1] with half-table [(w_i, x_i)] (positive nodes of a rule on
    [-1,1]): sum_i (w_i / 2) (g((1 + x_i)/2) + g((1 - x_i)/2)) *)
Definition sym_rule (tab : list (R * R)) (g : R -> R) : R :=
  Rsum (map (fun wx => fst wx / 2 * (g ((1 + snd wx) / 2) + g ((1 - snd wx) / 2))) tab).

(** the full rule on [0,1] with table [(w_i, x_i)] on [-1,1]: sum_i (w_i / 2) g((1 + x_i)/2) *)
Definition full_rule (tab : list (R * R)) (g : R -> R) : R :=
  Rsum (map (fun wx => fst wx / 2 * g ((1 + snd wx) / 2)) tab).
