(** Vocabulary for C10: contours made of path elements, the pieces they chain into,
    points of an outline, distance, the ideal circle and the ideal ellipse. *)
From Coq Require Import ZArith Reals List Bool.
From KV Require Import Scalar RInst Geom Curves Path ShapePaths.
Import ListNotations.

Set Implicit Arguments.

Section Contour.
Context {T : Type} `{Scalar T}.

Definition is_draw (e : PathEl T) : bool :=
  match e with LineTo _ | QuadTo _ _ | CurveTo _ _ _ => true | _ => false end.
Definition is_curve (e : PathEl T) : bool :=
  match e with CurveTo _ _ _ => true | _ => false end.

(** the current point after element [e], starting from [p] *)
Definition end_or (p : Point T) (e : PathEl T) : Point T :=
  match el_end e with Some q => q | None => p end.
Definition contour_end (start : Point T) (body : list (PathEl T)) : Point T :=
  fold_left end_or body start.

(** The pieces of a contour body: every piece starts exactly where the previous one ended
    ("joined end to end" holds by construction of this list; [segments_open]/[segments_closed]
    in C10_proofs show it is what [Segments::next] yields). *)
Fixpoint chain (p : Point T) (body : list (PathEl T)) : list (PathSeg T) :=
  match body with
  | [] => []
  | LineTo q :: r => SegLine (mkLine p q) :: chain q r
  | QuadTo a q :: r => SegQuad (mkQuad p a q) :: chain q r
  | CurveTo a b q :: r => SegCubic (mkCubic p a b q) :: chain q r
  | MoveTo q :: r => chain q r
  | ClosePath :: r => chain p r
  end.

(** exactly one [MoveTo], first; then drawing elements only; *)
Definition open_contour (els : list (PathEl T)) (start : Point T) (body : list (PathEl T)) : Prop :=
  els = MoveTo start :: body /\ forallb is_draw body = true.
(** ... and for a closed contour a final [ClosePath] *)
Definition closed_contour (els : list (PathEl T)) (start : Point T) (body : list (PathEl T)) : Prop :=
  els = MoveTo start :: body ++ [ClosePath] /\ forallb is_draw body = true.

End Contour.

Local Open Scope R_scope.

Definition dist (p q : Point R) : R := sqrt ((px p - px q) ^ 2 + (py p - py q) ^ 2).

(** [P] is a point of the outline drawn by [body] from [start]: some piece evaluated at some t in [0,1] *)
Definition on_outline (start : Point R) (body : list (PathEl R)) (P : Point R) : Prop :=
  exists s t, In s (chain start body) /\ 0 <= t <= 1 /\ P = seg_eval s t.

(** the ideal circle *)
Definition on_circle (center : Point R) (r : R) (Q : Point R) : Prop := dist Q center = Rabs r.

(** The ideal ellipse with the given centre, semi-axes and rotation: the image of the unit circle
    under "scale by the radii, rotate by [rot], translate to [center]" (kurbo's own definition,
    ellipse.rs 22-25). No division, so zero radii are allowed. *)
Definition on_ellipse (center : Point R) (radii : Vec2 R) (rot : R) (Q : Point R) : Prop :=
  exists w1 w2, w1 ^ 2 + w2 ^ 2 = 1 /\
    Q = pt_add_v center (rotate_pt (mkVec2 (vx radii * w1) (vy radii * w2)) rot).

(** ... and its arc from eccentric angle [a0] over [sweep] *)
Definition on_arc (center : Point R) (radii : Vec2 R) (rot a0 sweep : R) (Q : Point R) : Prop :=
  exists s, 0 <= s <= 1 /\ Q = pt_add_v center (sample_ellipse radii rot (a0 + s * sweep)).

(** the image of the unit circle under the linear part of an affine map plus its translation *)
Definition on_affine_circle (a b c d e f : R) (Q : Point R) : Prop :=
  exists w1 w2, w1 ^ 2 + w2 ^ 2 = 1 /\ Q = mkPoint (a * w1 + c * w2 + e) (b * w1 + d * w2 + f).

(** within [tol] of a point set *)
Definition within (tol : R) (S : Point R -> Prop) (P : Point R) : Prop :=
  exists Q, S Q /\ dist P Q <= tol.
