(** Specification vocabulary for rectangles over the reals (C20, C11). *)
From Coq Require Import ZArith Reals.
From KV Require Import Scalar RInst Geom Rect.
Local Open Scope R_scope.

Notation RRect := (Rect R).
Notation RPoint := (Point R).
Notation RInsets := (Insets R).

Definition nonneg (r : RRect) : Prop := rx0 r <= rx1 r /\ ry0 r <= ry1 r.
Definition in_closed (r : RRect) (p : RPoint) : Prop :=
  rx0 r <= px p <= rx1 r /\ ry0 r <= py p <= ry1 r.
Definition in_half_open (r : RRect) (p : RPoint) : Prop :=
  rx0 r <= px p < rx1 r /\ ry0 r <= py p < ry1 r.
(** [subset a b]: the closed rectangle [a] lies inside the closed rectangle [b]
    (as a statement about corners; for non-negative extents this is set inclusion). *)
Definition subset (a b : RRect) : Prop :=
  rx0 b <= rx0 a /\ ry0 b <= ry0 a /\ rx1 a <= rx1 b /\ ry1 a <= ry1 b.
Definition meet (a b : RRect) : Prop := exists p, in_closed a p /\ in_closed b p.

Definition is_int (x : R) : Prop := exists z : Z, x = IZR z.
Definition int_rect (r : RRect) : Prop :=
  is_int (rx0 r) /\ is_int (ry0 r) /\ is_int (rx1 r) /\ is_int (ry1 r).
