(** Vocabulary for the statements of C05 (flattening). Definitions only. *)
From Coq Require Import ZArith List Bool.
From KV Require Import Scalar Geom Curves Path Flatten.
Import ListNotations.

Set Implicit Arguments.

Section FlattenSpec.
Context {T : Type} `{Scalar T}.

(** the only kinds of element a flattened path may contain *)
Definition is_flat_el (e : PathEl T) : bool :=
  match e with
  | MoveTo _ | LineTo _ | ClosePath => true
  | QuadTo _ _ | CurveTo _ _ _ => false
  end.

(** The current point before each element, as the path semantics defines it: the end point of
    the previous element, and after [ClosePath] the start of the sub-path just closed
    ([Segments::next], the stroker and the dasher all use this rule). [None] before the first
    [MoveTo]. State = (sub-path start, current point). *)
Definition cur_step (st : option (Point T) * option (Point T)) (e : PathEl T)
  : option (Point T) * option (Point T) :=
  match e with
  | MoveTo p => (Some p, Some p)
  | LineTo p => (fst st, Some p)
  | QuadTo _ p2 => (fst st, Some p2)
  | CurveTo _ _ p3 => (fst st, Some p3)
  | ClosePath => (fst st, fst st)
  end.

Fixpoint cur_trace (st : option (Point T) * option (Point T)) (els : list (PathEl T))
  : list (option (Point T)) :=
  match els with
  | [] => []
  | e :: r => snd st :: cur_trace (cur_step st e) r
  end.

(** The run the property requires for element [e] when the current point is [cur]:
    MoveTo / ClosePath / LineTo unchanged; a curve element -> the interior vertices computed from
    *its segment* (current point + stored control points), then exactly the stored end point. *)
Definition run_for (tolerance sqrt_tol : T) (cur : option (Point T)) (e : PathEl T) (run : list (PathEl T)) : Prop :=
  match e with
  | MoveTo p => run = [MoveTo p]
  | ClosePath => run = [@ClosePath T]
  | LineTo p => run = [LineTo p]
  | QuadTo p1 p2 =>
      exists p0, cur = Some p0 /\
        run = map (@LineTo T) (flatten_quad_pts (mkQuad p0 p1 p2) sqrt_tol ++ [p2])
  | CurveTo p1 p2 p3 =>
      exists p0 pts, cur = Some p0 /\
        flatten_cubic_pts (mkCubic p0 p1 p2 p3) tolerance sqrt_tol = Some pts /\
        run = map (@LineTo T) (pts ++ [p3])
  end.

(** every run is non-empty, and a curve's run is >= 1 LineTo whose last vertex is the stored end point *)
Definition run_shape (e : PathEl T) (run : list (PathEl T)) : Prop :=
  match e with
  | MoveTo p => run = [MoveTo p]
  | ClosePath => run = [@ClosePath T]
  | LineTo p => run = [LineTo p]
  | QuadTo _ p2 => exists pts, run = map (@LineTo T) (pts ++ [p2])
  | CurveTo _ _ p3 => exists pts, run = map (@LineTo T) (pts ++ [p3])
  end.

(** "one run per input element, in input order": [out] is the concatenation of [runs],
    and [runs] matches the elements one to one *)
Definition runs_of (tolerance sqrt_tol : T) (els : list (PathEl T)) (out : list (PathEl T)) : Prop :=
  exists runs,
    out = concat runs /\
    Forall2 (fun ce run => run_for tolerance sqrt_tol (fst ce) (snd ce) run)
            (combine (cur_trace (None, None) els) els) runs.

(** per element, the segment [Segments::next] emits while consuming it ([None]: the panic) *)
Fixpoint seg_trace (st : option (Point T * Point T)) (els : list (PathEl T))
  : option (list (option (PathSeg T))) :=
  match els with
  | [] => Some []
  | e :: r =>
      match seg_step st e with
      | None => None
      | Some (st', out) =>
          match seg_trace (Some st') r with
          | None => None
          | Some l => Some (out :: l)
          end
      end
  end.

(** The run the property requires for element [e], given the segment [sg] that
    [Segments::next] emits while consuming [e] *)
Definition run_for_seg (tolerance sqrt_tol : T) (e : PathEl T) (sg : option (PathSeg T)) (run : list (PathEl T)) : Prop :=
  match e with
  | MoveTo p => run = [MoveTo p]
  | ClosePath => run = [@ClosePath T]
  | LineTo p => run = [LineTo p]
  | QuadTo _ _ =>
      exists q, sg = Some (SegQuad q) /\
        run = map (@LineTo T) (flatten_quad_pts q sqrt_tol ++ [seg_end (SegQuad q)])
  | CurveTo _ _ _ =>
      exists c pts, sg = Some (SegCubic c) /\
        flatten_cubic_pts c tolerance sqrt_tol = Some pts /\
        run = map (@LineTo T) (pts ++ [seg_end (SegCubic c)])
  end.

Definition somes {A} (l : list (option A)) : list A :=
  flat_map (fun o => match o with Some a => [a] | None => [] end) l.

(** [cross] of [estimate_subdiv]: (p2 - p0) x ((p1 - p0) - (p2 - p1)) = twice the doubled signed
    area of the control triangle; non-zero iff the control points are not collinear *)
Definition quad_cross (q : QuadBez T) : T :=
  v_cross (pt_sub (q2 q) (q0 q)) (v_sub (pt_sub (q1 q) (q0 q)) (pt_sub (q2 q) (q1 q))).

(** the points of a list of quadratics at per-quadratic parameter lists *)
Fixpoint quads_pts (quads : list (QuadBez T)) (tss : list (list T)) : list (Point T) :=
  match quads, tss with
  | q :: qs, ts :: r => map (quad_eval q) ts ++ quads_pts qs r
  | _, _ => []
  end.

(** the parameter on the cubic of local parameter [t] of piece [i] of [n]: t0 + t (t1 - t0) *)
Definition piece_param (c : CubicBez T) (n i : Z) (t : T) : T :=
  let '(t0, t1, _) := fl_to_quad c n i in fadd t0 (fmul t (fsub t1 t0)).

(** no QuadTo / CurveTo directly after a ClosePath ([after] = the previous element was ClosePath) *)
Fixpoint no_curve_after_close (after : bool) (els : list (PathEl T)) : bool :=
  match els with
  | [] => true
  | MoveTo _ :: r | LineTo _ :: r => no_curve_after_close false r
  | QuadTo _ _ :: r | CurveTo _ _ _ :: r => negb after && no_curve_after_close false r
  | ClosePath :: r => no_curve_after_close true r
  end.

(** uniform scaling about the origin *)
Definition scale_pt (k : T) (p : Point T) : Point T := mkPoint (fmul k (px p)) (fmul k (py p)).
Definition scale_el (k : T) (e : PathEl T) : PathEl T :=
  match e with
  | MoveTo p => MoveTo (scale_pt k p)
  | LineTo p => LineTo (scale_pt k p)
  | QuadTo a b => QuadTo (scale_pt k a) (scale_pt k b)
  | CurveTo a b c => CurveTo (scale_pt k a) (scale_pt k b) (scale_pt k c)
  | ClosePath => @ClosePath T
  end.

End FlattenSpec.
