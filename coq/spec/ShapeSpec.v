(** The ideal shapes as point sets over the reals (C11): what "inside" means for a disc, the affine
    image of the unit disc, a rounded rectangle (rectangle minus corner squares, plus corner discs)
    and a circle segment (annular sector). The curved outlines themselves are C10's subject; the
    closed forms are compared with these sets here. *)

From Coq Require Import ZArith Reals List Bool.
From KV Require Import Scalar RInst Geom Rect Affine ShapeTypes RectSpec.
Local Open Scope R_scope.

Definition sq (x : R) : R := x * x.
Definition dist2 (p c : Point R) : R := sq (px p - px c) + sq (py p - py c).

(** open disc of radius |r| *)
Definition in_open_disc (c : Point R) (r : R) (p : Point R) : Prop := dist2 p c < sq r.
Definition on_circle (c : Point R) (r : R) (p : Point R) : Prop := dist2 p c = sq r.

(** the image of the open unit disc / the unit circle under an affine map *)
Definition in_affine_disc (m : Affine R) (p : Point R) : Prop :=
  exists u v, sq u + sq v < 1 /\ p = aff_apply m (mkPoint u v).
Definition on_affine_circle (m : Affine R) (p : Point R) : Prop :=
  exists u v, sq u + sq v = 1 /\ p = aff_apply m (mkPoint u v).

(** well-formed rounded rectangle: what [RoundedRect::from_rect] establishes *)
Definition radii_ok (r : Rect R) (q : RoundedRectRadii R) : Prop :=
  let m := Rmin (rx1 r - rx0 r) (ry1 r - ry0 r) / 2 in
  0 <= r_top_left q <= m /\ 0 <= r_top_right q <= m /\
  0 <= r_bottom_right q <= m /\ 0 <= r_bottom_left q <= m.
Definition rr_wf (rr : RoundedRect R) : Prop := nonneg (rr_rect rr) /\ radii_ok (rr_rect rr) (rr_radii rr).

(** corner with centre (cx, cy) and radius r, lying towards (sx, sy) in {-1,+1}^2 from its centre:
    a point beyond the centre in both directions must be in the corner's disc *)
Definition corner_ok (cx cy r sx sy : R) (p : Point R) : Prop :=
  0 <= sx * (px p - cx) -> 0 <= sy * (py p - cy) -> sq (px p - cx) + sq (py p - cy) <= sq r.

(** closed rectangle minus the four corner squares, plus the four closed corner discs *)
Definition in_rounded_rect (rr : RoundedRect R) (p : Point R) : Prop :=
  let r := rr_rect rr in let q := rr_radii rr in
  in_closed r p /\
  corner_ok (rx0 r + r_top_left q) (ry0 r + r_top_left q) (r_top_left q) (-1) (-1) p /\
  corner_ok (rx1 r - r_top_right q) (ry0 r + r_top_right q) (r_top_right q) 1 (-1) p /\
  corner_ok (rx1 r - r_bottom_right q) (ry1 r - r_bottom_right q) (r_bottom_right q) 1 1 p /\
  corner_ok (rx0 r + r_bottom_left q) (ry1 r - r_bottom_left q) (r_bottom_left q) (-1) 1 p.

(** annular sector: radius strictly between inner and outer, angle start + t with 0 <= t <= sweep *)
Definition in_sector (s : CircleSegment R) (p : Point R) : Prop :=
  exists rho t, cs_inner_radius s < rho < cs_outer_radius s /\ 0 <= t <= cs_sweep_angle s /\
    px p = px (cs_center s) + rho * cos (cs_start_angle s + t) /\
    py p = py (cs_center s) + rho * sin (cs_start_angle s + t).
(** the same for a negative sweep: angle start - t with 0 <= t <= -sweep *)
Definition in_sector_neg (s : CircleSegment R) (p : Point R) : Prop :=
  exists rho t, cs_inner_radius s < rho < cs_outer_radius s /\ 0 <= t <= - cs_sweep_angle s /\
    px p = px (cs_center s) + rho * cos (cs_start_angle s - t) /\
    py p = py (cs_center s) + rho * sin (cs_start_angle s - t).
