(** The real-number instance of [Scalar]: kurbo's code run in exact arithmetic.
    Theorems are stated and proved at this instance. Division is Coq's total [/]
    ([x/0 = 0]); every theorem whose model divides carries the non-zero guard
    explicitly (see DESIGN.md). *)

From Coq Require Import ZArith QArith Reals Floats List Bool Lra.
From Flocq Require Import Core.Raux Core.Generic_fmt.
From KV Require Import Scalar.

Local Open Scope R_scope.

Definition Rltb (x y : R) : bool := if Rlt_dec x y then true else false.
Definition Rleb (x y : R) : bool := if Rle_dec x y then true else false.
Definition Reqb (x y : R) : bool := if Req_EM_T x y then true else false.

Definition Rsignum (x : R) : R := if Rle_dec 0 x then 1 else -1.
Definition Rcopysign (x s : R) : R := if Rle_dec 0 s then Rabs x else - Rabs x.

Definition Ratan2 (y x : R) : R :=
  if Rlt_dec 0 x then atan (y / x)
  else if Rlt_dec x 0 then
         (if Rle_dec 0 y then atan (y / x) + PI else atan (y / x) - PI)
  else if Rlt_dec 0 y then PI / 2
  else if Rlt_dec y 0 then - (PI / 2)
  else 0.

Definition Rcbrt (x : R) : R :=
  if Rlt_dec 0 x then Rpower x (1 / 3)
  else if Rlt_dec x 0 then - Rpower (- x) (1 / 3)
  else 0.

Definition Rpowf (x y : R) : R :=
  if Req_EM_T y 0 then 1 else if Rlt_dec 0 x then Rpower x y else 0.

Definition Rround_away (x : R) : R := IZR (ZnearestA x).

#[export] Instance RS : Scalar R := {|
  fadd := Rplus;
  fsub := Rminus;
  fmul := Rmult;
  fdiv := Rdiv;
  fneg := Ropp;
  fabs := Rabs;
  fsqrt := R_sqrt.sqrt;
  fmin := Rmin;
  fmax := Rmax;
  ffloor := fun x => IZR (Zfloor x);
  fceil := fun x => IZR (Zceil x);
  fround := Rround_away;
  ftrunc := fun x => IZR (Ztrunc x);
  fsignum := Rsignum;
  fcopysign := Rcopysign;
  ffma := fun a b c => a * b + c;
  fltb := Rltb;
  fleb := Rleb;
  feqb := Reqb;
  fis_finite := fun _ => true;
  fis_nan := fun _ => false;
  fofZ := IZR;
  flit := fun _ q => Q2R q;
  fhypot := fun x y => R_sqrt.sqrt (x * x + y * y);
  fcbrt := Rcbrt;
  fsin := sin;
  fcos := cos;
  ftan := tan;
  fatan2 := Ratan2;
  facos := acos;
  fln := ln;
  fpowf := Rpowf;
  fpowi := powerRZ;
  fto_usize := fun x => Z.max 0 (Ztrunc x);
  fpi := PI
|}.

(** Reflection lemmas for the boolean comparisons. *)
Lemma Rltb_true x y : Rltb x y = true <-> x < y.
Proof. unfold Rltb; destruct (Rlt_dec x y); split; intros; try easy. Qed.
Lemma Rltb_false x y : Rltb x y = false <-> y <= x.
Proof. unfold Rltb; destruct (Rlt_dec x y); split; intros; try easy; lra. Qed.
Lemma Rleb_true x y : Rleb x y = true <-> x <= y.
Proof. unfold Rleb; destruct (Rle_dec x y); split; intros; try easy. Qed.
Lemma Rleb_false x y : Rleb x y = false <-> y < x.
Proof. unfold Rleb; destruct (Rle_dec x y); split; intros; try easy; lra. Qed.
Lemma Reqb_true x y : Reqb x y = true <-> x = y.
Proof. unfold Reqb; destruct (Req_EM_T x y); split; intros; try easy. Qed.
Lemma Reqb_false x y : Reqb x y = false <-> x <> y.
Proof. unfold Reqb; destruct (Req_EM_T x y); split; intros; try easy. Qed.

Lemma Rltb_spec x y : reflect (x < y) (Rltb x y).
Proof. unfold Rltb; destruct (Rlt_dec x y); constructor; assumption. Qed.
Lemma Rleb_spec x y : reflect (x <= y) (Rleb x y).
Proof. unfold Rleb; destruct (Rle_dec x y); constructor; assumption. Qed.
Lemma Reqb_spec x y : reflect (x = y) (Reqb x y).
Proof. unfold Reqb; destruct (Req_EM_T x y); constructor; assumption. Qed.

(** Tactic: expose the real operations behind the [Scalar] projections. *)
Ltac rs_unfold :=
  cbv [fadd fsub fmul fdiv fneg fabs fsqrt fmin fmax ffloor fceil fround ftrunc
       fsignum fcopysign ffma fltb fleb feqb fis_finite fis_nan fofZ flit
       fhypot fcbrt fsin fcos ftan fatan2 facos fln fpowf fpowi fto_usize fpi
       f0 f1 f2 f3 fhalf RS] in *.

Lemma Q2R_half : Q2R (1 # 2) = / 2.
Proof. unfold Q2R; simpl; lra. Qed.
