(** The binary64 instance of [Scalar], with Rust's semantics, on Coq's primitive floats.

    Exact operations (+ - * / sqrt abs neg comparisons floor ceil trunc round fma
    copysign min max powi) are meant to be bit-for-bit what the compiled crate
    computes; this is validated on every run by the correspondence check.
    The libm class (hypot cbrt sin cos tan atan2 acos ln powf) is *approximated*
    (about 1e-15 relative) and only ever compared up to a tolerance. *)

From Coq Require Import ZArith QArith Floats List Bool Uint63.
From Flocq Require Import IEEE754.BinarySingleNaN IEEE754.PrimFloat.
From KV Require Import Scalar.

Import ListNotations.
Local Open Scope list_scope.
Local Open Scope float_scope.

Module F.

Definition is_finite (x : float) : bool := negb (PrimFloat.is_nan x || PrimFloat.is_infinity x).

Definition min (x y : float) : float :=
  if PrimFloat.is_nan x then y else if PrimFloat.is_nan y then x
  else if PrimFloat.ltb y x then y else x.

Definition max (x y : float) : float :=
  if PrimFloat.is_nan x then y else if PrimFloat.is_nan y then x
  else if PrimFloat.ltb x y then y else x.

Definition copysign (x s : float) : float :=
  if Bool.eqb (PrimFloat.get_sign x) (PrimFloat.get_sign s) then x else - x.

Definition signum (x : float) : float :=
  if PrimFloat.is_nan x then nan else copysign 1 x.

#[local] Instance Hprec64 : FLX.Prec_gt_0 prec := eq_refl _.
#[local] Instance Hmax64 : Prec_lt_emax prec emax := eq_refl _.

Definition nearbyint (md : mode) (x : float) : float :=
  B2Prim (Bnearbyint md (Prim2B x)).

Definition floor := nearbyint mode_DN.
Definition ceil := nearbyint mode_UP.
Definition trunc := nearbyint mode_ZR.
Definition round := nearbyint mode_NA.

Definition fma (a b c : float) : float :=
  B2Prim (Bfma mode_NE (Prim2B a) (Prim2B b) (Prim2B c)).

Definition ofZ (z : Z) : float :=
  match z with
  | Z0 => 0
  | Zpos _ => of_uint63 (Uint63.of_Z z)
  | Zneg p => - of_uint63 (Uint63.of_Z (Zpos p))
  end.

(* Rust `x as usize` on a 64-bit target *)
Definition to_usize (x : float) : Z :=
  match Prim2SF x with
  | S754_zero _ => 0%Z
  | S754_nan => 0%Z
  | S754_infinity s => if s then 0%Z else (2^64 - 1)%Z
  | S754_finite s m e =>
      if s then 0%Z else
      let v := match e with
               | Z0 => Zpos m
               | Zpos p => (Zpos m * 2 ^ (Zpos p))%Z
               | Zneg p => (Zpos m / 2 ^ (Zpos p))%Z
               end in
      Z.min v (2^64 - 1)%Z
  end.

(* compiler-rt __powidf2 *)
Fixpoint powi_loop (fuel : nat) (a r : float) (b : Z) : float :=
  match fuel with
  | O => r
  | S k =>
      let r := if Z.odd b then r * a else r in
      let b := Z.quot b 2 in
      if Z.eqb b 0 then r else powi_loop k (a * a) r b
  end.

Definition powi (a : float) (n : Z) : float :=
  let r := powi_loop 40 a 1 n in
  if Z.ltb n 0 then 1 / r else r.

(** ** Approximate elementary functions (inexact class) *)

Definition horner (cs : list float) (x : float) : float :=
  fold_right (fun c acc => c + x * acc) 0 cs.

Definition pi : float := 0x1.921fb54442d18p+1.
Definition pio2_hi : float := 0x1.921fb54442d18p+0.
Definition pio2_lo : float := 0x1.1a62633145c07p-54.

(* sin r, cos r for |r| <= pi/4 *)
Definition sin_k (r : float) : float :=
  let z := r * r in
  r * horner
    [1; -0x1.5555555555555p-3; 0x1.1111111111111p-7; -0x1.a01a01a01a01ap-13;
     0x1.71de3a556c734p-19; -0x1.ae64567f544e4p-26; 0x1.6124613a86d09p-33;
     -0x1.ae7f3e733b81fp-41; 0x1.952c77030ad4ap-49] z.
Definition cos_k (r : float) : float :=
  let z := r * r in
  horner
    [1; -0x1p-1; 0x1.5555555555555p-5; -0x1.6c16c16c16c17p-10; 0x1.a01a01a01a01ap-16;
     -0x1.27e4fb7789f5cp-22; 0x1.1eed8eff8d898p-29; -0x1.93974a8c07c9dp-37;
     0x1.ae7f3e733b81fp-45; -0x1.6827863b97d97p-53] z.

Definition sincos (x : float) : float * float :=
  if negb (is_finite x) then (nan, nan) else
  let kf := round (x * 0x1.45f306dc9c883p-1) in   (* 2/pi *)
  let r := (x - kf * pio2_hi) - kf * pio2_lo in
  let k := Z.modulo (match Prim2SF kf with
                     | S754_finite s m e =>
                         let v := match e with
                                  | Z0 => Zpos m | Zpos p => (Zpos m * 2 ^ Zpos p)%Z
                                  | Zneg p => (Zpos m / 2 ^ Zpos p)%Z end in
                         if s then (- v)%Z else v
                     | _ => 0%Z end) 4 in
  let s := sin_k r in
  let c := cos_k r in
  if Z.eqb k 0 then (s, c)
  else if Z.eqb k 1 then (c, - s)
  else if Z.eqb k 2 then (- s, - c)
  else (- c, s).

Definition sin x := fst (sincos x).
Definition cos x := snd (sincos x).
Definition tan x := let '(s, c) := sincos x in s / c.

(* atan for 0 <= x <= tan(pi/8) by series *)
Definition atan_series (x : float) : float :=
  let z := x * x in
  x * horner
    [1; -1/3; 1/5; -1/7; 1/9; -1/11; 1/13; -1/15; 1/17; -1/19; 1/21; -1/23; 1/25;
     -1/27; 1/29; -1/31; 1/33; -1/35; 1/37; -1/39; 1/41; -1/43] z.

Definition atan_pos (x : float) : float :=  (* x >= 0 *)
  if PrimFloat.ltb 0x1.3504f333f9de6p+1 x (* tan(3pi/8) = 2.414 *) then pio2_hi - atan_series (1 / x)
  else if PrimFloat.ltb 0x1.a827999fcef32p-2 x (* tan(pi/8) = 0.4142 *)
       then pio2_hi / 2 + atan_series ((x - 1) / (x + 1))
  else atan_series x.

Definition atan (x : float) : float :=
  if PrimFloat.is_nan x then nan else
  if PrimFloat.ltb x 0 then - atan_pos (- x) else atan_pos x.

Definition atan2 (y x : float) : float :=
  if PrimFloat.is_nan x || PrimFloat.is_nan y then nan else
  if PrimFloat.is_zero y then
    (if PrimFloat.get_sign x then copysign pi y else copysign 0 y)
  else if PrimFloat.is_zero x then copysign pio2_hi y
  else if PrimFloat.is_infinity x && PrimFloat.is_infinity y then
    (if PrimFloat.get_sign x then copysign (3 * pi / 4) y else copysign (pi / 4) y)
  else
    let a := atan_pos (abs (y / x)) in
    let r := if PrimFloat.get_sign x then pi - a else a in
    copysign r y.

Definition ln2_hi : float := 0x1.62e42fefa39efp-1.

(* ln via frexp and the atanh series *)
Definition ln (x : float) : float :=
  if PrimFloat.is_nan x then nan else
  if PrimFloat.ltb x 0 then nan else
  if PrimFloat.is_zero x then neg_infinity else
  if PrimFloat.is_infinity x then infinity else
  let '(m, e) := Z.frexp x in            (* x = m * 2^e, m in [0.5,1) *)
  let '(m, e) := if PrimFloat.ltb m 0x1.6a09e667f3bcdp-1 then (m * 2, (e - 1)%Z) else (m, e) in
  let s := (m - 1) / (m + 1) in
  let z := s * s in
  let p := 2 * s * horner [1; 1/3; 1/5; 1/7; 1/9; 1/11; 1/13; 1/15; 1/17; 1/19; 1/21; 1/23; 1/25] z in
  ofZ e * ln2_hi + p.

Definition exp (x : float) : float :=
  if PrimFloat.is_nan x then nan else
  if PrimFloat.ltb 710 x then infinity else
  if PrimFloat.ltb x (-746) then 0 else
  let kf := round (x / ln2_hi) in
  let r := x - kf * ln2_hi in
  let k := match Prim2SF kf with
           | S754_finite s m e =>
               let v := match e with
                        | Z0 => Zpos m | Zpos p => (Zpos m * 2 ^ Zpos p)%Z
                        | Zneg p => (Zpos m / 2 ^ Zpos p)%Z end in
               if s then (- v)%Z else v
           | _ => 0%Z end in
  let p := horner
    [1; 1; 1/2; 1/6; 1/24; 1/120; 1/720; 1/5040; 1/40320; 1/362880; 1/3628800;
     1/39916800; 1/479001600; 1/6227020800; 1/87178291200; 1/1307674368000] r in
  Z.ldexp p k.

Definition powf (x y : float) : float :=
  if PrimFloat.is_zero y then 1 else
  if PrimFloat.is_zero x then (if PrimFloat.ltb y 0 then infinity else 0) else
  if PrimFloat.ltb x 0 then nan else exp (y * ln x).

Definition cbrt (x : float) : float :=
  if negb (is_finite x) then x else
  if PrimFloat.is_zero x then x else
  let a := abs x in
  let y := exp (ln a / 3) in
  let y := y - (y * y * y - a) / (3 * y * y) in
  let y := y - (y * y * y - a) / (3 * y * y) in
  copysign y x.

Definition hypot (x y : float) : float :=
  if PrimFloat.is_infinity x || PrimFloat.is_infinity y then infinity else
  let ax := abs x in let ay := abs y in
  let m := max ax ay in
  if PrimFloat.is_zero m then 0 else
  if PrimFloat.is_nan m then nan else
  let '(_, e) := Z.frexp m in
  let sx := Z.ldexp ax (- e) in let sy := Z.ldexp ay (- e) in
  Z.ldexp (PrimFloat.sqrt (sx * sx + sy * sy)) e.

Definition acos (x : float) : float := atan2 (PrimFloat.sqrt ((1 - x) * (1 + x))) x.

(** Comparison used by the correspondence check: numerically equal (so [-0 = 0]),
    or both NaN. [same_bits] additionally distinguishes the sign of zero. *)
Definition same (x y : float) : bool :=
  (PrimFloat.is_nan x && PrimFloat.is_nan y) || PrimFloat.eqb x y.

Definition same_bits (x y : float) : bool :=
  (PrimFloat.is_nan x && PrimFloat.is_nan y)
  || (PrimFloat.eqb x y && Bool.eqb (PrimFloat.get_sign x) (PrimFloat.get_sign y)).

(* |x - y| <= tol * max(1, |x|, |y|), or both NaN, or equal infinities *)
Definition close (tol x y : float) : bool :=
  same x y ||
  PrimFloat.leb (abs (x - y)) (tol * max 1 (max (abs x) (abs y))).

End F.

#[export] Instance F64 : Scalar float := {|
  fadd := PrimFloat.add;
  fsub := PrimFloat.sub;
  fmul := PrimFloat.mul;
  fdiv := PrimFloat.div;
  fneg := PrimFloat.opp;
  fabs := PrimFloat.abs;
  fsqrt := PrimFloat.sqrt;
  fmin := F.min;
  fmax := F.max;
  ffloor := F.floor;
  fceil := F.ceil;
  fround := F.round;
  ftrunc := F.trunc;
  fsignum := F.signum;
  fcopysign := F.copysign;
  ffma := F.fma;
  fltb := PrimFloat.ltb;
  fleb := PrimFloat.leb;
  feqb := PrimFloat.eqb;
  fis_finite := F.is_finite;
  fis_nan := PrimFloat.is_nan;
  fofZ := F.ofZ;
  flit := fun f _ => f;
  fhypot := F.hypot;
  fcbrt := F.cbrt;
  fsin := F.sin;
  fcos := F.cos;
  ftan := F.tan;
  fatan2 := F.atan2;
  facos := F.acos;
  fln := F.ln;
  fpowf := F.powf;
  fpowi := F.powi;
  fto_usize := F.to_usize;
  fpi := F.pi
|}.
