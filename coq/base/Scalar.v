(** Scalar signature: every operation kurbo applies to an [f64].

    All models of kurbo code are written once, polymorphically over a type [T]
    with a [Scalar T] instance, and instantiated twice:
      - at Coq's primitive binary64 floats ([F64.v]) to be *executed* inside Coq
        and compared with the compiled crate (correspondence check), and
      - at the real numbers ([RInst.v]) to *state and prove* the properties.
    Definitions only; no proofs live here. *)

From Coq Require Import ZArith QArith Floats List Bool.

Class Scalar (T : Type) : Type := {
  fadd : T -> T -> T;
  fsub : T -> T -> T;
  fmul : T -> T -> T;
  fdiv : T -> T -> T;
  fneg : T -> T;
  fabs : T -> T;
  fsqrt : T -> T;
  fmin : T -> T -> T;
  fmax : T -> T -> T;
  ffloor : T -> T;
  fceil : T -> T;
  fround : T -> T;          (* Rust f64::round: half away from zero *)
  ftrunc : T -> T;
  fsignum : T -> T;
  fcopysign : T -> T -> T;  (* magnitude of 1st, sign of 2nd *)
  ffma : T -> T -> T -> T;  (* a.mul_add(b, c) = a*b + c, one rounding *)
  fltb : T -> T -> bool;
  fleb : T -> T -> bool;
  feqb : T -> T -> bool;
  fis_finite : T -> bool;
  fis_nan : T -> bool;
  fofZ : Z -> T;            (* integer literal (exactly representable) *)
  flit : float -> Q -> T;   (* decimal literal: the binary64 value and the rational it denotes *)
  (* the libm class: not correctly rounded in the implementation *)
  fhypot : T -> T -> T;
  fcbrt : T -> T;
  fsin : T -> T;
  fcos : T -> T;
  ftan : T -> T;
  fatan2 : T -> T -> T;     (* y.atan2(x) *)
  facos : T -> T;
  fln : T -> T;
  fpowf : T -> T -> T;
  fpowi : T -> Z -> T;
  fto_usize : T -> Z;       (* Rust `as usize`: saturating, NaN -> 0 *)
  fpi : T
}.

Declare Scope S_scope.
Delimit Scope S_scope with S.
Infix "+" := fadd : S_scope.
Infix "-" := fsub : S_scope.
Infix "*" := fmul : S_scope.
Infix "/" := fdiv : S_scope.
Notation "- x" := (fneg x) : S_scope.
Infix "<?" := fltb : S_scope.
Infix "<=?" := fleb : S_scope.
Infix "=?" := feqb : S_scope.
Notation "x >? y" := (fltb y x) (only parsing) : S_scope.
Notation "x >=? y" := (fleb y x) (only parsing) : S_scope.
Notation "x <>? y" := (negb (feqb x y)) (at level 70) : S_scope.

Definition f0 {T} `{Scalar T} : T := fofZ 0.
Definition f1 {T} `{Scalar T} : T := fofZ 1.
Definition f2 {T} `{Scalar T} : T := fofZ 2.
Definition f3 {T} `{Scalar T} : T := fofZ 3.
Definition fhalf {T} `{Scalar T} : T := flit 0x1p-1%float (1#2).
