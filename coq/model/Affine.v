(** affine.rs core: the 2x3 matrix [a c e; b d f], constructors, product, action on points,
    determinant, inverse, svd. Generic over the scalar. Definitions only.
    (The pre_*/then_* family and the actions on curves and shapes live in C12's own model file.) *)

From Coq Require Import ZArith List Bool.
From KV Require Import Scalar Geom.
Import ListNotations.

Set Implicit Arguments.

Section Affine.
Context {T : Type} `{Scalar T}.
Local Open Scope S_scope.

(** [Affine([a, b, c, d, e, f])]: x' = a x + c y + e, y' = b x + d y + f *)
Record Affine := mkAffine { aa : T; ab : T; ac : T; ad : T; ae : T; af : T }.

Definition aff_identity : Affine := mkAffine f1 f0 f0 f1 f0 f0.
Definition aff_scale (s : T) : Affine := mkAffine s f0 f0 s f0 f0.
Definition aff_scale_non_uniform (sx sy : T) : Affine := mkAffine sx f0 f0 sy f0 f0.
Definition aff_translate (p : Vec2 T) : Affine := mkAffine f1 f0 f0 f1 (vx p) (vy p).
(* let (s, c) = th.sin_cos(); Affine([c, s, -s, c, 0.0, 0.0]) *)
Definition aff_rotate (th : T) : Affine :=
  let s := fsin th in let c := fcos th in mkAffine c s (- s) c f0 f0.
Definition aff_skew (skew_x skew_y : T) : Affine := mkAffine f1 skew_y skew_x f1 f0 f0.

(* impl Mul<Point> for Affine *)
Definition aff_apply (m : Affine) (p : Point T) : Point T :=
  mkPoint (aa m * px p + ac m * py p + ae m) (ab m * px p + ad m * py p + af m).

(* impl Mul for Affine: self * other *)
Definition aff_mul (s o : Affine) : Affine :=
  mkAffine (aa s * aa o + ac s * ab o)
           (ab s * aa o + ad s * ab o)
           (aa s * ac o + ac s * ad o)
           (ab s * ac o + ad s * ad o)
           (aa s * ae o + ac s * af o + ae s)
           (ab s * ae o + ad s * af o + af s).

Definition aff_determinant (m : Affine) : T := aa m * ad m - ab m * ac m.

(* recip() is 1.0 / x *)
Definition aff_inverse (m : Affine) : Affine :=
  let inv_det := f1 / aff_determinant m in
  mkAffine (inv_det * ad m)
           (- inv_det * ab m)
           (- inv_det * ac m)
           (inv_det * aa m)
           (inv_det * (ac m * af m - ad m * ae m))
           (inv_det * (ab m * ae m - aa m * af m)).

Definition aff_translation (m : Affine) : Vec2 T := mkVec2 (ae m) (af m).
Definition aff_with_translation (m : Affine) (t : Vec2 T) : Affine :=
  mkAffine (aa m) (ab m) (ac m) (ad m) (vx t) (vy t).

(* pub(crate) fn svd(self) -> (Vec2, f64) *)
Definition aff_svd (m : Affine) : Vec2 T * T :=
  let a := aa m in let a2 := a * a in
  let b := ab m in let b2 := b * b in
  let c := ac m in let c2 := c * c in
  let d := ad m in let d2 := d * d in
  let ab_ := a * b in
  let cd_ := c * d in
  let angle := fhalf * fatan2 (f2 * (ab_ + cd_)) (a2 - b2 + c2 - d2) in
  let s1 := a2 + b2 + c2 + d2 in
  let s2 := fsqrt (fpowi (a2 - b2 + c2 - d2) 2 + fofZ 4 * fpowi (ab_ + cd_) 2) in
  (mkVec2 (fsqrt (fhalf * (s1 + s2))) (fsqrt (fhalf * (s1 - s2))), angle).

End Affine.

Arguments Affine T : clear implicits.
