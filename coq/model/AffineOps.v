(** C12: everything of affine.rs beyond the shared core ([Affine.v]): the about-maps, reflect,
    the pre_*/then_* family, map_unit_square, transform_rect_bbox, [f64 * Affine]; the actions of
    an [Affine] on lines, curves, path segments, path elements, paths (line.rs 249, quadbez.rs 376,
    cubicbez.rs 720, bezpath.rs 651-690), on circles, ellipses and arcs (circle.rs 91,
    ellipse.rs 40-145/195, arc.rs 157-225); and translate_scale.rs.
    Generic over the scalar; same order of floating-point operations as the Rust code.
    Definitions only. *)

From Coq Require Import ZArith QArith List Bool Floats.
From KV Require Import Scalar Geom Rect Curves Path Affine ShapeTypes.
Import ListNotations.

Set Implicit Arguments.

Section AffineOps.
Context {T : Type} `{Scalar T}.
Local Open Scope S_scope.

(** ** constants *)
Definition aff_IDENTITY : Affine T := aff_scale f1.                       (* Affine::scale(1.0) *)
Definition aff_FLIP_Y : Affine T := mkAffine f1 f0 f0 (fofZ (-1)) f0 f0.
Definition aff_FLIP_X : Affine T := mkAffine (fofZ (-1)) f0 f0 f1 f0 f0.

(** ** pre_* : [self * T]; then_* : [T * self] (affine.rs 173-294) *)
Definition aff_pre_rotate (m : Affine T) (th : T) : Affine T := aff_mul m (aff_rotate th).
Definition aff_pre_scale (m : Affine T) (s : T) : Affine T := aff_mul m (aff_scale s).
Definition aff_pre_scale_non_uniform (m : Affine T) (sx sy : T) : Affine T :=
  aff_mul m (aff_scale_non_uniform sx sy).
Definition aff_pre_translate (m : Affine T) (t : Vec2 T) : Affine T := aff_mul m (aff_translate t).

Definition aff_then_rotate (m : Affine T) (th : T) : Affine T := aff_mul (aff_rotate th) m.
Definition aff_then_scale (m : Affine T) (s : T) : Affine T := aff_mul (aff_scale s) m.
Definition aff_then_scale_non_uniform (m : Affine T) (sx sy : T) : Affine T :=
  aff_mul (aff_scale_non_uniform sx sy) m.
(* then_translate mutates in place: self.0[4] += trans.x; self.0[5] += trans.y *)
Definition aff_then_translate (m : Affine T) (t : Vec2 T) : Affine T :=
  mkAffine (aa m) (ab m) (ac m) (ad m) (ae m + vx t) (af m + vy t).

(** ** scale_about / rotate_about (affine.rs 72, 97):
    translate(-center).then_scale(s).then_translate(center) *)
Definition aff_scale_about (s : T) (center : Point T) : Affine T :=
  let c := to_vec2 center in
  aff_then_translate (aff_then_scale (aff_translate (v_neg c)) s) c.
Definition aff_rotate_about (th : T) (center : Point T) : Affine T :=
  let c := to_vec2 center in
  aff_then_translate (aff_then_rotate (aff_translate (v_neg c)) th) c.

Definition aff_then_rotate_about (m : Affine T) (th : T) (center : Point T) : Affine T :=
  aff_mul (aff_rotate_about th center) m.
Definition aff_then_scale_about (m : Affine T) (s : T) (center : Point T) : Affine T :=
  aff_mul (aff_scale_about s center) m.

(** [pre_rotate_about] as documented and as the property requires: [self * rotate_about(th, center)] *)
Definition aff_pre_rotate_about (m : Affine T) (th : T) (center : Point T) : Affine T :=
  aff_mul m (aff_rotate_about th center).
(** [pre_rotate_about] as written on the pinned tree (affine.rs 191-193):
    [Affine::rotate_about(th, center) * self] *)
Definition aff_pre_rotate_about_pinned (m : Affine T) (th : T) (center : Point T) : Affine T :=
  aff_mul (aff_rotate_about th center) m.

(** ** reflect (affine.rs 147-171); Vec2::normalize = self / self.hypot() = self * hypot.recip() *)
Definition v_normalize (v : Vec2 T) : Vec2 T := v_div v (v_hypot v).
Definition aff_reflect (point : Point T) (direction : Vec2 T) : Affine T :=
  let n := v_normalize (mkVec2 (vy direction) (- vx direction)) in
  let x2 := vx n * vx n in
  let xy := vx n * vy n in
  let y2 := vy n * vy n in
  let aff := mkAffine (f1 - f2 * x2) (fofZ (-2) * xy) (fofZ (-2) * xy) (f1 - f2 * y2)
                      (px point) (py point) in
  aff_pre_translate aff (v_neg (to_vec2 point)).

(** ** map_unit_square, transform_rect_bbox, f64 * Affine *)
Definition aff_map_unit_square (r : Rect T) : Affine T :=
  mkAffine (rect_width r) f0 f0 (rect_height r) (rx0 r) (ry0 r).

Definition aff_transform_rect_bbox (m : Affine T) (r : Rect T) : Rect T :=
  let p00 := aff_apply m (mkPoint (rx0 r) (ry0 r)) in
  let p01 := aff_apply m (mkPoint (rx0 r) (ry1 r)) in
  let p10 := aff_apply m (mkPoint (rx1 r) (ry0 r)) in
  let p11 := aff_apply m (mkPoint (rx1 r) (ry1 r)) in
  rect_union (rect_from_points p00 p01) (rect_from_points p10 p11).

Definition aff_scalar_mul (s : T) (m : Affine T) : Affine T :=
  mkAffine (s * aa m) (s * ab m) (s * ac m) (s * ad m) (s * ae m) (s * af m).

(** ** curves, segments, elements, paths: control points mapped *)
Definition aff_mul_line (m : Affine T) (l : Line T) : Line T :=
  mkLine (aff_apply m (l0 l)) (aff_apply m (l1 l)).
Definition aff_mul_quad (m : Affine T) (q : QuadBez T) : QuadBez T :=
  mkQuad (aff_apply m (q0 q)) (aff_apply m (q1 q)) (aff_apply m (q2 q)).
Definition aff_mul_cubic (m : Affine T) (c : CubicBez T) : CubicBez T :=
  mkCubic (aff_apply m (c0 c)) (aff_apply m (c1 c)) (aff_apply m (c2 c)) (aff_apply m (c3 c)).
Definition aff_mul_seg (m : Affine T) (s : PathSeg T) : PathSeg T :=
  match s with
  | SegLine l => SegLine (aff_mul_line m l)
  | SegQuad q => SegQuad (aff_mul_quad m q)
  | SegCubic c => SegCubic (aff_mul_cubic m c)
  end.

(** the shape of [impl Mul<PathEl>] for both [Affine] and [TranslateScale]: [f] is the point action *)
Definition map_el (f : Point T -> Point T) (e : PathEl T) : PathEl T :=
  match e with
  | MoveTo p => MoveTo (f p)
  | LineTo p => LineTo (f p)
  | QuadTo p1 p2 => QuadTo (f p1) (f p2)
  | CurveTo p1 p2 p3 => CurveTo (f p1) (f p2) (f p3)
  | ClosePath => ClosePath
  end.
Definition aff_mul_el (m : Affine T) (e : PathEl T) : PathEl T := map_el (aff_apply m) e.
(* Affine * BezPath, Affine * &BezPath, BezPath::apply_affine *)
Definition aff_mul_path (m : Affine T) (els : list (PathEl T)) : list (PathEl T) :=
  map (aff_mul_el m) els.

(** [Affine::svd] as the tree has it since the repair of the minor radius (commit 7389fc0,
    proposed_fixes/C10-svd-minor-radius.diff): the major radius as before, the minor one
    [(|det| / x).min(x)] instead of [sqrt(0.5 * (s1 - s2))], which cancelled. The shared [aff_svd]
    (Affine.v) is the earlier form; the two are the same function over the reals
    (C12_svd_variants_agree), not on floats. *)
Definition aff_svd_det (m : Affine T) : Vec2 T * T :=
  let a := aa m in let a2 := a * a in
  let b := ab m in let b2 := b * b in
  let c := ac m in let c2 := c * c in
  let d := ad m in let d2 := d * d in
  let ab_ := a * b in
  let cd_ := c * d in
  let angle := fhalf * fatan2 (f2 * (ab_ + cd_)) (a2 - b2 + c2 - d2) in
  let s1 := a2 + b2 + c2 + d2 in
  let s2 := fsqrt (fpowi (a2 - b2 + c2 - d2) 2 + fofZ 4 * fpowi (ab_ + cd_) 2) in
  let x := fsqrt (fhalf * (s1 + s2)) in
  let y := if x =? f0 then f0 else fmin (fabs (a * d - b * c) / x) x in
  (mkVec2 x y, angle).

(** ** ellipses (ellipse.rs) *)
(* private_new: translate(center) * rotate(x_rotation) * scale_non_uniform(|sx|, |sy|), left-associated *)
Definition ellipse_new (center : Point T) (radii : Vec2 T) (x_rotation : T) : Ellipse T :=
  mkEllipse (aff_mul (aff_mul (aff_translate (mkVec2 (px center) (py center))) (aff_rotate x_rotation))
                     (aff_scale_non_uniform (fabs (vx radii)) (fabs (vy radii)))).
Definition ellipse_from_affine (m : Affine T) : Ellipse T := mkEllipse m.
Definition ellipse_center (e : Ellipse T) : Point T := to_point (aff_translation (el_inner e)).
Definition ellipse_radii_and_rotation (e : Ellipse T) : Vec2 T * T := aff_svd_det (el_inner e).   (* self.inner.svd() *)
(* impl From<Circle> for Ellipse: Ellipse::new(center, Vec2::splat(radius), 0.0) *)
Definition ellipse_from_circle (c : Circle T) : Ellipse T :=
  ellipse_new (ci_center c) (mkVec2 (ci_radius c) (ci_radius c)) f0.
Definition aff_mul_ellipse (m : Affine T) (e : Ellipse T) : Ellipse T :=
  mkEllipse (aff_mul m (el_inner e)).
Definition aff_mul_circle (m : Affine T) (c : Circle T) : Ellipse T :=
  aff_mul_ellipse m (ellipse_from_circle c).
(* Ellipse + Vec2, Ellipse - Vec2, with_center *)
Definition ellipse_add_v (e : Ellipse T) (v : Vec2 T) : Ellipse T :=
  mkEllipse (aff_mul (aff_translate v) (el_inner e)).
Definition ellipse_sub_v (e : Ellipse T) (v : Vec2 T) : Ellipse T :=
  mkEllipse (aff_mul (aff_translate (v_neg v)) (el_inner e)).
Definition ellipse_with_center (e : Ellipse T) (c : Point T) : Ellipse T :=
  mkEllipse (aff_with_translation (el_inner e) (mkVec2 (px c) (py c))).

(** the ellipse as a curve: the inner map applied to the unit circle at angle [th] *)
Definition ellipse_point (e : Ellipse T) (th : T) : Point T :=
  aff_apply (el_inner e) (mkPoint (fcos th) (fsin th)).
Definition circle_point (c : Circle T) (th : T) : Point T :=
  mkPoint (px (ci_center c) + ci_radius c * fcos th) (py (ci_center c) + ci_radius c * fsin th).

(** ** arcs (arc.rs) *)
(* fn rotate_pt(pt, angle) *)
Definition arc_rotate_pt (p : Vec2 T) (angle : T) : Vec2 T :=
  let s := fsin angle in let c := fcos angle in
  mkVec2 (vx p * c - vy p * s) (vx p * s + vy p * c).
(* fn sample_ellipse(radii, x_rotation, angle) *)
Definition arc_sample_ellipse (radii : Vec2 T) (x_rotation angle : T) : Vec2 T :=
  let s := fsin angle in let c := fcos angle in
  let u := vx radii * c in
  let v := vy radii * s in
  arc_rotate_pt (mkVec2 u v) x_rotation.
(** the arc as a curve: the point at angle [th] (as [Arc::path_elements]' first point for
    [th = start_angle]), and at parameter [t] in [0,1] *)
Definition arc_point_at (a : Arc T) (th : T) : Point T :=
  pt_add_v (arc_center a) (arc_sample_ellipse (arc_radii a) (arc_x_rotation a) th).
Definition arc_eval (a : Arc T) (t : T) : Point T :=
  arc_point_at a (arc_start_angle a + t * arc_sweep_angle a).

(** [Affine * Arc] as written on the pinned tree (arc.rs 210-225): the ellipse is mapped and
    re-decomposed, [start_angle] and [sweep_angle] are copied *)
Definition aff_mul_arc_pinned (m : Affine T) (a : Arc T) : Arc T :=
  let e := aff_mul_ellipse m (ellipse_new (arc_center a) (arc_radii a) (arc_x_rotation a)) in
  let center := ellipse_center e in
  let '(radii, rotation) := ellipse_radii_and_rotation e in
  mkArc center radii (arc_start_angle a) (arc_sweep_angle a) rotation.

(** [Affine * Arc] as the property requires (proposed_fixes/C12-affine-arc.diff): the start angle
    is re-derived from the image of the start point in the frame of the new axes, and the sweep
    changes sign when the map reverses orientation *)
Definition aff_mul_arc (m : Affine T) (a : Arc T) : Arc T :=
  let e := aff_mul_ellipse m (ellipse_new (arc_center a) (arc_radii a) (arc_x_rotation a)) in
  let center := ellipse_center e in
  let '(radii, rotation) := ellipse_radii_and_rotation e in
  let start := pt_sub (aff_apply m (pt_add_v (arc_center a)
                         (arc_sample_ellipse (arc_radii a) (arc_x_rotation a) (arc_start_angle a))))
                      center in
  let local := arc_rotate_pt start (- rotation) in
  let start_angle := fatan2 (vy local * vx radii) (vx local * vy radii) in
  let sweep_angle := if aff_determinant m <? f0 then - arc_sweep_angle a else arc_sweep_angle a in
  mkArc center radii start_angle sweep_angle rotation.

(** ** translate_scale.rs *)
Record TranslateScale := mkTS { ts_translation : Vec2 T; ts_scale : T }.

Definition ts_new_scale (s : T) : TranslateScale := mkTS (mkVec2 f0 f0) s.
Definition ts_new_translate (t : Vec2 T) : TranslateScale := mkTS t f1.
Definition ts_default : TranslateScale := mkTS (mkVec2 f0 f0) f1.
(* from_scale_about: translation = focus - focus * scale *)
Definition ts_from_scale_about (s : T) (focus : Point T) : TranslateScale :=
  let f := to_vec2 focus in mkTS (v_sub f (v_scale f s)) s.
(* inverse: translation * -scale_recip, scale_recip *)
Definition ts_inverse (ts : TranslateScale) : TranslateScale :=
  let scale_recip := f1 / ts_scale ts in
  mkTS (v_scale (ts_translation ts) (- scale_recip)) scale_recip.
(* From<TranslateScale> for Affine *)
Definition ts_to_affine (ts : TranslateScale) : Affine T :=
  mkAffine (ts_scale ts) f0 f0 (ts_scale ts) (vx (ts_translation ts)) (vy (ts_translation ts)).

(* (self.scale * other.to_vec2()).to_point() + self.translation *)
Definition ts_apply (ts : TranslateScale) (p : Point T) : Point T :=
  pt_add_v (to_point (s_scale_v (ts_scale ts) (to_vec2 p))) (ts_translation ts).
Definition ts_mul (s o : TranslateScale) : TranslateScale :=
  mkTS (v_add (ts_translation s) (s_scale_v (ts_scale s) (ts_translation o))) (ts_scale s * ts_scale o).
(* f64 * TranslateScale *)
Definition ts_scalar_mul (k : T) (o : TranslateScale) : TranslateScale :=
  mkTS (v_scale (ts_translation o) k) (ts_scale o * k).
Definition ts_add_v (ts : TranslateScale) (v : Vec2 T) : TranslateScale :=
  mkTS (v_add (ts_translation ts) v) (ts_scale ts).
Definition ts_sub_v (ts : TranslateScale) (v : Vec2 T) : TranslateScale :=
  mkTS (v_sub (ts_translation ts) v) (ts_scale ts).

Definition ts_mul_circle (ts : TranslateScale) (c : Circle T) : Circle T :=
  mkCircle (ts_apply ts (ci_center c)) (ts_scale ts * ci_radius c).
Definition ts_mul_line (ts : TranslateScale) (l : Line T) : Line T :=
  mkLine (ts_apply ts (l0 l)) (ts_apply ts (l1 l)).
Definition ts_mul_quad (ts : TranslateScale) (q : QuadBez T) : QuadBez T :=
  mkQuad (ts_apply ts (q0 q)) (ts_apply ts (q1 q)) (ts_apply ts (q2 q)).
Definition ts_mul_cubic (ts : TranslateScale) (c : CubicBez T) : CubicBez T :=
  mkCubic (ts_apply ts (c0 c)) (ts_apply ts (c1 c)) (ts_apply ts (c2 c)) (ts_apply ts (c3 c)).
Definition ts_mul_seg (ts : TranslateScale) (s : PathSeg T) : PathSeg T :=
  match s with
  | SegLine l => SegLine (ts_mul_line ts l)
  | SegQuad q => SegQuad (ts_mul_quad ts q)
  | SegCubic c => SegCubic (ts_mul_cubic ts c)
  end.
Definition ts_mul_el (ts : TranslateScale) (e : PathEl T) : PathEl T := map_el (ts_apply ts) e.
Definition ts_mul_path (ts : TranslateScale) (els : list (PathEl T)) : list (PathEl T) :=
  map (ts_mul_el ts) els.
(* (pt0, pt1).into() = Rect::from_points *)
Definition ts_mul_rect (ts : TranslateScale) (r : Rect T) : Rect T :=
  rect_from_points (ts_apply ts (mkPoint (rx0 r) (ry0 r))) (ts_apply ts (mkPoint (rx1 r) (ry1 r))).
Definition ts_mul_radii (ts : TranslateScale) (r : RoundedRectRadii T) : RoundedRectRadii T :=
  mkRadii (ts_scale ts * r_top_left r) (ts_scale ts * r_top_right r)
          (ts_scale ts * r_bottom_right r) (ts_scale ts * r_bottom_left r).

(* RoundedRect::from_rect (rounded_rect.rs 65): rect.abs(); radii.abs().clamp(min(w, h) / 2.0) *)
Definition radii_abs (r : RoundedRectRadii T) : RoundedRectRadii T :=
  mkRadii (fabs (r_top_left r)) (fabs (r_top_right r)) (fabs (r_bottom_right r)) (fabs (r_bottom_left r)).
Definition radii_clamp (r : RoundedRectRadii T) (mx : T) : RoundedRectRadii T :=
  mkRadii (fmin (r_top_left r) mx) (fmin (r_top_right r) mx) (fmin (r_bottom_right r) mx) (fmin (r_bottom_left r) mx).
Definition rrect_from_rect (rect : Rect T) (radii : RoundedRectRadii T) : RoundedRect T :=
  let rect := rect_abs rect in
  let shortest := fmin (rect_width rect) (rect_height rect) in
  mkRoundedRect rect (radii_clamp (radii_abs radii) (shortest / f2)).

(** [TranslateScale * RoundedRect] as written on the pinned tree (translate_scale.rs 267-274) *)
Definition ts_mul_rrect_pinned (ts : TranslateScale) (rr : RoundedRect T) : RoundedRect T :=
  rrect_from_rect (ts_mul_rect ts (rr_rect rr)) (ts_mul_radii ts (rr_radii rr)).
(** ... and as the property requires: a negative scale is a half turn about a point, so every
    corner lands diagonally opposite and takes its radius with it
    (proposed_fixes/C12-translate-scale-rounded-rect.diff) *)
Definition radii_half_turn (r : RoundedRectRadii T) : RoundedRectRadii T :=
  mkRadii (r_bottom_right r) (r_bottom_left r) (r_top_left r) (r_top_right r).
Definition ts_mul_rrect (ts : TranslateScale) (rr : RoundedRect T) : RoundedRect T :=
  let radii := if ts_scale ts <? f0 then radii_half_turn (rr_radii rr) else rr_radii rr in
  rrect_from_rect (ts_mul_rect ts (rr_rect rr)) (ts_mul_radii ts radii).

End AffineOps.

Arguments TranslateScale T : clear implicits.
