(** cubicbez.rs / quadspline.rs: conversion of cubics to quadratics (C17).

    [CubicBez::to_quads] (78-97) and [ToQuads::next] (735-757); the cu2qu port
    [approx_spline] / [approx_spline_n] (103-153), [approx_quad_control] (155),
    [try_approx_quadratic] (165, with [Line::crossing_point], line.rs 65),
    [split_into_n] (184, with [parameters] 260 and [from_parameters] 269),
    [subdivide_3] (277), [fit_inside] (316), [cubics_to_quadratic_splines] (760);
    [QuadSpline::to_quads] / [ToQuadBez::next] (quadspline.rs 31-61).

    Generic over the scalar, same order of floating-point operations as the Rust code.
    Definitions only.  Loops are structural recursions; the only unbounded recursion,
    [fit_inside], takes explicit fuel (depth) and returns [None] when it runs out. *)

From Coq Require Import ZArith QArith List Bool Floats.
From KV Require Import Scalar Geom Curves.
Import ListNotations.

Set Implicit Arguments.

Section ToQuads.
Context {T : Type} `{Scalar T}.
Local Open Scope S_scope.

Definition f4 : T := fofZ 4.
Definition f6 : T := fofZ 6.
Definition f8 : T := fofZ 8.
Definition f12 : T := fofZ 12.
Definition f27 : T := fofZ 27.
Definition f432 : T := fofZ 432.
Definition f1_5 : T := flit 0x1.8p+0%float (3#2).
Definition f0_125 : T := flit 0x1p-3%float (1#8).
Definition v_zero : Vec2 T := mkVec2 f0 f0.
Definition pt_zero : Point T := mkPoint f0 f0.
(* Vec2::div_exact *)
Definition v_div_exact (a : Vec2 T) (s : T) : Vec2 T := mkVec2 (vx a / s) (vy a / s).

(** ** [CubicBez::to_quads]: the piece count *)

(* [err = (p2x2 - p1x2).hypot2()] *)
Definition to_quads_err (c : CubicBez T) : T :=
  let p1x2 := v_sub (s_scale_v f3 (to_vec2 (c1 c))) (to_vec2 (c0 c)) in
  let p2x2 := v_sub (s_scale_v f3 (to_vec2 (c2 c))) (to_vec2 (c3 c)) in
  v_hypot2 (v_sub p2x2 p1x2).

(* [max_hypot2 = 432.0 * accuracy * accuracy] *)
Definition to_quads_max_hypot2 (accuracy : T) : T := f432 * accuracy * accuracy.

(* [((err / max_hypot2).powf(1. / 6.0).ceil() as usize).max(1)] *)
Definition to_quads_count (c : CubicBez T) (accuracy : T) : Z :=
  Z.max (fto_usize (fceil (fpowf (to_quads_err c / to_quads_max_hypot2 accuracy) one_sixth))) 1.

(** ** [ToQuads::next]: piece [i] of [n] *)

(* the quadratic replacing one cubic piece: end points kept, control point
   [((3 p1 - p0) + (3 p2 - p3)) / 4] *)
Definition quad_of_cubic (seg : CubicBez T) : QuadBez T :=
  let p1x2 := v_sub (s_scale_v f3 (to_vec2 (c1 seg))) (to_vec2 (c0 seg)) in
  let p2x2 := v_sub (s_scale_v f3 (to_vec2 (c2 seg))) (to_vec2 (c3 seg)) in
  mkQuad (c0 seg) (to_point (v_div (v_add p1x2 p2x2) f4)) (c3 seg).

Definition to_quads_t0 (n i : Z) : T := fofZ i / fofZ n.
Definition to_quads_t1 (n i : Z) : T := fofZ (i + 1) / fofZ n.

Definition to_quads_piece (c : CubicBez T) (n i : Z) : T * T * QuadBez T :=
  let t0 := to_quads_t0 n i in
  let t1 := to_quads_t1 n i in
  let seg := cubic_subsegment c t0 t1 in
  (t0, t1, quad_of_cubic seg).

(* everything the iterator yields for a given count [n] *)
Definition to_quads_n (c : CubicBez T) (n : nat) : list (T * T * QuadBez T) :=
  map (fun i => to_quads_piece c (Z.of_nat n) (Z.of_nat i)) (seq 0 n).

Definition to_quads (c : CubicBez T) (accuracy : T) : list (T * T * QuadBez T) :=
  to_quads_n c (Z.to_nat (to_quads_count c accuracy)).

(** ** [approx_quad_control] *)
Definition approx_quad_control (c : CubicBez T) (t : T) : Point T :=
  let p1 := pt_add_v (c0 c) (v_scale (pt_sub (c1 c) (c0 c)) f1_5) in
  let p2 := pt_add_v (c3 c) (v_scale (pt_sub (c2 c) (c3 c)) f1_5) in
  pt_lerp p1 p2 t.

(** ** [fit_inside] (recursion depth as fuel; [None] = out of fuel) *)
Fixpoint fit_inside (fuel : nat) (c : CubicBez T) (distance : T) : option bool :=
  match fuel with
  | O => None
  | S k =>
      if (v_hypot (to_vec2 (c2 c)) <=? distance) && (v_hypot (to_vec2 (c1 c)) <=? distance) then Some true
      else
        let mid := v_scale (v_add (v_add (to_vec2 (c0 c))
                                         (s_scale_v f3 (v_add (to_vec2 (c1 c)) (to_vec2 (c2 c)))))
                                  (to_vec2 (c3 c))) f0_125 in
        if v_hypot mid >? distance then Some false
        else
          let '(l, r) := cubic_subdivide c in
          match fit_inside k l distance with
          | Some true => fit_inside k r distance
          | other => other
          end
  end.

(** ** [Line::crossing_point] of the lines (p0,p1) and (p2,p3), and [try_approx_quadratic] *)
Definition crossing_point (a0 a1 b0 b1 : Point T) : option (Point T) :=
  let ab := pt_sub a1 a0 in
  let cd := pt_sub b1 b0 in
  let pcd := v_cross ab cd in
  if pcd =? f0 then None
  else
    let h := v_cross ab (pt_sub a0 b0) / pcd in
    Some (pt_add_v b0 (v_scale cd h)).

(* outer [None]: out of fuel; [Some None]: Rust's [None] *)
Definition try_approx_quadratic (fuel : nat) (c : CubicBez T) (accuracy : T) : option (option (QuadBez T)) :=
  match crossing_point (c0 c) (c1 c) (c2 c) (c3 c) with
  | None => Some None
  | Some q1 =>
      let k1 := pt_lerp (c0 c) q1 two_thirds in
      let k2 := pt_lerp (c3 c) q1 two_thirds in
      match fit_inside fuel (mkCubic pt_zero (pt_sub_v k1 (to_vec2 (c1 c))) (pt_sub_v k2 (to_vec2 (c2 c))) pt_zero) accuracy with
      | None => None
      | Some false => Some None
      | Some true => Some (Some (mkQuad (c0 c) q1 (c3 c)))
      end
  end.

(** ** [parameters], [from_parameters], [subdivide_3], [split_into_n] *)
Definition cubic_parameters (c : CubicBez T) : Vec2 T * Vec2 T * Vec2 T * Vec2 T :=
  let pc := v_scale (pt_sub (c1 c) (c0 c)) f3 in
  let pb := v_sub (v_scale (pt_sub (c2 c) (c1 c)) f3) pc in
  let pd := to_vec2 (c0 c) in
  let pa := v_sub (v_sub (v_sub (to_vec2 (c3 c)) pd) pc) pb in
  (pa, pb, pc, pd).

Definition cubic_from_parameters (a b c d : Vec2 T) : CubicBez T :=
  let p0 := to_point d in
  let p1 := pt_add_v (to_point (v_div_exact c f3)) d in
  let p2 := pt_add_v (to_point (v_div_exact (v_add b c) f3)) (to_vec2 p1) in
  let p3 := to_point (v_add (v_add (v_add a d) c) b) in
  mkCubic p0 p1 p2 p3.

Definition cubic_subdivide_3 (c : CubicBez T) : CubicBez T * CubicBez T * CubicBez T :=
  let p0 := to_vec2 (c0 c) in let p1 := to_vec2 (c1 c) in
  let p2 := to_vec2 (c2 c) in let p3 := to_vec2 (c3 c) in
  let one_27th := f1 / f27 in
  let mid1 := to_point (v_scale (v_add (v_add (v_add (s_scale_v f8 p0) (s_scale_v f12 p1)) (s_scale_v f6 p2)) p3) one_27th) in
  let deriv1 := v_scale (v_sub (v_add p3 (s_scale_v f3 p2)) (s_scale_v f4 p0)) one_27th in
  let mid2 := to_point (v_scale (v_add (v_add (v_add p0 (s_scale_v f6 p1)) (s_scale_v f12 p2)) (s_scale_v f8 p3)) one_27th) in
  let deriv2 := v_scale (v_sub (v_sub (s_scale_v f4 p3) (s_scale_v f3 p1)) p0) one_27th in
  let left := mkCubic (c0 c) (to_point (v_div_exact (v_add (s_scale_v f2 p0) p1) f3)) (pt_sub_v mid1 deriv1) mid1 in
  let mid := mkCubic mid1 (pt_add_v mid1 deriv1) (pt_sub_v mid2 deriv2) mid2 in
  let right := mkCubic mid2 (pt_add_v mid2 deriv2) (to_point (v_div_exact (v_add p2 (s_scale_v f2 p3)) f3)) (c3 c) in
  (left, mid, right).

(* piece [i] of the fallback branch of [split_into_n] *)
Definition split_generic_piece (c : CubicBez T) (n i : Z) : CubicBez T :=
  let '(a, b, pc, d) := cubic_parameters c in
  let dt := f1 / fofZ n in
  let delta_2 := dt * dt in
  let delta_3 := dt * delta_2 in
  let t1 := fofZ i * dt in
  let t1_2 := t1 * t1 in
  let a1 := v_scale a delta_3 in
  let b1 := v_scale (v_add (v_scale (s_scale_v f3 a) t1) b) delta_2 in
  let c1' := v_scale (v_add (v_add (v_scale (s_scale_v f2 b) t1) pc) (v_scale (s_scale_v f3 a) t1_2)) dt in
  let d1 := v_add (v_add (v_add (v_scale (v_scale a t1) t1_2) (v_scale b t1_2)) (v_scale pc t1)) d in
  cubic_from_parameters a1 b1 c1' d1.

Definition split_into_n (c : CubicBez T) (n : nat) : list (CubicBez T) :=
  match n with
  | 1%nat => [c]
  | 2%nat => let '(l, r) := cubic_subdivide c in [l; r]
  | 3%nat => let '(l, m, r) := cubic_subdivide_3 c in [l; m; r]
  | 4%nat =>
      let '(l, r) := cubic_subdivide c in
      let '(ll, lr) := cubic_subdivide l in
      let '(rl, rr) := cubic_subdivide r in
      [ll; lr; rl; rr]
  | 6%nat =>
      let '(l, r) := cubic_subdivide c in
      let '(l1, l2, l3) := cubic_subdivide_3 l in
      let '(r1, r2, r3) := cubic_subdivide_3 r in
      [l1; l2; l3; r1; r2; r3]
  | _ => map (fun i => split_generic_piece c (Z.of_nat n) (Z.of_nat i)) (seq 0 n)
  end.

(** ** [approx_spline_n]

    The [for i in 1..=n] loop.  State on entry of iteration [i]: the current cubic
    [cur] (Rust's [next_cubic]), the not yet consumed pieces [rest], [q0] (Rust's [q2]),
    [q1] (Rust's [next_q1]) and [d0] (Rust's [d1]).  The result lists the control points
    pushed by this and the later iterations.
    Outer [None]: [fit_inside] ran out of fuel; [Some None]: Rust's [return None]. *)
Definition spline_check (fuel : nat) (accuracy : T) (cur : CubicBez T) (q0 q1 q2 : Point T) (d0 d1 : Vec2 T)
  : option bool :=
  if v_hypot d1 >? accuracy then Some false
  else fit_inside fuel
         (mkCubic (to_point d0)
                  (pt_sub_v (pt_lerp q0 q1 two_thirds) (to_vec2 (c1 cur)))
                  (pt_sub_v (pt_lerp q2 q1 two_thirds) (to_vec2 (c2 cur)))
                  (to_point d1)) accuracy.

Fixpoint spline_loop (fuel : nat) (accuracy : T) (n : Z) (i : Z) (cur : CubicBez T) (rest : list (CubicBez T))
         (q0 q1 : Point T) (d0 : Vec2 T) : option (option (list (Point T))) :=
  match rest with
  | [] =>
      let q2 := c3 cur in
      let d1 := v_sub (to_vec2 q2) (to_vec2 (c3 cur)) in
      match spline_check fuel accuracy cur q0 q1 q2 d0 d1 with
      | None => None
      | Some false => Some None
      | Some true => Some (Some [])
      end
  | nxt :: rest' =>
      let next_q1 := approx_quad_control nxt (fofZ i / fofZ (n - 1)) in
      let q2 := pt_midpoint q1 next_q1 in
      let d1 := v_sub (to_vec2 q2) (to_vec2 (c3 cur)) in
      match spline_check fuel accuracy cur q0 q1 q2 d0 d1 with
      | None => None
      | Some false => Some None
      | Some true =>
          match spline_loop fuel accuracy n (i + 1) nxt rest' q2 next_q1 d1 with
          | Some (Some tl) => Some (Some (next_q1 :: tl))
          | other => other
          end
      end
  end.

Definition approx_spline_n (fuel : nat) (c : CubicBez T) (n : nat) (accuracy : T) : option (option (list (Point T))) :=
  match n with
  | 1%nat =>
      match try_approx_quadratic fuel c accuracy with
      | None => None
      | Some None => Some None
      | Some (Some q) => Some (Some [q0 q; q1 q; q2 q])
      end
  | _ =>
      match split_into_n c n with
      | [] => Some None          (* n = 0: the Rust code panics on [unwrap]; never called with 0 *)
      | first :: rest =>
          let next_q1 := approx_quad_control first f0 in
          match spline_loop fuel accuracy (Z.of_nat n) 1 first rest (c0 c) next_q1 v_zero with
          | Some (Some tl) => Some (Some (c0 c :: next_q1 :: tl ++ [c3 c]))
          | other => other
          end
      end
  end.

(** [approx_spline]: [(1..=MAX_SPLINE_SPLIT).find_map(|n| self.approx_spline_n(n, accuracy))];
    [spline_search k n] tries [n, n+1, ..., n+k-1]. *)
Definition MAX_SPLINE_SPLIT : nat := 100.

Fixpoint spline_search (fuel : nat) (c : CubicBez T) (accuracy : T) (k : nat) (n : nat)
  : option (option (list (Point T))) :=
  match k with
  | O => Some None
  | S k' =>
      match approx_spline_n fuel c n accuracy with
      | None => None
      | Some (Some s) => Some (Some s)
      | Some None => spline_search fuel c accuracy k' (S n)
      end
  end.

Definition approx_spline (fuel : nat) (c : CubicBez T) (accuracy : T) : option (option (list (Point T))) :=
  spline_search fuel c accuracy MAX_SPLINE_SPLIT 1.

(** ** [cubics_to_quadratic_splines]
    [all_splines_n]: the inner [for] loop for one [split_order]; [Some None] = some curve failed. *)
Fixpoint all_splines_n (fuel : nat) (curves : list (CubicBez T)) (n : nat) (accuracy : T)
  : option (option (list (list (Point T)))) :=
  match curves with
  | [] => Some (Some [])
  | c :: cs =>
      match approx_spline_n fuel c n accuracy with
      | None => None
      | Some None => Some None
      | Some (Some s) =>
          match all_splines_n fuel cs n accuracy with
          | Some (Some ss) => Some (Some (s :: ss))
          | other => other
          end
      end
  end.

Fixpoint splines_search (fuel : nat) (curves : list (CubicBez T)) (accuracy : T) (k : nat) (n : nat)
  : option (option (list (list (Point T)))) :=
  match k with
  | O => Some None
  | S k' =>
      match all_splines_n fuel curves n accuracy with
      | None => None
      | Some (Some ss) => Some (Some ss)
      | Some None => splines_search fuel curves accuracy k' (S n)
      end
  end.

(* [while split_order <= MAX_SPLINE_SPLIT { split_order += 1; ... }]: orders 1 ..= MAX_SPLINE_SPLIT + 1 *)
Definition cubics_to_quadratic_splines (fuel : nat) (curves : list (CubicBez T)) (accuracy : T)
  : option (option (list (list (Point T)))) :=
  splines_search fuel curves accuracy (S MAX_SPLINE_SPLIT) 1.

(** ** [QuadSpline::to_quads] / [ToQuadBez::next]
    [first] is [idx == 0]; the third point is kept iff it is the last one
    ([idx + 2 < len - 1] fails). *)
Fixpoint quadspline_quads_from (first : bool) (pts : list (Point T)) : list (QuadBez T) :=
  match pts with
  | a :: tl =>
      match tl with
      | b :: c :: rest =>
          let p0 := if first then a else pt_midpoint a b in
          let p2 := match rest with [] => c | _ :: _ => pt_midpoint b c end in
          mkQuad p0 b p2 :: quadspline_quads_from false tl
      | _ => []
      end
  | [] => []
  end.

Definition quadspline_to_quads (pts : list (Point T)) : list (QuadBez T) := quadspline_quads_from true pts.

End ToQuads.
