(** Closed-form shape queries (C11): [area], [perimeter], [winding], [bounding_box] of
    Rect (in Rect.v), RoundedRect, Circle, CircleSegment, Ellipse, Triangle, Line.
    Generic over the scalar; mirrors the Rust code operation by operation. Definitions only.

    Sources: rounded_rect.rs, rounded_rect_radii.rs, circle.rs, ellipse.rs, triangle.rs, line.rs.
    [Iterator::sum::<f64>()] starts from (-)0.0 and adds left to right. *)

From Coq Require Import ZArith QArith List Bool Floats.
From KV Require Import Scalar Geom Rect Affine Curves ShapeTypes.
From KV Require AffineOps.  (* for [AffineOps.aff_svd_det]: Affine::svd as repaired by commit 7389fc0 (minor radius = |det| / major) *)
Import ListNotations.

Set Implicit Arguments.

Section ShapeQueries.
Context {T : Type} `{Scalar T}.
Local Open Scope S_scope.

(** core::f64::consts: FRAC_PI_2 = PI/2 and FRAC_PI_4 = PI/4 are exact scalings of the binary64 PI *)
Definition frac_pi_2 : T := fpi / f2.
Definition frac_pi_4 : T := fpi / fofZ 4.
Definition two_pi : T := f2 * fpi.                    (* 2.0 * PI, folded by the compiler *)
Definition sum4 (a b c d : T) : T := f0 + a + b + c + d.   (* [a,b,c,d].iter().sum() *)
Definition fnan : T := f0 / f0.                       (* f64::NAN (0 at the real instance) *)

(** ** RoundedRectRadii / RoundedRect (rounded_rect_radii.rs, rounded_rect.rs) *)
Definition radii_abs (r : RoundedRectRadii T) : RoundedRectRadii T :=
  mkRadii (fabs (r_top_left r)) (fabs (r_top_right r)) (fabs (r_bottom_right r)) (fabs (r_bottom_left r)).
(* self.top_left.min(max) ... *)
Definition radii_clamp (r : RoundedRectRadii T) (m : T) : RoundedRectRadii T :=
  mkRadii (fmin (r_top_left r) m) (fmin (r_top_right r) m) (fmin (r_bottom_right r) m) (fmin (r_bottom_left r) m).

(* RoundedRect::from_rect: the only constructor; this is where the radii are clamped *)
Definition rr_from_rect (rect : Rect T) (radii : RoundedRectRadii T) : RoundedRect T :=
  let rect := rect_abs rect in
  let shortest := fmin (rect_width rect) (rect_height rect) in
  mkRoundedRect rect (radii_clamp (radii_abs radii) (shortest / f2)).

Definition rr_width (r : RoundedRect T) : T := rect_width (rr_rect r).
Definition rr_height (r : RoundedRect T) : T := rect_height (rr_rect r).
Definition rr_center (r : RoundedRect T) : Point T := rect_center (rr_rect r).

(* rounded_rect.rs 230: rect.area() + sum over corners of (FRAC_PI_4 - 1.0) * r * r *)
Definition rr_area (r : RoundedRect T) : T :=
  let k := frac_pi_4 - f1 in
  let q := rr_radii r in
  rect_area (rr_rect r)
  + sum4 (k * r_top_left q * r_top_left q) (k * r_top_right q * r_top_right q)
         (k * r_bottom_right q * r_bottom_right q) (k * r_bottom_left q * r_bottom_left q).

(* rounded_rect.rs 261: rect.perimeter(1.0) + sum over corners of (-2.0 + FRAC_PI_2) * r *)
Definition rr_perimeter (r : RoundedRect T) : T :=
  let k := - f2 + frac_pi_2 in
  let q := rr_radii r in
  rect_perimeter (rr_rect r)
  + sum4 (k * r_top_left q) (k * r_top_right q) (k * r_bottom_right q) (k * r_bottom_left q).

(* rounded_rect.rs 294-341 *)
Definition rr_winding (r : RoundedRect T) (p : Point T) : Z :=
  let c := rr_center r in
  let x := px p - px c in
  let y := py p - py c in
  let q := rr_radii r in
  let radius :=
    if (x <? f0) && (y <? f0) then r_top_left q
    else if (x >=? f0) && (y <? f0) then r_top_right q
    else if (x >=? f0) && (y >=? f0) then r_bottom_right q
    else if (x <? f0) && (y >=? f0) then r_bottom_left q
    else f0 in
  let ihw := fmax (rr_width r / f2 - radius) f0 in
  let ihh := fmax (rr_height r / f2 - radius) f0 in
  let qx := fmax (fabs x - ihw) f0 in
  let qy := fmax (fabs y - ihh) f0 in
  if qx * qx + qy * qy <=? radius * radius then 1%Z else 0%Z.

Definition rr_bounding_box (r : RoundedRect T) : Rect T := rect_bounding_box (rr_rect r).

(** ** Circle (circle.rs 120-150) *)
Definition circle_area (c : Circle T) : T := fpi * fpowi (ci_radius c) 2.
Definition circle_perimeter (c : Circle T) : T := fabs (two_pi * ci_radius c).
Definition circle_winding (c : Circle T) (p : Point T) : Z :=
  if v_hypot2 (pt_sub p (ci_center c)) <? fpowi (ci_radius c) 2 then 1%Z else 0%Z.
Definition circle_bounding_box (c : Circle T) : Rect T :=
  let r := fabs (ci_radius c) in
  let x := px (ci_center c) in let y := py (ci_center c) in
  mkRect (x - r) (y - r) (x + r) (y + r).

(** ** CircleSegment (circle.rs 351-385) *)
Definition cseg_area (s : CircleSegment T) : T :=
  fhalf * fabs (fpowi (cs_outer_radius s) 2 - fpowi (cs_inner_radius s) 2) * cs_sweep_angle s.
Definition cseg_perimeter (s : CircleSegment T) : T :=
  f2 * fabs (cs_outer_radius s - cs_inner_radius s)
  + cs_sweep_angle s * (cs_inner_radius s + cs_outer_radius s).

Definition cseg_in_band (s : CircleSegment T) (dist2 : T) : bool :=
  let o2 := fpowi (cs_outer_radius s) 2 in
  let i2 := fpowi (cs_inner_radius s) 2 in
  ((dist2 <? o2) && (dist2 >? i2)) || ((dist2 <? i2) && (dist2 >? o2)).

(** The pinned code (circle.rs 361-375): compares the raw [atan2] angle, which lies in
    (-pi, pi], with [start_angle .. start_angle + sweep_angle] without any reduction. *)
Definition cseg_winding_pinned (s : CircleSegment T) (p : Point T) : Z :=
  let d := pt_sub p (cs_center s) in
  let angle := fatan2 (vy d) (vx d) in
  if (angle <? cs_start_angle s) || (angle >? cs_start_angle s + cs_sweep_angle s) then 0%Z
  else if cseg_in_band s (v_hypot2 d) then 1%Z else 0%Z.

(** The required behaviour (proposed_fixes/C11-circle-segment-winding.diff): the angle is
    measured from [start_angle] in the direction of the sweep and reduced to [0, 2pi). *)
Definition cseg_winding (s : CircleSegment T) (p : Point T) : Z :=
  let d := pt_sub p (cs_center s) in
  let angle := fatan2 (vy d) (vx d) in
  let sign := fsignum (cs_sweep_angle s) in
  let a := sign * (angle - cs_start_angle s) in
  let rel := a - two_pi * ffloor (a / two_pi) in
  if rel >? fabs (cs_sweep_angle s) then 0%Z
  else if cseg_in_band s (v_hypot2 d) then (if f0 <? sign then 1%Z else if sign <? f0 then (-1)%Z else 0%Z)
  else 0%Z.

Definition cseg_bounding_box (s : CircleSegment T) : Rect T :=
  let r := fmax (cs_inner_radius s) (cs_outer_radius s) in
  let x := px (cs_center s) in let y := py (cs_center s) in
  mkRect (x - r) (y - r) (x + r) (y + r).

(** ** Ellipse (ellipse.rs) *)
(* Ellipse::private_new: translate(center) * rotate(th) * scale_non_uniform(|sx|, |sy|) *)
Definition ellipse_new (center : Point T) (radii : Vec2 T) (x_rotation : T) : Ellipse T :=
  mkEllipse (aff_mul (aff_mul (aff_translate (to_vec2 center)) (aff_rotate x_rotation))
                     (aff_scale_non_uniform (fabs (vx radii)) (fabs (vy radii)))).
Definition ellipse_from_affine (a : Affine T) : Ellipse T := mkEllipse a.
Definition ellipse_center (e : Ellipse T) : Point T := to_point (aff_translation (el_inner e)).
Definition ellipse_radii_and_rotation (e : Ellipse T) : Vec2 T * T := AffineOps.aff_svd_det (el_inner e).
Definition ellipse_radii (e : Ellipse T) : Vec2 T := fst (AffineOps.aff_svd_det (el_inner e)).

Definition ellipse_area (e : Ellipse T) : T :=
  let r := ellipse_radii e in fpi * vx r * vy r.

(* ellipse.rs 264 *)
Definition ellipse_winding (e : Ellipse T) (p : Point T) : Z :=
  let inv := aff_inverse (el_inner e) in
  if v_hypot2 (to_vec2 (aff_apply inv p)) <? f1 then 1%Z else 0%Z.

Definition ellipse_bounding_box (e : Ellipse T) : Rect T :=
  let m := el_inner e in
  let a2 := aa m * aa m in let b2 := ab m * ab m in
  let c2 := ac m * ac m in let d2 := ad m * ad m in
  let cx := ae m in let cy := af m in
  let range_x := fsqrt (a2 + c2) in
  let range_y := fsqrt (b2 + d2) in
  mkRect (cx - range_x) (cy - range_y) (cx + range_x) (cy + range_y).

(* ellipse.rs 322: truncated Gauss-Kummer series. PI / 4. etc. are folded constants = the same divisions *)
Definition kummer_h (r : Vec2 T) : T := fpowi ((vx r - vy r) / (vx r + vy r)) 2.
Definition kummer_elliptic_perimeter (r : Vec2 T) : T :=
  let h := kummer_h r in
  let h2 := h * h in let h3 := h2 * h in let h4 := h3 * h in let h5 := h4 * h in let h6 := h5 * h in
  let lower := fpi
    + h * (fpi / fofZ 4)
    + h2 * (fpi / fofZ 64)
    + h3 * (fpi / fofZ 256)
    + h4 * (fpi * fofZ 25 / fofZ 16384)
    + h5 * (fpi * fofZ 49 / fofZ 65536)
    + h6 * (fpi * fofZ 441 / fofZ 1048576) in
  (vx r + vy r) * lower.

(* BINOM_SQUARED_REMAINDER = 0.00101416479131503 *)
Definition binom_squared_remainder : T :=
  flit 0x1.09db727220a95p-10%float (101416479131503 # 100000000000000000).
Definition kummer_elliptic_perimeter_range (r : Vec2 T) : T :=
  fpi * binom_squared_remainder * fpowi (kummer_h r) 7 * (vx r + vy r).

(* ellipse.rs 371: the AGM loop, with explicit fuel. [None] = fuel exhausted.
   Result: the final [sum] (after the second subtraction of [term]) and the current means [a], [g]. *)
Fixpoint agm_loop (fuel : nat) (accuracy sum a g c mul : T) : option (T * T * T) :=
  match fuel with
  | O => None
  | S k =>
      let c2 := fpowi c 2 in
      let term := mul * c2 in
      let sum := sum - term in
      if term <=? accuracy * g then Some (sum - term, a, g)
      else
        let mul := mul * f2 in
        let c := (a - g) / f2 in
        let a_next := (a + g) / f2 in
        let g := fsqrt (a * g) in
        agm_loop k accuracy sum a_next g c mul
  end.

Definition agm_start (accuracy : T) (r : Vec2 T) : T * T * T * T :=   (* x, accuracy', g0, c0 *)
  let '(x, y) := if vx r >=? vy r then (vx r, vy r) else (vy r, vx r) in
  let g := y / x in
  (x, accuracy / (two_pi * x), g, fsqrt (f1 - fpowi g 2)).

(** the pinned code returns [2 pi x / a_n * sum] with the current arithmetic mean [a_n] *)
Definition agm_elliptic_perimeter_pinned (fuel : nat) (accuracy : T) (r : Vec2 T) : option T :=
  let '(x, acc, g, c) := agm_start accuracy r in
  match agm_loop fuel acc f1 f1 g c fhalf with
  | None => None
  | Some (sum, a, _) => Some (two_pi * x / a * sum)
  end.

Definition f64_epsilon : T := flit 0x1p-52%float (1 # 4503599627370496).

(** proposed_fixes/C11-ellipse-perimeter-agm.diff: iterate the mean itself to convergence
    ([while a - g > f64::EPSILON * a]) before dividing by it *)
Fixpoint agm_converge (fuel : nat) (a g : T) : option T :=
  if a - g >? f64_epsilon * a then
    match fuel with
    | O => None
    | S k => agm_converge k ((a + g) / f2) (fsqrt (a * g))
    end
  else Some a.

Definition agm_elliptic_perimeter (fuel : nat) (accuracy : T) (r : Vec2 T) : option T :=
  let '(x, acc, g, c) := agm_start accuracy r in
  match agm_loop fuel acc f1 f1 g c fhalf with
  | None => None
  | Some (sum, a, g) =>
      match agm_converge fuel a g with
      | None => None
      | Some a => Some (two_pi * x / a * sum)
      end
  end.

(* ellipse.rs 239-262; [agm] is one of the two functions above *)
Definition ellipse_perimeter_with (agm : T -> Vec2 T -> option T) (e : Ellipse T) (accuracy : T) : option T :=
  let r := ellipse_radii e in
  if negb (fis_finite (vx r) && fis_finite (vy r)) then Some fnan
  else if (vx r =? f0) || (vy r =? f0) then Some (fofZ 4 * fmax (vx r) (vy r))
  else if kummer_elliptic_perimeter_range r <=? accuracy then Some (kummer_elliptic_perimeter r)
  else agm accuracy r.
Definition ellipse_perimeter (fuel : nat) := ellipse_perimeter_with (agm_elliptic_perimeter fuel).
Definition ellipse_perimeter_pinned (fuel : nat) := ellipse_perimeter_with (agm_elliptic_perimeter_pinned fuel).

(** ** Triangle (triangle.rs) *)
Definition tri_area (t : Triangle T) : T :=
  fhalf * v_cross (pt_sub (tri_b t) (tri_a t)) (pt_sub (tri_c t) (tri_a t)).
Definition tri_perimeter (t : Triangle T) : T :=
  pt_distance (tri_a t) (tri_b t) + pt_distance (tri_b t) (tri_c t) + pt_distance (tri_c t) (tri_a t).
Definition tri_crosses (t : Triangle T) (p : Point T) : T * T * T :=
  (v_cross (pt_sub (tri_b t) (tri_a t)) (pt_sub p (tri_a t)),
   v_cross (pt_sub (tri_c t) (tri_b t)) (pt_sub p (tri_b t)),
   v_cross (pt_sub (tri_a t) (tri_c t)) (pt_sub p (tri_c t))).

(** The pinned code (triangle.rs 218): compares the [signum]s; [signum(+-0) = +-1], so a vanishing
    cross product counts as a side. [s0 as i32] of +-1. *)
Definition tri_winding_pinned (t : Triangle T) (p : Point T) : Z :=
  let '(k0, k1, k2) := tri_crosses t p in
  let s0 := fsignum k0 in let s1 := fsignum k1 in let s2 := fsignum k2 in
  if (s0 =? s1) && (s1 =? s2) then (if f0 <? s0 then 1%Z else if s0 <? f0 then (-1)%Z else 0%Z) else 0%Z.

(** The required behaviour (proposed_fixes/C11-triangle-degenerate-winding.diff): a triangle of
    zero area has no interior ([if self.is_zero_area() { return 0; }] in front of the pinned code) *)
Definition tri_winding (t : Triangle T) (p : Point T) : Z :=
  if tri_area t =? f0 then 0%Z else tri_winding_pinned t p.

Definition tri_bounding_box (t : Triangle T) : Rect T :=
  let a := tri_a t in let b := tri_b t in let c := tri_c t in
  mkRect (fmin (px a) (fmin (px b) (px c))) (fmin (py a) (fmin (py b) (py c)))
         (fmax (px a) (fmax (px b) (px c))) (fmax (py a) (fmax (py b) (py c))).

(** ** Line as a Shape (line.rs 286-323) *)
Definition line_shape_area (l : Line T) : T := f0.
Definition line_shape_perimeter (l : Line T) : T := v_hypot (pt_sub (l1 l) (l0 l)).
Definition line_shape_winding (l : Line T) (p : Point T) : Z := 0%Z.
Definition line_shape_bounding_box (l : Line T) : Rect T := rect_from_points (l0 l) (l1 l).

End ShapeQueries.
