(** fit.rs / offset.rs / simplify.rs: the recursion skeleton of [fit_to_bezpath] over an
    ABSTRACT source curve, the outer state machine of [simplify_bezpath] over an abstract
    fitter, and the concrete numeric kernels [CubicOffset::{new,eval_offset,eval,eval_deriv,
    cusp_sign,sample_pt_tangent,sample_pt_deriv}], [simplify::moment_integrals] and
    [SimplifyBezPath::{new,scale,sample_pt_*,moment_integrals}].
    Generic over the scalar. Definitions only.

    NOT modelled (and no theorem speaks about it): [fit_to_cubic]'s quartic / candidate
    selection / [CurveDist] error estimate, [fit_to_bezpath_opt], [CubicOffset::break_cusp].
    [fit_to_cubic] enters [fit_rec] as an oracle. *)

From Coq Require Import ZArith QArith List Bool Floats.
From KV Require Import Scalar Geom Curves Path.
Import ListNotations.

Set Implicit Arguments.

Section Fit.
Context {T : Type} `{Scalar T}.
Local Open Scope S_scope.

(** ** small helpers *)

(* BezPath::is_empty: all elements are MoveTo or ClosePath (bezpath.rs 346) *)
Definition path_is_empty (p : list (PathEl T)) : bool :=
  forallb (fun e => match e with MoveTo _ | ClosePath => true | _ => false end) p.

(* Rust [Point == Point] *)
Definition pt_eq (a b : Point T) : bool := pt_eqb a b.

(* Line::nearest(p, _).distance_sq  (line.rs 161-175) *)
Definition line_nearest_dsq (l : Line T) (p : Point T) : T :=
  let d := pt_sub (l1 l) (l0 l) in
  let dotp := v_dot d (pt_sub p (l0 l)) in
  let d_squared := v_dot d d in
  if dotp <=? f0 then v_hypot2 (pt_sub p (l0 l))
  else if dotp >=? d_squared then v_hypot2 (pt_sub p (l1 l))
  else
    let t := dotp / d_squared in
    v_hypot2 (pt_sub p (line_eval l t)).

(** CurveFitSample *)
Record Sample := mkSample { s_p : Point T; s_tan : Vec2 T }.

(** ** fit_to_bezpath / fit_to_bezpath_rec (fit.rs 165-219) over an abstract source *)
Section Source.
Variable sample_pt_tangent : T -> T -> Sample.        (* (t, sign) *)
Variable sample_pt_deriv_p : T -> Point T.            (* sample_pt_deriv(t).0 *)
Variable break_cusp : T -> T -> option T.             (* break_cusp(start..end) *)
Variable fit_to_cubic : T -> T -> option (CubicBez T * T).  (* oracle: fit_to_cubic(source, start..end, accuracy) *)
Variable accuracy : T.

(* the straight cubic between two points (fit.rs 209-210 and 379-381) *)
Definition line_cubic (a b : Point T) : CubicBez T :=
  mkCubic a (pt_lerp a b one_third) (pt_lerp b a one_third) b.

(* try_fit_line's loop over i in 0..SHORT_N: [None] = "not in tolerance" *)
Fixpoint try_fit_line_loop (chord : Line T) (acc2 start dt : T) (i : Z) (n : nat) (max_err2 : T) : option T :=
  match n with
  | O => Some max_err2
  | S n' =>
      let t := start + fofZ (i + 1) * dt in
      let p := sample_pt_deriv_p t in
      let err2 := line_nearest_dsq chord p in
      if err2 >? acc2 then None
      else try_fit_line_loop chord acc2 start dt (i + 1) n' (fmax err2 max_err2)
  end.

(* try_fit_line (fit.rs 357-383) *)
Definition try_fit_line (s e : T) (start end_ : Point T) : option (CubicBez T * T) :=
  let acc2 := accuracy * accuracy in
  let chord_l := mkLine start end_ in
  let dt := (e - s) / fofZ 8 in
  match try_fit_line_loop chord_l acc2 s dt 0 7 f0 with
  | None => None
  | Some max_err2 => Some (line_cubic start end_, max_err2)
  end.

(* if path.is_empty() { path.move_to(p0) }; path.curve_to(p1, p2, p3) *)
Definition push_cubic (path : list (PathEl T)) (p0 p1 p2 p3 : Point T) : list (PathEl T) :=
  (if path_is_empty path then path ++ [MoveTo p0] else path) ++ [CurveTo p1 p2 p3].
Definition push_cubic_c (path : list (PathEl T)) (c : CubicBez T) : list (PathEl T) :=
  push_cubic path (c0 c) (c1 c) (c2 c) (c3 c).

(** The recursion, operation by operation. [None] = out of fuel. *)
Fixpoint fit_rec (fuel : nat) (s e : T) (path : list (PathEl T)) : option (list (PathEl T)) :=
  match fuel with
  | O => None
  | S k =>
      let start_p := s_p (sample_pt_tangent s f1) in
      let end_p := s_p (sample_pt_tangent e (- f1)) in
      let line :=
        if pt_distance_squared start_p end_p <=? accuracy * accuracy
        then try_fit_line s e start_p end_p else None in
      match line with
      | Some (c, _) => Some (push_cubic_c path c)
      | None =>
          let cont (t : T) :=
            if (t =? s) || (t =? e) then
              (* infinite recursion, just draw a line *)
              let p1 := pt_lerp start_p end_p one_third in
              let p2 := pt_lerp end_p start_p one_third in
              Some (push_cubic path start_p p1 p2 end_p)
            else
              match fit_rec k s t path with
              | None => None
              | Some path' => fit_rec k t e path'
              end in
          match break_cusp s e with
          | Some t => cont t
          | None =>
              match fit_to_cubic s e with
              | Some (c, _) => Some (push_cubic_c path c)
              | None => cont (fhalf * (s + e))
              end
          end
      end
  end.

Definition fit_to_bezpath (fuel : nat) : option (list (PathEl T)) := fit_rec fuel f0 f1 [].

(** The same recursion as a tree (used to state the theorems and to count the calls).
    Leaf kinds: 1 = try_fit_line accepted, 2 = fit_to_cubic accepted, 3 = collapsed range
    (t == start || t == end), a straight cubic. *)
Inductive FitTree :=
| FLeaf (kind : Z) (s e : T) (c : CubicBez T)
| FNode (s t e : T) (l r : FitTree).

Fixpoint fit_tree (fuel : nat) (s e : T) : option FitTree :=
  match fuel with
  | O => None
  | S k =>
      let start_p := s_p (sample_pt_tangent s f1) in
      let end_p := s_p (sample_pt_tangent e (- f1)) in
      let line :=
        if pt_distance_squared start_p end_p <=? accuracy * accuracy
        then try_fit_line s e start_p end_p else None in
      match line with
      | Some (c, _) => Some (FLeaf 1 s e c)
      | None =>
          let cont (t : T) :=
            if (t =? s) || (t =? e) then Some (FLeaf 3 s e (line_cubic start_p end_p))
            else
              match fit_tree k s t with
              | None => None
              | Some l => match fit_tree k t e with
                          | None => None
                          | Some r => Some (FNode s t e l r)
                          end
              end in
          match break_cusp s e with
          | Some t => cont t
          | None =>
              match fit_to_cubic s e with
              | Some (c, _) => Some (FLeaf 2 s e c)
              | None => cont (fhalf * (s + e))
              end
          end
      end
  end.

(** leaves in emission order, as (kind, range, cubic) *)
Fixpoint tree_leaves (t : FitTree) : list (Z * (T * T) * CubicBez T) :=
  match t with
  | FLeaf k s e c => [(k, (s, e), c)]
  | FNode _ _ _ l r => tree_leaves l ++ tree_leaves r
  end.

(** number of [fit_to_bezpath_rec] invocations *)
Fixpoint tree_calls (t : FitTree) : Z :=
  match t with
  | FLeaf _ _ _ _ => 1
  | FNode _ _ _ l r => (1 + tree_calls l + tree_calls r)%Z
  end.

Definition emit_leaves (path : list (PathEl T)) (ls : list (Z * (T * T) * CubicBez T)) : list (PathEl T) :=
  fold_left (fun p l => push_cubic_c p (snd l)) ls path.

End Source.

(** ** CurveDist::from_curve (fit.rs 233-260): the N_SAMPLE = 20 samples a candidate cubic is
    compared against, and the "spicy" flag. [step = (end - start) * (1.0 / 21.0)]; the loop runs
    i = 0 .. 21 (for the flag) and keeps the samples i = 1 .. 20. *)
Definition cd_step (s e : T) : T := (e - s) * (f1 / fofZ 21).
(* the parameter of loop iteration i *)
Definition cd_t (s e : T) (i : Z) : T := s + fofZ i * cd_step s e.
Definition cd_indices : list Z := [0; 1; 2; 3; 4; 5; 6; 7; 8; 9; 10; 11; 12; 13; 14; 15; 16; 17; 18; 19; 20; 21]%Z.
(* all 22 parameters sample_pt_tangent(., 1.0) is called with, in order *)
Definition cd_ts (s e : T) : list T := map (cd_t s e) cd_indices.
(* the kept ones: i > 0 && i < N_SAMPLE + 1 *)
Definition cd_kept_ts (s e : T) : list T :=
  map (cd_t s e) (filter (fun i => (0 <? i)%Z && (i <? 21)%Z) cd_indices).
Definition spicy_thresh : T := flit 0x1.999999999999ap-3%float (1 # 5).

Section CurveDist.
Variable sample_pt_tangent : T -> T -> Sample.
Fixpoint cd_spicy_loop (last_tan : option (Vec2 T)) (spicy : bool) (tans : list (Vec2 T)) : bool :=
  match tans with
  | [] => spicy
  | tn :: r =>
      let spicy :=
        match last_tan with
        | Some lt => if fabs (v_cross tn lt) >? spicy_thresh * fabs (v_dot tn lt) then true else spicy
        | None => spicy
        end in
      cd_spicy_loop (Some tn) spicy r
  end.
Definition cd_from_curve (s e : T) : list Sample * bool :=
  (map (fun t => sample_pt_tangent t f1) (cd_kept_ts s e),
   cd_spicy_loop None false (map (fun t => s_tan (sample_pt_tangent t f1)) (cd_ts s e))).
End CurveDist.

(** ** PathSeg::tangents (bezpath.rs 1213-1253) *)
Definition tan_eps : T := flit 0x1.19799812dea11p-40%float (1 # 1000000000000).

Definition seg_tangents (s : PathSeg T) : Vec2 T * Vec2 T :=
  match s with
  | SegLine l => let d := pt_sub (l1 l) (l0 l) in (d, d)
  | SegQuad q =>
      let d01 := pt_sub (q1 q) (q0 q) in
      let d0 := if v_hypot2 d01 >? tan_eps then d01 else pt_sub (q2 q) (q0 q) in
      let d12 := pt_sub (q2 q) (q1 q) in
      let d1 := if v_hypot2 d12 >? tan_eps then d12 else pt_sub (q2 q) (q0 q) in
      (d0, d1)
  | SegCubic c =>
      let d01 := pt_sub (c1 c) (c0 c) in
      let d0 := if v_hypot2 d01 >? tan_eps then d01
                else let d02 := pt_sub (c2 c) (c0 c) in
                     if v_hypot2 d02 >? tan_eps then d02 else pt_sub (c3 c) (c0 c) in
      let d23 := pt_sub (c3 c) (c2 c) in
      let d1 := if v_hypot2 d23 >? tan_eps then d23
                else let d13 := pt_sub (c3 c) (c1 c) in
                     if v_hypot2 d13 >? tan_eps then d13 else pt_sub (c3 c) (c0 c) in
      (d0, d1)
  end.

(** ** simplify_bezpath's outer state machine (simplify.rs 243-360) over an abstract fitter *)
Section Simplify.
(* [fitter queue] stands for
   [match opt_level { Subdivide => fit_to_bezpath(&SimplifyBezPath::new(&queue), accuracy),
                      Optimize => fit_to_bezpath_opt(..) }] *)
Variable fitter : list (PathEl T) -> list (PathEl T).
Variable angle_thresh : T.

Record SimplifyState := mkSS { ss_queue : list (PathEl T); ss_result : list (PathEl T); ss_needs_moveto : bool }.

Definition seg_el (s : PathSeg T) : PathEl T :=
  match s with
  | SegLine l => LineTo (l1 l)
  | SegQuad q => QuadTo (q1 q) (q2 q)
  | SegCubic c => CurveTo (c1 c) (c2 c) (c3 c)
  end.

(* SimplifyState::add_seg *)
Definition ss_add_seg (st : SimplifyState) (seg : PathSeg T) : SimplifyState :=
  let q := if path_is_empty (ss_queue st) then ss_queue st ++ [MoveTo (seg_start seg)] else ss_queue st in
  mkSS (q ++ [seg_el seg]) (ss_result st) (ss_needs_moveto st).

(* SimplifyState::flush *)
Definition ss_flush (st : SimplifyState) : SimplifyState :=
  if path_is_empty (ss_queue st) then st
  else
    let out := if Nat.eqb (length (ss_queue st)) 2 then ss_queue st else fitter (ss_queue st) in
    (* .skip(!needs_moveto as usize) *)
    mkSS [] (ss_result st ++ (if ss_needs_moveto st then out else tl out)) false.

(* is the join between [last] and [seg] a corner? *)
Definition is_corner (last seg : PathSeg T) : bool :=
  let last_tan := snd (seg_tangents last) in
  let this_tan := fst (seg_tangents seg) in
  fabs (v_cross last_tan this_tan) >? fabs (v_dot last_tan this_tan) * angle_thresh.

Record SimpLoop := mkSL { sl_last_pt : option (Point T); sl_last_seg : option (PathSeg T); sl_state : SimplifyState }.

(* one iteration of the [for el in path] loop; [None] = panic ([last_pt.unwrap()] on None) *)
Definition simplify_step (lp : SimpLoop) (el : PathEl T) : option SimpLoop :=
  let with_seg (mk : Point T -> option (PathSeg T)) : option SimpLoop :=
    match sl_last_pt lp with
    | None => None
    | Some last =>
        match mk last with
        | None => Some lp                         (* continue *)
        | Some seg =>
            let st := match sl_last_seg lp with
                      | Some lastseg => if is_corner lastseg seg then ss_flush (sl_state lp) else sl_state lp
                      | None => sl_state lp
                      end in
            Some (mkSL (Some (seg_end seg)) (Some seg) (ss_add_seg st seg))
        end
    end in
  match el with
  | MoveTo p =>
      let st := ss_flush (sl_state lp) in
      Some (mkSL (Some p) None (mkSS (ss_queue st) (ss_result st) true))
  | LineTo p =>
      with_seg (fun last => if pt_eq last p then None else Some (SegLine (mkLine last p)))
  | QuadTo p1 p2 =>
      with_seg (fun last => if pt_eq last p1 && pt_eq last p2 then None else Some (SegQuad (mkQuad last p1 p2)))
  | CurveTo p1 p2 p3 =>
      with_seg (fun last => if pt_eq last p1 && pt_eq last p2 && pt_eq last p3 then None
                            else Some (SegCubic (mkCubic last p1 p2 p3)))
  | ClosePath =>
      let st := ss_flush (sl_state lp) in
      (* if !state.needs_moveto { state.result.close_path() }: a sub-path that produced no output
         (not even its MoveTo) is not closed (simplify.rs 335-343, repair 045795e) *)
      Some (mkSL (sl_last_pt lp) None
              (mkSS (ss_queue st)
                    (if ss_needs_moveto st then ss_result st else ss_result st ++ [ClosePath]) true))
  end.

Fixpoint simplify_loop (lp : SimpLoop) (els : list (PathEl T)) : option SimpLoop :=
  match els with
  | [] => Some lp
  | el :: r => match simplify_step lp el with
               | None => None
               | Some lp' => simplify_loop lp' r
               end
  end.

Definition simplify_bezpath (els : list (PathEl T)) : option (list (PathEl T)) :=
  match simplify_loop (mkSL None None (mkSS [] [] false)) els with
  | None => None
  | Some lp => Some (ss_result (ss_flush (sl_state lp)))
  end.

End Simplify.

(** ** CubicOffset (offset.rs 40-129) *)
Record CubicOffset := mkCO { co_c : CubicBez T; co_q : QuadBez T; co_d : T; co_c0 : T; co_c1 : T; co_c2 : T }.

Definition co_new (c : CubicBez T) (d : T) : CubicOffset :=
  let q := cubic_deriv c in
  let d0 := to_vec2 (q0 q) in
  let d1 := s_scale_v f2 (pt_sub (q1 q) (q0 q)) in
  let d2 := v_add (v_sub (to_vec2 (q0 q)) (s_scale_v f2 (to_vec2 (q1 q)))) (to_vec2 (q2 q)) in
  mkCO c q d (d * v_cross d1 d0) (d * f2 * v_cross d2 d0) (d * v_cross d2 d1).

Definition co_eval_offset (o : CubicOffset) (t : T) : Vec2 T :=
  let dp := to_vec2 (quad_eval (co_q o) t) in
  let norm := mkVec2 (- vy dp) (vx dp) in
  v_div (v_scale norm (co_d o)) (v_hypot dp).

Definition co_eval (o : CubicOffset) (t : T) : Point T :=
  pt_add_v (cubic_eval (co_c o) t) (co_eval_offset o t).

Definition co_cusp_sign (o : CubicOffset) (t : T) : T :=
  let ds2 := v_hypot2 (to_vec2 (quad_eval (co_q o) t)) in
  ((co_c2 o * t + co_c1 o) * t + co_c0 o) / (ds2 * fsqrt ds2) + f1.

Definition co_eval_deriv (o : CubicOffset) (t : T) : Vec2 T :=
  s_scale_v (co_cusp_sign o t) (to_vec2 (quad_eval (co_q o) t)).

Definition cusp_eps : T := flit 0x1.5798ee2308c3ap-27%float (1 # 100000000).

Definition co_sample_pt_tangent (o : CubicOffset) (t sign : T) : Sample :=
  let p := co_eval o t in
  let cusp := co_cusp_sign o t in
  let cusp := if fabs cusp <? cusp_eps
              then sign * (co_cusp_sign o (t + cusp_eps) - co_cusp_sign o (t - cusp_eps))
              else cusp in
  mkSample p (v_scale (to_vec2 (quad_eval (co_q o) t)) (fsignum cusp)).

Definition co_sample_pt_deriv (o : CubicOffset) (t : T) : Point T * Vec2 T :=
  (co_eval o t, co_eval_deriv o t).

(** ** simplify::moment_integrals for one cubic (simplify.rs 89-147):
    (integral of y dx, of x y dx, of y^2 dx) along the cubic *)
Definition lit_0_05 : T := flit 0x1.999999999999ap-5%float (1 # 20).
Definition lit_0_1 : T := flit 0x1.999999999999ap-4%float (1 # 10).

Definition moment_integrals (c : CubicBez T) : T * T * T :=
  let x0 := px (c0 c) in let y0 := py (c0 c) in
  let x1 := px (c1 c) - x0 in let y1 := py (c1 c) - y0 in
  let x2 := px (c2 c) - x0 in let y2 := py (c2 c) - y0 in
  let x3 := px (c3 c) - x0 in let y3 := py (c3 c) - y0 in
  let r0 := f3 * x1 in
  let r1 := f3 * y1 in
  let r2 := x2 * y3 in
  let r3 := x3 * y2 in
  let r4 := x3 * y3 in
  let r5 := fofZ 27 * y1 in
  let r6 := x1 * x2 in
  let r7 := fofZ 27 * y2 in
  let r8 := fofZ 45 * r2 in
  let r9 := fofZ 18 * x3 in
  let r10 := x1 * y1 in
  let r11 := fofZ 30 * x1 in
  let r12 := fofZ 45 * x3 in
  let r13 := x2 * y1 in
  let r14 := fofZ 45 * r3 in
  let r15 := fpowi x1 2 in
  let r16 := fofZ 18 * y3 in
  let r17 := fpowi x2 2 in
  let r18 := fofZ 45 * y3 in
  let r19 := fpowi x3 2 in
  let r20 := fofZ 30 * y1 in
  let r21 := fpowi y2 2 in
  let r22 := fpowi y3 2 in
  let r23 := fpowi y1 2 in
  let a := - r0 * y2 - r0 * y3 + r1 * x2 + r1 * x3 - fofZ 6 * r2 + fofZ 6 * r3 + fofZ 10 * r4 in
  let lift := x3 * y0 in
  let area := a * lit_0_05 + lift in
  let x := r10 * r9 - r11 * r4 + r12 * r13 + r14 * x2 - r15 * r16 - r15 * r7 - r17 * r18
           + r17 * r5
           + r19 * r20
           + fofZ 105 * r19 * y2
           + fofZ 280 * r19 * y3
           - fofZ 105 * r2 * x3
           + r5 * r6
           - r6 * r7
           - r8 * x1 in
  let y := - r10 * r16 - r10 * r7 - r11 * r22 + r12 * r21 + r13 * r7 + r14 * y1 - r18 * x1 * y2
           + r20 * r4
           - fofZ 27 * r21 * x1
           - fofZ 105 * r22 * x2
           + fofZ 140 * r22 * x3
           + r23 * r9
           + fofZ 27 * r23 * x2
           + fofZ 105 * r3 * y3
           - r8 * y2 in
  let mx := x * (f1 / fofZ 840) + x0 * area + fhalf * x3 * lift in
  let my := y * (f1 / fofZ 420) + y0 * a * lit_0_1 + y0 * lift in
  (area, mx, my).

(** ** SimplifyBezPath as a source (simplify.rs 149-240) *)
Definition SimplifyCubic : Type := (CubicBez T * (T * T * T))%type.

(* SimplifyBezPath::new on a segment list: cubics with inclusive prefix sums of the moments *)
Fixpoint sbp_build (acc : T * T * T) (segs : list (PathSeg T)) : list SimplifyCubic :=
  match segs with
  | [] => []
  | s :: r =>
      let c := seg_to_cubic s in
      let '(ai, xi, yi) := moment_integrals c in
      let '(a, x, y) := acc in
      let acc' := (a + ai, x + xi, y + yi) in
      (c, acc') :: sbp_build acc' r
  end.
Definition sbp_new (segs : list (PathSeg T)) : list SimplifyCubic := sbp_build (f0, f0, f0) segs.

(* scale: (t_floor as usize, t_scale - t_floor) *)
Definition sbp_scale (s : list SimplifyCubic) (t : T) : Z * T :=
  let t_scale := t * fofZ (Z.of_nat (length s)) in
  let t_floor := ffloor t_scale in
  (fto_usize t_floor, t_scale - t_floor).

Definition sbp_nth (s : list SimplifyCubic) (i : Z) : option SimplifyCubic :=
  if (i <? 0)%Z then None else nth_error s (Z.to_nat i).

(* [None] = index out of bounds panic *)
Definition sbp_locate (s : list SimplifyCubic) (t : T) : option (CubicBez T * T) :=
  let '(i, t0) := sbp_scale s t in
  let n := Z.of_nat (length s) in
  let '(i, t0) := if (i =? n)%Z then ((i - 1)%Z, f1) else (i, t0) in
  match sbp_nth s i with
  | None => None
  | Some (c, _) => Some (c, t0)
  end.

Definition sbp_sample_pt_deriv (s : list SimplifyCubic) (t : T) : option (Point T * Vec2 T) :=
  match sbp_locate s t with
  | None => None
  | Some (c, t0) =>
      Some (cubic_eval c t0, v_scale (to_vec2 (quad_eval (cubic_deriv c) t0)) (fofZ (Z.of_nat (length s))))
  end.

Definition sbp_sample_pt_tangent (s : list SimplifyCubic) (t : T) : option Sample :=
  match sbp_locate s t with
  | None => None
  | Some (c, t0) => Some (mkSample (cubic_eval c t0) (to_vec2 (quad_eval (cubic_deriv c) t0)))
  end.

(* SimplifyBezPath::moment_integrals(i, range) *)
Definition sbp_moment_seg (s : list SimplifyCubic) (i : Z) (t0 t1 : T) : option (T * T * T) :=
  if t1 =? t0 then Some (f0, f0, f0)
  else match sbp_nth s i with
       | None => None
       | Some (c, _) => Some (moment_integrals (cubic_subsegment c t0 t1))
       end.

(* ParamCurveFit::moment_integrals(range) for SimplifyBezPath *)
Definition sbp_moment_integrals (s : list SimplifyCubic) (ts te : T) : option (T * T * T) :=
  let '(i0, t0) := sbp_scale s ts in
  let '(i1, t1) := sbp_scale s te in
  if (i0 =? i1)%Z then sbp_moment_seg s i0 t0 t1
  else
    match sbp_moment_seg s i0 t0 f1, sbp_moment_seg s i1 f0 t1 with
    | Some (a0, x0, y0), Some (a1, x1, y1) =>
        let '(a, x, y) := (a0 + a1, x0 + x1, y0 + y1) in
        if (i1 >? i0 + 1)%Z then
          match sbp_nth s i0, sbp_nth s (i1 - 1) with
          | Some (_, (a2, x2, y2)), Some (_, (a3, x3, y3)) =>
              Some (a + (a3 - a2), x + (x3 - x2), y + (y3 - y2))
          | _, _ => None
          end
        else Some (a, x, y)
    | _, _ => None
    end.

End Fit.

Arguments Sample T : clear implicits.
Arguments FitTree T : clear implicits.
Arguments SimplifyState T : clear implicits.
Arguments SimpLoop T : clear implicits.
Arguments CubicOffset T : clear implicits.
