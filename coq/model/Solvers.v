(** kurbo/src/common.rs: polynomial solvers and the ITP bracketing solver.
    Generic over the scalar; definitions only. Every function mirrors the Rust code
    operation by operation (same order of floating-point operations).  Results are
    [list T] in the order the [ArrayVec] holds them.

      solve_quadratic        common.rs  fn solve_quadratic
      solve_cubic            common.rs  fn solve_cubic
      eps_rel                common.rs  fn eps_rel (private; hook verif_eps_rel)
      depressed_cubic_dominant          (private; hook verif_depressed_cubic_dominant)
      factor_quartic_inner   common.rs  pub fn factor_quartic_inner
      solve_quartic_inner    (private; hook verif_solve_quartic_inner)
      solve_quartic          common.rs  fn solve_quartic
      solve_itp              common.rs  fn solve_itp  (loop with explicit fuel; [None] = fuel exhausted) *)

From Coq Require Import ZArith QArith List Bool Floats.
From KV Require Import Scalar.
Import ListNotations.

Set Implicit Arguments.

Section Solvers.
Context {T : Type} `{Scalar T}.
Local Open Scope S_scope.

(* literals *)
Definition sv_quarter : T := flit 0x1p-2%float (1#4).
Definition sv_mquarter : T := flit (-0x1p-2)%float (-1#4).          (* -0.25 *)
Definition sv_mhalf : T := flit (-0x1p-1)%float (-1#2).             (* -0.5 *)
Definition sv_m2 : T := fofZ (-2).
Definition sv_4 : T := fofZ 4.
Definition sv_8 : T := fofZ 8.
Definition sv_9 : T := fofZ 9.
Definition sv_24 : T := fofZ 24.
(* constants the compiler folds (correctly rounded divisions) *)
Definition sv_third : T := f1 / f3.                                   (* 1. / 3. *)
Definition sv_mthird : T := fofZ (-1) / f3.                           (* -1. / 3. *)
Definition sv_sixth : T := f1 / fofZ 6.                               (* 1. / 6. *)
Definition sv_two_thirds : T := f2 / f3.                              (* 2. / 3. *)
Definition sv_two_ninths : T := f2 / sv_9.                            (* 2. / 9. *)
Definition sv_1e102 : T := flit 0x1.c931e8ab87173p+338%float (Qmake (10 ^ 102) 1).
Definition sv_1e154 : T := flit 0x1.7dddf6b095ff1p+511%float (Qmake (10 ^ 154) 1).
Definition sv_K_C : T := flit 0x1.8ee710c3bce81p+340%float (Qmake (349 * 10 ^ 100) 1).   (* 3.49e102 *)
Definition sv_K_Q : T := flit 0x1.3c9853e7c8cdap+255%float (Qmake (716 * 10 ^ 74) 1).    (* 7.16e76 *)
Definition sv_EPS_M : T := flit 0x1.00001dd9dc7d3p-52%float (Qmake 44409 200000000000000000000). (* 2.22045e-16 *)

(** ** solve_quadratic *)

(* the "treat as linear eqn" block *)
Definition quad_linear (c0 c1 : T) : list T :=
  let root := (- c0) / c1 in
  if fis_finite root then [root]
  else if (c0 =? f0) && (c1 =? f0) then [f0]
  else [].

(* the part after the finiteness test, on the scaled coefficients *)
Definition quad_main (sc0 sc1 : T) : list T :=
  let arg := sc1 * sc1 - sv_4 * sc0 in
  let tail (root1 : T) : list T :=
    let root2 := sc0 / root1 in
    if fis_finite root2 then
      (if root2 >? root1 then [root1; root2] else [root2; root1])
    else [root1] in
  if negb (fis_finite arg) then tail (- sc1)
  else if arg <? f0 then []
  else if arg =? f0 then [sv_mhalf * sc1]
  else tail (sv_mhalf * (sc1 + fcopysign (fsqrt arg) sc1)).

Definition solve_quadratic (c0 c1 c2 : T) : list T :=
  let sc0 := c0 * (f1 / c2) in          (* c2.recip() = 1.0 / c2 *)
  let sc1 := c1 * (f1 / c2) in
  if negb (fis_finite sc0) || negb (fis_finite sc1) then quad_linear c0 c1
  else quad_main sc0 sc1.

(** ** solve_cubic *)

(* the part after the finiteness test, on the scaled coefficients *)
Definition cubic_main (c0 c1 c2 : T) : list T :=
  let d0 := ffma (- c2) c2 c1 in
  let d1 := ffma (- c1) c2 c0 in
  let d2 := c2 * c0 - c1 * c1 in
  let d := sv_4 * d0 * d2 - d1 * d1 in
  let de := ffma (sv_m2 * c2) d0 d1 in
  (* repair commit fd4a7ab: in exact arithmetic d >= 0 implies d0 <= 0; near a triple root rounding
     can leave a tiny positive d0 whose square root below would be NaN *)
  let d0 := if d >=? f0 then fmin d0 f0 else d0 in
  if d <? f0 then
    let sq := fsqrt (sv_mquarter * d) in
    let r := sv_mhalf * de in
    (* both cube roots independently, as the code does; see [cubic_one_root_repaired] below for
       the variant without cancellation (known finding C15-cubic-one-root-cancellation) *)
    let t1 := fcbrt (r + sq) + fcbrt (r - sq) in
    [t1 - c2]
  else if d =? f0 then
    let t1 := fcopysign (fsqrt (- d0)) de in
    [t1 - c2; sv_m2 * t1 - c2]
  else
    let th := fatan2 (fsqrt d) (- de) * sv_third in
    let th_sin := fsin th in
    let th_cos := fcos th in
    let r0 := th_cos in
    let ss3 := th_sin * fsqrt f3 in
    let r1 := fhalf * (- th_cos + ss3) in
    let r2 := fhalf * (- th_cos - ss3) in
    let t := f2 * fsqrt (- d0) in
    [ffma t r0 (- c2); ffma t r1 (- c2); ffma t r2 (- c2)].

(* The one-root branch (d < 0) in isolation, as the code computes it ... *)
Definition cubic_one_root_pinned (c0 c1 c2 : T) : T :=
  let d0 := ffma (- c2) c2 c1 in
  let d1 := ffma (- c1) c2 c0 in
  let d2 := c2 * c0 - c1 * c1 in
  let d := sv_4 * d0 * d2 - d1 * d1 in
  let de := ffma (sv_m2 * c2) d0 d1 in
  let sq := fsqrt (sv_mquarter * d) in
  let r := sv_mhalf * de in
  let t1 := fcbrt (r + sq) + fcbrt (r - sq) in
  t1 - c2.

(* ... and a repaired variant (NOT in the code; proposed_fixes/C15-cubic-one-root-cancellation.diff,
   declined because it needs a test expectation corrected): the cube root that does not cancel,
   the other one from u v = -d0.  Same real function; on binary64 the pinned form loses the
   smaller cube root when |d0| is small (Properties/C15.v, C15_cubic_one_root_pinned_refuted). *)
Definition cubic_one_root_repaired (c0 c1 c2 : T) : T :=
  let d0 := ffma (- c2) c2 c1 in
  let d1 := ffma (- c1) c2 c0 in
  let d2 := c2 * c0 - c1 * c1 in
  let d := sv_4 * d0 * d2 - d1 * d1 in
  let de := ffma (sv_m2 * c2) d0 d1 in
  let sq := fsqrt (sv_mquarter * d) in
  let r := sv_mhalf * de in
  let u := fcbrt (r + fcopysign sq r) in
  let v := if u =? f0 then f0 else (- d0) / u in
  let t1 := u + v in
  t1 - c2.

Definition solve_cubic (c0 c1 c2 c3 : T) : list T :=
  let c3_recip := f1 / c3 in
  let scaled_c2 := c2 * (sv_third * c3_recip) in
  let scaled_c1 := c1 * (sv_third * c3_recip) in
  let scaled_c0 := c0 * c3_recip in
  if negb (fis_finite scaled_c0 && fis_finite scaled_c1 && fis_finite scaled_c2) then
    solve_quadratic c0 c1 c2
  else cubic_main scaled_c0 scaled_c1 scaled_c2.

(** ** eps_rel *)
Definition eps_rel (raw a : T) : T :=
  if a =? f0 then fabs raw else fabs ((raw - a) / a).

(** ** depressed_cubic_dominant *)

(* the Newton refinement loop: [for _ in 0..8] *)
Fixpoint dcd_newton (n : nat) (g h x f : T) : T :=
  match n with
  | O => x
  | S n' =>
      let delt_f := f3 * x * x + g in
      if delt_f =? f0 then x
      else
        let new_x := x - f / delt_f in
        let new_f := (new_x * new_x + g) * new_x + h in
        if new_f =? f0 then new_x
        else if fabs new_f >=? fabs f then x
        else dcd_newton n' g h new_x new_f
  end.

Definition depressed_cubic_dominant (g h : T) : T :=
  let q := sv_mthird * g in
  let r := fhalf * h in
  let k : option T :=
    if (fabs q <? sv_1e102) && (fabs r <? sv_1e154) then None
    else if fabs q <? fabs r then Some (f1 - q * fpowi (q / r) 2)
    else Some (fsignum q * (fpowi (r / q) 2 / q - f1)) in
  let is_some := match k with Some _ => true | None => false end in
  let phi_0 :=
    if is_some && (r =? f0) then
      (if g >? f0 then f0 else fsqrt (- g))
    else if (match k with Some k' => k' <? f0 | None => r * r <? fpowi q 3 end) then
      let t := if is_some then r / q / fsqrt q else r / fsqrt (fpowi q 3) in
      sv_m2 * fsqrt q * fcopysign (fcos (facos (fabs t) * sv_third)) t
    else
      let a := fcbrt
        (match k with
         | Some k' =>
             if fabs q <? fabs r then (- r) * (f1 + fsqrt k')
             else - r - fcopysign (fsqrt (fabs q) * q * fsqrt k') r
         | None => - r - fcopysign (fsqrt (r * r - fpowi q 3)) r
         end) in
      let b := if a =? f0 then f0 else q / a in
      a + b in
  let x := phi_0 in
  let f := (x * x + g) * x + h in
  if fabs f <? sv_EPS_M * fmax (fmax (fpowi x 3) (g * x)) h then x
  else dcd_newton 8 g h x f.

(** ** factor_quartic_inner *)

Definition calc_eps_q (a b c : T) (a1 b1 a2 b2 : T) : T :=
  let eps_a := eps_rel (a1 + a2) a in
  let eps_b := eps_rel (b1 + a1 * a2 + b2) b in
  let eps_c := eps_rel (b1 * a2 + a1 * b2) c in
  eps_a + eps_b + eps_c.

Definition calc_eps_t (a b c d : T) (a1 b1 a2 b2 : T) : T :=
  calc_eps_q a b c a1 b1 a2 b2 + eps_rel (b1 * b2) d.

(* candidate selection loop over (d_2, l_2): state (d_2_best, l_2_best, eps_l_best) *)
Fixpoint fq_pick_dl (b c d l_1 l_3 : T) (first : bool) (cands : list (T * T)) (st : T * T * T) : T * T * T :=
  match cands with
  | [] => st
  | (d_2, l_2) :: rest =>
      let '(d_2_best, l_2_best, eps_l_best) := st in
      let eps_0 := eps_rel (d_2 + l_1 * l_1 + f2 * l_3) b in
      let eps_1 := eps_rel (f2 * (d_2 * l_2 + l_1 * l_3)) c in
      let eps_2 := eps_rel (d_2 * l_2 * l_2 + l_3 * l_3) d in
      let eps_l := eps_0 + eps_1 + eps_2 in
      let st' := if first || (eps_l <? eps_l_best) then (d_2, l_2, eps_l) else st in
      fq_pick_dl b c d l_1 l_3 false rest st'
  end.

(* candidate selection loop over (a1, a2): state (alpha_1, alpha_2, eps_q_best) *)
Fixpoint fq_pick_alpha (a b c beta_1 beta_2 : T) (first : bool) (cands : list (T * T)) (st : T * T * T) : T * T * T :=
  match cands with
  | [] => st
  | (a1, a2) :: rest =>
      let '(alpha_1, alpha_2, eps_q_best) := st in
      let st' :=
        if fis_finite a1 && fis_finite a2 then
          let eps_q := calc_eps_q a b c a1 beta_1 a2 beta_2 in
          if first || (eps_q <? eps_q_best) then (a1, a2, eps_q) else st
        else st in
      fq_pick_alpha a b c beta_1 beta_2 false rest st'
  end.

(* Newton-Raphson iteration on the alpha/beta coefficients: [for _ in 0..8] *)
Fixpoint fq_newton (n : nat) (a b c d : T) (alpha_1 beta_1 alpha_2 beta_2 eps_t : T) : (T * T) * (T * T) :=
  match n with
  | O => ((alpha_1, beta_1), (alpha_2, beta_2))
  | S n' =>
      if eps_t =? f0 then ((alpha_1, beta_1), (alpha_2, beta_2))
      else
        let f_0 := beta_1 * beta_2 - d in
        let f_1 := beta_1 * alpha_2 + alpha_1 * beta_2 - c in
        let f_2 := beta_1 + alpha_1 * alpha_2 + beta_2 - b in
        let f_3 := alpha_1 + alpha_2 - a in
        let c_1 := alpha_1 - alpha_2 in
        let det_j := beta_1 * beta_1 - beta_1 * (alpha_2 * c_1 + f2 * beta_2)
                     + beta_2 * (alpha_1 * c_1 + beta_2) in
        if det_j =? f0 then ((alpha_1, beta_1), (alpha_2, beta_2))
        else
          let inv := f1 / det_j in
          let c_2 := beta_2 - beta_1 in
          let c_3 := beta_1 * alpha_2 - alpha_1 * beta_2 in
          let dz_0 := c_1 * f_0 + c_2 * f_1 + c_3 * f_2 - (beta_1 * c_2 + alpha_1 * c_3) * f_3 in
          let dz_1 := (alpha_1 * c_1 + c_2) * f_0
                      - beta_1 * c_1 * f_1
                      - beta_1 * c_2 * f_2
                      - beta_1 * c_3 * f_3 in
          let dz_2 := (- c_1) * f_0 - c_2 * f_1 - c_3 * f_2 + (alpha_2 * c_3 + beta_2 * c_2) * f_3 in
          let dz_3 := (- (alpha_2 * c_1 + c_2)) * f_0
                      + beta_2 * c_1 * f_1
                      + beta_2 * c_2 * f_2
                      + beta_2 * c_3 * f_3 in
          let a1 := alpha_1 - inv * dz_0 in
          let b1 := beta_1 - inv * dz_1 in
          let a2 := alpha_2 - inv * dz_2 in
          let b2 := beta_2 - inv * dz_3 in
          let new_eps_t := calc_eps_t a b c d a1 b1 a2 b2 in
          if new_eps_t <? eps_t then fq_newton n' a b c d a1 b1 a2 b2 new_eps_t
          else ((alpha_1, beta_1), (alpha_2, beta_2))
  end.

(* the pair (g_prime, h_prime) *)
Definition fq_gh (a b c d : T) (rescale : bool) : T * T :=
  let disc := sv_9 * a * a - sv_24 * b in
  (* the guard [a != 0 || b != 0] was added by the repair commit f907a58: before it the code
     evaluated 0/0 here for x^4 + c x + d and returned no roots *)
  let s := if (disc >=? f0) && ((a <>? f0) || (b <>? f0))
           then sv_m2 * b / (f3 * a + fcopysign (fsqrt disc) a)
           else sv_mquarter * a in
  let a_prime := a + sv_4 * s in
  let b_prime := b + f3 * s * (a + f2 * s) in
  let c_prime := c + s * (f2 * b + s * (f3 * a + sv_4 * s)) in
  let d_prime := d + s * (c + s * (b + s * (a + s))) in
  if rescale then
    let a_prime_s := a_prime / sv_K_C in
    let b_prime_s := b_prime / sv_K_C in
    let c_prime_s := c_prime / sv_K_C in
    let d_prime_s := d_prime / sv_K_C in
    (a_prime_s * c_prime_s - (sv_4 / sv_K_C) * d_prime_s - sv_third * fpowi b_prime_s 2,
     (a_prime_s * c_prime_s + (sv_8 / sv_K_C) * d_prime_s - sv_two_ninths * fpowi b_prime_s 2)
       * sv_third * b_prime_s
       - c_prime_s * (c_prime_s / sv_K_C)
       - fpowi a_prime_s 2 * d_prime_s)
  else
    (a_prime * c_prime - sv_4 * d_prime - sv_third * fpowi b_prime 2,
     (a_prime * c_prime + sv_8 * d_prime - sv_two_ninths * fpowi b_prime 2) * sv_third * b_prime
       - fpowi c_prime 2
       - fpowi a_prime 2 * d_prime).

(* the shift s as the code computed it before repair commit f907a58: 0/0 for a = b = 0 *)
Definition fq_shift_pinned (a b : T) : T :=
  let disc := sv_9 * a * a - sv_24 * b in
  if disc >=? f0 then sv_m2 * b / (f3 * a + fcopysign (fsqrt disc) a) else sv_mquarter * a.

(* factor_quartic_inner, cut into named pieces (same operations in the same order):
   fq_finish   the Newton polish of the four coefficients
   fq_neg      the branch d_2 < 0 (two quadratics with different linear coefficients)
   fq_zero     the branch d_2 = 0 (or negligible)
   fq_tail     everything after phi (the dominant root of the resolvent cubic) is known *)
Definition fq_finish (a b c d : T) (alpha_1 beta_1 alpha_2 beta_2 : T) : option ((T * T) * (T * T)) :=
  Some (fq_newton 8 a b c d alpha_1 beta_1 alpha_2 beta_2
          (calc_eps_t a b c d alpha_1 beta_1 alpha_2 beta_2)).

Definition fq_neg (a b c d : T) (l_1 l_3 d_2 l_2 : T) : option ((T * T) * (T * T)) :=
  let sq := fsqrt (- d_2) in
  let alpha_1 := l_1 + sq in
  let beta_1 := l_3 + sq * l_2 in
  let alpha_2 := l_1 - sq in
  let beta_2 := l_3 - sq * l_2 in
  let '(beta_1, beta_2) :=
    if fabs beta_2 <? fabs beta_1 then (beta_1, d / beta_1)
    else if fabs beta_2 >? fabs beta_1 then (d / beta_2, beta_2)
    else (beta_1, beta_2) in
  if fabs alpha_1 <>? fabs alpha_2 then
    let cands :=
      if fabs alpha_1 <? fabs alpha_2 then
        let a1_cand_1 := (c - beta_1 * alpha_2) / beta_2 in
        let a1_cand_2 := (b - beta_2 - beta_1) / alpha_2 in
        let a1_cand_3 := a - alpha_2 in
        (* cand 3 is first because it is infallible *)
        [(a1_cand_3, alpha_2); (a1_cand_1, alpha_2); (a1_cand_2, alpha_2)]
      else
        let a2_cand_1 := (c - alpha_1 * beta_2) / beta_1 in
        let a2_cand_2 := (b - beta_2 - beta_1) / alpha_1 in
        let a2_cand_3 := a - alpha_1 in
        [(alpha_1, a2_cand_3); (alpha_1, a2_cand_1); (alpha_1, a2_cand_2)] in
    let '(alpha_1, alpha_2, _) :=
      fq_pick_alpha a b c beta_1 beta_2 true cands (alpha_1, alpha_2, f0) in
    fq_finish a b c d alpha_1 beta_1 alpha_2 beta_2
  else fq_finish a b c d alpha_1 beta_1 alpha_2 beta_2.

Definition fq_zero (a b c d : T) (l_1 l_3 : T) : option ((T * T) * (T * T)) :=
  let d_3 := d - l_3 * l_3 in
  let alpha_1 := l_1 in
  let beta_1 := l_3 + fsqrt (- d_3) in
  let alpha_2 := l_1 in
  let beta_2 := l_3 - fsqrt (- d_3) in
  let '(beta_1, beta_2) :=
    if fabs beta_1 >? fabs beta_2 then (beta_1, d / beta_1)
    else if fabs beta_2 >? fabs beta_1 then (d / beta_2, beta_2)
    else (beta_1, beta_2) in
  fq_finish a b c d alpha_1 beta_1 alpha_2 beta_2.

(* repair commit f907a58: d_2 below its own rounding level is treated as zero (before it the
   code tested [d_2 < 0] / [d_2 == 0] only, "TODO: handle case d_2 is very small?") *)
Definition fq_d2_negligible (b phi l_1 d_2 : T) : bool :=
  fabs d_2 <=? sv_8 * sv_EPS_M * fmax (fmax (fabs (sv_two_thirds * b)) (fabs phi)) (l_1 * l_1).

Definition fq_tail (a b c d phi : T) : option ((T * T) * (T * T)) :=
  let l_1 := a * fhalf in
  let l_3 := sv_sixth * b + fhalf * phi in
  let delt_2 := c - a * l_3 in
  let d_2_cand_1 := sv_two_thirds * b - phi - l_1 * l_1 in
  let l_2_cand_1 := fhalf * delt_2 / d_2_cand_1 in
  let l_2_cand_2 := f2 * (d - l_3 * l_3) / delt_2 in
  let d_2_cand_2 := fhalf * delt_2 / l_2_cand_2 in
  let d_2_cand_3 := d_2_cand_1 in
  let l_2_cand_3 := l_2_cand_2 in
  let '(d_2, l_2, _) :=
    fq_pick_dl b c d l_1 l_3 true
      [(d_2_cand_1, l_2_cand_1); (d_2_cand_2, l_2_cand_2); (d_2_cand_3, l_2_cand_3)]
      (f0, f0, f0) in
  let d_2_negligible := fq_d2_negligible b phi l_1 d_2 in
  if (d_2 <? f0) && negb d_2_negligible then fq_neg a b c d l_1 l_3 d_2 l_2
  else if (d_2 =? f0) || d_2_negligible then fq_zero a b c d l_1 l_3
  else None.

Definition factor_quartic_inner (a b c d : T) (rescale : bool) : option ((T * T) * (T * T)) :=
  let '(g_prime, h_prime) := fq_gh a b c d rescale in
  if negb (fis_finite g_prime && fis_finite h_prime) then None
  else
    let phi := depressed_cubic_dominant g_prime h_prime in
    let phi := if rescale then phi * sv_K_C else phi in
    fq_tail a b c d phi.

(** ** solve_quartic_inner, solve_quartic *)

(* quadratics.iter().flat_map: for each (a, b) the roots of solve_quadratic(b, a, 1.0) *)
Definition quartic_roots_of_factors (qs : (T * T) * (T * T)) : list T :=
  let '((a1, b1), (a2, b2)) := qs in
  solve_quadratic b1 a1 f1 ++ solve_quadratic b2 a2 f1.

Definition solve_quartic_inner (a b c d : T) (rescale : bool) : option (list T) :=
  match factor_quartic_inner a b c d rescale with
  | Some qs => Some (quartic_roots_of_factors qs)
  | None => None
  end.

Definition solve_quartic (c0 c1 c2 c3 c4 : T) : list T :=
  if c4 =? f0 then solve_cubic c0 c1 c2 c3
  else if c0 =? f0 then solve_cubic c1 c2 c3 c4 ++ [f0]
  else
    let a := c3 / c4 in
    let b := c2 / c4 in
    let c := c1 / c4 in
    let d := c0 / c4 in
    match solve_quartic_inner a b c d false with
    | Some r => r
    | None =>
        let a' := a / sv_K_Q in
        let b' := b / fpowi sv_K_Q 2 in
        let c' := c / fpowi sv_K_Q 3 in
        let d' := d / fpowi sv_K_Q 4 in
        match solve_quartic_inner a' b' c' d' false with
        | Some r => map (fun x => x * sv_K_Q) r
        | None =>
            match solve_quartic_inner a' b' c' d' true with
            | Some r => map (fun x => x * sv_K_Q) r
            | None => []
            end
        end
    end.

(** ** solve_itp *)

(* log2 is not in the scalar signature; libm class (inexact at F64) *)
Definition sv_log2 (x : T) : T := fln x / fln f2.

(* one iteration of the loop body up to the evaluation of f: the point xitp *)
Definition itp_point (a b k1 ya yb scaled_epsilon : T) : T :=
  let x1_2 := fhalf * (a + b) in
  let r := scaled_epsilon - fhalf * (b - a) in
  let xf := (yb * a - ya * b) / (yb - ya) in
  let sigma := x1_2 - xf in
  let delta := k1 * fpowi (b - a) 2 in
  let xt := if delta <=? fabs (x1_2 - xf) then xf + fcopysign delta sigma else x1_2 in
  if fabs (xt - x1_2) <=? r then xt else x1_2 - fcopysign r sigma.

(* [while b - a > 2.0 * epsilon]; [fuel] bounds the number of loop entries (each one ticks the work
   counter); [None] = exhausted.  Repair commit 75101ed: the loop is left when the midpoint is not
   strictly inside the bracket (a and b adjacent floats). *)
Fixpoint itp_loop (fuel : nat) (f : T -> T) (epsilon k1 : T) (a b ya yb scaled_epsilon : T) : option T :=
  if b - a >? f2 * epsilon then
    match fuel with
    | O => None
    | S fuel' =>
        let x1_2 := fhalf * (a + b) in
        if (x1_2 <=? a) || (x1_2 >=? b) then Some (fhalf * (a + b))     (* break *)
        else
        let xitp := itp_point a b k1 ya yb scaled_epsilon in
        let yitp := f xitp in
        if yitp >? f0 then itp_loop fuel' f epsilon k1 a xitp ya yitp (scaled_epsilon * fhalf)
        else if yitp <? f0 then itp_loop fuel' f epsilon k1 xitp b yitp yb (scaled_epsilon * fhalf)
        else Some xitp
    end
  else Some (fhalf * (a + b)).

(* n1_2 = (((b - a) / epsilon).log2().ceil() - 1.0).max(0.0) as usize *)
Definition itp_n1_2 (a b epsilon : T) : Z :=
  fto_usize (fmax (fceil (sv_log2 ((b - a) / epsilon)) - f1) f0).

(* nmax = n0.saturating_add(n1_2); scaled_epsilon = epsilon * 2^min(nmax, 1023), the power of two
   built exactly (f64::from_bits) -- repair commit 75101ed, before it [(1u64 << nmax) as f64] *)
Definition solve_itp (fuel : nat) (f : T -> T) (a b epsilon : T) (n0 : Z) (k1 ya yb : T) : option T :=
  let nmax := Z.min (n0 + itp_n1_2 a b epsilon) (2 ^ 64 - 1) in
  let scaled_epsilon := epsilon * fpowi f2 (Z.min nmax 1023) in
  itp_loop fuel f epsilon k1 a b ya yb scaled_epsilon.

End Solvers.
