(** bezpath.rs [flatten] (564-649) and the helpers it calls:
    quadbez.rs [estimate_subdiv] (57-93), [determine_subdiv_t] (96-100),
    [approx_parabola_integral] / [approx_parabola_inv_integral] (173-182),
    cubicbez.rs [to_quads] (78-97) and [ToQuads::next] (734-750).
    Generic over the scalar; same order of floating-point operations as the Rust code.
    Definitions only (C05). *)

From Coq Require Import ZArith QArith List Bool Floats.
From KV Require Import Scalar Geom Curves Path.
Import ListNotations.

Set Implicit Arguments.

Section Flatten.
Context {T : Type} `{Scalar T}.
Local Open Scope S_scope.

(** ** literals *)
Definition lit_D : T := flit 0x1.570a3d70a3d71p-1%float (67#100).       (* const D: f64 = 0.67 *)
Definition lit_B : T := flit 0x1.8f5c28f5c28f6p-2%float (39#100).       (* const B: f64 = 0.39 *)
Definition to_quad_tol : T := flit 0x1.999999999999ap-4%float (1#10).   (* TO_QUAD_TOL = 0.1 *)
Definition lit_quarter : T := flit 0x1p-2%float (1#4).
(* [D.powi(4)] with the constant D: LLVM folds it at compile time to the correctly rounded value of
   0.67^4 = 0.20151121 (0x1.9cb1e8c5d1b10p-3), not to what compiler-rt's square-and-multiply loop
   would return at run time (one ulp higher). The correspondence check pins this down. *)
Definition lit_D4 : T := flit 0x1.9cb1e8c5d1b1p-3%float (20151121#100000000).

(** [approx_parabola_integral]: x / (1.0 - D + (D.powi(4) + 0.25 * x * x).sqrt().sqrt()) *)
Definition approx_parabola_integral (x : T) : T :=
  x / (f1 - lit_D + fsqrt (fsqrt (lit_D4 + lit_quarter * x * x))).

(** [approx_parabola_inv_integral]: x * (1.0 - B + (B * B + 0.25 * x * x).sqrt()) *)
Definition approx_parabola_inv_integral (x : T) : T :=
  x * (f1 - lit_B + fsqrt (lit_B * lit_B + lit_quarter * x * x)).

Record FlattenParams := mkFP { fp_a0 : T; fp_a2 : T; fp_u0 : T; fp_uscale : T; fp_val : T }.

(** [QuadBez::estimate_subdiv] *)
Definition estimate_subdiv (q : QuadBez T) (sqrt_tol : T) : FlattenParams :=
  let d01 := pt_sub (q1 q) (q0 q) in
  let d12 := pt_sub (q2 q) (q1 q) in
  let dd := v_sub d01 d12 in
  let cross := v_cross (pt_sub (q2 q) (q0 q)) dd in
  let x0 := v_dot d01 dd * (f1 / cross) in
  let x2 := v_dot d12 dd * (f1 / cross) in
  let scale := fabs (cross / (v_hypot dd * (x2 - x0))) in
  let a0 := approx_parabola_integral x0 in
  let a2 := approx_parabola_integral x2 in
  let val :=
    if fis_finite scale then
      let da := fabs (a2 - a0) in
      let sqrt_scale := fsqrt scale in
      if fsignum x0 =? fsignum x2 then da * sqrt_scale
      else
        (* cusp case: the segment contains the curvature maximum *)
        let xmin := sqrt_tol / sqrt_scale in
        sqrt_tol * da / approx_parabola_integral xmin
    else f0 in
  let u0 := approx_parabola_inv_integral a0 in
  let u2 := approx_parabola_inv_integral a2 in
  let uscale := f1 / (u2 - u0) in
  mkFP a0 a2 u0 uscale val.

(** which branch of [val] was taken: 0 = scale not finite, 1 = same sign, 2 = cusp *)
Definition estimate_subdiv_branch (q : QuadBez T) : Z :=
  let d01 := pt_sub (q1 q) (q0 q) in
  let d12 := pt_sub (q2 q) (q1 q) in
  let dd := v_sub d01 d12 in
  let cross := v_cross (pt_sub (q2 q) (q0 q)) dd in
  let x0 := v_dot d01 dd * (f1 / cross) in
  let x2 := v_dot d12 dd * (f1 / cross) in
  let scale := fabs (cross / (v_hypot dd * (x2 - x0))) in
  if fis_finite scale then (if fsignum x0 =? fsignum x2 then 1%Z else 2%Z) else 0%Z.

(** [QuadBez::determine_subdiv_t] *)
Definition determine_subdiv_t (p : FlattenParams) (x : T) : T :=
  let a := fp_a0 p + (fp_a2 p - fp_a0 p) * x in
  let u := approx_parabola_inv_integral a in
  (u - fp_u0 p) * fp_uscale p.

(** [((0.5 * val / sqrt_tol).ceil() as usize).max(1)] *)
Definition subdiv_count (val sqrt_tol : T) : Z :=
  Z.max (fto_usize (fceil (fhalf * val / sqrt_tol))) 1.

(** the integers [lo, lo+1, ..., hi-1] (Rust's [lo..hi]) *)
Definition zrange (lo hi : Z) : list Z :=
  map (fun k => (lo + Z.of_nat k)%Z) (seq 0 (Z.to_nat (hi - lo))).

(** ** the QuadTo arm of [flatten]: the interior vertices (the run is these, then the stored end point) *)
Definition flatten_quad_ts (q : QuadBez T) (sqrt_tol : T) : list T :=
  let params := estimate_subdiv q sqrt_tol in
  let n := subdiv_count (fp_val params) sqrt_tol in
  let step := f1 / fofZ n in
  map (fun i => determine_subdiv_t params (fofZ i * step)) (zrange 1 n).

Definition flatten_quad_pts (q : QuadBez T) (sqrt_tol : T) : list (Point T) :=
  map (quad_eval q) (flatten_quad_ts q sqrt_tol).

(** ** [CubicBez::to_quads]: the piece count and the i-th item of [ToQuads::next] *)
Definition fl_to_quads_n (c : CubicBez T) (accuracy : T) : Z :=
  let max_hypot2 := fofZ 432 * accuracy * accuracy in
  let p1x2 := v_sub (s_scale_v f3 (to_vec2 (c1 c))) (to_vec2 (c0 c)) in
  let p2x2 := v_sub (s_scale_v f3 (to_vec2 (c2 c))) (to_vec2 (c3 c)) in
  let err := v_hypot2 (v_sub p2x2 p1x2) in
  Z.max (fto_usize (fceil (fpowf (err / max_hypot2) one_sixth))) 1.

Definition fl_to_quad (c : CubicBez T) (n i : Z) : T * T * QuadBez T :=
  let t0 := fofZ i / fofZ n in
  let t1 := fofZ (i + 1) / fofZ n in
  let seg := cubic_subsegment c t0 t1 in
  let p1x2 := v_sub (s_scale_v f3 (to_vec2 (c1 seg))) (to_vec2 (c0 seg)) in
  let p2x2 := v_sub (s_scale_v f3 (to_vec2 (c2 seg))) (to_vec2 (c3 seg)) in
  (t0, t1, mkQuad (c0 seg) (to_point (v_div (v_add p1x2 p2x2) (fofZ 4))) (c3 seg)).

Definition fl_to_quads (c : CubicBez T) (accuracy : T) : list (T * T * QuadBez T) :=
  let n := fl_to_quads_n c accuracy in
  map (fl_to_quad c n) (zrange 0 n).

(** ** the CurveTo arm of [flatten], second loop.
    [cubic_inner]: the [while target < val_sum + params.val] loop for one quadratic.
    Returns the [u] values at which a vertex is emitted and the counter [i] on exit.
    [fuel] = n + 1 - i on entry bounds the iterations (the loop [break]s when i reaches n + 1);
    [None] = the loop would run on with i > n + 1 ("runaway": never the case in exact
    arithmetic, see [C05_flatten_total]). *)
Fixpoint cubic_inner (fuel : nat) (val_sum val recip_val step : T) (n i : Z) (target : T)
  : option (list T * Z) :=
  if target <? val_sum + val then
    match fuel with
    | O => None
    | S k =>
        let u := (target - val_sum) * recip_val in
        let i' := (i + 1)%Z in
        if Z.eqb i' (n + 1) then Some ([u], i')
        else
          match cubic_inner k val_sum val recip_val step n i' (fofZ i' * step) with
          | None => None
          | Some (us, j) => Some (u :: us, j)
          end
    end
  else Some ([], i).

(** [for (q, params) in &quad_buf]: per quadratic, the [u] values of its vertices *)
Fixpoint cubic_outer (qb : list (QuadBez T * FlattenParams)) (step : T) (n i : Z) (val_sum : T)
  : option (list (list T)) :=
  match qb with
  | [] => Some []
  | (q, p) :: r =>
      let target := fofZ i * step in
      let recip_val := f1 / fp_val p in
      match cubic_inner (Z.to_nat (n + 1 - i)) val_sum (fp_val p) recip_val step n i target with
      | None => None
      | Some (us, i') =>
          match cubic_outer r step n i' (val_sum + fp_val p) with
          | None => None
          | Some uss => Some (us :: uss)
          end
      end
  end.

Definition fp_sum (qb : list (QuadBez T * FlattenParams)) : T :=
  fold_left (fun s qp => s + fp_val (snd qp)) qb f0.

(** per quadratic, the [u] values; [None] = runaway *)
Definition cubic_stage2_us (qb : list (QuadBez T * FlattenParams)) (sqrt_remain_tol : T)
  : option (list (list T)) :=
  let sum := fp_sum qb in
  let n := subdiv_count sum sqrt_remain_tol in
  let step := sum / fofZ n in
  cubic_outer qb step n 1 f0.

Definition piece_pts (qp : QuadBez T * FlattenParams) (us : list T) : list (Point T) :=
  map (fun u => quad_eval (fst qp) (determine_subdiv_t (snd qp) u)) us.

Fixpoint pieces_pts (qb : list (QuadBez T * FlattenParams)) (uss : list (list T)) : list (Point T) :=
  match qb, uss with
  | qp :: qb', us :: uss' => piece_pts qp us ++ pieces_pts qb' uss'
  | _, _ => []
  end.

Definition cubic_stage2 (qb : list (QuadBez T * FlattenParams)) (sqrt_remain_tol : T)
  : option (list (Point T)) :=
  match cubic_stage2_us qb sqrt_remain_tol with
  | None => None
  | Some uss => Some (pieces_pts qb uss)
  end.

Definition sqrt_remain (sqrt_tol : T) : T := sqrt_tol * fsqrt (f1 - to_quad_tol).

(** first loop of the CurveTo arm: the quadratics with their parameters *)
Definition cubic_quad_buf (c : CubicBez T) (tolerance sqrt_tol : T) : list (QuadBez T * FlattenParams) :=
  map (fun tq => (snd tq, estimate_subdiv (snd tq) (sqrt_remain sqrt_tol)))
      (fl_to_quads c (tolerance * to_quad_tol)).

Definition flatten_cubic_pts (c : CubicBez T) (tolerance sqrt_tol : T) : option (list (Point T)) :=
  cubic_stage2 (cubic_quad_buf c tolerance sqrt_tol) (sqrt_remain sqrt_tol).

(** ** [flatten]: the element loop.
    State: [start] = the sub-path start (only used when [keep = true]), [last] = [last_pt].
    [keep = false] is the pinned code ([last_pt = None] on ClosePath);
    [keep = true] is what property C05 requires: after ClosePath the current point is the
    sub-path start, as in [Segments::next], the stroker and the dasher. *)
Definition fl_state : Type := option (Point T) * option (Point T).

Definition fl_step (keep : bool) (tolerance sqrt_tol : T) (st : fl_state) (e : PathEl T)
  : option (fl_state * list (PathEl T)) :=
  let '(start, last) := st in
  match e with
  | MoveTo p => Some ((Some p, Some p), [MoveTo p])
  | LineTo p => Some ((start, Some p), [LineTo p])
  | QuadTo p1 p2 =>
      match last with
      | Some p0 =>
          let q := mkQuad p0 p1 p2 in
          Some ((start, Some p2), map (@LineTo T) (flatten_quad_pts q sqrt_tol ++ [p2]))
      | None => Some ((start, Some p2), [])
      end
  | CurveTo p1 p2 p3 =>
      match last with
      | Some p0 =>
          match flatten_cubic_pts (mkCubic p0 p1 p2 p3) tolerance sqrt_tol with
          | None => None
          | Some pts => Some ((start, Some p3), map (@LineTo T) (pts ++ [p3]))
          end
      | None => Some ((start, Some p3), [])
      end
  | ClosePath => Some ((start, if keep then start else None), [@ClosePath T])
  end.

Fixpoint flatten_from (keep : bool) (tolerance sqrt_tol : T) (st : fl_state) (els : list (PathEl T))
  : option (list (PathEl T)) :=
  match els with
  | [] => Some []
  | e :: r =>
      match fl_step keep tolerance sqrt_tol st e with
      | None => None
      | Some (st', out) =>
          match flatten_from keep tolerance sqrt_tol st' r with
          | None => None
          | Some rest => Some (out ++ rest)
          end
      end
  end.

Definition flatten_gen (keep : bool) (tolerance : T) (els : list (PathEl T)) : option (list (PathEl T)) :=
  flatten_from keep tolerance (fsqrt tolerance) (None, None) els.

(** the pinned code *)
Definition flatten_pinned := flatten_gen false.
(** the behaviour the property requires (and the code after proposed_fixes/C05-flatten-after-close.diff) *)
Definition flatten := flatten_gen true.

End Flatten.

Arguments FlattenParams T : clear implicits.
Arguments fl_state T : clear implicits.
