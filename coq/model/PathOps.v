(** bezpath.rs / svg.rs: the random-access and whole-path operations that re-implement or
    consume the element -> segment rule of [Segments::next] (model/Path.v):

      - [BezPath::get_seg]                      bezpath.rs 320-343   ([get_seg], as pinned)
      - the same with the sub-path start tracked as [Segments::next] does
        (proposed_fixes/C07-get-seg.diff)                           ([get_seg_req])
      - [BezPath::reverse_subpaths]             bezpath.rs 397-437   ([reverse_subpaths])
      - [reverse_subpath]                       bezpath.rs 443-459   ([reverse_subpath])
      - [BezPath::from_path_segments]           svg.rs 45-64         ([from_path_segments])
      - [BezPath::{push,pop,truncate,extend,move_to,line_to,quad_to,curve_to,close_path}]
      - [Shape::path_segments] for [BezPath] / [&[PathEl]] (shape.rs 109, bezpath.rs 1313/1394)

    Generic over the scalar. Definitions only. A Rust panic is modelled as [None].
    [Vec::push] is [l ++ [x]]; slices [&v[a..b]] are [firstn (b-a) (skipn a v)]. *)

From Coq Require Import ZArith List Bool Arith.
From KV Require Import Scalar Geom Curves Path.
Import ListNotations.

Set Implicit Arguments.

Section PathOps.
Context {T : Type} `{Scalar T}.
Local Open Scope S_scope.

Notation El := (PathEl T).

(** [Iterator::find_map] *)
Fixpoint find_map {A B : Type} (f : A -> option B) (l : list A) : option B :=
  match l with
  | [] => None
  | x :: r => match f x with Some y => Some y | None => find_map f r end
  end.

(** ** [BezPath::get_seg], exactly as pinned (bezpath.rs 320-343).
    [nth_error] never fails below because of the range test on the first line. *)
Definition get_seg (els : list El) (ix : nat) : option (PathSeg T) :=
  if (ix =? 0)%nat || (length els <=? ix)%nat then None else
  match nth_error els (ix - 1) with
  | None => None
  | Some prev =>
      match el_end prev with
      | None => None                                   (* PathEl::ClosePath => return None *)
      | Some last =>
          match nth_error els ix with
          | Some (LineTo p) => Some (SegLine (mkLine last p))
          | Some (QuadTo p1 p2) => Some (SegQuad (mkQuad last p1 p2))
          | Some (CurveTo p1 p2 p3) => Some (SegCubic (mkCubic last p1 p2 p3))
          | Some ClosePath =>
              (* self.0[..ix].iter().rev().find_map(MoveTo(start) if start != last => Line(last,start)) *)
              find_map (fun el => match el with
                                  | MoveTo start => if pt_neb start last then Some (SegLine (mkLine last start)) else None
                                  | _ => None
                                  end)
                       (rev (firstn ix els))
          | Some (MoveTo _) => None
          | None => None
          end
      end
  end.

(** ** [get_seg] as the property requires it (and as proposed_fixes/C07-get-seg.diff writes it):
    the sub-path start is the most recent [MoveTo] before [ix]; it is the current point after a
    [ClosePath] and the only candidate target of a closing line. *)
Definition subpath_start (els : list El) (ix : nat) : option (Point T) :=
  find_map (fun el => match el with MoveTo p => Some p | _ => None end) (rev (firstn ix els)).

Definition get_seg_req (els : list El) (ix : nat) : option (PathSeg T) :=
  if (ix =? 0)%nat || (length els <=? ix)%nat then None else
  match nth_error els (ix - 1) with
  | None => None
  | Some prev =>
      let olast := match el_end prev with
                   | Some p => Some p
                   | None => subpath_start els ix          (* ClosePath => self.subpath_start(ix)? *)
                   end in
      match olast with
      | None => None
      | Some last =>
          match nth_error els ix with
          | Some (LineTo p) => Some (SegLine (mkLine last p))
          | Some (QuadTo p1 p2) => Some (SegQuad (mkQuad last p1 p2))
          | Some (CurveTo p1 p2 p3) => Some (SegCubic (mkCubic last p1 p2 p3))
          | Some ClosePath =>
              match subpath_start els ix with
              | Some start => if pt_neb start last then Some (SegLine (mkLine last start)) else None
              | None => None
              end
          | Some (MoveTo _) => None
          | None => None
          end
      end
  end.

(** ** [reverse_subpath] (bezpath.rs 443-459). [reversed] is the output path built so far.
    [None] = one of the two panics ([unwrap] of a [ClosePath]'s end point; a [MoveTo]/[ClosePath]
    inside the slice). *)
Fixpoint reverse_subpath_loop (start_pt : Point T) (els : list El) (it : list (nat * El))
                              (reversed : list El) : option (list El) :=
  match it with
  | [] => Some reversed
  | (ix, el) :: r =>
      let oend := if (0 <? ix)%nat
                  then match nth_error els (ix - 1) with Some e => el_end e | None => None end
                  else Some start_pt in
      match oend with
      | None => None
      | Some end_pt =>
          match el with
          | LineTo _ => reverse_subpath_loop start_pt els r (reversed ++ [LineTo end_pt])
          | QuadTo c0 _ => reverse_subpath_loop start_pt els r (reversed ++ [QuadTo c0 end_pt])
          | CurveTo c0 c1 _ => reverse_subpath_loop start_pt els r (reversed ++ [CurveTo c1 c0 end_pt])
          | _ => None
          end
      end
  end.

Definition enumerate {A : Type} (l : list A) : list (nat * A) := combine (seq 0 (length l)) l.

Definition reverse_subpath (start_pt : Point T) (els : list El) (reversed : list El) : option (list El) :=
  let end_pt := match last (map Some els) None with
                | Some el => match el_end el with Some p => p | None => start_pt end
                | None => start_pt
                end in
  reverse_subpath_loop start_pt els (rev (enumerate els)) (reversed ++ [MoveTo end_pt]).

(** ** [BezPath::reverse_subpaths] (bezpath.rs 397-437) *)
Record RevState := mkRev {
  rv_start_ix : nat;
  rv_start_pt : Point T;
  rv_reversed : list El;
  rv_pending : bool }.

Definition slice (els : list El) (a b : nat) : list El := firstn (b - a) (skipn a els).

Definition reverse_step (elements : list El) (ost : option RevState) (ixel : nat * El) : option RevState :=
  match ost with
  | None => None
  | Some st =>
      let '(ix, el) := ixel in
      match el with
      | MoveTo pt =>
          let rev1 := if rv_pending st then rv_reversed st ++ [MoveTo (rv_start_pt st)] else rv_reversed st in
          let orev2 := if (rv_start_ix st <? ix)%nat
                       then reverse_subpath (rv_start_pt st) (slice elements (rv_start_ix st) ix) rev1
                       else Some rev1 in
          match orev2 with
          | None => None
          | Some rev2 => Some (mkRev (ix + 1) pt rev2 true)
          end
      | ClosePath =>
          let orev1 := if (rv_start_ix st <=? ix)%nat
                       then reverse_subpath (rv_start_pt st) (slice elements (rv_start_ix st) ix) (rv_reversed st)
                       else Some (rv_reversed st) in
          match orev1 with
          | None => None
          | Some rev1 => Some (mkRev (ix + 1) (rv_start_pt st) (rev1 ++ [ClosePath]) false)
          end
      | _ => Some (mkRev (rv_start_ix st) (rv_start_pt st) (rv_reversed st) false)
      end
  end.

Definition pt_default : Point T := mkPoint f0 f0.       (* Point::default() *)

Definition reverse_subpaths (elements : list El) : option (list El) :=
  match fold_left (reverse_step elements) (enumerate elements)
                  (Some (mkRev 1 pt_default [] false)) with
  | None => None
  | Some st =>
      if (rv_start_ix st <? length elements)%nat
      then reverse_subpath (rv_start_pt st) (slice elements (rv_start_ix st) (length elements)) (rv_reversed st)
      else if rv_pending st then Some (rv_reversed st ++ [MoveTo (rv_start_pt st)])
      else Some (rv_reversed st)
  end.

(** ** [BezPath::from_path_segments] (svg.rs 45-64). [PathSeg::start/end] are the stored end
    points ([seg_start]/[seg_end], the behaviour after the repair of C06's finding). *)
Definition seg_to_el (s : PathSeg T) : El :=
  match s with
  | SegLine l => LineTo (l1 l)
  | SegQuad q => QuadTo (q1 q) (q2 q)
  | SegCubic c => CurveTo (c1 c) (c2 c) (c3 c)
  end.

Fixpoint fps_loop (segs : list (PathSeg T)) (current_pos : option (Point T)) (path_elements : list El) : list El :=
  match segs with
  | [] => path_elements
  | s :: r =>
      let start := seg_start s in
      let differs := match current_pos with None => true | Some c => pt_neb start c end in  (* Some(start) != current_pos *)
      let pe1 := if differs then path_elements ++ [MoveTo start] else path_elements in
      fps_loop r (Some (seg_end s)) (pe1 ++ [seg_to_el s])
  end.

Definition from_path_segments (segs : list (PathSeg T)) : list El := fps_loop segs None [].

(** ** the builder: a [BezPath] is its element vector and nothing else *)
Definition bp_push (l : list El) (e : El) : list El := l ++ [e].
Definition bp_pop (l : list El) : list El * option El :=
  (removelast l, last (map Some l) None).
Definition bp_truncate (l : list El) (n : nat) : list El := firstn n l.
Definition bp_extend (l : list El) (it : list El) : list El := l ++ it.
Definition bp_move_to (l : list El) (p : Point T) := bp_push l (MoveTo p).
Definition bp_line_to (l : list El) (p : Point T) := bp_push l (LineTo p).
Definition bp_quad_to (l : list El) (p1 p2 : Point T) := bp_push l (QuadTo p1 p2).
Definition bp_curve_to (l : list El) (p1 p2 p3 : Point T) := bp_push l (CurveTo p1 p2 p3).
Definition bp_close_path (l : list El) := bp_push l ClosePath.

Inductive BOp :=
| OpPush (e : El)
| OpPop
| OpTruncate (n : nat)
| OpExtend (it : list El).

(** the path after one operation, and what [pop] returned *)
Definition run_op (l : list El) (op : BOp) : list El * option (option El) :=
  match op with
  | OpPush e => (bp_push l e, None)
  | OpPop => let '(l', r) := bp_pop l in (l', Some r)
  | OpTruncate n => (bp_truncate l n, None)
  | OpExtend it => (bp_extend l it, None)
  end.

Fixpoint run_history (l : list El) (h : list BOp) : list El * list (option El) :=
  match h with
  | [] => (l, [])
  | op :: r =>
      let '(l1, o) := run_op l op in
      let '(l2, pops) := run_history l1 r in
      (l2, match o with Some x => x :: pops | None => pops end)
  end.

(** [BezPath::is_empty]: no element draws *)
Definition bp_is_empty (l : list El) : bool :=
  forallb (fun el => match el with MoveTo _ | ClosePath => true | _ => false end) l.

(** [Shape::path_segments] for [BezPath] and [&[PathEl]]: [segments(self.path_elements(tol))],
    where [path_elements] copies the element vector. *)
Definition shape_path_segments (l : list El) : option (list (PathSeg T)) := segments l.

End PathOps.
