(** Property C14 (termination, finiteness): the pieces of the termination machinery that no other
    property's model contains.  Generic over the scalar.  Definitions only.

    - fit.rs 176-219, [fit_to_bezpath_rec]: the float midpoint [0.5 * (start + end)] and the guard
      [t == start || t == end] that ends the recursion ("infinite recursion, just draw a line").
      [bisect] is that recursion on a source that cannot be fitted on the ranges [nofit] marks:
      what is counted is exactly what the hook [kurbo::verif::tick] at the head of
      [fit_to_bezpath_rec] counts.  (model/Fit.v has the same recursion over an abstract source
      with the sample / fit oracles; here only the range arithmetic is kept, so that the
      statement "the recursion ends because there are finitely many floats" can be made.)
    - cubicbez.rs 387-436, [CubicBez::regularize]: the nudging of control points that coincide
      with an end point (the stroker's and offsetter's protection against zero tangents), with the
      answer of [detect_cusp] (cubicbez.rs 442-478, which calls the libm-class [QuadBez::nearest])
      as an input.  *)

From Coq Require Import ZArith QArith List Bool Floats.
From KV Require Import Scalar Geom Curves.
Import ListNotations.

Set Implicit Arguments.

Section Totality.
Context {T : Type} `{Scalar T}.
Local Open Scope S_scope.

(** ** fit_to_bezpath_rec: range arithmetic *)

(* [0.5 * (start + end)] *)
Definition fit_mid (s e : T) : T := fhalf * (s + e).
(* [t == start || t == end] *)
Definition fit_guard (t s e : T) : bool := (t =? s) || (t =? e).

(** the recursion on a source never fitted on the ranges [nofit s e = true], always fitted on the
    others.  Result: the number of calls of [fit_to_bezpath_rec] and the right ends of the leaf
    ranges in path order (one cubic is emitted per leaf).  [None]: out of fuel ([fuel] bounds the
    depth). *)
Fixpoint bisect (fuel : nat) (nofit : T -> T -> bool) (s e : T) : option (Z * list T) :=
  match fuel with
  | O => None
  | S k =>
      if nofit s e then
        let t := fit_mid s e in
        if fit_guard t s e then Some (1%Z, [e])
        else
          match bisect k nofit s t with
          | None => None
          | Some (n1, l1) =>
              match bisect k nofit t e with
              | None => None
              | Some (n2, l2) => Some ((1 + n1 + n2)%Z, l1 ++ l2)
              end
          end
      else Some (1%Z, [e])
  end.

(** the same recursion, reporting its depth (number of nested calls) *)
Fixpoint bisect_depth (fuel : nat) (nofit : T -> T -> bool) (s e : T) : option nat :=
  match fuel with
  | O => None
  | S k =>
      if nofit s e then
        let t := fit_mid s e in
        if fit_guard t s e then Some 1%nat
        else
          match bisect_depth k nofit s t, bisect_depth k nofit t e with
          | Some d1, Some d2 => Some (S (Nat.max d1 d2))
          | _, _ => None
          end
      else Some 1%nat
  end.

(** the harness's source: never fitted on a range that contains one of the marks (end points
    included, so that the recursion runs down to adjacent numbers on both sides of a mark and
    ends by the guard alone) *)
Definition marked (marks : list T) (s e : T) : bool :=
  existsb (fun m => (s <=? m) && (m <=? e)) marks.
(** the worst case: never fitted at all (what a source of NaN samples is to the fitter) *)
Definition never (_ _ : T) : bool := true.

(** ** CubicBez::regularize *)

Definition set_c1 (c : CubicBez T) (p : Point T) : CubicBez T := mkCubic (c0 c) p (c2 c) (c3 c).
Definition set_c2 (c : CubicBez T) (p : Point T) : CubicBez T := mkCubic (c0 c) (c1 c) p (c3 c).

(* [c.p1 = c.p0.lerp(c.p3, 1.0 / 3.0); c.p2 = c.p3.lerp(c.p0, 1.0 / 3.0); return c] *)
Definition reg_line (c : CubicBez T) : CubicBez T :=
  mkCubic (c0 c) (pt_lerp (c0 c) (c3 c) one_third) (pt_lerp (c3 c) (c0 c) one_third) (c3 c).

(* first step: [Some] = go on with this cubic, [None] = the early return with [reg_line] *)
Definition reg_step1 (c : CubicBez T) (dim2 : T) : option (CubicBez T) :=
  if pt_distance_squared (c0 c) (c1 c) <? dim2 then
    let d02 := pt_distance_squared (c0 c) (c2 c) in
    if d02 >=? dim2 then Some (set_c1 c (pt_lerp (c0 c) (c2 c) (fsqrt (dim2 / d02))))
    else None
  else Some c.

(* second step; NB [d13] is, as in the source, the squared distance of p1 and p2 *)
Definition reg_step2 (c : CubicBez T) (dim2 : T) : option (CubicBez T) :=
  if pt_distance_squared (c3 c) (c2 c) <? dim2 then
    let d13 := pt_distance_squared (c1 c) (c2 c) in
    if d13 >=? dim2 then Some (set_c2 c (pt_lerp (c3 c) (c1 c) (fsqrt (dim2 / d13))))
    else None
  else Some c.

(* the [if let Some(cusp_type) = self.detect_cusp(dimension)] block; cusp: 0 none, 1 Loop, 2 DoubleInflection *)
Definition reg_cusp (c : CubicBez T) (dimension : T) (cusp : Z) : CubicBez T :=
  let d01 := pt_sub (c1 c) (c0 c) in
  let d01h := v_hypot d01 in
  let d23 := pt_sub (c3 c) (c2 c) in
  let d23h := v_hypot d23 in
  if Z.eqb cusp 1 then
    mkCubic (c0 c) (pt_add_v (c1 c) (s_scale_v (dimension / d01h) d01))
            (pt_sub_v (c2 c) (s_scale_v (dimension / d23h) d23)) (c3 c)
  else if Z.eqb cusp 2 then
    let p1 := if d01h >? f2 * dimension then pt_sub_v (c1 c) (s_scale_v (dimension / d01h) d01) else c1 c in
    let p2 := if d23h >? f2 * dimension then pt_add_v (c2 c) (s_scale_v (dimension / d23h) d23) else c2 c in
    mkCubic (c0 c) p1 p2 (c3 c)
  else c.

Definition regularize (c : CubicBez T) (dimension : T) (cusp : Z) : CubicBez T :=
  let dim2 := dimension * dimension in
  match reg_step1 c dim2 with
  | None => reg_line c
  | Some ca =>
      match reg_step2 ca dim2 with
      | None => reg_line ca
      | Some cb => reg_cusp cb dimension cusp
      end
  end.

End Totality.
