(** line.rs, quadbez.rs, cubicbez.rs and the PathSeg dispatch of bezpath.rs:
    evaluation, sub-segments, subdivision, end points, derivative, degree raising,
    reversal, signed area. Generic over the scalar. Definitions only. *)

From Coq Require Import ZArith QArith List Bool Floats.
From KV Require Import Scalar Geom.
Import ListNotations.

Set Implicit Arguments.

Section Curves.
Context {T : Type} `{Scalar T}.
Local Open Scope S_scope.

Record Line := mkLine { l0 : Point T; l1 : Point T }.
Record QuadBez := mkQuad { q0 : Point T; q1 : Point T; q2 : Point T }.
Record CubicBez := mkCubic { c0 : Point T; c1 : Point T; c2 : Point T; c3 : Point T }.

Inductive PathSeg :=
| SegLine (l : Line)
| SegQuad (q : QuadBez)
| SegCubic (c : CubicBez).

(* constants the compiler folds: 2.0/3.0, 1.0/3.0, 1.0/6.0, 1.0/20.0 are correctly rounded divisions *)
Definition two_thirds : T := f2 / f3.
Definition one_third : T := f1 / f3.
Definition one_sixth : T := f1 / fofZ 6.
Definition one_twentieth : T := f1 / fofZ 20.
Definition fquarter : T := flit 0x1p-2%float (1#4).

(** ** Line *)
Definition line_eval (l : Line) (t : T) : Point T := pt_lerp (l0 l) (l1 l) t.
Definition line_subsegment (l : Line) (t0 t1 : T) : Line := mkLine (line_eval l t0) (line_eval l t1).
Definition line_start (l : Line) : Point T := l0 l.
Definition line_end (l : Line) : Point T := l1 l.
Definition line_subdivide (l : Line) : Line * Line :=
  (line_subsegment l f0 fhalf, line_subsegment l fhalf f1).
Definition line_deriv (l : Line) : Point T := to_point (pt_sub (l1 l) (l0 l)).   (* ConstPoint *)
Definition line_signed_area (l : Line) : T := v_cross (to_vec2 (l0 l)) (to_vec2 (l1 l)) * fhalf.
Definition line_reversed (l : Line) : Line := mkLine (l1 l) (l0 l).
Definition line_midpoint (l : Line) : Point T := pt_midpoint (l0 l) (l1 l).

(** ** QuadBez *)
Definition quad_eval (q : QuadBez) (t : T) : Point T :=
  let mt := f1 - t in
  to_point (v_add (v_scale (to_vec2 (q0 q)) (mt * mt))
                  (v_scale (v_add (v_scale (to_vec2 (q1 q)) (mt * f2)) (v_scale (to_vec2 (q2 q)) t)) t)).

Definition quad_subsegment (q : QuadBez) (t0 t1 : T) : QuadBez :=
  let p0 := quad_eval q t0 in
  let p2 := quad_eval q t1 in
  let p1 := pt_add_v p0 (v_scale (v_lerp (pt_sub (q1 q) (q0 q)) (pt_sub (q2 q) (q1 q)) t0) (t1 - t0)) in
  mkQuad p0 p1 p2.

Definition quad_subdivide (q : QuadBez) : QuadBez * QuadBez :=
  let pm := quad_eval q fhalf in
  (mkQuad (q0 q) (pt_midpoint (q0 q) (q1 q)) pm, mkQuad pm (pt_midpoint (q1 q) (q2 q)) (q2 q)).

Definition quad_start (q : QuadBez) : Point T := q0 q.
Definition quad_end (q : QuadBez) : Point T := q2 q.

Definition quad_deriv (q : QuadBez) : Line :=
  mkLine (to_point (s_scale_v f2 (v_sub (to_vec2 (q1 q)) (to_vec2 (q0 q)))))
         (to_point (s_scale_v f2 (v_sub (to_vec2 (q2 q)) (to_vec2 (q1 q))))).

Definition quad_raise (q : QuadBez) : CubicBez :=
  mkCubic (q0 q)
          (pt_add_v (q0 q) (s_scale_v two_thirds (pt_sub (q1 q) (q0 q))))
          (pt_add_v (q2 q) (s_scale_v two_thirds (pt_sub (q1 q) (q2 q))))
          (q2 q).

Definition quad_signed_area (q : QuadBez) : T :=
  let '(mkPoint x0 y0) := q0 q in let '(mkPoint x1 y1) := q1 q in let '(mkPoint x2 y2) := q2 q in
  (x0 * (f2 * y1 + y2) + f2 * x1 * (y2 - y0) - x2 * (y0 + f2 * y1)) * one_sixth.

(** ** CubicBez *)
Definition cubic_eval (c : CubicBez) (t : T) : Point T :=
  let mt := f1 - t in
  to_point
    (v_add (v_scale (to_vec2 (c0 c)) (mt * mt * mt))
           (v_scale (v_add (v_scale (to_vec2 (c1 c)) (mt * mt * f3))
                           (v_scale (v_add (v_scale (to_vec2 (c2 c)) (mt * f3)) (v_scale (to_vec2 (c3 c)) t)) t))
                    t)).

Definition cubic_deriv (c : CubicBez) : QuadBez :=
  mkQuad (to_point (s_scale_v f3 (pt_sub (c1 c) (c0 c))))
         (to_point (s_scale_v f3 (pt_sub (c2 c) (c1 c))))
         (to_point (s_scale_v f3 (pt_sub (c3 c) (c2 c)))).

Definition cubic_subsegment (c : CubicBez) (t0 t1 : T) : CubicBez :=
  let p0 := cubic_eval c t0 in
  let p3 := cubic_eval c t1 in
  let d := cubic_deriv c in
  let scale := (t1 - t0) * one_third in
  let p1 := pt_add_v p0 (s_scale_v scale (to_vec2 (quad_eval d t0))) in
  let p2 := pt_sub_v p3 (s_scale_v scale (to_vec2 (quad_eval d t1))) in
  mkCubic p0 p1 p2 p3.

Definition cubic_subdivide (c : CubicBez) : CubicBez * CubicBez :=
  let pm := cubic_eval c fhalf in
  (mkCubic (c0 c) (pt_midpoint (c0 c) (c1 c))
           (to_point (v_scale (v_add (v_add (to_vec2 (c0 c)) (v_scale (to_vec2 (c1 c)) f2)) (to_vec2 (c2 c))) fquarter))
           pm,
   mkCubic pm
           (to_point (v_scale (v_add (v_add (to_vec2 (c1 c)) (v_scale (to_vec2 (c2 c)) f2)) (to_vec2 (c3 c))) fquarter))
           (pt_midpoint (c2 c) (c3 c)) (c3 c)).

Definition cubic_start (c : CubicBez) : Point T := c0 c.
Definition cubic_end (c : CubicBez) : Point T := c3 c.

Definition cubic_signed_area (c : CubicBez) : T :=
  let '(mkPoint x0 y0) := c0 c in let '(mkPoint x1 y1) := c1 c in
  let '(mkPoint x2 y2) := c2 c in let '(mkPoint x3 y3) := c3 c in
  (x0 * (fofZ 6 * y1 + f3 * y2 + y3)
   + f3 * (x1 * (fofZ (-2) * y0 + y2 + y3) - x2 * (y0 + y1 - f2 * y3))
   - x3 * (y0 + f3 * y1 + fofZ 6 * y2)) * one_twentieth.

(** ** PathSeg dispatch *)
Definition seg_eval (s : PathSeg) (t : T) : Point T :=
  match s with
  | SegLine l => line_eval l t
  | SegQuad q => quad_eval q t
  | SegCubic c => cubic_eval c t
  end.

Definition seg_subsegment (s : PathSeg) (t0 t1 : T) : PathSeg :=
  match s with
  | SegLine l => SegLine (line_subsegment l t0 t1)
  | SegQuad q => SegQuad (quad_subsegment q t0 t1)
  | SegCubic c => SegCubic (cubic_subsegment c t0 t1)
  end.

(* ParamCurve's provided subdivide: (subsegment(0.0..0.5), subsegment(0.5..1.0)) *)
Definition seg_subdivide (s : PathSeg) : PathSeg * PathSeg :=
  (seg_subsegment s f0 fhalf, seg_subsegment s fhalf f1).

(** The stored end points (what C06 requires of [PathSeg::start/end]). *)
Definition seg_start (s : PathSeg) : Point T :=
  match s with
  | SegLine l => l0 l
  | SegQuad q => q0 q
  | SegCubic c => c0 c
  end.
Definition seg_end (s : PathSeg) : Point T :=
  match s with
  | SegLine l => l1 l
  | SegQuad q => q2 q
  | SegCubic c => c3 c
  end.

(** The trait defaults [eval(0.0)] / [eval(1.0)] (what an impl without overrides computes). *)
Definition seg_start_default (s : PathSeg) : Point T := seg_eval s f0.
Definition seg_end_default (s : PathSeg) : Point T := seg_eval s f1.

Definition seg_signed_area (s : PathSeg) : T :=
  match s with
  | SegLine l => line_signed_area l
  | SegQuad q => quad_signed_area q
  | SegCubic c => cubic_signed_area c
  end.

Definition seg_reverse (s : PathSeg) : PathSeg :=
  match s with
  | SegLine l => SegLine (mkLine (l1 l) (l0 l))
  | SegQuad q => SegQuad (mkQuad (q2 q) (q1 q) (q0 q))
  | SegCubic c => SegCubic (mkCubic (c3 c) (c2 c) (c1 c) (c0 c))
  end.

Definition seg_to_cubic (s : PathSeg) : CubicBez :=
  match s with
  | SegLine l => mkCubic (l0 l) (l0 l) (l1 l) (l1 l)
  | SegCubic c => c
  | SegQuad q => quad_raise q
  end.

End Curves.

Arguments Line T : clear implicits.
Arguments QuadBez T : clear implicits.
Arguments CubicBez T : clear implicits.
Arguments PathSeg T : clear implicits.
