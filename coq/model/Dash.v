(** stroke.rs 536-807: the dashing iterator [DashIterator] —
    [dash_impl] (initial phase from the offset), the four-state machine
    [Iterator::next] (NeedInput / ToStash / Working / FromStash) with its stash,
    [get_input], [step], [handle_closepath], [reset_phase].

    [dash fuel offset els] is the whole of [dash(els.into_iter(), offset, dashes).collect()]
    as a total function: the element list emitted and the number of iterations of
    [next]'s loop (the work counter of the hook [kurbo::verif::tick]).  Fuel is
    explicit; exhaustion and the index panic on an empty pattern are distinguishable
    error values.

    The model is generic over the scalar and over the two arc-length functions the
    iterator calls on the current segment ([arclen], [inv_arclen], both at
    DASH_ACCURACY); sub-segments, evaluation and start points are those of Curves.v.

    Four places of the pinned code violate property C13 (see docs/C13.md and
    proposed_fixes/C13-*.diff).  The [Fixes] record selects, per place, the pinned
    behaviour ([false]) or the repaired one ([true]); [dash] is the repaired machine,
    [dash_pinned] the machine exactly as pinned.  Definitions only. *)

From Coq Require Import ZArith QArith List Bool Floats Arith.
From KV Require Import Scalar Geom Curves Path.
Import ListNotations.

Set Implicit Arguments.

(** which of the three repairs are applied *)
Record Fixes := mkFixes {
  fx_init : bool;        (* dash_impl: also skip an "off" interval the offset exhausts exactly *)
  fx_needinput : bool;   (* next(): NeedInput arm keeps a FromStash set by get_input *)
  fx_order : bool;       (* step(): stash the piece before get_input may stash ClosePath *)
  fx_join : bool         (* handle_closepath(): join with the stash only in state Working *)
}.
Definition fixes_all : Fixes := mkFixes true true true true.
Definition fixes_none : Fixes := mkFixes false false false false.

Inductive DashState := NeedInput | ToStash | Working | FromStash.

Definition is_ToStash (s : DashState) : bool := match s with ToStash => true | _ => false end.
Definition is_Working (s : DashState) : bool := match s with Working => true | _ => false end.
Definition is_NeedInput (s : DashState) : bool := match s with NeedInput => true | _ => false end.

Definition is_nil {A} (l : list A) : bool := match l with [] => true | _ => false end.

Section Dash.
Context {T : Type} `{Scalar T}.
Local Open Scope S_scope.

(** [current_seg.arclen(DASH_ACCURACY)] and [seg.inv_arclen(s, DASH_ACCURACY)] *)
Variable arclen : PathSeg T -> T.
Variable inv_arclen : PathSeg T -> T -> T.
Variable fx : Fixes.
(** the pattern [dashes: &[f64]] *)
Variable dashes : list T.

(** stroke.rs [seg_to_el] *)
Definition seg_to_el (s : PathSeg T) : PathEl T :=
  match s with
  | SegLine l => LineTo (l1 l)
  | SegQuad q => QuadTo (q1 q) (q2 q)
  | SegCubic c => CurveTo (c1 c) (c2 c) (c3 c)
  end.

(** (dash_ix, dash_remaining, is_active): where in the pattern the iterator is *)
Record Phase := mkPhase { p_ix : nat; p_rem : T; p_act : bool }.

(** [dash_impl]: [while dash_remaining < 0.0 { ... }]; [None] = fuel exhausted.
    Repaired: [while dash_remaining < 0.0 || (dash_remaining == 0.0 && !is_active)]. *)
Definition init_continue (rem : T) (act : bool) : bool :=
  (rem <? f0) || (fx_init fx && (rem =? f0) && negb act).

Fixpoint init_loop (fuel : nat) (ix : nat) (rem : T) (act : bool) : option Phase :=
  if init_continue rem act then
    match fuel with
    | O => None
    | S f =>
        let ix' := Nat.modulo (ix + 1) (length dashes) in
        init_loop f ix' (rem + nth ix' dashes f0) (negb act)
    end
  else Some (mkPhase ix rem act).

Inductive InitResult := InitOk (ph : Phase) | InitPanic | InitFuel.

(** [dashes[0]] panics on an empty pattern *)
Definition dash_init (fuel : nat) (offset : T) : InitResult :=
  match dashes with
  | [] => InitPanic
  | d0 :: _ => match init_loop fuel 0 (d0 - offset) true with
               | Some ph => InitOk ph
               | None => InitFuel
               end
  end.

(** the (init_dash_ix, init_dash_remaining, init_is_active) fields *)
Variable init : Phase.

Record DS := mkDS {
  inner : list (PathEl T);        (* what the inner iterator still has to yield *)
  input_done : bool;
  closepath_pending : bool;
  dash_ix : nat;
  is_active : bool;
  state : DashState;
  current_seg : PathSeg T;
  cur_t : T;
  dash_remaining : T;
  seg_remaining : T;
  start_pt : Point T;
  last_pt : Point T;
  stash : list (PathEl T);
  stash_ix : nat
}.

Definition set_inner v (s : DS) := mkDS v (input_done s) (closepath_pending s) (dash_ix s) (is_active s) (state s) (current_seg s) (cur_t s) (dash_remaining s) (seg_remaining s) (start_pt s) (last_pt s) (stash s) (stash_ix s).
Definition set_input_done v (s : DS) := mkDS (inner s) v (closepath_pending s) (dash_ix s) (is_active s) (state s) (current_seg s) (cur_t s) (dash_remaining s) (seg_remaining s) (start_pt s) (last_pt s) (stash s) (stash_ix s).
Definition set_closepath_pending v (s : DS) := mkDS (inner s) (input_done s) v (dash_ix s) (is_active s) (state s) (current_seg s) (cur_t s) (dash_remaining s) (seg_remaining s) (start_pt s) (last_pt s) (stash s) (stash_ix s).
Definition set_dash_ix v (s : DS) := mkDS (inner s) (input_done s) (closepath_pending s) v (is_active s) (state s) (current_seg s) (cur_t s) (dash_remaining s) (seg_remaining s) (start_pt s) (last_pt s) (stash s) (stash_ix s).
Definition set_is_active v (s : DS) := mkDS (inner s) (input_done s) (closepath_pending s) (dash_ix s) v (state s) (current_seg s) (cur_t s) (dash_remaining s) (seg_remaining s) (start_pt s) (last_pt s) (stash s) (stash_ix s).
Definition set_state v (s : DS) := mkDS (inner s) (input_done s) (closepath_pending s) (dash_ix s) (is_active s) v (current_seg s) (cur_t s) (dash_remaining s) (seg_remaining s) (start_pt s) (last_pt s) (stash s) (stash_ix s).
Definition set_current_seg v (s : DS) := mkDS (inner s) (input_done s) (closepath_pending s) (dash_ix s) (is_active s) (state s) v (cur_t s) (dash_remaining s) (seg_remaining s) (start_pt s) (last_pt s) (stash s) (stash_ix s).
Definition set_cur_t v (s : DS) := mkDS (inner s) (input_done s) (closepath_pending s) (dash_ix s) (is_active s) (state s) (current_seg s) v (dash_remaining s) (seg_remaining s) (start_pt s) (last_pt s) (stash s) (stash_ix s).
Definition set_dash_remaining v (s : DS) := mkDS (inner s) (input_done s) (closepath_pending s) (dash_ix s) (is_active s) (state s) (current_seg s) (cur_t s) v (seg_remaining s) (start_pt s) (last_pt s) (stash s) (stash_ix s).
Definition set_seg_remaining v (s : DS) := mkDS (inner s) (input_done s) (closepath_pending s) (dash_ix s) (is_active s) (state s) (current_seg s) (cur_t s) (dash_remaining s) v (start_pt s) (last_pt s) (stash s) (stash_ix s).
Definition set_start_pt v (s : DS) := mkDS (inner s) (input_done s) (closepath_pending s) (dash_ix s) (is_active s) (state s) (current_seg s) (cur_t s) (dash_remaining s) (seg_remaining s) v (last_pt s) (stash s) (stash_ix s).
Definition set_last_pt v (s : DS) := mkDS (inner s) (input_done s) (closepath_pending s) (dash_ix s) (is_active s) (state s) (current_seg s) (cur_t s) (dash_remaining s) (seg_remaining s) (start_pt s) v (stash s) (stash_ix s).
Definition set_stash v (s : DS) := mkDS (inner s) (input_done s) (closepath_pending s) (dash_ix s) (is_active s) (state s) (current_seg s) (cur_t s) (dash_remaining s) (seg_remaining s) (start_pt s) (last_pt s) v (stash_ix s).
Definition set_stash_ix v (s : DS) := mkDS (inner s) (input_done s) (closepath_pending s) (dash_ix s) (is_active s) (state s) (current_seg s) (cur_t s) (dash_remaining s) (seg_remaining s) (start_pt s) (last_pt s) (stash s) v.

(** the [DashIterator { .. }] literal at the end of [dash_impl] *)
Definition init_state (els : list (PathEl T)) : DS :=
  let o := mkPoint (f0 : T) f0 in
  mkDS els false false (p_ix init) (p_act init) NeedInput (SegLine (mkLine o o)) f0 (p_rem init) f0 o o [] 0.

(** [reset_phase] *)
Definition reset_phase (s : DS) : DS :=
  set_is_active (p_act init) (set_dash_remaining (p_rem init) (set_dash_ix (p_ix init) s)).

(** [handle_closepath] *)
Definition handle_closepath (s : DS) : DS :=
  let s1 :=
    if is_ToStash (state s) then set_stash (stash s ++ [(ClosePath : PathEl T)]) s
    else if is_active s && (if fx_join fx then is_Working (state s) else true) then set_stash_ix 1 s
    else s in
  reset_phase (set_state FromStash s1).

(** the three assignments of the segment arms of [get_input] *)
Definition load_seg (seg : PathSeg T) (endp : Point T) (s : DS) : DS :=
  set_last_pt endp (set_current_seg seg (set_seg_remaining (arclen seg) s)).

(** [get_input]: the loop only [continue]s on [MoveTo], so it is structural in the input *)
Fixpoint get_input_loop (inp : list (PathEl T)) (s : DS) : DS :=
  if closepath_pending s then set_cur_t f0 (handle_closepath (set_inner inp s))
  else
    match inp with
    | [] => set_state FromStash (set_input_done true (set_inner [] s))   (* return: t is not reset *)
    | el :: rest =>
        let s := set_inner rest s in
        let p0 := last_pt s in
        match el with
        | MoveTo p =>
            let s := if is_nil (stash s) then s else set_state FromStash s in
            get_input_loop rest (reset_phase (set_last_pt p (set_start_pt p s)))
        | LineTo p1 => set_cur_t f0 (load_seg (SegLine (mkLine p0 p1)) p1 s)
        | QuadTo p1 p2 => set_cur_t f0 (load_seg (SegQuad (mkQuad p0 p1 p2)) p2 s)
        | CurveTo p1 p2 p3 => set_cur_t f0 (load_seg (SegCubic (mkCubic p0 p1 p2 p3)) p3 s)
        | ClosePath =>
            let s := set_closepath_pending true s in
            if pt_neb p0 (start_pt s)
            then set_cur_t f0 (load_seg (SegLine (mkLine p0 (start_pt s))) (start_pt s) s)
            else set_cur_t f0 (handle_closepath s)
        end
    end.

Definition get_input (s : DS) : DS := get_input_loop (inner s) s.

Definition next_ix (ix : nat) : nat :=
  let i := S ix in if Nat.eqb i (length dashes) then O else i.

Definition push_stash (el : PathEl T) (s : DS) : DS := set_stash (stash s ++ [el]) s.

(** [step]: move arc length forward to the next event *)
Definition step (s : DS) : option (PathEl T) * DS :=
  if is_ToStash (state s) && is_nil (stash s) then
    if is_active s then (Some (MoveTo (seg_start (current_seg s))), s)
    else (None, set_state Working s)
  else if dash_remaining s <? seg_remaining s then
    (* next transition is a dash transition *)
    let seg := seg_subsegment (current_seg s) (cur_t s) f1 in
    let t1 := inv_arclen seg (dash_remaining s) in
    let '(result, s1) :=
      if is_active s then (seg_to_el (seg_subsegment seg f0 t1), set_state Working s)
      else (MoveTo (seg_eval seg t1), s) in
    let s2 := set_is_active (negb (is_active s)) s1 in
    let s3 := set_cur_t (cur_t s + t1 * (f1 - cur_t s)) s2 in
    let s4 := set_seg_remaining (seg_remaining s - dash_remaining s) s3 in
    let ix := next_ix (dash_ix s) in
    (Some result, set_dash_remaining (nth ix dashes f0) (set_dash_ix ix s4))
  else
    let result :=
      if is_active s then Some (seg_to_el (seg_subsegment (current_seg s) (cur_t s) f1)) else None in
    let s1 := set_dash_remaining (dash_remaining s - seg_remaining s) s in
    if fx_order fx && is_ToStash (state s1) then
      (None, get_input (match result with Some el => push_stash el s1 | None => s1 end))
    else (result, get_input s1).

(** one iteration of the [loop] in [next] *)
Inductive Tick := TDone | TCont (s : DS) | TEmit (el : PathEl T) (s : DS).

Definition tick (s : DS) : Tick :=
  match state s with
  | NeedInput =>
      if input_done s then TDone
      else
        let s := get_input s in
        if input_done s then TDone
        else if fx_needinput fx && negb (is_NeedInput (state s)) then TCont s
        else TCont (set_state ToStash s)
  | ToStash =>
      let '(r, s') := step s in
      TCont (match r with Some el => push_stash el s' | None => s' end)
  | Working =>
      let '(r, s') := step s in
      match r with Some el => TEmit el s' | None => TCont s' end
  | FromStash =>
      match nth_error (stash s) (stash_ix s) with
      | Some el => TEmit el (set_stash_ix (S (stash_ix s)) s)
      | None =>
          let s := set_stash_ix 0 (set_stash [] s) in
          if input_done s then TDone
          else if closepath_pending s
          then TCont (set_state NeedInput (set_closepath_pending false s))
          else TCont (set_state ToStash s)
      end
  end.

(** [collect()]: call [next] until it returns [None]; every loop iteration costs one unit
    of fuel; the result is the emitted elements and the number of iterations. *)
Fixpoint run (fuel : nat) (s : DS) : option (list (PathEl T) * nat) :=
  match fuel with
  | O => None
  | S f =>
      match tick s with
      | TDone => Some ([], 1%nat)
      | TCont s' => match run f s' with Some (o, n) => Some (o, S n) | None => None end
      | TEmit el s' => match run f s' with Some (o, n) => Some (el :: o, S n) | None => None end
      end
  end.

End Dash.

Arguments Phase T : clear implicits.
Arguments DS T : clear implicits.
Arguments Tick T : clear implicits.
Arguments InitResult T : clear implicits.

Section DashTop.
Context {T : Type} `{Scalar T}.
Local Open Scope S_scope.

Inductive DashResult :=
| DashOk (out : list (PathEl T)) (ticks : nat)
| DashPanic       (* dashes[0] on an empty pattern *)
| DashFuel.       (* fuel exhausted (initial loop or next loop) *)

Definition dash_gen (arclen : PathSeg T -> T) (inv_arclen : PathSeg T -> T -> T) (fx : Fixes)
    (dashes : list T) (fuel : nat) (offset : T) (els : list (PathEl T)) : DashResult :=
  match dash_init fx dashes fuel offset with
  | InitPanic => DashPanic
  | InitFuel => DashFuel
  | InitOk ph =>
      match run arclen inv_arclen fx dashes ph fuel (init_state ph els) with
      | Some (o, n) => DashOk o n
      | None => DashFuel
      end
  end.

(** line.rs: [Line::arclen] = hypot of the chord, [Line::inv_arclen] = a division *)
Definition line_arclen (l : Line T) : T := v_hypot (pt_sub (l1 l) (l0 l)).
Definition line_inv_arclen (l : Line T) (s : T) : T := s / v_hypot (pt_sub (l1 l) (l0 l)).

(** [PathSeg::arclen/inv_arclen]: dispatch; the curve cases are a parameter (property C03) *)
Definition seg_arclen (curve_len : PathSeg T -> T) (s : PathSeg T) : T :=
  match s with SegLine l => line_arclen l | _ => curve_len s end.
Definition seg_inv_arclen (curve_inv : PathSeg T -> T -> T) (s : PathSeg T) (a : T) : T :=
  match s with SegLine l => line_inv_arclen l a | _ => curve_inv s a end.

(** the iterator on polylines (curve segments, if any, count as length 0) *)
Definition poly_arclen : PathSeg T -> T := seg_arclen (fun _ => f0).
Definition poly_inv_arclen : PathSeg T -> T -> T := seg_inv_arclen (fun _ _ => f0).

(** the repaired dasher, and the dasher as pinned *)
Definition dash := dash_gen poly_arclen poly_inv_arclen fixes_all.
Definition dash_pinned := dash_gen poly_arclen poly_inv_arclen fixes_none.

End DashTop.

Arguments DashResult T : clear implicits.
