(** Executable binary64 instances of the three section variables of model/Svg.v, used by the
    correspondence check (corr/C16_corr.v) and by the [vm_compute] witnesses:

    - [dec_parse]: [str::parse::<f64>] on the tokens the lexer can delimit
      ([+-]? digits [. digits]? ([eE][+-]?digits)?, at least one mantissa digit), as an
      *exact* decimal -> binary64 conversion: the token denotes the rational
      m * 10^E; the quotient of two integers is computed exactly with two guard bits
      and a sticky bit and rounded to nearest-even into 53 bits (or fewer in the subnormal
      range); [Z.ldexp] of an integer below 2^53+1 is exact.  Rust's [dec2flt] is correctly
      rounded, so the two must agree bit for bit (short tokens take the classic exact fast
      path: integer < 2^53 times/over an exact power of ten <= 10^22, one IEEE operation); the correspondence check compares them on
      every number of every case, including half-way and subnormal/overflow boundary tokens.
    - [fmod]: Rust's [%] on f64 (exact by definition of IEEE remainder-toward-zero).
    - [show_tbl]: [Display for f64] is NOT re-implemented (shortest round-trip digit
      generation); the harness passes, next to each path, the strings [format!("{}", x)]
      produced for its coordinates, and [show] is the lookup in that table.  What the
      theorems assume about [show] (grammar, [num_of (show x) = Some x]) is evaluated on
      every such string by [show_ok].

    Also the real-number instance of [frem].  Definitions only. *)

From Coq Require Import ZArith Reals List Bool Floats.
From Flocq Require Import Core.Raux.
From KV Require Import Scalar F64 RInst Svg.
Import ListNotations.
Local Open Scope Z_scope.

(** ** decimal -> binary64 *)

Fixpoint digits_val (acc : Z) (l : list Z) : Z :=
  match l with [] => acc | c :: r => digits_val (10 * acc + (c - 48)) r end.

(** round-to-nearest-even of (q + sticky*eps) / 2^k, for k >= 1 *)
Definition rne_shift (q : Z) (sticky : bool) (k : Z) : Z :=
  let hi := Z.shiftr q k in
  let lo := q - Z.shiftl hi k in
  let half := Z.shiftl 1 (k - 1) in
  if (half <? lo) || ((lo =? half) && (sticky || Z.odd hi)) then hi + 1 else hi.

(** correctly rounded n / d for n, d > 0 *)
Definition ratio_to_float (n d : Z) : float :=
  let e0 := Z.log2 n - Z.log2 d in
  let ex2 := Z.max (e0 - 53) (-1074) - 2 in
  let '(q, r) := if 0 <=? ex2 then Z.div_eucl n (d * 2 ^ ex2) else Z.div_eucl (n * 2 ^ (- ex2)) d in
  let nb := Z.log2 q + 1 in
  let k := Z.max (nb - 53) (-1074 - ex2) in
  let m := rne_shift q (negb (r =? 0)) k in
  Z.ldexp (F.ofZ m) (ex2 + k).

(** token -> (negative, integer digits, fraction digits, exponent) *)
Definition dec_split (tok : list Z) : option (bool * list Z * list Z * Z) :=
  let '(neg, s1) := match tok with
                    | c :: r => if c =? 45 then (true, r) else if c =? 43 then (false, r) else (false, tok)
                    | [] => (false, []) end in
  let '(ip, s2) := scan_digits s1 in
  let '(fp, s3) := match s2 with
                   | c :: r => if is_period c then scan_digits r else ([], s2)
                   | [] => ([], []) end in
  match ip ++ fp with
  | [] => None
  | _ =>
    match s3 with
    | [] => Some (neg, ip, fp, 0)
    | c :: r =>
        if is_e c then
          let '(eneg, s4) := match r with
                             | c1 :: r1 => if c1 =? 45 then (true, r1) else if c1 =? 43 then (false, r1) else (false, r)
                             | [] => (false, []) end in
          let '(ed, s5) := scan_digits s4 in
          match ed, s5 with
          | _ :: _, [] => let e := digits_val 0 ed in Some (neg, ip, fp, if eneg then - e else e)
          | _, _ => None
          end
        else None
    end
  end.

(** the classic fast path: an integer below 2^53 times or divided by an exactly representable
    power of ten (10^0 .. 10^22) is one correctly rounded IEEE operation on exact operands *)
Definition pow10_tbl : list float :=
  [1e0; 1e1; 1e2; 1e3; 1e4; 1e5; 1e6; 1e7; 1e8; 1e9; 1e10; 1e11; 1e12; 1e13; 1e14; 1e15; 1e16;
   1e17; 1e18; 1e19; 1e20; 1e21; 1e22]%float.

Definition dec_parse (tok : list Z) : option float :=
  match dec_split tok with
  | None => None
  | Some (neg, ip, fp, e) =>
      let m := digits_val 0 (ip ++ fp) in
      let nd := Z.of_nat (length (ip ++ fp)) in
      let E := e - Z.of_nat (length fp) in
      let mag : float :=
        if m =? 0 then 0%float
        else if (m <? 9007199254740992) && (-22 <=? E) && (E <=? 22) then
          let p := nth (Z.to_nat (Z.abs E)) pow10_tbl 1%float in
          if 0 <=? E then (F.ofZ m * p)%float else (F.ofZ m / p)%float
        else if 400 <? E then infinity
        else if E + nd <? -400 then 0%float
        else if 0 <=? E then ratio_to_float (m * 10 ^ E) 1
        else ratio_to_float m (10 ^ (- E)) in
      Some (if neg then (- mag)%float else mag)
  end.

(** ** fmod *)
Definition sf_mant_exp (x : float) : option (Z * Z) :=
  match Prim2SF x with
  | S754_finite _ m e => Some (Zpos m, e)
  | _ => None
  end.

Definition fmod (x y : float) : float :=
  if PrimFloat.is_nan x || PrimFloat.is_nan y || PrimFloat.is_infinity x || PrimFloat.is_zero y then nan
  else if PrimFloat.is_infinity y || PrimFloat.is_zero x then x
  else
    match sf_mant_exp x, sf_mant_exp y with
    | Some (mx, ex), Some (my, ey) =>
        let e := Z.min ex ey in
        let X := mx * 2 ^ (ex - e) in
        let Y := my * 2 ^ (ey - e) in
        let R := Z.modulo X Y in
        let mag := Z.ldexp (F.ofZ R) e in
        if PrimFloat.get_sign x then (- mag)%float else mag
    | _, _ => nan
    end.

(** ** [Display for f64] by table *)
Fixpoint show_tbl (tbl : list (float * list Z)) (x : float) : list Z :=
  match tbl with
  | [] => []
  | (y, s) :: r => if F.same_bits x y then s else show_tbl r x
  end.

(** the shape the round-trip theorems assume of [show x] for finite x: -?d+(.d+)? *)
Definition all_digits (l : list Z) : bool := forallb is_digit l.
Definition shown_b (s : list Z) : bool :=
  let s1 := match s with c :: r => if c =? 45 then r else s | [] => [] end in
  let '(ip, s2) := scan_digits s1 in
  match ip, s2 with
  | _ :: _, [] => true
  | _ :: _, c :: r => is_period c && all_digits r && negb (match r with [] => true | _ => false end)
  | [], _ => false
  end.

(** ** the real-number reading of [%] *)
Definition Rrem (x y : R) : R := (x - y * IZR (Ztrunc (x / y)))%R.
