(** C02 — signed area of paths: [Shape::area] for [BezPath], [&[PathEl]] and [[PathEl; N]]
    (bezpath.rs 1330 / 1410 / 1450, all three are [segments(els).area()]), [Segments::area]
    (bezpath.rs 814), and the affine images of segments and paths used by the determinant law
    ([impl Mul<Line|QuadBez|CubicBez|PathSeg|PathEl|BezPath> for Affine]).
    The per-segment closed forms ([line/quad/cubic_signed_area]) live in Curves.v, the
    element -> segment machine and the fold ([segs_area]) in Path.v.
    Generic over the scalar. Definitions only. *)

From Coq Require Import ZArith List Bool.
From KV Require Import Scalar Geom Curves Path Affine.
Import ListNotations.

Set Implicit Arguments.

Section Area.
Context {T : Type} `{Scalar T}.
Local Open Scope S_scope.

(** [Shape::area] of a [BezPath] / slice / array of elements:
    [segments(self.iter().copied()).area()]; [None] = the panic of [Segments::next] on a
    leading [ClosePath]. *)
Definition path_area (els : list (PathEl T)) : option T :=
  match segments els with
  | Some segs => Some (segs_area segs)
  | None => None
  end.

(** the terms [Segments::area] adds up, in iteration order *)
Definition path_area_terms (els : list (PathEl T)) : option (list T) :=
  match segments els with
  | Some segs => Some (map (@seg_signed_area T _) segs)
  | None => None
  end.

(** [impl Shape for PathSeg]: [area() = signed_area()]; the concrete curve types return 0.0
    (line.rs 299, quadbez.rs 129, cubicbez.rs 495). *)
Definition seg_shape_area (s : PathSeg T) : T := seg_signed_area s.
Definition curve_shape_area : T := f0.

(** ** Affine images (line.rs 249, quadbez.rs 376, cubicbez.rs 720, bezpath.rs 651-690) *)
Definition line_map (A : Affine T) (l : Line T) : Line T :=
  mkLine (aff_apply A (l0 l)) (aff_apply A (l1 l)).
Definition quad_map (A : Affine T) (q : QuadBez T) : QuadBez T :=
  mkQuad (aff_apply A (q0 q)) (aff_apply A (q1 q)) (aff_apply A (q2 q)).
Definition cubic_map (A : Affine T) (c : CubicBez T) : CubicBez T :=
  mkCubic (aff_apply A (c0 c)) (aff_apply A (c1 c)) (aff_apply A (c2 c)) (aff_apply A (c3 c)).

Definition seg_map (A : Affine T) (s : PathSeg T) : PathSeg T :=
  match s with
  | SegLine l => SegLine (line_map A l)
  | SegQuad q => SegQuad (quad_map A q)
  | SegCubic c => SegCubic (cubic_map A c)
  end.

Definition el_map (A : Affine T) (e : PathEl T) : PathEl T :=
  match e with
  | MoveTo p => MoveTo (aff_apply A p)
  | LineTo p => LineTo (aff_apply A p)
  | QuadTo p1 p2 => QuadTo (aff_apply A p1) (aff_apply A p2)
  | CurveTo p1 p2 p3 => CurveTo (aff_apply A p1) (aff_apply A p2) (aff_apply A p3)
  | ClosePath => ClosePath
  end.

(** [Affine * BezPath] *)
Definition path_map (A : Affine T) (els : list (PathEl T)) : list (PathEl T) := map (el_map A) els.

(** reversing a list of segments: each one reversed, in the opposite order *)
Definition segs_reverse (segs : list (PathSeg T)) : list (PathSeg T) := rev (map (@seg_reverse T) segs).

End Area.
