(** rect.rs and insets.rs, generic over the scalar. Definitions only. *)

From Coq Require Import ZArith List Bool.
From KV Require Import Scalar Geom.
Import ListNotations.

Set Implicit Arguments.

Section RectModel.
Context {T : Type} `{Scalar T}.
Local Open Scope S_scope.

Record Rect := mkRect { rx0 : T; ry0 : T; rx1 : T; ry1 : T }.
Record Insets := mkInsets { ix0 : T; iy0 : T; ix1 : T; iy1 : T }.

Definition rect_abs (r : Rect) : Rect :=
  mkRect (fmin (rx0 r) (rx1 r)) (fmin (ry0 r) (ry1 r)) (fmax (rx0 r) (rx1 r)) (fmax (ry0 r) (ry1 r)).

Definition rect_from_points (p0 p1 : Point T) : Rect :=
  rect_abs (mkRect (px p0) (py p0) (px p1) (py p1)).

Definition rect_from_origin_size (o : Point T) (s : Size T) : Rect :=
  rect_from_points o (pt_add_v o (size_to_vec2 s)).

Definition rect_from_center_size (c : Point T) (s : Size T) : Rect :=
  let w := width s * fhalf in       (* 0.5 * size = size * 0.5 *)
  let h := height s * fhalf in
  mkRect (px c - w) (py c - h) (px c + w) (py c + h).

Definition rect_width (r : Rect) : T := rx1 r - rx0 r.
Definition rect_height (r : Rect) : T := ry1 r - ry0 r.
Definition rect_min_x (r : Rect) : T := fmin (rx0 r) (rx1 r).
Definition rect_max_x (r : Rect) : T := fmax (rx0 r) (rx1 r).
Definition rect_min_y (r : Rect) : T := fmin (ry0 r) (ry1 r).
Definition rect_max_y (r : Rect) : T := fmax (ry0 r) (ry1 r).
Definition rect_origin (r : Rect) : Point T := mkPoint (rx0 r) (ry0 r).
Definition rect_size (r : Rect) : Size T := mkSize (rect_width r) (rect_height r).
Definition rect_area (r : Rect) : T := rect_width r * rect_height r.
Definition rect_is_zero_area (r : Rect) : bool := rect_area r =? f0.
Definition rect_center (r : Rect) : Point T :=
  mkPoint (fhalf * (rx0 r + rx1 r)) (fhalf * (ry0 r + ry1 r)).

Definition rect_with_origin (r : Rect) (o : Point T) : Rect := rect_from_origin_size o (rect_size r).
Definition rect_with_size (r : Rect) (s : Size T) : Rect := rect_from_origin_size (rect_origin r) s.

Definition rect_contains (r : Rect) (p : Point T) : bool :=
  (px p >=? rx0 r) && (px p <? rx1 r) && (py p >=? ry0 r) && (py p <? ry1 r).

Definition rect_union (a b : Rect) : Rect :=
  mkRect (fmin (rx0 a) (rx0 b)) (fmin (ry0 a) (ry0 b)) (fmax (rx1 a) (rx1 b)) (fmax (ry1 a) (ry1 b)).

Definition rect_union_pt (a : Rect) (p : Point T) : Rect :=
  mkRect (fmin (rx0 a) (px p)) (fmin (ry0 a) (py p)) (fmax (rx1 a) (px p)) (fmax (ry1 a) (py p)).

Definition rect_intersect (a b : Rect) : Rect :=
  let x0 := fmax (rx0 a) (rx0 b) in
  let y0 := fmax (ry0 a) (ry0 b) in
  let x1 := fmin (rx1 a) (rx1 b) in
  let y1 := fmin (ry1 a) (ry1 b) in
  mkRect x0 y0 (fmax x1 x0) (fmax y1 y0).

Definition rect_overlaps (a b : Rect) : bool :=
  (rx0 a <=? rx1 b) && (rx1 a >=? rx0 b) && (ry0 a <=? ry1 b) && (ry1 a >=? ry0 b).

Definition rect_contains_rect (a b : Rect) : bool :=
  (rx0 a <=? rx0 b) && (ry0 a <=? ry0 b) && (rx1 a >=? rx1 b) && (ry1 a >=? ry1 b).

Definition rect_inflate (r : Rect) (w h : T) : Rect :=
  mkRect (rx0 r - w) (ry0 r - h) (rx1 r + w) (ry1 r + h).

Definition rect_map (f : T -> T) (r : Rect) : Rect :=
  mkRect (f (rx0 r)) (f (ry0 r)) (f (rx1 r)) (f (ry1 r)).
Definition rect_round := rect_map fround.
Definition rect_ceil := rect_map fceil.
Definition rect_floor := rect_map ffloor.

Definition rect_expand (r : Rect) : Rect :=
  let '(x0, x1) := if rx0 r <? rx1 r then (ffloor (rx0 r), fceil (rx1 r))
                   else (fceil (rx0 r), ffloor (rx1 r)) in
  let '(y0, y1) := if ry0 r <? ry1 r then (ffloor (ry0 r), fceil (ry1 r))
                   else (fceil (ry0 r), ffloor (ry1 r)) in
  mkRect x0 y0 x1 y1.

Definition rect_trunc (r : Rect) : Rect :=
  let '(x0, x1) := if rx0 r <? rx1 r then (fceil (rx0 r), ffloor (rx1 r))
                   else (ffloor (rx0 r), fceil (rx1 r)) in
  let '(y0, y1) := if ry0 r <? ry1 r then (fceil (ry0 r), ffloor (ry1 r))
                   else (ffloor (ry0 r), fceil (ry1 r)) in
  mkRect x0 y0 x1 y1.

Definition rect_scale_from_origin (r : Rect) (k : T) : Rect :=
  mkRect (rx0 r * k) (ry0 r * k) (rx1 r * k) (ry1 r * k).

Definition rect_add_v (r : Rect) (v : Vec2 T) : Rect :=
  mkRect (rx0 r + vx v) (ry0 r + vy v) (rx1 r + vx v) (ry1 r + vy v).
Definition rect_sub_v (r : Rect) (v : Vec2 T) : Rect :=
  mkRect (rx0 r - vx v) (ry0 r - vy v) (rx1 r - vx v) (ry1 r - vy v).

(* impl Sub for Rect -> Insets *)
Definition rect_sub (a b : Rect) : Insets :=
  mkInsets (rx0 b - rx0 a) (ry0 b - ry0 a) (rx1 a - rx1 b) (ry1 a - ry1 b).

(* Shape for Rect *)
Definition rect_perimeter (r : Rect) : T := f2 * (fabs (rect_width r) + fabs (rect_height r)).

Definition rect_winding (r : Rect) (p : Point T) : Z :=
  let xmin := fmin (rx0 r) (rx1 r) in
  let xmax := fmax (rx0 r) (rx1 r) in
  let ymin := fmin (ry0 r) (ry1 r) in
  let ymax := fmax (ry0 r) (ry1 r) in
  if (px p >=? xmin) && (px p <? xmax) && (py p >=? ymin) && (py p <? ymax) then
    if xorb (rx1 r >? rx0 r) (ry1 r >? ry0 r) then (-1)%Z else 1%Z
  else 0%Z.

Definition rect_bounding_box := rect_abs.

(* insets.rs *)
Definition insets_neg (i : Insets) : Insets := mkInsets (- ix0 i) (- iy0 i) (- ix1 i) (- iy1 i).

(* impl Add<Rect> for Insets  (and Rect + Insets, Rect::inset) *)
Definition insets_add_rect (i : Insets) (r : Rect) : Rect :=
  let r := rect_abs r in
  mkRect (rx0 r - ix0 i) (ry0 r - iy0 i) (rx1 r + ix1 i) (ry1 r + iy1 i).
Definition rect_add_insets (r : Rect) (i : Insets) : Rect := insets_add_rect i r.
Definition rect_inset := rect_add_insets.
(* impl Sub<Rect> for Insets: other + -self ; impl Sub<Insets> for Rect: other - self *)
Definition insets_sub_rect (i : Insets) (r : Rect) : Rect := rect_add_insets r (insets_neg i).
Definition rect_sub_insets (r : Rect) (i : Insets) : Rect := insets_sub_rect i r.

Definition rect_is_finite (r : Rect) : bool :=
  fis_finite (rx0 r) && fis_finite (rx1 r) && fis_finite (ry0 r) && fis_finite (ry1 r).

End RectModel.

Arguments Rect T : clear implicits.
Arguments Insets T : clear implicits.
