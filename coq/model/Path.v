(** bezpath.rs: path elements and the element -> segment state machine
    ([Segments::next], bezpath.rs 763-803). Generic over the scalar. Definitions only.
    Shared by C01 C02 C03 C05 C07 C08 C13. *)

From Coq Require Import ZArith List Bool.
From KV Require Import Scalar Geom Curves.
Import ListNotations.

Set Implicit Arguments.

Section Path.
Context {T : Type} `{Scalar T}.
Local Open Scope S_scope.

Inductive PathEl :=
| MoveTo (p : Point T)
| LineTo (p : Point T)
| QuadTo (p1 p2 : Point T)
| CurveTo (p1 p2 p3 : Point T)
| ClosePath.

(** the point an element ends at ([None] for [ClosePath]) *)
Definition el_end (e : PathEl) : option (Point T) :=
  match e with
  | MoveTo p => Some p
  | LineTo p => Some p
  | QuadTo _ p2 => Some p2
  | CurveTo _ _ p3 => Some p3
  | ClosePath => None
  end.

(** Rust's [Point != Point] (derived PartialEq on two f64 fields) *)
Definition pt_neb (a b : Point T) : bool := negb (pt_eqb a b).

(** One step of [Segments::next]'s loop body on element [e] in state [st = start_last].
    Result: [None] = the panic "Can't start a segment on a ClosePath";
    [Some (st', out)] = the new state and the segment emitted for this element, if any. *)
Definition seg_step (st : option (Point T * Point T)) (e : PathEl)
  : option ((Point T * Point T) * option (PathSeg T)) :=
  let init :=
    match st with
    | Some sl => Some sl
    | None => match el_end e with Some p => Some (p, p) | None => None end
    end in
  match init with
  | None => None
  | Some (start, last) =>
      Some (match e with
            | MoveTo p => ((p, p), None)
            | LineTo p => ((start, p), Some (SegLine (mkLine last p)))
            | QuadTo p1 p2 => ((start, p2), Some (SegQuad (mkQuad last p1 p2)))
            | CurveTo p1 p2 p3 => ((start, p3), Some (SegCubic (mkCubic last p1 p2 p3)))
            | ClosePath =>
                if pt_neb last start then ((start, start), Some (SegLine (mkLine last start)))
                else ((start, last), None)
            end)
  end.

(** all segments of an element list, from state [st]; [None] = panic *)
Fixpoint segs_from (st : option (Point T * Point T)) (els : list PathEl) : option (list (PathSeg T)) :=
  match els with
  | [] => Some []
  | e :: r =>
      match seg_step st e with
      | None => None
      | Some (st', out) =>
          match segs_from (Some st') r with
          | None => None
          | Some segs => Some (match out with Some s => s :: segs | None => segs end)
          end
      end
  end.

(** [segments(els)] / [BezPath::segments] *)
Definition segments (els : list PathEl) : option (list (PathSeg T)) := segs_from None els.

(** [Segments::area], summed in iteration order starting from 0.0 (Iterator::sum for f64) *)
Definition sum_f (xs : list T) : T := fold_left fadd xs f0.
Definition segs_area (segs : list (PathSeg T)) : T := sum_f (map (@seg_signed_area T _) segs).

End Path.

Arguments PathEl T : clear implicits.
