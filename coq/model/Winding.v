(** Winding number by a leftward ray cast (C01). Generic over the scalar; definitions only.
    Every function mirrors the Rust code operation by operation, same order of
    floating-point operations, same branch structure.

      w_quad_extrema     quadbez.rs   impl ParamCurveExtrema for QuadBez :: extrema   (352-373)
      w_cubic_extrema    cubicbez.rs  impl ParamCurveExtrema for CubicBez :: extrema  (697-718)
      w_line_extrema     line.rs      impl ParamCurveExtrema for Line :: extrema      (187: empty)
      w_extrema_ranges   param_curve.rs  ParamCurveExtrema::extrema_ranges            (202-211)
      winding_inner      bezpath.rs   PathSeg::winding_inner                          (952-1035)
      seg_winding        bezpath.rs   PathSeg::winding                                (1040-1045)
      segs_winding       bezpath.rs   Segments::winding                               (819-821)
      path_winding       bezpath.rs   Shape::winding for BezPath / &[PathEl] / [PathEl; N]
      path_contains      shape.rs     Shape::contains (provided method: winding != 0)

    The i32 results are modelled in [Z] (each piece contributes -1, 0 or 1; an overflow of the
    i32 sum needs more than 2^31 / 5 segments and is outside the model).
    [None] from [path_winding] = the panic of [Segments::next] on a leading [ClosePath]. *)

From Coq Require Import ZArith QArith List Bool Floats.
From KV Require Import Scalar Geom Curves Path Solvers.
Import ListNotations.

Set Implicit Arguments.

Section Winding.
Context {T : Type} `{Scalar T}.
Local Open Scope S_scope.

(** ** extrema *)

Definition w_line_extrema (l : Line T) : list T := [].

(* [t > 0.0 && t < 1.0] *)
Definition w_interior (t : T) : bool := (t >? f0) && (t <? f1).

Definition w_quad_extrema (q : QuadBez T) : list T :=
  let d0 := pt_sub (q1 q) (q0 q) in
  let d1 := pt_sub (q2 q) (q1 q) in
  let dd := v_sub d1 d0 in
  let r1 :=
    if vx dd <>? f0 then
      let t := (- vx d0) / vx dd in
      if w_interior t then [t] else []
    else [] in
  if vy dd <>? f0 then
    let t := (- vy d0) / vy dd in
    if w_interior t then
      match r1 with
      | [t0] => if t0 >? t then [t; t0] else [t0; t]     (* result.len() == 2 && result[0] > t: swap *)
      | _ => r1 ++ [t]
      end
    else r1
  else r1.

(* fn one_coord: the roots of the derivative's coordinate polynomial that lie in (0,1) *)
Definition w_one_coord (d0 d1 d2 : T) : list T :=
  let a := d0 - f2 * d1 + d2 in
  let b := f2 * (d1 - d0) in
  let c := d0 in
  filter w_interior (solve_quadratic c b a).

(* result.sort_by(|a, b| a.partial_cmp(b).unwrap()): a stable sort of at most four non-NaN
   values; equal values are indistinguishable, so any stable insertion sort gives the same list *)
Fixpoint w_insert (x : T) (l : list T) : list T :=
  match l with
  | [] => [x]
  | y :: r => if x <? y then x :: l else y :: w_insert x r
  end.
Definition w_sort (l : list T) : list T := fold_left (fun acc x => w_insert x acc) l [].

Definition w_cubic_extrema (c : CubicBez T) : list T :=
  let d0 := pt_sub (c1 c) (c0 c) in
  let d1 := pt_sub (c2 c) (c1 c) in
  let d2 := pt_sub (c3 c) (c2 c) in
  w_sort (w_one_coord (vx d0) (vx d1) (vx d2) ++ w_one_coord (vy d0) (vy d1) (vy d2)).

Definition w_seg_extrema (s : PathSeg T) : list T :=
  match s with
  | SegLine l => w_line_extrema l
  | SegQuad q => w_quad_extrema q
  | SegCubic c => w_cubic_extrema c
  end.

(* let mut t0 = 0.0; for t in extrema { push(t0..t); t0 = t }; push(t0..1.0) *)
Fixpoint w_ranges_from (t0 : T) (ts : list T) : list (T * T) :=
  match ts with
  | [] => [(t0, f1)]
  | t :: r => (t0, t) :: w_ranges_from t r
  end.
Definition w_extrema_ranges (s : PathSeg T) : list (T * T) := w_ranges_from f0 (w_seg_extrema s).

(** ** winding_inner

    Two variants, selected by [fx]:
      [fx = true]  the behaviour the property requires (and the code after proposed_fixes/C01-*.diff):
                   - [PathSeg::winding] uses a segment without interior extrema as it is (so a line keeps its
                     stored end points), and
                   - when the piece spans the row of [p] but no root of y(t) = p.y in [0,1] is reported by the
                     solver, the crossing is taken at the end point whose ordinate is nearer to [p.y]
                     ([winding_at_nearer_end]) instead of "no crossing";
      [fx = false] the code of the pinned tree (bezpath.rs 952-1045 at commit 3a33019): every segment, lines
                   included, is replaced by [subsegment(range)] pieces, and a missing root means 0.
    All theorems are about [fx = true]; the [..._pinned] definitions are used by the [..._refuted] facts. *)

(* fn winding_at_nearer_end (proposed fix) *)
Definition w_nearer_end (s : PathSeg T) (p : Point T) (sign : Z) : Z :=
  let start := seg_start s in
  let en := seg_end s in
  let x := if fabs (py p - py start) <=? fabs (py p - py en) then px start else px en in
  if px p >=? x then sign else 0%Z.

(* for t in roots { if (0.0..=1.0).contains(&t) { let x = eval(t).x; return if p.x >= x { sign } else { 0 } } } dflt *)
Fixpoint w_first_root (roots : list T) (xat : T -> T) (pxv : T) (sign : Z) (dflt : Z) : Z :=
  match roots with
  | [] => dflt
  | t :: r =>
      if (f0 <=? t) && (t <=? f1) then
        (if pxv >=? xat t then sign else 0%Z)
      else w_first_root r xat pxv sign dflt
  end.

(* the part after [sign] is known; [start], [end] are the stored end points *)
Definition w_side (fx : bool) (s : PathSeg T) (p : Point T) (sign : Z) : Z :=
  let start := seg_start s in
  let en := seg_end s in
  let dflt := if fx then w_nearer_end s p sign else 0%Z in
  match s with
  | SegLine _ =>
      if px p <? fmin (px start) (px en) then 0%Z
      else if px p >=? fmax (px start) (px en) then sign
      else
        let a := py en - py start in
        let b := px start - px en in
        let c := a * px start + b * py start in
        if (a * px p + b * py p - c) * fofZ sign <=? f0 then sign else 0%Z
  | SegQuad quad =>
      let p1 := q1 quad in
      if px p <? fmin (fmin (px start) (px en)) (px p1) then 0%Z
      else if px p >=? fmax (fmax (px start) (px en)) (px p1) then sign
      else
        let a := py en - f2 * py p1 + py start in
        let b := f2 * (py p1 - py start) in
        let c := py start - py p in
        w_first_root (solve_quadratic c b a) (fun t => px (quad_eval quad t)) (px p) sign dflt
  | SegCubic cubic =>
      let p1 := c1 cubic in
      let p2 := c2 cubic in
      if px p <? fmin (fmin (fmin (px start) (px en)) (px p1)) (px p2) then 0%Z
      else if px p >=? fmax (fmax (fmax (px start) (px en)) (px p1)) (px p2) then sign
      else
        let a := py en - f3 * py p2 + f3 * py p1 - py start in
        let b := f3 * (py p2 - f2 * py p1 + py start) in
        let c := f3 * (py p1 - py start) in
        let d := py start - py p in
        w_first_root (solve_cubic d c b a) (fun t => px (cubic_eval cubic t)) (px p) sign dflt
  end.

Definition winding_inner_gen (fx : bool) (s : PathSeg T) (p : Point T) : Z :=
  let start := seg_start s in
  let en := seg_end s in
  if py en >? py start then
    (if (py p <? py start) || (py p >=? py en) then 0%Z else w_side fx s p (-1)%Z)
  else if py en <? py start then
    (if (py p <? py en) || (py p >=? py start) then 0%Z else w_side fx s p 1%Z)
  else 0%Z.

(** ** PathSeg::winding, Segments::winding, Shape::winding / contains *)

Definition sum_Z (l : list Z) : Z := fold_left Z.add l 0%Z.

(* self.extrema_ranges().map(|range| self.subsegment(range)) *)
Definition w_subpieces (s : PathSeg T) : list (PathSeg T) :=
  map (fun r => seg_subsegment s (fst r) (snd r)) (w_extrema_ranges s).

(* the monotone pieces the ray cast is applied to *)
Definition w_pieces_gen (fx : bool) (s : PathSeg T) : list (PathSeg T) :=
  if fx then
    match w_extrema_ranges s with
    | [_] => [s]                      (* ranges.len() == 1: the segment is its own monotone piece *)
    | _ => w_subpieces s
    end
  else w_subpieces s.

Definition seg_winding_gen (fx : bool) (s : PathSeg T) (p : Point T) : Z :=
  sum_Z (map (fun piece => winding_inner_gen fx piece p) (w_pieces_gen fx s)).

Definition segs_winding_gen (fx : bool) (segs : list (PathSeg T)) (p : Point T) : Z :=
  sum_Z (map (fun s => seg_winding_gen fx s p) segs).

Definition path_winding_gen (fx : bool) (els : list (PathEl T)) (p : Point T) : option Z :=
  match segments els with
  | Some segs => Some (segs_winding_gen fx segs p)
  | None => None
  end.

Definition path_contains_gen (fx : bool) (els : list (PathEl T)) (p : Point T) : option bool :=
  match path_winding_gen fx els p with
  | Some w => Some (negb (w =? 0)%Z)
  | None => None
  end.

(** the required behaviour (= the code with the proposed fixes applied) *)
Definition winding_inner := winding_inner_gen true.
Definition w_pieces := w_pieces_gen true.
Definition seg_winding := seg_winding_gen true.
Definition segs_winding := segs_winding_gen true.
Definition path_winding := path_winding_gen true.
Definition path_contains := path_contains_gen true.

(** the pinned tree *)
Definition winding_inner_pinned := winding_inner_gen false.
Definition w_pieces_pinned := w_pieces_gen false.
Definition seg_winding_pinned := seg_winding_gen false.
Definition segs_winding_pinned := segs_winding_gen false.
Definition path_winding_pinned := path_winding_gen false.
Definition path_contains_pinned := path_contains_gen false.

End Winding.
