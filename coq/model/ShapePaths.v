(** [Shape::path_elements] of kurbo's closed-form shapes, generic over the scalar:
    circle.rs (Circle 110-130 + CirclePathIter::next 166, CircleSegment 326, point_on_circle 387),
    arc.rs (append_iter 72-98, ArcAppendIter::next 132, sample_ellipse 159, rotate_pt 167,
    path_elements 178, to_cubic_beziers 103), ellipse.rs (path_elements 213),
    rounded_rect.rs (from_rect 65, path_elements 158, RectPathIter::next 363, RoundedRectPathIter::next 393),
    rounded_rect_radii.rs (abs, clamp), rect.rs (RectPathIter 721), triangle.rs (243), line.rs (325),
    quadbez.rs (148), cubicbez.rs (515), bezpath.rs (PathSegIter 1518).
    Iterators are modelled as functions returning the whole element list (fuel = the piece count n).
    Definitions only. *)

From Coq Require Import ZArith QArith List Bool Floats.
From KV Require Import Scalar Geom Curves Rect Affine Path ShapeTypes.
Import ListNotations.

Set Implicit Arguments.

Section ShapePaths.
Context {T : Type} `{Scalar T}.
Local Open Scope S_scope.

(** literals of the source *)
Definition c_1_9608em4 : T := flit 0x1.9b35a5ff2d9d2p-13%float (19608 # 100000000).   (* 1.9608e-4 *)
Definition c_1_1163 : T := flit 0x1.1dc5d63886595p+0%float (11163 # 10000).           (* 1.1163 *)
Definition c_arm4 : T := flit 0x1.1a949b28bedb9p-1%float (551915024494 # 1000000000000). (* 0.551915024494 *)
Definition c_3_999999 : T := flit 0x1.fffff79c842fap+1%float (3999999 # 1000000).     (* 3.999_999 *)
Definition c_quarter : T := flit 0x1p-2%float (1 # 4).                                (* 0.25 *)
(* core::f64::consts::FRAC_PI_2 is PI/2 exactly (binary scaling); 2.0 * PI likewise *)
Definition frac_pi_2 : T := fpi / f2.
Definition two_pi : T := f2 * fpi.
Definition one_sixth_ : T := f1 / fofZ 6.          (* 1.0 / 6.0, folded by the compiler: one correctly rounded division *)
Definition four_thirds : T := fofZ 4 / f3.         (* 4.0 / 3.0 *)
Definition inv_two_pi : T := f1 / two_pi.          (* 1.0 / (2.0 * PI) *)
Definition branch4_limit : T := f1 / c_1_9608em4.  (* 1.0 / 1.9608e-4 *)

(** the integers ix = 1 .. n (as usize values) *)
Definition zrange1 (n : Z) : list Z := map Z.of_nat (seq 1 (Z.to_nat n)).

(** ** Circle (circle.rs 110-130, 166-193) *)

(** [(n, arm_len)] of [Circle::path_elements] *)
Definition circle_params (radius tolerance : T) : Z * T :=
  let scaled_err := fabs radius / tolerance in
  if scaled_err <? branch4_limit then (4%Z, c_arm4)
  else
    let n := fto_usize (fceil (fpowf (c_1_1163 * scaled_err) one_sixth_)) in
    let arm_len := four_thirds * ftan (frac_pi_2 / fofZ n) in
    (n, arm_len).

(** the [CurveTo] emitted at iterator position [ix] (1 <= ix <= n) *)
Definition circle_piece (c : Circle T) (delta_th arm_len : T) (n ix : Z) : PathEl T :=
  let a := arm_len in
  let r := ci_radius c in
  let x := px (ci_center c) in
  let y := py (ci_center c) in
  let th1 := delta_th * fofZ ix in
  let th0 := th1 - delta_th in
  let s0 := fsin th0 in
  let c0 := fcos th0 in
  let sc1 := if Z.eqb ix n then (f0, f1) else (fsin th1, fcos th1) in
  let s1 := fst sc1 in
  let c1 := snd sc1 in
  CurveTo (mkPoint (x + r * (c0 - a * s0)) (y + r * (s0 + a * c0)))
          (mkPoint (x + r * (c1 + a * s1)) (y + r * (s1 - a * c1)))
          (mkPoint (x + r * c1) (y + r * s1)).

Definition circle_path_elements (c : Circle T) (tolerance : T) : list (PathEl T) :=
  let na := circle_params (ci_radius c) tolerance in
  let n := fst na in
  let arm_len := snd na in
  let delta_th := two_pi / fofZ n in
  MoveTo (mkPoint (px (ci_center c) + ci_radius c) (py (ci_center c)))
  :: map (circle_piece c delta_th arm_len n) (zrange1 n) ++ [ClosePath].

(** ** Arc (arc.rs) *)

(* fn rotate_pt(pt: Vec2, angle: f64) -> Vec2 *)
Definition rotate_pt (pt : Vec2 T) (angle : T) : Vec2 T :=
  let angle_sin := fsin angle in
  let angle_cos := fcos angle in
  mkVec2 (vx pt * angle_cos - vy pt * angle_sin) (vx pt * angle_sin + vy pt * angle_cos).

(* fn sample_ellipse(radii: Vec2, x_rotation: f64, angle: f64) -> Vec2 *)
Definition sample_ellipse (radii : Vec2 T) (x_rotation angle : T) : Vec2 T :=
  let angle_sin := fsin angle in
  let angle_cos := fcos angle in
  let u := vx radii * angle_cos in
  let v := vy radii * angle_sin in
  rotate_pt (mkVec2 u v) x_rotation.

(** the numeric head of [Arc::append_iter]: (n, arm_len, angle_step) *)
Record ArcParams := mkArcParams { ap_n : Z; ap_arm_len : T; ap_angle_step : T }.

Definition arc_params (a : Arc T) (tolerance : T) : ArcParams :=
  let sign := fsignum (arc_sweep_angle a) in
  let scaled_err := fmax (vx (arc_radii a)) (vy (arc_radii a)) / tolerance in
  let n_err := fmax (fpowf (c_1_1163 * scaled_err) one_sixth_) c_3_999999 in
  let nf := fceil (n_err * fabs (arc_sweep_angle a) * inv_two_pi) in
  let angle_step := arc_sweep_angle a / nf in
  let n := fto_usize nf in
  let arm_len := four_thirds * ftan (fabs (c_quarter * angle_step)) * sign in
  mkArcParams n arm_len angle_step.

(** [ArcAppendIter::next], iterated [fuel] times from state (angle0, p0) *)
Fixpoint arc_iter (fuel : nat) (center : Point T) (radii : Vec2 T) (x_rotation arm_len angle_step : T)
         (angle0 : T) (p0 : Vec2 T) : list (PathEl T) :=
  match fuel with
  | O => []
  | S k =>
      let angle1 := angle0 + angle_step in
      let p1 := v_add p0 (s_scale_v arm_len (sample_ellipse radii x_rotation (angle0 + frac_pi_2))) in
      let p3 := sample_ellipse radii x_rotation angle1 in
      let p2 := v_sub p3 (s_scale_v arm_len (sample_ellipse radii x_rotation (angle1 + frac_pi_2))) in
      CurveTo (pt_add_v center p1) (pt_add_v center p2) (pt_add_v center p3)
      :: arc_iter k center radii x_rotation arm_len angle_step angle1 p3
  end.

(** all elements of [Arc::append_iter(tolerance)] *)
Definition arc_append_elements (a : Arc T) (tolerance : T) : list (PathEl T) :=
  let p := arc_params a tolerance in
  let angle0 := arc_start_angle a in
  let p0 := sample_ellipse (arc_radii a) (arc_x_rotation a) angle0 in
  arc_iter (Z.to_nat (ap_n p)) (arc_center a) (arc_radii a) (arc_x_rotation a)
           (ap_arm_len p) (ap_angle_step p) angle0 p0.

(** [impl Shape for Arc]::path_elements *)
Definition arc_path_elements (a : Arc T) (tolerance : T) : list (PathEl T) :=
  let p0 := sample_ellipse (arc_radii a) (arc_x_rotation a) (arc_start_angle a) in
  MoveTo (pt_add_v (arc_center a) p0) :: arc_append_elements a tolerance.

(** [Arc::to_cubic_beziers]: the control-point triples handed to the closure *)
Definition arc_to_cubic_beziers (a : Arc T) (tolerance : T) : list (Point T * Point T * Point T) :=
  flat_map (fun e => match e with CurveTo p1 p2 p3 => [(p1, p2, p3)] | _ => [] end)
           (arc_append_elements a tolerance).

(** ** Ellipse (ellipse.rs 213): the full arc of its SVD radii / rotation *)
Definition ellipse_center (e : Ellipse T) : Point T := to_point (aff_translation (el_inner e)).

(** [Affine::svd] (affine.rs 394) as the property needs it: the pinned code computes the minor
    radius as [sqrt(0.5*(s1 - s2))], which is the same real number but cancels catastrophically in
    binary64 for elongated ellipses (finding C10-svd-minor-radius); the repaired code computes
    [min(|det| / major, major)] and returns 0 when the major radius is 0. Everything else is [aff_svd] verbatim. *)
Definition svd_stable (m : Affine T) : Vec2 T * T :=
  let a := aa m in let a2 := a * a in
  let b := ab m in let b2 := b * b in
  let c := ac m in let c2 := c * c in
  let d := ad m in let d2 := d * d in
  let ab_ := a * b in
  let cd_ := c * d in
  let angle := fhalf * fatan2 (f2 * (ab_ + cd_)) (a2 - b2 + c2 - d2) in
  let s1 := a2 + b2 + c2 + d2 in
  let s2 := fsqrt (fpowi (a2 - b2 + c2 - d2) 2 + fofZ 4 * fpowi (ab_ + cd_) 2) in
  let x := fsqrt (fhalf * (s1 + s2)) in
  let y := if x =? f0 then f0 else fmin (fabs (a * d - b * c) / x) x in
  (mkVec2 x y, angle).

Definition ellipse_as_arc (e : Ellipse T) : Arc T :=
  let rr := svd_stable (el_inner e) in
  mkArc (ellipse_center e) (fst rr) f0 two_pi (snd rr).

Definition ellipse_path_elements (e : Ellipse T) (tolerance : T) : list (PathEl T) :=
  arc_path_elements (ellipse_as_arc e) tolerance.

(** [Ellipse::new] = private_new: translate(center) * rotate(x_rotation) * scale_non_uniform(|rx|, |ry|) *)
Definition ellipse_new (center : Point T) (radii : Vec2 T) (x_rotation : T) : Ellipse T :=
  mkEllipse (aff_mul (aff_mul (aff_translate (to_vec2 center)) (aff_rotate x_rotation))
                     (aff_scale_non_uniform (fabs (vx radii)) (fabs (vy radii)))).

(** ** CircleSegment (circle.rs 326-348) *)
Definition point_on_circle (center : Point T) (radius angle : T) : Point T :=
  let angle_sin := fsin angle in
  let angle_cos := fcos angle in
  pt_add_v center (mkVec2 (angle_cos * radius) (angle_sin * radius)).

Definition cs_outer_arc (s : CircleSegment T) : Arc T :=
  mkArc (cs_center s) (mkVec2 (cs_outer_radius s) (cs_outer_radius s)) (cs_start_angle s) (cs_sweep_angle s) f0.

Definition cs_inner_arc (s : CircleSegment T) : Arc T :=
  mkArc (cs_center s) (mkVec2 (cs_inner_radius s) (cs_inner_radius s))
        (cs_start_angle s + cs_sweep_angle s) (- cs_sweep_angle s) f0.

Definition circle_segment_path_elements (s : CircleSegment T) (tolerance : T) : list (PathEl T) :=
  MoveTo (point_on_circle (cs_center s) (cs_inner_radius s) (cs_start_angle s))
  :: LineTo (point_on_circle (cs_center s) (cs_outer_radius s) (cs_start_angle s))
  :: arc_append_elements (cs_outer_arc s) tolerance
  ++ LineTo (point_on_circle (cs_center s) (cs_inner_radius s) (cs_start_angle s + cs_sweep_angle s))
  :: arc_append_elements (cs_inner_arc s) tolerance.

(** ** RoundedRect (rounded_rect.rs) *)
Definition radii_abs (r : RoundedRectRadii T) : RoundedRectRadii T :=
  mkRadii (fabs (r_top_left r)) (fabs (r_top_right r)) (fabs (r_bottom_right r)) (fabs (r_bottom_left r)).
Definition radii_clamp (r : RoundedRectRadii T) (mx : T) : RoundedRectRadii T :=
  mkRadii (fmin (r_top_left r) mx) (fmin (r_top_right r) mx) (fmin (r_bottom_right r) mx) (fmin (r_bottom_left r) mx).

(* RoundedRect::from_rect *)
Definition rounded_rect_from_rect (rect : Rect T) (radii : RoundedRectRadii T) : RoundedRect T :=
  let rect := rect_abs rect in
  let shortest_side_length := fmin (rect_width rect) (rect_height rect) in
  let radii := radii_clamp (radii_abs radii) (shortest_side_length / f2) in
  mkRoundedRect rect radii.

(* build_arc_iter(i, center, radii): quarter arc number i *)
Definition rr_corner_arc (i : Z) (center : Point T) (radius : T) : Arc T :=
  mkArc center (mkVec2 radius radius) (frac_pi_2 * fofZ i) frac_pi_2 f0.

Definition rr_arcs (rr : RoundedRect T) : list (Arc T) :=
  let r := rr_rect rr in
  let radii := rr_radii rr in
  [ rr_corner_arc 2 (mkPoint (rx0 r + r_top_left radii) (ry0 r + r_top_left radii)) (r_top_left radii);
    rr_corner_arc 3 (mkPoint (rx1 r - r_top_right radii) (ry0 r + r_top_right radii)) (r_top_right radii);
    rr_corner_arc 0 (mkPoint (rx1 r - r_bottom_right radii) (ry1 r - r_bottom_right radii)) (r_bottom_right radii);
    rr_corner_arc 1 (mkPoint (rx0 r + r_bottom_left radii) (ry1 r - r_bottom_left radii)) (r_bottom_left radii) ].

(** the five elements of the inner [RectPathIter] (rounded_rect.rs 363) *)
Definition rr_rect_elements (rr : RoundedRect T) : list (PathEl T) :=
  let r := rr_rect rr in
  let radii := rr_radii rr in
  [ MoveTo (mkPoint (rx0 r) (ry0 r + r_top_left radii));
    LineTo (mkPoint (rx1 r - r_top_right radii) (ry0 r));
    LineTo (mkPoint (rx1 r) (ry1 r - r_bottom_right radii));
    LineTo (mkPoint (rx0 r + r_bottom_left radii) (ry1 r));
    ClosePath ].

(** [RoundedRectPathIter::next] run to exhaustion: rect element, then arc k until it is
    exhausted, then the next rect element, ... *)
Fixpoint rr_interleave (rect_els : list (PathEl T)) (arcs : list (list (PathEl T))) : list (PathEl T) :=
  match rect_els with
  | [] => []
  | e :: rest =>
      match arcs with
      | [] => [e]                      (* idx > 4 after the fifth rect element: the iterator stops *)
      | a :: arcs' => e :: a ++ rr_interleave rest arcs'
      end
  end.

Definition rounded_rect_path_elements (rr : RoundedRect T) (tolerance : T) : list (PathEl T) :=
  rr_interleave (rr_rect_elements rr) (map (fun a => arc_append_elements a tolerance) (rr_arcs rr)).

(** ** shapes reproduced verbatim *)
Definition rect_path_elements (r : Rect T) : list (PathEl T) :=
  [ MoveTo (mkPoint (rx0 r) (ry0 r)); LineTo (mkPoint (rx1 r) (ry0 r));
    LineTo (mkPoint (rx1 r) (ry1 r)); LineTo (mkPoint (rx0 r) (ry1 r)); ClosePath ].

Definition triangle_path_elements (t : Triangle T) : list (PathEl T) :=
  [ MoveTo (tri_a t); LineTo (tri_b t); LineTo (tri_c t); ClosePath ].

Definition line_path_elements (l : Line T) : list (PathEl T) := [ MoveTo (l0 l); LineTo (l1 l) ].
Definition quad_path_elements (q : QuadBez T) : list (PathEl T) := [ MoveTo (q0 q); QuadTo (q1 q) (q2 q) ].
Definition cubic_path_elements (c : CubicBez T) : list (PathEl T) := [ MoveTo (c0 c); CurveTo (c1 c) (c2 c) (c3 c) ].
Definition seg_path_elements (s : PathSeg T) : list (PathEl T) :=
  match s with
  | SegLine l => line_path_elements l
  | SegQuad q => quad_path_elements q
  | SegCubic c => cubic_path_elements c
  end.

(** [Shape::path_segments] = [segments(path_elements)] *)
Definition path_segments_of (els : list (PathEl T)) : option (list (PathSeg T)) := segments els.

End ShapePaths.
