(** Extrema and bounding boxes (property C08). Generic over the scalar; definitions only.
    Every function mirrors the Rust code operation by operation.

      quad_extrema          quadbez.rs   impl ParamCurveExtrema for QuadBez :: extrema (352-373)
      cubic_one_coord       cubicbez.rs  fn one_coord nested in CubicBez::extrema (697-708)
      cubic_one_coord_lifted  NOT the code: one_coord after proposed_fixes/C08-tiny-derivative.diff (witness of
                            known finding C08-tiny-derivative only)
      cubic_extrema         cubicbez.rs  impl ParamCurveExtrema for CubicBez :: extrema (695-715)
      line_extrema          line.rs      impl ParamCurveExtrema for Line (empty)
      seg_extrema           bezpath.rs   impl ParamCurveExtrema for PathSeg (912)
      extrema_ranges        param_curve.rs  ParamCurveExtrema::extrema_ranges (202)
      bbox_of / *_bounding_box   param_curve.rs  ParamCurveExtrema::bounding_box (214-220)
      segs_bounding_box     bezpath.rs   Segments::bounding_box (824)
      path_bounding_box     bezpath.rs   Shape::bounding_box for BezPath / &[PathEl]
      control_box           bezpath.rs   BezPath::control_box (375)

    Results of type [ArrayVec<f64, 4>] are [list T] in the order the array holds them; the
    capacity (a panic on the fifth push) is not part of the model: the theorems show the
    length never exceeds 4. *)

From Coq Require Import ZArith QArith List Bool Floats.
From KV Require Import Scalar Geom Curves Rect Path Solvers.
Import ListNotations.

Set Implicit Arguments.

Section Extrema.
Context {T : Type} `{Scalar T}.
Local Open Scope S_scope.

(** the test [t > 0.0 && t < 1.0] *)
Definition in_open01 (t : T) : bool := (t >? f0) && (t <? f1).

(** ** QuadBez::extrema *)
Definition quad_extrema (q : QuadBez T) : list T :=
  let d0 := pt_sub (q1 q) (q0 q) in
  let d1 := pt_sub (q2 q) (q1 q) in
  let dd := v_sub d1 d0 in
  let r1 :=
    if vx dd <>? f0 then
      let t := (- vx d0) / vx dd in
      if in_open01 t then [t] else []
    else [] in
  if vy dd <>? f0 then
    let t := (- vy d0) / vy dd in
    if in_open01 t then
      (* result.push(t); if result.len() == 2 && result[0] > t { result.swap(0, 1) } *)
      match r1 with
      | [t0] => if t0 >? t then [t; t0] else [t0; t]
      | _ => r1 ++ [t]
      end
    else r1
  else r1.

(** ** CubicBez::extrema *)

(** the roots a solver returned, filtered as [one_coord]'s loop does *)
Definition extrema_filter (roots : list T) : list T := filter in_open01 roots.

(** the three coefficients [one_coord] hands to [solve_quadratic(c, b, a)] *)
Definition oc_a (d0 d1 d2 : T) : T := d0 - f2 * d1 + d2.
Definition oc_b (d0 d1 : T) : T := f2 * (d1 - d0).

(** [one_coord] (cubicbez.rs 697-708), literally *)
Definition cubic_one_coord (d0 d1 d2 : T) : list T :=
  extrema_filter (solve_quadratic d0 (oc_b d0 d1) (oc_a d0 d1 d2)).

(** Not the pinned code: [one_coord] as proposed_fixes/C08-tiny-derivative.diff would make it (only
    used by the witness of known finding C08-tiny-derivative).  The result should not depend on
    the magnitude of the control polygon, but [solve_quadratic] cannot form the reciprocal of a
    sub-normal leading coefficient (it overflows) and then solves the *linear* equation although
    the other coefficients are just as small; lifting a derivative whose coefficients are all
    below 1e-200 by 2^600 (an exact operation that does not move the roots) avoids that. *)
Definition oc_tiny : T := flit 0x1.87e92154ef7acp-665%float (Qmake 1 (10 ^ 200)).   (* 1e-200 *)
Definition oc_lift : T := flit 0x1p+600%float (Qmake (2 ^ 600) 1).                    (* 2^600 *)
Definition oc_scale (d0 d1 d2 : T) : T :=
  let m := fmax (fmax (fabs d0) (fabs d1)) (fabs d2) in
  if m <? oc_tiny then oc_lift else f1.

Definition cubic_one_coord_lifted (d0 d1 d2 : T) : list T :=
  let s := oc_scale d0 d1 d2 in
  cubic_one_coord (d0 * s) (d1 * s) (d2 * s).

(** [result.sort_by(|a, b| a.partial_cmp(b).unwrap())] on at most four values, none NaN (a NaN
    never passes the filter): a stable insertion sort (what the standard library runs on short
    slices; on a total order every stable sort returns the same list). *)
Fixpoint insert_sorted (x : T) (l : list T) : list T :=
  match l with
  | [] => [x]
  | y :: r => if x <? y then x :: y :: r else y :: insert_sorted x r
  end.
Definition sort_asc (l : list T) : list T := fold_left (fun acc x => insert_sorted x acc) l [].

Definition cubic_extrema (c : CubicBez T) : list T :=
  let d0 := pt_sub (c1 c) (c0 c) in
  let d1 := pt_sub (c2 c) (c1 c) in
  let d2 := pt_sub (c3 c) (c2 c) in
  sort_asc (cubic_one_coord (vx d0) (vx d1) (vx d2) ++ cubic_one_coord (vy d0) (vy d1) (vy d2)).

(** The same function with [solve_quadratic]'s "treat as linear eqn" block taken exactly when the
    leading coefficient is zero.  On binary64 a zero [c2] makes [c2.recip()] infinite and the scaled
    coefficients non-finite, so this is what the compiled code does (the correspondence check runs
    both this and [cubic_extrema] against the crate on the same inputs).  At the real instance
    ([x/0 = 0], everything finite) [solve_quadratic] never reaches that block, so the theorems
    about a zero leading coefficient are stated for this variant. *)
Definition cubic_one_coord_lin (d0 d1 d2 : T) : list T :=
  if oc_a d0 d1 d2 =? f0 then extrema_filter (quad_linear d0 (oc_b d0 d1))
  else cubic_one_coord d0 d1 d2.

Definition cubic_extrema_lin (c : CubicBez T) : list T :=
  let d0 := pt_sub (c1 c) (c0 c) in
  let d1 := pt_sub (c2 c) (c1 c) in
  let d2 := pt_sub (c3 c) (c2 c) in
  sort_asc (cubic_one_coord_lin (vx d0) (vx d1) (vx d2) ++ cubic_one_coord_lin (vy d0) (vy d1) (vy d2)).

(** ** Line, PathSeg *)
Definition line_extrema (l : Line T) : list T := [].

Definition seg_extrema (s : PathSeg T) : list T :=
  match s with
  | SegLine l => line_extrema l
  | SegQuad q => quad_extrema q
  | SegCubic c => cubic_extrema c
  end.

Definition seg_extrema_lin (s : PathSeg T) : list T :=
  match s with
  | SegLine l => line_extrema l
  | SegQuad q => quad_extrema q
  | SegCubic c => cubic_extrema_lin c
  end.

(** ** ParamCurveExtrema::extrema_ranges: [t0..t] for each extremum, then [t0..1.0] *)
Fixpoint ranges_from (t0 : T) (ts : list T) : list (T * T) :=
  match ts with
  | [] => [(t0, f1)]
  | t :: r => (t0, t) :: ranges_from t r
  end.
Definition extrema_ranges (ts : list T) : list (T * T) := ranges_from f0 ts.

(** ** ParamCurveExtrema::bounding_box *)
Definition bbox_of (p_start p_end : Point T) (ev : T -> Point T) (ex : list T) : Rect T :=
  fold_left (fun bb t => rect_union_pt bb (ev t)) ex (rect_from_points p_start p_end).

Definition quad_bounding_box (q : QuadBez T) : Rect T :=
  bbox_of (quad_start q) (quad_end q) (quad_eval q) (quad_extrema q).
Definition cubic_bounding_box (c : CubicBez T) : Rect T :=
  bbox_of (cubic_start c) (cubic_end c) (cubic_eval c) (cubic_extrema c).
(* Shape::bounding_box for Line: Rect::from_points(p0, p1) *)
Definition line_bounding_box (l : Line T) : Rect T := rect_from_points (l0 l) (l1 l).

(* ParamCurveExtrema::bounding_box(&PathSeg): start/end are the stored end points *)
Definition seg_bounding_box (s : PathSeg T) : Rect T :=
  bbox_of (seg_start s) (seg_end s) (seg_eval s) (seg_extrema s).
Definition seg_bounding_box_lin (s : PathSeg T) : Rect T :=
  bbox_of (seg_start s) (seg_end s) (seg_eval s) (seg_extrema_lin s).

(** ** Segments::bounding_box: union over the segments, [Rect::default()] when there are none *)
Definition rect_zero : Rect T := mkRect f0 f0 f0 f0.

Definition bbox_step (bb : option (Rect T)) (r : Rect T) : option (Rect T) :=
  match bb with
  | Some b => Some (rect_union b r)
  | None => Some r
  end.

Definition unwrap_or_default (o : option (Rect T)) : Rect T :=
  match o with Some b => b | None => rect_zero end.

Definition segs_bounding_box (segs : list (PathSeg T)) : Rect T :=
  unwrap_or_default (fold_left (fun bb s => bbox_step bb (seg_bounding_box s)) segs None).
Definition segs_bounding_box_lin (segs : list (PathSeg T)) : Rect T :=
  unwrap_or_default (fold_left (fun bb s => bbox_step bb (seg_bounding_box_lin s)) segs None).

(** Shape::bounding_box for BezPath / a slice of elements; [None] = the panic of [segments] on a
    leading ClosePath *)
Definition path_bounding_box (els : list (PathEl T)) : option (Rect T) :=
  match segments els with
  | Some segs => Some (segs_bounding_box segs)
  | None => None
  end.
Definition path_bounding_box_lin (els : list (PathEl T)) : option (Rect T) :=
  match segments els with
  | Some segs => Some (segs_bounding_box_lin segs)
  | None => None
  end.

(** ** BezPath::control_box *)
Definition el_points (e : PathEl T) : list (Point T) :=
  match e with
  | MoveTo p => [p]
  | LineTo p => [p]
  | QuadTo p1 p2 => [p1; p2]
  | CurveTo p1 p2 p3 => [p1; p2; p3]
  | ClosePath => []
  end.

Definition cbox_add (cb : option (Rect T)) (p : Point T) : option (Rect T) :=
  match cb with
  | Some b => Some (rect_union_pt b p)
  | None => Some (rect_from_points p p)
  end.

Definition control_box (els : list (PathEl T)) : Rect T :=
  unwrap_or_default
    (fold_left (fun cb e => fold_left cbox_add (el_points e) cb) els None).

(** the control points of a segment *)
Definition seg_points (s : PathSeg T) : list (Point T) :=
  match s with
  | SegLine l => [l0 l; l1 l]
  | SegQuad q => [q0 q; q1 q; q2 q]
  | SegCubic c => [c0 c; c1 c; c2 c; c3 c]
  end.

End Extrema.
