(** [ParamCurveNearest::nearest] for lines, quadratics, cubics and [PathSeg] (C09).

      line_nearest           line.rs      161-175  impl ParamCurveNearest for Line
      nr_eval_t, nr_try_t    quadbez.rs   300-319  the two local helper functions
      quad_nearest_coeffs    quadbez.rs   320-326  coefficients of the critical-point cubic
      quad_nearest           quadbez.rs   299-346  impl ParamCurveNearest for QuadBez
                             (= quad_nearest_with solve_cubic)
      nr_quads_count         cubicbez.rs  78-97    CubicBez::to_quads (the piece count)
      nr_quads_piece         cubicbez.rs  735-757  ToQuads::next (piece [i] of [n])
      cubic_nearest          cubicbez.rs  672-689  impl ParamCurveNearest for CubicBez
                             (= cubic_nearest_with quad_nearest)
      seg_nearest            bezpath.rs   902-910  impl ParamCurveNearest for PathSeg

    The result [Nearest { distance_sq, t }] is the pair [(t, distance_sq)].  [r_best.unwrap()]
    / [best_r.unwrap()] on [None] (a panic) is the result [None]; it is proved unreachable
    ([quad_nearest_total] in C09_proofs.v).

    Generic over the scalar, same order of floating-point operations as the Rust code.
    Definitions only.  ([to_quads] is also modelled by the C17 work in ToQuads.v; the few
    lines needed here are kept under this file's own names so that the two developments
    build independently; both are tied to the code by their own correspondence groups.) *)

From Coq Require Import ZArith QArith List Bool Floats.
From KV Require Import Scalar Geom Curves Solvers.
Import ListNotations.

Set Implicit Arguments.

Section Nearest.
Context {T : Type} `{Scalar T}.
Local Open Scope S_scope.

(** ** Line::nearest *)
Definition line_nearest (l : Line T) (p : Point T) : T * T :=
  let d := pt_sub (l1 l) (l0 l) in
  let dotp := v_dot d (pt_sub p (l0 l)) in
  let d_squared := v_dot d d in
  if dotp <=? f0 then (f0, v_hypot2 (pt_sub p (l0 l)))
  else if dotp >=? d_squared then (f1, v_hypot2 (pt_sub p (l1 l)))
  else
    let t := dotp / d_squared in
    (t, v_hypot2 (pt_sub p (line_eval l t))).

(** ** QuadBez::nearest *)

(* the pair of [&mut] variables ([t_best], [r_best]) *)
Definition nr_state : Type := (T * option T)%type.
Definition nr_init : nr_state := (f0, None).

(* fn eval_t(p, t_best, r_best, t, p0): [p0] is the curve point, called [pc] here *)
Definition nr_eval_t (p : Point T) (st : nr_state) (t : T) (pc : Point T) : nr_state :=
  let r := v_hypot2 (pt_sub pc p) in
  match snd st with
  | Some r_best => if r <? r_best then (t, Some r) else st
  | None => (t, Some r)
  end.

(* fn try_t(q, p, t_best, r_best, t) -> bool: [true] = the end points are needed *)
Definition nr_try_t (q : QuadBez T) (p : Point T) (st : nr_state) (t : T) : bool * nr_state :=
  if negb ((f0 <=? t) && (t <=? f1)) then (true, st)
  else (false, nr_eval_t p st t (quad_eval q t)).

(* for &t in &roots { need_ends |= try_t(..) } *)
Fixpoint nr_try_roots (q : QuadBez T) (p : Point T) (roots : list T) (need_ends : bool) (st : nr_state)
  : bool * nr_state :=
  match roots with
  | [] => (need_ends, st)
  | t :: rest =>
      let '(ne, st') := nr_try_t q p st t in
      nr_try_roots q p rest (need_ends || ne) st'
  end.

(* (c0, c1, c2, c3): half the derivative of |q(t) - p|^2 is c0 + c1 t + c2 t^2 + c3 t^3 *)
Definition quad_nearest_coeffs (q : QuadBez T) (p : Point T) : T * T * T * T :=
  let d0 := pt_sub (q1 q) (q0 q) in
  let d1 := v_sub (v_add (to_vec2 (q0 q)) (to_vec2 (q2 q))) (s_scale_v f2 (to_vec2 (q1 q))) in
  let d := pt_sub (q0 q) p in
  let k0 := v_dot d d0 in
  let k1 := f2 * v_hypot2 d0 + v_dot d d1 in
  let k2 := f3 * v_dot d1 d0 in
  let k3 := v_hypot2 d1 in
  (k0, k1, k2, k3).

(* everything after [let roots = solve_cubic(..)] *)
Definition quad_nearest_from_roots (q : QuadBez T) (p : Point T) (roots : list T) : option (T * T) :=
  let need_ends0 := match roots with [] => true | _ :: _ => false end in
  let '(need_ends, st) := nr_try_roots q p roots need_ends0 nr_init in
  let st := if need_ends then nr_eval_t p (nr_eval_t p st f0 (q0 q)) f1 (q2 q) else st in
  match snd st with
  | Some r => Some (fst st, r)
  | None => None                       (* r_best.unwrap() *)
  end.

(* [nearest] with the cubic solver as a parameter (the theorems of C09 are stated for any
   root-complete solver); the code calls [solve_cubic] *)
Definition quad_nearest_with (solver : T -> T -> T -> T -> list T) (q : QuadBez T) (p : Point T)
  : option (T * T) :=
  let '(k0, k1, k2, k3) := quad_nearest_coeffs q p in
  quad_nearest_from_roots q p (solver k0 k1 k2 k3).

Definition quad_nearest (q : QuadBez T) (p : Point T) : option (T * T) :=
  quad_nearest_with solve_cubic q p.

(** ** QuadBez::nearest as repaired by proposed_fixes/C09-nearest-degenerate-quad.diff

    Two changes to the pinned code: (1) when [c3 <= EPSILON^2 * |d0|^2] ([d1] below the rounding
    error of [d0]: a uniformly parametrised straight line) the roots come from
    [solve_quadratic c0 c1 c2]; (2) every root is polished by up to four Newton steps on
    [c0 + t (c1 + t (c2 + t c3))], a step being accepted only if it decreases the residual.
    The solvers are parameters, as above. *)

Definition nr_eps2 : T := flit 0x1p-104%float (Qmake 1 (2 ^ 104)).     (* f64::EPSILON * f64::EPSILON *)

Definition nr_poly (k0 k1 k2 k3 t : T) : T := k0 + t * (k1 + t * (k2 + t * k3)).

(* for _ in 0..4 { ... } *)
Fixpoint nr_polish (n : nat) (k0 k1 k2 k3 t g : T) : T :=
  match n with
  | O => t
  | S n' =>
      let dg := k1 + t * (f2 * k2 + t * (f3 * k3)) in
      let t_new := t - g / dg in
      let g_new := nr_poly k0 k1 k2 k3 t_new in
      if negb (fabs g_new <? fabs g) then t
      else nr_polish n' k0 k1 k2 k3 t_new g_new
  end.

Definition nr_polish_root (k0 k1 k2 k3 t : T) : T :=
  nr_polish 4 k0 k1 k2 k3 t (nr_poly k0 k1 k2 k3 t).

Definition quad_nearest_repaired_with (scubic : T -> T -> T -> T -> list T) (squad : T -> T -> T -> list T)
           (q : QuadBez T) (p : Point T) : option (T * T) :=
  let '(k0, k1, k2, k3) := quad_nearest_coeffs q p in
  let d0 := pt_sub (q1 q) (q0 q) in
  let roots := if k3 <=? nr_eps2 * v_hypot2 d0 then squad k0 k1 k2 else scubic k0 k1 k2 k3 in
  quad_nearest_from_roots q p (map (nr_polish_root k0 k1 k2 k3) roots).

Definition quad_nearest_repaired (q : QuadBez T) (p : Point T) : option (T * T) :=
  quad_nearest_repaired_with solve_cubic solve_quadratic q p.

(** ** CubicBez::to_quads / ToQuads::next (what [CubicBez::nearest] iterates over) *)

Definition nr_432 : T := fofZ 432.
Definition nr_4 : T := fofZ 4.

(* n = ((err / max_hypot2).powf(1. / 6.0).ceil() as usize).max(1) *)
Definition nr_quads_count (c : CubicBez T) (accuracy : T) : Z :=
  let max_hypot2 := nr_432 * accuracy * accuracy in
  let p1x2 := v_sub (s_scale_v f3 (to_vec2 (c1 c))) (to_vec2 (c0 c)) in
  let p2x2 := v_sub (s_scale_v f3 (to_vec2 (c2 c))) (to_vec2 (c3 c)) in
  let err := v_hypot2 (v_sub p2x2 p1x2) in
  Z.max (fto_usize (fceil (fpowf (err / max_hypot2) one_sixth))) 1.

(* the quadratic standing for a cubic piece: same end points, control point ((3p1-p0)+(3p2-p3))/4 *)
Definition nr_quad_of_cubic (seg : CubicBez T) : QuadBez T :=
  let p1x2 := v_sub (s_scale_v f3 (to_vec2 (c1 seg))) (to_vec2 (c0 seg)) in
  let p2x2 := v_sub (s_scale_v f3 (to_vec2 (c2 seg))) (to_vec2 (c3 seg)) in
  mkQuad (c0 seg) (to_point (v_div (v_add p1x2 p2x2) nr_4)) (c3 seg).

Definition nr_quads_piece (c : CubicBez T) (n i : Z) : T * T * QuadBez T :=
  let t0 := fofZ i / fofZ n in
  let t1 := fofZ (i + 1) / fofZ n in
  (t0, t1, nr_quad_of_cubic (cubic_subsegment c t0 t1)).

(** ** CubicBez::nearest *)

(* one iteration of the loop body, given the piece and its nearest result *)
Definition nr_cubic_step (st : nr_state) (t0 t1 nt nd : T) : nr_state :=
  match snd st with
  | Some best_r => if nd <? best_r then (t0 + nt * (t1 - t0), Some nd) else st
  | None => (t0 + nt * (t1 - t0), Some nd)
  end.

(* [qn]: what answers [q.nearest(p, accuracy)] for a quadratic piece; the code uses [quad_nearest] *)
Fixpoint cubic_nearest_loop_with (qn : QuadBez T -> Point T -> option (T * T))
         (c : CubicBez T) (p : Point T) (n : Z) (is : list Z) (st : nr_state) : option nr_state :=
  match is with
  | [] => Some st
  | i :: rest =>
      let '(t0, t1, q) := nr_quads_piece c n i in
      match qn q p with
      | None => None
      | Some (nt, nd) => cubic_nearest_loop_with qn c p n rest (nr_cubic_step st t0 t1 nt nd)
      end
  end.

(* the loop for a given piece count [n] *)
Definition cubic_nearest_n_with (qn : QuadBez T -> Point T -> option (T * T))
           (c : CubicBez T) (p : Point T) (n : nat) : option (T * T) :=
  match cubic_nearest_loop_with qn c p (Z.of_nat n) (map Z.of_nat (seq 0 n)) nr_init with
  | Some (t, Some r) => Some (t, r)
  | _ => None                          (* best_r.unwrap() *)
  end.

Definition cubic_nearest_with (qn : QuadBez T -> Point T -> option (T * T))
           (c : CubicBez T) (p : Point T) (accuracy : T) : option (T * T) :=
  cubic_nearest_n_with qn c p (Z.to_nat (nr_quads_count c accuracy)).

Definition cubic_nearest_n (c : CubicBez T) (p : Point T) (n : nat) : option (T * T) :=
  cubic_nearest_n_with quad_nearest c p n.

Definition cubic_nearest (c : CubicBez T) (p : Point T) (accuracy : T) : option (T * T) :=
  cubic_nearest_with quad_nearest c p accuracy.

(** ** PathSeg::nearest *)
Definition seg_nearest (s : PathSeg T) (p : Point T) (accuracy : T) : option (T * T) :=
  match s with
  | SegLine l => Some (line_nearest l p)
  | SegQuad q => quad_nearest q p
  | SegCubic c => cubic_nearest c p accuracy
  end.

(** the repaired variants of [CubicBez::nearest] and the dispatch (only [q.nearest] changes) *)
Definition cubic_nearest_n_repaired (c : CubicBez T) (p : Point T) (n : nat) : option (T * T) :=
  cubic_nearest_n_with quad_nearest_repaired c p n.
Definition cubic_nearest_repaired (c : CubicBez T) (p : Point T) (accuracy : T) : option (T * T) :=
  cubic_nearest_with quad_nearest_repaired c p accuracy.
Definition seg_nearest_repaired (s : PathSeg T) (p : Point T) (accuracy : T) : option (T * T) :=
  match s with
  | SegLine l => Some (line_nearest l p)
  | SegQuad q => quad_nearest_repaired q p
  | SegCubic c => cubic_nearest_repaired c p accuracy
  end.

End Nearest.
