(** common.rs 21-108: the [define_float_funcs!] table that selects libm implementations of the
    float methods when the crate is built without [std].

    The table itself is *regenerated from the Rust source on every check* by
    tools/c19_gen.py (a small translator: it parses the macro definition and its invocation) and
    checked by [table_ok] below; this file holds the vocabulary: what an entry is, what each libm
    function computes, what each [f64] method of the standard library computes, and how the macro
    body calls libm. Definitions only. *)

From Coq Require Import ZArith List Bool String Ascii.
From KV Require Import Scalar.
Import ListNotations.
Local Open Scope string_scope.

(** one line [fn name(self, a: Ty, ...) -> Ret => l64/l32;] of the invocation *)
Record entry := mkEntry {
  e_name : string;                 (* the f64/f32 method being provided *)
  e_args : list (string * string); (* further arguments: (name, type) in declaration order *)
  e_ret : string;                  (* "Self" or "(Self, Self)" *)
  e_l64 : string;                  (* libm function used for f64 *)
  e_l32 : string                   (* libm function used for f32 *)
}.

(** how the macro body builds the call, as the translator found it in the source:
    [libm::$lname(self $(,$arg as _) * )] has [self] first and the arguments in declaration order *)
Record call_shape := mkShape {
  sh_self_first : bool;       (* the call starts with [self] *)
  sh_args_in_order : bool;    (* followed by the repetition [$(,$arg as _)], i.e. the arguments in declaration order *)
  sh_f64_uses_l64 : bool;     (* the f64 impl calls [$lname] *)
  sh_f32_uses_l32 : bool      (* the f32 impl calls [$lfname] *)
}.

(** the hand-written [signum] of the macro, as the translator found it:
    [if self.is_nan() { NAN } else { 1.0.copysign(self) }] *)
Record signum_shape := mkSignum {
  sg_nan_guard : bool;        (* tests [self.is_nan()] and returns NAN in that case *)
  sg_one_copysign_self : bool (* otherwise [1.0.copysign(self)] (magnitude 1, sign of self) *)
}.

Section Sem.
Context {T : Type} `{Scalar T}.
Local Open Scope S_scope.

(** C's [pow] restricted to what the crate asks of it: an integral exponent (that is what
    [powi] passes: [n as f64]) gives the integer power, for every base; otherwise [powf]. *)
Definition is_integral (y : T) : bool := feqb (ftrunc y) y.
Definition libm_pow (x y : T) : T :=
  if is_integral y
  then fpowi x (if fltb y f0 then (- fto_usize (fabs y))%Z else fto_usize (fabs y))
  else fpowf x y.

Definition flog2 (x : T) : T := fln x / fln f2.

(** what each libm (f64) function computes, arguments in C order; results as a list
    ([sincos] has two) *)
Definition libm_sem (f : string) (a : list T) : option (list T) :=
  match a with
  | [x] =>
      if String.eqb f "fabs" then Some [fabs x]
      else if String.eqb f "acos" then Some [facos x]
      else if String.eqb f "cbrt" then Some [fcbrt x]
      else if String.eqb f "ceil" then Some [fceil x]
      else if String.eqb f "cos" then Some [fcos x]
      else if String.eqb f "floor" then Some [ffloor x]
      else if String.eqb f "log" then Some [fln x]
      else if String.eqb f "log2" then Some [flog2 x]
      else if String.eqb f "round" then Some [fround x]
      else if String.eqb f "sin" then Some [fsin x]
      else if String.eqb f "sincos" then Some [fsin x; fcos x]
      else if String.eqb f "sqrt" then Some [fsqrt x]
      else if String.eqb f "tan" then Some [ftan x]
      else if String.eqb f "trunc" then Some [ftrunc x]
      else None
  | [x; y] =>
      if String.eqb f "atan2" then Some [fatan2 x y]          (* atan2(y, x): first argument is y *)
      else if String.eqb f "copysign" then Some [fcopysign x y]  (* magnitude of x, sign of y *)
      else if String.eqb f "hypot" then Some [fhypot x y]
      else if String.eqb f "pow" then Some [libm_pow x y]
      else None
  | [x; y; z] =>
      if String.eqb f "fma" then Some [ffma x y z]            (* x*y + z *)
      else None
  | _ => None
  end.

(** what the standard library's method of that name computes on [self :: args]
    ([powi]'s exponent is passed as an integral scalar) *)
Definition method_sem (m : string) (a : list T) : option (list T) :=
  match a with
  | [x] =>
      if String.eqb m "abs" then Some [fabs x]
      else if String.eqb m "acos" then Some [facos x]
      else if String.eqb m "cbrt" then Some [fcbrt x]
      else if String.eqb m "ceil" then Some [fceil x]
      else if String.eqb m "cos" then Some [fcos x]
      else if String.eqb m "floor" then Some [ffloor x]
      else if String.eqb m "ln" then Some [fln x]
      else if String.eqb m "log2" then Some [flog2 x]
      else if String.eqb m "round" then Some [fround x]
      else if String.eqb m "sin" then Some [fsin x]
      else if String.eqb m "sin_cos" then Some [fsin x; fcos x]
      else if String.eqb m "sqrt" then Some [fsqrt x]
      else if String.eqb m "tan" then Some [ftan x]
      else if String.eqb m "trunc" then Some [ftrunc x]
      else None
  | [x; y] =>
      if String.eqb m "atan2" then Some [fatan2 x y]          (* self.atan2(other) = atan2(self, other) *)
      else if String.eqb m "copysign" then Some [fcopysign x y]
      else if String.eqb m "hypot" then Some [fhypot x y]
      else if String.eqb m "powf" then Some [libm_pow x y]
      else if String.eqb m "powi" then
        (if is_integral y then Some [libm_pow x y] else None)
      else None
  | [x; y; z] =>
      if String.eqb m "mul_add" then Some [ffma x y z]        (* self.mul_add(a, b) = self*a + b *)
      else None
  | _ => None
  end.

Fixpoint lookup (t : list entry) (m : string) : option entry :=
  match t with
  | [] => None
  | e :: r => if String.eqb (e_name e) m then Some e else lookup r m
  end.

(** what the libm build computes for method [m] on [self :: args], given the table and the
    call shape found in the source *)
Definition backend_eval (sh : call_shape) (t : list entry) (m : string) (a : list T) : option (list T) :=
  match lookup t m with
  | None => None
  | Some e =>
      if negb (Nat.eqb (List.length a) (S (List.length (e_args e)))) then None
      else if sh_self_first sh && sh_args_in_order sh && sh_f64_uses_l64 sh
      then libm_sem (e_l64 e) a
      else None
  end.

End Sem.

(** the methods kurbo needs from the trait (every [f64] method of the libm class the crate calls) *)
Definition required_methods : list string :=
  ["abs"; "acos"; "atan2"; "cbrt"; "ceil"; "cos"; "copysign"; "floor"; "hypot"; "ln"; "log2";
   "mul_add"; "powi"; "powf"; "round"; "sin"; "sin_cos"; "sqrt"; "tan"; "trunc"].

(** the libm function (by its C name) that provides each method, and the method's signature *)
Definition spec_table : list entry :=
  [ mkEntry "abs" [] "Self" "fabs" "fabsf";
    mkEntry "acos" [] "Self" "acos" "acosf";
    mkEntry "atan2" [("other", "Self")] "Self" "atan2" "atan2f";
    mkEntry "cbrt" [] "Self" "cbrt" "cbrtf";
    mkEntry "ceil" [] "Self" "ceil" "ceilf";
    mkEntry "cos" [] "Self" "cos" "cosf";
    mkEntry "copysign" [("sign", "Self")] "Self" "copysign" "copysignf";
    mkEntry "floor" [] "Self" "floor" "floorf";
    mkEntry "hypot" [("other", "Self")] "Self" "hypot" "hypotf";
    mkEntry "ln" [] "Self" "log" "logf";
    mkEntry "log2" [] "Self" "log2" "log2f";
    mkEntry "mul_add" [("a", "Self"); ("b", "Self")] "Self" "fma" "fmaf";
    mkEntry "powi" [("n", "i32")] "Self" "pow" "powf";
    mkEntry "powf" [("n", "Self")] "Self" "pow" "powf";
    mkEntry "round" [] "Self" "round" "roundf";
    mkEntry "sin" [] "Self" "sin" "sinf";
    mkEntry "sin_cos" [] "(Self, Self)" "sincos" "sincosf";
    mkEntry "sqrt" [] "Self" "sqrt" "sqrtf";
    mkEntry "tan" [] "Self" "tan" "tanf";
    mkEntry "trunc" [] "Self" "trunc" "truncf" ].

Definition entry_sig_eqb (a b : entry) : bool :=
  String.eqb (e_name a) (e_name b)
  && Nat.eqb (List.length (e_args a)) (List.length (e_args b))
  && forallb (fun p => String.eqb (snd (fst p)) (snd (snd p))) (combine (e_args a) (e_args b))
  && String.eqb (e_ret a) (e_ret b)
  && String.eqb (e_l64 a) (e_l64 b)
  && String.eqb (e_l32 a) (e_l32 b).

(** the decision run on the table regenerated from the source: every required method is present
    exactly once, with the arity/types of the std method, mapped to the libm function of that
    meaning for f64 and to its [f]-suffixed sibling for f32; the call passes [self] first and the
    arguments in order; the hand-written signum has the std shape *)
Definition entry_ok (t : list entry) (m : string) : bool :=
  match lookup t m, lookup spec_table m with
  | Some e, Some s =>
      entry_sig_eqb e s
      && Nat.eqb (List.length (filter (fun e' => String.eqb (e_name e') m) t)) 1
  | _, _ => false
  end.

Definition table_ok (sh : call_shape) (sg : signum_shape) (t : list entry) : bool :=
  sh_self_first sh && sh_args_in_order sh && sh_f64_uses_l64 sh && sh_f32_uses_l32 sh
  && sg_nan_guard sg && sg_one_copysign_self sg
  && forallb (entry_ok t) required_methods.
