(** Record types of kurbo's closed-form shapes (circle.rs, ellipse.rs, arc.rs, rounded_rect.rs,
    rounded_rect_radii.rs, triangle.rs). Types only; shared by C10, C11, C12. *)

From Coq Require Import ZArith List Bool.
From KV Require Import Scalar Geom Rect Affine.

Set Implicit Arguments.

Section ShapeTypes.
Context {T : Type} `{Scalar T}.

Record Circle := mkCircle { ci_center : Point T; ci_radius : T }.

Record CircleSegment := mkCircleSegment {
  cs_center : Point T; cs_outer_radius : T; cs_inner_radius : T;
  cs_start_angle : T; cs_sweep_angle : T }.

(** [Ellipse { inner: Affine }]: the image of the unit circle *)
Record Ellipse := mkEllipse { el_inner : Affine T }.

Record Arc := mkArc {
  arc_center : Point T; arc_radii : Vec2 T;
  arc_start_angle : T; arc_sweep_angle : T; arc_x_rotation : T }.

Record RoundedRectRadii := mkRadii { r_top_left : T; r_top_right : T; r_bottom_right : T; r_bottom_left : T }.

Record RoundedRect := mkRoundedRect { rr_rect : Rect T; rr_radii : RoundedRectRadii }.

Record Triangle := mkTriangle { tri_a : Point T; tri_b : Point T; tri_c : Point T }.

End ShapeTypes.

Arguments Circle T : clear implicits.
Arguments CircleSegment T : clear implicits.
Arguments Ellipse T : clear implicits.
Arguments Arc T : clear implicits.
Arguments RoundedRectRadii T : clear implicits.
Arguments RoundedRect T : clear implicits.
Arguments Triangle T : clear implicits.
