(** Basic geometric value types of kurbo and their arithmetic
    (point.rs, vec2.rs, size.rs), generic over the scalar. Definitions only. *)

From Coq Require Import ZArith List Bool.
From KV Require Import Scalar.
Import ListNotations.

Set Implicit Arguments.

Section Geom.
Context {T : Type} `{Scalar T}.
Local Open Scope S_scope.

Record Point := mkPoint { px : T; py : T }.
Record Vec2 := mkVec2 { vx : T; vy : T }.
Record Size := mkSize { width : T; height : T }.

Definition to_vec2 (p : Point) : Vec2 := mkVec2 (px p) (py p).
Definition to_point (v : Vec2) : Point := mkPoint (vx v) (vy v).
Definition size_to_vec2 (s : Size) : Vec2 := mkVec2 (width s) (height s).
Definition vec2_to_size (v : Vec2) : Size := mkSize (vx v) (vy v).

(* impl Add<Vec2> for Point, Sub<Vec2> for Point, Sub<Point> for Point *)
Definition pt_add_v (p : Point) (v : Vec2) : Point := mkPoint (px p + vx v) (py p + vy v).
Definition pt_sub_v (p : Point) (v : Vec2) : Point := mkPoint (px p - vx v) (py p - vy v).
Definition pt_sub (p q : Point) : Vec2 := mkVec2 (px p - px q) (py p - py q).

(* Vec2 arithmetic *)
Definition v_add (a b : Vec2) : Vec2 := mkVec2 (vx a + vx b) (vy a + vy b).
Definition v_sub (a b : Vec2) : Vec2 := mkVec2 (vx a - vx b) (vy a - vy b).
Definition v_scale (a : Vec2) (s : T) : Vec2 := mkVec2 (vx a * s) (vy a * s).   (* Vec2 * f64 *)
Definition s_scale_v (s : T) (a : Vec2) : Vec2 := v_scale a s.                  (* f64 * Vec2 = other * self *)
Definition v_div (a : Vec2) (s : T) : Vec2 := v_scale a (f1 / s).   (* self * other.recip() *)
Definition v_neg (a : Vec2) : Vec2 := mkVec2 (- vx a) (- vy a).
Definition v_dot (a b : Vec2) : T := vx a * vx b + vy a * vy b.
Definition v_cross (a b : Vec2) : T := vx a * vy b - vy a * vx b.
Definition v_hypot2 (a : Vec2) : T := v_dot a a.
Definition v_hypot (a : Vec2) : T := fhypot (vx a) (vy a).
Definition v_turn_90 (a : Vec2) : Vec2 := mkVec2 (- vy a) (vx a).
Definition v_lerp (a b : Vec2) (t : T) : Vec2 := v_add a (s_scale_v t (v_sub b a)).

Definition pt_lerp (a b : Point) (t : T) : Point := to_point (v_lerp (to_vec2 a) (to_vec2 b) t).
Definition pt_midpoint (a b : Point) : Point :=
  mkPoint (fhalf * (px a + px b)) (fhalf * (py a + py b)).
Definition pt_distance_squared (a b : Point) : T := v_hypot2 (pt_sub a b).
Definition pt_distance (a b : Point) : T := v_hypot (pt_sub a b).

(* FloatExt::expand *)
Definition fexpand (x : T) : T := fcopysign (fceil (fabs x)) x.

Definition map_pt (f : T -> T) (p : Point) : Point := mkPoint (f (px p)) (f (py p)).
Definition map_v (f : T -> T) (p : Vec2) : Vec2 := mkVec2 (f (vx p)) (f (vy p)).
Definition map_sz (f : T -> T) (p : Size) : Size := mkSize (f (width p)) (f (height p)).

Definition pt_is_finite (p : Point) : bool := fis_finite (px p) && fis_finite (py p).
Definition pt_eqb (p q : Point) : bool := feqb (px p) (px q) && feqb (py p) (py q).

End Geom.

Arguments Point T : clear implicits.
Arguments Vec2 T : clear implicits.
Arguments Size T : clear implicits.
