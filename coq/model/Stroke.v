(** stroke.rs: the polyline stroker — [stroke_undashed] (214-271) on MoveTo/LineTo/ClosePath
    input, [StrokeCtx], [do_join] (364-423), [do_line] (425), [finish] (321), [finish_closed] (348),
    [square_cap] (289), [round_cap]/[round_join]/[round_join_rev] (273-287), [extend_reversed] (300),
    and the part of arc.rs they call ([Arc::append_iter], [ArcAppendIter::next], [sample_ellipse],
    [rotate_pt]). Generic over the scalar, same order of floating-point operations. Definitions only.

    Not modelled: QuadTo/CurveTo input ([do_cubic] -> [CubicOffset] -> [fit_to_bezpath], [do_linear]):
    the model returns [None] on such an element. Dashing is C13's model. *)

From Coq Require Import ZArith QArith List Bool Floats.
From KV Require Import Scalar Geom Curves Path Affine.
Import ListNotations.

Set Implicit Arguments.

Section Stroke.
Context {T : Type} `{Scalar T}.
Local Open Scope S_scope.

Inductive Join := JoinBevel | JoinMiter | JoinRound.
Inductive Cap := CapButt | CapSquare | CapRound.

(** [Stroke] without the dash fields. [sk_inner_pivot] is not a field of kurbo's [Stroke]: it selects
    between the join of the pinned code ([false]: both sides go straight to the new offset point) and
    the repaired join of proposed_fixes/C04-inner-join-pivot.diff ([true]: the side on the inside of
    the turn passes through the vertex first). The property needs the repaired join
    (C04_pinned_inner_join_refuted); the correspondence check runs the variant named in C04_corr.v. *)
Record StrokeStyle := mkStyle {
  sk_width : T; sk_join : Join; sk_miter_limit : T; sk_start_cap : Cap; sk_end_cap : Cap;
  sk_inner_pivot : bool }.

Record StrokeCtx := mkCtx {
  cx_output : list (PathEl T);
  cx_forward : list (PathEl T);
  cx_backward : list (PathEl T);
  cx_start_pt : Point T;
  cx_start_norm : Vec2 T;
  cx_start_tan : Vec2 T;
  cx_last_pt : Point T;
  cx_last_tan : Vec2 T;
  cx_join_thresh : T }.

Definition pt_origin : Point T := mkPoint f0 f0.
Definition v_zero : Vec2 T := mkVec2 f0 f0.

(** ** arc.rs *)

(* fn rotate_pt(pt, angle) *)
Definition rotate_pt (p : Vec2 T) (angle : T) : Vec2 T :=
  let angle_sin := fsin angle in
  let angle_cos := fcos angle in
  mkVec2 (vx p * angle_cos - vy p * angle_sin) (vx p * angle_sin + vy p * angle_cos).

(* fn sample_ellipse(radii, x_rotation, angle) *)
Definition sample_ellipse (radii : Vec2 T) (x_rotation angle : T) : Vec2 T :=
  let angle_sin := fsin angle in
  let angle_cos := fcos angle in
  let u := vx radii * angle_cos in
  let v := vy radii * angle_sin in
  rotate_pt (mkVec2 u v) x_rotation.

Definition frac_pi_2 : T := fpi / f2.

(* ArcAppendIter::next, iterated [n] times; each step yields the three control points of a CurveTo *)
Fixpoint arc_iter (n : nat) (center : Point T) (radii : Vec2 T) (x_rotation arm_len angle_step : T)
                  (p0 : Vec2 T) (angle0 : T) : list (Point T * Point T * Point T) :=
  match n with
  | O => []
  | S k =>
      let angle1 := angle0 + angle_step in
      let p1 := v_add p0 (s_scale_v arm_len (sample_ellipse radii x_rotation (angle0 + frac_pi_2))) in
      let p3 := sample_ellipse radii x_rotation angle1 in
      let p2 := v_sub p3 (s_scale_v arm_len (sample_ellipse radii x_rotation (angle1 + frac_pi_2))) in
      (pt_add_v center p1, pt_add_v center p2, pt_add_v center p3)
        :: arc_iter k center radii x_rotation arm_len angle_step p3 angle1
  end.

Definition c_1_1163 : T := flit 0x1.1dc5d63886595p+0%float (11163 # 10000).
Definition c_3_999999 : T := flit 0x1.fffff79c842fap+1%float (3999999 # 1000000).
Definition c_quarter : T := flit 0x1p-2%float (1 # 4).

(* Arc::append_iter: number of cubics and the iterator's constant fields *)
Definition arc_n (radii : Vec2 T) (sweep_angle tolerance : T) : T :=
  let scaled_err := fmax (vx radii) (vy radii) / tolerance in
  let n_err := fmax (fpowf (c_1_1163 * scaled_err) (f1 / fofZ 6)) c_3_999999 in
  fceil (n_err * fabs sweep_angle * (f1 / (f2 * fpi))).

(* Arc::to_cubic_beziers(tolerance, ...) of Arc { center, radii, start_angle, sweep_angle, x_rotation } *)
Definition arc_cubics (center : Point T) (radii : Vec2 T) (start_angle sweep_angle x_rotation tolerance : T)
  : list (Point T * Point T * Point T) :=
  let sign := fsignum sweep_angle in
  let n := arc_n radii sweep_angle tolerance in
  let angle_step := sweep_angle / n in
  let n_us := fto_usize n in
  let arm_len := (fofZ 4 / f3) * ftan (fabs (c_quarter * angle_step)) * sign in
  let p0 := sample_ellipse radii x_rotation start_angle in
  arc_iter (Z.to_nat n_us) center radii x_rotation arm_len angle_step p0 start_angle.

(** ** stroke.rs helpers *)

Definition curve_of (a : Affine T) (c : Point T * Point T * Point T) : PathEl T :=
  let '(p1, p2, p3) := c in CurveTo (aff_apply a p1) (aff_apply a p2) (aff_apply a p3).

(* fn round_join(out, tolerance, center, norm, angle): the elements pushed onto [out] *)
Definition round_join_els (tolerance : T) (center : Point T) (norm : Vec2 T) (angle : T) : list (PathEl T) :=
  let a := mkAffine (vx norm) (vy norm) (- vy norm) (vx norm) (px center) (py center) in
  map (curve_of a) (arc_cubics pt_origin (mkVec2 f1 f1) (fpi - angle) angle f0 tolerance).

(* fn round_join_rev *)
Definition round_join_rev_els (tolerance : T) (center : Point T) (norm : Vec2 T) (angle : T) : list (PathEl T) :=
  let a := mkAffine (vx norm) (vy norm) (vy norm) (- vx norm) (px center) (py center) in
  map (curve_of a) (arc_cubics pt_origin (mkVec2 f1 f1) (fpi - angle) angle f0 tolerance).

(* fn round_cap *)
Definition round_cap_els (tolerance : T) (center : Point T) (norm : Vec2 T) : list (PathEl T) :=
  round_join_els tolerance center norm fpi.

(* fn square_cap(out, close, center, norm) *)
Definition square_cap_els (close : bool) (center : Point T) (norm : Vec2 T) : list (PathEl T) :=
  let a := mkAffine (vx norm) (vy norm) (- vy norm) (vx norm) (px center) (py center) in
  [LineTo (aff_apply a (mkPoint f1 f1)); LineTo (aff_apply a (mkPoint (- f1) f1))]
  ++ (if close then [ClosePath] else [LineTo (aff_apply a (mkPoint (- f1) f0))]).

(* PathEl::end_point().unwrap(); ClosePath never occurs in forward/backward paths — the
   default [pt_origin] stands for the panic and is proved unreachable (C04_proofs: invariant) *)
Definition el_end_or (e : PathEl T) : Point T :=
  match el_end e with Some p => p | None => pt_origin end.

Definition last_end (els : list (PathEl T)) : Point T :=
  el_end_or (last els (MoveTo pt_origin)).

(* one iteration of extend_reversed's loop body: element [e] = elements[i], [e_prev] = elements[i-1] *)
Definition rev_el (e_prev e : PathEl T) : list (PathEl T) :=
  let e_end := el_end_or e_prev in
  match e with
  | LineTo _ => [LineTo e_end]
  | QuadTo p1 _ => [QuadTo p1 e_end]
  | CurveTo p1 p2 _ => [CurveTo p2 p1 e_end]
  | _ => []          (* unreachable!() *)
  end.

(* fn extend_reversed(out, elements): the elements pushed, for i = len-1 down to 1 *)
Fixpoint extend_reversed (els : list (PathEl T)) : list (PathEl T) :=
  match els with
  | e0 :: ((e1 :: _) as r) => extend_reversed r ++ rev_el e0 e1
  | _ => []
  end.

Definition tol_1e_3 : T := flit 0x1.0624dd2f1a9fcp-10%float (1 # 1000).

(* let scale = 0.5 * style.width / tan.hypot(); let norm = scale * Vec2::new(-tan.y, tan.x); *)
Definition left_norm (w : T) (tan : Vec2 T) : Vec2 T :=
  let scale := fhalf * w / v_hypot tan in
  s_scale_v scale (mkVec2 (- vy tan) (vx tan)).

(** ** StrokeCtx methods *)

(* fn finish(&mut self, style) *)
Definition finish (st : StrokeStyle) (c : StrokeCtx) : StrokeCtx :=
  let tolerance := tol_1e_3 in
  match cx_forward c with
  | [] => c
  | _ =>
      let out1 := cx_output c ++ cx_forward c in
      let back_els := cx_backward c in
      let return_p := last_end back_els in
      let d := pt_sub (cx_last_pt c) return_p in
      let out2 := out1 ++
        match sk_end_cap st with
        | CapButt => [LineTo return_p]
        | CapRound => round_cap_els tolerance (cx_last_pt c) d
        | CapSquare => square_cap_els false (cx_last_pt c) d
        end in
      let out3 := out2 ++ extend_reversed back_els in
      let out4 := out3 ++
        match sk_start_cap st with
        | CapButt => [ClosePath]
        | CapRound => round_cap_els tolerance (cx_start_pt c) (cx_start_norm c)
        | CapSquare => square_cap_els true (cx_start_pt c) (cx_start_norm c)
        end in
      mkCtx out4 [] [] (cx_start_pt c) (cx_start_norm c) (cx_start_tan c)
            (cx_last_pt c) (cx_last_tan c) (cx_join_thresh c)
  end.

(** what a join (not the first of a sub-path) appends to the forward and to the backward path;
    a pure function of the fields it reads: [last_pt], [last_tan], [join_thresh].
    The third component is a branch tag used only for statistics/theorems:
    0 skipped (below threshold), 1 bevel, 2 miter point on forward, 3 miter point on backward,
    4 miter test passed with cross = 0 (no point), 5 miter limit exceeded (bevel),
    6 round on forward, 7 round on backward *)
Definition join_els (st : StrokeStyle) (p0 : Point T) (ab : Vec2 T) (join_thresh : T) (tan0 : Vec2 T)
  : list (PathEl T) * list (PathEl T) * Z :=
  let tolerance := tol_1e_3 in
  let norm := left_norm (sk_width st) tan0 in
  let cd := tan0 in
  let cross := v_cross ab cd in
  let dot := v_dot ab cd in
  let hypot := fhypot cross dot in
  if (dot <=? f0) || (fabs cross >=? hypot * join_thresh) then
    (* repaired join only: if cross > 0.0 { backward.line_to(p0) } else if cross < 0.0 { forward.line_to(p0) } *)
    let piv_f := if sk_inner_pivot st then
                   (if cross >? f0 then [] else if cross <? f0 then [LineTo p0] else []) else [] in
    let piv_b := if sk_inner_pivot st then (if cross >? f0 then [LineTo p0] else []) else [] in
    let '(f, b, tag) :=
      match sk_join st with
      | JoinBevel => ([LineTo (pt_sub_v p0 norm)], [LineTo (pt_add_v p0 norm)], 1%Z)
      | JoinMiter =>
          if f2 * hypot <? (hypot + dot) * fpowi (sk_miter_limit st) 2 then
            let last_scale := fhalf * sk_width st / v_hypot ab in
            let last_norm := s_scale_v last_scale (mkVec2 (- vy ab) (vx ab)) in
            if cross >? f0 then
              let fp_last := pt_sub_v p0 last_norm in
              let fp_this := pt_sub_v p0 norm in
              let h := v_cross ab (pt_sub fp_this fp_last) / cross in
              let miter_pt := pt_sub_v fp_this (v_scale cd h) in
              ([LineTo miter_pt; LineTo (pt_sub_v p0 norm)], [LineTo (pt_add_v p0 norm)], 2%Z)
            else if cross <? f0 then
              let fp_last := pt_add_v p0 last_norm in
              let fp_this := pt_add_v p0 norm in
              let h := v_cross ab (pt_sub fp_this fp_last) / cross in
              let miter_pt := pt_sub_v fp_this (v_scale cd h) in
              ([LineTo (pt_sub_v p0 norm)], [LineTo miter_pt; LineTo (pt_add_v p0 norm)], 3%Z)
            else ([LineTo (pt_sub_v p0 norm)], [LineTo (pt_add_v p0 norm)], 4%Z)
          else ([LineTo (pt_sub_v p0 norm)], [LineTo (pt_add_v p0 norm)], 5%Z)
      | JoinRound =>
          let angle := fatan2 cross dot in
          if angle >? f0 then
            (round_join_els tolerance p0 norm angle, [LineTo (pt_add_v p0 norm)], 6%Z)
          else
            ([LineTo (pt_sub_v p0 norm)], round_join_rev_els tolerance p0 (v_neg norm) (- angle), 7%Z)
      end in
    (piv_f ++ f, piv_b ++ b, tag)
  else ([], [], 0%Z).

(* fn do_join(&mut self, style, tan0) *)
Definition do_join (st : StrokeStyle) (tan0 : Vec2 T) (c : StrokeCtx) : StrokeCtx :=
  let p0 := cx_last_pt c in
  match cx_forward c with
  | [] =>
      let norm := left_norm (sk_width st) tan0 in
      mkCtx (cx_output c) (cx_forward c ++ [MoveTo (pt_sub_v p0 norm)])
            (cx_backward c ++ [MoveTo (pt_add_v p0 norm)])
            (cx_start_pt c) norm tan0 (cx_last_pt c) (cx_last_tan c) (cx_join_thresh c)
  | _ =>
      let '(f, b, _) := join_els st p0 (cx_last_tan c) (cx_join_thresh c) tan0 in
      mkCtx (cx_output c) (cx_forward c ++ f) (cx_backward c ++ b)
            (cx_start_pt c) (cx_start_norm c) (cx_start_tan c) (cx_last_pt c) (cx_last_tan c)
            (cx_join_thresh c)
  end.

Definition set_last_tan (tan : Vec2 T) (c : StrokeCtx) : StrokeCtx :=
  mkCtx (cx_output c) (cx_forward c) (cx_backward c) (cx_start_pt c) (cx_start_norm c) (cx_start_tan c)
        (cx_last_pt c) tan (cx_join_thresh c).

(* fn do_line(&mut self, style, tangent, p1) *)
Definition do_line (st : StrokeStyle) (tangent : Vec2 T) (p1 : Point T) (c : StrokeCtx) : StrokeCtx :=
  let norm := left_norm (sk_width st) tangent in
  mkCtx (cx_output c) (cx_forward c ++ [LineTo (pt_sub_v p1 norm)])
        (cx_backward c ++ [LineTo (pt_add_v p1 norm)])
        (cx_start_pt c) (cx_start_norm c) (cx_start_tan c) p1 (cx_last_tan c) (cx_join_thresh c).

(* fn finish_closed(&mut self, style) *)
Definition finish_closed (st : StrokeStyle) (c : StrokeCtx) : StrokeCtx :=
  match cx_forward c with
  | [] => c
  | _ =>
      let c1 := do_join st (cx_start_tan c) c in
      let out1 := cx_output c1 ++ cx_forward c1 ++ [ClosePath] in
      let back_els := cx_backward c1 in
      let last_pt := last_end back_els in
      let out2 := out1 ++ [MoveTo last_pt] ++ extend_reversed back_els ++ [ClosePath] in
      mkCtx out2 [] [] (cx_start_pt c1) (cx_start_norm c1) (cx_start_tan c1)
            (cx_last_pt c1) (cx_last_tan c1) (cx_join_thresh c1)
  end.

(* the three statements of the LineTo / ClosePath arms: join, remember the tangent, line *)
Definition line_step (st : StrokeStyle) (tangent : Vec2 T) (p1 : Point T) (c : StrokeCtx) : StrokeCtx :=
  do_line st tangent p1 (set_last_tan tangent (do_join st tangent c)).

(** one iteration of the [for el in path] loop of [stroke_undashed];
    [None] = an element this model does not cover (QuadTo / CurveTo) *)
Definition stroke_step (st : StrokeStyle) (c : StrokeCtx) (el : PathEl T) : option StrokeCtx :=
  let p0 := cx_last_pt c in
  match el with
  | MoveTo p =>
      let c1 := finish st c in
      Some (mkCtx (cx_output c1) (cx_forward c1) (cx_backward c1) p (cx_start_norm c1) (cx_start_tan c1)
                  p (cx_last_tan c1) (cx_join_thresh c1))
  | LineTo p1 =>
      if pt_neb p1 p0 then Some (line_step st (pt_sub p1 p0) p1 c) else Some c
  | ClosePath =>
      let c1 := if pt_neb p0 (cx_start_pt c)
                then line_step st (pt_sub (cx_start_pt c) p0) (cx_start_pt c) c else c in
      Some (finish_closed st c1)
  | QuadTo _ _ => None
  | CurveTo _ _ _ => None
  end.

Fixpoint stroke_loop (st : StrokeStyle) (c : StrokeCtx) (els : list (PathEl T)) : option StrokeCtx :=
  match els with
  | [] => Some c
  | e :: r => match stroke_step st c e with Some c' => stroke_loop st c' r | None => None end
  end.

(* StrokeCtx { join_thresh: 2.0 * tolerance / style.width, ..StrokeCtx::default() } *)
Definition ctx_init (st : StrokeStyle) (tolerance : T) : StrokeCtx :=
  mkCtx [] [] [] pt_origin v_zero v_zero pt_origin v_zero (f2 * tolerance / sk_width st).

(** [stroke_undashed(path, style, tolerance, opts)] = [stroke] with an empty dash pattern *)
Definition stroke_undashed (els : list (PathEl T)) (st : StrokeStyle) (tolerance : T)
  : option (list (PathEl T)) :=
  match stroke_loop st (ctx_init st tolerance) els with
  | Some c => Some (cx_output (finish st c))
  | None => None
  end.

End Stroke.

Arguments StrokeStyle T : clear implicits.
Arguments StrokeCtx T : clear implicits.
