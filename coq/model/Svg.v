(** svg.rs: [SvgLexer] (279-411), [BezPath::from_svg] (105-246), [BezPath::write_to] (79-98),
    [SvgArc::is_straight_line] / [Arc::from_svg_arc] (413-504) and, from arc.rs,
    [Arc::append_iter] / [ArcAppendIter::next] / [sample_ellipse] / [rotate_pt] (72-183),
    which [from_svg] reaches through [Arc::to_cubic_beziers].

    Bytes are [Z] codes.  The lexer is a function from the remaining input (the suffix of the
    string starting at [ix]) to a result and the new remaining input; [unget] after a
    [get_byte] is "return the old suffix".

    Numbers: the Rust lexer only delimits a token and hands it to [str::parse::<f64>];
    printing uses [Display for f64].  Both are *section variables* here ([num_of], [show]);
    what is assumed about them is stated as hypotheses of the theorems that need it.
    [frem] is Rust's [%] on f64 (C fmod, an exact operation), which [Scalar] does not have.
    Generic over the scalar; definitions only. *)

From Coq Require Import ZArith QArith Floats List Bool.
From KV Require Import Scalar Geom Curves Path ShapeTypes.
Import ListNotations.

Set Implicit Arguments.

(** ** Byte classes *)
Local Open Scope Z_scope.
Definition is_ws (c : Z) : bool := (c =? 32) || (c =? 9) || (c =? 10) || (c =? 12) || (c =? 13).
Definition is_digit (c : Z) : bool := (48 <=? c) && (c <=? 57).
Definition is_lower (c : Z) : bool := (97 <=? c) && (c <=? 122).
Definition is_upper (c : Z) : bool := (65 <=? c) && (c <=? 90).
Definition is_sign (c : Z) : bool := (c =? 45) || (c =? 43).           (* '-' '+' *)
Definition is_e (c : Z) : bool := (c =? 101) || (c =? 69).             (* 'e' 'E' *)
Definition is_period (c : Z) : bool := c =? 46.
Definition is_comma (c : Z) : bool := c =? 44.
(** Two variants of the code are modelled: the tree as pinned ([pinned]) and the tree with the
    two repairs proposed_fixes/C16-plus-sign.diff and C16-smooth-ctrl.diff ([fixed]).
    [cfg_plus]: [get_cmd]'s "plausible number start" accepts '+'.
    [cfg_smooth]: S/s (T/t) reflect [last_ctrl] only when [last_cmd] is C/c/S/s (Q/q/T/t),
    and Z/z clears [last_ctrl].
    [cfg_arc] (proposed_fixes/C16-arc-degenerate.diff): [from_svg_arc] returns [None] when
    [sum_of_sq] is zero (pinned: [debug_assert!], i.e. a panic in debug builds and NaN in release
    builds), and an arc for which no cubic is produced becomes a line to the end point. *)
Record Cfg := mkCfg { cfg_plus : bool; cfg_smooth : bool; cfg_arc : bool }.
Definition pinned : Cfg := mkCfg false false false.
Definition fixed : Cfg := mkCfg true true true.

(** [get_cmd]'s "plausible number start": '-' '.' digit, and '+' after the repair *)
Definition number_start (plus : bool) (c : Z) : bool :=
  (c =? 45) || (plus && (c =? 43)) || (c =? 46) || is_digit c.

(** [SvgParseError]; [OutOfFuel] is not a Rust value: it marks exhaustion of the loop fuel of
    the model and is proved unreachable ([svg_total]). *)
Inductive SvgErr := Wrong | UnexpectedEof | UnknownCommand (c : Z) | UninitializedPath | OutOfFuel.
Inductive res (A : Type) := Ok (a : A) | Err (e : SvgErr).
Arguments Ok {A} a.
Arguments Err {A} e.

(** the command letters, upper-case codes *)
Inductive CmdKind := KM | KL | KH | KV | KC | KS | KQ | KT | KA | KZ.

Definition kind_letter (k : CmdKind) : Z :=
  match k with
  | KM => 77 | KL => 76 | KH => 72 | KV => 86 | KC => 67 | KS => 83 | KQ => 81 | KT => 84
  | KA => 65 | KZ => 90
  end.

Definition kind_of_upper (u : Z) : option CmdKind :=
  if u =? 77 then Some KM else if u =? 76 then Some KL else if u =? 72 then Some KH
  else if u =? 86 then Some KV else if u =? 67 then Some KC else if u =? 83 then Some KS
  else if u =? 81 then Some KQ else if u =? 84 then Some KT else if u =? 65 then Some KA
  else if u =? 90 then Some KZ else None.

(** the arm of [match c] in [from_svg] selected by byte [c] *)
Definition decode_cmd (c : Z) : option CmdKind :=
  kind_of_upper (if is_lower c then c - 32 else c).

(** [SvgLexer::skip_ws] *)
Fixpoint skip_ws (s : list Z) : list Z :=
  match s with
  | c :: r => if is_ws c then skip_ws r else s
  | [] => []
  end.

(** [SvgLexer::get_cmd]: [None] ends the command loop *)
Definition get_cmd (plus : bool) (last_cmd : Z) (s : list Z) : option (Z * list Z) :=
  match skip_ws s with
  | [] => None
  | c :: r =>
      if is_lower c || is_upper c then Some (c, r)
      else if negb (last_cmd =? 0) && number_start plus c then Some (last_cmd, c :: r)
      else None
  end.

(** the first loop of [get_number]: digits and at most one period.
    Result: consumed bytes, number of digits among them, remaining input. *)
Fixpoint scan_mant (seen_period : bool) (s : list Z) : list Z * nat * list Z :=
  match s with
  | c :: r =>
      if is_digit c then let '(t, n, r') := scan_mant seen_period r in (c :: t, S n, r')
      else if is_period c && negb seen_period then
        let '(t, n, r') := scan_mant true r in (c :: t, n, r')
      else ([], O, s)
  | [] => ([], O, [])
  end.

Fixpoint scan_digits (s : list Z) : list Z * list Z :=
  match s with
  | c :: r => if is_digit c then let '(t, r') := scan_digits r in (c :: t, r') else ([], s)
  | [] => ([], [])
  end.

(** the exponent part of [get_number] (349-367): consumed bytes and remaining input *)
Definition scan_exp (s : list Z) : res (list Z * list Z) :=
  match s with
  | c :: r =>
      if is_e c then
        match r with
        | [] => Err Wrong
        | c1 :: r1 =>
            let after_sign :=
              if is_sign c1 then
                match r1 with [] => None | c2 :: r2 => Some ([c1], c2, r2) end
              else Some ([], c1, r1) in
            match after_sign with
            | None => Err Wrong
            | Some (sg, d, r2) =>
                if is_digit d then let '(ds, r3) := scan_digits r2 in Ok (c :: sg ++ d :: ds, r3)
                else Err Wrong
            end
        end
      else Ok ([], s)
  | [] => Ok ([], [])
  end.

(** [get_number] up to the call of [parse]: the delimited token and the remaining input *)
Definition lex_number (s : list Z) : res (list Z * list Z) :=
  match skip_ws s with
  | [] => Err UnexpectedEof
  | c :: r =>
      let '(sg, s1) := if is_sign c then ([c], r) else ([], c :: r) in
      let '(m, n, s2) := scan_mant false s1 in
      match scan_exp s2 with
      | Err e => Err e
      | Ok (ex, s3) => if (0 <? Z.of_nat n) then Ok (sg ++ m ++ ex, s3) else Err Wrong
      end
  end.

(** [SvgLexer::opt_comma] *)
Definition opt_comma (s : list Z) : list Z :=
  match skip_ws s with
  | c :: r => if is_comma c then r else c :: r
  | [] => []
  end.

(** [SvgLexer::get_flag] *)
Definition get_flag (s : list Z) : res (bool * list Z) :=
  match skip_ws s with
  | [] => Err UnexpectedEof
  | c :: r => if c =? 48 then Ok (false, r) else if c =? 49 then Ok (true, r) else Err Wrong
  end.

Definition bind {A B} (x : res A) (f : A -> res B) : res B :=
  match x with Ok a => f a | Err e => Err e end.

Section Svg.
Context {T : Type} `{Scalar T}.
Local Open Scope S_scope.

(** [str::parse::<f64>] on a delimited token ([None] = parse error) *)
Variable num_of : list Z -> option T.
(** [Display for f64] *)
Variable show : T -> list Z.
(** Rust's [%] on f64 *)
Variable frem : T -> T -> T.
(** which variant of the code *)
Variable cfg : Cfg.

(** [SvgLexer::get_number] *)
Definition get_number (s : list Z) : res (T * list Z) :=
  bind (lex_number s) (fun '(tok, r) =>
    match num_of tok with Some x => Ok (x, r) | None => Err Wrong end).

(** [SvgLexer::get_number_pair] *)
Definition get_number_pair (s : list Z) : res (Point T * list Z) :=
  bind (get_number s) (fun '(x, s1) =>
  bind (get_number (opt_comma s1)) (fun '(y, s2) =>
  Ok (mkPoint x y, opt_comma s2))).

(** [SvgLexer::get_maybe_relative] *)
Definition get_maybe_relative (last_pt : Point T) (cmd : Z) (s : list Z) : res (Point T * list Z) :=
  bind (get_number_pair s) (fun '(pt, s1) =>
  Ok (if is_lower cmd then pt_add_v last_pt (to_vec2 pt) else pt, s1)).

(** ** Arcs: [SvgArc], [Arc::from_svg_arc], [Arc::append_iter] *)

Record SvgArc := mkSvgArc {
  sa_from : Point T; sa_to : Point T; sa_radii : Vec2 T; sa_x_rotation : T;
  sa_large_arc : bool; sa_sweep : bool }.

Definition lit_1em5 : T := flit 0x1.4f8b588e368f1p-17%float (1 # 100000).
Definition two_pi : T := f2 * fpi.

(** [SvgArc::is_straight_line] *)
Definition is_straight_line (a : SvgArc) : bool :=
  (fabs (vx (sa_radii a)) <=? lit_1em5) || (fabs (vy (sa_radii a)) <=? lit_1em5)
  || pt_eqb (sa_from a) (sa_to a).

(** the arithmetic of [Arc::from_svg_arc] up to the two unit vectors (F.6.5.1 - F.6.5.3), in the
    order of the Rust code *)
Record ArcCore := mkArcCore {
  ac_cos_phi : T; ac_sin_phi : T; ac_p : Vec2 T; ac_rf : T;
  ac_rx : T; ac_ry : T; ac_sum_of_sq : T; ac_coe : T; ac_tc : Vec2 T;
  ac_center : Point T; ac_start_v : Vec2 T; ac_end_v : Vec2 T }.

(** F.6.5.2 - F.6.5.3 and the two vectors, from the rotated half chord [p], the mid point [hs]
    and the (corrected) radii; [neg]: [large_arc == sweep] *)
Definition arc_geom (cos_phi sin_phi p_x p_y hs_x hs_y rx ry : T) (neg : bool)
  : T * T * Vec2 T * Point T * Vec2 T * Vec2 T :=
  let rxry := rx * ry in
  let rxpy := rx * p_y in
  let rypx := ry * p_x in
  let sum_of_sq := rxpy * rxpy + rypx * rypx in
  let sign_coe := if neg then - f1 else f1 in
  let coe := sign_coe * fsqrt (fabs ((rxry * rxry - sum_of_sq) / sum_of_sq)) in
  let tcx := coe * rxpy / ry in
  let tcy := (- coe) * rypx / rx in
  let center := mkPoint (cos_phi * tcx - sin_phi * tcy + hs_x) (sin_phi * tcx + cos_phi * tcy + hs_y) in
  let start_v := mkVec2 ((p_x - tcx) / rx) ((p_y - tcy) / ry) in
  let end_v := mkVec2 ((- p_x - tcx) / rx) ((- p_y - tcy) / ry) in
  (sum_of_sq, coe, mkVec2 tcx tcy, center, start_v, end_v).

(** F.6.6.2: radii too small for the chord are scaled up *)
Definition scale_radii (rx ry rf : T) : T * T :=
  if rf >? f1 then let scale := fsqrt rf in (rx * scale, ry * scale) else (rx, ry).

Definition svg_arc_core (a : SvgArc) : ArcCore :=
  let rx := fabs (vx (sa_radii a)) in
  let ry := fabs (vy (sa_radii a)) in
  let xr := frem (sa_x_rotation a) two_pi in
  let sin_phi := fsin xr in
  let cos_phi := fcos xr in
  let hd_x := (px (sa_from a) - px (sa_to a)) * fhalf in
  let hd_y := (py (sa_from a) - py (sa_to a)) * fhalf in
  let hs_x := (px (sa_from a) + px (sa_to a)) * fhalf in
  let hs_y := (py (sa_from a) + py (sa_to a)) * fhalf in
  let p_x := cos_phi * hd_x + sin_phi * hd_y in
  let p_y := (- sin_phi) * hd_x + cos_phi * hd_y in
  let rf := p_x * p_x / (rx * rx) + p_y * p_y / (ry * ry) in
  let '(rx, ry) := scale_radii rx ry rf in
  let '(sum_of_sq, coe, tc, center, start_v, end_v) :=
    arc_geom cos_phi sin_phi p_x p_y hs_x hs_y rx ry (Bool.eqb (sa_large_arc a) (sa_sweep a)) in
  mkArcCore cos_phi sin_phi (mkVec2 p_x p_y) rf rx ry sum_of_sq coe tc center start_v end_v.

(** the sweep angle from the two angles and the sweep flag *)
Definition sweep_of (sweep : bool) (start_angle end_angle : T) : T :=
  let sweep_angle := frem (end_angle - start_angle) two_pi in
  if sweep && (sweep_angle <? f0) then sweep_angle + two_pi
  else if negb sweep && (sweep_angle >? f0) then sweep_angle - two_pi
  else sweep_angle.

(** [Arc::from_svg_arc]; [safe]: with the repair of the degenerate case *)
Definition from_svg_arc (safe : bool) (a : SvgArc) : option (Arc T) :=
  if is_straight_line a then None else
  let c := svg_arc_core a in
  if safe && (ac_sum_of_sq c =? f0) then None else
  let start_angle := fatan2 (vy (ac_start_v c)) (vx (ac_start_v c)) in
  let sweep_angle := sweep_of (sa_sweep a) start_angle (fatan2 (vy (ac_end_v c)) (vx (ac_end_v c))) in
  Some (mkArc (ac_center c) (mkVec2 (ac_rx c) (ac_ry c)) start_angle sweep_angle (sa_x_rotation a)).

(** arc.rs [rotate_pt], [sample_ellipse] *)
Definition rotate_pt (pt : Vec2 T) (angle : T) : Vec2 T :=
  let s := fsin angle in let c := fcos angle in
  mkVec2 (vx pt * c - vy pt * s) (vx pt * s + vy pt * c).

Definition sample_ellipse (radii : Vec2 T) (x_rotation angle : T) : Vec2 T :=
  let s := fsin angle in let c := fcos angle in
  rotate_pt (mkVec2 (vx radii * c) (vy radii * s)) x_rotation.

Definition frac_pi_2 : T := fpi / f2.
Definition lit_1_1163 : T := flit 0x1.1dc5d63886595p+0%float (11163 # 10000).
Definition lit_3_999999 : T := flit 0x1.fffff79c842fap+1%float (3999999 # 1000000).
Definition lit_tenth : T := flit 0x1.999999999999ap-4%float (1 # 10).
Definition fquarter' : T := flit 0x1p-2%float (1 # 4).

(** the iterations of [ArcAppendIter::next]; [n] is the remaining count [self.n - self.idx] *)
Fixpoint arc_iter (n : nat) (center : Point T) (radii : Vec2 T) (x_rotation arm_len angle_step : T)
         (p0 : Vec2 T) (angle0 : T) : list (PathEl T) :=
  match n with
  | O => []
  | S k =>
      let angle1 := angle0 + angle_step in
      let p1 := v_add p0 (s_scale_v arm_len (sample_ellipse radii x_rotation (angle0 + frac_pi_2))) in
      let p3 := sample_ellipse radii x_rotation angle1 in
      let p2 := v_sub p3 (s_scale_v arm_len (sample_ellipse radii x_rotation (angle1 + frac_pi_2))) in
      CurveTo (pt_add_v center p1) (pt_add_v center p2) (pt_add_v center p3)
      :: arc_iter k center radii x_rotation arm_len angle_step p3 angle1
  end.

(** [Arc::append_iter] followed by running the iterator to its end ([to_cubic_beziers]) *)
Definition arc_n (a : Arc T) (tolerance : T) : T :=
  let scaled_err := fmax (vx (arc_radii a)) (vy (arc_radii a)) / tolerance in
  let n_err := fmax (fpowf (lit_1_1163 * scaled_err) (f1 / fofZ 6)) lit_3_999999 in
  fceil (n_err * fabs (arc_sweep_angle a) * (f1 / (f2 * fpi))).

Definition arc_cubics (a : Arc T) (tolerance : T) : list (PathEl T) :=
  let sign := fsignum (arc_sweep_angle a) in
  let n := arc_n a tolerance in
  let angle_step := arc_sweep_angle a / n in
  let arm_len := (fofZ 4 / f3) * ftan (fabs (fquarter' * angle_step)) * sign in
  let p0 := sample_ellipse (arc_radii a) (arc_x_rotation a) (arc_start_angle a) in
  arc_iter (Z.to_nat (fto_usize n)) (arc_center a) (arc_radii a) (arc_x_rotation a) arm_len angle_step
           p0 (arc_start_angle a).

(** [f64::to_radians]: multiplication by the constant [PI / 180.0] *)
Definition to_radians (x : T) : T := x * (fpi / fofZ 180).

(** what the [A]/[a] arm pushes onto the path *)
Definition arc_els (safe : bool) (from to : Point T) (radii : Point T) (x_rotation : T) (large sweep : bool)
  : list (PathEl T) :=
  match from_svg_arc safe (mkSvgArc from to (to_vec2 radii) x_rotation large sweep) with
  | Some arc =>
      match arc_cubics arc lit_tenth with
      | [] => if safe then [LineTo to] else []
      | els => els
      end
  | None => [LineTo to]
  end.

(** ** [BezPath::from_svg] *)

(** the variables of [from_svg]'s loop; [ps_started] is [!path.elements().is_empty()],
    the elements themselves are emitted step by step *)
Record PState := mkPState {
  ps_started : bool;
  ps_last_cmd : Z;
  ps_last_ctrl : option (Point T);
  ps_first_pt : Point T;
  ps_implicit : option (Point T);
  ps_last_pt : Point T }.

Definition origin : Point T := mkPoint f0 f0.
Definition ps_init : PState := mkPState false 0%Z None origin None origin.

Inductive StepRes :=
| SDone                                   (* [get_cmd] returned [None] *)
| SErr (e : SvgErr)
| SNext (st : PState) (emitted : list (PathEl T)) (rest : list Z).

(** [(2.0 * last_pt.to_vec2() - ctrl.to_vec2()).to_point()] *)
Definition reflect_ctrl (last_pt : Point T) (last_ctrl : option (Point T)) : Point T :=
  match last_ctrl with
  | Some ctrl => to_point (v_sub (s_scale_v f2 (to_vec2 last_pt)) (to_vec2 ctrl))
  | None => last_pt
  end.

(** the first control point of S/s ([cubic = true]) and T/t *)
Definition is_cs (c : Z) : bool := (c =? 99)%Z || (c =? 67)%Z || (c =? 115)%Z || (c =? 83)%Z.
Definition is_qt (c : Z) : bool := (c =? 113)%Z || (c =? 81)%Z || (c =? 116)%Z || (c =? 84)%Z.
Definition smooth_ctrl (cubic : bool) (last_cmd : Z) (last_pt : Point T) (last_ctrl : option (Point T)) : Point T :=
  if cfg_smooth cfg then
    match last_ctrl with
    | Some ctrl => if (if cubic then is_cs last_cmd else is_qt last_cmd)
                   then reflect_ctrl last_pt (Some ctrl) else last_pt
    | None => last_pt
    end
  else reflect_ctrl last_pt last_ctrl.

Definition step_bind {A} (x : res A) (f : A -> StepRes) : StepRes :=
  match x with Ok a => f a | Err e => SErr e end.

(** the body of the [while let Some(c) = lexer.get_cmd(last_cmd)] loop for command byte [c],
    [s1] being the input after [get_cmd] *)
Definition step_cmd (st : PState) (c : Z) (s1 : list Z) : StepRes :=
      let is_m := (c =? 109)%Z || (c =? 77)%Z in
      if negb is_m && negb (ps_started st) then SErr UninitializedPath else
      let pre := if is_m then [] else
                 match ps_implicit st with Some pt => [MoveTo pt] | None => [] end in
      let lp := ps_last_pt st in
      let fp := ps_first_pt st in
      let lc := ps_last_ctrl st in
      match decode_cmd c with
      | Some KM =>
          step_bind (get_maybe_relative lp c s1) (fun '(pt, s2) =>
            SNext (mkPState true (c - 1)%Z (Some pt) pt None pt) [MoveTo pt] s2)
      | Some KL =>
          step_bind (get_maybe_relative lp c s1) (fun '(pt, s2) =>
            SNext (mkPState true c (Some pt) fp None pt) (pre ++ [LineTo pt]) s2)
      | Some KH =>
          step_bind (get_number s1) (fun '(x, s2) =>
            let x := if (c =? 104)%Z then x + px lp else x in
            let pt := mkPoint x (py lp) in
            SNext (mkPState true c (Some pt) fp None pt) (pre ++ [LineTo pt]) (opt_comma s2))
      | Some KV =>
          step_bind (get_number s1) (fun '(y, s2) =>
            let y := if (c =? 118)%Z then y + py lp else y in
            let pt := mkPoint (px lp) y in
            SNext (mkPState true c (Some pt) fp None pt) (pre ++ [LineTo pt]) (opt_comma s2))
      | Some KQ =>
          step_bind (get_maybe_relative lp c s1) (fun '(p1, s2) =>
          step_bind (get_maybe_relative lp c s2) (fun '(p2, s3) =>
            SNext (mkPState true c (Some p1) fp None p2) (pre ++ [QuadTo p1 p2]) s3))
      | Some KT =>
          let p1 := smooth_ctrl false (ps_last_cmd st) lp lc in
          step_bind (get_maybe_relative lp c s1) (fun '(p2, s2) =>
            SNext (mkPState true c (Some p1) fp None p2) (pre ++ [QuadTo p1 p2]) s2)
      | Some KC =>
          step_bind (get_maybe_relative lp c s1) (fun '(p1, s2) =>
          step_bind (get_maybe_relative lp c s2) (fun '(p2, s3) =>
          step_bind (get_maybe_relative lp c s3) (fun '(p3, s4) =>
            SNext (mkPState true c (Some p2) fp None p3) (pre ++ [CurveTo p1 p2 p3]) s4)))
      | Some KS =>
          let p1 := smooth_ctrl true (ps_last_cmd st) lp lc in
          step_bind (get_maybe_relative lp c s1) (fun '(p2, s2) =>
          step_bind (get_maybe_relative lp c s2) (fun '(p3, s3) =>
            SNext (mkPState true c (Some p2) fp None p3) (pre ++ [CurveTo p1 p2 p3]) s3))
      | Some KA =>
          step_bind (get_number_pair s1) (fun '(radii, s2) =>
          step_bind (get_number s2) (fun '(xr, s3) =>
          let x_rotation := to_radians xr in
          step_bind (get_flag (opt_comma s3)) (fun '(large, s4) =>
          step_bind (get_flag (opt_comma s4)) (fun '(sweep, s5) =>
          step_bind (get_maybe_relative lp c (opt_comma s5)) (fun '(p, s6) =>
            SNext (mkPState true c (Some p) fp None p)
                  (pre ++ arc_els (cfg_arc cfg) lp p radii x_rotation large sweep) s6)))))
      | Some KZ =>
          SNext (mkPState true (ps_last_cmd st) (if cfg_smooth cfg then None else lc) fp (Some fp) fp)
                (pre ++ [ClosePath]) s1
      | None => SErr (UnknownCommand c)
      end.

(** one iteration of the loop *)
Definition step (st : PState) (s : list Z) : StepRes :=
  match get_cmd (cfg_plus cfg) (ps_last_cmd st) s with
  | None => SDone
  | Some (c, s1) => step_cmd st c s1
  end.

(** the command loop.  Every iteration that continues consumes at least one byte
    ([svg_consumes]), so [fuel = S (length s)] always suffices ([svg_total]). *)
Fixpoint parse_loop (fuel : nat) (st : PState) (s : list Z) : res (list (PathEl T)) :=
  match fuel with
  | O => Err OutOfFuel
  | S k =>
      match step st s with
      | SDone => Ok []
      | SErr e => Err e
      | SNext st' em s' =>
          match parse_loop k st' s' with
          | Ok els => Ok (em ++ els)
          | Err e => Err e
          end
      end
  end.

(** [BezPath::from_svg] *)
Definition from_svg (s : list Z) : res (list (PathEl T)) := parse_loop (S (length s)) ps_init s.

(** ** [BezPath::write_to] *)
Definition write_pt (p : Point T) : list Z := show (px p) ++ [44%Z] ++ show (py p).

Definition write_el (e : PathEl T) : list Z :=
  match e with
  | MoveTo p => 77%Z :: write_pt p
  | LineTo p => 76%Z :: write_pt p
  | QuadTo p1 p2 => 81%Z :: write_pt p1 ++ [32%Z] ++ write_pt p2
  | CurveTo p1 p2 p3 => 67%Z :: write_pt p1 ++ [32%Z] ++ write_pt p2 ++ [32%Z] ++ write_pt p3
  | ClosePath => [90%Z]
  end.

Fixpoint write_to (els : list (PathEl T)) : list Z :=
  match els with
  | [] => []
  | [e] => write_el e
  | e :: r => write_el e ++ [32%Z] ++ write_to r
  end.

End Svg.
