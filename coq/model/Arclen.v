(** Arc length and its inverse (property C03). Generic over the scalar; definitions only.
    Every function mirrors the Rust code operation by operation.

      line_arclen, line_inv_arclen      line.rs     impl ParamCurveArclen for Line (141-151)
      quad_arclen                       quadbez.rs  impl ParamCurveArclen for QuadBez::arclen (245-285)
      arclen_quadrature_core            cubicbez.rs fn arclen_quadrature_core (596-606)
      arclen_setup/est/choose/rec_vc    cubicbez.rs fn arclen_rec (608-648); hook CubicBez::verif_arclen_rec
      cubic_arclen                      cubicbez.rs impl ParamCurveArclen for CubicBez::arclen
      seg_arclen, seg_inv_arclen        bezpath.rs  impl ParamCurveArclen for PathSeg (874-890)
      itp_loop_st, solve_itp_st         common.rs   fn solve_itp (646-690) with a *stateful* closure
                                        (Solvers.v has the same loop for a pure closure; the loop body
                                        [itp_point] and [itp_n1_2] are shared with it)
      inv_arclen_default                param_curve.rs ParamCurveArclen::inv_arclen (98-123)
      segs_perimeter                    bezpath.rs  Segments::perimeter (809-811)

    The recursion of [arclen_rec] is on [rem] = 20 - depth (the code stops subdividing at
    depth >= 20), so it needs no fuel.  All cubic functions return the value together with the
    number of [arclen_rec] calls (the hook counter [kurbo::verif::work]); [inv_arclen_default]
    adds the number of ITP iterations, which tick the same counter. *)

From Coq Require Import ZArith QArith List Bool Floats.
From KV Require Import Scalar Geom Curves Path Solvers ArclenCoeffs.
Import ListNotations.

Set Implicit Arguments.

Section Arclen.
Context {T : Type} `{Scalar T}.
Local Open Scope S_scope.

(** ** literals *)
Definition al_quarter : T := flit 0x1p-2%float (1#4).
Definition al_mhalf : T := flit (-0x1p-1)%float (-1#2).                                   (* -0.5 *)
Definition al_m1 : T := fofZ (-1).
Definition al_4 : T := fofZ 4.
Definition al_5em4 : T := flit 0x1.0624dd2f1a9fcp-11%float (1#2000).                      (* 5e-4 *)
Definition al_q0 : T := flit 0x1.f8c62f97894ccp-2%float (492943519233745 # 1000000000000000).   (* 0.492943519233745 *)
Definition al_q1 : T := flit 0x1.b8a8d0f62f0bep-2%float (430331482911935 # 1000000000000000).   (* 0.430331482911935 *)
Definition al_q2 : T := flit 0x1.00757a8569046p-4%float (626120363218102 # 10000000000000000).  (* 0.0626120363218102 *)
Definition al_q3 : T := flit 0x1.c71c71c71c71cp-2%float (4444444444444444 # 10000000000000000). (* 0.4444444444444444 *)
Definition al_1em13 : T := flit 0x1.c25c268497682p-44%float (1 # 10000000000000).        (* 1e-13 *)
Definition al_1em14 : T := flit 0x1.6849b86a12b9bp-47%float (1 # 100000000000000).      (* 1e-14 *)
Definition al_2_25 : T := flit 0x1.2p+1%float (9#4).                                      (* 2.25 *)
Definition al_2_5em6 : T := flit 0x1.4f8b588e368f1p-19%float (1 # 400000).                (* 2.5e-6 *)
Definition al_3em2 : T := flit 0x1.eb851eb851eb8p-6%float (3 # 100).                      (* 3e-2 *)
Definition al_1_5em11 : T := flit 0x1.07e1fe91b0b7p-36%float (3 # 200000000000).          (* 1.5e-11 *)
Definition al_9em3 : T := flit 0x1.26e978d4fdf3bp-7%float (9 # 1000).                     (* 9e-3 *)
Definition al_3_5em16 : T := flit 0x1.9385c44dd7885p-52%float (7 # 20000000000000000).    (* 3.5e-16 *)
Definition al_3_5em3 : T := flit 0x1.cac083126e979p-9%float (7 # 2000).                   (* 3.5e-3 *)
Definition al_0_2 : T := flit 0x1.999999999999ap-3%float (1 # 5).                         (* 0.2 *)

(** ** the Gauss-Legendre tables (common.rs), from the generated raw data *)
Definition gl_tab (raw : gl_raw) : list (T * T) :=
  map (fun e => (flit (fst (fst e)) (snd (fst e)), flit (fst (snd e)) (snd (snd e)))) raw.
Definition gl8 : list (T * T) := gl_tab gl8_raw.              (* GAUSS_LEGENDRE_COEFFS_8 *)
Definition gl8_half : list (T * T) := gl_tab gl8_half_raw.    (* GAUSS_LEGENDRE_COEFFS_8_HALF *)
Definition gl16_half : list (T * T) := gl_tab gl16_half_raw.  (* GAUSS_LEGENDRE_COEFFS_16_HALF *)
Definition gl24_half : list (T * T) := gl_tab gl24_half_raw.  (* GAUSS_LEGENDRE_COEFFS_24_HALF *)

(** ** Line *)
Definition line_arclen (l : Line T) : T := v_hypot (pt_sub (l1 l) (l0 l)).
Definition line_inv_arclen (l : Line T) (s : T) : T := s / v_hypot (pt_sub (l1 l) (l0 l)).

(** ** QuadBez::arclen: closed form with the near-straight and sharp-kink fallbacks.
    [fixed = false] is the pinned code: [a < 5e-4 * c] and [sabc = (a + b + c).sqrt()].  It returns NaN
    for a zero-length quadratic (a = c = 0: 0 < 0 fails, then 0^(-1/2) = inf, 0 * inf) and whenever the
    rounded sum a + b + c (= |p2 - p1|^2 in exact arithmetic) comes out negative, which happens for
    p2 = p1 and p2 close to p1.  [fixed = true] is what the property requires and what
    proposed_fixes/C03-quad-arclen-degenerate.diff makes the code do: [a <= 5e-4 * c],
    [sabc = (a + b + c).max(0.0).sqrt()] and the kink test relative to the scale, [ba_c2 <= 1e-14 * c2]
    (the pinned absolute test [ba_c2 < 1e-13] lets the rounding noise of [ba_c2] through for
    collinear control points with large coordinates; the logarithm then sees 0 or a negative
    number and the result is -inf or NaN). *)
Inductive quad_branch := QStraight | QKink | QClosed.

Definition quad_arclen_gen (fixed : bool) (q : QuadBez T) : T * quad_branch :=
  let p0 := to_vec2 (q0 q) in let p1 := to_vec2 (q1 q) in let p2 := to_vec2 (q2 q) in
  let d2 := v_add (v_sub p0 (s_scale_v f2 p1)) p2 in
  let a := v_hypot2 d2 in
  let d1 := pt_sub (q1 q) (q0 q) in
  let c := v_hypot2 d1 in
  if (if fixed then a <=? al_5em4 * c else a <? al_5em4 * c) then
    let v0 := v_hypot (v_add (v_add (s_scale_v (- al_q0) p0) (s_scale_v al_q1 p1)) (s_scale_v al_q2 p2)) in
    let v1 := v_hypot (v_scale (pt_sub (q2 q) (q0 q)) al_q3) in
    let v2 := v_hypot (v_add (v_sub (s_scale_v (- al_q2) p0) (s_scale_v al_q1 p1)) (s_scale_v al_q0 p2)) in
    (v0 + v1 + v2, QStraight)
  else
    let b := f2 * v_dot d2 d1 in
    let sabc := if fixed then fsqrt (fmax (a + b + c) f0) else fsqrt (a + b + c) in
    let a2 := fpowf a al_mhalf in
    let a32 := fpowi a2 3 in
    let c2 := f2 * fsqrt c in
    let ba_c2 := b * a2 + c2 in
    let v0 := al_quarter * a2 * a2 * b * (f2 * sabc - c2) + sabc in
    if (if fixed then ba_c2 <=? al_1em14 * c2 else ba_c2 <? al_1em13) then (v0, QKink)
    else
      (v0 + al_quarter * a32 * (al_4 * c * a - b * b)
            * fln (((f2 * a + b) * a2 + f2 * sabc) / ba_c2), QClosed).

Definition quad_arclen_b (q : QuadBez T) : T * quad_branch := quad_arclen_gen true q.
Definition quad_arclen (q : QuadBez T) : T := fst (quad_arclen_b q).
Definition quad_arclen_pinned (q : QuadBez T) : T := fst (quad_arclen_gen false q).

(** ** CubicBez: adaptive Gauss-Legendre quadrature *)

Definition arclen_quadrature_core (coeffs : list (T * T)) (dm dm1 dm2 : Vec2 T) : T :=
  sum_f (map (fun wx : T * T =>
                let (wi, xi) := wx in
                let d := v_add dm (v_scale dm2 (xi * xi)) in
                let dpx := v_hypot (v_add d (v_scale dm1 xi)) in
                let dmx := v_hypot (v_sub d (v_scale dm1 xi)) in
                (fsqrt al_2_25 * wi) * (dpx + dmx)) coeffs).

Record ArcDm := mkDm { a_dm : Vec2 T; a_dm1 : Vec2 T; a_dm2 : Vec2 T; a_lp_lc : T }.

(* the prologue of arclen_rec *)
Definition arclen_setup (c : CubicBez T) : ArcDm :=
  let d03 := pt_sub (c3 c) (c0 c) in
  let d01 := pt_sub (c1 c) (c0 c) in
  let d12 := pt_sub (c2 c) (c1 c) in
  let d23 := pt_sub (c3 c) (c2 c) in
  let lp_lc := v_hypot d01 + v_hypot d12 + v_hypot d23 - v_hypot d03 in
  let dd1 := v_sub d12 d01 in
  let dd2 := v_sub d23 d12 in
  let dm := v_add (s_scale_v al_quarter (v_add d01 d23)) (s_scale_v fhalf d12) in
  let dm1 := s_scale_v fhalf (v_add dd2 dd1) in
  let dm2 := s_scale_v al_quarter (v_sub dd2 dd1) in
  mkDm dm dm1 dm2 lp_lc.

(* [est]: the 8-point rule applied to |B''|^2 / |B'|^2 *)
Definition arclen_est (d : ArcDm) : T :=
  sum_f (map (fun wx : T * T =>
                let (wi, xi) := wx in
                wi * (let d_norm2 := v_hypot2 (v_add (v_add (a_dm d) (v_scale (a_dm1 d) xi))
                                                     (v_scale (a_dm2 d) (xi * xi))) in
                      let dd_norm2 := v_hypot2 (v_add (a_dm1 d) (v_scale (a_dm2 d) (f2 * xi))) in
                      dd_norm2 / d_norm2)) gl8).

Definition est8_error (d : ArcDm) (est : T) : T := fmin (fpowi est 3 * al_2_5em6) al_3em2 * a_lp_lc d.
Definition est16_error (d : ArcDm) (est : T) : T := fmin (fpowi est 6 * al_1_5em11) al_9em3 * a_lp_lc d.
Definition est24_error (d : ArcDm) (est : T) : T := fmin (fpowi est 9 * al_3_5em16) al_3_5em3 * a_lp_lc d.

Inductive rule := R8 | R16 | R24 | RSplit.

(* the decision cascade; [capped] is [depth >= 20] *)
Definition arclen_choose (d : ArcDm) (accuracy : T) (capped : bool) : rule :=
  let est := arclen_est d in
  if est8_error d est <? accuracy then R8
  else if est16_error d est <? accuracy then R16
  else if (est24_error d est <? accuracy) || capped then R24
  else RSplit.

Definition rule_table (r : rule) : list (T * T) :=
  match r with R8 => gl8_half | R16 => gl16_half | _ => gl24_half end.

Definition arclen_leaf (d : ArcDm) (r : rule) : T :=
  arclen_quadrature_core (rule_table r) (a_dm d) (a_dm1 d) (a_dm2 d).

(* arclen_rec at depth 20 - rem: (value, number of arclen_rec calls) *)
Fixpoint arclen_rec_vc (rem : nat) (c : CubicBez T) (accuracy : T) : T * Z :=
  let d := arclen_setup c in
  match arclen_choose d accuracy (match rem with O => true | S _ => false end) with
  | RSplit =>
      match rem with
      | O => (arclen_leaf d R24, 1%Z)        (* not reachable: capped *)
      | S rem' =>
          let (ca, cb) := cubic_subdivide c in
          let (va, na) := arclen_rec_vc rem' ca (accuracy * fhalf) in
          let (vb, nb) := arclen_rec_vc rem' cb (accuracy * fhalf) in
          (va + vb, (1 + na + nb)%Z)
      end
  | r => (arclen_leaf d r, 1%Z)
  end.

Definition arclen_rec (rem : nat) (c : CubicBez T) (accuracy : T) : T := fst (arclen_rec_vc rem c accuracy).
Definition arclen_rec_calls (rem : nat) (c : CubicBez T) (accuracy : T) : Z := snd (arclen_rec_vc rem c accuracy).

(* the hook: arclen_rec(c, accuracy, depth) *)
Definition arclen_rec_at_depth (c : CubicBez T) (accuracy : T) (depth : Z) : T * Z :=
  arclen_rec_vc (Z.to_nat (20 - depth)) c accuracy.

Definition cubic_arclen_vc (c : CubicBez T) (accuracy : T) : T * Z := arclen_rec_vc 20 c accuracy.
Definition cubic_arclen (c : CubicBez T) (accuracy : T) : T := fst (cubic_arclen_vc c accuracy).

(** ** PathSeg dispatch *)
Definition seg_arclen_vc (s : PathSeg T) (accuracy : T) : T * Z :=
  match s with
  | SegLine l => (line_arclen l, 0%Z)
  | SegQuad q => (quad_arclen q, 0%Z)
  | SegCubic c => cubic_arclen_vc c accuracy
  end.
Definition seg_arclen (s : PathSeg T) (accuracy : T) : T := fst (seg_arclen_vc s accuracy).

(** ** solve_itp with a stateful closure: [f st x = (st', f x)].
    Result: (root, final state, loop entries = ticks of the work counter); [None] = fuel exhausted *)
Section ITP.
Variable St : Type.
Variable f : St -> T -> St * T.

Fixpoint itp_loop_st (fuel : nat) (epsilon k1 : T) (st : St) (iters : Z) (a b ya yb scaled_epsilon : T)
  : option (T * St * Z) :=
  if b - a >? f2 * epsilon then
    match fuel with
    | O => None
    | S fuel' =>
        let x1_2 := fhalf * (a + b) in
        (* repair commit 75101ed: leave the loop when the midpoint is not strictly inside the bracket
           (adjacent floats); the work counter has already been ticked for this entry *)
        if (x1_2 <=? a) || (x1_2 >=? b) then Some (fhalf * (a + b), st, (iters + 1)%Z)
        else
        let xitp := itp_point a b k1 ya yb scaled_epsilon in
        let (st', yitp) := f st xitp in
        if yitp >? f0 then
          itp_loop_st fuel' epsilon k1 st' (iters + 1)%Z a xitp ya yitp (scaled_epsilon * fhalf)
        else if yitp <? f0 then
          itp_loop_st fuel' epsilon k1 st' (iters + 1)%Z xitp b yitp yb (scaled_epsilon * fhalf)
        else Some (xitp, st', (iters + 1)%Z)
    end
  else Some (fhalf * (a + b), st, iters).

(* nmax = n0.saturating_add(n1_2); scaled_epsilon = epsilon * 2^min(nmax, 1023) (repair commit 75101ed;
   before it [(1u64 << nmax) as f64], which overflows for nmax >= 64).  [None] = fuel exhausted. *)
Definition solve_itp_st (fuel : nat) (st : St) (a b epsilon : T) (n0 : Z) (k1 ya yb : T) : option (T * St * Z) :=
  let nmax := Z.min (n0 + itp_n1_2 a b epsilon) (2 ^ 64 - 1) in
  let scaled_epsilon := epsilon * fpowi f2 (Z.min nmax 1023) in
  itp_loop_st fuel epsilon k1 st 0%Z a b ya yb scaled_epsilon.
End ITP.

(** ** ParamCurveArclen::inv_arclen (provided method), for a PathSeg-level curve *)

(* the closure [f]: state = (t_last, arclen_last, arclen_rec calls so far) *)
Definition inv_f (s : PathSeg T) (inner_accuracy target : T) (st : T * T * Z) (t : T) : (T * T * Z) * T :=
  let '(t_last, arclen_last, w) := st in
  let '(t0, t1, dir) := if t >? t_last then (t_last, t, f1) else (t, t_last, al_m1) in
  let (arc, n) := seg_arclen_vc (seg_subsegment s t0 t1) inner_accuracy in
  let arclen_last' := arclen_last + arc * dir in
  ((t, arclen_last', (w + n)%Z), arclen_last' - target).

Inductive inv_branch := InvZero | InvOne | InvItp.

(* (t, work, branch) *)
Definition inv_arclen_default (fuel : nat) (s : PathSeg T) (arclen accuracy : T) : option (T * Z * inv_branch) :=
  if arclen <=? f0 then Some (f0, 0%Z, InvZero)
  else
    let (total_arclen, n0) := seg_arclen_vc s accuracy in
    if arclen >=? total_arclen then Some (f1, n0, InvOne)
    else
      let epsilon := accuracy / total_arclen in
      let n := f1 - fmin (fceil (sv_log2 epsilon)) f0 in
      let inner_accuracy := accuracy / n in
      match solve_itp_st (inv_f s inner_accuracy arclen) fuel (f0, f0, n0) f0 f1 epsilon 1 al_0_2
                         (- arclen) (total_arclen - arclen) with
      | Some (t, (_, _, w), iters) => Some (t, (w + iters)%Z, InvItp)
      | None => None
      end.

(* impl ParamCurveArclen for PathSeg: the line overrides inv_arclen *)
Definition seg_inv_arclen (fuel : nat) (s : PathSeg T) (arclen accuracy : T) : option T :=
  match s with
  | SegLine l => Some (line_inv_arclen l arclen)
  | _ => match inv_arclen_default fuel s arclen accuracy with
         | Some (t, _, _) => Some t
         | None => None
         end
  end.

(** ** Segments::perimeter *)
Definition segs_perimeter (segs : list (PathSeg T)) (accuracy : T) : T :=
  sum_f (map (fun s => seg_arclen s accuracy) segs).

(* BezPath::perimeter / Shape::perimeter for a path: [None] = the panic of [segments] *)
Definition path_perimeter (els : list (PathEl T)) (accuracy : T) : option T :=
  match segments els with
  | Some segs => Some (segs_perimeter segs accuracy)
  | None => None
  end.

End Arclen.
