(** C14 — Core algorithms terminate with finite results on every finite input.

    What is proved here, and what is not.  A Gallina model is a total function, so for every
    modelled machine "no panic, no stuck state, bounded work" is a theorem — provided the model's
    explicit fuel is shown sufficient, which is what the statements below do (or they state the
    bound under which it is).  The theorems are about the control structure:
      - the SVG parser, over every byte string;
      - [segments] (the only panic is the documented one);
      - the float midpoint recursion of [fit_to_bezpath_rec], ON BINARY64, for every source;
      - [arclen_rec], the flatten loops, [solve_itp], the dasher, [fit_inside];
      - the fixed-capacity result vectors of the solvers and of [extrema].
    What no theorem here reaches: that every NUMBER the stroker / offsetter / fitter produce is
    finite for every degenerate cubic.  That lives in float divisions by tangent lengths across
    stroke.rs / offset.rs / fit.rs, which are modelled only as skeletons; it is decided by the laws
    of harness/src/c14.rs (testing, with deterministic work counters), see docs/C14.md.

    Statements only.  [re-export] marks a theorem of another property, restated here because it is
    a termination claim; its tie to the code is that property's correspondence check. *)
From Coq Require Import ZArith Reals List Bool Floats Lia Lra.
From KV Require Import Scalar RInst F64 Geom Curves Path Totality Arclen Flatten FlattenSpec Solvers Extrema ToQuads
  Svg Dash DashSpec
  C14_proofs C14_capacity C14_float
  C16_parse C15_proofs C05_proofs C17_proofs C17_spline_proofs C13_proofs.
Import ListNotations.

(* ------------------------------------------------------------------------------------------ *)
(** * fit_to_bezpath_rec: the recursion guard [t == start || t == end]  (own) *)

(** On any "float line" — a scalar type whose relevant values [dom] are indexed by integers,
    with [==] deciding equality of indices and the computed midpoint [0.5 * (s + e)] lying between
    its arguments — the recursion ends whatever the source answers ([nofit] arbitrary): fuel
    (= depth) [d + 1] suffices, [d] the number of values from [s] to [e]; it makes at most
    [2 max(d,1) - 1] calls and emits at most [max(d,1)] segments. *)
Theorem C14_fit_rec_terminates_abstract :
  forall (T : Type) (S : Scalar T) (dom : T -> Prop) (idx : T -> Z),
  (forall a b, dom a -> dom b -> (feqb a b = true <-> idx a = idx b)) ->
  (forall s e, dom s -> dom e -> (idx s <= idx e)%Z -> dom (fit_mid s e)) ->
  (forall s e, dom s -> dom e -> (idx s <= idx e)%Z -> (idx s <= idx (fit_mid s e) <= idx e)%Z) ->
  forall (nofit : T -> T -> bool) fuel s e, dom s -> dom e -> (idx s <= idx e)%Z ->
  (Z.to_nat (idx e - idx s) < fuel)%nat ->
  exists n l, bisect fuel nofit s e = Some (n, l) /\
    (1 <= n <= 2 * Z.max (idx e - idx s) 1 - 1)%Z /\
    (1 <= length l)%nat /\ (Z.of_nat (length l) <= Z.max (idx e - idx s) 1)%Z.
Proof. intros T S. exact (@bisect_total T S). Qed.

(** ... and its depth is at most [max(d,1)] *)
Theorem C14_fit_rec_depth_abstract :
  forall (T : Type) (S : Scalar T) (dom : T -> Prop) (idx : T -> Z),
  (forall a b, dom a -> dom b -> (feqb a b = true <-> idx a = idx b)) ->
  (forall s e, dom s -> dom e -> (idx s <= idx e)%Z -> dom (fit_mid s e)) ->
  (forall s e, dom s -> dom e -> (idx s <= idx e)%Z -> (idx s <= idx (fit_mid s e) <= idx e)%Z) ->
  forall (nofit : T -> T -> bool) fuel s e, dom s -> dom e -> (idx s <= idx e)%Z ->
  (Z.to_nat (idx e - idx s) < fuel)%nat ->
  exists d, bisect_depth fuel nofit s e = Some d /\ (1 <= d)%nat /\ (Z.of_nat d <= Z.max (idx e - idx s) 1)%Z.
Proof. intros T S. exact (@bisect_depth_total T S). Qed.

(** Binary64 IS such a line on [0, 1]: every finite binary64 number is [idx x * 2^-1074] ... *)
Theorem C14_f64_index : forall x : PrimFloat.float, IZR (idx x) = (fval x * Raux.bpow Zaux.radix2 1074)%R.
Proof. exact idx_exact. Qed.

(** ... and for finite 0 <= s <= e <= 1 the midpoint as the code computes it (round (s + e), then
    round (0.5 * that)) is a finite number of [0, 1] between s and e.  Flocq, IEEE-754 binary64. *)
Theorem C14_f64_midpoint_between : forall s e : PrimFloat.float,
  unitf s -> unitf e -> (fval s <= fval e)%R ->
  unitf (fit_mid s e) /\ (fval s <= fval (fit_mid s e) <= fval e)%R.
Proof. exact mid_spec. Qed.

(** fit_rec_depth: on binary64 the recursion of fit_to_bezpath_rec over a sub-range of [0, 1] ends
    for EVERY source — also one that can never be fitted (NaN samples): there is a fuel for which
    the model answers, every larger fuel gives the same answer, and the number of calls is at most
    twice the number of binary64 values in the range.  (That number is astronomical for 0..1, about
    2^62: termination, not a practical bound; the depth along one chain is at most 1075, see the
    Example, and the harness's laws put a work budget on the real function.) *)
Theorem C14_fit_rec_depth : forall (nofit : PrimFloat.float -> PrimFloat.float -> bool) (s e : PrimFloat.float),
  unitf s -> unitf e -> (fval s <= fval e)%R ->
  exists fuel n l, bisect fuel nofit s e = Some (n, l) /\
    (1 <= n <= 2 * Z.max (idx e - idx s) 1 - 1)%Z /\ (1 <= length l)%nat /\
    forall j, bisect (fuel + j) nofit s e = Some (n, l).
Proof. exact bisect_f64_total. Qed.

Theorem C14_fit_rec_terminates_0_1 : forall nofit : PrimFloat.float -> PrimFloat.float -> bool,
  exists fuel n l, forall j, bisect (fuel + j) nofit 0%float 1%float = Some (n, l).
Proof. exact fit_recursion_terminates_f64. Qed.

(** the hypotheses are met: 0 and 1 are in the domain; and the depths of three chains, computed on
    the binary64 instance: towards the smallest subnormal 1075 levels, towards 1 - 2^-53 54 levels *)
Example C14_fit_rec_domain : unitf 0%float /\ unitf 1%float.
Proof. split; [exact unitf_0|exact unitf_1]. Qed.
Example C14_fit_rec_chain_depths :
  bisect_depth 1200 (marked [0x0.0000000000001p-1022%float]) 0%float 1%float = Some 1075%nat /\
  bisect_depth 1200 (marked [0x1.fffffffffffffp-1%float]) 0%float 1%float = Some 54%nat /\
  bisect_depth 1200 (marked [0x1.5555555555555p-2%float]) 0%float 1%float = Some 55%nat.
Proof. exact chain_depths. Qed.

(** Over the reals the guard never fires on a proper range (C18_fit_midpoint_collapse_real): there
    the recursion is bounded by the model's fuel only — the float statement above is the
    termination argument, not the real one. *)

(* ------------------------------------------------------------------------------------------ *)
(** * SVG parser  [re-export of C16_svg_consumes / C16_svg_total] *)

(** every iteration of [from_svg]'s loop that continues consumes at least one byte (and keeps the
    loop invariant), for every scalar, number parser and remainder function ... *)
Theorem C14_svg_consumes :
  forall (T : Type) (S : Scalar T) (num_of : list Z -> option T) (frem : T -> T -> T) (cfg : Cfg)
         st s st' em r,
  lcinv st -> Svg.step num_of frem cfg st s = SNext st' em r -> (List.length r < List.length s)%nat /\ lcinv st'.
Proof. exact @step_consumes. Qed.
(** ... so on EVERY byte string the parser returns Ok or one of its four errors after at most
    length + 1 iterations: the model's fuel is never exhausted *)
Theorem C14_svg_parse_total :
  forall (T : Type) (S : Scalar T) (num_of : list Z -> option T) (frem : T -> T -> T) (cfg : Cfg) s,
  from_svg num_of frem cfg s <> Err OutOfFuel.
Proof. exact @from_svg_total. Qed.

(* ------------------------------------------------------------------------------------------ *)
(** * segments  (own; model/Path.v is C07's) *)

(** [segments] / [BezPath::segments] panics exactly on a leading ClosePath ("Can't start a segment
    on a ClosePath"), for every element list and every scalar *)
Theorem C14_segments_no_panic_iff : forall (T : Type) (S : Scalar T) (els : list (PathEl T)),
  segments els = None <-> exists r, els = ClosePath :: r.
Proof. intros T S. exact (@segments_panic_iff T S). Qed.
Example C14_segments_instances :
  segments [MoveTo (mkPoint 0 0); ClosePath; LineTo (mkPoint 1 1)]%float <> None /\
  segments [ClosePath; MoveTo (mkPoint 0 0)]%float = None /\
  segments [LineTo (mkPoint 1 1)]%float <> None.
Proof. repeat split; vm_compute; discriminate. Qed.

(* ------------------------------------------------------------------------------------------ *)
(** * arclen_rec  (own; model/Arclen.v is C03's) *)

(** with [rem] levels left below the depth limit 20, [arclen_rec] is called at most 2^(rem+1) - 1
    times (at most 2^rem leaves): any scalar, any cubic, any accuracy — also NaN *)
Theorem C14_arclen_rec_calls : forall (T : Type) (S : Scalar T) rem (c : CubicBez T) acc,
  (1 <= snd (arclen_rec_vc rem c acc) <= 2 ^ (Z.of_nat rem + 1) - 1)%Z.
Proof. intros T S. exact (@arclen_rec_calls_bound T S). Qed.
Theorem C14_arclen_rec_leaves : forall (T : Type) (S : Scalar T) (c : CubicBez T) acc,
  (1 <= snd (cubic_arclen_vc c acc) <= 2097151)%Z.
Proof. intros T S. exact (@cubic_arclen_calls_bound T S). Qed.
Example C14_arclen_rec_instance :
  snd (cubic_arclen_vc (mkCubic (mkPoint 0 0) (mkPoint 1 2) (mkPoint 3 2) (mkPoint 4 0))%float 0x1p-20%float) = 1%Z.
Proof. vm_compute. reflexivity. Qed.

(* ------------------------------------------------------------------------------------------ *)
(** * flatten  (loop counts own; totality re-export of C05_flatten_total) *)

(** the QuadTo arm emits exactly n - 1 interior vertices, n = max(1, ceil(val / (2 sqrt tol)) as usize),
    fixed before the loop starts: any scalar (what n IS when val is NaN or huge is a law) *)
Theorem C14_flatten_quad_loop : forall (T : Type) (S : Scalar T) (q : QuadBez T) (sqrt_tol : T),
  length (flatten_quad_pts q sqrt_tol) =
  Z.to_nat (subdiv_count (fp_val (estimate_subdiv q sqrt_tol)) sqrt_tol - 1).
Proof. intros T S. exact (@flatten_quad_count T S). Qed.
(** the CurveTo arm: the first loop runs once per [to_quads] piece, and whenever the second loop
    returns it has emitted at most n vertices, n the count computed from the summed estimates *)
Theorem C14_flatten_cubic_loops : forall (T : Type) (S : Scalar T) (c : CubicBez T) (tol sqrt_tol : T) uss,
  length (cubic_quad_buf c tol sqrt_tol) = Z.to_nat (fl_to_quads_n c (fmul tol to_quad_tol)) /\
  (cubic_stage2_us (cubic_quad_buf c tol sqrt_tol) (sqrt_remain sqrt_tol) = Some uss ->
   (Z.of_nat (length (concat uss)) <= subdiv_count (fp_sum (cubic_quad_buf c tol sqrt_tol)) (sqrt_remain sqrt_tol))%Z).
Proof. intros T S c tol st uss. split; [apply (@cubic_quad_buf_count T S)|apply (@cubic_stage2_count T S)]. Qed.
(** [re-export] in exact arithmetic the second loop always returns (no "runaway"): flatten is total *)
Theorem C14_flatten_total : forall keep (tol : R) (els : list (PathEl R)),
  exists out, flatten_gen keep tol els = Some out /\ forallb is_flat_el out = true.
Proof. exact flatten_kinds_R. Qed.

(* ------------------------------------------------------------------------------------------ *)
(** * solve_itp  [re-export of C15_solve_itp_spec] *)

(** exact arithmetic, guards as in C15: the loop ends within nmax = n0 + n1_2 iterations *)
Theorem C14_itp_terminates : forall (fuel : nat) (f : R -> R) (a b eps k1 ya yb : R) (n0 : Z),
  (0 < eps)%R -> (a < b)%R -> (0 <= k1)%R -> (0 <= n0)%Z ->
  (ya < 0)%R -> (0 < yb)%R -> (f a < 0)%R -> (0 < f b)%R ->
  let nmax := (n0 + itp_n1_2 a b eps)%Z in
  (nmax < 64)%Z -> (Z.to_nat nmax <= fuel)%nat ->
  exists x, solve_itp fuel f a b eps n0 k1 ya yb = Some x /\ itp_post f eps a b x.
Proof. exact solve_itp_spec. Qed.
(** On binary64 the loop [while b - a > 2.0 * epsilon] does NOT always end: once a and b are
    adjacent numbers and 2 epsilon is below their distance nothing changes any more (finding
    C14-itp-stalled-bracket, reached from stroke() through inv_arclen).  The repaired loop stops
    when the midpoint is no longer strictly inside; by [C14_f64_midpoint_between] and
    [C14_fit_rec_terminates_abstract] that guard fires before the bracket stops shrinking. *)

(* ------------------------------------------------------------------------------------------ *)
(** * dasher  [re-export of C13's thm_terminates] *)

(** exact arithmetic, the dasher with C13's repairs, a pattern of lengths >= dm > 0: the iterator
    ends, and the number of iterations of [next]'s loop is at most 2 per emitted element + 5 per
    input element + 2 *)
Theorem C14_dash_next_terminates :
  forall ds dm (al : PathSeg R -> R) (ial : PathSeg R -> R -> R) o els fuel,
  pattern_ok ds dm -> (forall s, 0 <= al s)%R ->
  (0 <= o)%R -> (init_fuel dm o <= fuel)%nat -> fuel_ok al dm fuel els ->
  exists out n, dash_spec al ial ds fuel o els = Some out /\
    (n <= 2 * length out + 5 * length els + 2)%nat /\
    forall f, (fuel <= f)%nat -> (n <= f)%nat -> dash_gen al ial fixes_all ds f o els = DashOk out n.
Proof. exact thm_terminates. Qed.

(* ------------------------------------------------------------------------------------------ *)
(** * fixed-capacity result vectors  (own; any scalar, so also the binary64 run) *)

(** ArrayVec<f64, 2>, <f64, 3>, <f64, 4>, ArrayVec<f64, MAX_EXTREMA = 4>: a push never overflows *)
Theorem C14_arrayvec_capacity : forall (T : Type) (S : Scalar T),
  (forall a0 a1 a2 : T, (length (solve_quadratic a0 a1 a2) <= 2)%nat) /\
  (forall a0 a1 a2 a3 : T, (length (solve_cubic a0 a1 a2 a3) <= 3)%nat) /\
  (forall a0 a1 a2 a3 a4 : T, (length (solve_quartic a0 a1 a2 a3 a4) <= 4)%nat) /\
  (forall s : PathSeg T, (length (seg_extrema s) <= 4)%nat).
Proof.
  intros T S. repeat split; intros.
  - apply (@C14_capacity.solve_quadratic_len T S).
  - apply (@C14_capacity.solve_cubic_len T S).
  - apply (@C14_capacity.solve_quartic_len T S).
  - apply (@C14_capacity.seg_extrema_len T S).
Qed.
Example C14_arrayvec_capacity_reached :
  length (solve_quartic (T:=float) 24 (-50) 35 (-10) 1)%float = 4%nat /\
  length (solve_cubic (T:=float) (-6) 11 (-6) 1)%float = 3%nat /\
  length (solve_quadratic (T:=float) 2 (-3) 1)%float = 2%nat.
Proof. vm_compute. repeat split. Qed.

(* ------------------------------------------------------------------------------------------ *)
(** * to_quads, fit_inside  [re-exports of C17] *)

(** the iterator yields exactly [to_quads_count] items, a number fixed up front (any scalar) ... *)
Theorem C14_to_quads_count_finite : forall (T : Type) (S : Scalar T) (c : CubicBez T) (a : T),
  length (to_quads c a) = Z.to_nat (to_quads_count c a) /\ (1 <= to_quads_count c a)%Z.
Proof.
  intros T S c a. split.
  - unfold to_quads, to_quads_n. rewrite map_length, seq_length. reflexivity.
  - unfold to_quads_count. lia.
Qed.
(** ... which in exact arithmetic is the least n with err <= n^6 * 432 a^2 up to the ceiling *)
Theorem C14_to_quads_count_enough : forall (c : CubicBez R) (a : R), (0 < a)%R ->
  (to_quads_err c <= IZR (to_quads_count c a) ^ 6 * (432 * a * a))%R.
Proof. exact to_quads_count_enough. Qed.
(** [fit_inside]'s recursion is not bounded by anything in the source; once it answers, more
    depth gives the same answer (any scalar) *)
Theorem C14_fit_inside_fuel_irrelevant : forall (T : Type) (S : Scalar T) k j (c : CubicBez T) d b,
  fit_inside k c d = Some b -> fit_inside (k + j) c d = Some b.
Proof. intros T S. exact (@fit_inside_fuel_mono T S). Qed.

(* ------------------------------------------------------------------------------------------ *)
(** * regularize: the protection against zero tangents  (own) *)

(** exact arithmetic, dimension > 0, no cusp reported: either the straight-line fallback, or the end
    points are kept and the FIRST control arm is at least [dimension] long *)
Theorem C14_regularize_first_arm : forall (c : CubicBez R) (dim : R), (0 < dim)%R ->
  regularize c dim 0 = reg_line c \/
  (c0 (regularize c dim 0) = c0 c /\ c3 (regularize c dim 0) = c3 c /\
   (dim * dim <= dist2 (c0 (regularize c dim 0)) (c1 (regularize c dim 0)))%R).
Proof. exact regularize_first_arm. Qed.
(** the symmetric claim for the LAST arm is false: the source measures |p1 p2| where |p1 p3| is
    meant ([d13]), so p2 can stay much closer to p3 than [dimension] *)
Theorem C14_regularize_last_arm_refuted :
  exists (c : CubicBez R) (dim : R), (0 < dim)%R /\ regularize c dim 0 <> reg_line c /\
    (dist2 (c3 (regularize c dim 0)) (c2 (regularize c dim 0)) < dim * dim)%R.
Proof.
  exists short_arm_witness, 1%R. destruct regularize_last_arm_short as [H1 H2].
  split; [lra|]. split; [exact H1|]. rewrite H2. lra.
Qed.
