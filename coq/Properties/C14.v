From Coq Require Import ZArith List Bool.
From KV Require Import Scalar Geom Curves Totality C14_proofs.
Theorem C14_placeholder : True. Proof. exact c14_placeholder. Qed.
