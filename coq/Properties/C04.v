(** C04 — Stroke outline fills exactly the offset region of the path.
    Statements only. Model: coq/model/Stroke.v (the polyline stroker: [stroke_undashed] on
    MoveTo/LineTo/ClosePath, [do_join], [do_line], [finish], [finish_closed], caps, [extend_reversed],
    the join arc). Vocabulary: coq/spec/StrokeSpec.v.

    What is proved: the structure of the outline (for every scalar type, so also for binary64), and,
    at the real instance, the exact position of every vertex the polyline stroker emits: offsets at
    -/+ width/2 on a consistent side, joins on the outer side, the miter point, the caps, the radius
    bound for every vertex, the exact outline of a single segment.
    What is NOT proved ([C04_full], at the end): the region-level statement (non-zero fill = offset
    region) beyond one segment, and everything about curves (no model of [do_cubic]/[CubicOffset]/
    [fit_to_bezpath]); those are covered only by the laws sampled on the implementation.

    The join of the pinned code violates the property ([C04_pinned_inner_join_refuted]); the model has
    the repaired join behind [sk_inner_pivot]. All theorems below hold for both values of the flag. *)
From Coq Require Import ZArith Reals List Bool Lra.
From KV Require Import Scalar RInst F64 Geom Curves Path Affine Stroke StrokeSpec C04_proofs C04_round C04_region C04_pieces C04_polyregion C04_polyfill C04_polyclosed C04_fans C04_reach C04_multi C04_styles C04_witness.
Import ListNotations.
Local Open Scope R_scope.

(** ** structure *)

(** Every contour of the outline starts with MoveTo, draws, and ends with ClosePath — for every input
    made of MoveTo/LineTo/ClosePath (any history: leading LineTo, repeated points, LineTo after
    ClosePath, empty sub-paths), every style with a butt or square start cap, and every scalar type,
    in particular binary64. (A round start cap ends its contour with the cap arc instead: see
    [C04_round_cap_returns].) *)
Theorem C04_stroke_contours_closed :
  forall (T : Type) (S : Scalar T) (st : StrokeStyle T) (els : list (PathEl T)) (tol : T) (out : list (PathEl T)),
  sk_start_cap st <> CapRound ->
  stroke_undashed els st tol = Some out -> closed_contours out.
Proof. exact @stroke_contours_closed_any_scalar. Qed.

(** the model answers on every input without curve elements *)
Theorem C04_model_total_on_polylines :
  forall (T : Type) (S : Scalar T) (st : StrokeStyle T) (els : list (PathEl T)) (tol : T),
  Forall is_poly_el els -> exists out, stroke_undashed els st tol = Some out.
Proof. exact @stroke_defined_on_polylines. Qed.

(** an open sub-path with a non-degenerate segment gives exactly one contour, a closed one exactly two
    ([finish_closed]: the forward path closed, then the backward path reversed and closed);
    a sub-path all of whose points coincide gives nothing *)
Theorem C04_open_subpath_one_contour :
  forall (st : StrokeStyle R) (tol : R) (p0 : Point R) (ps : list (Point R)) (out : list (PathEl R)),
  stroke_undashed (MoveTo p0 :: map (@LineTo R) ps) st tol = Some out ->
  ((exists p, In p ps /\ p <> p0) -> n_contours out = 1%nat) /\
  ((forall p, In p ps -> p = p0) -> out = []).
Proof. exact open_subpath_one_contour_thm. Qed.

Theorem C04_closed_subpath_two_contours :
  forall (st : StrokeStyle R) (tol : R) (p0 : Point R) (ps : list (Point R)) (out : list (PathEl R)),
  stroke_undashed (MoveTo p0 :: map (@LineTo R) ps ++ [ClosePath]) st tol = Some out ->
  ((exists p, In p ps /\ p <> p0) -> n_contours out = 2%nat) /\
  ((forall p, In p ps -> p = p0) -> out = []).
Proof. exact closed_subpath_two_contours_thm. Qed.

(** with a round start cap the single contour of an open sub-path is not closed by ClosePath; it ends,
    by the cap arc (two cubics: the number of pieces is ceil(3.999999 * pi / (2 pi)) = 2 at the
    hard-coded tolerance 1e-3), exactly at the point it started from. Real instance: sin/cos exact. *)
Theorem C04_round_cap_returns :
  forall (st : StrokeStyle R) (tol : R) (p0 : Point R) (ps : list (Point R)) (p1 : Point R)
         (r : list (Point R)) (out : list (PathEl R)),
  sk_start_cap st = CapRound -> first_edge p0 ps = Some (p1, r) ->
  stroke_undashed (MoveTo p0 :: map (@LineTo R) ps) st tol = Some out ->
  exists rest, out = MoveTo (offs (sk_width st) (-1) (vec p0 p1) p0) :: rest /\
               Forall (@is_seg R) rest /\
               last_end out = offs (sk_width st) (-1) (vec p0 p1) p0.
Proof. exact round_cap_returns_thm. Qed.

(** ** offsets *)

(** [offs w s t p], the point the stroker puts on side [s] of the edge direction [t] at the vertex [p]:
    exactly width/2 away from [p], perpendicular to the edge, strictly on the left of the direction of
    travel for s = 1 and strictly on the right for s = -1. (Guard: the edge vector is non-zero; the
    stroker skips zero-length segments.) *)
Theorem C04_offset_point_spec :
  forall (w s : R) (t : Vec2 R) (p : Point R), vnonzero t -> s * s = 1 ->
  dist2 (offs w s t p) p = (w / 2) * (w / 2) /\
  rdot (vec p (offs w s t p)) t = 0 /\
  rcross t (vec p (offs w s t p)) = s * (w / 2) * vlen t.
Proof.
  intros w s t p Hn Hs. split; [exact (offs_dist w s t p Hn Hs)|].
  split; [exact (offs_perp w s t p Hn) | exact (offs_side w s t p Hn)].
Qed.

(** offset_sides: after the lines of a polyline the forward path is [side_path .. false] and the backward
    path [side_path .. true]: for every non-degenerate edge (a, b), in order, the forward path holds
    a - n and b - n and the backward path a + n and b + n with the same n = the left normal of length
    width/2 of that edge ([offs] with s = -1 resp. +1 throughout: a normal of the wrong sign on one
    side contradicts this), separated by what [join_els] adds. No guard: points equal to their
    predecessor are skipped by the stroker and by [side_path] alike. *)
Theorem C04_offset_sides :
  forall (st : StrokeStyle R) (tol : R) (p0 : Point R) (ps : list (Point R)) (c : StrokeCtx R),
  stroke_loop st (ctx_init st tol) (MoveTo p0 :: map (@LineTo R) ps) = Some c ->
  cx_forward c = side_path st (2 * tol / sk_width st) false p0 ps /\
  cx_backward c = side_path st (2 * tol / sk_width st) true p0 ps /\
  cx_output c = [].
Proof. exact offset_sides_thm. Qed.

(** the whole outline of an open polyline: forward path, end cap at the last point with the last edge's
    direction, the backward path reversed, start cap at the first point with the first edge's direction *)
Theorem C04_open_polyline_outline :
  forall (st : StrokeStyle R) (tol : R) (p0 : Point R) (ps : list (Point R)),
  stroke_undashed (MoveTo p0 :: map (@LineTo R) ps) st tol =
  Some (match first_edge p0 ps with
        | None => []
        | Some (p1, r) =>
            let t1 := vec p0 p1 in
            let lp := fst (last_state p1 t1 r) in
            let lt := snd (last_state p1 t1 r) in
            side_path st (2 * tol / sk_width st) false p0 ps ++ end_cap_at st lp lt ++
            extend_reversed (side_path st (2 * tol / sk_width st) true p0 ps) ++ start_cap_at st p0 t1
        end).
Proof. exact open_polyline_outline_thm. Qed.

(** ... and of a closed one: ClosePath acts as a line back to the start, the closing join (last edge to
    first edge) is added to both sides, and two closed contours come out *)
Theorem C04_closed_polyline_outline :
  forall (st : StrokeStyle R) (tol : R) (p0 : Point R) (ps : list (Point R)),
  stroke_undashed (MoveTo p0 :: map (@LineTo R) ps ++ [ClosePath]) st tol =
  Some (match first_edge p0 (ps ++ [p0]) with
        | None => []
        | Some (p1, r) =>
            let th := 2 * tol / sk_width st in
            let t1 := vec p0 p1 in
            let lp := fst (last_state p1 t1 r) in
            let lt := snd (last_state p1 t1 r) in
            let fwd := side_path st th false p0 (ps ++ [p0]) ++ side_join st false lp lt th t1 in
            let bwd := side_path st th true p0 (ps ++ [p0]) ++ side_join st true lp lt th t1 in
            fwd ++ [ClosePath] ++ [MoveTo (last_end bwd)] ++ extend_reversed bwd ++ [ClosePath]
        end).
Proof. exact closed_polyline_outline_thm. Qed.

(** ** joins (ab = incoming edge vector, cd = outgoing, both non-zero; X = ab x cd, D = ab . cd) *)

(** nothing is added when the turn is forward and below the join threshold *)
Theorem C04_join_skipped_below_threshold :
  forall (st : StrokeStyle R) (p0 : Point R) (ab cd : Vec2 R) (th : R),
  0 < rdot ab cd ->
  Rabs (rcross ab cd) < sqrt (rcross ab cd * rcross ab cd + rdot ab cd * rdot ab cd) * th ->
  join_els st p0 ab th cd = ([], [], 0%Z).
Proof. exact join_skipped_thm. Qed.

(** join_outer_side: for a left turn (X > 0) the forward side is the outer one — along the incoming
    direction the new forward offset point lies ahead of the old one (a gap), the new backward one
    behind it (an overlap) — and mirrored for a right turn; the repaired join's pivot goes to the inner
    side only, and to neither when X = 0. *)
Theorem C04_join_outer_side :
  forall (st : StrokeStyle R) (p0 : Point R) (ab cd : Vec2 R),
  vnonzero ab -> vnonzero cd -> 0 < sk_width st ->
  let w := sk_width st in let X := rcross ab cd in
  (0 < X ->
     0 < rdot ab (vec (offs w (-1) ab p0) (offs w (-1) cd p0)) /\
     rdot ab (vec (offs w 1 ab p0) (offs w 1 cd p0)) < 0 /\
     piv_f st p0 X = [] /\ piv_b st p0 X = (if sk_inner_pivot st then [LineTo p0] else [])) /\
  (X < 0 ->
     rdot ab (vec (offs w (-1) ab p0) (offs w (-1) cd p0)) < 0 /\
     0 < rdot ab (vec (offs w 1 ab p0) (offs w 1 cd p0)) /\
     piv_b st p0 X = [] /\ piv_f st p0 X = (if sk_inner_pivot st then [LineTo p0] else [])) /\
  (X = 0 -> piv_f st p0 X = [] /\ piv_b st p0 X = []).
Proof. exact join_outer_side_thm. Qed.

(** bevel_spec: an emitted bevel join is one line to the new offset point on either side
    (distance width/2 from the vertex by [C04_offset_point_spec]) *)
Theorem C04_bevel_spec :
  forall (st : StrokeStyle R) (p0 : Point R) (ab cd : Vec2 R) (th : R),
  emitted ab cd th -> sk_join st = JoinBevel ->
  fst (fst (join_els st p0 ab th cd)) = piv_f st p0 (rcross ab cd) ++ [LineTo (offs (sk_width st) (-1) cd p0)] /\
  snd (fst (join_els st p0 ab th cd)) = piv_b st p0 (rcross ab cd) ++ [LineTo (offs (sk_width st) 1 cd p0)].
Proof. exact bevel_join_thm. Qed.

(** miter_point_spec, left turn: the miter point is added to the forward (outer) path, lies on both
    forward offset lines, and is within miter_limit * width/2 of the vertex *)
Theorem C04_miter_point_spec_left :
  forall (st : StrokeStyle R) (p0 : Point R) (ab cd : Vec2 R) (th : R),
  emitted ab cd th -> sk_join st = JoinMiter -> vnonzero ab -> vnonzero cd -> 0 < sk_width st ->
  let w := sk_width st in let X := rcross ab cd in let D := rdot ab cd in
  let Hy := sqrt (X * X + D * D) in let ml := sk_miter_limit st in
  2 * Hy < (Hy + D) * (ml * ml) -> 0 < X ->
  let M := miter_pt w (-1) p0 ab cd in
  fst (fst (join_els st p0 ab th cd)) = [LineTo M; LineTo (offs w (-1) cd p0)] /\
  snd (fst (join_els st p0 ab th cd)) = piv_b st p0 X ++ [LineTo (offs w 1 cd p0)] /\
  rcross ab (vec (offs w (-1) ab p0) M) = 0 /\ rcross cd (vec (offs w (-1) cd p0) M) = 0 /\
  dist2 M p0 < (w / 2) * (w / 2) * (ml * ml).
Proof. exact miter_left_thm. Qed.

(** ... right turn: mirrored, on the backward path *)
Theorem C04_miter_point_spec_right :
  forall (st : StrokeStyle R) (p0 : Point R) (ab cd : Vec2 R) (th : R),
  emitted ab cd th -> sk_join st = JoinMiter -> vnonzero ab -> vnonzero cd -> 0 < sk_width st ->
  let w := sk_width st in let X := rcross ab cd in let D := rdot ab cd in
  let Hy := sqrt (X * X + D * D) in let ml := sk_miter_limit st in
  2 * Hy < (Hy + D) * (ml * ml) -> X < 0 ->
  let M := miter_pt w 1 p0 ab cd in
  fst (fst (join_els st p0 ab th cd)) = piv_f st p0 X ++ [LineTo (offs w (-1) cd p0)] /\
  snd (fst (join_els st p0 ab th cd)) = [LineTo M; LineTo (offs w 1 cd p0)] /\
  rcross ab (vec (offs w 1 ab p0) M) = 0 /\ rcross cd (vec (offs w 1 cd p0) M) = 0 /\
  dist2 M p0 < (w / 2) * (w / 2) * (ml * ml).
Proof. exact miter_right_thm. Qed.

(** ... beyond the limit, or with X = 0: bevel *)
Theorem C04_miter_fallback_bevel :
  forall (st : StrokeStyle R) (p0 : Point R) (ab cd : Vec2 R) (th : R),
  emitted ab cd th -> sk_join st = JoinMiter ->
  let X := rcross ab cd in let D := rdot ab cd in let Hy := sqrt (X * X + D * D) in
  ~ (2 * Hy < (Hy + D) * (sk_miter_limit st * sk_miter_limit st)) \/ X = 0 ->
  fst (fst (join_els st p0 ab th cd)) = piv_f st p0 X ++ [LineTo (offs (sk_width st) (-1) cd p0)] /\
  snd (fst (join_els st p0 ab th cd)) = piv_b st p0 X ++ [LineTo (offs (sk_width st) 1 cd p0)].
Proof. exact miter_fallback_thm. Qed.

(** the miter point's distance from the vertex, exactly: |M - p0|^2 (|ab||cd| + ab.cd) = (w/2)^2 2|ab||cd|,
    i.e. |M - p0| = (w/2) / cos(turn/2) *)
Theorem C04_miter_distance :
  forall (w s : R) (p0 : Point R) (ab cd : Vec2 R),
  vnonzero ab -> vnonzero cd -> rcross ab cd <> 0 -> s * s = 1 ->
  dist2 (miter_pt w s p0 ab cd) p0 * (vlen ab * vlen cd + rdot ab cd) = (w / 2) * (w / 2) * (2 * (vlen ab * vlen cd)).
Proof. exact miter_dist. Qed.

(** ** caps (p = end point, t = direction of travel there, non-zero; w > 0) *)

(** butt_cap_spec: the end is cut straight across through p: one line to the backward offset point
    (resp. ClosePath at the start); both offset points at width/2, perpendicular to t, the forward one
    on the right of the direction of travel and the backward one on the left *)
Theorem C04_butt_cap_spec :
  forall (st : StrokeStyle R) (p : Point R) (t : Vec2 R), vnonzero t -> 0 < sk_width st ->
  let w := sk_width st in
  (sk_end_cap st = CapButt -> end_cap_at st p t = [LineTo (offs w 1 t p)]) /\
  (sk_start_cap st = CapButt -> start_cap_at st p t = [ClosePath]) /\
  dist2 (offs w 1 t p) p = (w / 2) * (w / 2) /\ dist2 (offs w (-1) t p) p = (w / 2) * (w / 2) /\
  rdot (vec p (offs w 1 t p)) t = 0 /\ rdot (vec p (offs w (-1) t p)) t = 0 /\
  0 < rcross t (vec p (offs w 1 t p)) /\ rcross t (vec p (offs w (-1) t p)) < 0.
Proof. exact butt_cap_thm. Qed.

(** square_cap_spec, end of the sub-path: two corners at distance sqrt 2 * width/2 from p, both beyond p
    (component +width/2 along t: a cap rotated by pi would have -width/2), then the backward offset point *)
Theorem C04_square_cap_spec_end :
  forall (st : StrokeStyle R) (p : Point R) (t : Vec2 R), vnonzero t -> 0 < sk_width st ->
  sk_end_cap st = CapSquare ->
  let w := sk_width st in
  let q1 := along (w / 2) t (offs w (-1) t p) in
  let q2 := along (w / 2) t (offs w 1 t p) in
  end_cap_at st p t = [LineTo q1; LineTo q2; LineTo (offs w 1 t p)] /\
  dist2 q1 p = 2 * ((w / 2) * (w / 2)) /\ dist2 q2 p = 2 * ((w / 2) * (w / 2)) /\
  rdot (vec p q1) t = (w / 2) * vlen t /\ rdot (vec p q2) t = (w / 2) * vlen t /\ 0 < (w / 2) * vlen t.
Proof. exact square_end_cap_thm. Qed.

(** ... start of the sub-path: the mirror image, both corners before p, then ClosePath *)
Theorem C04_square_cap_spec_start :
  forall (st : StrokeStyle R) (p : Point R) (t : Vec2 R), vnonzero t ->
  sk_start_cap st = CapSquare ->
  let w := sk_width st in
  let r1 := along (- (w / 2)) t (offs w 1 t p) in
  let r2 := along (- (w / 2)) t (offs w (-1) t p) in
  start_cap_at st p t = [LineTo r1; LineTo r2; ClosePath] /\
  dist2 r1 p = 2 * ((w / 2) * (w / 2)) /\ dist2 r2 p = 2 * ((w / 2) * (w / 2)) /\
  rdot (vec p r1) t = - ((w / 2) * vlen t) /\ rdot (vec p r2) t = - ((w / 2) * vlen t).
Proof. exact square_start_cap_thm. Qed.

(** ** every vertex within the style's reach *)

(** outline_within_radius: for every MoveTo/LineTo/ClosePath input (any history), width > 0, bevel or
    miter joins, butt or square caps: every end point of every element of the outline is within
    sqrt(reach2) of a source vertex (the origin counts: a path may start with LineTo), where
    reach2 = (width/2)^2 * max(1, miter_limit^2 for miter joins, 2 with a square cap). *)
Theorem C04_outline_within_radius :
  forall (st : StrokeStyle R) (els : list (PathEl R)) (tol : R) (out : list (PathEl R)),
  0 < sk_width st -> sk_join st <> JoinRound -> sk_start_cap st <> CapRound -> sk_end_cap st <> CapRound ->
  stroke_undashed els st tol = Some out ->
  all_ends (near (pt_origin :: flat_map (@el_pts R) els) (reach2 st)) out.
Proof. exact outline_within_radius. Qed.

(** ** one segment *)

(** single_segment_butt_exact: the outline of a two-point path with butt caps is exactly the rectangle
    p0 - n, p1 - n, p1 + n, p0 + n, in this order, closed; for any join style and tolerance *)
Theorem C04_single_segment_butt_exact :
  forall (st : StrokeStyle R) (tol : R) (p0 p1 : Point R),
  p1 <> p0 -> sk_start_cap st = CapButt -> sk_end_cap st = CapButt ->
  let t := vec p0 p1 in let w := sk_width st in
  stroke_undashed [MoveTo p0; LineTo p1] st tol =
  Some [MoveTo (offs w (-1) t p0); LineTo (offs w (-1) t p1); LineTo (offs w 1 t p1); LineTo (offs w 1 t p0); ClosePath].
Proof. exact single_segment_butt_exact_thm. Qed.

(** ... and it is traversed with positive orientation: twice the signed area is 2 * width * length *)
Theorem C04_single_segment_orientation :
  forall (w : R) (t : Vec2 R) (p0 p1 : Point R), t = vec p0 p1 -> vnonzero t ->
  shoelace2 [offs w (-1) t p0; offs w (-1) t p1; offs w 1 t p1; offs w 1 t p0] = 2 * (w * vlen t).
Proof. exact single_segment_orientation. Qed.

(** ... and the region-level statement for one segment: with [q] = the point whose foot on the segment has
    parameter [al] and whose signed distance to it is [be * width/2], the outline winds once around q
    when the foot is strictly interior and the distance below width/2, and not at all when the foot is
    beyond an end or the distance above width/2. (Crossing-number winding with the half-open rule,
    [outline_wn]; every point of the plane is [seg_point w p0 t al be] for exactly one (al, be).) *)
Theorem C04_single_segment_butt_region :
  forall (st : StrokeStyle R) (tol : R) (p0 p1 : Point R) (out : list (PathEl R)) (al be : R),
  p1 <> p0 -> sk_start_cap st = CapButt -> sk_end_cap st = CapButt -> 0 < sk_width st ->
  stroke_undashed [MoveTo p0; LineTo p1] st tol = Some out ->
  let q := seg_point (sk_width st) p0 (vec p0 p1) al be in
  (0 < al < 1 -> -1 < be < 1 -> outline_wn out q = 1%Z) /\
  (al < 0 \/ 1 < al \/ be < -1 \/ 1 < be -> outline_wn out q = 0%Z).
Proof.
  intros st tol p0 p1 out al be Hne Hs He Hw Hout.
  rewrite (single_segment_butt_exact_thm st tol p0 p1 Hne Hs He) in Hout. injection Hout as <-.
  exact (single_segment_region_thm (sk_width st) p0 p1 al be Hne Hw).
Qed.

(** with square caps: the rectangle extended by width/2 at both ends *)
Theorem C04_single_segment_square_exact :
  forall (st : StrokeStyle R) (tol : R) (p0 p1 : Point R),
  p1 <> p0 -> sk_start_cap st = CapSquare -> sk_end_cap st = CapSquare ->
  let t := vec p0 p1 in let w := sk_width st in
  stroke_undashed [MoveTo p0; LineTo p1] st tol =
  Some [MoveTo (offs w (-1) t p0); LineTo (offs w (-1) t p1);
        LineTo (along (w / 2) t (offs w (-1) t p1)); LineTo (along (w / 2) t (offs w 1 t p1)); LineTo (offs w 1 t p1);
        LineTo (offs w 1 t p0);
        LineTo (along (- (w / 2)) t (offs w 1 t p0)); LineTo (along (- (w / 2)) t (offs w (-1) t p0)); ClosePath].
Proof. exact single_segment_square_exact_thm. Qed.

(** ** the region-level statement for open polylines (bevel joins, butt caps, repaired join, no join skipped)

    [all_emitted th p1 t1 r]: every turn of the polyline passes the join test of [do_join] for the
    threshold th = 2 tolerance / width (always true for tolerance 0: [C04_all_emitted_at_zero_tolerance]).

    [e q a b] is the crossing contribution of the directed edge a -> b about q; [hex] is the rectangle of
    one edge (with the two mid-points of its short sides as extra vertices), [join_piece] the triangle
    vertex / old offset point / new offset point on the outer side of a turn (both degenerate triangles,
    which cancel, when the edges are parallel); [pieces] sums them along the polyline. *)

(** decomposition: the outline winds around every point q exactly as often as the rectangle of the first
    edge plus all later rectangles and outer-side triangles do. (With the join of the pinned code the
    triangle on the inner side enters with a minus sign: [C04_pinned_inner_join_refuted].) *)
Theorem C04_polyline_decomposition :
  forall (st : StrokeStyle R) (q p0 : Point R) (ps : list (Point R)) (p1 : Point R) (r : list (Point R))
         (out : list (PathEl R)),
  sk_join st = JoinBevel -> sk_inner_pivot st = true ->
  sk_start_cap st = CapButt -> sk_end_cap st = CapButt ->
  forall tol : R,
  first_edge p0 ps = Some (p1, r) ->
  all_emitted (2 * tol / sk_width st) p1 (vec p0 p1) r ->
  stroke_undashed (MoveTo p0 :: map (@LineTo R) ps) st tol = Some out ->
  outline_wn out q = (hex st q p0 p1 (vec p0 p1) + pieces st q p1 (vec p0 p1) r)%Z.
Proof.
  intros st q p0 ps p1 r out Hb Hp Hs He tol E Ha Ho.
  exact (polyline_decomposition_thm st Hb Hp q tol p0 ps p1 r out Hs He E Ha Ho).
Qed.

Theorem C04_all_emitted_at_zero_tolerance :
  forall (ps : list (Point R)) (lp : Point R) (lt : Vec2 R), all_emitted 0 lp lt ps.
Proof. exact all_emitted_th0. Qed.

(** every piece is traversed positively: its winding is 0 or 1 everywhere; the rectangle's is 1 exactly
    where the foot is interior and the distance below width/2, and 0 beyond; the triangle's is 0 farther
    than width/2 from the vertex *)
Theorem C04_piece_values :
  forall (st : StrokeStyle R) (q : Point R), 0 < sk_width st ->
  (forall P P', P' <> P ->
     (0 <= hex st q P P' (vec P P') <= 1)%Z /\
     (0 < foot_par P P' q < 1 -> -1 < rel_dist (sk_width st) P P' q < 1 -> hex st q P P' (vec P P') = 1%Z) /\
     (foot_par P P' q < 0 \/ 1 < foot_par P P' q \/ rel_dist (sk_width st) P P' q < -1 \/ 1 < rel_dist (sk_width st) P P' q ->
      hex st q P P' (vec P P') = 0%Z)) /\
  (forall P t t', vnonzero t -> vnonzero t' ->
     (0 <= join_piece st q P t t' <= 1)%Z /\
     ((sk_width st / 2) * (sk_width st / 2) < dist2 q P -> join_piece st q P t t' = 0%Z)).
Proof.
  intros st q Hw. split.
  - intros P P' Hne. exact (hex_value st q Hw P P' Hne).
  - intros P t t' Hn Hn'. exact (join_piece_value st q Hw P t t' Hn Hn').
Qed.

(** the property itself, for this class of inputs and styles, in exact arithmetic, for EVERY point q:
    - if, for some edge (a, b), the foot of q is strictly inside the edge and q is closer than width/2 to it,
      the outline winds at least once around q (it is filled by the non-zero rule);
    - if q is farther than width/2 from every point of every edge, the outline does not wind around q;
    - the winding number is never negative. *)
Theorem C04_open_polyline_region :
  forall (st : StrokeStyle R) (q p0 : Point R) (ps : list (Point R)) (p1 : Point R) (r : list (Point R))
         (out : list (PathEl R)),
  0 < sk_width st -> sk_join st = JoinBevel -> sk_inner_pivot st = true ->
  sk_start_cap st = CapButt -> sk_end_cap st = CapButt ->
  forall tol : R,
  first_edge p0 ps = Some (p1, r) ->
  all_emitted (2 * tol / sk_width st) p1 (vec p0 p1) r ->
  stroke_undashed (MoveTo p0 :: map (@LineTo R) ps) st tol = Some out ->
  let w := sk_width st in
  let edges := (p0, p1) :: poly_edges p1 r in
  (forall a b, In (a, b) edges ->
     0 < foot_par a b q < 1 -> -1 < rel_dist w a b q < 1 -> (1 <= outline_wn out q)%Z) /\
  ((forall a b, In (a, b) edges -> seg_far a b q ((w / 2) * (w / 2))) -> outline_wn out q = 0%Z) /\
  (0 <= outline_wn out q)%Z.
Proof.
  intros st q p0 ps p1 r out Hw Hb Hp Hs He tol E Ha Ho.
  exact (open_polyline_region_thm st q Hw Hb Hp Hs He tol p0 ps p1 r out E Ha Ho).
Qed.

(** the same for a closed polyline (two contours; no caps): the pieces along the way back to the start plus
    the closing join between the last and the first edge, which must pass the join test as well *)
Theorem C04_closed_polyline_decomposition :
  forall (st : StrokeStyle R) (q p0 : Point R) (ps : list (Point R)) (p1 : Point R) (r : list (Point R))
         (out : list (PathEl R)) (tol : R),
  sk_join st = JoinBevel -> sk_inner_pivot st = true ->
  first_edge p0 (ps ++ [p0]) = Some (p1, r) ->
  all_emitted (2 * tol / sk_width st) p1 (vec p0 p1) r ->
  emitted (snd (last_state p1 (vec p0 p1) r)) (vec p0 p1) (2 * tol / sk_width st) ->
  stroke_undashed (MoveTo p0 :: map (@LineTo R) ps ++ [ClosePath]) st tol = Some out ->
  outline_wn out q =
  (hex st q p0 p1 (vec p0 p1) + pieces st q p1 (vec p0 p1) r +
   join_piece st q p0 (snd (last_state p1 (vec p0 p1) r)) (vec p0 p1))%Z.
Proof.
  intros st q p0 ps p1 r out tol Hb Hp E Ha Hc Ho.
  exact (closed_polyline_decomposition_thm st Hb Hp q tol p0 ps p1 r out E Ha Hc Ho).
Qed.

Theorem C04_closed_polyline_region :
  forall (st : StrokeStyle R) (q p0 : Point R) (ps : list (Point R)) (p1 : Point R) (r : list (Point R))
         (out : list (PathEl R)) (tol : R),
  0 < sk_width st -> sk_join st = JoinBevel -> sk_inner_pivot st = true ->
  first_edge p0 (ps ++ [p0]) = Some (p1, r) ->
  all_emitted (2 * tol / sk_width st) p1 (vec p0 p1) r ->
  emitted (snd (last_state p1 (vec p0 p1) r)) (vec p0 p1) (2 * tol / sk_width st) ->
  stroke_undashed (MoveTo p0 :: map (@LineTo R) ps ++ [ClosePath]) st tol = Some out ->
  let w := sk_width st in
  let edges := (p0, p1) :: poly_edges p1 r in
  (forall a b, In (a, b) edges ->
     0 < foot_par a b q < 1 -> -1 < rel_dist w a b q < 1 -> (1 <= outline_wn out q)%Z) /\
  ((forall a b, In (a, b) edges -> seg_far a b q ((w / 2) * (w / 2))) -> outline_wn out q = 0%Z) /\
  (0 <= outline_wn out q)%Z.
Proof.
  intros st q p0 ps p1 r out tol Hw Hb Hp E Ha Hc Ho.
  exact (closed_polyline_region_thm st q Hw Hb Hp tol p0 ps p1 r out E Ha Hc Ho).
Qed.

(** ** several sub-paths; the outer bound for every style without round parts

    A path is a list of sub-paths ([subpath]: start point, further points, closed or not); [path_els] are its
    elements, [sub_edges] the non-degenerate edges of a sub-path (closing edge included). *)

(** the outline of a path is the concatenation of the outlines of its sub-paths: what a sub-path leaves in
    the context (normals, tangents) is never read by the next one. Any scalar type, any style. *)
Theorem C04_outline_of_subpaths_concatenates :
  forall (T : Type) (S : Scalar T) (st : StrokeStyle T) (tol : T) (A : list (PathEl T)) (p : Point T)
         (B oa ob : list (PathEl T)),
  stroke_undashed A st tol = Some oa -> stroke_undashed (MoveTo p :: B) st tol = Some ob ->
  stroke_undashed (A ++ MoveTo p :: B) st tol = Some (oa ++ ob).
Proof. intros T S st tol A p B oa ob. exact (stroke_concat st tol A p B oa ob). Qed.

(** (3) the outer bound, for the filled region: bevel or miter joins (within or beyond the limit, emitted or
    skipped, pinned or repaired inner side), butt or square caps, any tolerance, any number of open and
    closed sub-paths, degenerate points anywhere: the outline does not wind around any point q that is
    farther than the style's reach sqrt(reach2) - width/2, times sqrt 2 with a square cap, times the miter
    limit with miter joins - from every point of every edge. (Proof: the outline is a sum of closed
    polygons - a fan at every vertex, a generalised rectangle along every edge, the caps - each of which
    stays within reach of one vertex or one edge, hence on the far side of a line through q.) *)
Theorem C04_fill_within_reach :
  forall (st : StrokeStyle R) (q : Point R) (tol : R) (subs : list subpath) (out : list (PathEl R)),
  0 < sk_width st -> sk_join st <> JoinRound -> sk_start_cap st <> CapRound -> sk_end_cap st <> CapRound ->
  stroke_undashed (path_els subs) st tol = Some out ->
  (forall a b, In (a, b) (flat_map sub_edges subs) -> seg_far a b q (reach2 st)) ->
  outline_wn out q = 0%Z.
Proof.
  intros st q tol subs out Hw Hj Hs He Ho Hf.
  exact (path_reach_thm st Hw Hj Hs He q tol subs out Ho Hf).
Qed.

(** (1) the property for a whole path with bevel joins, butt caps, the repaired join and no skipped join:
    covered wherever some edge of some sub-path has the foot of q strictly inside and q closer than
    width/2; not wound around beyond width/2 of every edge; never negative - overlaps between sub-paths
    only add. *)
Theorem C04_path_region :
  forall (st : StrokeStyle R) (q : Point R) (tol : R) (subs : list subpath) (out : list (PathEl R)),
  0 < sk_width st -> sk_join st = JoinBevel -> sk_inner_pivot st = true ->
  sk_start_cap st = CapButt -> sk_end_cap st = CapButt ->
  stroke_undashed (path_els subs) st tol = Some out -> Forall (sub_emitted st tol) subs ->
  let w := sk_width st in
  let edges := flat_map sub_edges subs in
  (forall a b, In (a, b) edges ->
     0 < foot_par a b q < 1 -> -1 < rel_dist w a b q < 1 -> (1 <= outline_wn out q)%Z) /\
  ((forall a b, In (a, b) edges -> seg_far a b q ((w / 2) * (w / 2))) -> outline_wn out q = 0%Z) /\
  (0 <= outline_wn out q)%Z.
Proof.
  intros st q tol subs out Hw Hb Hp Hs He Ho Hem.
  exact (path_region_thm st Hw Hb Hp Hs He q tol subs out Ho Hem).
Qed.

(** (2) + (1) + (3) together: the property for a whole path in every style without round parts - bevel or
    miter joins (the miter kite within the limit, bevel beyond it), butt or square caps (the cap
    rectangles), any number of open and closed sub-paths - with the repaired join and no join skipped:
    - covered: wherever the foot of q on some edge is strictly interior and q is closer than width/2 to it,
      the outline winds at least once around q;
    - not beyond the reach: farther than sqrt(reach2) from every edge the outline does not wind around q
      (this half needs neither the repaired join nor "no join skipped": [C04_fill_within_reach]);
    - the winding number is never negative.
    (Every extra piece - outer bevel triangle, miter kite, cap rectangle - is a fan of positively oriented
    triangles around a source vertex; the inner side passes through the vertex and contributes nothing.) *)
Theorem C04_path_region_all_styles :
  forall (st : StrokeStyle R) (q : Point R) (tol : R) (subs : list subpath) (out : list (PathEl R)),
  0 < sk_width st -> sk_join st <> JoinRound -> sk_inner_pivot st = true ->
  sk_start_cap st <> CapRound -> sk_end_cap st <> CapRound ->
  stroke_undashed (path_els subs) st tol = Some out -> Forall (sub_emitted st tol) subs ->
  let w := sk_width st in
  let edges := flat_map sub_edges subs in
  (forall a b, In (a, b) edges ->
     0 < foot_par a b q < 1 -> -1 < rel_dist w a b q < 1 -> (1 <= outline_wn out q)%Z) /\
  ((forall a b, In (a, b) edges -> seg_far a b q (reach2 st)) -> outline_wn out q = 0%Z) /\
  (0 <= outline_wn out q)%Z.
Proof.
  intros st q tol subs out Hw Hj Hp Hs He Ho Hem.
  exact (path_style_region_thm st Hw Hj Hp Hs He q tol subs out Ho Hem).
Qed.

(** ** the pinned join violates the property; the repaired join does not (on the witness)

    binary64 instance, every number exactly representable ([witness_path] etc. in proofs/C04_witness.v):
    M(0,0) L(1,0) L(1,10), width 4, bevel, butt, tolerance 1/16. q = (-1/2, 1/4) is at distance 3/2 < width/2 = 2 from (1, 1/4), an interior point of
    the second segment, so the property requires it to be filled. With the join of the pinned code
    ([sk_inner_pivot = false]) the outline is the octagon below and winds 0 times around q: the triangle
    (1,0), (-1,0), (1,2) on the inner side of the turn is traversed negatively and cancels the second
    segment's rectangle where the first segment (shorter than width/2) does not cover it. With the
    repaired join the outline winds once around q. *)
Theorem C04_pinned_inner_join_refuted :
  exists path st tol q out,
  path = witness_path /\ st = witness_style false /\ sk_inner_pivot st = false /\ q = witness_q /\
  stroke_undashed path st tol = Some out /\ out = witness_outline /\
  outline_wn out q = 0%Z.
Proof.
  exists witness_path, (witness_style false), witness_tol, witness_q, witness_outline.
  repeat split; try reflexivity; try exact pinned_inner_join_outline; exact pinned_outline_winding.
Qed.

Theorem C04_repaired_join_fills_witness :
  option_map (fun out => outline_wn out witness_q)
             (stroke_undashed witness_path (witness_style true) witness_tol) = Some 1%Z.
Proof. exact repaired_inner_join_winding. Qed.

(** ** non-vacuity: concrete instances meeting the hypotheses *)
Example C04_ex_vnonzero : vnonzero (mkVec2 3 4) /\ vlen (mkVec2 3 4) = 5.
Proof.
  split; [left; cbn; lra|]. unfold vlen; cbn.
  replace (3 * 3 + 4 * 4) with (5 * 5) by ring. apply sqrt_square. lra.
Qed.

(* a left turn by a right angle is emitted for every threshold <= 1 and takes the miter branch for limit 4 *)
Example C04_ex_miter_hyps :
  let ab := mkVec2 1 0 in let cd := mkVec2 0 1 in
  emitted ab cd (1 / 2) /\ 0 < rcross ab cd /\
  2 * sqrt (rcross ab cd * rcross ab cd + rdot ab cd * rdot ab cd) <
  (sqrt (rcross ab cd * rcross ab cd + rdot ab cd * rdot ab cd) + rdot ab cd) * (4 * 4).
Proof.
  cbv zeta. unfold emitted, rcross, rdot; cbn [vx vy].
  replace (1 * 1 - 0 * 0) with 1 by ring. replace (1 * 0 + 0 * 1) with 0 by ring.
  replace (1 * 1 + 0 * 0) with 1 by ring. rewrite sqrt_1.
  split; [left; lra | split; lra].
Qed.

(* a straight continuation with a positive threshold is skipped *)
Example C04_ex_skipped :
  let ab := mkVec2 1 0 in let cd := mkVec2 2 0 in
  0 < rdot ab cd /\ Rabs (rcross ab cd) < sqrt (rcross ab cd * rcross ab cd + rdot ab cd * rdot ab cd) * (1 / 10).
Proof.
  cbv zeta. unfold rcross, rdot; cbn [vx vy].
  replace (1 * 0 - 0 * 2) with 0 by ring. replace (1 * 2 + 0 * 0) with 2 by ring.
  rewrite Rabs_R0. replace (0 * 0 + 2 * 2) with (2 * 2) by ring. rewrite sqrt_square by lra.
  split; lra.
Qed.

(** ** the full statement, NOT proved

    [covered] / [no_overreach] are the two halves of the property for an outline made of lines
    (bevel or miter joins, butt or square caps), with the crossing-number winding [outline_wn]:
    - every point q whose foot on some source segment (a, b) is strictly inside it and whose distance to
      that segment is below width/2 has non-zero winding number;
    - every point farther than sqrt(reach2) from every source segment has winding number 0.
    Proved of it: [C04_path_region_all_styles] - both halves, exactly (no band), for every path that is a
    list of sub-paths each starting with MoveTo, in every style without round parts, with the repaired
    join, PROVIDED no turn falls below the join threshold ([sub_emitted]; always so for tolerance 0) -
    and [C04_fill_within_reach] - the outer half without that proviso and for either join.
    What exactly remains for [C04_full_polyline]:
    (1) the inner half when some turn is below the join threshold (tolerance > 0 and an angle with
    |sin| < 2 tolerance / width, other than exactly straight): the join is skipped, the outline cuts the
    outer corner by at most the tolerance, so [covered] holds only with the band; that needs a bound on
    the area lost, not just the sign bookkeeping used here;
    (2) element lists that are not of the form [path_els subs]: a leading LineTo (sub-path from the
    origin) and LineTo directly after ClosePath (the model and the structure theorems cover them, the
    region theorems do not), and the link between [source_segments] (phrased with [segments] of Path.v)
    and [sub_edges]. With the pinned join the inner half is false (see above).
    For round joins/caps and for curve elements there is not even a model:
    [do_cubic] -> [CubicOffset::new_regularized] -> [fit_to_bezpath] (curve fitting with an accuracy test
    by sampling) and [Arc::append_iter] (4/3 tan(step/4) arms: radial error 2.7e-4 per quarter turn at the
    hard-coded tolerance 1e-3) would have to be shown to stay within the tolerance band; that needs
    a proof of the fitter's error estimate (C18) and of the arc approximation (C10). *)
Definition source_segments (els : list (PathEl R)) : list (Point R * Point R) :=
  match segments els with
  | Some segs => flat_map (fun s => match s with SegLine l => [(l0 l, l1 l)] | _ => [] end) segs
  | None => []
  end.

(* band = 3 * tolerance, as in the property text: the foot is interior by more than the band and the
   distance below width/2 by more than the band *)
Definition covered (els out : list (PathEl R)) (w band : R) : Prop :=
  forall a b q, In (a, b) (source_segments els) ->
  band * vlen (vec a b) < rdot (vec a q) (vec a b) < (vlen (vec a b) - band) * vlen (vec a b) ->
  Rabs (rcross (vec a b) (vec a q)) < (w / 2 - band) * vlen (vec a b) ->
  outline_wn out q <> 0%Z.

Definition no_overreach (els out : list (PathEl R)) (r2 : R) : Prop :=
  forall q, (forall a b, In (a, b) (source_segments els) -> seg_far a b q r2) -> outline_wn out q = 0%Z.

Definition C04_full_polyline : Prop :=
  forall (st : StrokeStyle R) (els out : list (PathEl R)) (tol : R),
  sk_inner_pivot st = true -> 0 < sk_width st -> 0 <= tol ->
  sk_join st <> JoinRound -> sk_start_cap st <> CapRound -> sk_end_cap st <> CapRound ->
  match els with MoveTo _ :: _ => True | _ => False end ->
  stroke_undashed els st tol = Some out ->
  covered els out (sk_width st) (3 * tol) /\
  no_overreach els out ((sqrt (reach2 st) + 3 * tol) * (sqrt (reach2 st) + 3 * tol)).

(** for curves and round styles the statement needs a real-number semantics of the cubic outline
    (winding number of a piecewise-cubic closed curve) and a model of the curve path of the stroker;
    neither exists in this development, so that part of C04 is stated only in prose (properties.jsonl)
    and checked by the laws of harness/src/c04.rs *)
Definition C04_full : Prop := C04_full_polyline.
