(** C04 (stub, being filled) *)
From KV Require Import C04_proofs.
Theorem C04_stub : True. Proof. exact stub_true. Qed.
