(** C17 — Cubic-to-quadratic conversion stays within its accuracy.
    Real instance of model/ToQuads.v (and, where stated, every scalar instance).
    Statements only; proofs in proofs/C17_proofs.v and proofs/C17_spline_proofs.v.

    Conventions.  [to_quads c a] is everything the iterator of [CubicBez::to_quads] yields.
    The spline functions take the recursion depth allowed to [fit_inside] as [fuel] and return
    [None] when it runs out, [Some None] for Rust's [None], [Some (Some pts)] for a spline with
    control points [pts]; every theorem is about the last case ("whenever a result is returned").
    [pt_distance] is the Euclidean distance.  Over the reals [powf] is the exact power, [ceil] the
    integer ceiling and [hypot] the exact length: rounding is outside these theorems. *)
From Coq Require Import ZArith Reals List Bool Floats Lia.
From KV Require Import Scalar RInst F64 Geom Curves ToQuads C17_proofs C17_spline_proofs.
Import ListNotations.
Local Open Scope R_scope.

(** ** to_quads *)

(** At least one quadratic; piece [i] of [n] covers exactly [[i/n, (i+1)/n]] (so consecutive
    ranges share their bound, no gaps); the first range starts at 0, the last ends at 1. *)
Theorem C17_to_quads_tiles : forall (c : CubicBez R) (a : R),
  let ps := to_quads c a in
  let n := length ps in
  (1 <= n)%nat /\
  (forall i, (i < n)%nat -> exists q, nth_error ps i = Some (INR i / INR n, INR (i + 1) / INR n, q)) /\
  (exists t1 q, nth_error ps 0 = Some (0, t1, q)) /\
  (exists t0 q, nth_error ps (n - 1) = Some (t0, 1, q)).
Proof. exact to_quads_tiles. Qed.

(** The shared bound is one and the same expression, and consecutive quadratics are joined,
    in every scalar instance — in particular bit-for-bit on binary64. *)
Theorem C17_to_quads_shared_bound_any_scalar : forall (T : Type) (S : Scalar T) (c : CubicBez T) (n i : Z),
  snd (fst (to_quads_piece c n i)) = fst (fst (to_quads_piece c n (i + 1))) /\
  q2 (snd (to_quads_piece c n i)) = q0 (snd (to_quads_piece c n (i + 1))).
Proof. intros. split; [apply to_quads_shared_bound | apply to_quads_joined]. Qed.

(** Each quadratic starts and ends on the cubic, at the ends of its range. *)
Theorem C17_to_quads_endpoints_on_cubic : forall (c : CubicBez R) a i t0 t1 q,
  nth_error (to_quads c a) i = Some (t0, t1, q) -> q0 q = cubic_eval c t0 /\ q2 q = cubic_eval c t1.
Proof. exact to_quads_endpoints_on_cubic. Qed.

(** The error of the quadratic built from a cubic piece [s] is the third difference
    [D = p3 - 3 p2 + 3 p1 - p0] of the piece times the fixed polynomial t (t - 1/2) (t - 1)
    (constant factor 1), and 432 times the square of that polynomial is at most 1 on [0,1]. *)
Theorem C17_to_quads_error_formula : forall (s : CubicBez R) (t : R),
  px (cubic_eval s t) - px (quad_eval (quad_of_cubic s) t)
    = (px (c3 s) - 3 * px (c2 s) + 3 * px (c1 s) - px (c0 s)) * (t * (t - / 2) * (t - 1)) /\
  py (cubic_eval s t) - py (quad_eval (quad_of_cubic s) t)
    = (py (c3 s) - 3 * py (c2 s) + 3 * py (c1 s) - py (c0 s)) * (t * (t - / 2) * (t - 1)).
Proof. exact to_quads_error_formula. Qed.

Theorem C17_cubic_bump_bound : forall t, 0 <= t <= 1 ->
  432 * ((t * (t - / 2) * (t - 1)) * (t * (t - / 2) * (t - 1))) <= 1.
Proof. exact cubic_bump_bound. Qed.

(** Any count [n] with n^6 >= |D|^2 / (432 a^2) keeps every piece within [a] of the cubic piece
    it replaces, at corresponding parameters ... *)
Theorem C17_to_quads_within_accuracy_n : forall (c : CubicBez R) a (n i : nat) u,
  (i < n)%nat -> 0 <= a -> to_quads_err c <= INR n ^ 6 * (432 * a * a) -> 0 <= u <= 1 ->
  let '(t0, t1, q) := to_quads_piece c (Z.of_nat n) (Z.of_nat i) in
  pt_distance (cubic_eval c (t0 + u * (t1 - t0))) (quad_eval q u) <= a.
Proof. exact to_quads_within_accuracy_n. Qed.

(** ... the count the code computes, [max 1 (ceil ((err / (432 a^2)) ^ (1/6)))], is such an [n] ... *)
Theorem C17_to_quads_count_enough : forall (c : CubicBez R) a, 0 < a ->
  to_quads_err c <= IZR (to_quads_count c a) ^ 6 * (432 * a * a).
Proof. exact to_quads_count_enough. Qed.

(** ... hence the property for [to_quads] itself, for every positive accuracy. *)
Theorem C17_to_quads_within_accuracy : forall (c : CubicBez R) a i t0 t1 q u,
  0 < a -> nth_error (to_quads c a) i = Some (t0, t1, q) -> 0 <= u <= 1 ->
  pt_distance (cubic_eval c (t0 + u * (t1 - t0))) (quad_eval q u) <= a.
Proof. exact to_quads_within_accuracy. Qed.

(** ** fit_inside *)

(** [true] means the curve stays within [d] of the origin on [0,1], provided its two end points
    do (the callers have checked them; [fit_inside] itself never looks at p0, p3 on its first
    return path, see the example below). *)
Theorem C17_fit_inside_sound : forall fuel (c : CubicBez R) d,
  fit_inside fuel c d = Some true ->
  px (c0 c) * px (c0 c) + py (c0 c) * py (c0 c) <= d * d ->
  px (c3 c) * px (c3 c) + py (c3 c) * py (c3 c) <= d * d ->
  forall t, 0 <= t <= 1 ->
  px (cubic_eval c t) * px (cubic_eval c t) + py (cubic_eval c t) * py (cubic_eval c t) <= d * d.
Proof. exact fit_inside_sound. Qed.

Example C17_fit_inside_needs_endpoint_guard :
  exists (c : CubicBez R) d, fit_inside 1 c d = Some true /\
    ~ (px (cubic_eval c 0) * px (cubic_eval c 0) + py (cubic_eval c 0) * py (cubic_eval c 0) <= d * d).
Proof. exact fit_inside_needs_endpoint_guard. Qed.

(* non-vacuity: a curve accepted only after one subdivision (control points outside, curve inside) *)
Example C17_fit_inside_recursive_instance :
  fit_inside 2 (mkCubic (mkPoint 0 0) (mkPoint (6 / 5) 0) (mkPoint (6 / 5) 0) (mkPoint 0 0)) 1 = Some true /\
  fit_inside 1 (mkCubic (mkPoint 0 0) (mkPoint (6 / 5) 0) (mkPoint (6 / 5) 0) (mkPoint 0 0)) 1 = None.
Proof. exact ex_bump_fits. Qed.

(** ** approx_spline_n, approx_spline, cubics_to_quadratic_splines *)

(** A spline returned for [n] pieces has [n + 2] control points, starts and ends at the cubic's
    end points, implies exactly [n] quadratics, and the [i]-th of them stays within [acc] of the
    cubic at the corresponding parameter [(i + t) / n]. *)
Theorem C17_approx_spline_n_sound : forall fuel (c : CubicBez R) n acc pts,
  approx_spline_n fuel c n acc = Some (Some pts) ->
  (exists mid, pts = c0 c :: mid ++ [c3 c] /\ length mid = n) /\
  length (quadspline_to_quads pts) = n /\
  forall i Q t, nth_error (quadspline_to_quads pts) i = Some Q -> 0 <= t <= 1 ->
    pt_distance (quad_eval Q t) (cubic_eval c ((INR i + t) / INR n)) <= acc.
Proof. exact approx_spline_n_sound. Qed.

Theorem C17_approx_spline_endpoints : forall fuel (c : CubicBez R) acc pts,
  approx_spline fuel c acc = Some (Some pts) ->
  exists n mid, (1 <= n <= 100)%nat /\ pts = c0 c :: mid ++ [c3 c] /\ length mid = n.
Proof.
  intros fuel c acc pts Hs. destruct (approx_spline_sound _ _ _ _ Hs) as (n & Hn & (mid & E & L) & _).
  exists n, mid. auto.
Qed.

(** The spline lies within the accuracy of the cubic: every point of every implied quadratic is
    within [acc] of a point of the cubic (the one at the corresponding parameter). *)
Theorem C17_approx_spline_within_accuracy : forall fuel (c : CubicBez R) acc pts,
  approx_spline fuel c acc = Some (Some pts) ->
  forall i Q t, nth_error (quadspline_to_quads pts) i = Some Q -> 0 <= t <= 1 ->
  exists s, 0 <= s <= 1 /\ pt_distance (quad_eval Q t) (cubic_eval c s) <= acc.
Proof.
  intros fuel c acc pts Hs. destruct (approx_spline_sound _ _ _ _ Hs) as (n & _ & Hok).
  exact (spline_ok_lies_within _ _ _ _ Hok).
Qed.

(** ... and conversely every point of the cubic has a point of the spline within [acc]
    (so the two curves are within [acc] of each other in the Hausdorff sense). *)
Theorem C17_approx_spline_covers_cubic : forall fuel (c : CubicBez R) acc pts,
  approx_spline fuel c acc = Some (Some pts) ->
  forall s, 0 <= s <= 1 ->
  exists i Q t, nth_error (quadspline_to_quads pts) i = Some Q /\ 0 <= t <= 1 /\
                pt_distance (quad_eval Q t) (cubic_eval c s) <= acc.
Proof.
  intros fuel c acc pts Hs. destruct (approx_spline_sound _ _ _ _ Hs) as (n & Hn & Hok).
  apply (spline_ok_covers _ _ _ _ Hok). lia.
Qed.

(** All splines of one call: one per cubic, all with the same number [n + 2] of control points,
    each starting and ending at its cubic's end points and within the accuracy of it. *)
Theorem C17_cubics_to_quadratic_splines_sound : forall fuel (cs : list (CubicBez R)) acc ss,
  cubics_to_quadratic_splines fuel cs acc = Some (Some ss) ->
  exists n, (1 <= n <= 101)%nat /\
  Forall2 (fun c pts =>
      (exists mid, pts = c0 c :: mid ++ [c3 c] /\ length mid = n) /\
      length (quadspline_to_quads pts) = n /\
      forall i Q t, nth_error (quadspline_to_quads pts) i = Some Q -> 0 <= t <= 1 ->
        pt_distance (quad_eval Q t) (cubic_eval c ((INR i + t) / INR n)) <= acc) cs ss.
Proof. exact cubics_to_quadratic_splines_sound. Qed.

Theorem C17_splines_same_length : forall fuel (cs : list (CubicBez R)) acc ss,
  cubics_to_quadratic_splines fuel cs acc = Some (Some ss) ->
  length ss = length cs /\
  exists n, (1 <= n <= 101)%nat /\ forall pts, In pts ss -> length pts = (n + 2)%nat.
Proof. exact splines_same_length. Qed.

(** The fuel only bounds the recursion depth: once [fit_inside] answers, more fuel gives the same
    answer (any scalar, so also binary64) — the theorems above hold for whatever depth the
    unbounded Rust recursion reaches. *)
Theorem C17_fit_inside_fuel_irrelevant : forall (T : Type) (S : Scalar T) k j (c : CubicBez T) d b,
  fit_inside k c d = Some b -> fit_inside (k + j) c d = Some b.
Proof. intros T S. exact (@fit_inside_fuel_mono T S). Qed.

(** Every branch of [split_into_n] (the pre-computed n = 1, 2, 3, 4, 6 and the general one)
    yields the sub-segments over [i/n, (i+1)/n]. *)
Theorem C17_split_into_n_is_subsegments : forall (c : CubicBez R) n, (1 <= n)%nat ->
  split_into_n c n = map (fun i => cubic_subsegment c (INR i / INR n) (INR (i + 1) / INR n)) (seq 0 n).
Proof. exact split_into_n_spec. Qed.

(* non-vacuity over the reals: a degree-raised parabola comes back as that parabola *)
Example C17_approx_spline_n_instance :
  approx_spline_n 1 (mkCubic (mkPoint 0 0) (mkPoint 2 2) (mkPoint 4 2) (mkPoint 6 0)) 1 (/ 10)
  = Some (Some [mkPoint 0 0; mkPoint 3 3; mkPoint 6 0]).
Proof. exact ex_raised_spline. Qed.

(* non-vacuity of the loop branch and of the batch driver: the binary64 instance of the same
   model (the one the correspondence check ties to the crate) returns splines *)
Section F64Instances.
Local Open Scope float_scope.
Example C17_spline_instances_f64 :
  let c : CubicBez float := mkCubic (mkPoint 0 0) (mkPoint 10 30) (mkPoint 50 40) (mkPoint 90 0) in
  let c' : CubicBez float := mkCubic (mkPoint 0 0) (mkPoint 1 3) (mkPoint 5 4) (mkPoint 9 0) in
  (exists pts, approx_spline 64 c 0.5 = Some (Some pts) /\ length pts = 5%nat) /\
  (exists s s', cubics_to_quadratic_splines 64 [c; c'] 0.5 = Some (Some [s; s']) /\
                length s = 5%nat /\ length s' = 5%nat) /\
  to_quads_count c 0x1p-4 = 4%Z.
Proof.
  cbv zeta. split; [|split].
  - eexists. split; [vm_compute; reflexivity | reflexivity].
  - do 2 eexists. split; [vm_compute; reflexivity | split; reflexivity].
  - vm_compute. reflexivity.
Qed.
End F64Instances.

(** ** QuadSpline::to_quads — for every scalar instance (so also on binary64, exactly)

    [len - 2] quadratics; the [i]-th keeps the off-curve point [pts[i+1]]; consecutive
    quadratics are joined end to end; the first starts at the spline's first point and the
    last ends at its last point. *)
Theorem C17_quadspline_to_quads_chain : forall (T : Type) (S : Scalar T) (pts : list (Point T)),
  let qs := quadspline_to_quads pts in
  length qs = (length pts - 2)%nat /\
  (forall i Q, nth_error qs i = Some Q -> nth_error pts (Datatypes.S i) = Some (q1 Q)) /\
  (forall i Q Q', nth_error qs i = Some Q -> nth_error qs (Datatypes.S i) = Some Q' -> q2 Q = q0 Q') /\
  (forall Q, nth_error qs 0 = Some Q -> nth_error pts 0 = Some (q0 Q)) /\
  (forall Q d, nth_error qs (length pts - 3) = Some Q -> (3 <= length pts)%nat -> q2 Q = last pts d).
Proof.
  intros T S pts. cbv zeta. unfold quadspline_to_quads. repeat split.
  - apply quads_from_length.
  - intros i Q. apply quads_from_control.
  - intros i Q Q'. apply quads_from_joined.
  - intros Q. apply quads_from_first.
  - intros Q d. apply quads_from_last.
Qed.
