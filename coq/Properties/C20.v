(** C20 — Rectangle, size, inset and rounding algebra obeys its lattice laws.
    Statements only; every proof is [exact <lemma>]. Real instance of the model
    (model/Rect.v, model/Geom.v); the exactness of the same operations on finite
    binary64 values is in Properties/C20_F64.v. *)
From Coq Require Import ZArith Reals Bool.
From KV Require Import Scalar RInst Geom Rect RectSpec C20_proofs.
Local Open Scope R_scope.

(** union is the least upper bound *)
Theorem C20_union_lub : forall a b : Rect R,
  subset a (rect_union a b) /\ subset b (rect_union a b) /\
  forall c, subset a c -> subset b c -> subset (rect_union a b) c.
Proof. exact union_lub. Qed.

Theorem C20_union_nonneg : forall a b : Rect R, nonneg a -> nonneg b -> nonneg (rect_union a b).
Proof. exact union_nonneg. Qed.

(** [subset] on corners is set inclusion of the closed rectangles *)
Theorem C20_subset_is_inclusion : forall a b : Rect R, nonneg a ->
  (subset a b <-> forall p, in_closed a p -> in_closed b p).
Proof. exact subset_set. Qed.

(** intersect is the greatest lower bound when the closed rectangles meet ... *)
Theorem C20_intersect_glb : forall a b : Rect R, nonneg a -> nonneg b -> meet a b ->
  let i := rect_intersect a b in
  nonneg i /\ subset i a /\ subset i b /\
  forall c, nonneg c -> subset c a -> subset c b -> subset c i.
Proof. exact intersect_glb. Qed.

(** ... and a zero-area, non-negative rectangle when they are disjoint *)
Theorem C20_intersect_disjoint : forall a b : Rect R, nonneg a -> nonneg b -> ~ meet a b ->
  let i := rect_intersect a b in nonneg i /\ rect_area i = 0.
Proof. exact intersect_disjoint. Qed.

Theorem C20_contains_half_open : forall (r : Rect R) (p : Point R),
  rect_contains r p = true <-> in_half_open r p.
Proof. exact contains_half_open. Qed.

Theorem C20_overlaps_sym : forall a b : Rect R, rect_overlaps a b = rect_overlaps b a.
Proof. exact overlaps_sym. Qed.

Theorem C20_overlaps_iff_closed_meet : forall a b : Rect R, nonneg a -> nonneg b ->
  (rect_overlaps a b = true <-> meet a b).
Proof. exact overlaps_iff_meet. Qed.

Theorem C20_contains_rect_iff_union_eq : forall a b : Rect R,
  (rect_contains_rect a b = true <-> rect_union a b = a).
Proof. exact contains_rect_iff_union_eq'. Qed.

Theorem C20_abs : forall r : Rect R,
  let a := rect_abs r in
  nonneg a /\ rect_width a = Rabs (rect_width r) /\ rect_height a = Rabs (rect_height r) /\
  (nonneg r -> a = r).
Proof. exact abs_spec. Qed.

Theorem C20_from_points_is_abs : forall x0 y0 x1 y1 : R,
  rect_from_points (mkPoint x0 y0) (mkPoint x1 y1) = rect_abs (mkRect x0 y0 x1 y1) /\
  rect_from_points (mkPoint x1 y1) (mkPoint x0 y0) = rect_abs (mkRect x0 y0 x1 y1).
Proof. exact from_points_abs. Qed.

Theorem C20_union_pt_lub : forall (r : Rect R) (p : Point R), nonneg r ->
  let u := rect_union_pt r p in
  subset r u /\ in_closed u p /\ forall c, subset r c -> in_closed c p -> subset u c.
Proof. exact union_pt_lub. Qed.

Theorem C20_expand_smallest_integer_superset : forall r : Rect R,
  rx0 r < rx1 r -> ry0 r < ry1 r ->
  let e := rect_expand r in
  int_rect e /\ subset r e /\ forall c, int_rect c -> subset r c -> subset e c.
Proof. exact expand_smallest_superset. Qed.

Theorem C20_trunc_largest_integer_subset : forall r : Rect R,
  rx0 r < rx1 r -> ry0 r < ry1 r ->
  let t := rect_trunc r in
  int_rect t /\ subset t r /\ forall c, int_rect c -> subset c r -> subset c t.
Proof. exact trunc_largest_subset. Qed.

Theorem C20_inset_add_sub_id : forall (a : Rect R) (i : Insets R),
  nonneg a -> nonneg (rect_add_insets a i) ->
  rect_sub_insets (rect_add_insets a i) i = a.
Proof. exact inset_add_sub_id. Qed.

Theorem C20_rect_difference_is_insets : forall a b : Rect R, nonneg b ->
  rect_add_insets b (rect_sub a b) = a.
Proof. exact rect_sub_is_insets. Qed.

Theorem C20_inflate_is_insets : forall (a : Rect R) (w h : R), nonneg a ->
  rect_inflate a w h = rect_add_insets a (mkInsets w h w h).
Proof. exact inflate_is_insets. Qed.

Theorem C20_rounding_order : forall x : R,
  let fl := ffloor x in let ce := fceil x in let tr := ftrunc x in let ro := fround x in
  fl <= tr <= ce /\ fl <= ro <= ce /\ fl <= x <= ce /\ x < fl + 1 /\ ce - 1 < x /\
  Rabs tr <= Rabs x.
Proof. exact rounding_order. Qed.

Theorem C20_expand_away_from_zero : forall x : R,
  let e := fexpand x in
  is_int e /\ Rabs x <= Rabs e /\ Rabs e < Rabs x + 1 /\ (0 <= x -> 0 <= e) /\ (x < 0 -> e <= 0).
Proof. exact fexpand_away. Qed.

Theorem C20_rect_tiling : forall (x0 xm x1 y0 y1 : R) (p : Point R), x0 <= xm <= x1 ->
  let l := mkRect x0 y0 xm y1 in let r := mkRect xm y0 x1 y1 in let whole := mkRect x0 y0 x1 y1 in
  rect_contains whole p = xorb (rect_contains l p) (rect_contains r p) /\
  (rect_contains l p && rect_contains r p = false).
Proof. exact rect_tiling_x. Qed.

(** non-vacuity: the hypotheses are met by concrete rectangles *)
Example C20_hyps_satisfiable :
  nonneg (mkRect 0 0 2 1) /\ nonneg (mkRect 1 0 3 2) /\ meet (mkRect 0 0 2 1) (mkRect 1 0 3 2) /\
  ~ meet (mkRect 0 0 1 1) (mkRect 2 2 3 3).
Proof. exact hyps_satisfiable. Qed.
