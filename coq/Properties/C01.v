(** C01 — winding number and containment are topologically correct.

    Real instance of model/Winding.v (kurbo's ray cast run in exact arithmetic), plus facts about its
    binary64 run. Statements only; proofs in proofs/C01_proofs.v and proofs/C01_float.v.

    [winding_inner], [seg_winding], [path_winding], [path_contains] are the behaviour the property requires
    (= the code with proposed_fixes/C01-*.diff applied); [..._pinned] is the code of the pinned tree, which the
    [..._refuted] facts show to miscount. The per-piece theorems hold for both variants. *)
From Coq Require Import ZArith Reals List Bool Floats.
From KV Require Import Scalar RInst F64 Geom Curves Path Solvers Winding WindingSpec C01_proofs.
From KV Require C01_float C01_order C01_float_order C01_topological.
Import ListNotations.
Local Open Scope R_scope.

(** ** 1. The per-piece ray cast is the classical half-open crossing rule *)

(** On a line piece, for EVERY p: -1 (upward) / +1 (downward) iff ymin <= p.y < ymax and the abscissa
    x0 + (p.y - y0)(x1 - x0)/(y1 - y0) of the edge's point on the row of p is <= p.x; 0 otherwise.
    (The code compares [(a p.x + b p.y - c) * sign <= 0]: the crossing itself counts.) *)
Theorem C01_line_piece_crossing : forall (fx : bool) (l : Line R) (p : Point R),
  winding_inner_gen fx (SegLine l) p = edge_crossing (l0 l) (l1 l) p.
Proof. exact line_piece_crossing_gen. Qed.

(** the two x-extent early outs are consistent with that rule: the crossing abscissa lies between the end abscissae *)
Theorem C01_line_early_outs_consistent : forall s e p : Point R, py s <> py e ->
  Rmin (py s) (py e) <= py p <= Rmax (py s) (py e) ->
  Rmin (px s) (px e) <= edge_x_at s e p <= Rmax (px s) (px e).
Proof. exact edge_x_at_between. Qed.

(** A quadratic piece that is monotone in y (y injective on [0,1]) and whose row range contains the row of p:
    the crossing parameter t decides, by x(t) <= p.x. Guard: the y-polynomial has degree 2 (the solver divides
    by its leading coefficient; binary64 reaches a separate linear branch when the quotient overflows).
    Uses C15's theorem that the model of [solve_quadratic] returns exactly the real roots. *)
Theorem C01_quad_piece_crossing : forall (fx : bool) (q : QuadBez R) (p : Point R) (t : R),
  py (q2 q) - 2 * py (q1 q) + py (q0 q) <> 0 ->
  y_injective (quad_eval q) -> 0 <= t <= 1 -> py (quad_eval q t) = py p ->
  Rmin (py (q0 q)) (py (q2 q)) <= py p < Rmax (py (q0 q)) (py (q2 q)) ->
  winding_inner_gen fx (SegQuad q) p =
    if Rle_dec (px (quad_eval q t)) (px p) then dir_sign (py (q0 q)) (py (q2 q)) else 0%Z.
Proof. exact quad_piece_crossing. Qed.

(** The same for cubic pieces, given the named hypothesis that the cubic solver returns exactly the real
    roots whenever the leading coefficient is non-zero. *)
Theorem C01_cubic_piece_crossing_partial : forall (fx : bool) (c : CubicBez R) (p : Point R) (t : R),
  cubic_solver_exact ->
  py (c3 c) - 3 * py (c2 c) + 3 * py (c1 c) - py (c0 c) <> 0 ->
  y_injective (cubic_eval c) -> 0 <= t <= 1 -> py (cubic_eval c t) = py p ->
  Rmin (py (c0 c)) (py (c3 c)) <= py p < Rmax (py (c0 c)) (py (c3 c)) ->
  winding_inner_gen fx (SegCubic c) p =
    if Rle_dec (px (cubic_eval c t)) (px p) then dir_sign (py (c0 c)) (py (c3 c)) else 0%Z.
Proof. exact cubic_piece_crossing_partial. Qed.

(** C15 proves that hypothesis for the real run of model/Solvers.v ([solve_cubic_exact]); what stays open
    for cubics is rounding: the binary64 solver loses the roots when the leading coefficient is of rounding
    size (degree-raised quadratics; known finding, see docs/C01.md). *)
Theorem C01_cubic_solver_hypothesis_holds_for_the_model : cubic_solver_exact.
Proof. exact cubic_solver_exact_C15. Qed.

(** a piece that spans the row of p meets it (intermediate values): together with the two theorems above this
    determines the contribution of every monotone piece, and shows that the "no root in [0,1]" exit of the
    loop over the solver's roots is unreachable in exact arithmetic *)
Theorem C01_piece_row_has_crossing : forall (s : PathSeg R) (p : Point R),
  Rmin (py (seg_start s)) (py (seg_end s)) <= py p <= Rmax (py (seg_start s)) (py (seg_end s)) ->
  exists t, 0 <= t <= 1 /\ py (seg_eval s t) = py p.
Proof. exact piece_row_has_crossing. Qed.

(** a piece whose row range does not contain the row of p contributes nothing *)
Theorem C01_piece_out_of_rows : forall (fx : bool) (s : PathSeg R) (p : Point R),
  (py p < Rmin (py (seg_start s)) (py (seg_end s)) \/ Rmax (py (seg_start s)) (py (seg_end s)) <= py p) ->
  winding_inner_gen fx s p = 0%Z.
Proof. exact piece_out_of_rows. Qed.

(** ** 2. Telescoping: a closed chain of pieces about a point outside *)

(** A piece (any kind, monotone or not) all of whose control points are on or left of the column of p
    contributes above(start) - above(end), by comparisons only — whatever the row of p, in particular when
    p.y equals the ordinate of a vertex, an end point or an extremum. *)
Theorem C01_piece_right_of_all : forall (fx : bool) (s : PathSeg R) (p : Point R),
  (forall c, In c (seg_ctrl s) -> px c <= px p) ->
  winding_inner_gen fx s p = (above p (seg_start s) - above p (seg_end s))%Z.
Proof. exact piece_right_of_all. Qed.

(** Hence any closed chain of pieces whose consecutive end points are EQUAL VALUES sums to 0 about such a point.
    (On the other side, p left of every control point, every piece contributes 0 by the first early out.) *)
Theorem C01_closed_chain_outside_zero : forall (fx : bool) (ps : list (PathSeg R)) (p : Point R),
  closed_chain ps -> right_of_all p ps -> sum_Z (map (fun s => winding_inner_gen fx s p) ps) = 0%Z.
Proof. exact closed_chain_outside_right_zero. Qed.

Theorem C01_chain_outside_left_zero : forall (fx : bool) (ps : list (PathSeg R)) (p : Point R),
  left_of_all p ps -> sum_Z (map (fun s => winding_inner_gen fx s p) ps) = 0%Z.
Proof. exact chain_outside_left_zero. Qed.

(** The same on binary64 (no rounding is involved on this path through the code: only comparisons, min, max):
    for the binary64 run of the model, every closed chain of pieces whose consecutive end points are the same
    binary64 values sums to 0 about every finite point p with every control abscissa <= p.x — on every row,
    vertex / end-point / extremum rows included. This is what the pinned tree's "-1 two units outside a
    hexagon" contradicts (there the chain is broken: see [C01_pinned_line_piece_endpoint_refuted]). *)
Theorem C01_closed_chain_outside_zero_f64 : forall (fx : bool) (ps : list (PathSeg float)) (p : Point float),
  C01_float_order.fin (px p) -> C01_float_order.fin (py p) -> closed_chain ps ->
  (forall s c, In s ps -> In c (C01_order.seg_ctrl_g s) ->
     C01_float_order.fin (px c) /\ C01_float_order.fin (py c) /\ PrimFloat.leb (px c) (px p) = true) ->
  sum_Z (map (fun s => winding_inner_gen fx s p) ps) = 0%Z.
Proof. exact C01_float_order.closed_chain_outside_zero_f64. Qed.

(** binary64, whole paths: every closed polygon [MoveTo v0; LineTo v1; ...; ClosePath] with finite coordinates,
    every finite p with every vertex abscissa <= p.x: the binary64 run of the model returns winding 0 and "not
    contained", on every row (a closing edge between vertices that are equal as numbers, e.g. +0 and -0, is
    handled). The pinned model violates exactly this ([C01_pinned_vertex_row_refuted]). *)
Theorem C01_polygon_outside_zero_f64 : forall (v0 : Point float) (vs : list (Point float)) (p : Point float),
  C01_float_order.fin (px p) -> C01_float_order.fin (py p) ->
  (forall v, In v (v0 :: vs) ->
     C01_float_order.fin (px v) /\ C01_float_order.fin (py v) /\ PrimFloat.leb (px v) (px p) = true) ->
  path_winding (C01_order.polygon_els_g v0 vs) p = Some 0%Z /\
  path_contains (C01_order.polygon_els_g v0 vs) p = Some false.
Proof. exact C01_float_order.polygon_outside_right_zero_f64. Qed.

(** ** 5. The monotone pieces of a segment share their end points *)

(** real instance: the pieces [extrema_ranges + subsegment] (and the required pieces, which keep a segment
    without interior extrema as it is) form a chain from the segment's start to its end *)
Theorem C01_pieces_share_endpoints : forall (fx : bool) (s : PathSeg R),
  chain_from_to (seg_start s) (w_pieces_gen fx s) (seg_end s).
Proof. exact pieces_share_endpoints. Qed.

(** any scalar instance, binary64 included: consecutive sub-segments store the very same value [eval(t)] *)
Theorem C01_pieces_consecutive_generic : forall (T : Type) (S : Scalar T) (s : PathSeg T),
  chain_from_to (seg_eval s f0) (w_subpieces s) (seg_eval s f1).
Proof. exact @subpieces_chain_generic. Qed.

(** binary64, pinned tree: for a LINE the single piece [subsegment(0..1)] does not end at the stored end point
    ([eval(1) = p0 + 1.0 * (p1 - p0)] rounds) — REFUTED by evaluation; the required pieces keep the line *)
Theorem C01_pinned_line_piece_endpoint_refuted :
  exists (l : Line float) (pc : PathSeg float), w_pieces_pinned (SegLine l) = [pc] /\
    PrimFloat.eqb (py (seg_end pc)) (py (l1 l)) = false /\ w_pieces (SegLine l) = [SegLine l].
Proof. exact C01_float.pinned_line_piece_endpoint_refuted. Qed.

(** and that is why the pinned tree reports winding -1 (and [contains]) for a point two units outside a
    regular hexagon, on the row of one of its vertices — reproduced inside Coq; the required model says 0 *)
Theorem C01_pinned_vertex_row_refuted :
  exists (els : list (PathEl float)) (p : Point float),
    forallb (fun x => PrimFloat.ltb x (px p)) (C01_float.ctrl_abscissae els) = true /\
    path_winding_pinned els p = Some (-1)%Z /\ path_contains_pinned els p = Some true /\
    path_winding els p = Some 0%Z.
Proof. exact C01_float.pinned_vertex_row_refuted. Qed.

(** binary64, pinned tree: a monotone quadratic piece spanning the row of p (p.y = its lower end ordinate, the
    row the half-open rule assigns to it) reports no crossing although p is far to the right of that end point:
    the root t = 1 comes out of the solver as 1 + 2^-52. REFUTED; the required model counts it. *)
Theorem C01_pinned_boundary_root_refuted :
  exists (s : PathSeg float) (p : Point float),
    winding_inner_pinned s p = 0%Z /\ winding_inner s p = 1%Z.
Proof. exact C01_float.pinned_boundary_root_refuted. Qed.

(** every piece the ray cast is applied to (both variants), for a line, a quadratic whose y-polynomial has degree 2
    or a cubic whose y-polynomial has degree 3, is monotone in y — it meets the hypotheses of the per-piece
    theorems — or is a single point, which contributes 0. (Quadratics: the split parameter is the zero of y';
    cubics: the sorted roots of x' and y' from C15's quadratic solver theorem, and Rolle.) *)
Theorem C01_pieces_monotone : forall (fx : bool) (s : PathSeg R), full_degree_y s ->
  forall pc, In pc (w_pieces_gen fx s) -> regular_piece pc \/ seg_start pc = seg_end pc.
Proof. exact pieces_monotone. Qed.

Theorem C01_flat_piece_zero : forall (fx : bool) (s : PathSeg R) (p : Point R),
  py (seg_start s) = py (seg_end s) -> winding_inner_gen fx s p = 0%Z.
Proof. exact piece_flat_zero. Qed.

(** with the chain property, the telescoping theorem applies to whole paths: closed chain of segments, p on or
    right of every control column of the pieces *)
Theorem C01_closed_path_outside_zero : forall (fx : bool) (segs : list (PathSeg R)) (p a : Point R),
  chain_from_to a segs a -> right_of_all p (flat_map (w_pieces_gen fx) segs) ->
  segs_winding_gen fx segs p = 0%Z.
Proof. exact segs_outside_right_zero. Qed.

(** ** 3. Closed polygons: the model's winding number is the classical half-open crossing number, for EVERY p
       (vertex rows included; p on the path included, where the number is the rule's convention) *)
Theorem C01_polygon_winding_crossing_number : forall (v0 : Point R) (vs : list (Point R)) (p : Point R),
  path_winding (polygon_els v0 vs) p = Some (poly_crossing_number v0 vs p).
Proof. exact polygon_winding_crossing_number. Qed.

(** and it is 0 for every p outside the box of the vertices, on any side *)
Theorem C01_polygon_outside_zero : forall (v0 : Point R) (vs : list (Point R)) (p : Point R),
  (forall v, In v (v0 :: vs) -> px v <= px p) \/ (forall v, In v (v0 :: vs) -> px p < px v) \/
  (forall v, In v (v0 :: vs) -> py p < py v) \/ (forall v, In v (v0 :: vs) -> py v <= py p) ->
  path_winding (polygon_els v0 vs) p = Some 0%Z.
Proof. exact polygon_outside_zero. Qed.

(** ** 4. Metamorphic laws at the model level *)

(** reversing a monotone piece negates its contribution (lines: every p, unconditionally) *)
Theorem C01_winding_reverse : forall (fx : bool) (s : PathSeg R) (p : Point R),
  regular_piece s -> winding_inner_gen fx (seg_reverse s) p = (- winding_inner_gen fx s p)%Z.
Proof. exact winding_inner_reverse. Qed.

(** hence reversing a chain of pieces (reverse each, reverse the order) negates the sum *)
Theorem C01_chain_reverse : forall (fx : bool) (ps : list (PathSeg R)) (p : Point R),
  (forall s, In s ps -> regular_piece s) ->
  sum_Z (map (fun s => winding_inner_gen fx s p) (rev (map (fun s => seg_reverse s) ps))) =
  (- sum_Z (map (fun s => winding_inner_gen fx s p) ps))%Z.
Proof. exact chain_reverse_regular. Qed.

(** reversing a closed polygon negates its winding number, for every p *)
Theorem C01_polygon_winding_reverse : forall (v0 : Point R) (vs : list (Point R)) (p : Point R) (w : Z),
  path_winding (polygon_els v0 vs) p = Some w -> path_winding (polygon_els v0 (rev vs)) p = Some (- w)%Z.
Proof. exact polygon_winding_reverse. Qed.

(** splitting a line piece at an interior parameter leaves the sum unchanged, for every p: the half-open rows
    [y0, ym) and [ym, y1) partition [y0, y1) *)
Theorem C01_winding_split_line : forall (fx : bool) (l : Line R) (p : Point R) (t : R), 0 < t < 1 ->
  Z.add (winding_inner_gen fx (SegLine (line_subsegment l 0 t)) p)
        (winding_inner_gen fx (SegLine (line_subsegment l t 1)) p)
  = winding_inner_gen fx (SegLine l) p.
Proof. exact winding_split_line. Qed.

(** the same for every monotone piece (lines, and curved pieces under the guards of section 1), for every p:
    the sub-segments [0,t] and [t,1] of a monotone piece are monotone, their rows partition the piece's rows,
    and the crossing is the same point of the curve *)
Theorem C01_winding_split : forall (fx : bool) (s : PathSeg R) (p : Point R) (t : R),
  regular_piece s -> 0 < t < 1 ->
  Z.add (winding_inner_gen fx (seg_subsegment s 0 t) p) (winding_inner_gen fx (seg_subsegment s t 1) p)
  = winding_inner_gen fx s p.
Proof. exact winding_split. Qed.

(** one statement of the per-piece rule for the three kinds *)
Theorem C01_piece_crossing : forall (fx : bool) (s : PathSeg R) (p : Point R) (t : R),
  regular_piece s -> 0 <= t <= 1 -> py (seg_eval s t) = py p ->
  Rmin (py (seg_start s)) (py (seg_end s)) <= py p < Rmax (py (seg_start s)) (py (seg_end s)) ->
  winding_inner_gen fx s p =
    if Rle_dec (px (seg_eval s t)) (px p) then dir_sign (py (seg_start s)) (py (seg_end s)) else 0%Z.
Proof. exact piece_crossing. Qed.

(** containment is "winding number non-zero" *)
Theorem C01_contains_iff_nonzero : forall (els : list (PathEl R)) (p : Point R) (w : Z),
  path_winding els p = Some w -> path_contains els p = Some (negb (w =? 0)%Z).
Proof. exact contains_iff_nonzero. Qed.

(** ** Non-vacuity *)

(* the unit square, counter-clockwise (positive signed area), about its centre: +1 *)
Example C01_ex_square :
  path_winding (polygon_els (mkPoint 0 0) [mkPoint 1 0; mkPoint 1 1; mkPoint 0 1]) (mkPoint (/ 2) (/ 2)) = Some 1%Z.
Proof. exact ex_square. Qed.
(* ... and about a point on the row of two of its vertices, outside: 0; reversed: -1 *)
Example C01_ex_square_vertex_row :
  path_winding (polygon_els (mkPoint 0 0) [mkPoint 1 0; mkPoint 1 1; mkPoint 0 1]) (mkPoint 3 1) = Some 0%Z.
Proof. exact ex_square_vertex_row. Qed.
Example C01_ex_square_reversed :
  path_winding (polygon_els (mkPoint 0 0) (rev [mkPoint 1 0; mkPoint 1 1; mkPoint 0 1])) (mkPoint (/ 2) (/ 2)) = Some (-1)%Z.
Proof. exact ex_square_reversed. Qed.
(* a quadratic piece meeting the hypotheses of [C01_quad_piece_crossing] *)
Example C01_ex_quad_piece :
  let q := mkQuad (mkPoint 0 0) (mkPoint 1 1) (mkPoint 0 3) in
  regular_piece (SegQuad q) /\
  winding_inner (SegQuad q) (mkPoint 2 (5 / 4)) = (-1)%Z /\ winding_inner (SegQuad q) (mkPoint (/ 4) (5 / 4)) = 0%Z.
Proof. exact ex_quad_piece. Qed.
(* a closed chain with a curved piece and a point on an end-point row to its right *)
Example C01_ex_closed_chain :
  let ps := [SegQuad (mkQuad (mkPoint 0 0) (mkPoint 1 1) (mkPoint 0 3)); SegLine (mkLine (mkPoint 0 3) (mkPoint 0 0))] in
  closed_chain ps /\ right_of_all (mkPoint 5 3) ps.
Proof. exact ex_closed_chain. Qed.

(** ** 6. Closed polygons: the model's winding number IS the topological winding number

    [polygon_topological_winding v0 vs p] (spec/WindingSpec.v) is (1 / 2 pi) times the sum over the edges of the closed
    polygon (closing edge included) of the signed angle in (-pi, pi) the edge subtends at p,
    atan2 (cross (s - p) (e - p)) (dot (s - p) (e - p)), counter-clockwise positive in (x right, y up) axes — the
    orientation in which kurbo's signed area is positive. For EVERY closed polygon and EVERY p not on it (vertex
    rows included) the model returns exactly that number. Proof (proofs/C01_topological.v): per edge,
    dtheta = phi(end) - phi(start) + 2 pi * (half-open crossing of the leftward ray), phi being the argument with
    its branch cut on the ray the code casts (the ray itself on the lower sheet); the phi terms telescope. *)
Theorem C01_polygon_winding_topological : forall (v0 : Point R) (vs : list (Point R)) (p : Point R),
  off_polygon v0 vs p ->
  exists w : Z, path_winding (polygon_els v0 vs) p = Some w /\ IZR w = polygon_topological_winding v0 vs p.
Proof. exact C01_topological.polygon_winding_topological. Qed.

(** the per-edge identity behind it *)
Theorem C01_edge_angle_crossing : forall s e p : Point R, ~ on_edge s e p ->
  edge_dtheta p s e =
  C01_topological.phiP p e - C01_topological.phiP p s + 2 * PI * IZR (edge_crossing s e p).
Proof. exact C01_topological.edge_dtheta_crossing. Qed.

(** the classical crossing number of a closed polygon is its topological winding number (no model involved) *)
Theorem C01_crossing_number_topological : forall (v0 : Point R) (vs : list (Point R)) (p : Point R),
  off_polygon v0 vs p -> IZR (poly_crossing_number v0 vs p) = polygon_topological_winding v0 vs p.
Proof. exact C01_topological.polygon_crossing_number_topological. Qed.

(* non-vacuity and sign convention: the counter-clockwise unit square about its centre *)
Example C01_ex_square_off_polygon :
  off_polygon (mkPoint 0 0) [mkPoint 1 0; mkPoint 1 1; mkPoint 0 1] (mkPoint (/ 2) (/ 2)).
Proof. exact C01_topological.ex_square_off. Qed.
Example C01_ex_square_topological :
  polygon_topological_winding (mkPoint 0 0) [mkPoint 1 0; mkPoint 1 1; mkPoint 0 1] (mkPoint (/ 2) (/ 2)) = 1.
Proof. exact C01_topological.ex_square_topological. Qed.
Example C01_ex_edge_quarter_turn :
  edge_dtheta (mkPoint (/ 2) (/ 2)) (mkPoint 0 0) (mkPoint 1 0) = PI / 2.
Proof. exact C01_topological.ex_edge_quarter_turn. Qed.

(** ** The full property (NOT proved): for every closed path and every point off the path the ray cast equals
    the topological winding number (1/2pi) * sum over segments of the integral of d(theta); an affine map
    multiplies it by the sign of its determinant. Proved above: the polygon case in full (section 6: ray cast = angle-sum winding number; the angle sum equals
    the integral of d(theta) along each straight edge, which is not formalised), the per-piece
    rule for monotone curved pieces in exact arithmetic, and the outside/reversal/splitting consequences.
    Missing for curved paths: (i) the degenerate degrees (y-polynomial of lower degree than the segment's kind: the
    real-number run of the solver models is meaningless there; binary64 takes the solvers' other branches), (ii) the crossing count of a monotone piece equals its change of argument across
    the cut ray (a lifting argument with [atan2], per piece), (iii) rounding. *)
Definition C01_full_statement : Prop :=
  forall (els : list (PathEl R)) (segs : list (PathSeg R)) (a p : Point R),
    segments els = Some segs -> chain_from_to a segs a -> (forall s, In s segs -> off_seg s p) ->
    exists w : Z, path_winding els p = Some w /\ IZR w = topological_winding segs p.
