(** C01 — winding number and containment. Statements only. (under construction) *)
From Coq Require Import ZArith Reals List Bool.
From KV Require Import Scalar RInst Geom Curves Path Solvers Winding.
Local Open Scope R_scope.

Theorem C01_contains_iff_nonzero : forall (els : list (PathEl R)) (p : Point R) (w : Z),
  path_winding els p = Some w -> path_contains els p = Some (negb (w =? 0)%Z).
Proof. intros els p w Hw. unfold path_contains, path_contains_gen. fold (path_winding els p). rewrite Hw. reflexivity. Qed.
