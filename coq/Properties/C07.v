(** C07 — Element and segment views of a path are coherent.

    Real instance of model/Path.v ([segments] = [Segments::next], shared) and model/PathOps.v
    ([get_seg] as pinned, [get_seg_req] = the required behaviour = the code after
    proposed_fixes/C07-get-seg.diff, [reverse_subpaths], [from_path_segments], the builder).
    Vocabulary: spec/PathSpec.v. Statements only; proofs in proofs/C07_proofs.v.
    Every theorem quantifies over ALL element lists (no length bound). At the real instance
    the point comparison of the code reflects equality; on binary64 it does not for -0/NaN. *)
From Coq Require Import ZArith Reals Bool List.
From KV Require Import Scalar RInst Geom Curves Path PathOps PathSpec C07_proofs.
Import ListNotations.

Notation El := (PathEl R).
Notation Seg := (PathSeg R).

(** ** 1. looking a segment up by element index agrees with iterating
    [outs] is what each element contributes to [segments] ([None] = nothing): for a path that
    begins with MoveTo, [get_seg i] is exactly the contribution of element [i] (so [None] at 0,
    beyond the end, at MoveTo, and at a ClosePath that is already at its start). *)
Theorem C07_get_seg_spec : forall els : list El, starts_with_moveto els ->
  exists outs, outs_from None els = Some outs /\
               segments els = Some (cat_somes outs) /\
               length outs = length els /\
               forall i, get_seg_req els i = nth i outs None.
Proof. exact (get_seg_req_spec pt_eqb_RS). Qed.

(** the Shape segment iterator of a BezPath / element slice is [segments] of the elements *)
Theorem C07_shape_path_segments_eq : forall els : list El, shape_path_segments els = segments els.
Proof. reflexivity. Qed.

(** The pinned [get_seg] violates the statement in two corners.
    (a) the element right after a ClosePath: M(0,0) L(1,0) Z L(0,1), index 3 *)
Theorem C07_get_seg_spec_refuted_after_closepath :
  exists (els : list El) (i : nat) outs,
    starts_with_moveto els /\ outs_from None els = Some outs /\
    nth_error els (i - 1) = Some ClosePath /\
    get_seg els i = None /\ nth i outs None = Some (SegLine (mkLine wa wc)).
Proof. exact get_seg_spec_refuted_after_closepath_R. Qed.

(** (b) a ClosePath on a degenerate sub-path picks an EARLIER sub-path's MoveTo:
    M(0,0) M(1,0) Z, index 2 *)
Theorem C07_get_seg_spec_refuted_degenerate_closepath :
  exists (els : list El) (i : nat) outs,
    starts_with_moveto els /\ outs_from None els = Some outs /\
    nth_error els i = Some ClosePath /\
    get_seg els i = Some (SegLine (mkLine wb wa)) /\ nth i outs None = None.
Proof. exact get_seg_spec_refuted_degenerate_closepath_R. Qed.

(** ... and nowhere else: away from a ClosePath (as the element itself or as its predecessor) the
    pinned code already returns what [segments] emits *)
Theorem C07_get_seg_pinned_partial : forall (els : list El) (i : nat),
  nth_error els (i - 1) <> Some ClosePath -> nth_error els i <> Some ClosePath ->
  get_seg els i = get_seg_req els i.
Proof. exact (@get_seg_agrees_off_corners R _). Qed.

(** ** 2. ClosePath contributes the closing line exactly when the sub-path is not at its start
    [cur_start pre] = point of the last MoveTo of the prefix, [cur_point pre] = where its last
    element ends. *)
Theorem C07_closepath_line_iff : forall pre post : list El, starts_with_moveto pre ->
  exists start cur outs,
    cur_start pre = Some start /\ cur_point pre = Some cur /\
    outs_from None (pre ++ ClosePath :: post) = Some outs /\
    (cur <> start -> nth (length pre) outs None = Some (SegLine (mkLine cur start))) /\
    (cur = start -> nth (length pre) outs None = None) /\
    cur_point (pre ++ [ClosePath]) = Some start.
Proof. exact closepath_line_iff_R. Qed.

(** ** 3. rebuilding a path from its own segments *)
Theorem C07_rebuild_segments : forall (els : list El) (segs : list Seg),
  segments els = Some segs -> segments (from_path_segments segs) = Some segs.
Proof. intros els segs _. exact (rebuild_segments_any pt_eqb_RS segs). Qed.

(** in fact for every segment list, connected or not *)
Theorem C07_rebuild_segments_any : forall segs : list Seg,
  segments (from_path_segments segs) = Some segs.
Proof. exact (rebuild_segments_any pt_eqb_RS). Qed.

(** no spurious breaks: one MoveTo to begin with and one per place where consecutive segments do
    not join; every other element draws one segment *)
Theorem C07_rebuild_no_spurious_moves : forall segs : list Seg,
  count_moveto (from_path_segments segs) = match segs with [] => 0 | _ => 1 + discontinuities segs end /\
  length (from_path_segments segs) = length segs + count_moveto (from_path_segments segs).
Proof. exact rebuild_no_spurious_moves_R. Qed.

(** ** 4. reversing sub-paths
    [chunks els] are the sub-paths (start point, drawing elements, closed?), [chunk_segs] their
    segments (which concatenate to [segments els]). The reversed path consists of the reversed
    sub-paths in the same order, closedness preserved; an open sub-path yields the reversed
    segments in reverse order, a closed one the same up to rotation by one position (exactly when
    it needs a closing line, which moves from the front to the back). *)
Theorem C07_reverse_spec : forall els : list El, starts_with_moveto els ->
  let cs := chunks els in
  Forall (@chunk_wf R) cs /\
  segments els = Some (flat_map (@chunk_segs R _) cs) /\
  (exists r, reverse_subpaths els = Some r /\
             r = flat_map (@render R) (map (@rev_chunk R) cs) /\
             chunks r = map (@rev_chunk R) cs /\
             segments r = Some (flat_map (@chunk_segs R _) (map (@rev_chunk R) cs))) /\
  Forall (fun c =>
            ch_closed (rev_chunk c) = ch_closed c /\
            (ch_closed c = false ->
             chunk_segs (rev_chunk c) = rev (map (@seg_reverse R) (chunk_segs c))) /\
            (ch_closed c = true ->
             let Rv := rev (map (@seg_reverse R) (chunk_segs c)) in
             chunk_segs (rev_chunk c) = (if pt_neb (chunk_end c) (ch_start c) then rotl1 Rv else Rv))) cs.
Proof. exact reverse_spec_R. Qed.

(** reversing twice restores the segment sequence exactly (the elements are restored up to
    writing every sub-path with its own MoveTo) — for paths that begin with MoveTo ... *)
Theorem C07_reverse_twice_segments : forall els : list El, starts_with_moveto els ->
  exists r1 r2, reverse_subpaths els = Some r1 /\ reverse_subpaths r1 = Some r2 /\
                segments r2 = segments els /\ r2 = flat_map (@render R) (chunks els).
Proof. exact reverse_twice_segments_R. Qed.

(** ... and that side condition is needed: [LineTo (1,0)] alone *)
Theorem C07_reverse_twice_needs_moveto :
  exists els : list El, ~ starts_with_moveto els /\
    exists r1 r2, reverse_subpaths els = Some r1 /\ reverse_subpaths r1 = Some r2 /\
                  segments r2 <> segments els.
Proof. exact reverse_twice_needs_moveto_R. Qed.

(** ** 5. builder histories: the path is its element vector, whatever the history; the views of
    the result are those of the resulting list, and editing changes the segment view
    incrementally *)
Theorem C07_builder_history : forall (h : list (BOp (T:=R))) (l : list El) pops,
  run_history [] h = (l, pops) -> starts_with_moveto l ->
  shape_path_segments l = segments l /\
  exists outs, outs_from None l = Some outs /\ segments l = Some (cat_somes outs) /\
               length outs = length l /\ forall i, get_seg_req l i = nth i outs None.
Proof. exact builder_history_R. Qed.

Theorem C07_builder_push : forall (l : list El) (e : El), starts_with_moveto l ->
  exists start cur segs st' out,
    cur_start l = Some start /\ cur_point l = Some cur /\ segments l = Some segs /\
    seg_step (Some (start, cur)) e = Some (st', out) /\
    segments (bp_push l e) = Some (segs ++ match out with Some s => [s] | None => [] end).
Proof. exact (push_segments pt_eqb_RS). Qed.

Theorem C07_builder_extend : forall l it : list El, starts_with_moveto l ->
  exists segs rest, segments l = Some segs /\ segments (bp_extend l it) = Some (segs ++ rest).
Proof. exact (@extend_segments R _). Qed.

Theorem C07_builder_truncate : forall (l : list El) (n : nat), starts_with_moveto l ->
  exists segs segs' rest, segments l = Some segs /\ segments (bp_truncate l n) = Some segs' /\
                          segs = segs' ++ rest.
Proof. exact (@truncate_segments R _). Qed.

Theorem C07_builder_pop : forall l : list El, starts_with_moveto l ->
  exists segs segs' rest, segments l = Some segs /\ segments (fst (bp_pop l)) = Some segs' /\
                          segs = segs' ++ rest /\ length rest <= 1.
Proof. exact (@pop_segments R _). Qed.

(** ** non-vacuity *)
Example C07_ex_hypothesis_met : starts_with_moveto [MoveTo wa; LineTo wb; LineTo wc; ClosePath].
Proof. exact I. Qed.
Example C07_ex_closed_triangle_chunks :
  chunks [MoveTo wa; LineTo wb; LineTo wc; ClosePath; LineTo wb]
  = [mkChunk wa [LineTo wb; LineTo wc] true; mkChunk wa [LineTo wb] false].
Proof. reflexivity. Qed.
Example C07_ex_history_reaches_moveto_path :
  exists h, fst (run_history ([] : list El) h) = [MoveTo wa; LineTo wc] /\
            starts_with_moveto (fst (run_history ([] : list El) h)).
Proof.
  exists [OpPush (MoveTo wa); OpExtend [LineTo wb; ClosePath]; OpPop; OpTruncate 1; OpPush (LineTo wc)].
  split; [reflexivity|exact I].
Qed.
