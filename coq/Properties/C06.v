(** C06 — Evaluation, sub-segments, subdivision, derivative and reversal agree.
    Real instance of model/Curves.v. Statements only. *)
From Coq Require Import ZArith Reals Bool.
From Coquelicot Require Import Coquelicot.
From KV Require Import Scalar RInst Geom Curves C06_proofs.
Local Open Scope R_scope.

(** The sub-segment over [t0,t1] traces the same points as the original restricted to that
    range — for all real t0, t1, u (so also t0 > t1 and t0 = t1). *)
Theorem C06_subsegment_eval : forall (s : PathSeg R) (t0 t1 u : R),
  seg_eval (seg_subsegment s t0 t1) u = seg_eval s (t0 + u * (t1 - t0)).
Proof. exact seg_subsegment_eval. Qed.

Theorem C06_subsegment_endpoints : forall (s : PathSeg R) (t0 t1 : R),
  seg_start (seg_subsegment s t0 t1) = seg_eval s t0 /\ seg_end (seg_subsegment s t0 t1) = seg_eval s t1.
Proof. exact seg_subsegment_endpoints. Qed.

(** evaluation at 0 and 1 agrees with the stored end points *)
Theorem C06_eval_endpoints : forall s : PathSeg R,
  seg_eval s 0 = seg_start s /\ seg_eval s 1 = seg_end s.
Proof. exact seg_eval_endpoints. Qed.

(** subdivision equals the sub-segments at one half *)
Theorem C06_line_subdivide : forall l : Line R,
  line_subdivide l = (line_subsegment l 0 (/ 2), line_subsegment l (/ 2) 1).
Proof. exact line_subdivide_is_subsegment. Qed.
Theorem C06_quad_subdivide : forall q : QuadBez R,
  quad_subdivide q = (quad_subsegment q 0 (/ 2), quad_subsegment q (/ 2) 1).
Proof. exact quad_subdivide_is_subsegment. Qed.
Theorem C06_cubic_subdivide : forall c : CubicBez R,
  cubic_subdivide c = (cubic_subsegment c 0 (/ 2), cubic_subsegment c (/ 2) 1).
Proof. exact cubic_subdivide_is_subsegment. Qed.

(** the derivative curve is the derivative of evaluation *)
Theorem C06_line_deriv : forall (l : Line R) (t : R),
  is_derive (fun u => px (line_eval l u)) t (px (line_deriv l)) /\
  is_derive (fun u => py (line_eval l u)) t (py (line_deriv l)).
Proof. exact line_deriv_is_derivative. Qed.
Theorem C06_quad_deriv : forall (q : QuadBez R) (t : R),
  is_derive (fun u => px (quad_eval q u)) t (px (line_eval (quad_deriv q) t)) /\
  is_derive (fun u => py (quad_eval q u)) t (py (line_eval (quad_deriv q) t)).
Proof. exact quad_deriv_is_derivative. Qed.
Theorem C06_cubic_deriv : forall (c : CubicBez R) (t : R),
  is_derive (fun u => px (cubic_eval c u)) t (px (quad_eval (cubic_deriv c) t)) /\
  is_derive (fun u => py (cubic_eval c u)) t (py (quad_eval (cubic_deriv c) t)).
Proof. exact cubic_deriv_is_derivative. Qed.

(** reversal traces the same curve backwards, swaps the end points, and is an involution *)
Theorem C06_reverse_eval : forall (s : PathSeg R) (t : R),
  seg_eval (seg_reverse s) t = seg_eval s (1 - t).
Proof. exact seg_reverse_eval. Qed.
Theorem C06_reverse_endpoints : forall s : PathSeg R,
  seg_start (seg_reverse s) = seg_end s /\ seg_end (seg_reverse s) = seg_start s.
Proof. exact seg_reverse_endpoints. Qed.
Theorem C06_reverse_involutive : forall s : PathSeg R, seg_reverse (seg_reverse s) = s.
Proof. exact seg_reverse_involutive. Qed.

(** raising the degree moves no point *)
Theorem C06_raise_eval : forall (q : QuadBez R) (t : R), cubic_eval (quad_raise q) t = quad_eval q t.
Proof. exact quad_raise_eval. Qed.
Theorem C06_to_cubic_eval : forall (s : PathSeg R) (t : R),
  cubic_eval (seg_to_cubic s) t = seg_eval s (to_cubic_param s t).
Proof. exact seg_to_cubic_eval. Qed.
Theorem C06_to_cubic_param_range : forall (s : PathSeg R) (t : R),
  0 <= t <= 1 -> 0 <= to_cubic_param s t <= 1.
Proof. exact to_cubic_param_range. Qed.
Theorem C06_to_cubic_endpoints : forall s : PathSeg R,
  c0 (seg_to_cubic s) = seg_start s /\ c3 (seg_to_cubic s) = seg_end s.
Proof. exact seg_to_cubic_endpoints. Qed.
