(** C15 — polynomial solvers. Statements only. *)
From Coq Require Import ZArith Reals List Bool.
From KV Require Import Scalar RInst Solvers C15_proofs.
Import ListNotations.
Local Open Scope R_scope.

Theorem C15_solve_quadratic_length : forall c0 c1 c2 : R, (length (solve_quadratic c0 c1 c2) <= 2)%nat.
Proof. exact quad_len. Qed.
