(** C15 — Polynomial solvers return exactly the real roots; the bracketing solver returns a
    point within epsilon of the sign change.  Statements only; every proof is [exact <lemma>].

    All theorems are about model/Solvers.v (tied to kurbo/src/common.rs by the correspondence
    check) at the real instance RS: the code run in exact arithmetic, where [/] is total
    ([x/0 = 0]) and [fis_finite = true].  Hence every statement carries the guards the float
    code relies on ([c2 <> 0], [c3 <> 0], ...), and the "leading coefficient vanishes" branches
    (which test [is_finite] of a quotient) are stated generically over the scalar type, so that
    they also hold for the binary64 instance.  Rounding is outside these theorems. *)
From Coq Require Import ZArith Reals List Bool Floats Sorting.Sorted Lra Lia.
From KV Require Import Scalar RInst F64 Solvers C15_proofs C15_f64 C15_quartic.
Import ListNotations.
Local Open Scope R_scope.

(** ** Quadratic *)

(** c2 <> 0: exactly the real roots, strictly ascending (a double root appears once) *)
Theorem C15_solve_quadratic_spec : forall c0 c1 c2 : R, c2 <> 0 ->
  let l := solve_quadratic c0 c1 c2 in
  (forall x, In x l <-> c0 + c1 * x + c2 * (x * x) = 0) /\ StronglySorted Rlt l.
Proof. exact solve_quadratic_spec_main. Qed.

(** by discriminant: none / the double root once / two in ascending order *)
Theorem C15_solve_quadratic_by_discriminant : forall c0 c1 c2 : R, c2 <> 0 ->
  let D := c1 * c1 - 4 * c2 * c0 in
  (D < 0 -> solve_quadratic c0 c1 c2 = []) /\
  (D = 0 -> solve_quadratic c0 c1 c2 = [- c1 / (2 * c2)]) /\
  (0 < D -> exists x1 x2, solve_quadratic c0 c1 c2 = [x1; x2] /\ x1 < x2).
Proof. exact solve_quadratic_disc. Qed.

Theorem C15_solve_quadratic_length : forall c0 c1 c2 : R, (length (solve_quadratic c0 c1 c2) <= 2)%nat.
Proof. exact quad_len_any. Qed.

(** c2 zero or negligible (the scaled coefficients overflow): the linear block is used.
    For every scalar instance, in particular binary64. *)
Theorem C15_solve_quadratic_linear_fallback : forall (T : Type) (S : Scalar T) (c0 c1 c2 : T),
  (fis_finite (fmul c0 (fdiv f1 c2)) && fis_finite (fmul c1 (fdiv f1 c2)))%bool = false ->
  solve_quadratic c0 c1 c2 = quad_linear c0 c1.
Proof. exact solve_quadratic_linear_generic. Qed.

(** the linear block: the root of c0 + c1 x for c1 <> 0; [0] when everything vanishes.
    (c1 = 0, c0 <> 0: the float code returns no root because -c0/c1 is infinite; the real
    instance cannot express that and the case is excluded by the guard.) *)
Theorem C15_quad_linear_root : forall c0 c1 : R, c1 <> 0 ->
  quad_linear c0 c1 = [- c0 / c1] /\ c0 + c1 * (- c0 / c1) = 0.
Proof. exact quad_linear_real. Qed.

Theorem C15_quad_linear_all_zero : quad_linear (T:=R) 0 0 = [0].
Proof. exact quad_linear_zero. Qed.

(** ** Cubic *)

(** c3 <> 0: the returned values are exactly the real roots (soundness in all three branches:
    Cardano one-root, double-root, trigonometric three-root; completeness in all three) *)
Theorem C15_solve_cubic_exact : forall c0 c1 c2 c3 x : R, c3 <> 0 ->
  (In x (solve_cubic c0 c1 c2 c3) <-> c0 + c1 * x + c2 * (x * x) + c3 * (x * x * x) = 0).
Proof. exact solve_cubic_exact. Qed.

Theorem C15_solve_cubic_roots : forall c0 c1 c2 c3 x : R, c3 <> 0 ->
  In x (solve_cubic c0 c1 c2 c3) -> c0 + c1 * x + c2 * (x * x) + c3 * (x * x * x) = 0.
Proof. exact solve_cubic_sound. Qed.

(** positive discriminant (of the scaled, depressed cubic): three values, strictly descending *)
Theorem C15_cubic_three_distinct : forall c0 c1 c2 : R,
  let d0 := - c2 * c2 + c1 in
  let d1 := - c1 * c2 + c0 in
  let d2 := c2 * c0 - c1 * c1 in
  let d := 4 * d0 * d2 - d1 * d1 in
  0 < d -> exists x0 x1 x2, cubic_main c0 c1 c2 = [x0; x1; x2] /\ x2 < x1 < x0.
Proof. exact cubic_main_three. Qed.

Theorem C15_solve_cubic_length : forall c0 c1 c2 c3 : R, (length (solve_cubic c0 c1 c2 c3) <= 3)%nat.
Proof. exact solve_cubic_len. Qed.

(** c3 zero or negligible (a scaled coefficient overflows): delegates to the quadratic solver.
    For every scalar instance, in particular binary64. *)
Theorem C15_solve_cubic_delegates : forall (T : Type) (S : Scalar T) (c0 c1 c2 c3 : T),
  (fis_finite (fmul c0 (fdiv f1 c3)) && fis_finite (fmul c1 (fmul (fdiv f1 f3) (fdiv f1 c3)))
   && fis_finite (fmul c2 (fmul (fdiv f1 f3) (fdiv f1 c3))))%bool = false ->
  solve_cubic c0 c1 c2 c3 = solve_quadratic c0 c1 c2.
Proof. exact solve_cubic_delegates_generic. Qed.

(** the repaired variant of the one-root branch (kept in the model for comparison, not in the
    code) is the same real function as the code's formula *)
Theorem C15_cubic_one_root_repaired_same : forall c0 c1 c2 : R,
  let d0 := - c2 * c2 + c1 in
  let d1 := - c1 * c2 + c0 in
  let d2 := c2 * c0 - c1 * c1 in
  4 * d0 * d2 - d1 * d1 < 0 ->
  cubic_one_root_repaired c0 c1 c2 = cubic_one_root_pinned c0 c1 c2.
Proof. exact cubic_one_root_repaired_eq. Qed.

(** ** Quartic *)

(** whatever factor_quartic_inner returns, solve_quartic_inner returns exactly the real roots
    of the two quadratic factors, at most four values *)
Theorem C15_quartic_from_factors : forall (a b c d : R) (rescale : bool),
  match factor_quartic_inner a b c d rescale with
  | Some ((a1, b1), (a2, b2)) =>
      exists l, solve_quartic_inner a b c d rescale = Some l /\ (length l <= 4)%nat /\
        forall x, In x l <-> (x * x + a1 * x + b1 = 0 \/ x * x + a2 * x + b2 = 0)
  | None => solve_quartic_inner a b c d rescale = None
  end.
Proof. exact solve_quartic_inner_spec. Qed.

(** c4 = 0 / c0 = 0 delegation (every scalar instance) *)
Theorem C15_solve_quartic_c4_zero : forall (T : Type) (S : Scalar T) (c0 c1 c2 c3 c4 : T),
  feqb c4 f0 = true -> solve_quartic c0 c1 c2 c3 c4 = solve_cubic c0 c1 c2 c3.
Proof. exact solve_quartic_c4_zero_generic. Qed.

Theorem C15_solve_quartic_c0_zero : forall (T : Type) (S : Scalar T) (c0 c1 c2 c3 c4 : T),
  feqb c4 f0 = false -> feqb c0 f0 = true ->
  solve_quartic c0 c1 c2 c3 c4 = solve_cubic c1 c2 c3 c4 ++ [f0].
Proof. exact solve_quartic_c0_zero_generic. Qed.

Theorem C15_solve_quartic_c0_zero_exact : forall c1 c2 c3 c4 x : R, c4 <> 0 ->
  (In x (solve_quartic 0 c1 c2 c3 c4) <-> quartic_poly 0 c1 c2 c3 c4 x = 0).
Proof. exact solve_quartic_c0_zero_exact. Qed.

(** the general case is PARTIAL: relative to the named, unproved hypothesis [factoring_exact]
    (whenever factor_quartic_inner returns two quadratics, their product is the quartic, in
    exact arithmetic).  Under it: at most four values, every value is a root, and if one of the
    three factoring attempts succeeds every real root is returned.  Missing for the full claim:
    a proof of [factoring_exact] (Orellana-De Michele's LDL^T construction plus the Newton
    polish) and of "all three attempts fail only if there is no real root". *)
Theorem C15_solve_quartic_partial : forall c0 c1 c2 c3 c4 : R,
  factoring_exact -> c4 <> 0 -> c0 <> 0 ->
  let l := solve_quartic c0 c1 c2 c3 c4 in
  (length l <= 4)%nat /\
  (forall x, In x l -> quartic_poly c0 c1 c2 c3 c4 x = 0) /\
  ((exists r, solve_quartic_inner (c3 / c4) (c2 / c4) (c1 / c4) (c0 / c4) false = Some r \/
              solve_quartic_inner (c3 / c4 / sv_K_Q) (c2 / c4 / powerRZ sv_K_Q 2) (c1 / c4 / powerRZ sv_K_Q 3)
                                  (c0 / c4 / powerRZ sv_K_Q 4) false = Some r \/
              solve_quartic_inner (c3 / c4 / sv_K_Q) (c2 / c4 / powerRZ sv_K_Q 2) (c1 / c4 / powerRZ sv_K_Q 3)
                                  (c0 / c4 / powerRZ sv_K_Q 4) true = Some r) ->
   forall x, quartic_poly c0 c1 c2 c3 c4 x = 0 -> In x l).
Proof. exact solve_quartic_general. Qed.

(** *** The factoring step over the reals (Orellana-De Michele), non-rescaled call.
    The hypothesis [factoring_exact] of the partial theorem above is DISCHARGED on the main path:

    - [C15_depressed_cubic_dominant_exact]: for ordinary magnitudes (|g/3| < 1e102, |h/2| < 1e154:
      the branch [k = None]) the value returned by depressed_cubic_dominant is an exact root of
      t^3 + g t + h (trigonometric branch via cos 3θ and cos(acos); Cardano branch via a b = q;
      the Newton refinement stops at once on an exact root);
    - [C15_quartic_exact_given_resolvent_root]: if phi is an exact root of the resolvent cubic
      (coefficients g, h: translation invariant, so the shift s drops out), d_2 is zero or not
      "negligible", and d - l_3^2 <= 0 when d_2 = 0, then whatever factor_quartic_inner returns
      multiplies out to the quartic: the first (d_2, l_2) candidate is exact and is kept, the
      beta/alpha re-derivations and the Newton polish leave an exact factorisation unchanged;
    - [C15_factor_quartic_inner_exact]: both together, no hypothesis left, only guards;
    - [C15_solve_quartic_main_path]: solve_quartic returns exactly the real roots when the first
      factoring attempt succeeds.
    Still unproved: the rescaled retries (K_Q, K_C: they only matter for overflow, which the real
    instance does not have; [C15_solve_quartic_partial] covers them relative to [factoring_exact]),
    the large-magnitude branch [k = Some _] of depressed_cubic_dominant, and "the attempt fails
    (d_2 > 0) => no real root". *)
Theorem C15_depressed_cubic_dominant_exact : forall g h : R,
  Rabs (-1 / 3 * g) < IZR (10 ^ 102) -> Rabs (1 * / 2 * h) < IZR (10 ^ 154) ->
  let x := depressed_cubic_dominant g h in x * x * x + g * x + h = 0.
Proof. exact dcd_exact. Qed.

Theorem C15_quartic_exact_given_resolvent_root : forall (a b c d : R) qs,
  let phi := depressed_cubic_dominant (q_g a b c d) (q_h a b c d) in
  phi * phi * phi + q_g a b c d * phi + q_h a b c d = 0 ->
  (q_d2 a b phi = 0 \/ fq_d2_negligible b phi (q_l1 a) (q_d2 a b phi) = false) ->
  (q_d2 a b phi = 0 -> d - q_l3 b phi * q_l3 b phi <= 0) ->
  factor_quartic_inner a b c d false = Some qs -> quartic_factors_exact a b c d qs.
Proof. exact factor_quartic_inner_exact. Qed.

Theorem C15_factor_quartic_inner_exact : forall (a b c d : R) qs,
  Rabs (-1 / 3 * q_g a b c d) < IZR (10 ^ 102) -> Rabs (1 * / 2 * q_h a b c d) < IZR (10 ^ 154) ->
  let phi := depressed_cubic_dominant (q_g a b c d) (q_h a b c d) in
  (q_d2 a b phi = 0 \/ fq_d2_negligible b phi (q_l1 a) (q_d2 a b phi) = false) ->
  (q_d2 a b phi = 0 -> d - q_l3 b phi * q_l3 b phi <= 0) ->
  factor_quartic_inner a b c d false = Some qs -> quartic_factors_exact a b c d qs.
Proof. exact factor_quartic_inner_exact_main. Qed.

Theorem C15_solve_quartic_main_path : forall c0 c1 c2 c3 c4 : R,
  c4 <> 0 -> c0 <> 0 ->
  let a := c3 / c4 in let b := c2 / c4 in let c := c1 / c4 in let d := c0 / c4 in
  Rabs (-1 / 3 * q_g a b c d) < IZR (10 ^ 102) -> Rabs (1 * / 2 * q_h a b c d) < IZR (10 ^ 154) ->
  let phi := depressed_cubic_dominant (q_g a b c d) (q_h a b c d) in
  (q_d2 a b phi = 0 \/ fq_d2_negligible b phi (q_l1 a) (q_d2 a b phi) = false) ->
  (q_d2 a b phi = 0 -> d - q_l3 b phi * q_l3 b phi <= 0) ->
  factor_quartic_inner a b c d false <> None ->
  let l := solve_quartic c0 c1 c2 c3 c4 in
  (length l <= 4)%nat /\ forall x, In x l <-> quartic_poly c0 c1 c2 c3 c4 x = 0.
Proof. exact solve_quartic_main_path. Qed.

(** ** ITP *)

(** one step: the next evaluation point lies strictly inside the bracket, and both possible
    new brackets have width at most the current scaled epsilon (so the invariant
    [b - a <= 2 * scaled_epsilon] is preserved when scaled_epsilon is halved) *)
Theorem C15_itp_bracket_step : forall a b k1 ya yb se : R,
  a < b -> ya < 0 -> 0 < yb -> 0 <= k1 -> b - a <= 2 * se ->
  let x := itp_point a b k1 ya yb se in
  a < x < b /\ x - a <= se /\ b - x <= se.
Proof. exact itp_point_bounds. Qed.

(** termination within the iteration budget nmax = n0 + n1_2 and the post-condition: an exact
    zero strictly inside the bracket, or the midpoint of a sign-change sub-bracket of width
    <= 2 epsilon.  Guards: epsilon > 0, a < b, k1 >= 0, ya < 0 < yb with the signs of f,
    nmax < 64 (the statement C14 re-exports; C15_solve_itp_spec_1023 has the weaker guard). *)
Theorem C15_solve_itp_spec : forall (fuel : nat) (f : R -> R) (a b eps k1 ya yb : R) (n0 : Z),
  0 < eps -> a < b -> 0 <= k1 -> (0 <= n0)%Z ->
  ya < 0 -> 0 < yb -> f a < 0 -> 0 < f b ->
  let nmax := (n0 + itp_n1_2 a b eps)%Z in
  (nmax < 64)%Z -> (Z.to_nat nmax <= fuel)%nat ->
  exists x, solve_itp fuel f a b eps n0 k1 ya yb = Some x /\ itp_post f eps a b x.
Proof. exact solve_itp_spec. Qed.

(** the same with the weaker guard nmax <= 1023 (beyond it the code caps the power of two
    2^min(nmax,1023) of repair commit 75101ed; before that commit nmax >= 64 overflowed) *)
Theorem C15_solve_itp_spec_1023 : forall (fuel : nat) (f : R -> R) (a b eps k1 ya yb : R) (n0 : Z),
  0 < eps -> a < b -> 0 <= k1 -> (0 <= n0)%Z ->
  ya < 0 -> 0 < yb -> f a < 0 -> 0 < f b ->
  let nmax := (n0 + itp_n1_2 a b eps)%Z in
  (nmax <= 1023)%Z -> (Z.to_nat nmax <= fuel)%nat ->
  exists x, solve_itp fuel f a b eps n0 k1 ya yb = Some x /\ itp_post f eps a b x.
Proof. exact solve_itp_spec_1023. Qed.

(** the "bracket collapsed to adjacent floats" exit of repair commit 75101ed is never taken in
    exact arithmetic (the midpoint of a < b is strictly inside), so it does not weaken the above *)
Theorem C15_itp_break_unreachable : forall a b : R, a < b ->
  (if Rle_dec (1 * / 2 * (a + b)) a then true else false) || (if Rle_dec b (1 * / 2 * (a + b)) then true else false) = false.
Proof. exact itp_break_unreachable. Qed.

(** the clamp d0.min(0.0) of repair commit fd4a7ab is the identity in exact arithmetic
    (d >= 0 forces d0 <= 0), so C15_solve_cubic_exact is unaffected by it *)
Theorem C15_cubic_clamp_identity : forall d0 de d : R,
  de * de + d = -4 * (d0 * d0 * d0) -> 0 <= d -> Rmin d0 0 = d0.
Proof. exact clamp_id. Qed.

(** monotone f: the result is a zero, or within epsilon of every zero *)
Theorem C15_itp_monotone_within_epsilon : forall (f : R -> R) (eps a b x : R),
  (forall u v, u <= v -> f u <= f v) -> itp_post f eps a b x ->
  f x = 0 \/ forall z, f z = 0 -> Rabs (x - z) <= eps.
Proof. exact itp_post_monotone. Qed.

(** the budget is what the source says: (b - a) <= eps * 2^k gives n1_2 <= k *)
Theorem C15_itp_budget : forall (a b eps : R) (k : nat), 0 < eps -> a < b ->
  b - a <= eps * 2 ^ k -> (itp_n1_2 a b eps <= Z.of_nat k)%Z.
Proof. exact itp_n1_2_upper. Qed.

(** ** Non-vacuity: concrete instances, executed on the binary64 instance of the same model *)
Local Open Scope float_scope.

Example C15_ex_quadratic_two : solve_quadratic (T:=float) 2 (-3) 1 = [1; 2].
Proof. vm_compute. reflexivity. Qed.
Example C15_ex_quadratic_double : solve_quadratic (T:=float) 4 (-4) 1 = [2].
Proof. vm_compute. reflexivity. Qed.
Example C15_ex_quadratic_none : solve_quadratic (T:=float) 1 0 1 = [].
Proof. vm_compute. reflexivity. Qed.
Example C15_ex_quadratic_linear : solve_quadratic (T:=float) 3 (-2) 0 = [0x1.8p+0].
Proof. vm_compute. reflexivity. Qed.
Example C15_ex_quadratic_all_zero : solve_quadratic (T:=float) 0 0 0 = [0].
Proof. vm_compute. reflexivity. Qed.
Example C15_ex_cubic_counts :
  length (solve_cubic (T:=float) (-6) 11 (-6) 1) = 3%nat /\      (* (x-1)(x-2)(x-3) *)
  length (solve_cubic (T:=float) 2 (-3) 0 1) = 2%nat /\          (* (x-1)^2 (x+2): d = 0 *)
  length (solve_cubic (T:=float) 1 1 1 1) = 1%nat /\             (* (x+1)(x^2+1) *)
  solve_cubic (T:=float) 2 (-3) 1 0 = [1; 2].                     (* c3 = 0: the quadratic *)
Proof. vm_compute. repeat split. Qed.
Example C15_ex_cubic_double_root : solve_cubic (T:=float) 2 (-3) 0 1 = [1; -2].
Proof. vm_compute. reflexivity. Qed.
(* the factoring step does return factors (the premise of the partial theorem is inhabited) *)
Example C15_ex_quartic_factors :
  match factor_quartic_inner (T:=float) (-10) 35 (-50) 24 false with Some _ => true | None => false end = true /\
  length (solve_quartic (T:=float) 24 (-50) 35 (-10) 1) = 4%nat.     (* (x-1)(x-2)(x-3)(x-4) *)
Proof. vm_compute. split; reflexivity. Qed.
(* ITP on f(x) = x - 1/3 over [0,1], epsilon = 1/8: three iterations suffice *)
Example C15_ex_itp :
  match solve_itp (T:=float) 3 (fun x => x - 0x1.5555555555555p-2) 0 1 0x1p-3 0 0x1.999999999999ap-3 (-0x1.5555555555555p-2) 0x1.5555555555556p-1
  with Some x => PrimFloat.leb (abs (x - 0x1.5555555555555p-2)) 0x1p-3 | None => false end = true.
Proof. vm_compute. reflexivity. Qed.

(** ** A defect of the code (known finding C15-cubic-one-root-cancellation), on the binary64
    instance of the model.  The one-root branch computes cbrt(r + sq) + cbrt(r - sq).  For
    x^3 + 1e-5 x - 5 (scaled coefficients c0 = -5, c1 = 1e-5/3, c2 = 0) one argument cancels and
    the returned value is the root of x^3 - 5: the residual is 1.7e-5, eleven orders of magnitude
    above rounding.  The variant [cubic_one_root_repaired] (u = cbrt(r + copysign(sq, r)),
    v = -d0/u; not in the code) has a residual below 1e-14 on the same input, and is the same
    function over the reals (C15_cubic_one_root_repaired_same). *)
Definition cubic_monic_F (c0 c1 c2 x : float) : float := x * x * x + 3 * c2 * (x * x) + 3 * c1 * x + c0.

Theorem C15_cubic_one_root_pinned_refuted : exists c0 c1 c2 : float,
  cubic_main c0 c1 c2 = [cubic_one_root_pinned c0 c1 c2] /\
  PrimFloat.ltb 0x1p-17 (abs (cubic_monic_F c0 c1 c2 (cubic_one_root_pinned c0 c1 c2))) = true /\
  PrimFloat.ltb (abs (cubic_monic_F c0 c1 c2 (cubic_one_root_repaired c0 c1 c2))) 0x1p-46 = true.
Proof. exists (-5), (0x1.4f8b588e368f1p-17 * (1 / 3)), 0. vm_compute. repeat split. Qed.

(** before repair commit f907a58 the shift of factor_quartic_inner was 0/0 = NaN for a = b = 0
    (x^4 + c x + d), so every later quantity was NaN and solve_quartic returned no root, e.g. for
    x^4 - 1; with the guard (now in the code and in the model) both roots are found *)
Theorem C15_quartic_shift_pinned_refuted :
  PrimFloat.is_nan (fq_shift_pinned (T:=float) 0 0) = true /\
  solve_quartic (T:=float) (-1) 0 0 0 1 = [-1; 1].
Proof. vm_compute. split; reflexivity. Qed.

(** ** On binary64 itself: a zero leading coefficient gives exactly the lower-degree solver's
    result, for every value (NaN and infinities included) of the other coefficients *)
Theorem C15_F64_solve_quadratic_zero_leading : forall c0 c1 c2 : float,
  PrimFloat.is_zero c2 = true -> solve_quadratic c0 c1 c2 = quad_linear c0 c1.
Proof. exact solve_quadratic_zero_leading_F64. Qed.

Theorem C15_F64_solve_cubic_zero_leading : forall c0 c1 c2 c3 : float,
  PrimFloat.is_zero c3 = true -> solve_cubic c0 c1 c2 c3 = solve_quadratic c0 c1 c2.
Proof. exact solve_cubic_zero_leading_F64. Qed.

Theorem C15_F64_solve_quartic_zero_leading : forall c0 c1 c2 c3 c4 : float,
  PrimFloat.is_zero c4 = true -> solve_quartic c0 c1 c2 c3 c4 = solve_cubic c0 c1 c2 c3.
Proof. exact solve_quartic_zero_leading_F64. Qed.

(** the two repaired float-only paths, executed: a near-triple root whose d0 rounds to +tiny
    (fd4a7ab: finite values instead of NaN), and an ITP call whose bracket is two adjacent floats
    with epsilon far below their distance (75101ed: the loop is left in its first iteration) *)
Example C15_ex_cubic_near_triple_root :
  forallb F.is_finite (solve_cubic (T:=float) (-0x1.0624dd2f1a9fcp-13) 0x1.3a92a30553261p-14 (-0x1.f75104d551d69p-17) 0x1.0c6f7a0b5ed8dp-20) = true.
Proof. vm_compute. reflexivity. Qed.
Example C15_ex_itp_collapsed_bracket :
  solve_itp (T:=float) 1 (fun x => x - 1) 1 0x1.0000000000001p+0 0x1p-80 0 0x1.999999999999ap-3 (-0x1p-60) 0x1p-60
  = Some (0x1p-1 * (1 + 0x1.0000000000001p+0)).
Proof. vm_compute. reflexivity. Qed.

(** the guards of C15_factor_quartic_inner_exact on a concrete quartic, (x-1)(x-2)(x-3)(x-4),
    evaluated on the binary64 instance: the resolvent root is a root to rounding, d_2 < 0 and not
    negligible, the factoring succeeds *)
Example C15_ex_quartic_guards :
  let '(g, h) := fq_gh (T:=float) (-10) 35 (-50) 24 false in
  let phi := depressed_cubic_dominant g h in
  let l_1 := (-10) * 0x1p-1 in
  let d_2 := 2 / 3 * 35 - phi - l_1 * l_1 in
  PrimFloat.ltb (abs (phi * phi * phi + g * phi + h)) 0x1p-40 && PrimFloat.ltb d_2 0
  && negb (fq_d2_negligible 35 phi l_1 d_2)
  && match factor_quartic_inner (T:=float) (-10) 35 (-50) 24 false with Some _ => true | None => false end = true.
Proof. vm_compute. reflexivity. Qed.

(** Observation (outside the property: epsilon must be a positive resolution the floats can
    reach): with epsilon below 2^-1023 of the bracket -- sub-normal or zero -- the repaired
    solve_itp still does not return.  nmax saturates, scaled_epsilon = epsilon * 2^1023 is below
    (b-a)/2, so r < 0, the projected point lands on an end point, f there has the old sign, the
    bracket does not move and the midpoint stays strictly inside.  The model reproduces it (fuel
    runs out); C15_solve_itp_spec_1023 excludes it by its guard nmax <= 1023 (here n1_2 >= 1029).
    epsilon = 1e-307 returns. *)
Example C15_ex_itp_subnormal_epsilon :
  let f := fun x : float => x * x - 2 in
  solve_itp 5000 f 1 2 0x0.012688b70e62bp-1022 1 0x1.999999999999ap-3 (-1) 2 = None /\      (* 1e-310 *)
  solve_itp 5000 f 1 2 0 1 0x1.999999999999ap-3 (-1) 2 = None /\
  solve_itp 5000 f 1 2 0x1.1fa182c40c60dp-1020 1 0x1.999999999999ap-3 (-1) 2 = Some 0x1.6a09e667f3bccp+0. (* 1e-307 *)
Proof. vm_compute. repeat split. Qed.
Local Close Scope float_scope.

Example C15_ex_itp_hypotheses :
  let f := fun x : R => x - 1 / 3 in
  0 < 1 / 8 /\ 0 < 1 /\ f 0 < 0 /\ 0 < f 1 /\ (0 + itp_n1_2 0%R 1%R (1 / 8)%R < 64)%Z.
Proof.
  cbv zeta. repeat split; try lra.
  assert (Hb : 1 - 0 <= 1 / 8 * 2 ^ 3) by (replace (2 ^ 3) with 8 by ring; lra).
  pose proof (itp_n1_2_upper 0 1 (1 / 8) 3 ltac:(lra) ltac:(lra) Hb) as H. change (Z.of_nat 3) with 3%Z in H. lia.
Qed.
