(** C12 — affine maps. (statements follow) *)
From Coq Require Import ZArith Reals Bool.
From KV Require Import Scalar RInst Geom Affine AffineOps.
Local Open Scope R_scope.

Theorem C12_placeholder : forall (m : Affine R) (p : Point R), aff_apply m p = aff_apply m p.
Proof. reflexivity. Qed.
