(** C12 — Affine maps compose as documented and commute with evaluation.
    Real instance of model/Affine.v (shared core) and model/AffineOps.v. Statements only;
    proofs in proofs/C12_proofs.v and proofs/C12_arc_proofs.v.

    Real instance: [x / 0 = 0] and every number is finite, so each theorem about code that divides
    (inverse, reflect, TranslateScale::inverse) carries its non-zero guard explicitly.
    Three methods of the pinned tree violate the property; for each the file states what the
    property requires of the repaired model ([aff_pre_rotate_about], [aff_mul_arc], [ts_mul_rrect]) and
    refutes the faithful model of the pinned code ([..._pinned], theorem [..._refuted]). *)
From Coq Require Import ZArith Reals List Bool Lra.
From KV Require Import Scalar RInst Geom Rect Curves Path Affine ShapeTypes AffineOps C12_proofs C12_arc_proofs.
Import ListNotations.
Local Open Scope R_scope.

(** * 1. The matrix algebra *)

(** (A*B)*p = A*(B*p) *)
Theorem C12_mul_assoc_point : forall (A B : Affine R) (p : Point R),
  aff_apply (aff_mul A B) p = aff_apply A (aff_apply B p).
Proof. exact mul_assoc_point. Qed.

Theorem C12_mul_assoc : forall A B C : Affine R, aff_mul (aff_mul A B) C = aff_mul A (aff_mul B C).
Proof. exact mul_assoc. Qed.

Theorem C12_identity : forall (A : Affine R) (p : Point R),
  aff_mul aff_identity A = A /\ aff_mul A aff_identity = A /\ aff_apply aff_identity p = p
  /\ aff_IDENTITY = aff_identity (T := R).
Proof. exact mul_identity. Qed.

(** A * inverse(A) = inverse(A) * A = identity for non-singular A *)
Theorem C12_inverse_right : forall A : Affine R,
  aff_determinant A <> 0 -> aff_mul A (aff_inverse A) = aff_identity.
Proof. exact inverse_right. Qed.
Theorem C12_inverse_left : forall A : Affine R,
  aff_determinant A <> 0 -> aff_mul (aff_inverse A) A = aff_identity.
Proof. exact inverse_left. Qed.
Theorem C12_inverse_point : forall (A : Affine R) (p : Point R),
  aff_determinant A <> 0 ->
  aff_apply (aff_inverse A) (aff_apply A p) = p /\ aff_apply A (aff_apply (aff_inverse A) p) = p.
Proof. exact inverse_point. Qed.
Example C12_ex_nonsingular : aff_determinant (mkAffine 1 2 3 4 5 6) <> 0.
Proof. cbv [aff_determinant aa ab ac ad]. rs_unfold. lra. Qed.

(** the determinant is multiplicative *)
Theorem C12_det_mul : forall A B : Affine R,
  aff_determinant (aff_mul A B) = aff_determinant A * aff_determinant B.
Proof. exact det_mul. Qed.
Theorem C12_det_inverse : forall A : Affine R,
  aff_determinant A <> 0 -> aff_determinant (aff_inverse A) = / aff_determinant A.
Proof. exact det_inverse. Qed.

(** f64 * Affine scales every coefficient; the elementary maps act as documented *)
Theorem C12_scalar_mul : forall (k : R) (A : Affine R),
  aff_scalar_mul k A = mkAffine (k * aa A) (k * ab A) (k * ac A) (k * ad A) (k * ae A) (k * af A).
Proof. exact scalar_mul_coeffs. Qed.
Theorem C12_elementary_actions : forall (p : Point R) (s sx sy th kx ky : R) (t : Vec2 R),
  aff_apply (aff_scale s) p = mkPoint (s * px p) (s * py p)
  /\ aff_apply (aff_scale_non_uniform sx sy) p = mkPoint (sx * px p) (sy * py p)
  /\ aff_apply (aff_translate t) p = mkPoint (px p + vx t) (py p + vy t)
  /\ aff_apply (aff_rotate th) p = mkPoint (cos th * px p - sin th * py p) (sin th * px p + cos th * py p)
  /\ aff_apply (aff_skew kx ky) p = mkPoint (px p + kx * py p) (ky * px p + py p)
  /\ aff_apply aff_FLIP_Y p = mkPoint (px p) (- py p) /\ aff_apply aff_FLIP_X p = mkPoint (- px p) (py p).
Proof. exact elementary_actions. Qed.

(** * 2. Every pre_* method is [self * T], every then_* method is [T * self] *)

Theorem C12_pre_rotate : forall (m : Affine R) (th : R), aff_pre_rotate m th = aff_mul m (aff_rotate th).
Proof. exact pre_rotate_is_mul. Qed.
Theorem C12_pre_scale : forall (m : Affine R) (s : R), aff_pre_scale m s = aff_mul m (aff_scale s).
Proof. exact pre_scale_is_mul. Qed.
Theorem C12_pre_scale_non_uniform : forall (m : Affine R) (sx sy : R),
  aff_pre_scale_non_uniform m sx sy = aff_mul m (aff_scale_non_uniform sx sy).
Proof. exact pre_scale_non_uniform_is_mul. Qed.
Theorem C12_pre_translate : forall (m : Affine R) (t : Vec2 R), aff_pre_translate m t = aff_mul m (aff_translate t).
Proof. exact pre_translate_is_mul. Qed.
Theorem C12_then_rotate : forall (m : Affine R) (th : R), aff_then_rotate m th = aff_mul (aff_rotate th) m.
Proof. exact then_rotate_is_mul. Qed.
Theorem C12_then_rotate_about : forall (m : Affine R) (th : R) (c : Point R),
  aff_then_rotate_about m th c = aff_mul (aff_rotate_about th c) m.
Proof. exact then_rotate_about_is_mul. Qed.
Theorem C12_then_scale : forall (m : Affine R) (s : R), aff_then_scale m s = aff_mul (aff_scale s) m.
Proof. exact then_scale_is_mul. Qed.
Theorem C12_then_scale_non_uniform : forall (m : Affine R) (sx sy : R),
  aff_then_scale_non_uniform m sx sy = aff_mul (aff_scale_non_uniform sx sy) m.
Proof. exact then_scale_non_uniform_is_mul. Qed.
Theorem C12_then_scale_about : forall (m : Affine R) (s : R) (c : Point R),
  aff_then_scale_about m s c = aff_mul (aff_scale_about s c) m.
Proof. exact then_scale_about_is_mul. Qed.
(** then_translate is written as an in-place update of the translation; it is the product all the same *)
Theorem C12_then_translate : forall (m : Affine R) (t : Vec2 R),
  aff_then_translate m t = aff_mul (aff_translate t) m.
Proof. exact then_translate_is_mul. Qed.

(** pre_rotate_about as documented ([aff_pre_rotate_about], the model the correspondence accepts
    once proposed_fixes/C12-pre-rotate-about.diff is applied) ... *)
Theorem C12_pre_rotate_about : forall (m : Affine R) (th : R) (c : Point R),
  aff_pre_rotate_about m th c = aff_mul m (aff_rotate_about th c).
Proof. exact pre_rotate_about_is_mul. Qed.
(** ... and as written on the pinned tree: it is then_rotate_about, which is not [self * T] *)
Theorem C12_pre_rotate_about_pinned_is_then : forall (m : Affine R) (th : R) (c : Point R),
  aff_pre_rotate_about_pinned m th c = aff_then_rotate_about m th c.
Proof. exact pre_rotate_about_pinned_is_then. Qed.
Theorem C12_pre_rotate_about_pinned_refuted :
  exists (m : Affine R) (th : R) (c : Point R),
    aff_pre_rotate_about_pinned m th c <> aff_mul m (aff_rotate_about th c).
Proof. exact pre_rotate_about_pinned_refuted. Qed.

(** * 3. scale/rotate/reflect-about maps fix their centre or axis *)

Theorem C12_scale_about_conjugate : forall (s : R) (c : Point R),
  aff_scale_about s c
  = aff_mul (aff_translate (to_vec2 c)) (aff_mul (aff_scale s) (aff_translate (v_neg (to_vec2 c)))).
Proof. exact scale_about_is_conjugate. Qed.
Theorem C12_rotate_about_conjugate : forall (th : R) (c : Point R),
  aff_rotate_about th c
  = aff_mul (aff_translate (to_vec2 c)) (aff_mul (aff_rotate th) (aff_translate (v_neg (to_vec2 c)))).
Proof. exact rotate_about_is_conjugate. Qed.

Theorem C12_scale_about_fixes_centre : forall (s : R) (c : Point R), aff_apply (aff_scale_about s c) c = c.
Proof. exact scale_about_fixes_centre. Qed.
Theorem C12_scale_about_action : forall (s : R) (c p : Point R),
  aff_apply (aff_scale_about s c) p = mkPoint (px c + s * (px p - px c)) (py c + s * (py p - py c)).
Proof. exact scale_about_action. Qed.
Theorem C12_rotate_about_fixes_centre : forall (th : R) (c : Point R), aff_apply (aff_rotate_about th c) c = c.
Proof. exact rotate_about_fixes_centre. Qed.
Theorem C12_rotate_about_action : forall (th : R) (c p : Point R),
  aff_apply (aff_rotate_about th c) p
  = mkPoint (px c + (cos th * (px p - px c) - sin th * (py p - py c)))
            (py c + (sin th * (px p - px c) + cos th * (py p - py c))).
Proof. exact rotate_about_action. Qed.
Theorem C12_rotate_det : forall (th : R) (c : Point R),
  aff_determinant (aff_rotate th) = 1 /\ aff_determinant (aff_rotate_about th c) = 1.
Proof. exact rotate_det. Qed.
Theorem C12_rotate_about_isometry : forall (th : R) (c p : Point R),
  pt_distance_squared (aff_apply (aff_rotate_about th c) p) c = pt_distance_squared p c.
Proof. exact rotate_about_isometry. Qed.

(** reflect (direction non-zero): determinant -1, an involution, fixes every point of its axis ... *)
Theorem C12_reflect : forall (p : Point R) (d : Vec2 R),
  vx d * vx d + vy d * vy d <> 0 ->
  aff_determinant (aff_reflect p d) = -1
  /\ aff_mul (aff_reflect p d) (aff_reflect p d) = aff_identity
  /\ (forall t, aff_apply (aff_reflect p d) (mkPoint (px p + t * vx d) (py p + t * vy d))
                = mkPoint (px p + t * vx d) (py p + t * vy d)).
Proof. exact reflect_props. Qed.
(** ... and sends the point at signed distance k from the axis to the one at distance -k *)
Theorem C12_reflect_mirror : forall (p : Point R) (d : Vec2 R) (t k : R),
  vx d * vx d + vy d * vy d <> 0 ->
  let h := sqrt (vy d * vy d + - vx d * - vx d) in
  let nx := vy d * (1 / h) in let ny := - vx d * (1 / h) in
  aff_apply (aff_reflect p d) (mkPoint (px p + t * vx d + k * nx) (py p + t * vy d + k * ny))
  = mkPoint (px p + t * vx d - k * nx) (py p + t * vy d - k * ny).
Proof. exact reflect_mirror. Qed.
Example C12_ex_reflect_guard : vx (mkVec2 1 1) * vx (mkVec2 1 1) + vy (mkVec2 1 1) * vy (mkVec2 1 1) <> 0.
Proof. cbn. lra. Qed.

Theorem C12_map_unit_square : forall r : Rect R,
  let m := aff_map_unit_square r in
  aff_apply m (mkPoint 0 0) = mkPoint (rx0 r) (ry0 r) /\ aff_apply m (mkPoint 1 0) = mkPoint (rx1 r) (ry0 r)
  /\ aff_apply m (mkPoint 0 1) = mkPoint (rx0 r) (ry1 r) /\ aff_apply m (mkPoint 1 1) = mkPoint (rx1 r) (ry1 r).
Proof. exact map_unit_square_corners. Qed.
Theorem C12_transform_rect_bbox_contains : forall (m : Affine R) (r : Rect R) (p : Point R),
  rx0 r <= px p <= rx1 r -> ry0 r <= py p <= ry1 r ->
  let b := aff_transform_rect_bbox m r in let q := aff_apply m p in
  rx0 b <= px q <= rx1 b /\ ry0 b <= py q <= ry1 b.
Proof. exact transform_rect_bbox_contains. Qed.

(** * 4. Transforming then evaluating = evaluating then transforming *)

Theorem C12_line_eval : forall (A : Affine R) (l : Line R) (t : R),
  line_eval (aff_mul_line A l) t = aff_apply A (line_eval l t).
Proof. exact line_eval_commutes. Qed.
Theorem C12_quad_eval : forall (A : Affine R) (q : QuadBez R) (t : R),
  quad_eval (aff_mul_quad A q) t = aff_apply A (quad_eval q t).
Proof. exact quad_eval_commutes. Qed.
Theorem C12_cubic_eval : forall (A : Affine R) (c : CubicBez R) (t : R),
  cubic_eval (aff_mul_cubic A c) t = aff_apply A (cubic_eval c t).
Proof. exact cubic_eval_commutes. Qed.
Theorem C12_seg_eval : forall (A : Affine R) (s : PathSeg R) (t : R),
  seg_eval (aff_mul_seg A s) t = aff_apply A (seg_eval s t).
Proof. exact seg_eval_commutes. Qed.
Theorem C12_seg_endpoints : forall (A : Affine R) (s : PathSeg R),
  seg_start (aff_mul_seg A s) = aff_apply A (seg_start s) /\ seg_end (aff_mul_seg A s) = aff_apply A (seg_end s).
Proof. exact seg_endpoints_commute. Qed.
Theorem C12_el_end : forall (A : Affine R) (e : PathEl R),
  el_end (aff_mul_el A e) = option_map (aff_apply A) (el_end e).
Proof. exact el_end_commutes. Qed.

(** paths: for non-singular A the segments of the image path ([Segments::next] run on the mapped
    elements) are exactly the images of the segments, for every element list (including the
    ones on which the iterator panics: [None] on both sides) *)
Theorem C12_path_segments : forall (A : Affine R) (els : list (PathEl R)),
  aff_determinant A <> 0 ->
  segments (aff_mul_path A els) = option_map (map (aff_mul_seg A)) (segments els).
Proof. exact path_segments_commute. Qed.
Theorem C12_path_eval : forall (A : Affine R) (els : list (PathEl R)) (segs : list (PathSeg R)) (i : nat) (s : PathSeg R) (t : R),
  aff_determinant A <> 0 ->
  segments els = Some segs -> nth_error segs i = Some s ->
  exists s', option_map (fun l => nth_error l i) (segments (aff_mul_path A els)) = Some (Some s')
             /\ seg_eval s' t = aff_apply A (seg_eval s t).
Proof. exact path_eval_commutes. Qed.
Example C12_ex_path : segments (aff_mul_path (mkAffine 0 1 (-1) 0 2 3)
                                  [MoveTo (mkPoint 0 0); LineTo (mkPoint 1 0); QuadTo (mkPoint 1 1) (mkPoint 0 1); ClosePath])
  = option_map (map (aff_mul_seg (mkAffine 0 1 (-1) 0 2 3)))
      (segments [MoveTo (mkPoint 0 0); LineTo (mkPoint 1 0); QuadTo (mkPoint 1 1) (mkPoint 0 1); ClosePath]).
Proof. apply path_segments_commute. cbv [aff_determinant aa ab ac ad]. rs_unfold. lra. Qed.

(** * 5. Circles, ellipses *)

(** [Affine * Ellipse]: the inner map is the product, so every point of the image ellipse is
    the image of the corresponding point *)
Theorem C12_ellipse_image : forall (A : Affine R) (e : Ellipse R) (th : R),
  el_inner (aff_mul_ellipse A e) = aff_mul A (el_inner e)
  /\ ellipse_point (aff_mul_ellipse A e) th = aff_apply A (ellipse_point e th).
Proof. exact ellipse_image. Qed.
(** [Ellipse::new(c, radii, rot)] is c + R(rot) (|rx| cos th, |ry| sin th) *)
Theorem C12_ellipse_new : forall (c : Point R) (radii : Vec2 R) (rot th : R),
  ellipse_point (ellipse_new c radii rot) th
  = pt_add_v c (arc_sample_ellipse (mkVec2 (Rabs (vx radii)) (Rabs (vy radii))) rot th)
  /\ ellipse_center (ellipse_new c radii rot) = c.
Proof. exact ellipse_new_curve. Qed.
(** [Affine * Circle] *)
Theorem C12_circle_image : forall (A : Affine R) (c : Circle R) (th : R),
  0 <= ci_radius c -> ellipse_point (aff_mul_circle A c) th = aff_apply A (circle_point c th).
Proof. exact circle_image. Qed.
Theorem C12_circle_image_any_radius : forall (A : Affine R) (c : Circle R) (th : R),
  ellipse_point (aff_mul_circle A c) th
  = aff_apply A (circle_point (mkCircle (ci_center c) (Rabs (ci_radius c))) th).
Proof. exact circle_image_abs. Qed.

(** svd as the tree implements it ([aff_svd_det]: minor radius (|det| / x).min(x), commit 7389fc0):
    rx >= ry >= 0, rx^2 + ry^2 = a^2+b^2+c^2+d^2, rx ry = |det| ... *)
Theorem C12_svd_invariants : forall m : Affine R,
  let r := fst (aff_svd_det m) in
  0 <= vy r <= vx r
  /\ vx r * vx r + vy r * vy r = aa m * aa m + ab m * ab m + ac m * ac m + ad m * ad m
  /\ vx r * vy r = Rabs (aff_determinant m).
Proof. exact svd_det_invariants. Qed.
(** ... and R(phi) diag(rx^2, ry^2) R(phi)^T = M M^T for the linear part M, i.e. (radii, phi)
    are the semi-axes and the rotation of the image of the unit circle *)
Theorem C12_svd_decomposition : forall m : Affine R,
  let r := fst (aff_svd_det m) in let phi := snd (aff_svd_det m) in
  let C := cos phi in let S := sin phi in
  aa m * aa m + ac m * ac m = vx r * vx r * (C * C) + vy r * vy r * (S * S)
  /\ ab m * ab m + ad m * ad m = vx r * vx r * (S * S) + vy r * vy r * (C * C)
  /\ aa m * ab m + ac m * ad m = (vx r * vx r - vy r * vy r) * (S * C).
Proof. exact svd_det_decomposition. Qed.

(** hence (centre, radii, rotation) as reported by [radii_and_rotation] describe the ellipse through the
    image points: for a non-singular inner map every point of the curve satisfies the implicit equation
    (x'/rx)^2 + (y'/ry)^2 = 1 in the reported frame (this covers [Affine * Circle], [Affine * Ellipse]
    and [Ellipse::new]) *)
Theorem C12_ellipse_implicit : forall (e : Ellipse R) (th : R),
  aff_determinant (el_inner e) <> 0 ->
  let r := fst (ellipse_radii_and_rotation e) in let phi := snd (ellipse_radii_and_rotation e) in
  let p := ellipse_point e th in
  let dx := px p - px (ellipse_center e) in let dy := py p - py (ellipse_center e) in
  let lx := cos phi * dx + sin phi * dy in let ly := - sin phi * dx + cos phi * dy in
  (lx / vx r) * (lx / vx r) + (ly / vy r) * (ly / vy r) = 1.
Proof. exact ellipse_det_implicit. Qed.
(** the radii reported for [Ellipse::new(c, (rx, ry), rot)] are the larger and the smaller of |rx|, |ry| *)
Theorem C12_ellipse_new_radii : forall (c : Point R) (radii : Vec2 R) (rot : R),
  let r := fst (ellipse_radii_and_rotation (ellipse_new c radii rot)) in
  vx r = Rmax (Rabs (vx radii)) (Rabs (vy radii)) /\ vy r = Rmin (Rabs (vx radii)) (Rabs (vy radii)).
Proof. exact ellipse_new_radii. Qed.

(** the svd before that repair (shared [aff_svd], minor radius sqrt(0.5 (s1 - s2)), which cancels on floats)
    is the same function over the reals *)
Theorem C12_svd_variants_agree : forall m : Affine R, aff_svd_det m = aff_svd m.
Proof. exact svd_variants_agree. Qed.

(** * 6. Arcs *)

(** The image of an arc (as the property requires it, [aff_mul_arc], the model the correspondence
    accepts once proposed_fixes/C12-affine-arc.diff is applied): for every non-singular map and
    every arc with positive radii — any x_rotation, start and sweep — the image arc at parameter t
    is the image of the arc at parameter t, for every real t (so: same points, same direction). *)
Theorem C12_arc_image : forall (A : Affine R) (arc : Arc R) (t : R),
  aff_determinant A <> 0 -> 0 < vx (arc_radii arc) -> 0 < vy (arc_radii arc) ->
  arc_eval (aff_mul_arc A arc) t = aff_apply A (arc_eval arc t).
Proof. exact arc_image. Qed.
Example C12_ex_arc_hyps :
  aff_determinant (aff_FLIP_Y (T := R)) <> 0
  /\ 0 < vx (arc_radii (mkArc (mkPoint 0 0) (mkVec2 2 1) 0 (PI / 2) 4))
  /\ 0 < vy (arc_radii (mkArc (mkPoint 0 0) (mkVec2 2 1) 0 (PI / 2) 4)).
Proof. cbv [aff_determinant aff_FLIP_Y aa ab ac ad arc_radii vx vy]. rs_unfold. repeat split; lra. Qed.

(** The pinned code ([aff_mul_arc_pinned]: start and sweep angle copied) violates this:
    the identity map moves the start point of an arc with x_rotation = pi, and a reflection
    keeps the direction of traversal. *)
Theorem C12_arc_image_pinned_refuted :
  (exists arc : Arc R,
     0 < vx (arc_radii arc) /\ 0 < vy (arc_radii arc)
     /\ arc_eval (aff_mul_arc_pinned aff_identity arc) 0 <> aff_apply aff_identity (arc_eval arc 0))
  /\ (exists arc : Arc R,
        0 < vx (arc_radii arc) /\ 0 < vy (arc_radii arc) /\ aff_determinant (aff_FLIP_Y (T := R)) <> 0
        /\ arc_eval (aff_mul_arc_pinned aff_FLIP_Y arc) 1 <> aff_apply aff_FLIP_Y (arc_eval arc 1)).
Proof. exact arc_pinned_refuted. Qed.
(** the pinned code is right exactly where re-deriving the angles changes nothing *)
Theorem C12_arc_pinned_vs_repaired : forall (A : Affine R) (arc : Arc R),
  arc_start_angle (aff_mul_arc A arc) = arc_start_angle arc ->
  arc_sweep_angle (aff_mul_arc A arc) = arc_sweep_angle arc ->
  aff_mul_arc_pinned A arc = aff_mul_arc A arc.
Proof. exact arc_pinned_vs_repaired. Qed.

(** * 7. A TranslateScale behaves identically to the affine map it converts to
    (all scales, negative ones included; [inverse] needs scale <> 0) *)

Theorem C12_ts_point : forall (ts : TranslateScale R) (p : Point R),
  ts_apply ts p = aff_apply (ts_to_affine ts) p.
Proof. exact ts_apply_as_affine. Qed.
Theorem C12_ts_mul : forall a b : TranslateScale R,
  ts_to_affine (ts_mul a b) = aff_mul (ts_to_affine a) (ts_to_affine b).
Proof. exact ts_mul_as_affine. Qed.
Theorem C12_ts_inverse : forall ts : TranslateScale R,
  ts_scale ts <> 0 ->
  ts_to_affine (ts_inverse ts) = aff_inverse (ts_to_affine ts)
  /\ ts_mul ts (ts_inverse ts) = ts_default /\ ts_mul (ts_inverse ts) ts = ts_default.
Proof. exact ts_inverse_all. Qed.
Theorem C12_ts_misc : forall (ts : TranslateScale R) (k : R) (v : Vec2 R) (c : Point R),
  ts_to_affine (ts_scalar_mul k ts) = aff_mul (aff_scale k) (ts_to_affine ts)
  /\ ts_to_affine (ts_add_v ts v) = aff_then_translate (ts_to_affine ts) v
  /\ ts_to_affine (ts_sub_v ts v) = aff_then_translate (ts_to_affine ts) (v_neg v)
  /\ ts_to_affine (ts_from_scale_about k c) = aff_scale_about k c
  /\ ts_to_affine (ts_new_scale k) = aff_scale k
  /\ ts_to_affine (ts_new_translate v) = aff_translate v
  /\ ts_to_affine ts_default = aff_identity.
Proof. exact ts_misc_as_affine. Qed.
Theorem C12_ts_curves : forall ts : TranslateScale R,
  (forall l, ts_mul_line ts l = aff_mul_line (ts_to_affine ts) l)
  /\ (forall q, ts_mul_quad ts q = aff_mul_quad (ts_to_affine ts) q)
  /\ (forall c, ts_mul_cubic ts c = aff_mul_cubic (ts_to_affine ts) c)
  /\ (forall s, ts_mul_seg ts s = aff_mul_seg (ts_to_affine ts) s)
  /\ (forall e, ts_mul_el ts e = aff_mul_el (ts_to_affine ts) e)
  /\ (forall els, ts_mul_path ts els = aff_mul_path (ts_to_affine ts) els).
Proof. exact ts_curves_as_affine. Qed.
(** rectangles: the normalised image rectangle = the bounding box of the affine image *)
Theorem C12_ts_rect : forall (ts : TranslateScale R) (r : Rect R),
  ts_mul_rect ts r = aff_transform_rect_bbox (ts_to_affine ts) r.
Proof. exact ts_rect_as_affine. Qed.
(** circles: angle by angle the image of the circle's point — also for negative scales, where the
    radius of the result is negative — and the same curve as the ellipse [Affine * Circle] *)
Theorem C12_ts_circle : forall (ts : TranslateScale R) (c : Circle R) (th : R),
  circle_point (ts_mul_circle ts c) th = aff_apply (ts_to_affine ts) (circle_point c th)
  /\ (0 <= ci_radius c ->
      circle_point (ts_mul_circle ts c) th = ellipse_point (aff_mul_circle (ts_to_affine ts) c) th).
Proof. exact ts_circle_all. Qed.

(** rounded rectangles (as the property requires, [ts_mul_rrect], accepted by the correspondence
    once proposed_fixes/C12-translate-scale-rounded-rect.diff is applied): the rectangle is the image
    rectangle, and every corner takes its radius, scaled by |scale| and clamped as
    [RoundedRect::from_rect] does, to its image corner *)
Theorem C12_ts_rounded_rect : forall (ts : TranslateScale R) (rr : RoundedRect R) (p : Point R) (r : R),
  rrect_wf rr -> In (p, r) (rrect_corners rr) ->
  rr_rect (ts_mul_rrect ts rr) = ts_mul_rect ts (rr_rect rr)
  /\ In (aff_apply (ts_to_affine ts) p, Rmin (Rabs (ts_scale ts) * r) (ts_radius_limit ts rr))
        (rrect_corners (ts_mul_rrect ts rr)).
Proof. exact ts_rrect_corners. Qed.
Example C12_ex_rrect_wf : rrect_wf (mkRoundedRect (mkRect 0 0 10 10) (mkRadii 1 2 3 4)).
Proof. unfold rrect_wf. cbn. lra. Qed.
(** the pinned code ([ts_mul_rrect_pinned]) leaves every radius at its corner, which is wrong for a
    negative scale (a half turn) *)
Theorem C12_ts_rounded_rect_pinned_refuted :
  exists (ts : TranslateScale R) (rr : RoundedRect R) (p : Point R) (r : R),
    rrect_wf rr /\ In (p, r) (rrect_corners rr)
    /\ ~ In (aff_apply (ts_to_affine ts) p, Rmin (Rabs (ts_scale ts) * r) (ts_radius_limit ts rr))
            (rrect_corners (ts_mul_rrect_pinned ts rr)).
Proof. exact ts_rrect_pinned_refuted. Qed.
