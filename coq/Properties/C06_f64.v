(** C06 on binary64 — "evaluation at 0 and 1 agrees with the stored end points bit-for-bit for quadratics
    and cubics, to one unit of rounding for lines", proved for the [F64] instance of model/Curves.v itself
    (the functions the correspondence check executes), for ALL binary64 inputs satisfying the stated guards.
    Statements only. Vocabulary (proofs/F64_exact.v, proofs/C06_f64_proofs.v; unfolded by the first theorem):
      [ffin x]    := F.is_finite x = true                      (neither NaN nor infinite)
      [small x]   := PrimFloat.leb (abs x) 0x1p+1022 = true     (|x| <= 2^1022; implies [ffin x])
      [fv x]      := B2R (Prim2B x)                             (the real value of a finite x)
      [agree1 r a]: r finite, numerically equal to a, and the same binary64 number — except that a = -0 may
                    come back as r = +0. *)
From Coq Require Import ZArith Reals Bool Floats.
From Flocq Require Import Core.Zaux Core.Raux Core.Defs Core.Generic_fmt Core.Ulp IEEE754.BinarySingleNaN IEEE754.PrimFloat.
From KV Require Import Scalar F64 Geom Curves F64_exact C06_f64_proofs.

Theorem C06_f64_vocabulary : forall (r a x : pfloat) (p s : Point pfloat),
  (agree1 r a <-> F.is_finite r = true /\ F.same r a = true /\ (r = a \/ (a = (-0)%float /\ r = 0%float))) /\
  (pt_agree p s <-> agree1 (px p) (px s) /\ agree1 (py p) (py s)) /\
  (pt_fin p <-> F.is_finite (px p) = true /\ F.is_finite (py p) = true) /\
  (small x <-> PrimFloat.leb (abs x) 0x1p+1022%float = true) /\
  (small x -> F.is_finite x = true /\ (Rabs (B2R (Prim2B x)) <= bpow radix2 1022)%R).
Proof. exact vocabulary. Qed.

(** quadratics: the start needs the product p1*2 not to overflow (exactly that: see [C06_f64_guards_needed]);
    the end needs only finite control points *)
Theorem C06_f64_quad_endpoints : forall q : QuadBez pfloat,
  pt_fin (q0 q) -> pt_fin (q1 q) -> pt_fin (q2 q) ->
  (F.is_finite (px (q1 q) * 2) = true -> F.is_finite (py (q1 q) * 2) = true ->
   pt_agree (quad_eval q f0) (q0 q)) /\
  pt_agree (quad_eval q f1) (q2 q).
Proof. exact quad_endpoints. Qed.

(** cubics: the start needs p1*3 and p2*3 not to overflow; the end needs only finite control points *)
Theorem C06_f64_cubic_endpoints : forall c : CubicBez pfloat,
  pt_fin (c0 c) -> pt_fin (c1 c) -> pt_fin (c2 c) -> pt_fin (c3 c) ->
  (F.is_finite (px (c1 c) * 3) = true -> F.is_finite (py (c1 c) * 3) = true ->
   F.is_finite (px (c2 c) * 3) = true -> F.is_finite (py (c2 c) * 3) = true ->
   pt_agree (cubic_eval c f0) (c0 c)) /\
  pt_agree (cubic_eval c f1) (c3 c).
Proof. exact cubic_endpoints. Qed.

(** lines, start: exact whenever the difference l1 - l0 does not overflow *)
Theorem C06_f64_line_start : forall l : Line pfloat,
  pt_fin (l0 l) -> pt_fin (l1 l) ->
  F.is_finite (px (l1 l) - px (l0 l)) = true -> F.is_finite (py (l1 l) - py (l0 l)) = true ->
  pt_agree (line_eval l f0) (l0 l).
Proof. exact line_eval_start. Qed.

(** lines, end: [l0 + 1*(l1 - l0)] is two roundings away from l1: exactly rnd(l0 + rnd(l1 - l0)), hence
    within half an ulp of the difference plus half an ulp of the sum (per coordinate). *)
Theorem C06_f64_line_end : forall l : Line pfloat,
  pt_fin (l0 l) -> pt_fin (l1 l) ->
  F.is_finite (px (l1 l) - px (l0 l)) = true -> F.is_finite (py (l1 l) - py (l0 l)) = true ->
  pt_fin (line_eval l f1) ->
  let rn := round radix2 (SpecFloat.fexp prec emax) (round_mode mode_NE) in
  let u := ulp radix2 (SpecFloat.fexp prec emax) in
  let ok (a b r : pfloat) :=
    (fv r = rn (fv a + rn (fv b - fv a)) /\
     Rabs (fv r - fv b) <= / 2 * u (fv b - fv a) + / 2 * u (fv a + fv (b - a)%float))%R in
  ok (px (l0 l)) (px (l1 l)) (px (line_eval l f1)) /\ ok (py (l0 l)) (py (l1 l)) (py (line_eval l f1)).
Proof. exact line_eval_end. Qed.

(** ... and it IS the stored end point when the coordinate difference is representable *)
Theorem C06_f64_line_end_exact_when_difference_exact : forall a b : pfloat,
  F.is_finite a = true -> F.is_finite b = true ->
  generic_format radix2 (SpecFloat.fexp prec emax) (fv b - fv a) -> (Rabs (fv b - fv a) < bpow radix2 1024)%R ->
  let r := (a + (b - a) * 1)%float in
  F.is_finite r = true /\ F.same r b = true /\ (PrimFloat.is_zero b = false -> r = b).
Proof. exact line1_end_exact_diff. Qed.

(** the uniform guard: all control coordinates of magnitude <= 2^1022 *)
Theorem C06_f64_eval_endpoints_small : forall s : PathSeg pfloat, seg_small s ->
  pt_agree (seg_eval s f0) (seg_start s) /\
  match s with
  | SegLine l => pt_fin (line_eval l f1) ->
      line_end_bound (px (l0 l)) (px (l1 l)) (px (line_eval l f1)) /\
      line_end_bound (py (l0 l)) (py (l1 l)) (py (line_eval l f1))
  | _ => pt_agree (seg_eval s f1) (seg_end s)
  end.
Proof. exact eval_endpoints_small. Qed.

(** the accessors are the stored points (any scalar) *)
Theorem C06_f64_accessors : forall (T : Type) (S : Scalar T) (s : PathSeg T),
  seg_start s = match s with SegLine l => l0 l | SegQuad q => q0 q | SegCubic c => c0 c end /\
  seg_end s = match s with SegLine l => l1 l | SegQuad q => q2 q | SegCubic c => c3 c end.
Proof. exact @seg_accessors. Qed.

(** the guards are needed, the sign of a stored -0 is lost, and "one unit of rounding" for a line is a unit
    of the larger operand, not of the end point (witnesses evaluated on binary64) *)
Example C06_f64_guards_needed :
  (PrimFloat.is_nan (px (quad_eval quad_overflow f0)) = true /\ F.is_finite 0x1p+1023%float = true) /\
  (PrimFloat.is_nan (px (cubic_eval cubic_overflow f0)) = true /\ F.is_finite 0x1.8p+1022%float = true).
Proof. exact (conj quad_overflow_nan cubic_overflow_nan). Qed.
Example C06_f64_negzero_sign_lost :
  px (quad_eval quad_negzero f0) = 0%float /\ px (q0 quad_negzero) = (-0)%float /\
  F.same (px (quad_eval quad_negzero f0)) (px (q0 quad_negzero)) = true /\
  F.same_bits (px (quad_eval quad_negzero f0)) (px (q0 quad_negzero)) = false.
Proof. exact quad_negzero_sign. Qed.
Example C06_f64_line_end_cancellation :
  px (line_eval line_cancel f1) = 0%float /\ px (l1 line_cancel) = 1%float.
Proof. exact line_cancel_end. Qed.

(** non-vacuity: generic curves (one coordinate at the guard 2^1022, one subnormal) meet the hypotheses;
    the generic line's recomputed end differs from the stored one *)
Example C06_f64_hyps_satisfiable :
  seg_small (SegQuad quad_generic) /\ seg_small (SegCubic cubic_generic) /\ seg_small (SegLine line_generic) /\
  pt_fin (line_eval line_generic f1) /\
  PrimFloat.eqb (px (line_eval line_generic f1)) (px (l1 line_generic)) = false.
Proof. exact generic_small. Qed.
Example C06_f64_exact_difference_satisfiable :
  let a := 0x1.8p+1%float in let b := 0x1.4000000000001p+2%float in
  F.is_finite a = true /\ F.is_finite b = true /\
  generic_format radix2 (SpecFloat.fexp prec emax) (fv b - fv a) /\ (Rabs (fv b - fv a) < bpow radix2 1024)%R /\
  (a + (b - a) * 1)%float = b.
Proof. exact exact_diff_example. Qed.
