(** C20 on binary64 — the rectangle lattice laws proved for the [F64] instance of model/Rect.v itself (the
    functions the correspondence check executes), for ALL binary64 coordinates that are not NaN: both
    infinities are allowed, and -0/+0 are identified exactly as [PrimFloat.leb/ltb/eqb] identify them.
    These operations only compare and select, so there is no rounding to exclude. Statements only.
    Vocabulary (proofs/F64_exact.v, proofs/C20_f64_proofs.v; [pfloat] is Coq's primitive binary64 type):
      [nn x] := PrimFloat.is_nan x = false      [ffin x] := F.is_finite x = true
      [fle x y] := PrimFloat.leb x y = true      [flt x y] := PrimFloat.ltb x y = true
        (a true comparison already implies that both operands are non-NaN)
      [rect_nn r] / [pt_nn p]: every coordinate is non-NaN
      [fnonneg r] := x0 <= x1 and y0 <= y1       [fsubset a b]: corners of a within those of b (all by [fle])
      [fin_closed r p], [fin_half_open r p]: x0 <= px <= x1 ... resp. x0 <= px < x1 ...
      [fmeet a b] := exists a float point p in both closed rectangles
      [rect_same a b] := the four coordinates are numerically equal ([F.same]: -0 = +0), the equality the
        correspondence check uses. *)
From Coq Require Import ZArith Reals Bool Floats.
From KV Require Import Scalar F64 Geom Rect F64_exact C20_f64_proofs.

Theorem C20_f64_vocabulary : forall (x y : pfloat) (a b : Rect pfloat) (p : Point pfloat),
  (fle x y <-> PrimFloat.leb x y = true) /\ (flt x y <-> PrimFloat.ltb x y = true) /\
  (fle x y -> nn x /\ nn y) /\ (flt x y -> nn x /\ nn y) /\
  (rect_nn a <-> nn (rx0 a) /\ nn (ry0 a) /\ nn (rx1 a) /\ nn (ry1 a)) /\
  (fnonneg a <-> fle (rx0 a) (rx1 a) /\ fle (ry0 a) (ry1 a)) /\
  (fsubset a b <-> fle (rx0 b) (rx0 a) /\ fle (ry0 b) (ry0 a) /\ fle (rx1 a) (rx1 b) /\ fle (ry1 a) (ry1 b)) /\
  (fin_closed a p <-> (fle (rx0 a) (px p) /\ fle (px p) (rx1 a)) /\ (fle (ry0 a) (py p) /\ fle (py p) (ry1 a))) /\
  (fin_half_open a p <-> (fle (rx0 a) (px p) /\ flt (px p) (rx1 a)) /\ (fle (ry0 a) (py p) /\ flt (py p) (ry1 a))) /\
  (fmeet a b <-> exists q, fin_closed a q /\ fin_closed b q) /\
  (rect_same a b <-> F.same (rx0 a) (rx0 b) = true /\ F.same (ry0 a) (ry0 b) = true /\
                     F.same (rx1 a) (rx1 b) = true /\ F.same (ry1 a) (ry1 b) = true).
Proof. exact vocabulary. Qed.

(** union is the least upper bound *)
Theorem C20_f64_union_lub : forall a b : Rect pfloat, rect_nn a -> rect_nn b ->
  fsubset a (rect_union a b) /\ fsubset b (rect_union a b) /\
  forall c, fsubset a c -> fsubset b c -> fsubset (rect_union a b) c.
Proof. exact f_union_lub. Qed.

Theorem C20_f64_union_nonneg : forall a b : Rect pfloat, fnonneg a -> fnonneg b -> fnonneg (rect_union a b).
Proof. exact f_union_nonneg. Qed.

(** [fsubset] on corners is inclusion of the closed rectangles as sets of binary64 points *)
Theorem C20_f64_subset_is_inclusion : forall a b : Rect pfloat, fnonneg a ->
  (fsubset a b <-> forall p, fin_closed a p -> fin_closed b p).
Proof. exact f_subset_set. Qed.

(** intersect is the greatest lower bound when the closed rectangles meet ... *)
Theorem C20_f64_intersect_glb : forall a b : Rect pfloat, fnonneg a -> fnonneg b -> fmeet a b ->
  let i := rect_intersect a b in
  fnonneg i /\ fsubset i a /\ fsubset i b /\
  forall c, fnonneg c -> fsubset c a -> fsubset c b -> fsubset c i.
Proof. exact f_intersect_glb. Qed.

(** ... and a non-negative rectangle that is degenerate along an axis when they are disjoint; its computed
    area is a zero when the coordinates are finite and neither extent overflows (otherwise it can be
    0 * inf = NaN: [C20_f64_disjoint_area_can_be_nan]) *)
Theorem C20_f64_intersect_disjoint : forall a b : Rect pfloat, fnonneg a -> fnonneg b -> ~ fmeet a b ->
  let i := rect_intersect a b in
  fnonneg i /\ (F.same (rx0 i) (rx1 i) = true \/ F.same (ry0 i) (ry1 i) = true).
Proof. exact f_intersect_disjoint. Qed.
Theorem C20_f64_degenerate_area_zero : forall r : Rect pfloat,
  ffin (rx0 r) -> ffin (rx1 r) -> ffin (ry0 r) -> ffin (ry1 r) ->
  F.same (rx0 r) (rx1 r) = true \/ F.same (ry0 r) (ry1 r) = true ->
  ffin (rect_width r) -> ffin (rect_height r) ->
  PrimFloat.is_zero (rect_area r) = true.
Proof. exact degenerate_area_zero. Qed.

Theorem C20_f64_contains_half_open : forall (r : Rect pfloat) (p : Point pfloat),
  rect_contains r p = true <-> fin_half_open r p.
Proof. exact f_contains_half_open. Qed.

(** for all binary64 inputs, NaN included *)
Theorem C20_f64_overlaps_sym : forall a b : Rect pfloat, rect_overlaps a b = rect_overlaps b a.
Proof. exact f_overlaps_sym. Qed.

Theorem C20_f64_overlaps_iff_closed_meet : forall a b : Rect pfloat, fnonneg a -> fnonneg b ->
  (rect_overlaps a b = true <-> fmeet a b).
Proof. exact f_overlaps_iff_meet. Qed.

Theorem C20_f64_contains_rect_iff_union_eq : forall a b : Rect pfloat, rect_nn a -> rect_nn b ->
  (rect_contains_rect a b = true <-> rect_same (rect_union a b) a).
Proof. exact f_contains_rect_iff_union_eq. Qed.

(** abs: non-negative extent; per axis the same two corner coordinates (bit for bit), or twice the first
    one when the two are numerically equal; the identity (numerically) on rectangles of non-negative extent;
    and the same width and height as binary64 numbers when the subtractions do not overflow *)
Theorem C20_f64_abs : forall r : Rect pfloat, rect_nn r ->
  let a := rect_abs r in
  fnonneg a /\
  ((rx0 a = rx0 r /\ rx1 a = rx1 r) \/ (rx0 a = rx1 r /\ rx1 a = rx0 r) \/
   (rx0 a = rx0 r /\ rx1 a = rx0 r /\ F.same (rx0 r) (rx1 r) = true)) /\
  ((ry0 a = ry0 r /\ ry1 a = ry1 r) \/ (ry0 a = ry1 r /\ ry1 a = ry0 r) \/
   (ry0 a = ry0 r /\ ry1 a = ry0 r /\ F.same (ry0 r) (ry1 r) = true)) /\
  (fnonneg r -> rect_same a r).
Proof. exact f_abs_spec. Qed.
Theorem C20_f64_abs_extents : forall r : Rect pfloat,
  ffin (rx0 r) -> ffin (ry0 r) -> ffin (rx1 r) -> ffin (ry1 r) ->
  ffin (rect_width r) -> ffin (rect_height r) ->
  F.same (rect_width (rect_abs r)) (abs (rect_width r)) = true /\
  F.same (rect_height (rect_abs r)) (abs (rect_height r)) = true.
Proof. exact f_abs_extents. Qed.

Theorem C20_f64_from_points_is_abs : forall x0 y0 x1 y1 : pfloat, nn x0 -> nn y0 -> nn x1 -> nn y1 ->
  rect_from_points (mkPoint x0 y0) (mkPoint x1 y1) = rect_abs (mkRect x0 y0 x1 y1) /\
  rect_same (rect_from_points (mkPoint x1 y1) (mkPoint x0 y0)) (rect_abs (mkRect x0 y0 x1 y1)).
Proof. exact f_from_points_abs. Qed.

Theorem C20_f64_union_pt_lub : forall (r : Rect pfloat) (p : Point pfloat), fnonneg r -> pt_nn p ->
  let u := rect_union_pt r p in
  fsubset r u /\ fin_closed u p /\ forall c, fsubset r c -> fin_closed c p -> fsubset u c.
Proof. exact f_union_pt_lub. Qed.

Theorem C20_f64_rect_tiling : forall (x0 xm x1 y0 y1 : pfloat) (p : Point pfloat),
  fle x0 xm -> fle xm x1 -> nn y0 -> nn y1 -> pt_nn p ->
  let l := mkRect x0 y0 xm y1 in let r := mkRect xm y0 x1 y1 in let whole := mkRect x0 y0 x1 y1 in
  rect_contains whole p = xorb (rect_contains l p) (rect_contains r p) /\
  (rect_contains l p && rect_contains r p = false).
Proof. exact f_rect_tiling_x. Qed.

(** why NaN is excluded: every comparison with it is false and Rust's min/max return the other operand *)
Theorem C20_f64_nan_behaviour : forall x : pfloat,
  PrimFloat.leb nan x = false /\ PrimFloat.leb x nan = false /\ F.min nan x = x /\ F.max x nan = x.
Proof. exact nan_behaviour. Qed.

(** non-vacuity on binary64 literals: rectangles with -0, a subnormal, the largest finite number and an
    infinity as coordinates meet the hypotheses; [ra], [rb] meet at a point, [ra], [rc] do not *)
Example C20_f64_hyps_satisfiable :
  fnonneg ra /\ fnonneg rb /\ fnonneg rc /\ fmeet ra rb /\ ~ fmeet ra rc /\
  rect_overlaps ra rb = true /\ rect_overlaps ra rc = false /\ pt_nn pw /\
  rect_nn (mkRect 3 4 (-1) neg_infinity)%float.
Proof. exact witnesses. Qed.
Example C20_f64_disjoint_area_can_be_nan :
  fnonneg tall_a /\ fnonneg tall_b /\ rect_overlaps tall_a tall_b = false /\
  PrimFloat.is_nan (rect_area (rect_intersect tall_a tall_b)) = true /\
  rect_is_finite tall_a = true /\ rect_is_finite tall_b = true.
Proof. exact disjoint_area_nan. Qed.
Example C20_f64_extent_hyps_satisfiable :
  (ffin (rx0 rdeg) /\ ffin (rx1 rdeg) /\ ffin (ry0 rdeg) /\ ffin (ry1 rdeg) /\
   F.same (rx0 rdeg) (rx1 rdeg) = true /\ ffin (rect_width rdeg) /\ ffin (rect_height rdeg)) /\
  (ffin (rx0 rflip) /\ ffin (ry0 rflip) /\ ffin (rx1 rflip) /\ ffin (ry1 rflip) /\
   ffin (rect_width rflip) /\ ffin (rect_height rflip) /\
   PrimFloat.ltb (rect_width rflip) 0 = true /\ PrimFloat.ltb 0 (rect_width (rect_abs rflip)) = true).
Proof. exact extents_witness. Qed.
