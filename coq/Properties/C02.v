(** C02 — Signed area is the exact enclosed area.
    Real instance of model/Curves.v (closed forms), model/Path.v (element -> segment machine,
    the fold) and model/Area.v ([Shape::area], affine images). Statements only.

    What "enclosed area" means here: the Green line integral 1/2 ∮ (x dy - y dx) taken along the
    segments, with Coquelicot's Riemann integral and Coquelicot's derivative of the coordinate
    functions ([AreaSpec.green_integrand]). The step from this line integral to the double integral
    of the winding number (Green's theorem proper) is classical and NOT formalised. *)
From Coq Require Import ZArith Reals List Bool.
From Coquelicot Require Import Coquelicot.
From KV Require Import Scalar RInst Geom Curves Path Affine Area AreaSpec C02_proofs.
Import ListNotations.
Local Open Scope R_scope.

(** ** 1. Each closed form is the independent area integral *)

Theorem C02_area_line_green : forall l : Line R,
  is_RInt (green_integrand (line_eval l)) 0 1 (2 * line_signed_area l).
Proof. exact line_green. Qed.
Theorem C02_area_quad_green : forall q : QuadBez R,
  is_RInt (green_integrand (quad_eval q)) 0 1 (2 * quad_signed_area q).
Proof. exact quad_green. Qed.
Theorem C02_area_cubic_green : forall c : CubicBez R,
  is_RInt (green_integrand (cubic_eval c)) 0 1 (2 * cubic_signed_area c).
Proof. exact cubic_green. Qed.

(** the same as an equation: signed_area s = 1/2 ∫_0^1 (x y' - y x') dt *)
Theorem C02_area_seg_green : forall s : PathSeg R,
  seg_signed_area s = / 2 * RInt (green_integrand (seg_eval s)) 0 1.
Proof. exact seg_green_RInt. Qed.

(** over any parameter range [a,b] (also a > b): the closed form of the sub-segment *)
Theorem C02_area_subsegment_green : forall (s : PathSeg R) (a b : R),
  is_RInt (green_integrand (seg_eval s)) a b (2 * seg_signed_area (seg_subsegment s a b)).
Proof. exact seg_green_sub. Qed.

(** [Segments::area] is the sum of the line integrals of the segments *)
Theorem C02_segs_area_green : forall segs : list (PathSeg R),
  segs_area segs = sum_f (map (fun s => / 2 * RInt (green_integrand (seg_eval s)) 0 1) segs).
Proof. exact segs_area_green. Qed.

(** PARTIAL with respect to the property text ("the integral of the winding number over the plane"):
    what is proved is that the reported area of a path is the line integral 1/2 ∮ (x dy - y dx) along
    all its segments, implicit closing lines included (for a closed path these form closed chains,
    [C02_closed_subpath_is_closed_chain]). Missing: Green's theorem proper, i.e. that for a closed
    piecewise-polynomial contour this line integral equals the double integral of the winding number. *)
Theorem C02_closed_path_area_partial : forall (els : list (PathEl R)) (segs : list (PathSeg R)),
  segments els = Some segs ->
  path_area els = Some (sum_f (map (fun s => / 2 * RInt (green_integrand (seg_eval s)) 0 1) segs)).
Proof. exact path_area_green. Qed.

(** ** 2. Additive over sub-paths *)

Theorem C02_area_additive_segments : forall a b : list (PathSeg R),
  segs_area (a ++ b) = segs_area a + segs_area b.
Proof. exact segs_area_app. Qed.

(** a path followed by a path that begins with [MoveTo] ([None] = the panic on a leading ClosePath) *)
Theorem C02_area_additive_subpaths : forall els1 els2 : list (PathEl R),
  starts_with_move els2 ->
  path_area (els1 ++ els2) = opt_add (path_area els1) (path_area els2).
Proof. exact path_area_app. Qed.

Theorem C02_area_additive_subpaths_n : forall (rest : list (list (PathEl R))) (first : list (PathEl R)),
  List.Forall starts_with_move rest ->
  path_area (first ++ concat rest)
  = opt_add (path_area first) (fold_right opt_add (Some 0) (map (@path_area R RS) rest)).
Proof. exact path_area_concat. Qed.

(** ** 3. Reversal negates *)

Theorem C02_area_reverse_seg : forall s : PathSeg R,
  seg_signed_area (seg_reverse s) = - seg_signed_area s.
Proof. exact seg_area_reverse. Qed.

Theorem C02_area_reverse_segs : forall segs : list (PathSeg R),
  segs_area (segs_reverse segs) = - segs_area segs.
Proof. exact segs_area_reverse. Qed.

(** reversing a closed chain gives a closed chain (traced backwards: C06_reverse_eval) *)
Theorem C02_reverse_closed_chain : forall segs : list (PathSeg R),
  chain_closed segs -> chain_closed (segs_reverse segs).
Proof. exact chain_closed_reverse. Qed.

(** ** 4. Affine maps: determinant law on closed chains
    Per (open) segment the law is false (see [C02_area_affine_open_counterexample]): the image area is
    [det A * area] plus boundary terms of the translation, which cancel exactly around a closed chain. *)

Theorem C02_area_affine_seg : forall (A : Affine R) (s : PathSeg R),
  seg_signed_area (seg_map A s)
  = aff_determinant A * seg_signed_area s + (aff_defect A (seg_end s) - aff_defect A (seg_start s)).
Proof. exact seg_area_affine. Qed.

Theorem C02_area_linear_seg : forall (A : Affine R) (s : PathSeg R),
  is_linear A -> seg_signed_area (seg_map A s) = aff_determinant A * seg_signed_area s.
Proof. exact seg_area_linear. Qed.

Theorem C02_area_closed_affine : forall (A : Affine R) (segs : list (PathSeg R)),
  chain_closed segs ->
  segs_area (map (seg_map A) segs) = aff_determinant A * segs_area segs.
Proof. exact closed_chain_area_affine. Qed.

(** element level, through [Segments::next] run on [Affine * path]: every closed path (each sub-path
    returns to its start, by [ClosePath] or explicitly), every affine map (also singular ones) *)
Theorem C02_area_closed_affine_path : forall (A : Affine R) (els : list (PathEl R)),
  closed_path els ->
  exists a, path_area els = Some a /\ path_area (path_map A els) = Some (aff_determinant A * a).
Proof. exact path_area_affine. Qed.

(** the two notions of "closed" agree: the segments of a closed sub-path form a closed chain *)
Theorem C02_closed_subpath_is_closed_chain :
  forall (p : Point R) (els : list (PathEl R)) (segs : list (PathSeg R)),
  no_move els -> closed_path (MoveTo p :: els) -> segments (MoveTo p :: els) = Some segs ->
  chain_closed segs.
Proof. exact closed_subpath_chain. Qed.

(** every element list whose sub-paths all end in [ClosePath] is a closed path in the above sense *)
Theorem C02_close_terminated_is_closed : forall els : list (PathEl R),
  close_terminated els -> closed_path els.
Proof. exact close_terminated_closed. Qed.

Example C02_area_affine_open_counterexample :
  exists (A : Affine R) (s : PathSeg R),
    seg_signed_area (seg_map A s) <> aff_determinant A * seg_signed_area s.
Proof. exact affine_open_counterexample. Qed.

(** ** 5. Split invariance: every real t (not only 0 < t < 1) *)

Theorem C02_area_split : forall (s : PathSeg R) (t : R),
  seg_signed_area (seg_subsegment s 0 t) + seg_signed_area (seg_subsegment s t 1) = seg_signed_area s.
Proof. exact seg_area_split. Qed.

Theorem C02_area_sub_add : forall (s : PathSeg R) (a b c : R),
  seg_signed_area (seg_subsegment s a b) + seg_signed_area (seg_subsegment s b c)
  = seg_signed_area (seg_subsegment s a c).
Proof. exact seg_area_sub_add. Qed.

Theorem C02_area_subdivide : forall s : PathSeg R,
  seg_signed_area (fst (seg_subdivide s)) + seg_signed_area (snd (seg_subdivide s)) = seg_signed_area s.
Proof. exact seg_area_subdivide. Qed.

Theorem C02_area_curve_subdivide :
  (forall l : Line R, line_signed_area (fst (line_subdivide l)) + line_signed_area (snd (line_subdivide l)) = line_signed_area l) /\
  (forall q : QuadBez R, quad_signed_area (fst (quad_subdivide q)) + quad_signed_area (snd (quad_subdivide q)) = quad_signed_area q) /\
  (forall c : CubicBez R, cubic_signed_area (fst (cubic_subdivide c)) + cubic_signed_area (snd (cubic_subdivide c)) = cubic_signed_area c).
Proof. exact curve_area_subdivide. Qed.

(** ** 6. Degree raising and re-expression *)

Theorem C02_area_raise : forall q : QuadBez R, cubic_signed_area (quad_raise q) = quad_signed_area q.
Proof. exact quad_area_raise. Qed.

(** [PathSeg::to_cubic]: a line as the cubic (p0,p0,p1,p1), a quadratic raised, a cubic itself *)
Theorem C02_area_line_as_cubic_to_cubic : forall s : PathSeg R,
  cubic_signed_area (seg_to_cubic s) = seg_signed_area s.
Proof. exact seg_area_to_cubic. Qed.

(** a line re-expressed with uniform parametrisation as a quadratic / cubic: same points, same area *)
Theorem C02_area_line_as_quad : forall l : Line R,
  (forall t, quad_eval (line_as_quad l) t = line_eval l t) /\
  quad_signed_area (line_as_quad l) = line_signed_area l.
Proof. intro l. split; [exact (line_as_quad_eval l) | exact (line_area_as_quad l)]. Qed.
Theorem C02_area_line_as_cubic : forall l : Line R,
  (forall t, cubic_eval (line_as_cubic l) t = line_eval l t) /\
  cubic_signed_area (line_as_cubic l) = line_signed_area l.
Proof. intro l. split; [exact (line_as_cubic_eval l) | exact (line_area_as_cubic l)]. Qed.

(** ** 7. The implicit closing line *)

(** [ClosePath] emits the closing line iff the current point differs from the sub-path start *)
Theorem C02_closepath_step : forall start last : Point R,
  (last <> start ->
   seg_step (Some (start, last)) ClosePath = Some ((start, start), Some (SegLine (mkLine last start)))) /\
  (last = start ->
   seg_step (Some (start, last)) ClosePath = Some ((start, last), None)).
Proof. exact closepath_step. Qed.

(** either way its contribution to the sum is the area of the line back to the start ... *)
Theorem C02_closepath_area : forall (start last : Point R) (r : list (PathEl R)) (segs : list (PathSeg R)),
  segs_from (Some (start, last)) (ClosePath :: r) = Some segs ->
  exists rest, segs_from (Some (start, start)) r = Some rest /\
    segs_area segs = line_signed_area (mkLine last start) + segs_area rest.
Proof. exact closepath_area. Qed.

(** ... because a zero-length line contributes 0 *)
Theorem C02_zero_length_line_area : forall p : Point R, line_signed_area (mkLine p p) = 0.
Proof. exact line_zero_area. Qed.

(** ** 8. Orientation: positive for contours turning from +x towards +y *)

Theorem C02_triangle_area : forall a b c : Point R,
  path_area [MoveTo a; LineTo b; LineTo c; ClosePath] = Some (/ 2 * v_cross (pt_sub b a) (pt_sub c a)).
Proof. exact triangle_area. Qed.

Theorem C02_quadrilateral_area : forall a b c d : Point R,
  path_area [MoveTo a; LineTo b; LineTo c; LineTo d; ClosePath]
  = Some (/ 2 * v_cross (pt_sub c a) (pt_sub d b)).
Proof. exact quadrilateral_area. Qed.

(** every polygon: the shoelace formula 1/2 Σ p_i x p_(i+1) *)
Theorem C02_polygon_area : forall (a : Point R) (mid : list (Point R)),
  path_area (MoveTo a :: map (@LineTo R) mid ++ [ClosePath]) = Some (shoelace a mid).
Proof. exact polygon_area. Qed.

Example C02_unit_square_positive :
  path_area [MoveTo (mkPoint 0 0); LineTo (mkPoint 1 0); LineTo (mkPoint 1 1); LineTo (mkPoint 0 1); ClosePath]
  = Some 1.
Proof. exact unit_square_area. Qed.
Example C02_unit_square_clockwise_negative :
  path_area [MoveTo (mkPoint 0 0); LineTo (mkPoint 0 1); LineTo (mkPoint 1 1); LineTo (mkPoint 1 0); ClosePath]
  = Some (-1).
Proof. exact unit_square_cw_area. Qed.
Example C02_unit_triangle_positive :
  path_area [MoveTo (mkPoint 0 0); LineTo (mkPoint 1 0); LineTo (mkPoint 0 1); ClosePath] = Some (/ 2).
Proof. exact unit_triangle_area. Qed.
Example C02_curved_contour_positive :
  path_area [MoveTo (mkPoint 0 0); LineTo (mkPoint 1 0); QuadTo (mkPoint 1 1) (mkPoint 0 1); ClosePath]
  = Some (5 / 6).
Proof. exact curved_example. Qed.

(** ** Non-vacuity of the hypotheses *)
Example C02_polygon_is_closed_path : forall (a : Point R) (mid : list (Point R)),
  closed_path (MoveTo a :: map (@LineTo R) mid ++ [ClosePath]).
Proof. exact polygon_closed. Qed.
Example C02_explicit_return_is_closed_path :
  closed_path [MoveTo (mkPoint 0 0); QuadTo (mkPoint 1 0) (mkPoint 1 1);
               CurveTo (mkPoint 2 2) (mkPoint 0 3) (mkPoint 0 0);
               MoveTo (mkPoint 5 5); LineTo (mkPoint 6 5); LineTo (mkPoint 5 6); ClosePath].
Proof. exact explicit_return_closed. Qed.
Example C02_chain_closed_example :
  chain_closed [SegLine (mkLine (mkPoint 0 0) (mkPoint 1 0));
                SegQuad (mkQuad (mkPoint 1 0) (mkPoint 2 2) (mkPoint 0 1));
                SegCubic (mkCubic (mkPoint 0 1) (mkPoint (-1) 1) (mkPoint (-1) 0) (mkPoint 0 0))].
Proof. exact chain_closed_example. Qed.
