(** C13 — Dashing conserves length and follows the pattern.

    Objects: [dash] = the four-state machine of model/Dash.v (stroke.rs [DashIterator], with the four
    repairs of proposed_fixes/C13-*.diff; [dash_pinned] = the code exactly as pinned);
    [dash_spec]/[subpaths]/[plain]/[subpath_out] = the structural description of spec/DashSpec.v;
    [cum]/[on_meas]/[Trace]/[PTrace] = the pattern on the half-line and what "pieces in path order
    that switch where the pattern switches" means, independent of any code.
    Real instance: polylines (Line::arclen = hypot, inv_arclen = a division, subsegment = lerp are
    exact there); curved segments enter the iterator only through arclen/inv_arclen (property C03)
    and count as length 0 in [poly_arclen].  Statements only; proofs in proofs/C13_*.v. *)
From Coq Require Import ZArith Reals Bool List Floats.
From KV Require Import Scalar RInst F64 Geom Curves Path Dash DashSpec C13_sim C13_decl C13_proofs C13_examples.
Import ListNotations.
Local Open Scope R_scope.

(** [dash_phase_init]: the initial loop ends within [init_fuel] iterations and leaves
    (dash_ix, dash_remaining, is_active) = the state of the pattern at the offset: interval number [k]
    of the pattern repeated cyclically, "on" iff [k] is even (the code toggles at every interval, so an
    odd-length pattern alternates over two periods), [cum k <= o <= cum (k+1)], remaining
    [cum (k+1) - o]; an exhausted "off" interval is never the answer (repair D). *)
Theorem C13_dash_phase_init : forall ds dm o fuel,
  pattern_ok ds dm -> 0 <= o -> (init_fuel dm o <= fuel)%nat ->
  exists k ph, dash_init fixes_all ds fuel o = InitOk ph /\
    (p_ix ph = (k mod length ds)%nat /\ p_act ph = Nat.even k /\ p_rem ph = cum ds (S k) - o /\
     cum ds k <= o <= cum ds (S k)) /\
    (p_rem ph = 0 -> p_act ph = true).
Proof. exact thm_phase_init. Qed.

(** [dash_inv]: the invariant of [step] on a line [l] whose start sits at pattern position [x0]:
    with [0 <= t <= 1], [seg_remaining = (1-t) * |l|] and the phase that of position [x0 + t|l|] in
    interval [k], a dash transition moves [t] forward to exactly the end [cum (k+1)] of the interval and
    re-establishes the invariant for interval [k+1]; otherwise the segment ends inside interval [k]. *)
Theorem C13_dash_inv : forall ds dm (l : Line R) x0 t srem (ph : Phase R) k,
  pattern_ok ds dm ->
  0 <= t <= 1 -> srem = (1 - t) * llen l -> phase_at ds k (x0 + t * llen l) ph ->
  (p_rem ph < srem ->
     let t' := switch_t poly_inv_arclen (SegLine l) t ph in
     t <= t' <= 1 /\ srem - p_rem ph = (1 - t') * llen l /\
     x0 + t' * llen l = cum ds (S k) /\
     phase_at ds (S k) (x0 + t' * llen l) (ph_next ds ph)) /\
  (srem <= p_rem ph -> phase_at ds k (x0 + llen l) (ph_final ph srem)).
Proof. exact thm_inv. Qed.

(** The machine computes the structural specification — for every element list, over ANY scalar
    (so also on binary64) whose point equality is reflexive on the points that occur; and [next]'s loop
    runs at most 2 * (emitted elements) + 5 * (input elements) + 2 times. *)
Theorem C13_machine_is_spec :
  forall (T : Type) (ST : Scalar T) (arclen : PathSeg T -> T) (inv_arclen : PathSeg T -> T -> T)
         (ds : list T) (init : Phase T),
  (forall p : Point T, pt_neb p p = false) ->
  forall fuel els out,
  dash_spec_from arclen inv_arclen ds fuel init els = Some out ->
  exists n, run arclen inv_arclen fixes_all ds init n (init_state init els) = Some (out, n) /\
            (n <= 2 * length out + 5 * length els + 2)%nat.
Proof. exact (@machine_dash_spec). Qed.

(** [dash_no_loss] / termination: for every element history (any interleaving of MoveTo / LineTo /
    QuadTo / CurveTo / ClosePath) and WHATEVER [arclen]/[inv_arclen] return for the segments (lengths
    non-negative — for curves that is property C03's business) the iterator ends; its output is that of
    the specification, in which every segment of every sub-path is dashed; explicit sufficient fuel.
    ([dash] = [dash_gen poly_arclen poly_inv_arclen fixes_all] is the instance for polylines.) *)
Theorem C13_dash_no_loss : forall ds dm (al : PathSeg R -> R) (ial : PathSeg R -> R -> R) o els fuel,
  pattern_ok ds dm -> (forall s, 0 <= al s) ->
  0 <= o -> (init_fuel dm o <= fuel)%nat -> fuel_ok al dm fuel els ->
  exists out n, dash_spec al ial ds fuel o els = Some out /\
    (n <= 2 * length out + 5 * length els + 2)%nat /\
    forall f, (fuel <= f)%nat -> (n <= f)%nat -> dash_gen al ial fixes_all ds f o els = DashOk out n.
Proof. exact thm_terminates. Qed.

(** [dash_restart_per_subpath]: the output is the concatenation, in order, of the outputs of the
    sub-paths, every one dashed from the same initial phase — that of the offset. *)
Theorem C13_dash_restart_per_subpath :
  forall ds dm (al : PathSeg R -> R) (ial : PathSeg R -> R -> R) o els fuel,
  pattern_ok ds dm -> (forall s, 0 <= al s) ->
  0 <= o -> (init_fuel dm o <= fuel)%nat -> fuel_ok al dm fuel els ->
  exists k init outs n,
    dash_init fixes_all ds fuel o = InitOk init /\ phase_at ds k o init /\
    Forall2 (fun sp out_i => subpath_out al ial ds fuel init sp = Some out_i) (subpaths els) outs /\
    forall f, (fuel <= f)%nat -> (n <= f)%nat ->
      dash_gen al ial fixes_all ds f o els = DashOk (concat outs) n.
Proof. exact thm_restart. Qed.

(** [dash_closed_join] (any scalar): on a closed sub-path with pieces [pcs] in path order,
    - one dash all around: MoveTo, the pieces, ClosePath;
    - first and last dash both on: the pieces of the first dash follow the last piece with no MoveTo
      in between (and there is a last piece);
    - first on, last off: the first dash comes last, with its MoveTo;
    - first off: the pieces as they are. *)
Theorem C13_dash_closed_join :
  forall (T : Type) (ST : Scalar T) (arclen : PathSeg T -> T) (inv_arclen : PathSeg T -> T -> T)
         (ds : list T) (init : Phase T) fuel start s0 r pcs nsw phe,
  plain arclen inv_arclen ds fuel (s0 :: r) init = Some (pcs, nsw, phe) ->
  exists out, subpath_out arclen inv_arclen ds fuel init (mkSub start (s0 :: r) true) = Some out /\
  (p_act init = true -> nsw = 0%nat ->
     out = MoveTo (seg_start s0) :: pcs ++ [ClosePath] /\ forallb (@not_move T) pcs = true /\ p_act phe = true) /\
  (p_act init = true -> nsw <> 0%nat -> p_act phe = true ->
     out = dropWhile (@not_move T) pcs ++ takeWhile (@not_move T) pcs /\ dropWhile (@not_move T) pcs <> []) /\
  (p_act init = true -> nsw <> 0%nat -> p_act phe = false ->
     out = dropWhile (@not_move T) pcs ++ MoveTo (seg_start s0) :: takeWhile (@not_move T) pcs) /\
  (p_act init = false -> out = pcs).
Proof. exact (@closed_cases). Qed.

(** an open sub-path: the first dash (if the sub-path starts on) is emitted after the others *)
Theorem C13_dash_open_rotation :
  forall (T : Type) (ST : Scalar T) (arclen : PathSeg T -> T) (inv_arclen : PathSeg T -> T -> T)
         (ds : list T) (init : Phase T) fuel start s0 r pcs nsw phe,
  plain arclen inv_arclen ds fuel (s0 :: r) init = Some (pcs, nsw, phe) ->
  exists out, subpath_out arclen inv_arclen ds fuel init (mkSub start (s0 :: r) false) = Some out /\
  (p_act init = true ->
     out = dropWhile (@not_move T) pcs ++ MoveTo (seg_start s0) :: takeWhile (@not_move T) pcs) /\
  (p_act init = false -> out = pcs).
Proof. exact (@open_cases). Qed.

(** [dash_order_and_switch_points] and [dash_on_measure], polylines (MoveTo/LineTo/ClosePath in any
    interleaving): the segments of every sub-path are connected lines [ls]; its pieces [pcs] form a
    [PTrace] — along each line in turn, at non-decreasing parameters, every piece ending exactly where
    the shifted pattern switches or at the end of the line, "on" intervals drawn and "off" intervals
    skipped by a MoveTo — and their total length is the measure of the "on" set of the pattern inside
    [o, o + length of the sub-path]. *)
Theorem C13_dash_order_switch_points_on_measure : forall ds dm fuel (init : Phase R) k o els sp,
  pattern_ok ds dm -> Forall poly_el els -> In sp (subpaths els) ->
  phase_at ds k o init -> fuel_ok poly_arclen dm fuel els ->
  exists ls pcs nsw phe k',
    sp_segs sp = map (@SegLine R) ls /\ chained ls /\
    plain poly_arclen poly_inv_arclen ds fuel (sp_segs sp) init = Some (pcs, nsw, phe) /\
    PTrace ds ls o k pcs k' /\ phase_at ds k' (o + total_len ls) phe /\
    forall K, o + total_len ls < cum ds K ->
      forall cur, (Nat.even k = true -> cur = first_pt ls cur) ->
      len_from cur pcs = on_meas ds K o (o + total_len ls).
Proof. exact thm_polyline. Qed.

(** [dash_on_measure] on what is emitted: for every sub-path of a polyline, the elements the iterator
    emits for it ([subpath_out]; [C13_dash_restart_per_subpath] says the whole output is their
    concatenation), read as a path (MoveTo starts a dash, ClosePath draws back to its start), have total
    length = the measure of the "on" set of the pattern shifted by the offset inside [o, o + L]. *)
Theorem C13_dash_on_measure : forall ds dm fuel (init : Phase R) k o els sp,
  pattern_ok ds dm -> Forall poly_el els -> In sp (subpaths els) ->
  phase_at ds k o init -> fuel_ok poly_arclen dm fuel els ->
  exists out ls, subpath_out poly_arclen poly_inv_arclen ds fuel init sp = Some out /\
    sp_segs sp = map (@SegLine R) ls /\
    forall K, o + total_len ls < cum ds K -> forall d, len2 d d out = on_meas ds K o (o + total_len ls).
Proof. exact thm_out_len. Qed.

(** non-vacuity: a pattern meeting the hypotheses *)
Example C13_pattern_ok_example : pattern_ok [3; 2] 2.
Proof. exact ex_pattern_ok. Qed.

Example C13_on_meas_example : on_meas [3; 2] 4 0 10 = 6 /\ on_meas [3; 2] 6 4 14 = 6.
Proof. exact ex_on_meas. Qed.

(** ** The pinned code violates the property (binary64 executions of the model of the pinned code,
       [dash_pinned], next to the repaired [dash]) *)
Local Open Scope float_scope.

(** A. closed sub-path inside one dash: ClosePath is emitted before the last piece *)
Example C13_closed_loop_order_refuted :
  dash_pinned [100; 2] 100 0 ex_tri
  = DashOk [MoveTo (Pf 0 0); LineTo (Pf 4 0); LineTo (Pf 4 4); ClosePath; LineTo (Pf 0 0)] 12.
Proof. exact ex_order_pinned. Qed.
Example C13_closed_loop_order_repaired :
  dash [100; 2] 100 0 ex_tri
  = DashOk [MoveTo (Pf 0 0); LineTo (Pf 4 0); LineTo (Pf 4 4); LineTo (Pf 0 0); ClosePath] 12.
Proof. exact ex_order_fixed. Qed.

(** B. ClosePath on an empty sub-path: pieces that are not on the source path *)
Example C13_empty_close_refuted :
  dash_pinned [2; 1] 100 0 [MoveTo (Pf 5 5); ClosePath] = DashOk [ClosePath; LineTo (Pf 0 0)] 7.
Proof. exact ex_empty_close_pinned. Qed.
Example C13_empty_close_repaired :
  dash [2; 1] 100 0 [MoveTo (Pf 5 5); ClosePath] = DashOk [] 3.
Proof. exact ex_empty_close_fixed. Qed.

(** C. an empty closed sub-path after an open one: the MoveTo of the withheld first dash is lost *)
Example C13_lost_moveto_refuted :
  dash_pinned [3; 2] 100 0 [MoveTo (Pf 0 0); LineTo (Pf 4 0); MoveTo (Pf 5 5); ClosePath]
  = DashOk [LineTo (Pf 3 0)] 7.
Proof. exact ex_lost_moveto_pinned. Qed.
Example C13_lost_moveto_repaired :
  dash [3; 2] 100 0 [MoveTo (Pf 0 0); LineTo (Pf 4 0); MoveTo (Pf 5 5); ClosePath]
  = DashOk [MoveTo (Pf 0 0); LineTo (Pf 3 0)] 8.
Proof. exact ex_lost_moveto_fixed. Qed.

(** D. offset of exactly one period on a closed sub-path: last and first dash both on, not joined *)
Example C13_period_offset_join_refuted :
  dash_pinned [3; 2] 100 5 ex_sq
  = DashOk [MoveTo (Pf 0 0); LineTo (Pf 3 0); MoveTo (Pf 4 1); LineTo (Pf 4 4); LineTo (Pf 4 4);
            MoveTo (Pf 2 4); LineTo (Pf 0 4); LineTo (Pf 0 3); MoveTo (Pf 0 1); LineTo (Pf 0 0)] 15.
Proof. exact ex_period_offset_pinned. Qed.
Example C13_period_offset_join_repaired :
  dash [3; 2] 100 5 ex_sq = dash [3; 2] 100 0 ex_sq /\
  dash [3; 2] 100 0 ex_sq
  = DashOk [MoveTo (Pf 4 1); LineTo (Pf 4 4); LineTo (Pf 4 4); MoveTo (Pf 2 4); LineTo (Pf 0 4);
            LineTo (Pf 0 3); MoveTo (Pf 0 1); LineTo (Pf 0 0); LineTo (Pf 3 0)] 15.
Proof. exact ex_period_offset_fixed. Qed.
