(** C13 — dashing (under construction) *)
From Coq Require Import ZArith Reals Bool List.
From KV Require Import Scalar RInst Geom Curves Path Dash DashSpec.
Example C13_placeholder : True. Proof. exact I. Qed.
