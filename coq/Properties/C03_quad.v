(** C03 (extension) — QuadBez::arclen, branch by branch, against the integral of the speed.
    Real instance of model/Arclen.v (the repaired QuadBez::arclen, commit 28a25dd). Statements only.
    [q_a q_b q_c] are the code's a = |p0 - 2 p1 + p2|^2, b = 2 (p0 - 2 p1 + p2).(p1 - p0), c = |p1 - p0|^2;
    [q_cross] = (p1 - p0) x (p2 - p1), and 4ac - b^2 = 4 q_cross^2 (so "not collinear" is the guard the
    logarithm needs).  The branch is selected exactly as the code tests it: [snd (quad_arclen_b q)] is the
    branch the model took ([a <= 5e-4 c] near-straight; else [b a^(-1/2) + 2 sqrt c <= 1e-14 * 2 sqrt c]
    sharp kink; else the closed form). *)
From Coq Require Import ZArith QArith Reals List Bool.
From Coquelicot Require Import Coquelicot.
From KV Require Import Scalar RInst Geom Curves Arclen ArclenSpec C03_proofs C03_quadform.
Local Open Scope R_scope.

(** the branch tests, spelled out *)
Theorem C03_quad_branch_tests : forall q : QuadBez R,
  snd (quad_arclen_b q) =
  if Rleb (q_a q) (Q2R (1 # 2000) * q_c q) then QStraight
  else if Rleb (q_b q * @fpowf R RS (q_a q) al_mhalf + 2 * sqrt (q_c q))
               (Q2R (1 # 100000000000000) * (2 * sqrt (q_c q))) then QKink else QClosed.
Proof. exact quad_branch_eq. Qed.

(** the speed of a quadratic is 2 sqrt(a t^2 + b t + c) in the code's a, b, c (the derivative's
    coefficients are a' = 4a, b' = 4b, c' = 4c), and 4ac - b^2 = 4 ((p1-p0) x (p2-p1))^2 *)
Theorem C03_quad_speed : forall (q : QuadBez R) (t : R),
  speed (SegQuad q) t = 2 * sqrt (q_a q * (t * t) + q_b q * t + q_c q).
Proof. exact quad_speed. Qed.
Theorem C03_quad_discriminant : forall q : QuadBez R,
  4 * q_a q * q_c q - q_b q * q_b q = 4 * (q_cross q * q_cross q).
Proof. exact quad_disc. Qed.

(** the antiderivative: for r > 0 and 4 r^2 c - b^2 > 0,
    F(t) = (2 r^2 t + b)/(4 r^2) S(t) + (4 r^2 c - b^2)/(8 r^3) ln(2 r S(t) + 2 r^2 t + b),
    S(t) = sqrt(r^2 t^2 + b t + c), satisfies F' = S everywhere, hence integral_0^1 S = F(1) - F(0) *)
Theorem C03_quad_antiderivative : forall r b c : R,
  0 < r -> 0 < 4 * (r * r) * c - b * b ->
  (forall t, is_derive (qF r b c) t (qS r b c t)) /\ is_RInt (qS r b c) 0 1 (qF r b c 1 - qF r b c 0).
Proof. exact quad_antiderivative. Qed.

(** MAIN BRANCH: for control points that are not collinear, the value the model computes in the
    closed-form branch (a2, a32, c2, ba_c2, sabc, v0 and the logarithm, operation by operation) equals
    the integral of the speed over [0,1] *)
Theorem C03_quad_arclen_closed_form : forall q : QuadBez R,
  snd (quad_arclen_b q) = QClosed -> q_cross q <> 0 ->
  quad_arclen q = RInt (speed (SegQuad q)) 0 1.
Proof. exact quad_arclen_closed_form. Qed.

(** SHARP-KINK BRANCH: for collinear control points (4ac = b^2; then the speed is 2 sqrt(a) |t - t0| and
    the factor of the logarithm vanishes) the value v0 the model returns equals the integral of the speed *)
Theorem C03_quad_arclen_kink : forall q : QuadBez R,
  snd (quad_arclen_b q) = QKink -> q_cross q = 0 ->
  quad_arclen q = RInt (speed (SegQuad q)) 0 1.
Proof. exact quad_arclen_kink_form. Qed.

(** NEAR-STRAIGHT BRANCH: what it is.  The branch returns [q_gauss3 k0 k1 k2 k3 q] with the four decimal
    constants of the source; with the exact constants (s = sqrt(3/5)) that expression IS the 3-point
    Gauss-Legendre rule on [0,1] applied to the speed; and the decimals equal the exact constants to 1e-15.
    (No bound on the rule's error for a <= 5e-4 c is proved.) *)
Theorem C03_quad_arclen_near_straight_is_gauss3 : forall q : QuadBez R,
  let s := sqrt (3 / 5) in
  let k0 := Q2R (492943519233745 # 1000000000000000) in
  let k1 := Q2R (430331482911935 # 1000000000000000) in
  let k2 := Q2R (626120363218102 # 10000000000000000) in
  let k3 := Q2R (4444444444444444 # 10000000000000000) in
  (snd (quad_arclen_b q) = QStraight -> quad_arclen q = q_gauss3 k0 k1 k2 k3 q) /\
  q_gauss3 (5 / 18 * (1 + s)) (5 / 9 * s) (5 / 18 * (1 - s)) (4 / 9) q
    = 5 / 18 * speed (SegQuad q) ((1 - s) / 2) + 8 / 18 * speed (SegQuad q) (/ 2)
      + 5 / 18 * speed (SegQuad q) ((1 + s) / 2) /\
  Rabs (k0 - 5 / 18 * (1 + s)) <= / 10 ^ 15 /\ Rabs (k1 - 5 / 9 * s) <= / 10 ^ 15 /\
  Rabs (k2 - 5 / 18 * (1 - s)) <= / 10 ^ 15 /\ Rabs (k3 - 4 / 9) <= / 10 ^ 15.
Proof. exact quad_near_straight_is_gauss3. Qed.

(** non-vacuity: a quadratic in each branch meeting the hypotheses *)
Example C03_quad_branch_examples :
  (snd (quad_arclen_b quad_ex_main) = QClosed /\ q_cross quad_ex_main <> 0) /\
  (snd (quad_arclen_b quad_ex_kink) = QKink /\ q_cross quad_ex_kink = 0) /\
  snd (quad_arclen_b quad_ex_straight) = QStraight.
Proof. exact quad_branch_examples. Qed.
