(** C03 — statements about the binary64 run of the model (evaluation inside Coq). Statements only. *)
From Coq Require Import ZArith Floats List Bool.
From KV Require Import Scalar F64 Geom Curves Arclen C03_float.
Local Open Scope float_scope.

(** ** QuadBez::arclen on degenerate quadratics: the pinned code returns NaN (refuted on binary64) *)

(** The faithful model of the PINNED code ([quad_arclen_pinned]: [a < 5e-4 c], [sabc = sqrt(a+b+c)],
    absolute kink threshold), run on binary64, returns NaN for a quadratic with p2 = p1 and for a
    zero-length quadratic — both named by the property.  Only exact operations are involved up to the
    NaN, so this is the compiled crate's result bit for bit (the correspondence and the laws observe
    the same NaN on /repo).  The model used everywhere else ([quad_arclen]) is the repaired behaviour
    of proposed_fixes/C03-quad-arclen-degenerate.diff, which is finite and right on both. *)
Theorem C03_quad_arclen_pinned_refuted :
  (exists q : QuadBez float, q2 q = q1 q /\ PrimFloat.is_nan (quad_arclen_pinned q) = true) /\
  (exists q : QuadBez float, q0 q = q1 q /\ q1 q = q2 q /\ PrimFloat.is_nan (quad_arclen_pinned q) = true).
Proof. exact quad_arclen_pinned_refuted. Qed.

Example C03_quad_arclen_required :
  F.close 0x1p-40 (quad_arclen quad_p2_eq_p1) 0x1.205dc3a9350b1p+4 = true /\
  (PrimFloat.eqb (quad_arclen quad_zero_length) 0 = true \/ PrimFloat.ltb (quad_arclen quad_zero_length) 0x1p-40 = true).
Proof. exact quad_arclen_required. Qed.
