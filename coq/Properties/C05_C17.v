(** C05, the cubic vertex bound without hypotheses: C05_flatten_cubic_vertices_near with its
    hypothesis discharged by property C17's theorems (C17_to_quads_within_accuracy_n,
    C17_to_quads_count_enough). Kept in a file of its own because it depends on another
    property's development. *)
From Coq Require Import ZArith Reals Bool List Sorted.
From KV Require Import Scalar RInst Geom Curves Path Flatten FlattenSpec C05_c17.
Import ListNotations.
Local Open Scope R_scope.

(** every interior vertex of a cubic's run lies within a tenth of the tolerance of the cubic, at
    parameters in [0,1) that strictly increase along the run (never backwards) *)
Theorem C05_flatten_cubic_within_tenth : forall (c : CubicBez R) (tol : R), 0 < tol ->
  exists pts us, flatten_cubic_pts c tol (sqrt tol) = Some pts /\
    Forall2 (fun v u => pt_distance v (cubic_eval c u) <= tol * to_quad_tol) pts us /\
    Forall (fun u => 0 <= u < 1) us /\ StronglySorted Rlt us.
Proof. exact cubic_vertices_near_c17. Qed.
