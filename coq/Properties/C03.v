(** C03 — Arc length is accurate to the requested accuracy and invertible.
    Real instance of model/Arclen.v (and Solvers.v for the pure ITP loop). Statements only.

    What is NOT proved here, and is named: [est_conservative] — that the error estimates of
    arclen_rec with their tuned constants (2.5e-6, 1.5e-11, 3.5e-16 and the caps 3e-2, 9e-3, 3.5e-3)
    bound the true error of the 8/16/24-point rules.  It is a hypothesis of [C03_arclen_rec_budget]
    (as [leaves_conservative]); the laws on the implementation judge it by testing and find it
    FALSE by a bounded factor on folded / cusp-like cubics (known finding C03-cubic-est-optimistic).
    Also not proved: the quadratic closed form equals the integral of the speed; monotonicity of
    inv_arclen up to the accuracy; anything about rounding. *)
From Coq Require Import ZArith QArith Reals List Bool.
From Coquelicot Require Import Coquelicot.
From KV Require Import Scalar RInst Geom Curves Path Solvers Arclen ArclenSpec C03_proofs.
Import ListNotations.
Local Open Scope R_scope.

(** ** Lines: exact *)

(** the reported length is the Euclidean distance of the end points, and it is the true arc length
    (the integral of the speed) *)
Theorem C03_line_arclen_exact : forall l : Line R,
  line_arclen l = sqrt ((px (l1 l) - px (l0 l)) * (px (l1 l) - px (l0 l))
                        + (py (l1 l) - py (l0 l)) * (py (l1 l) - py (l0 l)))
  /\ line_arclen l = true_len (SegLine l).
Proof. exact P_C03_line_arclen_exact. Qed.

(** inv_arclen of a line is linear in the requested length; for a line of positive length and a
    request in [0, length] the result lies in [0,1], it is 0 and 1 at the ends, and the arc length up
    to the returned parameter is exactly the request *)
Theorem C03_line_inv_arclen : forall (l : Line R) (s : R),
  0 < line_arclen l ->
  line_inv_arclen l s = s / line_arclen l /\
  (0 <= s <= line_arclen l -> 0 <= line_inv_arclen l s <= 1) /\
  line_inv_arclen l 0 = 0 /\ line_inv_arclen l (line_arclen l) = 1 /\
  (0 <= s -> line_arclen (line_subsegment l 0 (line_inv_arclen l s)) = s).
Proof. exact P_C03_line_inv_arclen. Qed.

Example C03_line_example :
  let l := mkLine (mkPoint 0 0) (mkPoint 3 4) in
  line_arclen l = 5 /\ line_inv_arclen l (5 / 2) = / 2.
Proof. exact P_C03_line_example. Qed.

(** ** True length: additive under a split *)

(** the true length of a sub-segment is the integral of the speed over its range, and the true
    length is additive when a segment (line, quadratic, cubic) is split at any parameter of [0,1] *)
Theorem C03_true_len_split : forall (s : PathSeg R) (t : R),
  0 <= t <= 1 ->
  true_len (seg_subsegment s 0 t) = true_len_range s 0 t /\
  true_len (seg_subsegment s t 1) = true_len_range s t 1 /\
  true_len s = true_len (seg_subsegment s 0 t) + true_len (seg_subsegment s t 1).
Proof. exact P_C03_true_len_split. Qed.

(** in particular the true length of a cubic is additive under the code's [subdivide] *)
Theorem C03_cubic_true_len_additive : additive_on_subdivide cubic_true_len.
Proof. exact cubic_true_len_additive. Qed.

(** ** Perimeter = sum over the segments *)
Theorem C03_perimeter_is_sum : forall (segs segs' : list (PathSeg R)) (els : list (PathEl R)) (acc : R),
  segs_perimeter segs acc = Rsum (map (fun s => seg_arclen s acc) segs) /\
  segs_perimeter (segs ++ segs') acc = segs_perimeter segs acc + segs_perimeter segs' acc /\
  path_perimeter els acc = option_map (fun sg => Rsum (map (fun s => seg_arclen s acc) sg)) (segments els).
Proof. exact P_C03_perimeter_is_sum. Qed.

(** ** The quadrature core is the symmetric Gauss rule applied to the speed |B'| *)

(** for ANY coefficient table, with dm, dm1, dm2 as arclen_rec computes them
    (dm + dm1 x + dm2 x^2 = B'((1+x)/2) / 3, a ring identity):
    arclen_quadrature_core = sum_i (w_i/2) (|B'((1+x_i)/2)| + |B'((1-x_i)/2)|),
    the rule on [-1,1] with nodes +-x_i and weights w_i, mapped to [0,1] *)
Theorem C03_gauss_core_is_rule : forall (coeffs : list (R * R)) (c : CubicBez R),
  let d := arclen_setup c in
  arclen_quadrature_core coeffs (a_dm d) (a_dm1 d) (a_dm2 d) = sym_rule coeffs (speed (SegCubic c)).
Proof. exact gauss_core_is_rule. Qed.

(** the full 8-point table used by the estimate is the half table with both signs of every node,
    so the full rule equals the symmetric rule of the half table *)
Theorem C03_gauss_half_tables_symmetric : forall g : R -> R,
  gl8 (T:=R) = symmetrize gl8_half /\ full_rule gl8 g = sym_rule gl8_half g.
Proof. exact P_C03_gauss_half_tables_symmetric. Qed.

(** transcription check on the exact rationals of the decimals in the source: each half table's
    weights sum to the interval length 1 to 1e-15 ... *)
Theorem C03_gauss_weights_sum :
  Rabs (Rsum (map fst (gl8_half (T:=R))) - 1) <= / 10 ^ 15 /\
  Rabs (Rsum (map fst (gl16_half (T:=R))) - 1) <= / 10 ^ 15 /\
  Rabs (Rsum (map fst (gl24_half (T:=R))) - 1) <= / 10 ^ 15.
Proof. exact gauss_weights_sum. Qed.

(** ... and the tables ARE the n-point Gauss-Legendre rules up to 1e-15: the n-point rule is the only
    n-point rule exact for every polynomial of degree < 2n; odd moments vanish by symmetry and the even
    moments sum_i w_i x_i^(2j) equal 1/(2j+1) for all j < n (to 1e-15, in exact rational arithmetic) *)
Theorem C03_gauss_tables_exactness :
  (forall j, (j < 8)%nat -> Rabs (moment (gl8_half (T:=R)) (2 * j) - / INR (2 * j + 1)) <= / 10 ^ 15) /\
  (forall j, (j < 16)%nat -> Rabs (moment (gl16_half (T:=R)) (2 * j) - / INR (2 * j + 1)) <= / 10 ^ 15) /\
  (forall j, (j < 24)%nat -> Rabs (moment (gl24_half (T:=R)) (2 * j) - / INR (2 * j + 1)) <= / 10 ^ 15).
Proof. exact P_C03_gauss_tables_exactness. Qed.

(** the quantity the decision cascade is based on: [est] is the full 8-point rule applied to
    |B''(t)|^2 / (4 |B'(t)|^2) (B'' the second derivative curve; x / 0 = 0 at a zero of B'), i.e. an
    approximation of (1/2) * integral over [0,1] of |B''|^2 / |B'|^2; the three error estimates are
    min(est^3 * 2.5e-6, 3e-2), min(est^6 * 1.5e-11, 9e-3), min(est^9 * 3.5e-16, 3.5e-3) times
    (control polygon length - chord length) by definition ([est8_error] etc. in model/Arclen.v) *)
Theorem C03_est_is_rule : forall c : CubicBez R,
  arclen_est (arclen_setup c)
  = Rsum (map (fun wx => fst wx * (nsq (cubic_deriv2_at c ((1 + snd wx) / 2))
                                   / (4 * nsq (quad_eval (cubic_deriv c) ((1 + snd wx) / 2))))) gl8).
Proof. exact arclen_est_is_rule. Qed.

(** ** The recursion: error budget (PARTIAL: conditional on est_conservative) and size *)

(** For any length functional [L] additive under [subdivide] (in particular the true arc length, next
    theorem), IF on every leaf the recursion reaches the chosen rule's true error is at most the estimate
    the code computed (+ rho * L, rho a relative rounding allowance, 0 allowed) and the rule was admitted
    by its estimate rather than forced by the depth cap ([leaves_conservative]), THEN the result is
    within the requested accuracy: the budget a splits as a/2 + a/2 over the two halves. *)
Theorem C03_arclen_rec_budget_partial : forall (L : CubicBez R -> R) (rho : R),
  additive_on_subdivide L ->
  forall (rem : nat) (c : CubicBez R) (acc : R),
    leaves_conservative L rho rem c acc ->
    Rabs (arclen_rec rem c acc - L c) <= acc + rho * L c.
Proof. exact arclen_rec_budget. Qed.

(** the same for CubicBez::arclen (depth 0, rem = 20) against the true arc length *)
Theorem C03_cubic_arclen_budget_partial : forall (rho : R) (c : CubicBez R) (acc : R),
  leaves_conservative cubic_true_len rho 20 c acc ->
  Rabs (cubic_arclen c acc - cubic_true_len c) <= acc + rho * cubic_true_len c.
Proof. exact P_C03_cubic_arclen_budget_partial. Qed.

(** the same with the hypothesis stated globally: IF the estimate is conservative for every cubic and every
    rule ([est_conservative], UNPROVED — and refuted by testing for rho = 0, see docs/C03.md) and every leaf
    was admitted by its estimate rather than forced by the depth cap ([cap_not_hit]), THEN the budget holds *)
Theorem C03_arclen_rec_budget_est_conservative_partial : forall (L : CubicBez R -> R) (rho : R),
  additive_on_subdivide L -> est_conservative L rho ->
  forall (rem : nat) (c : CubicBez R) (acc : R),
    cap_not_hit rem c acc -> Rabs (arclen_rec rem c acc - L c) <= acc + rho * L c.
Proof. exact arclen_rec_budget_est_conservative. Qed.

Example C03_cap_not_hit_example : forall acc : R, 0 < acc -> cap_not_hit 20 straight_cubic acc.
Proof. exact cap_not_hit_straight. Qed.

(** non-vacuity: a straight, uniformly parametrised cubic meets the hypothesis for every accuracy
    (with rho = 1e-15: the tables are 16-digit decimals), so its reported length is within
    acc + 3e-15 of its true length 3 *)
Example C03_budget_example : forall acc : R, 0 < acc ->
  leaves_conservative cubic_true_len (/ 10 ^ 15) 20 straight_cubic acc /\
  cubic_true_len straight_cubic = 3.
Proof. exact P_C03_budget_example. Qed.

(** size: CubicBez::arclen makes at most 2^21 - 1 calls of arclen_rec, with at most 2^20 leaves; the
    depth is at most 20 by construction (the model recurses on rem = 20 - depth, and the
    correspondence checks the hook at depths 0..30 against it); calls = 2 leaves - 1 *)
Theorem C03_arclen_rec_leaves : forall (rem : nat) (c : CubicBez R) (acc : R),
  (1 <= arclen_leaves rem c acc <= 2 ^ Z.of_nat rem)%Z /\
  arclen_rec_calls rem c acc = (2 * arclen_leaves rem c acc - 1)%Z.
Proof. exact P_C03_arclen_rec_leaves. Qed.

Theorem C03_cubic_arclen_size : forall (c : CubicBez R) (acc : R),
  (1 <= arclen_leaves 20 c acc <= 1048576)%Z /\ (1 <= arclen_rec_calls 20 c acc <= 2097151)%Z.
Proof. exact cubic_arclen_size. Qed.

(** ** ITP *)

(** one step: the new point lies strictly inside the bracket and within se of both ends whenever
    b - a <= 2 se (the invariant "r >= 0" of the ITP paper), for any ya < 0 < yb and k1 >= 0 *)
Theorem C03_itp_step : forall a b k1 ya yb se : R,
  a < b -> ya < 0 -> 0 < yb -> 0 <= k1 -> b - a <= 2 * se ->
  let x := itp_point a b k1 ya yb se in
  a < x < b /\ x - a <= se /\ b - x <= se.
Proof. exact itp_point_spec. Qed.

(** bracket invariant + termination, for ANY function (stateful, discontinuous, whatever): the
    loop ends within [fuel] iterations once se <= eps 2^fuel, the result lies in the bracket *)
Theorem C03_itp_bracket : forall (St : Type) (f : St -> R -> St * R) (eps k1 : R),
  0 < eps -> 0 <= k1 ->
  forall (fuel : nat) (st : St) (iters : Z) (a b ya yb se : R),
    a <= b -> ya < 0 -> 0 < yb -> b - a <= 2 * se -> se <= eps * 2 ^ fuel ->
    exists x st' n,
      itp_loop_st f fuel eps k1 st iters a b ya yb se = Some (x, st', n) /\
      a <= x <= b /\ (iters <= n <= iters + Z.of_nat fuel)%Z.
Proof. exact itp_loop_st_spec. Qed.

(** solve_itp (as repaired by commit 75101ed: saturating nmax, 2^min(nmax,1023) built exactly) terminates
    within its own budget nmax = n0 + n1_2 loop entries with a result in [a,b], for every function f,
    provided nmax <= 1023 (epsilon not below 2^-1023 of the bracket) *)
Theorem C03_itp_terminates : forall (St : Type) (f : St -> R -> St * R)
    (fuel : nat) (st : St) (a b eps : R) (n0 : Z) (k1 ya yb : R),
  0 < eps -> a < b -> ya < 0 -> 0 < yb -> 0 <= k1 -> (0 <= n0)%Z ->
  let nmax := (n0 + itp_n1_2 a b eps)%Z in
  (nmax <= 1023)%Z -> (nmax <= Z.of_nat fuel)%Z ->
  exists x st' n,
    solve_itp_st f fuel st a b eps n0 k1 ya yb = Some (x, st', n) /\ a <= x <= b /\ (0 <= n <= nmax)%Z.
Proof. exact solve_itp_st_spec. Qed.

(** the pure loop of Solvers.v (common.rs solve_itp with an ordinary closure): the result is an exact
    zero or the midpoint of a final bracket [a',b'] inside [a,b] with g a' < 0 < g b', b' - a' <= 2 eps;
    hence for a non-decreasing g it is within eps of every zero of g *)
Theorem C03_itp_monotone : forall (g : R -> R) (fuel : nat) (a b eps : R) (n0 : Z) (k1 z : R),
  0 < eps -> a < b -> g a < 0 -> 0 < g b -> 0 <= k1 -> (0 <= n0)%Z ->
  (n0 + itp_n1_2 a b eps <= 1023)%Z -> (n0 + itp_n1_2 a b eps <= Z.of_nat fuel)%Z ->
  exists x, solve_itp fuel g a b eps n0 k1 (g a) (g b) = Some x /\ a <= x <= b /\
            itp_result g eps a b x /\
            ((forall u v, u <= v -> g u <= g v) -> g z = 0 -> g x = 0 \/ Rabs (x - z) <= eps).
Proof. exact P_C03_itp_monotone. Qed.

(** the stateful loop with a trivial state IS the pure loop (ties the two models of solve_itp) *)
Theorem C03_itp_loops_agree : forall (g : R -> R) (eps k1 : R) (fuel : nat) (it : Z) (a b ya yb se : R),
  option_map (fun r => fst (fst r)) (itp_loop_st (fun (u : unit) x => (u, g x)) fuel eps k1 tt it a b ya yb se)
  = itp_loop fuel g eps k1 a b ya yb se.
Proof. exact itp_loop_st_pure. Qed.

Theorem C03_solve_itp_agree : forall (g : R -> R) (fuel : nat) (a b eps : R) (n0 : Z) (k1 ya yb : R),
  option_map (fun r => fst (fst r)) (solve_itp_st (fun (u : unit) x => (u, g x)) fuel tt a b eps n0 k1 ya yb)
  = solve_itp fuel g a b eps n0 k1 ya yb.
Proof. exact solve_itp_st_pure. Qed.

(** non-vacuity of the ITP hypotheses: g x = x - 1/3 on [0,1] with eps = 1/100 *)
Example C03_itp_example :
  let g := fun x : R => x - / 3 in
  exists x, itp_loop 10 g (/ 100) (/ 5) 0 1 (g 0) (g 1) 1 = Some x /\ 0 <= x <= 1 /\
            Rabs (x - / 3) <= / 100.
Proof. exact P_C03_itp_example. Qed.

(** ** inv_arclen *)

(** the provided inv_arclen (quadratics, cubics): for every positive accuracy whose ratio to the reported
    total keeps solve_itp's budget within 1023 (accuracy / total not below about 2^-1022), the call returns,
    the result lies in [0,1], a request <= 0 gives exactly 0 and a request >= the reported total exactly 1 *)
Theorem C03_inv_arclen_range : forall (fuel : nat) (s : PathSeg R) (arclen acc : R),
  0 < acc -> (1024 <= fuel)%nat ->
  (0 < arclen < seg_arclen s acc -> (1 + itp_n1_2 0%R 1%R (acc / seg_arclen s acc)%R <= 1023)%Z) ->
  exists t w br,
    inv_arclen_default fuel s arclen acc = Some (t, w, br) /\
    0 <= t <= 1 /\ (arclen <= 0 -> t = 0) /\ (0 < arclen -> seg_arclen s acc <= arclen -> t = 1).
Proof. exact inv_arclen_range. Qed.

(** PathSeg::inv_arclen (lines use the linear formula): result in [0,1] for a request in [0, total] *)
Theorem C03_seg_inv_arclen_range : forall (fuel : nat) (s : PathSeg R) (arclen acc : R),
  0 < acc -> (1024 <= fuel)%nat -> 0 < seg_arclen s acc -> 0 <= arclen <= seg_arclen s acc ->
  (1 + itp_n1_2 0%R 1%R (acc / seg_arclen s acc)%R <= 1023)%Z ->
  exists t, seg_inv_arclen fuel s arclen acc = Some t /\ 0 <= t <= 1.
Proof. exact seg_inv_arclen_range. Qed.

(** non-vacuity of the budget hypothesis: accuracy / total = 1/2 gives n1_2 = 0 *)
Example C03_itp_budget_example : (1 + itp_n1_2 0%R 1%R (/ 2)%R <= 1023)%Z.
Proof. exact itp_budget_half. Qed.
