(** C11 — Closed-form shape queries agree with the shape's own outline.
    Statements only; every proof is [exact <lemma>]. Real instance of the models
    (model/Rect.v, model/ShapeQueries.v); the spec side is spec/RayCast.v (half-open leftward
    ray cast of a polygonal outline, mirroring [PathSeg::winding_inner] for lines) and
    spec/ShapeSpec.v (the ideal curved shapes as point sets; their Bézier outlines are C10's subject).

    Models named [..._pinned] mirror the pinned code where it violates the property; the unsuffixed
    model is the required behaviour (= the code with proposed_fixes/C11-*.diff applied), and it is
    the one the correspondence check runs against the compiled crate. *)
From Coq Require Import ZArith Reals List Bool.
From KV Require Import Scalar RInst Geom Rect Affine Curves ShapeTypes ShapeQueries RectSpec RayCast ShapeSpec.
From KV Require Import C11_proofs C11_curved C11_cseg C11_kummer C11_agm C11_examples.
Import ListNotations.
Local Open Scope R_scope.

(** * Rect *)

(** for ANY corner order and EVERY point (boundary points included) the closed form is the half-open
    ray cast of the rectangle's own outline (x0,y0) (x1,y0) (x1,y1) (x0,y1) ... *)
Theorem C11_rect_winding_eq_outline : forall (r : Rect R) (p : Point R),
  rect_winding r p = poly_cast (rect_outline r) p.
Proof. exact rect_winding_eq_outline. Qed.

(** ... which is also what the model of the code's own [winding_inner] sums to on those 4 edges *)
Theorem C11_rect_winding_eq_path_winding : forall (r : Rect R) (p : Point R),
  rect_winding r p = poly_winding (rect_outline r) p.
Proof. exact rect_winding_eq_path_winding. Qed.

Theorem C11_line_winding_inner_is_half_open_rule : forall s e p : Point R,
  line_winding_inner s e p = edge_cast s e p.
Proof. exact line_winding_inner_eq_edge_cast. Qed.

(** the rule: min <= p < max on both axes, sign = sign of the signed area *)
Theorem C11_rect_winding_half_open : forall (r : Rect R) (p : Point R),
  let inside := Rmin (rx0 r) (rx1 r) <= px p < Rmax (rx0 r) (rx1 r) /\
                Rmin (ry0 r) (ry1 r) <= py p < Rmax (ry0 r) (ry1 r) in
  (inside -> 0 < rect_area r -> rect_winding r p = 1%Z) /\
  (inside -> rect_area r < 0 -> rect_winding r p = (-1)%Z) /\
  (~ inside -> rect_winding r p = 0%Z) /\
  (rect_area r = 0 -> rect_winding r p = 0%Z).
Proof. exact rect_winding_half_open. Qed.

Theorem C11_rect_winding_corner_order : forall (x0 y0 x1 y1 : R) (p : Point R),
  let w := rect_winding (mkRect x0 y0 x1 y1) p in
  rect_winding (mkRect x1 y0 x0 y1) p = (- w)%Z /\
  rect_winding (mkRect x0 y1 x1 y0) p = (- w)%Z /\
  rect_winding (mkRect x1 y1 x0 y0) p = w.
Proof. exact rect_winding_corner_order. Qed.

(** a grid of rectangles sharing edges (cuts [xs], [ys], sorted, repeated cuts allowed) assigns every
    point of the covered region to exactly one tile, and points outside to none *)
Theorem C11_rect_tiling : forall (xs ys : list R) (p : Point R),
  sorted_idx xs -> sorted_idx ys -> (2 <= length xs)%nat -> (2 <= length ys)%nat ->
  nth 0 xs 0 <= px p < nth (length xs - 1) xs 0 ->
  nth 0 ys 0 <= py p < nth (length ys - 1) ys 0 ->
  exists! ij : nat * nat,
    (S (fst ij) < length xs)%nat /\ (S (snd ij) < length ys)%nat /\
    rect_winding (tile xs ys (fst ij) (snd ij)) p <> 0%Z.
Proof. exact rect_tiling. Qed.

Theorem C11_rect_tiling_outside : forall (xs ys : list R) (p : Point R) i j,
  sorted_idx xs -> sorted_idx ys -> (S i < length xs)%nat -> (S j < length ys)%nat ->
  ~ (nth 0 xs 0 <= px p < nth (length xs - 1) xs 0 /\ nth 0 ys 0 <= py p < nth (length ys - 1) ys 0) ->
  rect_winding (tile xs ys i j) p = 0%Z.
Proof. exact rect_tiling_outside. Qed.

(** bounding box = abs = the smallest box containing the outline's vertices; |area| and perimeter *)
Theorem C11_rect_area_perimeter_bbox : forall r : Rect R,
  let b := rect_bounding_box r in
  b = rect_abs r /\ nonneg b /\
  (forall c, In c (rect_outline r) -> in_closed b c) /\
  (forall b', (forall c, In c (rect_outline r) -> in_closed b' c) -> subset b b') /\
  Rabs (rect_area r) = rect_area b /\
  rect_perimeter r = rect_perimeter b /\
  rect_perimeter r = 2 * (Rabs (rx1 r - rx0 r) + Rabs (ry1 r - ry0 r)).
Proof. exact rect_queries. Qed.

(** * Triangle *)

(** off the boundary, for every triangle (either orientation, degenerate ones included), the required
    closed form is the ray cast of the outline a b c *)
Theorem C11_triangle_winding_eq_outline : forall (t : Triangle R) (p : Point R),
  ~ on_polygon (tri_outline t) p -> tri_winding t p = poly_cast (tri_outline t) p.
Proof. exact tri_winding_eq_outline. Qed.

(** the pinned code satisfies this for triangles of non-zero area ... *)
Theorem C11_triangle_winding_pinned_eq_outline : forall (t : Triangle R) (p : Point R),
  tri_area t <> 0 -> ~ on_polygon (tri_outline t) p ->
  tri_winding_pinned t p = poly_cast (tri_outline t) p.
Proof. exact tri_winding_pinned_eq_outline. Qed.

(** ... and violates it for degenerate ones (all vertices equal: every point is "inside") *)
Theorem C11_triangle_winding_pinned_degenerate_refuted :
  exists (t : Triangle R) (p : Point R),
    ~ on_polygon (tri_outline t) p /\ tri_winding_pinned t p <> poly_cast (tri_outline t) p.
Proof. exact tri_winding_pinned_degenerate_refuted. Qed.

Theorem C11_triangle_winding_sign : forall (t : Triangle R) (p : Point R),
  (tri_winding t p = 1%Z -> 0 < tri_area t) /\ (tri_winding t p = (-1)%Z -> tri_area t < 0).
Proof. exact tri_winding_sign. Qed.

Theorem C11_triangle_area_bbox : forall t : Triangle R,
  let b := tri_bounding_box t in
  nonneg b /\
  (forall c, In c (tri_outline t) -> in_closed b c) /\
  (forall b', (forall c, In c (tri_outline t) -> in_closed b' c) -> subset b b') /\
  tri_area t = orient (tri_a t) (tri_b t) (tri_c t) / 2.
Proof. exact tri_queries. Qed.

(** * Circle *)

Theorem C11_circle_winding : forall (c : Circle R) (p : Point R),
  (in_open_disc (ci_center c) (ci_radius c) p -> circle_winding c p = 1%Z) /\
  (~ in_open_disc (ci_center c) (ci_radius c) p -> circle_winding c p = 0%Z).
Proof. exact circle_winding_spec. Qed.

(** area, perimeter (any sign of the radius); the bounding box contains the circle and each side is touched *)
Theorem C11_circle_area_perimeter_bbox : forall c : Circle R,
  let b := circle_bounding_box c in
  let ctr := ci_center c in
  circle_area c = PI * sq (ci_radius c) /\
  circle_perimeter c = 2 * PI * Rabs (ci_radius c) /\
  nonneg b /\
  (forall q, on_circle ctr (ci_radius c) q -> in_closed b q) /\
  on_circle ctr (ci_radius c) (mkPoint (rx0 b) (py ctr)) /\ on_circle ctr (ci_radius c) (mkPoint (rx1 b) (py ctr)) /\
  on_circle ctr (ci_radius c) (mkPoint (px ctr) (ry0 b)) /\ on_circle ctr (ci_radius c) (mkPoint (px ctr) (ry1 b)).
Proof. exact circle_queries. Qed.

(** * Ellipse (the image of the unit circle under [inner]; [det <> 0] guards the division in [inverse]) *)

Theorem C11_ellipse_winding : forall (e : Ellipse R) (p : Point R),
  aff_determinant (el_inner e) <> 0 ->
  (in_affine_disc (el_inner e) p -> ellipse_winding e p = 1%Z) /\
  (~ in_affine_disc (el_inner e) p -> ellipse_winding e p = 0%Z).
Proof. exact ellipse_winding_spec. Qed.

(** area as the code computes it: pi times the product of the singular values of [Affine::svd] = pi |det| *)
Theorem C11_ellipse_area : forall e : Ellipse R,
  ellipse_area e = PI * Rabs (aff_determinant (el_inner e)).
Proof. exact ellipse_area_spec. Qed.

Theorem C11_ellipse_bbox_tight : forall e : Ellipse R,
  let b := ellipse_bounding_box e in let m := el_inner e in
  nonneg b /\
  (forall q, on_affine_circle m q -> in_closed b q) /\
  (exists q, on_affine_circle m q /\ px q = rx0 b) /\ (exists q, on_affine_circle m q /\ px q = rx1 b) /\
  (exists q, on_affine_circle m q /\ py q = ry0 b) /\ (exists q, on_affine_circle m q /\ py q = ry1 b).
Proof. exact ellipse_bbox_tight. Qed.

(** the truncated Gauss-Kummer series and the remainder bound the code computes. The series itself and
    its value at h = 1 are hypotheses that stay in the statement. *)
Theorem C11_kummer_remainder : forall x y P : R, 0 < x -> 0 < y ->
  let h := (x - y) / (x + y) * ((x - y) / (x + y)) in
  infinite_sum (fun n => kummer_coeff n * h ^ n) (P / (PI * (x + y))) ->
  infinite_sum kummer_coeff (4 / PI) ->
  let K := kummer_elliptic_perimeter (mkVec2 x y) in
  let Rg := kummer_elliptic_perimeter_range (mkVec2 x y) in
  0 <= P - K /\ P - K <= PI * (x + y) * h ^ 7 * (4 / PI - S6) /\
  PI * (x + y) * h ^ 7 * (4 / PI - S6) <= Rg /\ P - K <= Rg.
Proof. exact kummer_remainder. Qed.

Theorem C11_kummer_coefficients :
  kummer_coeff 0 = 1 /\ kummer_coeff 1 = 1 / 4 /\ kummer_coeff 2 = 1 / 64 /\ kummer_coeff 3 = 1 / 256 /\
  kummer_coeff 4 = 25 / 16384 /\ kummer_coeff 5 = 49 / 65536 /\ kummer_coeff 6 = 441 / 1048576.
Proof. exact kummer_coeffs_0_6. Qed.

(** the AGM branch ([agm_elliptic_perimeter], fuel = loop bound). Given the classical AGM formula for the
    complete elliptic integral -- M between all the means, P = 2 pi x / M (1 - sum 2^(n-1) c_n^2) -- as
    hypotheses in the statement, the required algorithm (mean iterated to convergence, eps = 2^-52)
    returns the perimeter within the requested accuracy up to 2 eps relative ... *)
Theorem C11_agm_accuracy_partial : forall x y : R, 0 < y -> y <= x -> forall P M : R,
  (forall n, g_ x y n <= M <= a_ x y n) ->
  infinite_sum (T_ x y) (1 - P * M / (2 * PI * x)) ->
  forall (fuel : nat) (acc res : R), 0 < acc ->
  agm_elliptic_perimeter fuel acc (mkVec2 x y) = Some res ->
  Rabs (P - res) <= acc + 2 * eps52 * Rabs res.
Proof. exact agm_accuracy. Qed.

(** ... whereas for the pinned code (division by the current mean a_m) the same analysis leaves the term
    (a_m - g_m)/g_m |res|, which the loop's exit test does not control: this is the defect the law
    [ellipse_perimeter_accuracy] observes (error up to 1.09 x accuracy) *)
Theorem C11_agm_accuracy_pinned_partial : forall x y : R, 0 < y -> y <= x -> forall P M : R,
  (forall n, g_ x y n <= M <= a_ x y n) ->
  infinite_sum (T_ x y) (1 - P * M / (2 * PI * x)) ->
  forall (fuel : nat) (acc res : R), 0 < acc ->
  agm_elliptic_perimeter_pinned fuel acc (mkVec2 x y) = Some res ->
  exists m, Rabs (P - res) <= acc + (a_ x y m - g_ x y m) / g_ x y m * Rabs res.
Proof. exact agm_accuracy_pinned. Qed.

(** * RoundedRect *)

(** [from_rect] (the only constructor) normalises the rectangle and clamps |radius| to half the shorter side *)
Theorem C11_rounded_rect_clamping : forall (rect : Rect R) (radii : RoundedRectRadii R),
  let rr := rr_from_rect rect radii in
  let m := Rmin (Rabs (rx1 rect - rx0 rect)) (Rabs (ry1 rect - ry0 rect)) / 2 in
  rr_wf rr /\ rr_rect rr = rect_abs rect /\
  r_top_left (rr_radii rr) = Rmin (Rabs (r_top_left radii)) m /\
  r_top_right (rr_radii rr) = Rmin (Rabs (r_top_right radii)) m /\
  r_bottom_right (rr_radii rr) = Rmin (Rabs (r_bottom_right radii)) m /\
  r_bottom_left (rr_radii rr) = Rmin (Rabs (r_bottom_left radii)) m.
Proof. exact rr_from_rect_wf. Qed.

(** winding (quadrant selection by the centre, corner-circle test) = membership in
    (rectangle minus corner squares) + corner discs, for every point *)
Theorem C11_rounded_rect_winding : forall (rr : RoundedRect R) (p : Point R), rr_wf rr ->
  (in_rounded_rect rr p -> rr_winding rr p = 1%Z) /\ (~ in_rounded_rect rr p -> rr_winding rr p = 0%Z).
Proof. exact rr_winding_spec. Qed.

Theorem C11_rounded_rect_area_perimeter_bbox : forall rr : RoundedRect R, rr_wf rr ->
  let r := rr_rect rr in let q := rr_radii rr in
  let tl := r_top_left q in let tr := r_top_right q in let br := r_bottom_right q in let bl := r_bottom_left q in
  let w := rx1 r - rx0 r in let h := ry1 r - ry0 r in
  rr_area rr = w * h - (sq tl + sq tr + sq br + sq bl) + (PI * sq tl + PI * sq tr + PI * sq br + PI * sq bl) / 4 /\
  rr_perimeter rr = ((w - tl - tr) + (h - tr - br) + (w - br - bl) + (h - bl - tl))
                    + (2 * PI * tl + 2 * PI * tr + 2 * PI * br + 2 * PI * bl) / 4 /\
  rr_bounding_box rr = r /\
  (forall p, in_rounded_rect rr p -> in_closed r p) /\
  in_rounded_rect rr (mkPoint (rx0 r + tl) (ry0 r)) /\ in_rounded_rect rr (mkPoint (rx1 r) (ry0 r + tr)) /\
  in_rounded_rect rr (mkPoint (rx1 r - br) (ry1 r)) /\ in_rounded_rect rr (mkPoint (rx0 r) (ry1 r - bl)).
Proof. exact rr_queries. Qed.

(** * CircleSegment, 0 <= inner <= outer *)

(** required behaviour: sweep in (0, 2 pi], ANY start angle: winding 1 exactly on the annular sector *)
Theorem C11_circle_segment_winding : forall (s : CircleSegment R) (p : Point R),
  0 <= cs_inner_radius s <= cs_outer_radius s -> 0 < cs_sweep_angle s <= 2 * PI ->
  (in_sector s p -> cseg_winding s p = 1%Z) /\ (~ in_sector s p -> cseg_winding s p = 0%Z).
Proof. exact cseg_winding_spec. Qed.

(** (beyond the property's quantifier) a negative sweep runs the outline backwards: winding -1 *)
Theorem C11_circle_segment_winding_negative_sweep : forall (s : CircleSegment R) (p : Point R),
  0 <= cs_inner_radius s <= cs_outer_radius s -> - (2 * PI) <= cs_sweep_angle s < 0 ->
  (in_sector_neg s p -> cseg_winding s p = (-1)%Z) /\ (~ in_sector_neg s p -> cseg_winding s p = 0%Z).
Proof. exact cseg_winding_spec_neg. Qed.

(** the pinned code compares the raw atan2 angle (in (-pi, pi]) with [start, start + sweep]:
    refuted, with a point strictly inside a sector whose angular range leaves (-pi, pi] *)
Theorem C11_circle_segment_winding_pinned_refuted :
  exists (s : CircleSegment R) (p : Point R),
    0 <= cs_inner_radius s <= cs_outer_radius s /\ 0 < cs_sweep_angle s <= 2 * PI /\
    in_sector s p /\ cseg_winding s p = 1%Z /\ cseg_winding_pinned s p = 0%Z.
Proof. exact cseg_winding_pinned_refuted. Qed.

Theorem C11_circle_segment_area_perimeter : forall s : CircleSegment R,
  cs_inner_radius s <= cs_outer_radius s -> 0 <= cs_inner_radius s ->
  let ro := cs_outer_radius s in let ri := cs_inner_radius s in let sw := cs_sweep_angle s in
  cseg_area s = (sq ro * sw) / 2 - (sq ri * sw) / 2 /\
  cseg_perimeter s = (ro - ri) + ro * sw + (ro - ri) + ri * sw.
Proof. exact cseg_queries. Qed.

(** * Line (not a closed shape: only the bounding box, length, zero area / winding) *)
Theorem C11_line_shape : forall l : Line R,
  let b := line_shape_bounding_box l in
  nonneg b /\ in_closed b (l0 l) /\ in_closed b (l1 l) /\
  (forall b', in_closed b' (l0 l) -> in_closed b' (l1 l) -> subset b b') /\
  line_shape_perimeter l = sqrt (sq (px (l1 l) - px (l0 l)) + sq (py (l1 l) - py (l0 l))) /\
  line_shape_area l = 0 /\ (forall p, line_shape_winding l p = 0%Z).
Proof. exact line_queries. Qed.

(** * Non-vacuity *)

Example C11_tiling_hypotheses_satisfiable :
  sorted_idx [0; 1; 1; 3] /\ (2 <= length [0; 1; 1; 3])%nat /\
  rect_winding (tile [0; 1; 1; 3] [0; 2] 2 0) (mkPoint 1 0) = 1%Z /\
  rect_winding (tile [0; 1; 1; 3] [0; 2] 0 0) (mkPoint 1 0) = 0%Z.
Proof. exact tiling_example. Qed.

Example C11_triangle_off_boundary_satisfiable :
  let t := mkTriangle (mkPoint 0 0) (mkPoint 4 0) (mkPoint 0 4) in
  ~ on_polygon (tri_outline t) (mkPoint 1 1) /\ tri_winding t (mkPoint 1 1) = 1%Z /\
  ~ on_polygon (tri_outline t) (mkPoint 5 5) /\ tri_winding t (mkPoint 5 5) = 0%Z /\
  tri_winding (mkTriangle (mkPoint 0 0) (mkPoint 0 4) (mkPoint 4 0)) (mkPoint 1 1) = (-1)%Z.
Proof. exact triangle_example. Qed.

Example C11_rounded_rect_wf_satisfiable :
  let rr := rr_from_rect (mkRect 10 4 0 0) (mkRadii 1 (-2) 5 0) in
  rr_wf rr /\ rr_radii rr = mkRadii 1 2 2 0 /\
  rr_winding rr (mkPoint 5 2) = 1%Z /\ rr_winding rr (mkPoint (99 / 10) (39 / 10)) = 0%Z.
Proof. exact rounded_rect_example. Qed.

Example C11_ellipse_guard_satisfiable :
  aff_determinant (mkAffine 2 0 0 (-1) 5 5) <> 0 /\
  ellipse_winding (mkEllipse (mkAffine 2 0 0 (-1) 5 5)) (mkPoint 6 5) = 1%Z /\
  ellipse_winding (mkEllipse (mkAffine 2 0 0 (-1) 5 5)) (mkPoint 5 7) = 0%Z.
Proof. exact ellipse_example. Qed.

Example C11_agm_hypotheses_satisfiable :
  0 < 1 /\ 1 <= 1 /\ (forall n, g_ 1 1 n <= 1 <= a_ 1 1 n) /\
  infinite_sum (T_ 1 1) (1 - (2 * PI) * 1 / (2 * PI * 1)).
Proof. exact agm_hypotheses_circle. Qed.
