(** C11 — closed-form shape queries agree with the shape's own outline. (placeholder while the
    correspondence is brought up; statements follow) *)
From Coq Require Import ZArith Reals Bool.
From KV Require Import Scalar RInst Geom Rect ShapeTypes ShapeQueries RayCast.
