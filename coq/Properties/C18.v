(** C18 — Curve fitting, offsetting and simplification stay near the source.

    PARTIAL. The accuracy claims of the property rest on the fitter's approximate Fréchet
    estimate from 20 ray casts; no theorem is offered for them. They stay visible below as
    [C18_full] with the named unproved hypothesis [accepted_within_accuracy]; they are
    tested on the implementation by the laws of harness/src/c18.rs.
    What is proved:
      - the STRUCTURE of fit_to_bezpath's recursion over an abstract source (any scalar
        instance, so for the binary64 model as well as for the reals),
      - the structure of simplify_bezpath's outer state machine over an abstract fitter,
      - the exact algebra of the CubicOffset sample and of simplify::moment_integrals (reals),
      - the reduction of the accuracy claim to the per-leaf acceptance claim.
    Statements only; proofs in proofs/C18_proofs.v, vocabulary in spec/FitSpec.v and
    (leaf_wf, sub_out, fitter_chain, ...) next to the lemmas in proofs/C18_proofs.v. *)
From Coq Require Import ZArith QArith Reals List Bool Floats Lra.
From Coquelicot Require Import Coquelicot.
From KV Require Import Scalar RInst F64 Geom Curves Path Affine Fit FitSpec C18_proofs.
Import ListNotations.

(* ---------------------------------------------------------------------------------- *)
(** * fit_to_bezpath: structure of the recursion (every scalar instance) *)

(** The operation-by-operation model of fit_to_bezpath_rec emits exactly the leaves of the
    recursion tree, in order. *)
Theorem C18_fit_rec_tree :
  forall (T : Type) (H : Scalar T) (spt : T -> T -> Sample T) (spd : T -> Point T)
         (bc : T -> T -> option T) (fc : T -> T -> option (CubicBez T * T)) (acc : T)
         (fuel : nat) (s e : T) (path : list (PathEl T)),
  fit_rec spt spd bc fc acc fuel s e path =
  match fit_tree spt spd bc fc acc fuel s e with
  | Some tr => Some (emit_leaves path (tree_leaves tr))
  | None => None
  end.
Proof. exact @fit_rec_tree. Qed.

(** fit_rec_chain, structural form: WHATEVER the source and the oracles answer, within fuel the
    output is one MoveTo followed by exactly one CurveTo per leaf; the leaf ranges are consecutive
    from 0 to 1; a leaf is a line accepted on a short chord, the oracle's cubic for exactly that
    range, or the straight cubic of a collapsed range. *)
Theorem C18_fit_rec_chain_structure :
  forall (T : Type) (H : Scalar T) (spt : T -> T -> Sample T) (spd : T -> Point T)
         (bc : T -> T -> option T) (fc : T -> T -> option (CubicBez T * T)) (acc : T)
         (fuel : nat) (out : list (PathEl T)),
  fit_to_bezpath spt spd bc fc acc fuel = Some out ->
  exists (l : Z * (T * T) * CubicBez T) (ls : list (Z * (T * T) * CubicBez T)),
    chain f0 (map leaf_range (l :: ls)) f1 /\
    List.Forall (leaf_wf spt spd bc fc acc) (l :: ls) /\
    out = MoveTo (c0 (leaf_cubic l)) :: map leaf_curve (l :: ls).
Proof. exact @fit_rec_chain_leaves. Qed.

(** fit_rec_chain: if the cubic oracle keeps the end points of the range it is asked to fit
    (see [C18_fit_to_cubic_affine_endpoints]), the fitted path starts with MoveTo at the source's
    start sample, each leaf emits one CurveTo ending at the end sample of its range, the ranges
    are consecutive, and the path ends at the source's end sample. *)
Theorem C18_fit_rec_chain :
  forall (T : Type) (H : Scalar T) (spt : T -> T -> Sample T) (spd : T -> Point T)
         (bc : T -> T -> option T) (fc : T -> T -> option (CubicBez T * T)) (acc : T)
         (fuel : nat) (out : list (PathEl T)),
  oracle_keeps_endpoints spt fc ->
  fit_to_bezpath spt spd bc fc acc fuel = Some out ->
  exists (ranges : list (T * T)) (curves : list (PathEl T)),
    ranges <> [] /\
    chain f0 ranges f1 /\
    out = MoveTo (sp spt f0) :: curves /\
    Forall2 (fun r el => exists p1 p2, el = CurveTo p1 p2 (ep spt (snd r))) ranges curves /\
    last_end out = Some (ep spt f1).
Proof. exact @fit_rec_chain. Qed.

(** ... and when the source is continuous (both one-sided samples agree) the segments of the
    fitted path are exactly the leaf cubics: the path is continuous and consecutive leaves share
    their end point. *)
Theorem C18_fit_segments :
  forall (T : Type) (H : Scalar T) (spt : T -> T -> Sample T) (spd : T -> Point T)
         (bc : T -> T -> option T) (fc : T -> T -> option (CubicBez T * T)) (acc : T)
         (fuel : nat) (out : list (PathEl T)),
  oracle_keeps_endpoints spt fc ->
  (forall t, sp spt t = ep spt t) ->
  fit_to_bezpath spt spd bc fc acc fuel = Some out ->
  exists leaves,
    leaves <> [] /\ chain f0 (map leaf_range leaves) f1 /\
    List.Forall (leaf_wf spt spd bc fc acc) leaves /\
    segments out = Some (map (fun l => SegCubic (leaf_cubic l)) leaves).
Proof. exact @fit_segments. Qed.

(** fit_line_fallback: when the split parameter (a reported cusp, or the midpoint) equals an end
    of the range, a straight cubic between the end samples is emitted and the recursion stops
    (one unit of fuel is enough whatever the remaining fuel). *)
Theorem C18_fit_line_fallback :
  forall (T : Type) (H : Scalar T) (spt : T -> T -> Sample T) (spd : T -> Point T)
         (bc : T -> T -> option T) (fc : T -> T -> option (CubicBez T * T)) (acc : T)
         (k : nat) (s e : T) (path : list (PathEl T)) (t : T),
  line_attempt spt spd acc s e = None ->
  (bc s e = Some t \/ (bc s e = None /\ fc s e = None /\ t = fmul fhalf (fadd s e))) ->
  (feqb t s || feqb t e)%bool = true ->
  fit_rec spt spd bc fc acc (S k) s e path =
    Some (push_cubic_c path (line_cubic (sp spt s) (ep spt e))) /\
  fit_tree spt spd bc fc acc (S k) s e = Some (FLeaf 3 s e (line_cubic (sp spt s) (ep spt e))).
Proof. exact @fit_line_fallback. Qed.

(** a line leaf: the straight cubic between the end samples, and none of the 7 interior samples
    try_fit_line looks at is farther from the chord than the accuracy (squared distances compared) *)
Theorem C18_try_fit_line_samples :
  forall (T : Type) (H : Scalar T) (spd : T -> Point T) (acc s e : T) (a b : Point T) (c : CubicBez T) (err : T),
  try_fit_line spd acc s e a b = Some (c, err) ->
  c = line_cubic a b /\
  forall j, (j < 7)%nat ->
    fltb (fmul acc acc)
         (line_nearest_dsq (mkLine a b) (spd (fadd s (fmul (fofZ (Z.of_nat j + 1)) (fdiv (fsub e s) (fofZ 8)))))) = false.
Proof. exact @try_fit_line_samples. Qed.

(** in exact arithmetic the midpoint collapses only for an empty range (on binary64 it does so
    once the range is two adjacent doubles: see the Example below) *)
Theorem C18_fit_midpoint_collapse_real : forall s e : R,
  (@feqb R RS (@fmul R RS fhalf (@fadd R RS s e)) s || @feqb R RS (@fmul R RS fhalf (@fadd R RS s e)) e)%bool = true
  <-> s = e.
Proof. exact fit_midpoint_collapse_real. Qed.

(** fit_rec_ranges_tile (reals): if break_cusp answers inside the range it is given, the leaf
    ranges tile [0,1] in order: consecutive, each of positive length, pairwise ordered, and every
    parameter of [0,1) lies in exactly one of them. The path has one element more than leaves. *)
Theorem C18_fit_rec_ranges_tile :
  forall (spt : R -> R -> Sample R) (spd : R -> Point R) (bc : R -> R -> option R)
         (fc : R -> R -> option (CubicBez R * R)) (acc : R) (fuel : nat) (out : list (PathEl R)),
  cusp_in_range bc ->
  fit_to_bezpath spt spd bc fc acc fuel = Some out ->
  exists ranges : list (R * R),
    length out = S (length ranges) /\
    chain 0%R ranges 1%R /\
    List.Forall (fun r => (fst r < snd r)%R) ranges /\
    ForallOrdPairs (fun r1 r2 => (snd r1 <= fst r2)%R) ranges /\
    (forall t : R, (0 <= t < 1)%R -> exists r, In r ranges /\ (fst r <= t < snd r)%R).
Proof. exact fit_rec_ranges_tile. Qed.

(** why [oracle_keeps_endpoints] is the right hypothesis for the real fit_to_cubic: every
    candidate is [aff * cand] with cand.p0 = (0,0), cand.p3 = (1,0) and
    aff = translate(start) * rotate(th) * scale(chord); in exact arithmetic that maps the unit
    chord onto (start, end) as soon as (chord cos th, chord sin th) is the chord vector. *)
Theorem C18_fit_to_cubic_affine_endpoints :
  forall (start : Point R) (dx dy th chord : R),
  (chord * cos th)%R = dx -> (chord * sin th)%R = dy ->
  let aff := aff_mul (aff_mul (aff_translate (to_vec2 start)) (aff_rotate th)) (aff_scale chord) in
  aff_apply aff (mkPoint 0%R 0%R) = start /\
  aff_apply aff (mkPoint 1%R 0%R) = mkPoint (px start + dx)%R (py start + dy)%R.
Proof. exact fit_to_cubic_affine_endpoints. Qed.

(** CurveDist::from_curve (reals): the 20 samples a candidate cubic is compared with sit at
    start + k (end - start)/21, k = 1..20; every parameter of the range is within one step
    (end - start)/21 of a retained sample, and the retained samples are interior. So a feature of the
    source that is wider than two steps cannot lie entirely between the samples eval_ray looks at.
    (This says where the estimate looks, not that the estimate is right: [accepted_within_accuracy]
    stays unproved.) *)
Theorem C18_curvedist_samples_cover : forall s e t : R, (s <= t <= e)%R ->
  exists u, (In u (cd_kept_ts s e) /\ (Rabs (t - u) <= (e - s) / 21)%R /\ (s < u < e)%R) \/ s = e.
Proof. exact cd_samples_cover. Qed.

(* ---------------------------------------------------------------------------------- *)
(** * simplify_bezpath: outer state machine (every scalar instance, abstract fitter) *)

(** On any list of well-formed sub-paths (MoveTo, drawing elements, optional ClosePath) the
    result is the concatenation of the per-sub-path outputs [sub_out]: the non-degenerate
    segments are split into runs at the corners; a one-segment run passes through unchanged,
    longer runs go through the fitter; only the first run of a sub-path keeps its MoveTo.
    ClosePath rule (code after repair 045795e): a closed sub-path gets its ClosePath exactly when it
    has at least one non-degenerate segment; a sub-path whose elements all have zero length yields
    no output at all, neither MoveTo nor ClosePath ([sub_out], and the Examples below). *)
Theorem C18_simplify_spec :
  forall (T : Type) (H : Scalar T) (fitter : list (PathEl T) -> list (PathEl T)) (thresh : T)
         (sps : list (Subpath T)),
  List.Forall sub_ok sps ->
  simplify_bezpath fitter thresh (flat_map (@sub_els T) sps) = Some (flat_map (sub_out fitter thresh) sps).
Proof. exact @simplify_spec. Qed.

(** simplify_structure: given a fitter with the shape [C18_fit_rec_chain] gives it (MoveTo at
    the start, CurveTo elements, ending at the end point), for sub-paths that have at least one
    non-degenerate segment: one output sub-path per input sub-path, each starting with MoveTo at
    the same point, closed by ClosePath exactly when the input is, with only drawing elements in
    between, ending at the input's end point, and every corner vertex (tangent test above the
    threshold) is a vertex of the output. *)
Theorem C18_simplify_structure :
  forall (T : Type) (H : Scalar T) (fitter : list (PathEl T) -> list (PathEl T)) (thresh : T)
         (sps : list (Subpath T)),
  fitter_chain fitter ->
  List.Forall sub_ok sps ->
  List.Forall (fun s => sub_segs s <> []) sps ->
  exists outs : list (list (PathEl T)),
    simplify_bezpath fitter thresh (flat_map (@sub_els T) sps) = Some (concat outs) /\
    Forall2 (fun s out => exists els,
               out = MoveTo (sp_start s) :: els ++ closing (sp_closed s) /\
               els <> [] /\ forallb (@is_draw T) els = true /\
               last_end els = segs_end (sub_segs s) /\
               incl (corner_vertices (is_corner thresh) (sub_segs s)) (vertices els)) sps outs.
Proof. exact @simplify_structure. Qed.

(** the source simplify hands to the fitter: SimplifyBezPath's samples at 0 and 1 are the stored end
    points of the queue's first and last segment (reals) — the end points [C18_fit_rec_chain] speaks
    about are the path's own end points, which is what [fitter_chain] asks of the fitter *)
Theorem C18_sbp_endpoints :
  forall (segs : list (PathSeg R)) (s0 s1 : PathSeg R),
  nth_error segs 0 = Some s0 -> nth_error segs (length segs - 1) = Some s1 ->
  (exists tan, sbp_sample_pt_tangent (sbp_new segs) 0%R = Some (mkSample (seg_start s0) tan)) /\
  (exists tan, sbp_sample_pt_tangent (sbp_new segs) 1%R = Some (mkSample (seg_end s1) tan)).
Proof. exact sbp_endpoints. Qed.

(* ---------------------------------------------------------------------------------- *)
(** * CubicOffset (real instance; guards: the source derivative does not vanish at t) *)

Local Open Scope R_scope.

(** offset_sample_distance: |CubicOffset.eval t - c.eval t| = |d| and the offset vector is
    perpendicular to the derivative. (The code divides by hypot(c'(t)); for c'(t) = 0 the real
    model computes x/0 = 0 and the binary64 code NaN: excluded by the guard.) *)
Theorem C18_offset_sample_distance : forall (c : CubicBez R) (d t : R),
  let q := quad_eval (cubic_deriv c) t in
  px q * px q + py q * py q <> 0 ->
  let o := co_new c d in
  pdist2 (co_eval o t) (cubic_eval c t) = d * d /\
  (px (co_eval o t) - px (cubic_eval c t)) * px q + (py (co_eval o t) - py (cubic_eval c t)) * py q = 0 /\
  R_sqrt.sqrt (pdist2 (co_eval o t) (cubic_eval c t)) = Rabs d.
Proof. exact offset_sample_distance. Qed.

(** cusp_sign = 1 - d * curvature: positive exactly while the offset distance stays below the
    radius of curvature on that side — the property's domain |d| * max curvature <= 0.8 keeps it
    >= 0.2 *)
Theorem C18_offset_cusp_sign_curvature : forall (c : CubicBez R) (d t : R),
  let q := quad_eval (cubic_deriv c) t in
  let a := line_eval (quad_deriv (cubic_deriv c)) t in
  let ds2 := px q * px q + py q * py q in
  co_cusp_sign (co_new c d) t = 1 - d * ((px q * py a - py q * px a) / (ds2 * R_sqrt.sqrt ds2)).
Proof. exact offset_cusp_sign_curvature. Qed.

(** eval_deriv is the derivative of eval *)
Theorem C18_offset_eval_deriv : forall (c : CubicBez R) (d t : R),
  let q := quad_eval (cubic_deriv c) t in
  px q * px q + py q * py q <> 0 ->
  let o := co_new c d in
  is_derive (fun u => px (co_eval o u)) t (vx (co_eval_deriv o t)) /\
  is_derive (fun u => py (co_eval o u)) t (vy (co_eval_deriv o t)).
Proof. exact offset_eval_deriv_is_derivative. Qed.

(* ---------------------------------------------------------------------------------- *)
(** * moment_integrals (real instance) *)

(** moment_integrals_green: the three components are the integrals of y dx, x y dx and y^2 dx
    along the cubic (Riemann integrals over the parameter) *)
Theorem C18_moment_integrals_green : forall c : CubicBez R,
  let x := fun t => px (cubic_eval c t) in
  let y := fun t => py (cubic_eval c t) in
  let dx := fun t => px (quad_eval (cubic_deriv c) t) in
  is_RInt (fun t => y t * dx t) 0 1 (fst (fst (moment_integrals c))) /\
  is_RInt (fun t => x t * y t * dx t) 0 1 (snd (fst (moment_integrals c))) /\
  is_RInt (fun t => y t * y t * dx t) 0 1 (snd (moment_integrals c)).
Proof. exact moment_integrals_green. Qed.

(** ... and the area component against Curves.v's Green's-theorem area 1/2 int (x dy - y dx) *)
Theorem C18_moment_area_vs_signed_area : forall c : CubicBez R,
  fst (fst (moment_integrals c)) =
  (px (c3 c) * py (c3 c) - px (c0 c) * py (c0 c)) / 2 - cubic_signed_area c.
Proof. exact moment_area_vs_signed_area. Qed.

(* ---------------------------------------------------------------------------------- *)
(** * The accuracy claim *)

(** The full claim for fit_to_bezpath (reals): for every source that honours the trait's
    contract, the fitted path consists of the leaf cubics and is within 2*accuracy of the source
    in Hausdorff distance. NOT PROVED: it needs [accepted_within_accuracy] (and
    [line_within_accuracy]) of the real fit_to_cubic / try_fit_line, i.e. that the 20-ray
    estimate is trustworthy. *)
Definition C18_full : Prop :=
  forall (spt : R -> R -> Sample R) (spd : R -> Point R) (bc : R -> R -> option R)
         (fc : R -> R -> option (CubicBez R * R)) (acc : R),
  cusp_interior bc -> src_continuous spt -> oracle_keeps_endpoints spt fc ->
  fit_within_accuracy spt spd bc fc acc.

(** what IS proved: the structure theorems reduce the global claim to the per-leaf claims *)
Theorem C18_fit_accuracy_partial :
  forall (spt : R -> R -> Sample R) (spd : R -> Point R) (bc : R -> R -> option R)
         (fc : R -> R -> option (CubicBez R * R)) (acc : R),
  cusp_interior bc -> src_continuous spt -> oracle_keeps_endpoints spt fc ->
  accepted_within_accuracy spt fc acc ->      (* unproved hypothesis, tested by the laws *)
  line_within_accuracy spt spd acc ->         (* unproved hypothesis, tested by the laws *)
  fit_within_accuracy spt spd bc fc acc.
Proof. exact fit_within_accuracy_partial. Qed.

(* ---------------------------------------------------------------------------------- *)
(** * Non-vacuity *)

(** a binary64 toy source: the segment (t, 0); the oracle fits ranges no longer than 1/2 *)
Definition ex_spt (t _ : float) : Sample float := mkSample (mkPoint t 0%float) (mkVec2 1%float 0%float).
Definition ex_spd (t : float) : Point float := mkPoint t 0%float.
Definition ex_bc (_ _ : float) : option float := None.
Definition ex_fc (s e : float) : option (CubicBez float * float) :=
  if PrimFloat.leb (e - s)%float 0.5%float
  then Some (mkCubic (mkPoint s 0%float) (mkPoint s 0%float) (mkPoint e 0%float) (mkPoint e 0%float), 0%float)
  else None.

Example C18_fit_example :
  fit_to_bezpath ex_spt ex_spd ex_bc ex_fc 0x1p-10%float 10 =
  Some [MoveTo (mkPoint 0 0); CurveTo (mkPoint 0 0) (mkPoint 0.5 0) (mkPoint 0.5 0);
        CurveTo (mkPoint 0.5 0) (mkPoint 1 0) (mkPoint 1 0)]%float.
Proof. vm_compute. reflexivity. Qed.

Example C18_fit_example_oracle : oracle_keeps_endpoints ex_spt ex_fc.
Proof.
  intros s e c err. unfold ex_fc. destruct (PrimFloat.leb _ _); [|discriminate].
  intros E; inversion E; subst. split; reflexivity.
Qed.

(** the fallback on binary64: between two adjacent doubles the midpoint rounds onto an end *)
Example C18_fit_fallback_example :
  let s := 1%float in let e := 0x1.0000000000001p+0%float in
  let jump (t sign : float) : Sample float :=
    mkSample (if PrimFloat.ltb s t then mkPoint 10 10 else if PrimFloat.ltb 0 sign then mkPoint 0 0 else mkPoint 10 10)%float
             (mkVec2 1%float 0%float) in
  line_attempt jump ex_spd 0x1p-10%float s e = None /\
  (feqb (fmul fhalf (fadd s e)) s || feqb (fmul fhalf (fadd s e)) e)%bool = true /\
  fit_rec jump ex_spd ex_bc (fun _ _ => None) 0x1p-10%float 1 s e [] =
    Some [MoveTo (mkPoint 0 0); CurveTo (pt_lerp (mkPoint 0 0) (mkPoint 10 10) one_third)
                                        (pt_lerp (mkPoint 10 10) (mkPoint 0 0) one_third) (mkPoint 10 10)]%float.
Proof. vm_compute. repeat split; reflexivity. Qed.

Example C18_cusp_in_range_example : cusp_in_range (fun _ _ : R => @None R).
Proof. intros s e t E; discriminate. Qed.

(** simplify on binary64 with a fitter that joins the end points of the queue by one CurveTo:
    two collinear lines are a run of two segments (fitted), the right-angle turn is a corner *)
Definition ex_fitter (q : list (PathEl float)) : list (PathEl float) :=
  match q, last_end q with
  | MoveTo p :: _, Some e => [MoveTo p; CurveTo p e e]
  | _, _ => q
  end.

Example C18_simplify_example :
  simplify_bezpath ex_fitter 0x1.0624dd2f1a9fcp-10%float
    [MoveTo (mkPoint 0 0); LineTo (mkPoint 1 0); LineTo (mkPoint 1 0); LineTo (mkPoint 2 0); LineTo (mkPoint 2 3); ClosePath;
     MoveTo (mkPoint 5 5); LineTo (mkPoint 6 6)]%float =
  Some [MoveTo (mkPoint 0 0); CurveTo (mkPoint 0 0) (mkPoint 2 0) (mkPoint 2 0); LineTo (mkPoint 2 3); ClosePath;
        MoveTo (mkPoint 5 5); LineTo (mkPoint 6 6)]%float.
Proof. vm_compute. reflexivity. Qed.

Example C18_fitter_chain_example : fitter_chain ex_fitter.
Proof.
  intros p0 body Hne Hd. unfold ex_fitter.
  assert (E : exists e, last_end (MoveTo p0 :: body) = Some e /\ last_end body = Some e).
  { unfold last_end. cbn [rev]. destruct (rev body) as [|x r] eqn:Er.
    - apply (f_equal (@rev _)) in Er. rewrite rev_involutive in Er. cbn in Er. congruence.
    - cbn [app]. assert (Hx : is_draw x = true).
      { rewrite forallb_forall in Hd. apply Hd. apply in_rev. rewrite Er. left; reflexivity. }
      destruct x; try discriminate; eexists; split; reflexivity. }
  destruct E as (e & E1 & E2). rewrite E1. exists [CurveTo p0 e e].
  split; [discriminate|]. split; [reflexivity|]. split; [reflexivity|]. rewrite E2. reflexivity.
Qed.

(** a closed sub-path with only zero-length elements produces nothing (no MoveTo, no ClosePath) —
    alone, and in the middle of a path, where the neighbouring sub-paths are unaffected *)
Example C18_simplify_degenerate_subpath :
  simplify_bezpath ex_fitter 0x1.0624dd2f1a9fcp-10%float [MoveTo (mkPoint 1 1); LineTo (mkPoint 1 1); ClosePath]%float
  = Some [].
Proof. vm_compute. reflexivity. Qed.

Example C18_simplify_degenerate_subpath_middle :
  simplify_bezpath ex_fitter 0x1.0624dd2f1a9fcp-10%float
    [MoveTo (mkPoint 0 0); LineTo (mkPoint 1 0); LineTo (mkPoint 1 1); ClosePath;
     MoveTo (mkPoint 3 3); QuadTo (mkPoint 3 3) (mkPoint 3 3); CurveTo (mkPoint 3 3) (mkPoint 3 3) (mkPoint 3 3); ClosePath;
     MoveTo (mkPoint 5 5); LineTo (mkPoint 6 6); ClosePath]%float =
  Some [MoveTo (mkPoint 0 0); LineTo (mkPoint 1 0); LineTo (mkPoint 1 1); ClosePath;
        MoveTo (mkPoint 5 5); LineTo (mkPoint 6 6); ClosePath]%float.
Proof. vm_compute. reflexivity. Qed.

(** the guard of the offset theorems holds e.g. on the straight cubic (0,0)..(3,0) *)
Example C18_offset_guard_example :
  let c := mkCubic (mkPoint 0 0) (mkPoint 1 0) (mkPoint 2 0) (mkPoint 3 0) in
  forall t : R, let q := quad_eval (cubic_deriv c) t in px q * px q + py q * py q <> 0.
Proof.
  intros c t q. subst q c.
  cbv [cubic_deriv quad_eval pt_sub s_scale_v v_scale v_add to_vec2 to_point px py vx vy c0 c1 c2 c3 q0 q1 q2].
  rs_unfold. nra.
Qed.

(** the hypotheses of [C18_fit_accuracy_partial] are jointly satisfiable (trivially: an oracle that
    never accepts) *)
Example C18_accuracy_hyps_example :
  accepted_within_accuracy (fun t _ => mkSample (mkPoint t 0) (mkVec2 1 0)) (fun _ _ => None) 1 /\
  cusp_interior (fun _ _ : R => @None R) /\
  src_continuous (fun t _ => mkSample (mkPoint t 0) (mkVec2 1 0)).
Proof.
  split; [intros s e c err _ E; discriminate|]. split; [intros s e t E; discriminate|]. intros t; reflexivity.
Qed.
