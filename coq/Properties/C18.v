(** C18 (under construction) *)
From Coq Require Import ZArith Reals List Bool.
From KV Require Import Scalar RInst Geom Curves Path Fit C18_proofs.
