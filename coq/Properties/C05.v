(** C05 — Flattening yields a faithful polyline of the path.
    Model: model/Flatten.v ([flatten] = the behaviour the property requires, i.e. the code with
    proposed_fixes/C05-flatten-after-close.diff; [flatten_pinned] = the pinned code).
    Statements only; proofs in proofs/C05_proofs.v.
    The structural theorems hold for EVERY scalar type, hence for binary64 itself;
    the numeric ones are about the real instance (exact arithmetic, total division x/0 = 0). *)
From Coq Require Import ZArith Reals Bool List Sorted.
From KV Require Import Scalar RInst Geom Curves Path Flatten FlattenSpec C05_proofs.
Import ListNotations.
Local Open Scope R_scope.

(** ** flatten_kinds: only MoveTo / LineTo / ClosePath are emitted (any scalar; pinned code and
    required behaviour alike; [None] is the model's "runaway" error value, see C05_flatten_total) *)
Theorem C05_flatten_kinds : forall (T : Type) (S : Scalar T) keep (tol : T) els out,
  flatten_gen keep tol els = Some out -> forallb is_flat_el out = true.
Proof. intros T S. exact (@flatten_gen_kinds T S). Qed.

(** over the reals the model never reports a runaway: flatten is total *)
Theorem C05_flatten_total : forall keep (tol : R) (els : list (PathEl R)),
  exists out, flatten_gen keep tol els = Some out /\ forallb is_flat_el out = true.
Proof. exact flatten_kinds_R. Qed.

(** ** flatten_runs: for every path beginning with MoveTo (every element history), the output is
    the concatenation, in input order, of one run per input element: MoveTo, ClosePath and LineTo
    unchanged; a QuadTo / CurveTo -> the interior vertices computed from its segment (current
    point, which after ClosePath is the sub-path start, and the stored control points) followed
    by EXACTLY the stored end point. Any scalar type. *)
Theorem C05_flatten_runs : forall (T : Type) (S : Scalar T) (tol : T) p0 els out,
  flatten tol (MoveTo p0 :: els) = Some out ->
  runs_of tol (fsqrt tol) (MoveTo p0 :: els) out.
Proof. intros T S. exact (@flatten_runs_gen T S). Qed.

(** the same without the numeric content: n >= 1 LineTo per curve, the last one the stored end point *)
Theorem C05_flatten_runs_shape : forall (T : Type) (S : Scalar T) (tol : T) p0 els out,
  flatten tol (MoveTo p0 :: els) = Some out ->
  exists runs, out = concat runs /\ Forall2 run_shape (MoveTo p0 :: els) runs.
Proof. intros T S. exact (@flatten_runs_shape T S). Qed.

(** ... and the segment each curve run is computed from is exactly the one [segments] yields for
    that element ("one run per input segment") — real instance, where [Point] equality is Leibniz *)
Theorem C05_flatten_runs_segments : forall (tol : R) p0 els out,
  flatten tol (MoveTo p0 :: els) = Some out ->
  exists sgs runs,
    seg_trace None (MoveTo p0 :: els) = Some sgs /\
    segments (MoveTo p0 :: els) = Some (somes sgs) /\
    out = concat runs /\
    Forall2 (fun es run => run_for_seg tol (sqrt tol) (fst es) (snd es) run)
            (combine (MoveTo p0 :: els) sgs) runs.
Proof. exact flatten_runs_segments. Qed.

(** ** flatten_runs_refuted: the PINNED code violates "one run per input segment".
    Witness (DESIGN section 5, finding 11): M0,0 L10,0 Z Q5,5 10,10 L0,10 at tolerance 0.1.
    [segments] yields the quadratic (0,0),(5,5),(10,10) for the QuadTo; the pinned [flatten]
    (last_pt = None on ClosePath) emits nothing for it, so its output cannot be split into
    one non-empty run per element. *)
Theorem C05_flatten_runs_refuted :
  exists (tol : R) els out,
    (exists p r, els = MoveTo p :: r) /\
    (exists q, In (SegQuad q) (match segments els with Some l => l | None => [] end)) /\
    flatten_pinned tol els = Some out /\
    ~ exists runs, out = concat runs /\ Forall2 run_shape els runs.
Proof. exact flatten_runs_refuted. Qed.

(** the pinned code on the witness, for every scalar type (binary64 included) *)
Theorem C05_flatten_pinned_witness : forall (T : Type) (S : Scalar T) (tol : T) a b c d e,
  flatten_pinned tol [MoveTo a; LineTo b; @ClosePath T; QuadTo c d; LineTo e]
  = Some [MoveTo a; LineTo b; @ClosePath T; LineTo e].
Proof. intros T S. exact (@flatten_pinned_witness T S). Qed.

(** the pinned code and the required behaviour agree on every element list in which no QuadTo /
    CurveTo directly follows a ClosePath (any scalar): the defect is confined to that pattern *)
Theorem C05_flatten_pinned_agrees : forall (T : Type) (S : Scalar T) (tol : T) els,
  no_curve_after_close false els = true -> flatten_pinned tol els = flatten tol els.
Proof. intros T S. exact (@flatten_pinned_agrees T S). Qed.

(** ** flatten_vertices_on_quad: every interior vertex of a quadratic's run is [quad_eval q t]
    with 0 < t < 1, and the parameters strictly increase along the run — every quadratic
    (collinear control points give n = 1, no interior vertex), every sqrt_tol *)
Theorem C05_flatten_vertices_on_quad : forall (q : QuadBez R) (sqrt_tol : R),
  exists ts, flatten_quad_pts q sqrt_tol = map (quad_eval q) ts /\
             Forall (fun t => 0 < t < 1) ts /\ StronglySorted Rlt ts.
Proof. exact quad_vertices. Qed.

(** ** subdiv_t_monotone: both parabola-integral approximations are strictly increasing on R;
    hence for a quadratic with non-collinear control points [determine_subdiv_t] is strictly
    increasing, maps 0 to 0, 1 to 1, and [0,1] into [0,1] *)
Theorem C05_approx_parabola_integral_increasing : forall x y : R, x < y ->
  approx_parabola_integral x < approx_parabola_integral y.
Proof. exact api_model_incr. Qed.
Theorem C05_approx_parabola_inv_integral_increasing : forall x y : R, x < y ->
  approx_parabola_inv_integral x < approx_parabola_inv_integral y.
Proof. exact apinv_model_incr. Qed.

Theorem C05_subdiv_t_monotone : forall (q : QuadBez R) (sqrt_tol : R), quad_cross q <> 0 ->
  let p := estimate_subdiv q sqrt_tol in
  determine_subdiv_t p 0 = 0 /\ determine_subdiv_t p 1 = 1 /\
  (forall x y, x < y -> determine_subdiv_t p x < determine_subdiv_t p y) /\
  (forall x, 0 <= x <= 1 -> 0 <= determine_subdiv_t p x <= 1).
Proof. exact subdiv_t_monotone. Qed.

(** the same from the facts about the parameters alone (u0, uscale consistent, a0 <> a2) *)
Theorem C05_subdiv_t_monotone_params : forall p : FlattenParams R,
  fp_u0 p = approx_parabola_inv_integral (fp_a0 p) ->
  fp_uscale p = 1 / (approx_parabola_inv_integral (fp_a2 p) - approx_parabola_inv_integral (fp_a0 p)) ->
  fp_a0 p <> fp_a2 p ->
  determine_subdiv_t p 0 = 0 /\ determine_subdiv_t p 1 = 1 /\
  (forall x y, x < y -> determine_subdiv_t p x < determine_subdiv_t p y).
Proof. exact subdiv_t_monotone_params. Qed.

Example C05_subdiv_t_monotone_instance :
  quad_cross (mkQuad (mkPoint 0 0) (mkPoint 1 1) (mkPoint 2 0) : QuadBez R) <> 0.
Proof. exact ex_cross. Qed.

(** ** flatten_cubic_vertices: the second loop never runs away; every interior vertex of a cubic's
    run is a point of one of the [to_quads] quadratics (tolerance budget 0.1), the quadratics
    visited in order, at parameters in [0,1) that strictly increase within each quadratic *)
Theorem C05_flatten_cubic_vertices : forall (c : CubicBez R) (tol sqrt_tol : R), 0 <= sqrt_tol ->
  exists tss,
    flatten_cubic_pts c tol sqrt_tol
      = Some (quads_pts (map snd (fl_to_quads c (tol * to_quad_tol))) tss) /\
    length tss = length (fl_to_quads c (tol * to_quad_tol)) /\
    Forall (fun ts => Forall (fun t => 0 <= t < 1) ts /\ StronglySorted Rlt ts) tss.
Proof. exact cubic_vertices. Qed.

(** ... hence, given the pointwise bound of [to_quads] (property C17: every quadratic within the
    accuracy of its cubic piece at corresponding parameters — a hypothesis here), every vertex is
    within [0.1 * tolerance] of the cubic at a parameter in [0,1), and these parameters strictly
    increase along the run: vertices advance monotonically, never backwards *)
Theorem C05_flatten_cubic_vertices_near : forall (c : CubicBez R) (tol sqrt_tol : R), 0 <= sqrt_tol ->
  (forall i t, (0 <= i < fl_to_quads_n c (tol * to_quad_tol)%R)%Z -> 0 <= t <= 1 ->
     pt_distance (quad_eval (snd (fl_to_quad c (fl_to_quads_n c (tol * to_quad_tol)) i)) t)
                 (cubic_eval c (piece_param c (fl_to_quads_n c (tol * to_quad_tol)) i t))
     <= tol * to_quad_tol) ->
  exists pts us, flatten_cubic_pts c tol sqrt_tol = Some pts /\
    Forall2 (fun v u => pt_distance v (cubic_eval c u) <= tol * to_quad_tol) pts us /\
    Forall (fun u => 0 <= u < 1) us /\ StronglySorted Rlt us.
Proof. exact cubic_vertices_near. Qed.

(* non-vacuity: a degree-raised parabola satisfies the hypothesis (its single quadratic is exact) *)
Example C05_flatten_cubic_vertices_near_instance :
  let c : CubicBez R := mkCubic (mkPoint 0 0) (mkPoint 2 2) (mkPoint 4 2) (mkPoint 6 0) in
  forall i t, (0 <= i < fl_to_quads_n c (1 * to_quad_tol)%R)%Z -> 0 <= t <= 1 ->
     pt_distance (quad_eval (snd (fl_to_quad c (fl_to_quads_n c (1 * to_quad_tol)) i)) t)
                 (cubic_eval c (piece_param c (fl_to_quads_n c (1 * to_quad_tol)) i t))
     <= 1 * to_quad_tol.
Proof. exact ex_raised_within. Qed.

(** ** flatten_scale_partial: scaling path and tolerance by k > 0 scales the output by k.
    Proved for the whole of [flatten] (every element list, pinned and required behaviour), but
    only in exact arithmetic — hence "partial": on binary64 it is exact only when k is a power
    of four (sqrt(k) exact), which the law [scale] checks on the implementation. *)
Theorem C05_flatten_scale_partial : forall (k : R), 0 < k -> forall keep (tol : R) (els : list (PathEl R)),
  flatten_gen keep (k * tol) (map (scale_el k) els)
  = option_map (map (scale_el k)) (flatten_gen keep tol els).
Proof. exact flatten_gen_scale. Qed.

(** ** NOT proved: the distance bound. The property claims, for tolerance <= 1e-3 x extent and
    minimum speed >= 5% of maximum speed, Hausdorff distance (curve, polyline) <= 4 x tolerance;
    the source says the bound "is not absolutely guaranteed". It is kept here as a definition
    and covered by the law [hausdorff] (dense sampling on the implementation) only. *)
Definition C05_distance_bound_claim : Prop :=
  forall (q : QuadBez R) (tol : R), 0 < tol ->
    (* tolerance small against the segment: two control points at least 1000 tol apart *)
    (1000 * tol <= pt_distance (q0 q) (q2 q) \/ 1000 * tol <= pt_distance (q0 q) (q1 q)
     \/ 1000 * tol <= pt_distance (q1 q) (q2 q)) ->
    (* minimum speed at least 5% of the maximum speed *)
    (forall s t, 0 <= s <= 1 -> 0 <= t <= 1 ->
       v_hypot (to_vec2 (line_eval (quad_deriv q) t)) <= 20 * v_hypot (to_vec2 (line_eval (quad_deriv q) s))) ->
    forall t, 0 <= t <= 1 ->
    exists l1 v w l2 u,
      q0 q :: flatten_quad_pts q (sqrt tol) ++ [q2 q] = l1 ++ v :: w :: l2 /\ 0 <= u <= 1 /\
      pt_distance (quad_eval q t) (pt_lerp v w u) <= 4 * tol.

(** ** binary64 instances (vm_compute on the very model the correspondence ties to the crate) *)
From Coq Require Import Floats.
From KV Require Import F64.
Section F64Instances.
Local Open Scope float_scope.
Let P (x y : float) : Point float := mkPoint x y.

(* the pinned code drops the quadratic's run; the required behaviour emits it, ending exactly at
   the stored end point (10,10) (the witness quadratic is collinear: a single LineTo) *)
Example C05_refuted_f64 :
  let els := [MoveTo (P 0 0); LineTo (P 10 0); @ClosePath float; QuadTo (P 5 5) (P 10 10); LineTo (P 0 10)] in
  flatten_pinned (H := F64) 0x1.999999999999ap-4 els
    = Some [MoveTo (P 0 0); LineTo (P 10 0); @ClosePath float; LineTo (P 0 10)] /\
  flatten (H := F64) 0x1.999999999999ap-4 els
    = Some [MoveTo (P 0 0); LineTo (P 10 0); @ClosePath float; LineTo (P 10 10); LineTo (P 0 10)].
Proof. split; vm_compute; reflexivity. Qed.

(* a cubic and a quadratic run on binary64: 12 resp. 6 LineTo, the last one the stored end point *)
Example C05_runs_f64 :
  option_map (fun o => (length o, last o (@ClosePath float)))
             (flatten (H := F64) 0.25 [MoveTo (P 0 0); CurveTo (P 10 30) (P 50 40) (P 90 0)])
    = Some (13%nat, LineTo (P 90 0)) /\
  option_map (fun o => (length o, last o (@ClosePath float)))
             (flatten (H := F64) 0.25 [MoveTo (P 0 0); QuadTo (P 5 9) (P 10 0)])
    = Some (5%nat, LineTo (P 10 0)).
Proof. split; vm_compute; reflexivity. Qed.
End F64Instances.
