(** C05 — placeholder while the correspondence is being set up *)
From Coq Require Import ZArith Reals Bool List.
From KV Require Import Scalar RInst Geom Curves Path Flatten C05_proofs.
