(** C08 — bounding boxes are tight and extrema are complete. Statements only. *)
From Coq Require Import ZArith Reals List Bool.
From KV Require Import Scalar RInst Geom Curves Rect Path Solvers Extrema C08_proofs.
Import ListNotations.
Local Open Scope R_scope.

Theorem C08_line_extrema : forall l : Line R, line_extrema l = [].
Proof. exact line_extrema_nil. Qed.
